(* Executable entry point of the spline models (C14, C15) for the correspondence check, at
   T := float.  Mirror of harness/src/spline.rs.  Floats travel as IEEE-754 bit patterns.
     op 0  ev   : i k orgflag org nt t* x            -> bsplev x i k t org
     op 1  dn   : i k m orgflag org nt t* x          -> bspldnev x i k t m org
     op 2  grid : k imax mmax nt t* nx x*            -> for x, for i < imax: bsplev None, then
                                                        bspldnev None for m = 0..mmax
   each result: `0 bits` (Ok) / `1` (Err) / `2` (Panic), concatenated
     op 10 pp   : kind k nt t* hasc [nc c*] dosolve [ntau tau* ny y* left_n right_n lsq] nq query*
                  kind 0 f64 / 1 Dual / 2 Dual2 coefficients (c, y encoded accordingly);
                  query = 0 x m (ppdnev_single) | 1 X m (ppdnev_single_dual) | 2 X m (.._dual2)
                        | 3 number (mapped_value)
                  output: outcome of new; outcome of csolve with the coefficients; each query
     op 3  evd  : kind(1|2) i k orgflag org nt t* X  -> bsplev_single_dual / _dual2 (X a Dual / Dual2 abscissa)
     op 4  vec  : k i m nt t* nx x*                  -> PPSpline::new(k, t, None).bspldnev(x, i, m): `0 n bits*` | 2
     op 5  ppeq : kind(0|1|2) A B, each = k nt t* hasc [nc c*] -> `0 (A == B) (B == A)` | 2 (a constructor aborts) *)
From Coq Require Import ZArith List Bool Floats.
From RL Require Import Base.Outcome Base.Num Base.Str Base.NumFloat Model.Dual Model.Number Model.Linalg
  Model.Spline Model.PPSpline Run.RunBase Run.RunNum.
Import ListNotations.
Open Scope Z_scope.

Definition out_f (o : outcome float) : list Z :=
  match o with Ok x => [0; bits_of_float x] | Err => [1] | Panic => [2] end.

Definition rd_org (flag org : Z) : option nat := if flag =? 1 then Some (Z.to_nat org) else None.

Definition rd_fvec (l : list Z) : list float * list Z :=
  match l with n :: r => rd_fs (Z.to_nat n) r | [] => ([], []) end.

Definition grid (k imax mmax : nat) (t xs : list float) : list Z :=
  flat_map (fun x =>
    flat_map (fun i =>
      out_f (bsplev x i k t None) ++
      flat_map (fun m => out_f (bspldnev x i k t m None)) (seq 0 (S mmax)))
      (seq 0 imax)) xs.

Definition runSplineC14 (c : list Z) : list Z :=
  match c with
  | 0 :: i :: k :: fl :: org :: r =>
      let '(t, r) := rd_fvec r in
      let '(x, _) := rd_f r in
      out_f (bsplev x (Z.to_nat i) (Z.to_nat k) t (rd_org fl org))
  | 1 :: i :: k :: m :: fl :: org :: r =>
      let '(t, r) := rd_fvec r in
      let '(x, _) := rd_f r in
      out_f (bspldnev x (Z.to_nat i) (Z.to_nat k) t (Z.to_nat m) (rd_org fl org))
  | 2 :: k :: imax :: mmax :: r =>
      let '(t, r) := rd_fvec r in
      let '(xs, _) := rd_fvec r in
      grid (Z.to_nat k) (Z.to_nat imax) (Z.to_nat mmax) t xs
  | _ => [-1]
  end.

(* ---------------------------------------------------------------- C15 *)
Definition rd_nat (l : list Z) : nat * list Z :=
  match l with n :: r => (Z.to_nat n, r) | [] => (O, []) end.
Definition out_gen {A} (wr : A -> list Z) (o : outcome A) : list Z :=
  match o with Ok x => 0 :: wr x | Err => [1] | Panic => [2] end.
Definition rd_vec {A} (rd : list Z -> A * list Z) (l : list Z) : list A * list Z :=
  match l with n :: r => rd_many rd (Z.to_nat n) r | [] => ([], []) end.

Section Sess.
  Context {E : Type} {OE : Ops E} (xmul : float -> E -> E)
          (rdE : list Z -> E * list Z) (wrE : E -> list Z)
          (q_dual : @ppspline float E -> dual float -> nat -> outcome (dual float))
          (q_dual2 : @ppspline float E -> dual2 float -> nat -> outcome (dual2 float))
          (mapped : @ppspline float E -> number float -> outcome (number float)).

  Fixpoint queries (s : @ppspline float E) (nq : nat) (l : list Z) : list Z :=
    match nq with
    | O => []
    | S q =>
      match l with
      | 0 :: r => let '(x, r) := rd_f r in let '(m, r) := rd_nat r in
                  out_gen wrE (ppdnev_single xmul s x m) ++ queries s q r
      | 1 :: r => let '(x, r) := rd_dual r in let '(m, r) := rd_nat r in
                  out_gen wr_dual (q_dual s x m) ++ queries s q r
      | 2 :: r => let '(x, r) := rd_dual2 r in let '(m, r) := rd_nat r in
                  out_gen wr_dual2 (q_dual2 s x m) ++ queries s q r
      | 3 :: r => let '(x, r) := rd_number r in
                  out_gen wr_number (mapped s x) ++ queries s q r
      | _ => [-1]
      end
    end.

  Definition wr_coeffs (s : @ppspline float E) : list Z :=
    match pc s with
    | Some c => Z.of_nat (length c) :: flat_map wrE c
    | None => [-1]
    end.

  Definition session (l : list Z) : list Z :=
    let '(k, r) := rd_nat l in
    let '(t, r) := rd_fvec r in
    let '(hasc, r) := rd_nat r in
    let '(c, r) := (if Nat.eqb hasc 1 then let '(c, r) := rd_vec rdE r in (Some c, r) else (None, r)) in
    let '(dosolve, r) := rd_nat r in
    match pp_new k t c with
    | Panic => [2]
    | Err => [1]
    | Ok s0 =>
      if Nat.eqb dosolve 1 then
        let '(tau, r) := rd_fvec r in
        let '(y, r) := rd_vec rdE r in
        let '(ln, r) := rd_nat r in
        let '(rn, r) := rd_nat r in
        let '(lsq, r) := rd_nat r in
        let '(nq, r) := rd_nat r in
        let o := csolve xmul s0 tau y ln rn (Nat.eqb lsq 1) in
        let s := match o with Ok s1 => s1 | _ => s0 end in
        0 :: out_gen wr_coeffs o ++ queries s nq r
      else
        let '(nq, r) := rd_nat r in
        0 :: queries s0 nq r
    end.
End Sess.

Definition runSplineC15 (c : list Z) : list Z :=
  match c with
  | 10 :: 0 :: r => session xmul_num rd_f wr_f ppdnev_f_dual ppdnev_f_dual2 mapped_value_f r
  | 10 :: 1 :: r => session xmul_dual rd_dual wr_dual ppdnev_d_dual ppdnev_d_dual2 mapped_value_d r
  | 10 :: 2 :: r => session xmul_dual2 rd_dual2 wr_dual2 ppdnev_d2_dual ppdnev_d2_dual2 mapped_value_d2 r
  | _ => [-1]
  end.

(* ---------------------------------------------------------------- basis at a dual abscissa, vector form, == *)
Definition rd_pp {E} (rdE : list Z -> E * list Z) (l : list Z) : outcome (@ppspline float E) * list Z :=
  let '(k, r) := rd_nat l in
  let '(t, r) := rd_fvec r in
  let '(hasc, r) := rd_nat r in
  let '(c, r) := (if Nat.eqb hasc 1 then let '(c, r) := rd_vec rdE r in (Some c, r) else (None, r)) in
  (pp_new k t c, r).
Definition ppeq_run {E} (rdE : list Z -> E * list Z) (e : E -> E -> bool) (l : list Z) : list Z :=
  let '(a, r) := rd_pp rdE l in
  let '(b, _) := rd_pp rdE r in
  match a, b with
  | Ok x, Ok y => [0; zb (pp_eqb e x y); zb (pp_eqb e y x)]
  | _, _ => [2]
  end.

Definition runSplineX (c : list Z) : list Z :=
  match c with
  | 3 :: 1 :: i :: k :: fl :: org :: r =>
      let '(t, r) := rd_fvec r in
      let '(x, _) := rd_dual r in
      out_gen wr_dual (bsplev_dual x (Z.to_nat i) (Z.to_nat k) t (rd_org fl org))
  | 3 :: _ :: i :: k :: fl :: org :: r =>
      let '(t, r) := rd_fvec r in
      let '(x, _) := rd_dual2 r in
      out_gen wr_dual2 (bsplev_dual2 x (Z.to_nat i) (Z.to_nat k) t (rd_org fl org))
  | 4 :: k :: i :: m :: r =>
      let '(t, r) := rd_fvec r in
      let '(xs, _) := rd_fvec r in
      match pp_new (E:=float) (Z.to_nat k) t None with
      | Ok s => match pp_bspldnev s xs (Z.to_nat i) (Z.to_nat m) with
                | Ok ys => 0 :: Z.of_nat (length ys) :: wr_fs ys
                | _ => [2]
                end
      | _ => [2]
      end
  | 5 :: 0 :: r => ppeq_run rd_f neqb r
  | 5 :: 1 :: r => ppeq_run rd_dual (deqb false) r
  | 5 :: _ :: r => ppeq_run rd_dual2 (d2eqb false) r
  | _ => [-1]
  end.

Definition runSpline (c : list Z) : list Z :=
  match c with
  | 10 :: _ => runSplineC15 c
  | 3 :: _ | 4 :: _ | 5 :: _ => runSplineX c
  | _ => runSplineC14 c
  end.
