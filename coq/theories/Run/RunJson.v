(* Executable entry point of the save/load and entry-point models (C16, C20), T := float.
   Mirror of harness/src/json.rs (see there for the encodings).
     runJson (1 :: tree)        from_json_model        -> 0 kind nshape shape* tree(enc_obj v) | 1 | 2
     runJson (2 :: kind :: tree) direct loader of `kind` -> same
     runJson (3 :: obj)         tree of enc_obj o       -> 0 tree | 1 (constructor error) | 2
     runJson (4 :: obj)         tree of enc_payload o
     runJson (10.. :: args)     constructors, see below *)
From Coq Require Import ZArith List Bool Floats.
From RL Require Import Base.Outcome Base.Num Base.Str Base.NumFloat Model.Dates Model.Calendar Model.Named
  Model.Dual Model.Number Model.FX Model.Spline Model.Linalg Model.Json Model.Entry
  Run.RunBase Run.RunNum Run.RunCal Run.RunFX.
Import ListNotations.
Open Scope Z_scope.

Notation jsn := (json float).

(* ------------------------------------------------------------------ trees <-> integers *)
Definition rd_key (l : list Z) : key * list Z :=
  match l with
  | 0 :: n :: r => let '(s, r') := take n r in (KStr s, r')
  | _ :: z :: r => (KInt z, r)
  | _ => (KInt 0, [])
  end.
Fixpoint rdj (fuel : nat) (l : list Z) : jsn * list Z :=
  match fuel with
  | O => (JNull, [])
  | S f =>
      match l with
      | 0 :: r => (JNull, r)
      | 1 :: b :: r => (JBool (negb (b =? 0)), r)
      | 2 :: z :: r => (JInt z, r)
      | 3 :: b :: r => (JNum (float_of_bits b), r)
      | 4 :: n :: r => let '(s, r') := take n r in (JStr s, r')
      | 7 :: d :: r => (JDate d, r)
      | 5 :: n :: r => let '(xs, r') := rd_many (rdj f) (Z.to_nat n) r in (JArr xs, r')
      | 6 :: n :: r =>
          let '(xs, r') := rd_many (fun l0 => let '(k, l1) := rd_key l0 in
                                              let '(v, l2) := rdj f l1 in ((k, v), l2)) (Z.to_nat n) r in
          (JObj xs, r')
      | _ => (JNull, [])
      end
  end.
Definition rd_json (l : list Z) : jsn * list Z := rdj (length l) l.

Definition wr_key (k : key) : list Z :=
  match k with KStr s => 0 :: Z.of_nat (length s) :: s | KInt z => [1; z] end.
Fixpoint wrj (j : jsn) : list Z :=
  match j with
  | JNull => [0]
  | JBool b => [1; if b then 1 else 0]
  | JInt z => [2; z]
  | JNum x => [3; bits_of_float x]
  | JStr s => 4 :: Z.of_nat (length s) :: s
  | JDate d => [7; d]
  | JArr l => 5 :: Z.of_nat (length l) :: flat_map wrj l
  | JObj kvs => 6 :: Z.of_nat (length kvs) :: flat_map (fun kv => match kv with (k, v) => wr_key k ++ wrj v end) kvs
  end.

(* ------------------------------------------------------------------ objects *)
Definition jnum_of (x : number float) : jnumber float :=
  match x with NF f => JNF f | ND d => JND d | ND2 d => JND2 (j_of_dual2 d) end.
Definition jrate_of (q : fxrate float) : jfxrate float :=
  mkJRate (p0 (pair q)) (p1 (pair q)) (jnum_of (rate q)) (settlement q).
Definition jfx_of (f : fxrates float) : jfx float :=
  mkJFx (map jrate_of (fx_rates f)) (currencies f) (fx_array f).

(* Cal::new: IndexSet / HashSet from_iter drop repeated entries *)
Definition norm_cal (c : cal) : cal := mkCal (zdedup (c_mask c)) (zdedup (c_hols c)).
Definition norm_ucal (u : ucal) : ucal :=
  mkUCal (map norm_cal (u_cals u)) (option_map (map norm_cal) (u_settle u)).

(* Nodes -> NodesTimestamp (seconds) -> sort_keys, as CurveDF::try_new does *)
Definition mk_nodes {V} (l : list (Z * V)) : list (Z * V) :=
  sort_keys (fold_left (fun acc kv => im_put (fst kv * 86400) (snd kv) acc) l []).

Definition rd_node {V} (rd : list Z -> V * list Z) (l : list Z) : (Z * V) * list Z :=
  match l with d :: r => let '(v, r') := rd r in ((d, v), r') | [] => ((0, fst (rd [])), []) end.

Definition rd_caltype (l : list Z) : outcome caltype * list Z :=
  match l with
  | 0 :: r => let '(c, r') := read_cal r in (omap (fun c => CTCal (norm_cal c)) c, r')
  | 1 :: r => let '(u, r') := read_union r in (omap (fun u => CTUnion (norm_ucal u)) u, r')
  | _ :: r => let '(s, r') := rd_name r in (omap CTNamed (named_try_new s), r')
  | [] => (Panic, [])
  end.

Definition rd_curve (l : list Z) : outcome (jcurve float) :=
  match l with
  | nk :: nn :: r =>
      let n := Z.to_nat nn in
      let '(nodes, r) :=
        if nk =? 0 then let '(m, r') := rd_many (rd_node rd_f) n r in (NdF (mk_nodes m), r')
        else if nk =? 1 then let '(m, r') := rd_many (rd_node rd_dual) n r in (NdD (mk_nodes m), r')
        else let '(m, r') := rd_many (rd_node rd_dual2) n r in
             (NdD2 (mk_nodes (map (fun kv => (fst kv, j_of_dual2 (snd kv))) m)), r') in
      match r with
      | rule :: r =>
          let '(id, r) := rd_name r in
          match r with
          | conv :: md :: hb :: r =>
              let '(base, r) := if hb =? 1 then let '(x, r') := rd_f r in (Some x, r') else (None, r) in
              let '(cal, _) := rd_caltype r in
              do c <- cal;
              Ok (mkJCurve nodes (Z.to_nat rule) id (Z.to_nat conv) (Z.to_nat md) base c)
          | _ => Panic
          end
      | [] => Panic
      end
  | _ => Panic
  end.

Definition rd_spline {X} (rd : list Z -> X * list Z) (l : list Z) : outcome (jspline float X) :=
  match l with
  | k :: nt :: r =>
      let '(t, r) := rd_fs (Z.to_nat nt) r in
      let c := match r with
               | 1 :: nc :: r' => Some (fst (rd_many rd (Z.to_nat nc) r'))
               | _ => None
               end in
      do s <- pp_new (Z.to_nat k) t c;
      Ok (mkJSp (Z.of_nat (pp_k s)) (pp_t s) (pp_c s) (Z.of_nat (pp_n s)))
  | _ => Panic
  end.

(* construct, `update` with the trailing quotes (if any), then switch to the requested order *)
Definition rd_fxobj (l : list Z) : outcome (jfx float) :=
  let '((qs, base), r) := rd_market l in
  do f <- build_market qs base;
  let '(upd, _) := rd_quotes (tl r) in
  do f1 <- match upd with
           | [] => Ok f
           | _ => do u <- build_quotes upd; fx_update f u
           end;
  do g <- fx_set_ad_order f1 (order_of_Z (hd 1 r));
  Ok (jfx_of g).

Definition rd_obj (l : list Z) : outcome (obj float) :=
  match l with
  | 0 :: r => Ok (ODual (fst (rd_dual r)))
  | 1 :: r => Ok (ODual2 (j_of_dual2 (fst (rd_dual2 r))))
  | 2 :: r => omap (fun c => OCal (norm_cal c)) (fst (read_cal r))
  | 3 :: r => omap (fun u => OUnion (norm_ucal u)) (fst (read_union r))
  | 4 :: r => omap ONamed (named_try_new (fst (rd_name r)))
  | 5 :: r => omap OFX (rd_fxobj r)
  | 6 :: r => omap OCurve (rd_curve r)
  | 7 :: r => omap OSpF (rd_spline rd_f r)
  | 8 :: r => omap OSpD (rd_spline rd_dual r)
  | 9 :: r => omap OSpD2 (rd_spline (fun l => let '(d, r') := rd_dual2 l in (j_of_dual2 d, r')) r)
  | _ => Panic
  end.

(* ------------------------------------------------------------------ outputs *)
Definition out_load (o : outcome (obj float)) : list Z :=
  match o with
  | Ok v => let sh := shape_vec v in 0 :: kind_of v :: Z.of_nat (length sh) :: sh ++ wrj (enc_obj v)
  | Err => [1]
  | Panic => [2]
  end.
Definition out_vec (o : outcome (list Z)) : list Z :=
  match o with Ok v => 0 :: v | Err => [1] | Panic => [2] end.

Definition run_csolve (l : list Z) : list Z :=
  match l with
  | k :: nt :: r =>
      let '(t, r) := rd_fs (Z.to_nat nt) r in
      match r with
      | ntau :: r =>
          let '(tau, r) := rd_fs (Z.to_nat ntau) r in
          match r with
          | ny :: r =>
              let '(y, r) := rd_fs (Z.to_nat ny) r in
              match r with
              | ln :: rn :: lsq :: _ =>
                  out_vec (do s <- pp_new (X:=float) (Z.to_nat k) t None;
                           do s' <- csolve (X:=float) nmul s tau y (Z.to_nat ln) (Z.to_nat rn) (negb (lsq =? 0));
                           match pp_c s' with
                           | Some c => Ok (Z.of_nat (length c) :: map bits_of_float c)
                           | None => Err
                           end)
              | _ => [-1]
              end
          | [] => [-1]
          end
      | [] => [-1]
      end
  | _ => [-1]
  end.

Definition runJson (l : list Z) : list Z :=
  match l with
  | 1 :: r => out_load (from_json_model (fst (rd_json r)))
  | 2 :: k :: r => out_load (dec_payload rebuild_named rebuild_fx (Z.to_nat k) (fst (rd_json r)))
  | 3 :: r => match rd_obj r with Ok o => 0 :: wrj (enc_obj o) | Err => [1] | Panic => [2] end
  | 4 :: r => match rd_obj r with Ok o => 0 :: wrj (enc_payload o) | Err => [1] | Panic => [2] end
  (* constructors *)
  | 10 :: r =>
      let '(vars, r) := rd_names r in let '(x, r) := rd_f r in
      match r with
      | nd :: r => let '(d, _) := rd_fs (Z.to_nat nd) r in
                   out_vec (omap (fun v => [Z.of_nat (length (vs v)); Z.of_nat (length (du v))]) (dual_try_new x vars d))
      | [] => [-1]
      end
  | 11 :: r =>
      let '(vars, r) := rd_names r in let '(x, r) := rd_f r in
      match r with
      | nd :: r =>
          let '(d, r) := rd_fs (Z.to_nat nd) r in
          match r with
          | ndd :: r =>
              let '(dd, _) := rd_fs (Z.to_nat ndd) r in
              out_vec (omap (fun v => let j := j_of_dual2 v in
                                      [Z.of_nat (length (vs2 v)); Z.of_nat (length (du2 v)); a_rows (j2_dd j); a_cols (j2_dd j)])
                            (dual2_try_new x vars d dd))
          | [] => [-1]
          end
      | [] => [-1]
      end
  | 12 :: r => out_vec (omap wr_name (ccy_try_new (fst (rd_name r))))
  | 13 :: r => let '(a, r) := rd_name r in let '(b, _) := rd_name r in
               out_vec (omap (fun p => wr_name (pair_name p)) (fxpair_try_new a b))
  | 14 :: r => let '(a, r) := rd_name r in let '(b, r) := rd_name r in let '(x, _) := rd_number r in
               out_vec (omap (fun _ => []) (fxrate_try_new a b x None))
  | 15 :: r => out_vec (omap (fun f => let sh := shape_vec (OFX f) in Z.of_nat (length sh) :: sh) (rd_fxobj r))
  | 16 :: r => out_vec (omap (fun n => let sh := shape_vec (T:=float) (ONamed n) in Z.of_nat (length sh) :: sh)
                             (named_try_new (fst (rd_name r))))
  | 17 :: nm :: r => let '(mask, _) := take nm r in
                     out_vec (omap (fun c => let sh := shape_vec (T:=float) (OCal (norm_cal c)) in Z.of_nat (length sh) :: sh)
                                   (cal_new [] mask))
  | 18 :: r => run_csolve r
  | _ => [-1]
  end.
