(* Executable entry point of the curve model (C11, C12) for the correspondence check; mirror of
   harness/src/curve.rs (same case encoding, same output; see the header of that file).
   Output floats are written as 2^64 + IEEE bits. *)
From Coq Require Import ZArith List Bool Floats.
From RL Require Import Base.Outcome Base.Num Base.Str Base.NumFloat Model.Dual Model.Number Model.Curve
  Run.RunBase Run.RunNum.
Import ListNotations.
Open Scope Z_scope.

Definition FMARK : Z := 18446744073709551616.
Definition wf (x : float) : list Z := [FMARK + bits_of_float x].
Definition wfs (l : list float) : list Z := map (fun x => FMARK + bits_of_float x) l.
Definition wmat (m : list (list float)) : list Z :=
  Z.of_nat (length m) :: Z.of_nat (match m with r :: _ => length r | [] => 0%nat end) :: flat_map wfs m.
Definition wdual (d : dual float) : list Z :=
  wr_names (vs d) ++ wf (re d) ++ Z.of_nat (length (du d)) :: wfs (du d).
Definition wdual2 (d : dual2 float) : list Z :=
  wr_names (vs2 d) ++ wf (re2 d) ++ Z.of_nat (length (du2 d)) :: wfs (du2 d) ++ wmat (dd2 d).
Definition wnumber (x : number float) : list Z :=
  match x with
  | NF f => 0 :: wf f
  | ND d => 1 :: wdual d
  | ND2 d => 2 :: wdual2 d
  end.
Definition out_num (o : outcome (number float)) : list Z :=
  match o with Ok x => 0 :: wnumber x | Err => [1] | Panic => [2] end.
Definition out_nat (o : outcome nat) : list Z :=
  match o with Ok x => [0; Z.of_nat x] | Err => [1] | Panic => [2] end.

Definition mk_rule (r : Z) : rule :=
  if r =? 0 then LogLinear else if r =? 1 then Linear else if r =? 2 then LinearZeroRate
  else if r =? 3 then FlatForward else if r =? 4 then FlatBackward else Null.
Definition mk_ad (o : Z) : adorder := if o =? 0 then OZero else if o =? 1 then OOne else OTwo.
Definition ad_int (a : adorder) : Z := match a with OZero => 0 | OOne => 1 | OTwo => 2 end.

Definition rd_node (l : list Z) : (Z * number float) * list Z :=
  match l with
  | k :: r => let '(v, r') := rd_number r in ((k, v), r')
  | [] => ((0, NF 0%float), [])
  end.

(* value, then gradient1(names) (and gradient2(names) at second order) *)
Definition value_with_grads (v : number float) (names : list name) : list Z :=
  wnumber v ++
  match v with
  | NF _ => []
  | ND d => let g := gradient1 d names in Z.of_nat (length g) :: wfs g
  | ND2 d => let g := gradient1_2 d names in
             Z.of_nat (length g) :: wfs g ++ wmat (gradient2 d names)
  end.

Fixpoint run_acts (n : nat) (path : Z) (c : curve float) (l : list Z) : list Z :=
  match n with
  | O => []
  | S k =>
    match l with
    | 0 :: x :: r => out_num (interpolated_value c x) ++ run_acts k path c r
    | 1 :: x :: r => (if (path =? 0) || (path =? 2) then out_nat (node_index c x) else [-1]) ++ run_acts k path c r
    | 2 :: o :: r => 0 :: run_acts k path (set_ad_order c (mk_ad o)) r
    | 3 :: r => 0 :: ad_int (curve_ad c) :: run_acts k path c r
    | 4 :: r =>
        let nm := nodes_index_map (c_nodes c) in
        0 :: Z.of_nat (length nm) :: flat_map (fun kv => fst kv :: wnumber (snd kv)) nm ++ run_acts k path c r
    | 5 :: x :: r => out_num (index_value c x) ++ run_acts k path c r
    | 6 :: x :: r =>
        let '(names, r') := rd_names r in
        match interpolated_value c x with
        | Ok v => 0 :: value_with_grads v names
        | Err => [1]
        | Panic => [2]
        end ++ run_acts k path c r'
    | _ => [-1]
    end
  end.

(* path 0: `Nodes` of the kind given by `ad`; the harness aborts on a value of another kind *)
Definition all_dual (m : list (Z * number float)) : option (list (Z * dual float)) :=
  fold_right (fun kv acc => match snd kv, acc with ND d, Some l => Some ((fst kv, d) :: l) | _, _ => None end)
             (Some []) m.
Definition all_dual2 (m : list (Z * number float)) : option (list (Z * dual2 float)) :=
  fold_right (fun kv acc => match snd kv, acc with ND2 d, Some l => Some ((fst kv, d) :: l) | _, _ => None end)
             (Some []) m.
Definition nodes_of_kind (ad : Z) (m : list (Z * number float)) : option (nodes float) :=
  if ad =? 0 then Some (NsF (map (fun kv => (fst kv, num_to_f (snd kv))) m))
  else if ad =? 1 then option_map NsD (all_dual m)
  else option_map NsD2 (all_dual2 m).

Definition run_curve (l : list Z) : list Z :=
  match l with
  | path :: rl :: ad :: r =>
    let '(id, r) := rd_name r in
    match r with
    | hasbase :: base :: n :: r =>
      let ob := if hasbase =? 0 then None else Some (float_of_bits base) in
      let '(raw, r) := rd_many rd_node (Z.to_nat n) r in
      let im := im_from_iter Z.eqb raw in                    (* IndexMap::from_iter on datetime keys *)
      (* path 2 = path 0 followed by to_json / from_json with the node entries of the document in supply order: the
         loader sorts the keys again (Model/Json.v dec_nodes), so the curve is the same *)
      let oc := if (path =? 0) || (path =? 2) then option_map (fun nd => curve_try_new nd (mk_rule rl) id ob) (nodes_of_kind ad im)
                else Some (curve_new_py im (mk_rule rl) (mk_ad ad) id ob) in
      match oc, r with
      | Some c, nact :: r => 0 :: run_acts (Z.to_nat nact) path c r
      | None, _ => [2]
      | _, _ => [-1]
      end
    | _ => [-1]
    end
  | _ => [-1]
  end.

Definition fidx (o : outcome nat) : Z := match o with Ok i => Z.of_nat i | _ => -2 end.

Definition runCurve (c : list Z) : list Z :=
  match c with
  | 0 :: lcf :: lc :: n :: r =>
      let '(l, r) := rd_fs (Z.to_nat n) r in
      let '(v, _) := rd_f r in
      out_nat (index_left_lc nleb neqb l v (if lcf =? 0 then None else Some (Z.to_nat lc)))
  | 1 :: lcf :: lc :: n :: r =>
      let '(l, r) := take n r in
      match r with
      | v :: _ => out_nat (index_left_lc Z.leb Z.eqb l v (if lcf =? 0 then None else Some (Z.to_nat lc)))
      | [] => [-1]
      end
  | 2 :: n :: r =>
      let '(l, r) := rd_fs (Z.to_nat n) r in
      match r with
      | q :: r => let '(vs, _) := rd_fs (Z.to_nat q) r in
                  map (fun v => fidx (index_left nleb neqb l v)) vs
      | [] => [-1]
      end
  | 10 :: r => run_curve r
  | _ => [-1]
  end.
