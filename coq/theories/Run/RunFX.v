(* Executable entry point for C09/C10 (mirror of harness/src/fx.rs), T := float.
     quote  = name(lhs) name(rhs) number has_settle [day number]
     market = nq quote.. has_base [name]
     probes = np [name name]..
   runFX (0 :: market)                          = cls ; Ok -> n names n*n float bits
   runFX (1 :: market probes nops [op probes]..) = cls0 [snapshot] [cls_i snapshot]..
     op = 0 nq quote.. | 1 order ;  snapshot = per probe 0 | 1 number *)
From Coq Require Import ZArith List Bool Floats.
From RL Require Import Base.Outcome Base.Num Base.Str Base.NumFloat Model.Dual Model.Number Model.FX
  Run.RunBase Run.RunNum.
Import ListNotations.
Open Scope Z_scope.

Record rawquote := mkRaw { rq_l : name; rq_r : name; rq_x : number float; rq_s : option Z }.

Definition rd_quote (l : list Z) : rawquote * list Z :=
  let '(a, r) := rd_name l in
  let '(b, r) := rd_name r in
  let '(x, r) := rd_number r in
  match r with
  | 1 :: d :: r' => (mkRaw a b x (Some d), r')
  | _ :: r' => (mkRaw a b x None, r')
  | [] => (mkRaw a b x None, [])
  end.
Definition rd_quotes (l : list Z) : list rawquote * list Z :=
  match l with n :: r => rd_many rd_quote (Z.to_nat n) r | [] => ([], []) end.
Definition rd_probe (l : list Z) : (name * name) * list Z :=
  let '(a, r) := rd_name l in let '(b, r) := rd_name r in ((a, b), r).
Definition rd_probes (l : list Z) : list (name * name) * list Z :=
  match l with n :: r => rd_many rd_probe (Z.to_nat n) r | [] => ([], []) end.
Definition rd_market (l : list Z) : (list rawquote * option name) * list Z :=
  let '(qs, r) := rd_quotes l in
  match r with
  | 1 :: r' => let '(b, r'') := rd_name r' in ((qs, Some b), r'')
  | _ :: r' => ((qs, None), r')
  | [] => ((qs, None), [])
  end.

Definition build_quotes (qs : list rawquote) : outcome (list (fxrate float)) :=
  omapM (fun q => fxrate_try_new (rq_l q) (rq_r q) (rq_x q) (rq_s q)) qs.
Definition build_market (qs : list rawquote) (base : option name) : outcome (fxrates float) :=
  do rates <- build_quotes qs;
  do b <- match base with
          | Some s => omap Some (ccy_try_new s)
          | None => Ok None
          end;
  fx_try_new rates b.

Definition snapshot (fx : fxrates float) (probes : list (name * name)) : list Z :=
  flat_map (fun p =>
              match ccy_try_new (fst p), ccy_try_new (snd p) with
              | Ok a, Ok b => match fx_rate fx a b with
                              | Some x => 1 :: wr_number x
                              | None => [0]
                              end
              | _, _ => [0]
              end) probes.

Definition run_new (l : list Z) : list Z :=
  let '((qs, base), _) := rd_market l in
  match build_market qs base with
  | Ok fx =>
      let cs := currencies fx in
      0 :: Z.of_nat (length cs) :: flat_map wr_name cs ++
        flat_map (fun x => flat_map (fun y =>
                    match fx_rate fx x y with
                    | Some v => wr_f (num_real v)
                    | None => [-1]
                    end) cs) cs
  | Err => [1]
  | Panic => [2]
  end.

Definition order_of_Z (z : Z) : adorder := match z with 0 => OZero | 1 => OOne | _ => OTwo end.

Fixpoint run_ops (n : nat) (fx : fxrates float) (l : list Z) : list Z :=
  match n with
  | O => []
  | S k =>
      match l with
      | [] => []
      | kind :: r =>
          let '(res, r) :=
            if kind =? 0 then
              let '(upd, r') := rd_quotes r in
              (match build_quotes upd with
               | Ok rates => fx_update fx rates
               | Err => Err
               | Panic => Panic
               end, r')
            else match r with
                 | o :: r' => (fx_set_ad_order fx (order_of_Z o), r')
                 | [] => (Panic, [])
                 end in
          let '(probes, r) := rd_probes r in
          match res with
          | Panic => [2]
          | Err => 1 :: snapshot fx probes ++ run_ops k fx r
          | Ok fx' => 0 :: snapshot fx' probes ++ run_ops k fx' r
          end
      end
  end.

Definition run_hist (l : list Z) : list Z :=
  let '((qs, base), r) := rd_market l in
  let '(probes0, r) := rd_probes r in
  match r with
  | nops :: r =>
      match build_market qs base with
      | Ok fx => 0 :: snapshot fx probes0 ++ run_ops (Z.to_nat nops) fx r
      | Err => [1]
      | Panic => [2]
      end
  | [] => [2]
  end.

Definition runFX (l : list Z) : list Z :=
  match l with
  | 0 :: r => run_new r
  | 1 :: r => run_hist r
  | _ => [-1]
  end.
