(* Shared integer encoding of names, floats, dual numbers and `number` for the executable entry
   points (mirror of harness/src/numenc.rs).
     input : name = len cp* ; float = IEEE bits ; dual = nvars name* re du*(nvars) ;
             dual2 = nvars name* re du*(nvars) dd*(nvars^2) ; number = kind payload
     output: dual = nvars name* re ndu du* ; dual2 = ... ndu du* nrows ncols dd* ; number = kind payload *)
From Coq Require Import ZArith List Bool Floats.
From RL Require Import Base.Outcome Base.Num Base.Str Base.NumFloat Model.Dual Model.Number Run.RunBase.
Import ListNotations.
Open Scope Z_scope.

Definition rd_name (l : list Z) : name * list Z :=
  match l with n :: r => take n r | [] => ([], []) end.
Fixpoint rd_many {A} (rd : list Z -> A * list Z) (n : nat) (l : list Z) : list A * list Z :=
  match n with
  | O => ([], l)
  | S k => let '(x, r) := rd l in let '(xs, r') := rd_many rd k r in (x :: xs, r')
  end.
Definition rd_names (l : list Z) : list name * list Z :=
  match l with n :: r => rd_many rd_name (Z.to_nat n) r | [] => ([], []) end.
Definition rd_f (l : list Z) : float * list Z :=
  match l with b :: r => (float_of_bits b, r) | [] => (0%float, []) end.
Definition rd_fs (n : nat) (l : list Z) : list float * list Z := rd_many rd_f n l.

(* vars are de-duplicated exactly as Dual::try_new does; the encoded arrays are taken as given *)
Definition rd_dual (l : list Z) : dual float * list Z :=
  let '(vars, r) := rd_names l in
  let '(x, r) := rd_f r in
  let '(d, r) := rd_fs (length vars) r in
  (mkDual x (dedup vars) d, r).
Definition rd_dual2 (l : list Z) : dual2 float * list Z :=
  let '(vars, r) := rd_names l in
  let '(x, r) := rd_f r in
  let n := length vars in
  let '(d, r) := rd_fs n r in
  let '(dd, r) := rd_fs (n * n) r in
  (mkDual2 x (dedup vars) d (chunk n n dd), r).
Definition rd_number (l : list Z) : number float * list Z :=
  match l with
  | 0 :: r => let '(x, r) := rd_f r in (NF x, r)
  | 1 :: r => let '(d, r) := rd_dual r in (ND d, r)
  | _ :: r => let '(d, r) := rd_dual2 r in (ND2 d, r)
  | [] => (NF 0%float, [])
  end.

Definition wr_name (s : name) : list Z := Z.of_nat (length s) :: s.
Definition wr_names (l : list name) : list Z := Z.of_nat (length l) :: flat_map wr_name l.
Definition wr_f (x : float) : list Z := [bits_of_float x].
Definition wr_fs (l : list float) : list Z := map bits_of_float l.
Definition wr_dual (d : dual float) : list Z :=
  wr_names (vs d) ++ wr_f (re d) ++ Z.of_nat (length (du d)) :: wr_fs (du d).
Definition wr_dual2 (d : dual2 float) : list Z :=
  wr_names (vs2 d) ++ wr_f (re2 d) ++ Z.of_nat (length (du2 d)) :: wr_fs (du2 d) ++
  Z.of_nat (length (dd2 d)) :: Z.of_nat (match dd2 d with r :: _ => length r | [] => length (dd2 d) end) ::
  flat_map wr_fs (dd2 d).
Definition wr_number (x : number float) : list Z :=
  match x with
  | NF f => 0 :: wr_f f
  | ND d => 1 :: wr_dual d
  | ND2 d => 2 :: wr_dual2 d
  end.
