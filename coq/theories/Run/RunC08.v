(* Executable entry point of the C08 model for the correspondence check: list Z -> list Z *)
From Coq Require Import ZArith List Bool.
From RL Require Import Base.Outcome Model.Dates.
Import ListNotations.
Open Scope Z_scope.

Definition out_z (o : outcome Z) : list Z :=
  match o with Ok x => [0; x] | Err => [1] | Panic => [2] end.
Definition out_b (o : outcome bool) : list Z :=
  match o with Ok b => [0; if b then 1 else 0] | Err => [1] | Panic => [2] end.
Definition mk_roll (k d : Z) : rollday :=
  if k =? 0 then Unspecified else if k =? 1 then RInt d else if k =? 2 then EoM
  else if k =? 3 then SoM else IMM.

Fixpoint zseq (s : Z) (n : nat) : list Z :=
  match n with O => [] | S k => s :: zseq (s + 1) k end.

Definition zhash (l : list Z) : list Z :=
  [fold_left (fun h x => (h * 1000003 + x mod 2305843009213693951) mod 2305843009213693951) l 7].

Definition runC08 (c : list Z) : list Z :=
  match c with
  | [0; n] => let '(y, m, d) := civil_from_days n in [y; m; d; weekday n]
  | [1; y; m; d] => match from_ymd_opt y m d with Some n => [1; n] | None => [0] end
  | [2; n; k; rk; rd] => out_z (add_months_unadj n k (mk_roll rk rd))
  | [3; y; m; rk; rd] => out_z (get_roll y m (mk_roll rk rd))
  | [4; y; m] => out_z (get_imm y m)
  | [5; y; m] => out_z (get_eom y m)
  | [6; n] => out_b (is_imm n)
  | [7; n] => out_b (is_eom n)
  | [8; y] => [if is_leap_year y then 1 else 0]
  | [9; s; cnt] => zhash (
      flat_map (fun n => let '(y, m, d) := civil_from_days n in [y; m; d; weekday n]) (zseq s (Z.to_nat cnt)))
  | [10; y] => zhash (
      flat_map (fun m => map (fun d => match from_ymd_opt y m d with Some n => n | None => -1000000 end)
                             (zseq 0 33)) (zseq 0 14))
  | [11; n; k0; kc; rk; rd] => zhash (
      map (fun k => match add_months_unadj n k (mk_roll rk rd) with
                    | Ok x => x | Err => -1000001 | Panic => -1000002 end) (zseq k0 (Z.to_nat kc)))
  | [12; y] => zhash (
      flat_map (fun m => out_z (get_imm y m) ++ out_z (get_eom y m) ++
                  flat_map (fun r => out_z (get_roll y m (mk_roll (fst r) (snd r))))
                    [(1, 1); (1, 27); (1, 28); (1, 29); (1, 30); (1, 31); (1, 32); (1, 33); (2, 0); (3, 0); (4, 0); (0, 0)])
               (zseq 1 12) ++ [if is_leap_year y then 1 else 0])
  | _ => [-1]
  end.
