(* Executable entry point of the calendar model (C04, C05, C06, date part of C20).
   Case = <calendar encoding> op args, see harness/src/cal.rs. *)
From Coq Require Import ZArith List Bool.
From RL Require Import Base.Outcome Model.Dates Model.Calendar Model.Named Model.SubDay Run.RunBase.
Import ListNotations.
Open Scope Z_scope.

Definition read_cal (l : list Z) : outcome cal * list Z :=
  match l with
  | nm :: r =>
      let '(mask, r) := take nm r in
      match r with
      | nh :: r => let '(hols, r) := take nh r in (cal_new hols mask, r)
      | [] => (Panic, [])
      end
  | [] => (Panic, [])
  end.

Fixpoint read_cals (n : nat) (l : list Z) : outcome (list cal) * list Z :=
  match n with
  | O => (Ok [], l)
  | S k =>
      let '(c, r) := read_cal l in
      let '(cs, r) := read_cals k r in
      (do c' <- c; do cs' <- cs; Ok (c' :: cs'), r)
  end.

Definition read_union (l : list Z) : outcome ucal * list Z :=
  match l with
  | nc :: r =>
      let '(cs, r) := read_cals (Z.to_nat nc) r in
      match r with
      | 1 :: ns :: r =>
          let '(ss, r) := read_cals (Z.to_nat ns) r in
          (do cs' <- cs; do ss' <- ss; Ok (mkUCal cs' (Some ss')), r)
      | _ :: r => (do cs' <- cs; Ok (mkUCal cs' None), r)
      | [] => (Panic, [])
      end
  | [] => (Panic, [])
  end.

(* every calendar kind is run as a (bus, settle, fuel) triple; kinds 0/3 = Cal, 1/2 = UnionCal,
   4/5 = NamedCal *)
Record anycal := mkAny { a_bus : Z -> bool; a_settle : Z -> bool; a_wd : Z -> bool; a_hol : Z -> bool; a_fuel : nat }.
Definition any_of_cal (c : cal) : anycal :=
  mkAny (cal_is_bus c) (cal_is_settle c) (cal_is_weekday c) (cal_is_holiday c) (cal_fuel c).
Definition any_of_ucal (u : ucal) : anycal :=
  mkAny (ucal_is_bus u) (ucal_is_settle u) (ucal_is_weekday u) (ucal_is_holiday u) (ucal_fuel u).

Definition read_any (l : list Z) : outcome anycal * list Z :=
  match l with
  | k :: r =>
      if (k =? 0) || (k =? 3) then let '(c, r) := read_cal r in (omap any_of_cal c, r)
      else if (k =? 1) || (k =? 2) then let '(u, r) := read_union r in (omap any_of_ucal u, r)
      else match r with
           | n :: r => let '(name, r) := take n r in
                       (omap (fun x => any_of_ucal (n_ucal x)) (named_try_new name), r)
           | [] => (Panic, [])
           end
  | [] => (Panic, [])
  end.

(* the calendar a datetime with time of day t (seconds after midnight) sees: Model/SubDay.v *)
Definition read_any_at (t : Z) (l : list Z) : outcome anycal * list Z :=
  match l with
  | k :: r =>
      if (k =? 0) || (k =? 3) then let '(c, r) := read_cal r in (omap (fun c => any_of_cal (cal_at c t)) c, r)
      else if (k =? 1) || (k =? 2) then let '(u, r) := read_union r in (omap (fun u => any_of_ucal (ucal_at u t)) u, r)
      else match r with
           | n :: r => let '(name, r) := take n r in
                       (omap (fun x => any_of_ucal (ucal_at (n_ucal x) t)) (named_try_new name), r)
           | [] => (Panic, [])
           end
  | [] => (Panic, [])
  end.

Definition mk_mod (m : Z) : modifier :=
  if m =? 0 then Act else if m =? 1 then F else if m =? 2 then ModF else if m =? 3 then P else ModP.
Definition mk_roll (k d : Z) : rollday :=
  if k =? 0 then Unspecified else if k =? 1 then RInt d else if k =? 2 then EoM
  else if k =? 3 then SoM else IMM.
Definition nz (z : Z) : bool := negb (z =? 0).

Definition op1 (c : anycal) (op : Z) (a : list Z) : list Z :=
  let bus := a_bus c in let st := a_settle c in let fu := a_fuel c in
  match op, a with
  | 0, [d] => [zb (bus d)]
  | 1, [d] => [zb (st d)]
  | 2, [d] => [zb (a_wd c d)]
  | 3, [d] => [zb (a_hol c d)]
  | 10, [d; m; s] => out_z (roll bus st fu d (mk_mod m) (nz s))
  | 11, [d; n; s] => out_z (add_bus_days bus st fu d n (nz s))
  | 12, [d; n; s] => out_z (lag bus st fu d n (nz s))
  | 13, [d; n; m; s] => out_z (add_days bus st fu d n (mk_mod m) (nz s))
  | 14, [d; k; m; rk; rd; s] => out_z (add_months bus st fu d k (mk_mod m) (mk_roll rk rd) (nz s))
  | 15, [s; e] => out_l (bus_date_range bus st fu s e)
  | 30, [d0; cnt] => zhash (flat_map (fun d => [zb (bus d); zb (st d)]) (zseq d0 (Z.to_nat cnt)))
  | 31, [d0; cnt] =>
      zhash (flat_map (fun d => flat_map (fun m => flat_map (fun s =>
               out_z (roll bus st fu d (mk_mod m) (nz s))) [0; 1]) [0; 1; 2; 3; 4]) (zseq d0 (Z.to_nat cnt)))
  | 32, [d; m] =>
      zhash (flat_map (fun n => flat_map (fun s =>
               out_z (add_bus_days bus st fu d n (nz s)) ++ out_z (lag bus st fu d n (nz s)) ++
               out_z (add_days bus st fu d n (mk_mod m) (nz s))) [0; 1]) (zseq (-128) 256))
  | _, _ => [-1]
  end.

Definition runCal (l : list Z) : list Z :=
  let '(c, r) := read_any l in
  match c with
  | Err => [1]
  | Panic => [2]
  | Ok c =>
      match r with
      | 20 :: r2 =>
          let '(c2, _) := read_any r2 in
          match c2 with
          | Err => [1] | Panic => [2]
          | Ok c2 => [0; zb (dr_eq (a_bus c) (a_settle c) (a_bus c2) (a_settle c2))]
          end
      | 21 :: _ => [0]
      (* 41 / 42 / 43 = 11 / 12 / 13 from a datetime with a time of day (last argument, seconds after midnight) *)
      | 41 :: [d; n; st; t] | 42 :: [d; n; st; t] =>
          match fst (read_any_at t l) with
          | Ok ct => op1 ct (match r with 41 :: _ => 11 | _ => 12 end) [d; n; st]
          | Err => [1] | Panic => [2]
          end
      (* 40 = 10 (roll) from a datetime with a time of day; 44 = the four predicates at the datetime (d, t) *)
      | 40 :: [d; m; st; t] =>
          match fst (read_any_at t l) with
          | Ok ct => op1 ct 10 [d; m; st]
          | Err => [1] | Panic => [2]
          end
      | 44 :: [d; t] =>
          match fst (read_any_at t l) with
          | Ok ct => [zb (a_bus ct d); zb (a_settle ct d); zb (a_wd ct d); zb (a_hol ct d)]
          | Err => [1] | Panic => [2]
          end
      | 43 :: [d; n; m; st; t] =>
          match fst (read_any_at t l) with
          | Ok ct => op1 ct 13 [d; n; m; st]
          | Err => [1] | Panic => [2]
          end
      | op :: args => op1 c op args
      | [] => [-1]
      end
  end.
