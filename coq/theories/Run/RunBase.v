(* helpers shared by the executable entry points *)
From Coq Require Import ZArith List Bool.
From RL Require Import Base.Outcome.
Import ListNotations.
Open Scope Z_scope.

Fixpoint zseq (s : Z) (n : nat) : list Z :=
  match n with O => [] | S k => s :: zseq (s + 1) k end.

Definition zhash (l : list Z) : list Z :=
  [fold_left (fun h x => (h * 1000003 + x mod 2305843009213693951) mod 2305843009213693951) l 7].

Definition out_z (o : outcome Z) : list Z :=
  match o with Ok x => [0; x] | Err => [1] | Panic => [2] end.
Definition out_l (o : outcome (list Z)) : list Z :=
  match o with Ok x => 0 :: x | Err => [1] | Panic => [2] end.
Definition out_b (o : outcome bool) : list Z :=
  match o with Ok b => [0; if b then 1 else 0] | Err => [1] | Panic => [2] end.
Definition zb (b : bool) : Z := if b then 1 else 0.

Definition take (n : Z) (l : list Z) : list Z * list Z := (firstn (Z.to_nat n) l, skipn (Z.to_nat n) l).
