(* Executable entry point for C07 (and the translator-vs-code correspondence): built-in calendars by name through the
   GENERATED wiring, and the searches for concrete counter-examples when a C07 obligation no longer checks.
   Case = op len <name code points> args, see harness/src/named.rs. Does not depend on Proofs/. *)
From Coq Require Import ZArith List Bool String.
From RL Require Import Base.Outcome Model.Dates Model.Calendar Model.Named Model.Rules Model.RuleChecks
  Gen.DocNames Gen.Fixings Run.RunBase.
Import ListNotations.
Open Scope Z_scope.

Fixpoint find_rules (name : str) (l : list (string * list hrule)) : option (list hrule) :=
  match l with
  | [] => None
  | (k, rs) :: r => if str_eqb name (str_of_string k) then Some rs else find_rules name r
  end.
Fixpoint find_fix (name : str) (l : list (string * (string * list Z))) : option (string * list Z) :=
  match l with
  | [] => None
  | (k, v) :: r => if str_eqb name (str_of_string k) then Some v else find_fix name r
  end.
Fixpoint indices_where {A} (f : A -> bool) (l : list A) (i : Z) : list Z :=
  match l with [] => [] | x :: r => (if f x then [i] else []) ++ indices_where f r (i + 1) end.

Definition runNamed (l : list Z) : list Z :=
  match l with
  | op :: n :: r =>
      let '(name, a) := take n r in
      match op, a with
      | 1, [d0; cnt] =>      (* hol: hashed is_holiday / is_bus_day over a range *)
          match get_calendar_by_name name with
          | Ok c0 => let c := restrict c0 d0 cnt in
                     0 :: zhash (flat_map (fun d => let h := cal_is_holiday c d in   (* cal_is_bus c d, sharing the table lookup *)
                                           [zb h; zb (cal_is_weekday c d && negb h)]) (zseq d0 (Z.to_nat cnt)))
          | Err => [1] | Panic => [2]
          end
      | 2, [d] =>            (* one *)
          match get_calendar_by_name name with
          | Ok c => [0; zb (cal_is_holiday c d); zb (cal_is_bus c d); zb (cal_is_weekday c d)]
          | Err => [1] | Panic => [2]
          end
      | 3, [] => match get_calendar_by_name name with Ok _ => [0] | Err => [1] | Panic => [2] end
      | 10, [d0; cnt] =>     (* weekdays on which the table and the full rule set disagree *)
          match find_rules name full_rules, get_calendar_by_name name with
          | Some rs, Ok c0 => let c := restrict c0 d0 cnt in 0 :: filter (fun d => negb (full_agree c rs d)) (zseq d0 (Z.to_nat cnt))
          | Some _, _ => [1]
          | None, _ => [-1]
          end
      | 11, [d0; cnt] =>     (* weekdays hit by a documented rule that are not holidays *)
          match find_rules name partial_rules, get_calendar_by_name name with
          | Some rs, Ok c0 => let c := restrict c0 d0 cnt in 0 :: filter (fun d => negb (partial_agree c rs d)) (zseq d0 (Z.to_nat cnt))
          | Some _, _ => [1]
          | None, _ => [-1]
          end
      | 12, [d0; cnt] =>     (* fed vs nyc without Good Friday *)
          match by_name "fed", by_name "nyc" with
          | Ok f0, Ok c0 => let f := restrict f0 d0 cnt in let c := restrict c0 d0 cnt in
                            0 :: filter (fun d => negb (fed_nyc_agree f c d)) (zseq d0 (Z.to_nat cnt))
          | _, _ => [1]
          end
      | 13, [] =>            (* fixing history `name` (a currency): first, last, then the days on which business day <> published *)
          match find_fix name fixing_pairs with
          | Some (nm, fx) =>
              match by_name nm with
              | Ok c => 0 :: zmin_list fx :: zmax_list fx ::
                        filter (fun d => negb (fix_agree c fx d)) (cal_date_range (zmin_list fx) (zmax_list fx))
              | _ => [1]
              end
          | None => [-1]
          end
      | 14, [] => 0 :: indices_where (fun nm => negb (resolves nm)) doc_names 0
      | 15, [] => [zb all_bus_check]
      | _, _ => [-1]
      end
  | _ => [-1]
  end.
