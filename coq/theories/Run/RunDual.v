(* Executable entry point of the dual-number model (C01, C02, C03, C17, C18, C19): list Z -> list Z.
   Mirror of harness/src/dual.rs; T := float. *)
From Coq Require Import ZArith List Bool Floats.
From RL Require Import Base.Outcome Base.Num Base.Str Base.NumFloat Model.Dual Model.Number Model.Expr
  Run.RunBase Run.RunNum.
Import ListNotations.
Open Scope Z_scope.

Notation E := (expr float).

Fixpoint rd_expr (fuel : nat) (l : list Z) : E * list Z :=
  match fuel with
  | O => (Cst 0%float, [])
  | S k =>
    let bin (c : E -> E -> E) r := let '(a, r1) := rd_expr k r in let '(b, r2) := rd_expr k r1 in (c a b, r2) in
    let binf (c : E -> float -> E) r := let '(a, r1) := rd_expr k r in let '(f, r2) := rd_f r1 in (c a f, r2) in
    let fbin (c : float -> E -> E) r := let '(f, r1) := rd_f r in let '(a, r2) := rd_expr k r1 in (c f a, r2) in
    let un (c : E -> E) r := let '(a, r1) := rd_expr k r in (c a, r1) in
    match l with
    | 0 :: r => let '(v, r1) := rd_name r in (Var v, r1)
    | 1 :: r => let '(f, r1) := rd_f r in (Cst f, r1)
    | 2 :: r => bin Add r | 3 :: r => binf AddF r | 4 :: r => fbin FAdd r
    | 5 :: r => bin Sub r | 6 :: r => binf SubF r | 7 :: r => fbin FSub r
    | 8 :: r => bin Mul r | 9 :: r => binf MulF r | 10 :: r => fbin FMul r
    | 11 :: r => bin Div r | 12 :: r => binf DivF r | 13 :: r => fbin FDiv r
    | 14 :: r => un Neg r | 15 :: r => un NegRef r
    | 16 :: r => binf Pow r | 17 :: r => binf PowRef r
    | 18 :: r => un Exp r | 19 :: r => un Log r | 20 :: r => un Ncdf r | 21 :: r => un Nicdf r
    | 22 :: r => un Abs r
    | _ => (Cst 0%float, [])
    end
  end.

Definition rd_binding (l : list Z) : (name * float) * list Z :=
  let '(v, r) := rd_name l in let '(f, r') := rd_f r in ((v, f), r').
Definition rd_env (l : list Z) : list (name * float) * list Z :=
  match l with n :: r => rd_many rd_binding (Z.to_nat n) r | [] => ([], []) end.
Fixpoint env_of (b : list (name * float)) : env float :=
  fun v => match b with
           | [] => 0%float
           | (w, x) :: r => if name_eqb v w then x else env_of r v
           end.
(* HashMap::insert semantics: the LAST binding of a name wins *)
Definition env_last (b : list (name * float)) : env float := env_of (rev b).

Definition wr_vec (l : list float) : list Z := Z.of_nat (length l) :: wr_fs l.
Definition wr_mat (m : list (list float)) (ncols : nat) : list Z :=
  Z.of_nat (length m) :: Z.of_nat ncols :: flat_map wr_fs m.
Definition wb (b : bool) : list Z := [0; zb b].
Definition ok (l : list Z) : list Z := 0 :: l.

Definition bin1 (oc : Z) (p : bool) (x y : dual float) : list Z :=
  match oc with
  | 0 => ok (wr_dual (dadd p x y)) | 1 => ok (wr_dual (dsub p x y)) | 2 => ok (wr_dual (dmul p x y))
  | 3 => ok (wr_dual (ddiv p x y)) | 4 => ok (wr_dual (drem p x y))
  | 5 => wb (deqb p x y) | 6 => wb (dltb x y) | 7 => wb (dleb x y) | 8 => wb (dltb y x)
  | 10 => ok (wr_dual (dabs_sub p x y)) | _ => wb (dleb y x)
  end.
Definition bin2 (oc : Z) (p : bool) (x y : dual2 float) : list Z :=
  match oc with
  | 0 => ok (wr_dual2 (d2add p x y)) | 1 => ok (wr_dual2 (d2sub p x y)) | 2 => ok (wr_dual2 (d2mul p x y))
  | 3 => ok (wr_dual2 (d2div p x y)) | 4 => ok (wr_dual2 (d2rem p x y))
  | 5 => wb (d2eqb p x y) | 6 => wb (d2ltb x y) | 7 => wb (d2leb x y) | 8 => wb (d2ltb y x)
  | 10 => ok (wr_dual2 (d2abs_sub p x y)) | _ => wb (d2leb y x)
  end.
(* sharing is only possible when the variable lists are equal (harness: share1/share2) *)
Definition pflag (p : Z) (xs ys : list name) : bool := (p =? 1) && same_vars xs ys.

Definition mixf1 (oc side : Z) (x : dual float) (f : float) : list Z :=
  let fd := dual_new f [] in
  match oc, side with
  | 0, _ => ok (wr_dual (dadd_f x f))
  | 1, 0 => ok (wr_dual (dsub_f x f)) | 1, _ => ok (wr_dual (fsub_d f x))
  | 2, _ => ok (wr_dual (dmul_f x f))
  | 3, 0 => ok (wr_dual (ddiv_f x f)) | 3, _ => ok (wr_dual (fdiv_d f x))
  | 4, 0 => ok (wr_dual (drem_f x f)) | 4, _ => ok (wr_dual (frem_d f x))
  | 5, _ => wb (deqb_f x f)
  | 6, 0 => wb (nltb (re x) f) | 6, _ => wb (nltb f (re x))
  | 7, 0 => wb (nleb (re x) f) | 7, _ => wb (nleb f (re x))
  | 8, 0 => wb (nltb f (re x)) | 8, _ => wb (nltb (re x) f)
  | _, 0 => wb (nleb f (re x)) | _, _ => wb (nleb (re x) f)
  end.
Definition mixf2 (oc side : Z) (x : dual2 float) (f : float) : list Z :=
  match oc, side with
  | 0, _ => ok (wr_dual2 (d2add_f x f))
  | 1, 0 => ok (wr_dual2 (d2sub_f x f)) | 1, _ => ok (wr_dual2 (fsub_d2 f x))
  | 2, _ => ok (wr_dual2 (d2mul_f x f))
  | 3, 0 => ok (wr_dual2 (d2div_f x f)) | 3, _ => ok (wr_dual2 (fdiv_d2 f x))
  | 4, 0 => ok (wr_dual2 (d2rem_f x f)) | 4, _ => ok (wr_dual2 (frem_d2 f x))
  | 5, _ => wb (d2eqb_f x f)
  | 6, 0 => wb (nltb (re2 x) f) | 6, _ => wb (nltb f (re2 x))
  | 7, 0 => wb (nleb (re2 x) f) | 7, _ => wb (nleb f (re2 x))
  | 8, 0 => wb (nltb f (re2 x)) | 8, _ => wb (nltb (re2 x) f)
  | _, 0 => wb (nleb f (re2 x)) | _, _ => wb (nleb (re2 x) f)
  end.

(* f64::is_sign_positive / is_sign_negative: the sign BIT (so -0.0 is negative) *)
Definition sign_neg (f : float) : bool := 9223372036854775808 <=? bits_of_float f.

Definition out_num (o : outcome (number float)) : list Z :=
  match o with Ok x => 0 :: wr_number x | Err => [1] | Panic => [2] end.
Definition out_bool (o : outcome bool) : list Z :=
  match o with Ok b => wb b | Err => [1] | Panic => [2] end.
Definition mk_order (o : Z) : adorder := if o =? 0 then OZero else if o =? 1 then OOne else OTwo.

Definition runDual (c : list Z) : list Z :=
  match c with
  | 1 :: r =>
      let '(b, r1) := rd_env r in
      let '(e, _) := rd_expr (length r1) r1 in
      let rho := env_last b in
      let d := evalDual false e rho in
      ok (wr_f (evalT e rho) ++ wr_dual d ++ wr_vec (gradient1 d (map fst b)))
  | 2 :: r =>
      let '(b, r1) := rd_env r in
      let '(e, _) := rd_expr (length r1) r1 in
      let rho := env_last b in
      let d := evalDual2 false e rho in
      let ws := map fst b in
      ok (wr_f (evalT e rho) ++ wr_dual2 d ++ wr_vec (gradient1_2 d ws) ++
          wr_mat (gradient2 d ws) (length (dedup ws)) ++
          wr_dual (dual_of_dual2 d) ++ wr_dual (dual_of_dual2 d))
  | 3 :: 1 :: oc :: p :: r =>
      let '(x, r1) := rd_dual r in let '(y, _) := rd_dual r1 in bin1 oc (pflag p (vs x) (vs y)) x y
  | 3 :: _ :: oc :: p :: r =>
      let '(x, r1) := rd_dual2 r in let '(y, _) := rd_dual2 r1 in bin2 oc (pflag p (vs2 x) (vs2 y)) x y
  | 4 :: 1 :: oc :: side :: r =>
      let '(x, r1) := rd_dual r in let '(f, _) := rd_f r1 in mixf1 oc side x f
  | 4 :: _ :: oc :: side :: r =>
      let '(x, r1) := rd_dual2 r in let '(f, _) := rd_f r1 in mixf2 oc side x f
  | 5 :: 1 :: oc :: r =>
      let '(x, _) := rd_dual r in
      match oc with
      | 0 => ok (wr_dual (dabs x)) | 1 => ok (wr_dual (dsignum x)) | 2 => wb (dis_zero x)
      | 3 => ok (wr_dual (dneg x)) | 4 => ok (wr_dual (dneg_ref x))
      | 5 => ok (wr_dual dzero) | 6 => ok (wr_dual done)
      | 7 => wb (negb (sign_neg (re x))) | _ => wb (sign_neg (re x))
      end
  | 5 :: _ :: oc :: r =>
      let '(x, _) := rd_dual2 r in
      match oc with
      | 0 => ok (wr_dual2 (d2abs x)) | 1 => ok (wr_dual2 (d2signum x)) | 2 => wb (d2is_zero x)
      | 3 => ok (wr_dual2 (d2neg x)) | 4 => ok (wr_dual2 (d2neg_ref x))
      | 5 => ok (wr_dual2 d2zero) | 6 => ok (wr_dual2 d2one)
      | 7 => wb (negb (sign_neg (re2 x))) | _ => wb (sign_neg (re2 x))
      end
  | 6 :: 1 :: n :: r => let '(l, _) := rd_many rd_dual (Z.to_nat n) r in ok (wr_dual (dsum l))
  | 6 :: _ :: n :: r => let '(l, _) := rd_many rd_dual2 (Z.to_nat n) r in ok (wr_dual2 (d2sum l))
  | 7 :: 1 :: _ :: r =>
      let '(x, r1) := rd_dual r in let '(ws, _) := rd_names r1 in ok (wr_vec (gradient1 x ws))
  | 7 :: _ :: which :: r =>
      let '(x, r1) := rd_dual2 r in let '(ws, _) := rd_names r1 in
      match which with
      | 1 => ok (wr_vec (gradient1_2 x ws))
      | 2 => ok (wr_mat (gradient2 x ws) (length (dedup ws)))
      | _ => let m := gradient1_manifold x ws in ok (Z.of_nat (length m) :: flat_map wr_dual2 m)
      end
  | 10 :: r | 11 :: r =>
      let '(x, r1) := rd_number r in
      match r1 with
      | o :: r2 => let '(ws, _) := rd_names r2 in ok (wr_number (set_order x (mk_order o) ws))
      | [] => [-1]
      end
  | 12 :: oc :: r =>
      let '(x, r1) := rd_number r in let '(y, _) := rd_number r1 in
      match oc with
      | 0 => out_num (num_add false x y) | 1 => out_num (num_sub false x y) | 2 => out_num (num_mul false x y)
      | 3 => out_num (num_div false x y) | 4 => out_num (num_rem false x y)
      | 5 => out_bool (num_eqb false x y) | 6 => out_bool (num_ltb x y) | 7 => out_bool (num_leb x y)
      | 8 => out_bool (num_ltb y x) | 10 => out_num (num_abs_sub false x y) | _ => out_bool (num_leb y x)
      end
  | 13 :: oc :: side :: r =>
      let '(x, r1) := rd_number r in let '(f, _) := rd_f r1 in
      match oc, side with
      | 0, _ => ok (wr_number (num_add_f x f))
      | 1, 0 => ok (wr_number (num_sub_f x f)) | 1, _ => ok (wr_number (f_sub_num f x))
      | 2, _ => ok (wr_number (num_mul_f x f))
      | 3, 0 => ok (wr_number (num_div_f x f)) | 3, _ => ok (wr_number (f_div_num f x))
      | 4, 0 => ok (wr_number (num_rem_f x f)) | 4, _ => ok (wr_number (f_rem_num f x))
      | 5, _ => wb (num_eqb_f x f)
      | 6, 0 => wb (nltb (num_real x) f) | 6, _ => wb (nltb f (num_real x))
      | 7, 0 => wb (nleb (num_real x) f) | 7, _ => wb (nleb f (num_real x))
      | 8, 0 => wb (nltb f (num_real x)) | 8, _ => wb (nltb (num_real x) f)
      | _, 0 => wb (nleb f (num_real x)) | _, _ => wb (nleb (num_real x) f)
      end
  | 14 :: oc :: r =>
      let '(x, r1) := rd_number r in let '(p, _) := rd_f r1 in
      match oc with
      | 0 => ok (wr_number (num_neg x)) | 1 => ok (wr_number (num_neg_ref x))
      | 2 => ok (wr_number (num_pow x p)) | 3 => ok (wr_number (num_exp x)) | 4 => ok (wr_number (num_log x))
      | 5 => ok (wr_number (num_ncdf x)) | 6 => ok (wr_number (num_nicdf x)) | 7 => ok (wr_number (num_abs x))
      | 8 => ok (wr_number (num_signum x)) | 9 => wb (num_is_zero x)
      | 10 => ok (wr_number num_zero) | 11 => ok (wr_number num_one)
      | 13 => wb (negb (sign_neg (num_real x))) | 14 => wb (sign_neg (num_real x))
      | _ => ok (wr_number (num_pow x p))
      end
  | 15 :: r =>
      let '(x, _) := rd_number r in
      ok (wr_f (num_to_f x) ++ wr_f (num_to_f x) ++ wr_dual (num_to_dual x) ++ wr_dual (num_to_dual x) ++
          wr_dual2 (num_to_dual2 x) ++ wr_dual2 (num_to_dual2 x))
  | 16 :: n :: r =>
      let '(l, _) := rd_many rd_number (Z.to_nat n) r in out_num (num_sum l)
  (* From conversions out of / into the plain kinds: 17 0 f | 17 1 dual | 17 2 dual2 *)
  | 17 :: 0 :: r =>
      let '(f, _) := rd_f r in
      ok (wr_dual (dual_of_f f) ++ wr_dual2 (dual2_of_f f) ++ wr_number (num_of_f f) ++ wr_number (num_of_f f))
  | 17 :: 1 :: r =>
      let '(x, _) := rd_dual r in ok (wr_f (f_of_dual x) ++ wr_f (f_of_dual x) ++ wr_number (num_of_dual x) ++ wr_number (num_of_dual x))
  | 17 :: _ :: r =>
      let '(x, _) := rd_dual2 r in ok (wr_f (f_of_dual2 x) ++ wr_f (f_of_dual2 x) ++ wr_number (num_of_dual2 x) ++ wr_number (num_of_dual2 x))
  (* 22 try_new_from: kind okind other-names re names nd du* [ndd dd*]   (other = a number of kind okind on those names:
     only its de-duplicated variable list matters) *)
  | 22 :: 1 :: _ :: r =>
      let '(os, r0) := rd_names r in
      let '(x, r1) := rd_f r0 in let '(ws, r2) := rd_names r1 in
      match r2 with
      | nd :: r3 => let '(d, _) := rd_fs (Z.to_nat nd) r3 in
                    match dual_try_new_from (dedup os) x ws d with Ok v => ok (wr_dual v) | Err => [1] | Panic => [2] end
      | [] => [-1]
      end
  | 22 :: _ :: _ :: r =>
      let '(os, r0) := rd_names r in
      let '(x, r1) := rd_f r0 in let '(ws, r2) := rd_names r1 in
      match r2 with
      | nd :: r3 => let '(d, r4) := rd_fs (Z.to_nat nd) r3 in
          match r4 with
          | ndd :: r5 => let '(dd, _) := rd_fs (Z.to_nat ndd) r5 in
                         match dual2_try_new_from (dedup os) x ws d dd with Ok v => ok (wr_dual2 v) | Err => [1] | Panic => [2] end
          | [] => [-1]
          end
      | [] => [-1]
      end
  (* 23 new_from: kind okind other-names re names *)
  | 23 :: 1 :: _ :: r =>
      let '(os, r0) := rd_names r in
      let '(x, r1) := rd_f r0 in let '(ws, _) := rd_names r1 in ok (wr_dual (dual_new_from (dedup os) x ws))
  | 23 :: _ :: _ :: r =>
      let '(os, r0) := rd_names r in
      let '(x, r1) := rd_f r0 in let '(ws, _) := rd_names r1 in ok (wr_dual2 (dual2_new_from (dedup os) x ws))
  (* 24 to_new_vars(target, None) called directly: kind mode x target-names; mode 1 = the target is x's own Arc
     (the names are then x's), mode 0 = a separately built list.  Followed by two sharing observations that the
     model fixes by construction: the result holds the target Arc (1), x shares it (p) *)
  | 24 :: 1 :: mode :: r =>
      let '(x, r1) := rd_dual r in let '(ws, _) := rd_names r1 in
      let tg := if mode =? 1 then vs x else dedup ws in
      let p := pflag mode (vs x) tg in
      ok (wr_dual (to_new_vars_auto p x tg) ++ [1; zb p])
  | 24 :: _ :: mode :: r =>
      let '(x, r1) := rd_dual2 r in let '(ws, _) := rd_names r1 in
      let tg := if mode =? 1 then vs2 x else dedup ws in
      let p := pflag mode (vs2 x) tg in
      ok (wr_dual2 (to_new_vars2_auto p x tg) ++ [1; zb p])
  (* 25 to_union_vars(&y, None) called directly: kind p x y -> both results, then ptr_eq of the two results (always) *)
  | 25 :: 1 :: p :: r =>
      let '(x, r1) := rd_dual r in let '(y, _) := rd_dual r1 in
      let '(a, b) := to_union_vars_auto (pflag p (vs x) (vs y)) x y in ok (wr_dual a ++ wr_dual b ++ [1])
  | 25 :: _ :: p :: r =>
      let '(x, r1) := rd_dual2 r in let '(y, _) := rd_dual2 r1 in
      let '(a, b) := to_union_vars2_auto (pflag p (vs2 x) (vs2 y)) x y in ok (wr_dual2 a ++ wr_dual2 b ++ [1])
  | 20 :: r =>
      let '(x, r1) := rd_f r in let '(ws, r2) := rd_names r1 in
      match r2 with
      | nd :: r3 => let '(d, _) := rd_fs (Z.to_nat nd) r3 in
                    match dual_try_new x ws d with Ok v => ok (wr_dual v) | Err => [1] | Panic => [2] end
      | [] => [-1]
      end
  | 21 :: r =>
      let '(x, r1) := rd_f r in let '(ws, r2) := rd_names r1 in
      match r2 with
      | nd :: r3 => let '(d, r4) := rd_fs (Z.to_nat nd) r3 in
          match r4 with
          | ndd :: r5 => let '(dd, _) := rd_fs (Z.to_nat ndd) r5 in
                         match dual2_try_new x ws d dd with Ok v => ok (wr_dual2 v) | Err => [1] | Panic => [2] end
          | [] => [-1]
          end
      | [] => [-1]
      end
  | _ => [-1]
  end.
