(* Executable entry point of the linear-algebra model (C13): list Z -> list Z.  Mirror of
   harness/src/linalg.rs; T := float.
   case   = op kind lsq  m name*(m)  r c  A-entries(r*c, row major)  nb  b-entries(nb)
     op   : 0 dsolve(A, b, lsq)          A and b of `kind`
            1 fdsolve(A, b, lsq)         A of f64, b of `kind`
            2 dmul21_(A, b)              A and b of `kind`
            3 fdmul21_(A, b)             A of f64, b of `kind`
            4 argabsmax(b)               b of `kind` (r = c = 0)
            5 dmul22_(A.t(), A)          A of `kind`
     kind : 0 f64 (IEEE bits) | 1 Dual | 2 Dual2 (encodings of Run/RunNum.v)
     names: the names every gradient is reported for, in this order
   output = 2 (abort) | 0 n entry*(n), entry = re [gradient1(names)] [gradient2(names), row major]
            (op 4: 0 index ; op 5: 0 rows cols entry* ) *)
From Coq Require Import ZArith List Bool Floats.
From RL Require Import Base.Outcome Base.Num Base.Str Base.NumFloat Model.Dual Model.Linalg
  Run.RunBase Run.RunNum.
Import ListNotations.
Open Scope Z_scope.

Definition rd_mat {A} (rd : list Z -> A * list Z) (r c : nat) (l : list Z) : list (list A) * list Z :=
  rd_many (rd_many rd c) r l.

Definition out_f (_ : list name) (x : float) : list Z := wr_f x.
Definition out_d (ws : list name) (x : dual float) : list Z := wr_f (re x) ++ wr_fs (gradient1 x ws).
Definition out_d2 (ws : list name) (x : dual2 float) : list Z :=
  wr_f (re2 x) ++ wr_fs (gradient1_2 x ws) ++ flat_map wr_fs (gradient2 x ws).

(* stored variable order as indices into `names` (layout statistics only) *)
Definition lay_vars (ws : list name) (vars : list name) : list Z :=
  Z.of_nat (length vars) ::
  map (fun v => match index_of v ws with Some i => Z.of_nat i | None => -1 end) vars.
Definition lay_f (_ : list name) (_ : float) : option (list Z) := None.
Definition lay_d (ws : list name) (x : dual float) : option (list Z) := Some (lay_vars ws (vs x)).
Definition lay_d2 (ws : list name) (x : dual2 float) : option (list Z) := Some (lay_vars ws (vs2 x)).

Definition out_vec {A} (out : A -> list Z) (lay : A -> option (list Z)) (o : outcome (list A)) : list Z :=
  match o with
  | Ok xs => 0 :: Z.of_nat (length xs) :: flat_map out xs ++
             (match xs with
              | x :: _ => match lay x with
                          | Some _ => -7 :: flat_map (fun y => match lay y with Some l => l | None => [] end) xs
                          | None => []
                          end
              | [] => []
              end)
  | Err => [1]
  | Panic => [2]
  end.
Definition out_matrix {A} (out : A -> list Z) (o : outcome (list (list A))) : list Z :=
  match o with
  | Ok m => 0 :: Z.of_nat (length m) :: Z.of_nat (ncols m) :: flat_map (flat_map out) m
  | Err => [1]
  | Panic => [2]
  end.
Definition out_idx (o : outcome nat) : list Z :=
  match o with Ok k => [0; Z.of_nat k] | Err => [1] | Panic => [2] end.

Section Kind.
  Context {T : Type} {O : Ops T}.
  Variable rd : list Z -> T * list Z.
  Variable out : T -> list Z.
  Variable lay : T -> option (list Z).
  Variable xm : float -> T -> T.                       (* &f64 * &T *)
  Definition run_kind (op lsq : Z) (r c : nat) (l : list Z) : list Z :=
    let b_of (l : list Z) : list T :=
      match l with nb :: l' => fst (rd_many rd (Z.to_nat nb) l') | [] => [] end in
    match op with
    | 0 => let '(a, l1) := rd_mat rd r c l in out_vec out lay (dsolve a (b_of l1) (lsq =? 1))
    | 1 => let '(a, l1) := rd_mat rd_f r c l in
           out_vec out lay (fdsolve (OF := @ops_num float NumFloat) xm a (b_of l1) (lsq =? 1))
    | 2 => let '(a, l1) := rd_mat rd r c l in out_vec out lay (dmul21_ a (b_of l1))
    | 3 => let '(a, l1) := rd_mat rd_f r c l in
           out_vec out lay (fdmul21_ xm a (b_of l1))
    | 4 => let '(a, l1) := rd_mat rd r c l in out_idx (argabsmax (b_of l1))
    | _ => let '(a, l1) := rd_mat rd r c l in
           out_matrix out (dmul22_ (mtranspose ozero (ncols a) a) a)
    end.
End Kind.

Definition runLinalg (l : list Z) : list Z :=
  match l with
  | op :: kind :: lsq :: l0 =>
    let '(ws, l1) := rd_names l0 in
    match l1 with
    | r :: c :: l2 =>
      let r := Z.to_nat r in let c := Z.to_nat c in
      match kind with
      | 0 => run_kind (O := @ops_num float NumFloat) rd_f (out_f ws) (lay_f ws) xmul_num op lsq r c l2
      | 1 => run_kind (O := @ops_dual float NumFloat) rd_dual (out_d ws) (lay_d ws) xmul_dual op lsq r c l2
      | _ => run_kind (O := @ops_dual2 float NumFloat) rd_dual2 (out_d2 ws) (lay_d2 ws) xmul_dual2 op lsq r c l2
      end
    | _ => [-1]
    end
  | _ => [-1]
  end.
