(* One numeric structure, two instances (DESIGN §2.1).  The models are polymorphic in `Num T`;
   theorems are stated at T := R (Base/NumR.v), the correspondence executes T := float
   (Base/NumFloat.v, IEEE binary64 = Rust f64). *)
From Coq Require Import ZArith List.
Import ListNotations.

Class Num (T : Type) := {
  n0 : T; n1 : T;
  nadd : T -> T -> T; nsub : T -> T -> T; nmul : T -> T -> T; ndiv : T -> T -> T;
  nneg : T -> T; nabs : T -> T;
  nltb : T -> T -> bool; nleb : T -> T -> bool; neqb : T -> T -> bool;
  nofZ : Z -> T;
  npow : T -> T -> T;          (* f64::powf *)
  nexp : T -> T; nln : T -> T; nsqrt : T -> T;
  ntrunc : T -> T;             (* f64::trunc *)
  nrem : T -> T -> T;          (* f64 % f64 (fmod) *)
  ncdf : T -> T;               (* statrs Normal(0,1).cdf *)
  nicdf : T -> T;              (* statrs Normal(0,1).inverse_cdf *)
  npi : T;
  nsignum : T -> T             (* f64::signum: 1.0 for +0.0 and positives, -1.0 for -0.0 and negatives *)
}.

Declare Scope num_scope.
Delimit Scope num_scope with num.
Infix "+" := nadd : num_scope.
Infix "-" := nsub : num_scope.
Infix "*" := nmul : num_scope.
Infix "/" := ndiv : num_scope.
Notation "- x" := (nneg x) : num_scope.

Section Consts.
  Context {T : Type} `{Num T}.
  Definition n2 : T := nofZ 2.
  Definition nhalf : T := ndiv n1 (nofZ 2).       (* 0.5 exactly *)
  Definition nm1 : T := nneg n1.                  (* -1.0 *)
  Definition ngtb (a b : T) : bool := nltb b a.
  Definition ngeb (a b : T) : bool := nleb b a.
End Consts.

(* element-wise helpers shared by every model (ndarray semantics on equal shapes) *)
Section Vec.
  Context {T : Type} `{Num T}.
  Fixpoint vzip (f : T -> T -> T) (a b : list T) : list T :=
    match a, b with
    | x :: a', y :: b' => f x y :: vzip f a' b'
    | _, _ => []
    end.
  Definition vmap (f : T -> T) (a : list T) : list T := map f a.
  Definition vscale_r (a : list T) (c : T) : list T := map (fun x => nmul x c) a.   (* &a * c *)
  Definition vscale_l (c : T) (a : list T) : list T := map (fun x => nmul c x) a.   (* c * &a *)
  Definition mzip (f : T -> T -> T) (a b : list (list T)) : list (list T) :=
    (fix go a b := match a, b with
       | r :: a', s :: b' => vzip f r s :: go a' b'
       | _, _ => [] end) a b.
  Definition mmap (f : T -> T) (a : list (list T)) : list (list T) := map (map f) a.
  Definition vzeros (n : nat) : list T := repeat n0 n.
  Definition vones (n : nat) : list T := repeat n1 n.
  Definition mzeros (n m : nat) : list (list T) := repeat (repeat n0 m) n.
  (* fouter11_: outer product a b^T *)
  Definition outer (a b : list T) : list (list T) := map (fun x => map (fun y => nmul x y) b) a.
  Fixpoint transpose_aux (n : nat) (m : list (list T)) : list (list T) :=
    match n with
    | O => []
    | S k => map (fun r => hd n0 r) m :: transpose_aux k (map (@tl T) m)
    end.
  Definition transpose (ncols : nat) (m : list (list T)) : list (list T) := transpose_aux ncols m.
  Definition vsum (l : list T) : T := fold_left nadd l n0.
End Vec.
