(* Result type for fallible code: Ok = returned value, Err = returned PyErr / serde error,
   Panic = the Rust code aborts (unwrap/expect/panic!/overflow/index) or does not terminate. *)
From Coq Require Import List ZArith.
Import ListNotations.

Inductive outcome (A : Type) : Type :=
| Ok (a : A)
| Err
| Panic.
Arguments Ok {A} a.
Arguments Err {A}.
Arguments Panic {A}.

Definition obind {A B} (o : outcome A) (f : A -> outcome B) : outcome B :=
  match o with Ok a => f a | Err => Err | Panic => Panic end.
Definition omap {A B} (f : A -> B) (o : outcome A) : outcome B :=
  match o with Ok a => Ok (f a) | Err => Err | Panic => Panic end.

Notation "'do' x <- o ; f" := (obind o (fun x => f)) (at level 200, x name, o at level 100, f at level 200).

Definition is_panic {A} (o : outcome A) : bool := match o with Panic => true | _ => false end.
Definition is_ok {A} (o : outcome A) : bool := match o with Ok _ => true | _ => false end.
Definition is_err {A} (o : outcome A) : bool := match o with Err => true | _ => false end.

(* canonical rendering of an outcome class for the correspondence: 0 = Ok, 1 = Err, 2 = Panic *)
Definition oclass {A} (o : outcome A) : Z := match o with Ok _ => 0 | Err => 1 | Panic => 2 end.

Fixpoint omapM {A B} (f : A -> outcome B) (l : list A) : outcome (list B) :=
  match l with
  | [] => Ok []
  | x :: xs => do y <- f x; do ys <- omapM f xs; Ok (y :: ys)
  end.
