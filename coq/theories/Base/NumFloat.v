(* The `Num float` instance (DESIGN §2.1): Coq primitive floats = IEEE-754 binary64 = Rust f64.
   + - * / sqrt abs neg and the comparisons are the hardware operations (bit-identical to Rust).
   exp / ln / pow / fmod / trunc / normal cdf / inverse cdf are written in Gallina on top of them
   and are meant to be EXECUTED (vm_compute) for differential testing; nothing is proved here.
   Accuracy (measured by driver/numfloat_selftest.py against glibc libm / AS241):
     f_exp, f_ln, f_pow : about 1 ulp (f_pow uses a double-double logarithm);
     f_trunc, f_rem     : exact;
     f_ncdf             : abs <= 1e-15, rel <= 1e-13 on [-8,8];   f_nicdf : rel ~ 1e-15.
   Every helper is prefixed `fl_` / `f_` / `c_` / `as_` to keep the global namespace tidy. *)
From Coq Require Import Floats ZArith Uint63 SpecFloat List Bool.
From RL Require Import Base.Num.
Import ListNotations.
Local Open Scope float_scope.

(* ------------------------------------------------------------------------------------------ *)
(* bit patterns                                                                                *)

Definition fl_two52Z : Z := 4503599627370496%Z.
Definition fl_two63Z : Z := 9223372036854775808%Z.

(* b = the 64-bit IEEE pattern as a non-negative integer (Rust f64::to_bits) *)
Definition float_of_bits (b : Z) : float :=
  let s := Z.testbit b 63 in
  let e := Z.land (Z.shiftr b 52) 2047 in
  let m := Z.land b (fl_two52Z - 1) in
  if (e =? 2047)%Z then
    (if (m =? 0)%Z then (if s then neg_infinity else infinity) else nan)
  else if (e =? 0)%Z then
    match m with
    | Zpos p => SF2Prim (S754_finite s p (-1074))
    | _ => if s then neg_zero else zero
    end
  else
    match (m + fl_two52Z)%Z with
    | Zpos p => SF2Prim (S754_finite s p (e - 1075))
    | _ => nan
    end.

(* inverse; every NaN is sent to the canonical quiet NaN 0x7ff8000000000000.
   Written with the primitive frshiftexp / normfr_mantissa (Prim2SF costs ~0.2 ms under vm_compute):
   |f| = m 2^k with 1/2 <= m < 1, M = m 2^53 in [2^52, 2^53);  normal iff k >= -1021, biased
   exponent k + 1022;  subnormal: |f| = (M >> (-1021 - k)) 2^-1074 exactly. *)
Definition bits_of_float (f : float) : Z :=
  if is_nan f then 9221120237041090560%Z
  else
    let sg := if get_sign f then fl_two63Z else 0%Z in
    let a := abs f in
    if a =? 0 then sg
    else if a =? infinity then (sg + 9218868437227405312)%Z
    else
      let '(m, e) := frshiftexp a in
      let k := (Uint63.to_Z e - 2101)%Z in
      let M := Uint63.to_Z (normfr_mantissa m) in
      if (-1021 <=? k)%Z then (sg + Z.shiftl (k + 1022) 52 + (M - fl_two52Z))%Z
      else (sg + Z.shiftr M (-1021 - k))%Z.

(* ------------------------------------------------------------------------------------------ *)
(* basic helpers                                                                               *)

(* f * 2^k, one rounding (exact unless the result is subnormal or overflows) *)
Definition fl_scale (f : float) (k : Z) : float :=
  ldshiftexp f (Uint63.of_Z (Z.max (-2100) (Z.min k 2100) + 2101)).

(* correctly rounded (nearest-even) conversion of a non-negative integer *)
Definition fl_of_nonneg (z : Z) : float :=
  if (z <? 4611686018427387904)%Z then of_uint63 (Uint63.of_Z z)
  else
    let sh := (Z.log2 z + 1 - 53)%Z in
    let q := Z.shiftr z sh in
    let r := (z - Z.shiftl q sh)%Z in
    let half := Z.shiftl 1 (sh - 1) in
    let q' := if ((half <? r)%Z || ((half =? r)%Z && Z.odd q))%bool then (q + 1)%Z else q in
    fl_scale (of_uint63 (Uint63.of_Z q')) sh.

Definition f_ofZ (z : Z) : float :=
  match z with
  | Z0 => 0
  | Zpos _ => fl_of_nonneg z
  | Zneg p => - (fl_of_nonneg (Zpos p))
  end.

(* error-free transformations (no FMA in PrimFloat): Knuth two-sum, Dekker fast-two-sum / product *)
Definition fl_two_sum (a b : float) : float * float :=
  let s := a + b in let bb := s - a in (s, (a - (s - bb)) + (b - bb)).
Definition fl_fast_two_sum (a b : float) : float * float :=
  let s := a + b in (s, b - (s - a)).
Definition fl_split (a : float) : float * float :=
  let c := 134217729 * a in let hi := c - (c - a) in (hi, a - hi).
Definition fl_two_prod (a b : float) : float * float :=
  let p := a * b in
  let '(ah, al) := fl_split a in
  let '(bh, bl) := fl_split b in
  (p, ((ah * bh - p) + ah * bl + al * bh) + al * bl).

Fixpoint fl_horner (cs : list float) (r acc : float) : float :=
  match cs with
  | [] => acc
  | c :: cs' => fl_horner cs' r (acc * r + c)
  end.

(* ------------------------------------------------------------------------------------------ *)
(* constants (hex literals are exact)                                                          *)

Definition c_ln2hi : float := 0x1.62e42fee00000p-1.     (* 21 trailing zero bits: k*ln2hi exact *)
Definition c_ln2lo : float := 0x1.a39ef35793c76p-33.
Definition c_invln2 : float := 0x1.71547652b82fep+0.
Definition c_magic : float := 6755399441055744.          (* 1.5 * 2^52 *)
Definition c_P1 : float := 0x1.555555555553ep-3.
Definition c_P2 : float := - 0x1.6c16c16bebd93p-9.
Definition c_P3 : float := 0x1.1566aaf25de2cp-14.
Definition c_P4 : float := - 0x1.bbd41c5d26bf1p-20.
Definition c_P5 : float := 0x1.6376972bea4d0p-25.
Definition c_Lg1 : float := 0x1.5555555555593p-1.
Definition c_Lg2 : float := 0x1.999999997fa04p-2.
Definition c_Lg3 : float := 0x1.2492494229359p-2.
Definition c_Lg4 : float := 0x1.c71c51d8e78afp-3.
Definition c_Lg5 : float := 0x1.7466496cb03dep-3.
Definition c_Lg6 : float := 0x1.39a09d078c69fp-3.
Definition c_Lg7 : float := 0x1.2f112df3e5244p-3.
Definition c_sqrt1_2 : float := 0x1.6a09e667f3bcdp-1.
Definition c_2_sqrtpi : float := 0x1.20dd750429b6dp+0.
Definition c_1_sqrtpi : float := 0x1.20dd750429b6dp-1.
Definition c_third_h : float := 0x1.5555555555555p-2.
Definition c_third_l : float := 0x1.5555555555555p-56.
(* 1/5, 1/7, ..., 1/27 highest degree first (atanh series tail) *)
Definition c_odd_inv : list float :=
  [0x1.2f684bda12f68p-5; 0x1.47ae147ae147bp-5; 0x1.642c8590b2164p-5; 0x1.8618618618618p-5;
   0x1.af286bca1af28p-5; 0x1.e1e1e1e1e1e1ep-5; 0x1.1111111111111p-4; 0x1.3b13b13b13b14p-4;
   0x1.745d1745d1746p-4; 0x1.c71c71c71c71cp-4; 0x1.2492492492492p-3; 0x1.999999999999ap-3].
Definition f_pi : float := 0x1.921fb54442d18p+1.

(* ------------------------------------------------------------------------------------------ *)
(* exp                                                                                         *)

(* exp(xh + xl) for -746 <= xh <= 710 and |xl| tiny; fdlibm e_exp.c kernel with an extra low word *)
Definition fl_exp_hl (xh xl : float) : float :=
  let tm := xh * c_invln2 + c_magic in
  let kf := tm - c_magic in
  let k := (Uint63.to_Z (normfr_mantissa (fst (frshiftexp tm))) - 6755399441055744)%Z in
  let hi := xh - kf * c_ln2hi in
  let lo := kf * c_ln2lo - xl in
  let r := hi - lo in
  let t := r * r in
  let c := r - t * (c_P1 + t * (c_P2 + t * (c_P3 + t * (c_P4 + t * c_P5)))) in
  let y := 1 - ((lo - (r * c) / (2 - c)) - hi) in
  fl_scale y k.

Definition f_exp (x : float) : float :=
  if is_nan x then x
  else if 710 <? x then infinity
  else if x <? -746 then 0
  else fl_exp_hl x 0.

(* ------------------------------------------------------------------------------------------ *)
(* ln                                                                                          *)

(* x positive finite: x = m * 2^k with sqrt(1/2) <= m < sqrt 2 *)
Definition fl_reduce (x : float) : float * Z :=
  let '(m, e) := frshiftexp x in
  let k := (Uint63.to_Z e - 2101)%Z in
  if m <? c_sqrt1_2 then (m * 2, (k - 1)%Z) else (m, k).

(* fdlibm e_log.c *)
Definition f_ln (x : float) : float :=
  if is_nan x then x
  else if x <? 0 then nan
  else if x =? 0 then neg_infinity
  else if x =? infinity then x
  else
    let '(m, k) := fl_reduce x in
    let f := m - 1 in
    let dk := f_ofZ k in
    let s := f / (2 + f) in
    let z := s * s in
    let w := z * z in
    let t1 := w * (c_Lg2 + w * (c_Lg4 + w * c_Lg6)) in
    let t2 := z * (c_Lg1 + w * (c_Lg3 + w * (c_Lg5 + w * c_Lg7))) in
    let R := t2 + t1 in
    let hfsq := 0.5 * f * f in
    dk * c_ln2hi - ((hfsq - (s * (hfsq + R) + dk * c_ln2lo)) - f).

(* ln x as an unevaluated sum hi + lo, relative error ~ 2e-19 (x positive finite).
   ln x = k ln2 + 2 atanh s, s = (m-1)/(m+1) carried as sh+sl; the terms 2s and 2s^3/3 are carried in
   double-double, the remaining odd powers in plain double. *)
Definition fl_ln_dd (x : float) : float * float :=
  let '(m, k) := fl_reduce x in
  let f := m - 1 in
  let dk := f_ofZ k in
  let '(dh, dl) := fl_fast_two_sum 2 f in
  let sh := f / dh in
  let '(p, pe) := fl_two_prod sh dh in
  let rem := ((f - p) - pe) - sh * dl in
  let sl := rem / dh in
  let '(zh, zl0) := fl_two_prod sh sh in
  let zl := zl0 + 2 * sh * sl in
  let '(ch, cl0) := fl_two_prod sh zh in
  let cl := cl0 + (sh * zl + sl * zh) in
  let '(th, tl0) := fl_two_prod ch c_third_h in
  let tl := tl0 + (ch * c_third_l + cl * c_third_h) in
  let q := fl_horner c_odd_inv zh 0 * zh in
  let tail5 := 2 * ch * q in
  let '(h, e1) := fl_two_sum (dk * c_ln2hi) (2 * sh) in
  let '(h2, e2) := fl_two_sum h (2 * th) in
  let lo := (e1 + e2) + (dk * c_ln2lo + (2 * sl + (2 * tl + tail5))) in
  fl_fast_two_sum h2 lo.

(* ------------------------------------------------------------------------------------------ *)
(* trunc, signum, fmod                                                                         *)

Definition f_trunc (x : float) : float :=
  let a := abs x in
  if a <? 4503599627370496 then
    let t := (a + 4503599627370496) - 4503599627370496 in
    let t := if a <? t then t - 1 else t in
    if get_sign x then - t else t
  else x.

Definition f_signum (x : float) : float :=
  if is_nan x then x else if get_sign x then -1 else 1.

(* C fmod, exact: |x| = mx 2^ex, |y| = my 2^ey with ex >= ey whenever |x| >= |y|;
   (mx 2^(ex-ey)) mod my by 9-bit shifts in 63-bit machine integers (my < 2^53) *)
Definition f_rem (x y : float) : float :=
  if is_nan x || is_nan y then nan
  else if is_infinity x then nan
  else if y =? 0 then nan
  else if is_infinity y then x
  else if abs x <? abs y then x
  else
    match Prim2SF x, Prim2SF y with
    | S754_finite sx mx ex, S754_finite _ my ey =>
        let d := (ex - ey)%Z in
        let myi := Uint63.of_Z (Zpos my) in
        let r0 := (Uint63.of_Z (Zpos mx) mod myi)%uint63 in
        let r1 := ((r0 << Uint63.of_Z (d mod 9)) mod myi)%uint63 in
        let r := Z.iter (d / 9) (fun r => ((r << 9) mod myi)%uint63) r1 in
        let v := fl_scale (of_uint63 r) ey in
        if sx then - v else v
    | _, _ => x
    end.

(* ------------------------------------------------------------------------------------------ *)
(* pow (C pow / Rust powf semantics)                                                           *)

Definition fl_is_int (p : float) : bool := f_trunc p =? p.          (* p finite *)
Definition fl_is_odd_int (p : float) : bool :=
  fl_is_int p && negb (let h := p * 0.5 in f_trunc h =? h).

(* x positive finite; p finite non-zero *)
Definition fl_pow_pos (x p : float) : float :=
  if x =? 1 then 1
  else if p =? 1 then x
  else if p =? 2 then x * x
  else if p =? -1 then 1 / x
  else if p =? 0.5 then PrimFloat.sqrt x
  else
    let '(lh, ll) := fl_ln_dd x in
    let t := p * lh in
    if 710 <? t then infinity
    else if t <? -746 then 0
    else
      let '(ph, pe) := fl_two_prod p lh in
      fl_exp_hl ph (pe + p * ll).

Definition f_pow (x p : float) : float :=
  if p =? 0 then 1
  else if x =? 1 then 1
  else if is_nan x || is_nan p then nan
  else
    let ax := abs x in
    if is_infinity p then
      if ax =? 1 then 1
      else if Bool.eqb (ax <? 1) (p <? 0) then infinity else 0
    else
      let neg := get_sign x in
      if neg && negb (ax =? 0) && negb (is_infinity ax) && negb (fl_is_int p) then nan
      else
        let r := if ax =? 0 then (if p <? 0 then infinity else 0)
                 else if is_infinity ax then (if p <? 0 then 0 else infinity)
                 else fl_pow_pos ax p in
        if neg && fl_is_odd_int p then - r else r.

(* ------------------------------------------------------------------------------------------ *)
(* standard normal cdf                                                                         *)

(* s_n = 1,  s_(k-1) = 1 + w/(2k+1) s_k : erf z = 2/sqrt(pi) e^(-z^2) z s_0 with w = 2 z^2 *)
Fixpoint fl_erf_loop (n : nat) (kf w s : float) : float :=
  match n with
  | O => s
  | S n' => fl_erf_loop n' (kf - 1) w (1 + w / (2 * kf + 1) * s)
  end.
(* erfc z = e^(-z^2)/sqrt(pi) / (z + (1/2)/(z + 1/(z + (3/2)/(z + ...)))) evaluated bottom-up *)
Fixpoint fl_cf_loop (n : nat) (kf z t : float) : float :=
  match n with
  | O => t
  | S n' => fl_cf_loop n' (kf - 1) z (z + (kf * 0.5) / t)
  end.

(* exp(-x^2/2) with the square carried exactly *)
Definition fl_exp_mhsq (x : float) : float :=
  let '(h, l) := fl_two_prod x x in fl_exp_hl (-0.5 * h) (-0.5 * l).

(* z >= 0, ex = exp(-z^2).  erf for z <= 1 *)
Definition fl_erf_small (z ex : float) : float :=
  c_2_sqrtpi * ex * z * fl_erf_loop 30 30 (2 * z * z) 1.
(* erfc for z > 1 *)
Definition fl_erfc_large (z ex : float) : float :=
  let t := if z <? 1.5 then fl_cf_loop 200 200 z z
           else if z <? 3 then fl_cf_loop 100 100 z z
           else fl_cf_loop 40 40 z z in
  c_1_sqrtpi * ex / t.

Definition f_ncdf (x : float) : float :=
  if is_nan x then x
  else
    let ax := abs x in
    if 40 <? ax then (if x <? 0 then 0 else 1)
    else
      let z := ax * c_sqrt1_2 in
      let ex := fl_exp_mhsq ax in
      if z <=? 1 then
        let e := fl_erf_small z ex in
        if x <? 0 then 0.5 - 0.5 * e else 0.5 + 0.5 * e
      else
        let c := 0.5 * fl_erfc_large z ex in
        if x <? 0 then c else 1 - c.

(* ------------------------------------------------------------------------------------------ *)
(* inverse normal cdf: Wichura's AS241 (PPND16), relative accuracy about 1e-16                *)

Definition as_a : list float := [0x1.39a296f7d925ep+11; 0x1.052d26b2e45e4p+15; 0x1.06c1c55b78f20p+16; 0x1.66c3e869b752ap+15; 0x1.ad1d8cd4ee71dp+13; 0x1.ece5d2213c0ccp+10; 0x1.0a4888b1a436ep+7; 0x1.b18d91e9eef75p+1].
Definition as_b : list float := [0x1.46a7eca984b69p+12; 0x1.c0e457cb1ae76p+14; 0x1.3317caa64f4bep+15; 0x1.4b772d5d65266p+14; 0x1.512322e75c89fp+12; 0x1.5797efdc8b3f7p+9; 0x1.5281b386e1ab5p+5; 1].
Definition as_c : list float := [0x1.9615ac0b7ace9p-11; 0x1.744eb6c45ec67p-6; 0x1.ef2abb9b85c37p-3; 0x1.453cc085375b2p+0; 0x1.d2ecb1a3d02c4p+1; 0x1.713f71462256ap+2; 0x1.2857748cab19bp+2; 0x1.6c665fde9526ap+0].
Definition as_d : list float := [0x1.20d3f686439e4p-30; 0x1.1f18cbfdf2728p-11; 0x1.f207a7eab17bfp-7; 0x1.2f5123394f040p-3; 0x1.61292f23385c9p-1; 0x1.ad278e6526633p+0; 0x1.06cefbb46a449p+1; 1].
Definition as_e : list float := [0x1.afb74d693bf93p-23; 0x1.c6ec6cc59e02ap-16; 0x1.45c1908425345p-10; 0x1.b2b41193b4ee7p-6; 0x1.2fad9315255cfp-2; 0x1.c8ea6461fa445p+0; 0x1.5daea6e875003p+2; 0x1.aa1b1c13ee526p+2].
Definition as_f : list float := [0x1.269bff1f8c190p-49; 0x1.31446f740b9e0p-23; 0x1.35c2c496374bfp-16; 0x1.9c8bc979dc5d7p-11; 0x1.e76f93215462ap-7; 0x1.186eb183443fbp-3; 0x1.331d34fc7d77fp-1; 1].

Definition f_nicdf (p : float) : float :=
  if is_nan p then p
  else if (p <? 0) || (1 <? p) then nan
  else if p =? 0 then neg_infinity
  else if p =? 1 then infinity
  else
    let q := p - 0.5 in
    if abs q <=? 0x1.b333333333333p-2 (* 0.425 *) then
      let r := 0x1.71eb851eb851fp-3 (* 0.180625 *) - q * q in
      fl_horner as_a r 0 * q / fl_horner as_b r 0
    else
      let r := PrimFloat.sqrt (- f_ln (if q <=? 0 then p else 1 - p)) in
      let x := if r <=? 5 then
                 let r := r - 0x1.999999999999ap+0 (* 1.6 *) in
                 fl_horner as_c r 0 / fl_horner as_d r 0
               else
                 let r := r - 5 in
                 fl_horner as_e r 0 / fl_horner as_f r 0 in
      if q <? 0 then - x else x.

(* ------------------------------------------------------------------------------------------ *)

#[global] Instance NumFloat : Num float := {|
  n0 := 0; n1 := 1;
  nadd := PrimFloat.add; nsub := PrimFloat.sub; nmul := PrimFloat.mul; ndiv := PrimFloat.div;
  nneg := PrimFloat.opp; nabs := PrimFloat.abs;
  nltb := PrimFloat.ltb; nleb := PrimFloat.leb; neqb := PrimFloat.eqb;
  nofZ := f_ofZ;
  npow := f_pow;
  nexp := f_exp; nln := f_ln; nsqrt := PrimFloat.sqrt;
  ntrunc := f_trunc;
  nrem := f_rem;
  ncdf := f_ncdf;
  nicdf := f_nicdf;
  npi := f_pi;
  nsignum := f_signum
|}.

(* ------------------------------------------------------------------------------------------ *)
(* self checks (vm_compute)                                                                    *)

Definition fl_test_bits : list Z :=
  [0; 9223372036854775808; 4607182418800017408; 13836183955189006336; 4591870180066957722;
   1; 4503599627370495; 4503599627370496; 9218868437227405311; 9218868437227405312;
   18442240474082181120; 9221120237041090560; 4606913598010824429; 4614256656552045848;
   9223392277080106539; 4728057454355546112]%Z.

Example fl_bits_roundtrip :
  map (fun b => bits_of_float (float_of_bits b)) fl_test_bits = fl_test_bits.
Proof. vm_compute. reflexivity. Qed.

Example fl_bits_values :
  map bits_of_float
      [0; -0; 1; -2.5; 0x1.999999999999ap-4; 0x1p-1074; 0x0.fffffffffffffp-1022; 0x1p-1022;
       0x1.fffffffffffffp+1023; infinity; neg_infinity; nan; 0x1.f0b82485a16edp-1; f_pi;
       123456789.125]
  = [0; 9223372036854775808; 4607182418800017408; 13836183955189006336; 4591870180066957722;
     1; 4503599627370495; 4503599627370496; 9218868437227405311; 9218868437227405312;
     18442240474082181120; 9221120237041090560; 4606913598010824429; 4614256656552045848;
     4728057454355546112]%Z.
Proof. vm_compute. reflexivity. Qed.

(* signalling / payload NaNs are canonicalised *)
Example fl_bits_nan :
  map (fun b => bits_of_float (float_of_bits b))
      [9218868437227405313; 18444492273895866368; 9223372036854775807]%Z
  = [9221120237041090560; 9221120237041090560; 9221120237041090560]%Z.
Proof. vm_compute. reflexivity. Qed.

Example fl_special_values :
  map bits_of_float
      [f_exp neg_infinity; f_exp infinity; f_exp 710; f_exp 0; f_ln 0; f_ln 1; f_ln infinity;
       f_pow 0 0; f_pow nan 0; f_pow 1 nan; f_pow 0 2; f_pow 0 (-2); f_pow (-0) (-3); f_pow (-2) 3; f_pow (-1) 0x1p+1000;
       f_pow 2 (-1); f_pow 4 0.5; f_pow 3 2; f_trunc (-2.5); f_trunc 2.5;
       f_rem 5.5 2; f_rem (-5.5) 2; f_rem 5 infinity; f_rem (-6) 3;
       f_signum 0; f_signum (-0); f_signum infinity; f_signum (-3);
       f_ncdf 0; f_ncdf infinity; f_ncdf neg_infinity; f_nicdf 0; f_nicdf 1; f_nicdf 0.5;
       f_ofZ 9007199254740993; f_ofZ (-3)]
  = map bits_of_float
      [0; infinity; infinity; 1; neg_infinity; 0; infinity;
       1; 1; 1; 0; infinity; neg_infinity; -8; 1;
       0.5; 2; 9; -2; 2;
       1.5; -1.5; 5; -0;
       1; -1; 1; -1;
       0.5; 1; 0; neg_infinity; infinity; 0;
       9007199254740992; -3].
Proof. vm_compute. reflexivity. Qed.

Example fl_nan_cases :
  forallb is_nan
    [f_exp nan; f_ln nan; f_ln (-1); f_pow (-2) 0.5; f_pow nan 1; f_pow 2 nan; f_trunc nan;
     f_rem 1 0; f_rem infinity 2; f_rem nan 1; f_rem 1 nan; f_signum nan; f_ncdf nan;
     f_nicdf nan; f_nicdf (-0.125); f_nicdf 1.5] = true.
Proof. vm_compute. reflexivity. Qed.
