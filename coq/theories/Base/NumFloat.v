(* placeholder: being written by the numfloat builder *)
