(* Strings as lists of Unicode code points (variable names, currency codes, calendar names). *)
From Coq Require Import ZArith List Bool String Ascii.
Import ListNotations.
Open Scope Z_scope.

Definition name := list Z.
Fixpoint name_eqb (a b : name) : bool :=
  match a, b with
  | [], [] => true
  | x :: a', y :: b' => (x =? y) && name_eqb a' b'
  | _, _ => false
  end.
Lemma name_eqb_eq a : forall b, name_eqb a b = true <-> a = b.
Proof.
  induction a as [|x a IH]; intros [|y b]; cbn; split; intro E; try congruence; try reflexivity.
  - apply andb_true_iff in E. destruct E as [E1 E2]. apply Z.eqb_eq in E1. apply IH in E2. congruence.
  - inversion E; subst. rewrite Z.eqb_refl. cbn. apply IH. reflexivity.
Qed.
Lemma name_eqb_refl a : name_eqb a a = true.
Proof. apply name_eqb_eq. reflexivity. Qed.
Lemma name_eqb_neq a b : name_eqb a b = false <-> a <> b.
Proof.
  split; intro E.
  - intro C. apply name_eqb_eq in C. congruence.
  - destruct (name_eqb a b) eqn:F; auto. apply name_eqb_eq in F. contradiction.
Qed.
Definition name_dec (a b : name) : {a = b} + {a <> b}.
Proof. destruct (name_eqb a b) eqn:E; [left; apply name_eqb_eq; exact E | right; apply name_eqb_neq; exact E]. Defined.

Fixpoint name_of_string (s : string) : name :=
  match s with EmptyString => [] | String c r => Z.of_nat (nat_of_ascii c) :: name_of_string r end.

(* usize::to_string: decimal digits, most significant first *)
Fixpoint dec_digits (fuel : nat) (n : Z) (acc : list Z) : list Z :=
  match fuel with
  | O => acc
  | S k => let acc' := (48 + n mod 10) :: acc in
           if n / 10 =? 0 then acc' else dec_digits k (n / 10) acc'
  end.
Definition dec_of_Z (n : Z) : name := dec_digits 40 n [].

(* position of a name in a duplicate-free list: IndexSet::get_index_of *)
Fixpoint index_of (v : name) (l : list name) : option nat :=
  match l with
  | [] => None
  | x :: r => if name_eqb v x then Some O else option_map S (index_of v r)
  end.
Definition mem (v : name) (l : list name) : bool :=
  match index_of v l with Some _ => true | None => false end.
(* IndexSet::from_iter: keeps the first occurrence of each name, in order *)
Fixpoint dedup_aux (seen : list name) (l : list name) : list name :=
  match l with
  | [] => []
  | x :: r => if mem x seen then dedup_aux seen r else x :: dedup_aux (x :: seen) r
  end.
Definition dedup (l : list name) : list name := dedup_aux [] l.
(* IndexSet::union: all of xs in order, then the elements of ys not in xs, in order *)
Definition union_vars (xs ys : list name) : list name :=
  xs ++ filter (fun y => negb (mem y xs)) ys.
