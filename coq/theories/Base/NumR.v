(* The instance the THEOREMS are about: classical real numbers (stdlib Reals + Coquelicot).
   powf, trunc, fmod, the normal cdf and its inverse are the total real functions that agree
   with the f64 functions wherever those are finite. *)
From Coq Require Import Reals ZArith List Lra ClassicalEpsilon.
From Coquelicot Require Import Coquelicot.
From RL Require Import Base.Num.
Open Scope R_scope.

Definition Rltb (a b : R) : bool := if Rlt_dec a b then true else false.
Definition Rleb (a b : R) : bool := if Rle_dec a b then true else false.
Definition Reqb (a b : R) : bool := if Req_EM_T a b then true else false.

(* f64::powf on the reals: positive base: exp(p ln x); negative base and integer exponent: sign by
   parity; negative base otherwise: NaN (0 here, excluded by every theorem's domain);
   0^0 = 1, 0^p = 0 (p > 0) or +inf (p < 0, 0 here, excluded) *)
Definition is_intR (p : R) : bool := Reqb p (IZR (Int_part p)).
Definition Rpowf (x p : R) : R :=
  if Rlt_dec 0 x then Rpower x p
  else if Rlt_dec x 0 then
    (if is_intR p then (if Z.even (Int_part p) then 1 else -1) * Rpower (- x) p else 0)
  else (if Req_EM_T p 0 then 1 else 0).

(* f64::trunc: toward zero *)
Definition Rtrunc (x : R) : R := if Rle_dec 0 x then IZR (Int_part x) else - IZR (Int_part (- x)).
(* f64 % f64 = fmod: x - y * trunc(x / y), exact *)
Definition Rfmod (x y : R) : R := x - y * Rtrunc (x / y).

(* standard normal density and distribution function *)
Definition Rphi (x : R) : R := / sqrt (2 * PI) * exp (- (x * x) / 2).
Definition Rncdf (x : R) : R := / 2 + RInt Rphi 0 x.
(* its inverse: any x with Phi x = y (unique, Phi is strictly increasing); 0 outside the range *)
Definition Rnicdf (y : R) : R := epsilon (inhabits 0) (fun x => Rncdf x = y).

Definition Rsignum (x : R) : R := if Rle_dec 0 x then 1 else -1.

#[global] Instance NumR : Num R := {|
  n0 := 0; n1 := 1;
  nadd := Rplus; nsub := Rminus; nmul := Rmult; ndiv := Rdiv;
  nneg := Ropp; nabs := Rabs;
  nltb := Rltb; nleb := Rleb; neqb := Reqb;
  nofZ := IZR;
  npow := Rpowf;
  nexp := exp; nln := ln; nsqrt := sqrt;
  ntrunc := Rtrunc;
  nrem := Rfmod;
  ncdf := Rncdf;
  nicdf := Rnicdf;
  npi := PI;
  nsignum := Rsignum
|}.
