(* Panic-aware models of the fallible entry points (C20) that are not already a definition of
   another model file, the shape invariants of every loadable type as executable predicates, and
   one sum type over all the listed constructors.  Executable definitions only.

   Already modelled elsewhere and re-used here:
     Dual::try_new, Dual2::try_new                      Model/Dual.v  dual_try_new, dual2_try_new
     Ccy / FXPair / FXRate / FXRates ::try_new          Model/FX.v    ccy_try_new .. fx_try_new
     NamedCal::try_new                                  Model/Named.v named_try_new
     Cal::new (week-mask try_from(..).unwrap())         Model/Calendar.v cal_new
     get_roll, get_roll_by_day, add_months (unadjusted) Model/Dates.v
     add_bus_days, lag, add_days, add_months, roll      Model/Calendar.v (section DateRoll)
     from_json                                          Model/Json.v  from_json_model
   New here: PPSpline::new + csolve (rust/splines/spline.rs:156-215) on top of Model/Spline.v and
   Model/Linalg.v. *)
From Coq Require Import ZArith List Bool Arith.
From RL Require Import Base.Num Base.Str Base.Outcome Model.Dates Model.Calendar Model.Named
  Model.Dual Model.Number Model.FX Model.Spline Model.Linalg Model.Json.
Import ListNotations.

(* ------------------------------------------------------------------ calendars as predicates *)
(* the date functions of Model/Calendar.v at a concrete Cal / UnionCal, with the search bound the
   executable model uses *)
Definition cal_roll (c : cal) := roll (cal_is_bus c) (cal_is_settle c) (cal_fuel c).
Definition cal_add_days (c : cal) := add_days (cal_is_bus c) (cal_is_settle c) (cal_fuel c).
Definition cal_add_bus_days (c : cal) := add_bus_days (cal_is_bus c) (cal_is_settle c) (cal_fuel c).
Definition cal_lag (c : cal) := lag (cal_is_bus c) (cal_is_settle c) (cal_fuel c).
Definition cal_add_months (c : cal) := add_months (cal_is_bus c) (cal_is_settle c) (cal_fuel c).

Section Shapes.
Context {T : Type} `{Num T}.

(* ------------------------------------------------------------------ shape invariants (bool) *)
Fixpoint nodupb (l : list name) : bool :=
  match l with [] => true | x :: r => negb (mem x r) && nodupb r end.
Fixpoint znodupb (l : list Z) : bool :=
  match l with [] => true | x :: r => negb (zmem x r) && znodupb r end.

Definition wf_dualb (d : dual T) : bool :=
  nodupb (vs d) && Nat.eqb (length (du d)) (length (vs d)).
Definition wf_jdual2b (d : jdual2 T) : bool :=
  let n := Z.of_nat (length (j2_vars d)) in
  nodupb (j2_vars d) && Nat.eqb (length (j2_du d)) (length (j2_vars d)) &&
  Z.eqb (a_rows (j2_dd d)) n && Z.eqb (a_cols (j2_dd d)) n &&
  Z.eqb (Z.of_nat (length (a_data (j2_dd d)))) (n * n).
Definition wf_numberb (x : jnumber T) : bool :=
  match x with JNF _ => true | JND d => wf_dualb d | JND2 d => wf_jdual2b d end.

Definition mask_okb (m : list Z) : bool := forallb (fun v => (0 <=? v)%Z && (v <=? 6)%Z) m.
Definition cal_shapeb (c : cal) : bool := znodupb (c_hols c) && znodupb (c_mask c) && mask_okb (c_mask c).
Definition ucal_shapeb (u : ucal) : bool :=
  forallb cal_shapeb (u_cals u) && match u_settle u with None => true | Some v => forallb cal_shapeb v end.
(* a NamedCal is what its (lower-case) name denotes *)
Definition cal_eqb_syn (x y : cal) : bool := str_eqb (c_mask x) (c_mask y) && str_eqb (c_hols x) (c_hols y).
Fixpoint cals_eqb_syn (x y : list cal) : bool :=
  match x, y with
  | [], [] => true
  | p :: x', q :: y' => cal_eqb_syn p q && cals_eqb_syn x' y'
  | _, _ => false
  end.
Definition namedcal_eqb (a b : namedcal) : bool :=
  str_eqb (n_name a) (n_name b) &&
  cals_eqb_syn (u_cals (n_ucal a)) (u_cals (n_ucal b)) &&
  match u_settle (n_ucal a), u_settle (n_ucal b) with
  | None, None => true | Some x, Some y => cals_eqb_syn x y | _, _ => false end.
Definition named_shapeb (n : namedcal) : bool :=
  match named_try_new (n_name n) with Ok m => namedcal_eqb m n | _ => false end.
Definition caltype_shapeb (c : caltype) : bool :=
  match c with CTCal c => cal_shapeb c | CTUnion u => ucal_shapeb u | CTNamed n => named_shapeb n end.

Fixpoint strictly_incr (l : list Z) : bool :=
  match l with
  | a :: (b :: _) as r => (a <? b)%Z && strictly_incr r
  | _ => true
  end.
Definition nodes_keys (n : jnodes T) : list Z :=
  match n with NdF m => map fst m | NdD m => map fst m | NdD2 m => map fst m end.
Definition nodes_kind (n : jnodes T) : Z := match n with NdF _ => 0 | NdD _ => 1 | NdD2 _ => 2 end%Z.
Definition nodes_wfb (n : jnodes T) : bool :=
  match n with
  | NdF _ => true
  | NdD m => forallb (fun kv => let d := snd kv in Nat.eqb (length (du d)) (length (vs d))) m
  | NdD2 m => forallb (fun kv => let d := snd kv in
                Nat.eqb (length (j2_du d)) (length (j2_vars d)) &&
                Z.eqb (a_rows (j2_dd d)) (Z.of_nat (length (j2_vars d))) &&
                Z.eqb (a_cols (j2_dd d)) (Z.of_nat (length (j2_vars d)))) m
  end.
Definition curve_shapeb (c : jcurve T) : bool :=
  strictly_incr (nodes_keys (cv_nodes c)) && nodes_wfb (cv_nodes c) && caltype_shapeb (cv_cal c) &&
  Nat.ltb (cv_rule c) 6 && Nat.ltb (cv_conv c) 11 && Nat.ltb (cv_mod c) 5.

(* what PPSpline::new establishes (it does not look at the coefficients' count) *)
Definition spline_shapeb {X} (wfx : X -> bool) (s : jspline T X) : bool :=
  let lt := Z.of_nat (length (sp_t s)) in
  (1 <? lt)%Z && (sp_k s <=? lt)%Z && (sp_n s =? lt - sp_k s)%Z && nondecr (sp_t s) &&
  match sp_c s with None => true | Some c => forallb wfx c end.

(* an FX market is the output of the constructor on its own quotes and first currency *)
Definition arr_kind (a : numarr T) : Z := match a with AF _ => 0 | AD _ => 1 | AD2 _ => 2 end%Z.
Definition arr_rows (a : numarr T) : nat :=
  match a with AF m => length m | AD m => length m | AD2 m => length m end.
Definition arr_cols (a : numarr T) : nat :=
  match a with
  | AF m => match m with r :: _ => length r | [] => O end
  | AD m => match m with r :: _ => length r | [] => O end
  | AD2 m => match m with r :: _ => length r | [] => O end
  end.
Definition fx_shapeb (f : jfx T) : bool :=
  nodupb (jf_ccys f) && Nat.eqb (length (jf_ccys f)) (S (length (jf_rates f))) &&
  Nat.eqb (arr_rows (jf_arr f)) (length (jf_ccys f)) && Nat.eqb (arr_cols (jf_arr f)) (length (jf_ccys f)) &&
  Z.eqb (arr_kind (jf_arr f)) 1.

Definition shapeb (o : obj T) : bool :=
  match o with
  | ODual d => wf_dualb d
  | ODual2 d => wf_jdual2b d
  | OCal c => cal_shapeb c
  | OUnion u => ucal_shapeb u
  | ONamed n => named_shapeb n
  | OFX f => fx_shapeb f
  | OCurve c => curve_shapeb c
  | OSpF s => spline_shapeb (fun _ => true) s
  | OSpD s => spline_shapeb wf_dualb s
  | OSpD2 s => spline_shapeb wf_jdual2b s
  end.

Definition dual_lenb (d : dual T) : bool := Nat.eqb (length (du d)) (length (vs d)).
Definition jdual2_lenb (d : jdual2 T) : bool :=
  let n := Z.of_nat (length (j2_vars d)) in
  Nat.eqb (length (j2_du d)) (length (j2_vars d)) && Z.eqb (a_rows (j2_dd d)) n && Z.eqb (a_cols (j2_dd d)) n.

(* the integers harness/src/json.rs prints for a loaded object (Tagged::shape) *)
Definition zlen {A} (l : list A) : Z := Z.of_nat (length l).
Definition zb (b : bool) : Z := if b then 1%Z else 0%Z.
Definition olen {A} (o : option (list A)) : Z := match o with Some l => zlen l | None => (-1)%Z end.
Definition kind_of (o : obj T) : Z :=
  match o with
  | ODual _ => 0 | ODual2 _ => 1 | OCal _ => 2 | OUnion _ => 3 | ONamed _ => 4 | OFX _ => 5
  | OCurve _ => 6 | OSpF _ => 7 | OSpD _ => 8 | OSpD2 _ => 9
  end%Z.
Definition spline_vec {X} (lenx : X -> bool) (s : jspline T X) : list Z :=
  [sp_k s; zlen (sp_t s); sp_n s; olen (sp_c s); zb (nondecr (sp_t s));
   zb (match sp_c s with Some c => forallb lenx c | None => true end)].
Definition shape_vec (o : obj T) : list Z :=
  match o with
  | ODual d => [zlen (vs d); zlen (du d)]
  | ODual2 d => [zlen (j2_vars d); zlen (j2_du d); a_rows (j2_dd d); a_cols (j2_dd d)]
  | OCal c => [zlen (c_hols c); zlen (c_mask c)]
  | OUnion u => [zlen (u_cals u); olen (u_settle u)]
  | ONamed n => [zlen (n_name n); zlen (u_cals (n_ucal n)); olen (u_settle (n_ucal n))]
  | OFX f => [zlen (jf_rates f); zlen (jf_ccys f); arr_kind (jf_arr f);
              Z.of_nat (arr_rows (jf_arr f)); Z.of_nat (arr_cols (jf_arr f))]
  | OCurve c => [zlen (nodes_keys (cv_nodes c)); nodes_kind (cv_nodes c);
                 zb (strictly_incr (nodes_keys (cv_nodes c))); zb (nodes_wfb (cv_nodes c))]
  | OSpF s => spline_vec (fun _ => true) s
  | OSpD s => spline_vec dual_lenb s
  | OSpD2 s => spline_vec jdual2_lenb s
  end.

(* ------------------------------------------------------------------ PPSpline::new, csolve *)
Record pp (X : Type) := mkPP { pp_k : nat; pp_t : list T; pp_c : option (list X); pp_n : nat }.
Arguments mkPP {X}. Arguments pp_k {X}. Arguments pp_t {X}. Arguments pp_c {X}. Arguments pp_n {X}.

(* spline.rs:156-163: assert!(t.len() > 1); assert!(non-decreasing); n = t.len() - k (checked) *)
Definition pp_new {X} (k : nat) (t : list T) (c : option (list X)) : outcome (pp X) :=
  if Nat.leb (length t) 1 then Panic
  else if negb (nondecr t) then Panic
  else if Nat.ltb (length t) k then Panic
  else Ok (mkPP k t c (length t - k)).

(* bsplmatrix :202-214.  Column by column: row 0 with the left derivative order, the last row with
   the right one (it overwrites row 0 when there is a single site), rows between with order 0.
   Every entry is evaluated; evaluation can only abort (index), never return an error. *)
Definition middle {A} (l : list A) : list A := removelast (tl l).
Definition bsplmatrix (k : nat) (t : list T) (n : nat) (tau : list T) (ln rn : nat)
  : outcome (list (list T)) :=
  match n with
  | O => Ok (map (fun _ => []) tau)
  | S _ =>
      match tau with
      | [] => Panic                                         (* tau[0] *)
      | t0 :: _ =>
          let tl_ := last tau t0 in
          do r0 <- bspldnev_row t0 k t ln n;
          do rl <- bspldnev_row tl_ k t rn n;
          do mid <- omapM (fun x => bsplev_row x k t n) (middle tau);
          Ok (match tau with [_] => [rl] | _ => r0 :: mid ++ [rl] end)
      end
  end.

Section CSolve.
  Context {X : Type} {OX : Ops X} (xmul : T -> X -> X).
  (* csolve :184-201 *)
  Definition csolve (s : pp X) (tau : list T) (y : list X) (ln rn : nat) (lsq : bool) : outcome (pp X) :=
    let n := pp_n s in
    if negb (Nat.eqb (length tau) n) && negb (lsq && Nat.ltb n (length tau)) then Err
    else if negb (Nat.eqb (length tau) (length y)) then Err
    else
      do b <- bsplmatrix (pp_k s) (pp_t s) n tau ln rn;
      match n with
      | O => Ok (mkPP (pp_k s) (pp_t s) (Some []) n)        (* an empty system: no pivot is ever taken *)
      | S _ => do c <- fdsolve xmul b y lsq; Ok (mkPP (pp_k s) (pp_t s) (Some c) n)
      end.
End CSolve.

(* ------------------------------------------------------------------ one type for all constructors *)
Inductive entry_in :=
| EDual (r : T) (vars : list name) (d : list T)
| EDual2 (r : T) (vars : list name) (d : list T) (d2 : list T)
| ECcy (s : name)
| EPair (l r : name)
| ERate (l r : name) (x : number T) (s : option Z)
| EFX (qs : list (fxrate T)) (base : option name)
| ENamed (s : name).
Inductive entry_out :=
| RDual (d : dual T) | RDual2 (d : dual2 T) | RCcy (c : name) | RPair (p : fxpair)
| RRate (q : fxrate T) | RFX (f : fxrates T) | RNamed (n : namedcal).
Definition run_entry (i : entry_in) : outcome entry_out :=
  match i with
  | EDual r v d => omap RDual (dual_try_new r v d)
  | EDual2 r v d d2 => omap RDual2 (dual2_try_new r v d d2)
  | ECcy s => omap RCcy (ccy_try_new s)
  | EPair l r => omap RPair (fxpair_try_new l r)
  | ERate l r x s => omap RRate (fxrate_try_new l r x s)
  | EFX qs b => omap RFX (fx_try_new qs b)
  | ENamed s => omap RNamed (named_try_new s)
  end.

End Shapes.
Arguments pp T X : clear implicits.
Arguments entry_in T : clear implicits.
Arguments entry_out T : clear implicits.
Arguments mkPP {T X}. Arguments pp_k {T X}. Arguments pp_t {T X}. Arguments pp_c {T X}. Arguments pp_n {T X}.
