(* Model of the B-spline basis functions of rust/splines/spline.rs.  Executable definitions only.

     bsplev   = bsplev_single_f64   (spline.rs:18-50)
     bspldnev = bspldnev_single_f64 (spline.rs:92-130)

   Polymorphic in `Num T` (theorems at T := R, correspondence at T := float).  Knots are a
   `list T`; `t[i]` is `idx t i`, which is `Panic` when `i` is out of range exactly as the Rust
   slice index aborts.  `usize` subtractions that can underflow (`t.len() - org_k - 1`, `k - 1`,
   `i + k - 1`) are `usub` (the harness builds the crate with overflow checks on).  `&&`/`||`
   short-circuits are kept: an index expression that Rust does not evaluate is not evaluated
   here either. *)
From Coq Require Import ZArith List Bool Arith.
From RL Require Import Base.Outcome Base.Num.
Import ListNotations.

Section Spline.
  Context {T : Type} `{Num T}.

  (* t[i] *)
  Definition idx (t : list T) (i : nat) : outcome T :=
    match nth_error t i with Some v => Ok v | None => Panic end.

  (* a - b on usize with overflow check *)
  Definition usub (a b : nat) : outcome nat := if Nat.ltb a b then Panic else Ok (a - b).

  Definition resolve_org (org_k : option nat) (k : nat) : nat :=
    match org_k with Some o => o | None => k end.           (* org_k.unwrap_or( *k ) *)

  (* `*x == t[t.len() - 1] && i >= (t.len() - org_k - 1)` *)
  Definition right_end_rule (x : T) (i : nat) (t : list T) (org : nat) : outcome bool :=
    do l1 <- usub (length t) 1;
    do tl <- idx t l1;
    if neqb x tl then
      (do a <- usub (length t) org; do b <- usub a 1; Ok (Nat.leb b i))
    else Ok false.

  Fixpoint bsplev (x : T) (i k : nat) (t : list T) (org_k : option nat) {struct k} : outcome T :=
    let org := resolve_org org_k k in
    (* Short circuit (positivity and support property): `*x < t[i] || *x > t[i + k]` *)
    do ti <- idx t i;
    if nltb x ti then Ok n0 else
    do tik <- idx t (i + k);
    if nltb tik x then Ok n0 else
    (* Right side end point support *)
    do re <- right_end_rule x i t org;
    if re then Ok n1 else
    (* Recursion *)
    match k with
    | O =>
      (* k = 0: `*k == 1` is false; `t[i + k - 1]` underflows for i = 0; any recursive call
         evaluates `k - 1` and aborts *)
      do im1 <- usub (i + 0) 1;
      do tim1 <- idx t im1;
      if negb (neqb ti tim1) then Panic else
      do ti1 <- idx t (i + 1);
      if negb (neqb ti1 tik) then Panic else
      Ok (nadd n0 n0)
    | S k' =>
      if Nat.eqb k' 0 then
        (* k == 1: `t[i] <= *x && *x < t[i + 1]` *)
        (if nleb ti x then
           (do ti1 <- idx t (i + 1); Ok (if nltb x ti1 then n1 else n0))
         else Ok n0)
      else
        do tik1 <- idx t (i + k - 1);
        do left <- (if negb (neqb ti tik1)
                    then (do b <- bsplev x i k' t None;
                          Ok (nmul (ndiv (nsub x ti) (nsub tik1 ti)) b))
                    else Ok n0);
        do ti1 <- idx t (i + 1);
        do right <- (if negb (neqb ti1 tik)
                     then (do b <- bsplev x (i + 1) k' t None;
                           Ok (nmul (ndiv (nsub tik x) (nsub tik ti1)) b))
                     else Ok n0);
        Ok (nadd left right)
    end.

  (* the common tail of the `m == 1` and `m > 1` branches:
       let mut r = 0.0; if div1 != 0 { r += a / div1 } if div2 != 0 { r -= b / div2 } r *= (k-1) as f64 *)
  Definition dn_combine (k : nat) (div1 div2 : T) (a b : unit -> outcome T) : outcome T :=
    let r := n0 in
    do r <- (if negb (neqb div1 n0) then (do v <- a tt; Ok (nadd r (ndiv v div1))) else Ok r);
    do r <- (if negb (neqb div2 n0) then (do v <- b tt; Ok (nsub r (ndiv v div2))) else Ok r);
    Ok (nmul r (nofZ (Z.of_nat (k - 1)))).

  Fixpoint bspldnev (x : T) (i k : nat) (t : list T) (m : nat) (org_k : option nat) {struct m}
    : outcome T :=
    match m with
    | O => bsplev x i k t None
    | S m' =>
      if Nat.eqb k 1 || Nat.leb k m then Ok n0 else
      let org := resolve_org org_k k in
      do ik1 <- usub (i + k) 1;
      do tik1 <- idx t ik1;
      do ti <- idx t i;
      let div1 := nsub tik1 ti in
      do tik <- idx t (i + k);
      do ti1 <- idx t (i + 1);
      let div2 := nsub tik ti1 in
      match m' with
      | O => dn_combine k div1 div2
               (fun _ => bsplev x i (k - 1) t (Some org))
               (fun _ => bsplev x (i + 1) (k - 1) t (Some org))
      | S _ => dn_combine k div1 div2
               (fun _ => bspldnev x i (k - 1) t m' (Some org))
               (fun _ => bspldnev x (i + 1) (k - 1) t m' (Some org))
      end
    end.

  (* the row of all basis functions, (0..n).map(|i| bspldnev_single_f64(x, i, k, t, m, None)) *)
  Definition bspldnev_row (x : T) (k : nat) (t : list T) (m n : nat) : outcome (list T) :=
    omapM (fun i => bspldnev x i k t m None) (seq 0 n).
  Definition bsplev_row (x : T) (k : nat) (t : list T) (n : nat) : outcome (list T) :=
    omapM (fun i => bsplev x i k t None) (seq 0 n).
End Spline.
