(* Model of the calendar arithmetic in rust/calendars/dateroll.rs (month arithmetic, roll days)
   and of the chrono functions it calls.  Executable definitions only.

   A date is its day number: days since 1970-01-01 (all datetimes the calendar API sees are
   midnights).  chrono's `NaiveDate::from_ymd_opt`, `.year()/.month()/.day()`, `.weekday()` and
   `+ Days` are MODELLED here (civil <-> days after H. Hinnant); the tie to the real chrono is the
   exhaustive correspondence over 1970-2200 run by the C08 check. *)
From Coq Require Import ZArith List Bool.
From RL Require Import Base.Outcome.
Import ListNotations.
Open Scope Z_scope.

(* ---------- chrono, modelled ---------- *)

Definition is_leap_greg (y : Z) : bool :=
  (y mod 4 =? 0) && (negb (y mod 100 =? 0) || (y mod 400 =? 0)).

(* days in month; 0 for an invalid month *)
Definition dim (y m : Z) : Z :=
  if (m =? 1) || (m =? 3) || (m =? 5) || (m =? 7) || (m =? 8) || (m =? 10) || (m =? 12) then 31
  else if (m =? 4) || (m =? 6) || (m =? 9) || (m =? 11) then 30
  else if m =? 2 then (if is_leap_greg y then 29 else 28)
  else 0.

Definition civil_core (doe : Z) : Z * Z * Z :=
  let yoe := (doe - doe / 1460 + doe / 36524 - doe / 146096) / 365 in
  let doy := doe - (365 * yoe + yoe / 4 - yoe / 100) in
  let mp := (5 * doy + 2) / 153 in
  let d := doy - (153 * mp + 2) / 5 + 1 in
  let m := if mp <? 10 then mp + 3 else mp - 9 in
  (if m <=? 2 then yoe + 1 else yoe, m, d).

(* NaiveDate::year()/month()/day() of day number z0 *)
Definition civil_from_days (z0 : Z) : Z * Z * Z :=
  let z := z0 + 719468 in
  let era := z / 146097 in
  let doe := z - era * 146097 in
  let '(y, m, d) := civil_core doe in (y + era * 400, m, d).

Definition days_from_civil (y0 m d : Z) : Z :=
  let y := if m <=? 2 then y0 - 1 else y0 in
  let era := y / 400 in
  let yoe := y - era * 400 in
  let mp := if m >? 2 then m - 3 else m + 9 in
  let doy := (153 * mp + 2) / 5 + d - 1 in
  let doe := yoe * 365 + yoe / 4 - yoe / 100 + doy in
  era * 146097 + doe - 719468.

Definition year_of (n : Z) : Z := let '(y, _, _) := civil_from_days n in y.
Definition month_of (n : Z) : Z := let '(_, m, _) := civil_from_days n in m.
Definition day_of (n : Z) : Z := let '(_, _, d) := civil_from_days n in d.

(* NaiveDate::from_ymd_opt(y, m, d) at midnight *)
Definition from_ymd_opt (y m d : Z) : option Z :=
  if (1 <=? m) && (m <=? 12) && (1 <=? d) && (d <=? dim y m)
  then Some (days_from_civil y m d) else None.

(* Weekday, 0 = Monday .. 6 = Sunday (chrono num_days_from_monday); 1970-01-01 is a Thursday *)
Definition weekday (n : Z) : Z := (n + 3) mod 7.

(* calendars::ndt : panics on an invalid date *)
Definition ndt (y m d : Z) : outcome Z :=
  match from_ymd_opt y m d with Some n => Ok n | None => Panic end.

(* ---------- dateroll.rs ---------- *)

Inductive rollday := Unspecified | RInt (day : Z) | EoM | SoM | IMM.

(* is_leap_year :408 *)
Definition is_leap_year (y : Z) : bool :=
  match from_ymd_opt y 2 29 with Some _ => true | None => false end.

(* get_roll_by_day :357 — recursion `day - 1` while `day > 28`; fuel = day suffices *)
Fixpoint get_roll_by_day_f (fuel : nat) (y m day : Z) : outcome Z :=
  match from_ymd_opt y m day with
  | Some n => Ok n
  | None =>
      if day >? 28 then
        match fuel with
        | O => Panic
        | S f => get_roll_by_day_f f y m (day - 1)
        end
      else Panic
  end.
Definition get_roll_by_day (y m day : Z) : outcome Z :=
  get_roll_by_day_f (Z.to_nat day) y m day.

(* get_imm :372 *)
Definition get_imm (y m : Z) : outcome Z :=
  do d1 <- ndt y m 1;
  let w := weekday d1 in
  if w =? 0 then ndt y m 17
  else if w =? 1 then ndt y m 16
  else if w =? 2 then ndt y m 15
  else if w =? 3 then ndt y m 21
  else if w =? 4 then ndt y m 20
  else if w =? 5 then ndt y m 19
  else ndt y m 18.

(* get_eom :391 — `while date == None { day -= 1 }` from 31; u32 underflow / endless loop = Panic *)
Fixpoint get_eom_f (fuel : nat) (y m day : Z) : outcome Z :=
  match from_ymd_opt y m day with
  | Some n => Ok n
  | None =>
      match fuel with
      | O => Panic
      | S f => if day <=? 0 then Panic else get_eom_f f y m (day - 1)
      end
  end.
Definition get_eom (y m : Z) : outcome Z := get_eom_f 32 y m 31.

Definition is_imm (n : Z) : outcome bool :=
  do i <- get_imm (year_of n) (month_of n); Ok (n =? i).
Definition is_eom (n : Z) : outcome bool :=
  do e <- get_eom (year_of n) (month_of n); Ok (n =? e).

(* get_roll :346 *)
Definition get_roll (y m : Z) (r : rollday) : outcome Z :=
  match r with
  | RInt d => get_roll_by_day y m d
  | EoM => get_roll_by_day y m 31
  | SoM => get_roll_by_day y m 1
  | IMM => get_imm y m
  | Unspecified => Err
  end.

Definition i32_min : Z := -2147483648.
Definition i32_max : Z := 2147483647.
Definition in_i32 (z : Z) : bool := (i32_min <=? z) && (z <=? i32_max).

(* the (year offset, month) computed by add_months :285-300 *)
Definition month_carry (m months : Z) : Z * Z :=
  let yr_roll := (Z.abs months / 12) * Z.sgn months in
  let rem_months := months - yr_roll * 12 in
  let new_month := m + rem_months in
  let '(yr_roll, new_month) :=
    if new_month <=? 0 then (yr_roll - 1, new_month mod 12)
    else if new_month >=? 13 then (yr_roll + 1, new_month mod 12)
    else (yr_roll, new_month) in
  let new_month := if new_month =? 0 then 12 else new_month in
  (yr_roll, new_month).

(* add_months :271 up to (not including) the final business-day adjustment.
   `get_roll(..).unwrap()`: Err becomes Panic. *)
Definition add_months_unadj (n months : Z) (r : rollday) : outcome Z :=
  let '(y, m, d) := civil_from_days n in
  let roll_ := match r with Unspecified => RInt d | _ => r end in
  if months =? i32_min then Panic (* i32::abs overflow *) else
  let '(yr_roll, new_month) := month_carry m months in
  if negb (in_i32 (y + yr_roll)) then Panic else
  match get_roll (y + yr_roll) new_month roll_ with
  | Ok x => Ok x
  | _ => Panic
  end.
