(* The PUBLISHED holiday rules of the built-in calendars, as written in the generator scripts
   rust/calendars/named/<name>_script.py (pandas `Holiday` rules) and summarised in the RULES consts /
   comments of rust/calendars/named/<name>.rs and the get_calendar docstring.  Executable definitions
   only.  This file is the SPECIFICATION the generated tables (Gen/NamedTables.v) are proved against
   in Proofs/RulesP*.v (through the checks of Model/RuleChecks.v); it does not depend on the tables.

   A rule is a predicate on a date (day number).  pandas semantics transcribed:
     Holiday(month, day)                          the date (month, day) of every year
     observance=f                                 the date is moved by f (depends on its weekday only)
     offset=[Easter(), Day(k)]  (from Jan 1)      k days after Easter Sunday of that year
     offset=DateOffset(weekday=W(n)) from (m, a)  the n-th weekday W on or after (m, a): weekday W with
                                                  a+7(n-1) <= day <= a+7n-1 (all within month m for the rules used)
     offset=DateOffset(weekday=W(-1)) from (m, a) the last weekday W on or before (m, a): a-6 <= day <= a
     year=Y                                       a one-off date
     start_date / end_date                        the (moved) date must lie in [start_date, end_date]     *)
From Coq Require Import ZArith List Bool String.
From RL Require Import Model.Dates.
Import ListNotations.
Open Scope Z_scope.

(* ---------- Easter Sunday: the anonymous Gregorian computus (Meeus/Jones/Butcher) ---------- *)
Definition easter_md (y : Z) : Z * Z :=
  let a := y mod 19 in let b := y / 100 in let c := y mod 100 in
  let d := b / 4 in let e := b mod 4 in let f := (b + 8) / 25 in
  let g := (b - f + 1) / 3 in let h := (19 * a + b - d - g + 15) mod 30 in
  let i := c / 4 in let k := c mod 4 in
  let l := (32 + 2 * e + 2 * i - h - k) mod 7 in
  let m := (a + 11 * h + 22 * l) / 451 in
  ((h + l - 7 * m + 114) / 31, (h + l - 7 * m + 114) mod 31 + 1).
Definition easter (y : Z) : Z := let '(m, d) := easter_md y in days_from_civil y m d.

(* ---------- a date with its civil fields (computed once per date) ---------- *)
Record dctx := mkD { x_n : Z; x_y : Z; x_m : Z; x_d : Z; x_wd : Z }.
Definition dctx_of (n : Z) : dctx :=
  let '(y, m, d) := civil_from_days n in mkD n y m d (weekday n).

(* ---------- pandas observance functions, as the number of days a date of weekday w is moved ---------- *)
Inductive observance := ONone | SundayToMonday | NearestWorkday | NextMonday | NextMondayOrTuesday.
Definition obs_shift (o : observance) (w : Z) : Z :=
  match o with
  | ONone => 0
  | SundayToMonday => if w =? 6 then 1 else 0
  | NearestWorkday => if w =? 5 then -1 else if w =? 6 then 1 else 0
  | NextMonday => if w =? 5 then 2 else if w =? 6 then 1 else 0
  | NextMondayOrTuesday => if (w =? 5) || (w =? 6) then 2 else if w =? 0 then 1 else 0
  end.

Inductive hkind :=
| Fixed (m dd : Z) (o : observance)    (* (m, dd) of every year, moved by the observance *)
| EasterPlus (k : Z)                   (* k days after Easter Sunday *)
| WeekdayIn (m w lo hi : Z)            (* the weekday w with lo <= day-of-month <= hi in month m *)
| LastWeekday (m w : Z)                (* the last weekday w of month m *)
| OneOff (y m dd : Z).

Record hrule := mkRule { h_kind : hkind; h_from : option (Z * Z * Z); h_to : option (Z * Z * Z) }.
Definition always (k : hkind) : hrule := mkRule k None None.
Definition since (k : hkind) (y m d : Z) : hrule := mkRule k (Some (y, m, d)) None.
Definition until (k : hkind) (y m d : Z) : hrule := mkRule k None (Some (y, m, d)).
Definition between (k : hkind) (y m d y2 m2 d2 : Z) : hrule := mkRule k (Some (y, m, d)) (Some (y2, m2, d2)).

(* (y1,m1,d1) <= (y2,m2,d2) *)
Definition ymd_leb (a b : Z * Z * Z) : bool :=
  let '(y1, m1, d1) := a in let '(y2, m2, d2) := b in
  if y1 <? y2 then true else if y1 =? y2 then (if m1 <? m2 then true else if m1 =? m2 then d1 <=? d2 else false) else false.

(* weekday of the date k days BEFORE a date of weekday w, for -1 <= k <= 2 (no division) *)
Definition wd_back (w k : Z) : Z := let v := w - k in if v <? 0 then v + 7 else if 6 <? v then v - 7 else v.

(* `a && b` evaluated left to right, b only when needed (vm_compute is call-by-value) *)
Notation "a &&& b" := (if a then b else false) (at level 40, left associativity).

(* The date c is the observed date of (m, dd): c = b + obs_shift o (weekday b) for the date b = (m, dd) of c's year.
   Shifts are within -1..2 and no rule used here can leave its month (see rule_wf: 1 <= dd + k <= 28), so
   c is (m, dd + k) and b is c - k, a date of weekday wd_back (weekday c) k. *)
Definition fixed_hit (m dd : Z) (o : observance) (c : dctx) : bool :=
  (x_m c =? m) &&&
  existsb (fun k => (x_d c =? dd + k) &&& (obs_shift o (wd_back (x_wd c) k) =? k)) [0; 1; 2; -1].

Definition kind_hit (k : hkind) (c : dctx) : bool :=
  match k with
  | Fixed m dd o => fixed_hit m dd o c
  | EasterPlus j =>
      (* Easter Sunday lies in 22 March .. 25 April (RulesP.easter_bounds) and -3 <= j <= 50 (rule_wf): such a date is
         in March..June; the guard only avoids evaluating the computus on the other dates *)
      (3 <=? x_m c) &&& (x_m c <=? 6) &&& (x_n c =? easter (x_y c) + j)
  | WeekdayIn m w lo hi => (x_m c =? m) &&& (x_wd c =? w) &&& (lo <=? x_d c) &&& (x_d c <=? hi)
  | LastWeekday m w => (x_m c =? m) &&& (x_wd c =? w) &&& (dim (x_y c) m - 7 <? x_d c)
  | OneOff y m dd => (x_y c =? y) &&& (x_m c =? m) &&& (x_d c =? dd)
  end.
Definition rule_hit (r : hrule) (c : dctx) : bool :=
  kind_hit (h_kind r) c &&&
  match h_from r with None => true | Some a => ymd_leb a (x_y c, x_m c, x_d c) end &&&
  match h_to r with None => true | Some b => ymd_leb (x_y c, x_m c, x_d c) b end.
Definition rules_hit (rs : list hrule) (d : Z) : bool := let c := dctx_of d in existsb (fun r => rule_hit r c) rs.

(* side conditions under which the readings above are the pandas ones: an observed date stays in its month,
   Easter offsets are the documented -3..50, weekday windows are 7 days inside a month *)
Definition kind_wf (k : hkind) : bool :=
  match k with
  | Fixed m dd o => (1 <=? m) && (m <=? 12) && (1 <=? dd) && (dd <=? dim 1970 m) &&
                    match o with ONone => true | _ => (forallb (fun w => (1 <=? dd + obs_shift o w) && (dd + obs_shift o w <=? 28)) [0; 1; 2; 3; 4; 5; 6]) end
  | EasterPlus j => (-3 <=? j) && (j <=? 50)
  | WeekdayIn m w lo hi => (1 <=? m) && (m <=? 12) && (0 <=? w) && (w <=? 6) && (1 <=? lo) && (hi =? lo + 6) && (hi <=? 28)
  | LastWeekday m w => (1 <=? m) && (m <=? 12) && (0 <=? w) && (w <=? 6)
  | OneOff y m dd => (1 <=? m) && (m <=? 12) && (1 <=? dd) && (dd <=? dim y m)
  end.
Definition rules_wf (rs : list hrule) : bool := forallb (fun r => kind_wf (h_kind r)) rs.

Definition MO := 0. Definition TH := 3. Definition FR := 4.
Definition good_friday := EasterPlus (-2).
Definition easter_monday := EasterPlus 1.

(* ---------- the seven fully published rule sets ---------- *)
(* tgt_script.py *)
Definition rules_tgt : list hrule :=
  [always (Fixed 1 1 ONone); always good_friday; always easter_monday; always (Fixed 5 1 ONone);
   always (Fixed 12 25 ONone); always (Fixed 12 26 ONone)].

(* nyc_script.py; fed_script.py is the same list with the Good Friday line commented out *)
Definition rules_us (with_good_friday : bool) : list hrule :=
  [always (Fixed 1 1 SundayToMonday);
   since (WeekdayIn 1 MO 15 21) 1986 1 1;                  (* Martin Luther King: 3rd Monday of January from 1986 *)
   always (WeekdayIn 2 MO 15 21)] ++                       (* Presidents Day: 3rd Monday of February *)
  (if with_good_friday then [always good_friday] else []) ++
  [always (LastWeekday 5 MO);                              (* Memorial Day: last Monday of May *)
   since (Fixed 6 19 SundayToMonday) 2022 1 1;             (* Juneteenth from 2022 *)
   always (Fixed 7 4 NearestWorkday);
   always (WeekdayIn 9 MO 1 7);                            (* Labour Day: 1st Monday of September *)
   always (WeekdayIn 10 MO 8 14);                          (* Columbus Day: 2nd Monday of October *)
   always (Fixed 11 11 SundayToMonday);
   always (WeekdayIn 11 TH 22 28);                         (* Thanksgiving: 4th Thursday of November *)
   always (Fixed 12 25 NearestWorkday);
   always (OneOff 2018 12 5)].
Definition rules_nyc := rules_us true.
Definition rules_fed := rules_us false.

(* ldn_script.py *)
Definition rules_ldn : list hrule :=
  [always (Fixed 1 1 NextMonday); always good_friday; always easter_monday;
   until (WeekdayIn 5 MO 1 7) 2020 1 1;                    (* early May bank holiday, 1st Monday of May ... *)
   always (OneOff 2020 5 8);                               (* ... moved to 8 May in 2020 *)
   since (WeekdayIn 5 MO 1 7) 2021 1 1;
   until (LastWeekday 5 MO) 2022 5 1;                      (* spring bank holiday, last Monday of May ... *)
   since (LastWeekday 5 MO) 2022 7 1;                      (* ... except 2022 (jubilee 2 and 3 June) *)
   always (OneOff 2022 6 2); always (OneOff 2022 6 3);
   always (OneOff 2022 9 19);                              (* funeral of Queen Elizabeth II *)
   always (OneOff 2023 5 8);                               (* coronation *)
   always (LastWeekday 8 MO);                              (* summer bank holiday *)
   always (Fixed 12 25 NextMonday); always (Fixed 12 26 NextMondayOrTuesday)].

(* stk_script.py *)
Definition rules_stk : list hrule :=
  [always (Fixed 1 1 ONone); always (Fixed 1 6 ONone); always good_friday; always easter_monday;
   always (Fixed 5 1 ONone); always (EasterPlus 39); always (Fixed 6 6 ONone);
   always (WeekdayIn 6 FR 19 25);                          (* midsummer eve: the Friday on or before 25 June *)
   always (Fixed 12 24 ONone); always (Fixed 12 25 ONone); always (Fixed 12 26 ONone); always (Fixed 12 31 ONone)].

(* osl_script.py *)
Definition rules_osl : list hrule :=
  [always (Fixed 1 1 ONone); always (EasterPlus (-3)); always good_friday; always easter_monday;
   always (Fixed 5 1 ONone); always (Fixed 5 17 ONone); always (EasterPlus 39); always (EasterPlus 50);
   always (Fixed 12 24 ONone); always (Fixed 12 25 ONone); always (Fixed 12 26 ONone)].

(* zur_script.py *)
Definition rules_zur : list hrule :=
  [always (Fixed 1 1 ONone); always (Fixed 1 2 ONone); always good_friday; always easter_monday;
   always (Fixed 5 1 ONone); always (EasterPlus 39); always (EasterPlus 50); always (Fixed 8 1 ONone);
   always (Fixed 12 25 ONone); always (Fixed 12 26 ONone)].

(* ---------- documented fixed-date and Easter-linked holidays of the remaining calendars ----------
   (RULES const of <name>.rs, validity periods from <name>_script.py; only the weekday occurrences of the
   dates themselves are claimed: movable, astronomical and ad-hoc holidays are not in this list) *)
Definition partial_tro : list hrule :=
  [always (Fixed 1 1 ONone); always good_friday; always (Fixed 7 1 ONone); since (Fixed 9 30 ONone) 2021 1 1;
   always (Fixed 11 11 ONone); always (Fixed 12 25 ONone); always (Fixed 12 26 ONone)].
Definition partial_tyo : list hrule :=
  [always (Fixed 1 1 ONone); always (Fixed 1 2 ONone); always (Fixed 1 3 ONone); always (Fixed 2 11 ONone);
   since (Fixed 2 23 ONone) 2020 1 1; always (Fixed 4 29 ONone); always (Fixed 5 3 ONone); always (Fixed 5 4 ONone);
   always (Fixed 5 5 ONone);
   between (Fixed 8 11 ONone) 2016 1 1 2019 12 31; since (Fixed 8 11 ONone) 2022 1 1;   (* moved in the olympic years *)
   always (Fixed 11 3 ONone); always (Fixed 11 23 ONone); until (Fixed 12 23 ONone) 2019 1 1; always (Fixed 12 31 ONone)].
Definition partial_syd : list hrule :=
  [always (Fixed 1 1 ONone); always (Fixed 1 26 ONone); always good_friday; always easter_monday;
   always (Fixed 4 25 ONone); always (Fixed 12 25 ONone); always (Fixed 12 26 ONone)].
Definition partial_wlg : list hrule :=
  [always (Fixed 1 1 ONone); always (Fixed 1 2 ONone); always (Fixed 2 6 ONone); always good_friday; always easter_monday;
   always (Fixed 4 25 ONone); always (Fixed 12 25 ONone); always (Fixed 12 26 ONone)].
Definition partial_mum : list hrule :=
  [always (Fixed 1 26 ONone); always good_friday; always (Fixed 4 14 ONone); always (Fixed 5 1 ONone);
   always (Fixed 8 15 ONone); always (Fixed 10 2 ONone); always (Fixed 12 25 ONone)].

Definition full_rules : list (string * list hrule) :=
  [("tgt"%string, rules_tgt); ("nyc"%string, rules_nyc); ("fed"%string, rules_fed); ("ldn"%string, rules_ldn);
   ("stk"%string, rules_stk); ("osl"%string, rules_osl); ("zur"%string, rules_zur)].
Definition partial_rules : list (string * list hrule) :=
  [("tro"%string, partial_tro); ("tyo"%string, partial_tyo); ("syd"%string, partial_syd);
   ("wlg"%string, partial_wlg); ("mum"%string, partial_mum)].

