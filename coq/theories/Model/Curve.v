(* Model of rust/curves: nodes.rs (Nodes / NodesTimestamp, sort_keys), interpolation/utils.rs
   (index_left, linear_interp, log_linear_interp, linear_zero_interp), the five interpolators +
   Null (interpolation/intp_*.rs), curve.rs (CurveDF: try_new, ad, interpolated_value, node_index,
   set_ad_order, index_value), dual/mod.rs get_variable_tags and curve_py.rs (nodes_into_order and
   the Python-facing constructor).  Executable definitions only.

   IndexMap<K, V> is an association list in insertion order (keys are unique by construction of an
   IndexMap; `im_from_iter` is what `IndexMap::from_iter` does to a sequence that repeats a key).
   NaiveDateTime keys are integers = nanoseconds since the epoch; `and_utc().timestamp()` is the
   floor division by 10^9 (two datetimes inside the same second collide when `Nodes` becomes
   `NodesTimestamp`).  i64 timestamps are unbounded Z (chrono's range is not modelled); convention,
   modifier and calendar of a CurveDF take no part in any function modelled here and are omitted. *)
From Coq Require Import ZArith List Bool.
From RL Require Import Base.Num Base.Str Base.Outcome Model.Dual Model.Number.
Import ListNotations.
Local Open Scope nat_scope.

(* ------------------------------------------------------------ index_left utils.rs:67-88 *)
Section IndexLeft.
  Context {A : Type} (leb eqb : A -> A -> bool).
  (* recursion on slices; fuel = length of the list (each call is on a strictly shorter slice) *)
  Fixpoint index_left_go (fuel : nat) (l : list A) (v : A) (lc : nat) : outcome nat :=
    match fuel with
    | O => Panic
    | S f =>
      match length l with
      | 0 => Panic                       (* (n - 1_usize) underflows / list_input[split] out of bounds *)
      | 1 => Panic                       (* panic!("`index_left` designed for intervals ...") *)
      | 2 => Ok lc
      | n =>
        let split := ((n - 1) / 2)%nat in
        match nth_error l split with
        | None => Panic
        | Some p =>
          if Nat.eqb n 3 && eqb v p then Ok lc
          else if leb v p then index_left_go f (firstn (S split) l) v lc         (* &list_input[..=split] *)
          else index_left_go f (skipn split l) v (lc + split)                    (* &list_input[split..]  *)
        end
      end
    end.
  Definition index_left_lc (l : list A) (v : A) (left_count : option nat) : outcome nat :=
    index_left_go (length l) l v (match left_count with Some c => c | None => 0 end).
  Definition index_left (l : list A) (v : A) : outcome nat := index_left_lc l v None.
End IndexLeft.

(* ------------------------------------------------------------ IndexMap *)
Section IMap.
  Context {K V : Type} (keqb kleb : K -> K -> bool).
  (* IndexMap::insert: an existing key keeps its position and gets the new value *)
  Fixpoint im_insert (k : K) (v : V) (m : list (K * V)) : list (K * V) :=
    match m with
    | [] => [(k, v)]
    | (k', v') :: r => if keqb k k' then (k', v) :: r else (k', v') :: im_insert k v r
    end.
  Definition im_from_iter (l : list (K * V)) : list (K * V) :=
    fold_left (fun m kv => im_insert (fst kv) (snd kv) m) l [].
  (* IndexMap::sort_keys: stable sort of the entries by key *)
  Fixpoint ins_sorted (kv : K * V) (m : list (K * V)) : list (K * V) :=
    match m with
    | [] => [kv]
    | h :: r => if kleb (fst kv) (fst h) then kv :: h :: r else h :: ins_sorted kv r
    end.
  Definition sort_keys (m : list (K * V)) : list (K * V) := fold_right ins_sorted [] m.
  (* get_index(i).unwrap() *)
  Definition get_index (m : list (K * V)) (i : nat) : outcome (K * V) :=
    match nth_error m i with Some p => Ok p | None => Panic end.
End IMap.

Fixpoint mapi_from {A B} (i : nat) (f : nat -> A -> B) (l : list A) : list B :=
  match l with [] => [] | x :: r => f i x :: mapi_from (S i) f r end.
Definition mapi {A B} (f : nat -> A -> B) (l : list A) : list B := mapi_from 0 f l.   (* .enumerate().map *)

(* NaiveDateTime (nanoseconds) -> and_utc().timestamp() ; DateTime::from_timestamp(k, 0) *)
Definition ts_of_ns (k : Z) : Z := (k / 1000000000)%Z.
Definition ns_of_ts (k : Z) : Z := (k * 1000000000)%Z.

(* dual/mod.rs:37-39 get_variable_tags: name + i.to_string() for i in 0..range *)
Definition var_tag (id : name) (i : nat) : name := id ++ dec_of_Z (Z.of_nat i).
Definition get_variable_tags (id : name) (range : nat) : list name := map (var_tag id) (seq 0 range).

Inductive rule := LogLinear | Linear | LinearZeroRate | FlatForward | FlatBackward | Null.

Section Curve.
Context {T : Type} `{Num T}.

(* nodes.rs: Nodes (keys = datetimes) and NodesTimestamp (keys = seconds) have the same shape *)
Inductive nodes :=
| NsF (m : list (Z * T))
| NsD (m : list (Z * dual T))
| NsD2 (m : list (Z * dual2 T)).

Definition nodes_keys (n : nodes) : list Z :=
  match n with NsF m => map fst m | NsD m => map fst m | NsD2 m => map fst m end.
(* NodesTimestamp::first_key: m.first().unwrap().0 *)
Definition first_key (n : nodes) : outcome Z :=
  match nodes_keys n with k :: _ => Ok k | [] => Panic end.
(* From<Nodes> for NodesTimestamp: IndexMap::from_iter over (k.timestamp(), v) *)
Definition retime {V} (m : list (Z * V)) : list (Z * V) :=
  im_from_iter Z.eqb (map (fun kv => (ts_of_ns (fst kv), snd kv)) m).
Definition nodes_ts_from (n : nodes) : nodes :=
  match n with NsF m => NsF (retime m) | NsD m => NsD (retime m) | NsD2 m => NsD2 (retime m) end.
Definition nodes_sort_keys (n : nodes) : nodes :=
  match n with
  | NsF m => NsF (sort_keys Z.leb m) | NsD m => NsD (sort_keys Z.leb m) | NsD2 m => NsD2 (sort_keys Z.leb m)
  end.
(* NodesTimestamp::index_map / From<NodesTimestamp> for Nodes + the `nodes` getter of curve_py.rs *)
Definition nodes_index_map (n : nodes) : list (Z * number T) :=
  match n with
  | NsF m => map (fun kv => (ns_of_ts (fst kv), NF (snd kv))) m
  | NsD m => map (fun kv => (ns_of_ts (fst kv), ND (snd kv))) m
  | NsD2 m => map (fun kv => (ns_of_ts (fst kv), ND2 (snd kv))) m
  end.

(* ------------------------------------------------------------ closed forms utils.rs:17-52
   generic over the node value type U (f64 / Dual / Dual2): the operations the trait bounds give *)
Record iops (U : Type) := mkIops {
  io_add : U -> U -> U;        (* &U + &U *)
  io_sub : U -> U -> U;        (* &U - &U *)
  io_mulf : U -> T -> U;       (* U * f64 *)
  io_log : U -> U;             (* MathFuncs::log *)
  io_exp : U -> U              (* MathFuncs::exp *)
}.
Arguments io_add {U}. Arguments io_sub {U}. Arguments io_mulf {U}. Arguments io_log {U}. Arguments io_exp {U}.
Definition iops_f : iops T := mkIops T nadd nsub nmul nln nexp.
Definition iops_d : iops (dual T) := mkIops _ (dadd false) (dsub false) dmul_f dlog dexp.
Definition iops_d2 : iops (dual2 T) := mkIops _ (d2add false) (d2sub false) d2mul_f d2log d2exp.

Section Forms.
  Context {U : Type} (o : iops U).
  (* y1 + &((y2 - y1) * ((x - x1) / (x2 - x1))) *)
  Definition linear_interp (x1 : T) (y1 : U) (x2 : T) (y2 : U) (x : T) : U :=
    io_add o y1 (io_mulf o (io_sub o y2 y1) (ndiv (nsub x x1) (nsub x2 x1))).
  Definition log_linear_interp (x1 : T) (y1 : U) (x2 : T) (y2 : U) (x : T) : U :=
    let y1' := io_log o y1 in let y2' := io_log o y2 in
    io_exp o (linear_interp x1 y1' x2 y2' x).
  Definition linear_zero_interp (x0 x1 : T) (y1 : U) (x2 : T) (y2 : U) (x : T) : U :=
    let t1 := nsub x1 x0 in
    let t2 := nsub x2 x0 in
    let t := nsub x x0 in
    let r2 := io_mulf o (io_log o y2) (ndiv nm1 t2) in
    let r := if neqb t1 n0 then r2                                   (* flat zero rate in the first interval *)
             else let r1 := io_mulf o (io_log o y1) (ndiv nm1 t1) in
                  io_add o r1 (io_mulf o (io_sub o r2 r1) (ndiv (nsub t t1) (nsub t2 t1))) in
    io_exp o (io_mulf o r (nneg t)).

  (* CurveInterpolation::interpolated_value of the six interpolators on one IndexMap *)
  Definition interp_at (r : rule) (m : list (Z * U)) (x : Z) : outcome U :=
    match r with
    | Null => Panic                                   (* panic!("NullInterpolator cannot be used ...") *)
    | _ =>
      do i <- index_left Z.leb Z.eqb (map fst m) x;
      match r with
      | Linear =>
          do p1 <- get_index m i; do p2 <- get_index m (i + 1);
          Ok (linear_interp (nofZ (fst p1)) (snd p1) (nofZ (fst p2)) (snd p2) (nofZ x))
      | LogLinear =>
          do p1 <- get_index m i; do p2 <- get_index m (i + 1);
          Ok (log_linear_interp (nofZ (fst p1)) (snd p1) (nofZ (fst p2)) (snd p2) (nofZ x))
      | LinearZeroRate =>
          do p0 <- get_index m 0; do p2 <- get_index m (i + 1); do p1 <- get_index m i;
          Ok (linear_zero_interp (nofZ (fst p0)) (nofZ (fst p1)) (snd p1) (nofZ (fst p2)) (snd p2) (nofZ x))
      | FlatForward =>
          do p1 <- get_index m i; do p2 <- get_index m (i + 1);
          Ok (if (x >=? fst p2)%Z then snd p2 else snd p1)
      | FlatBackward =>
          do p1 <- get_index m i; do p2 <- get_index m (i + 1);
          Ok (if (x <=? fst p1)%Z then snd p1 else snd p2)
      | Null => Panic
      end
    end.
End Forms.

(* ------------------------------------------------------------ CurveDF curve.rs *)
Record curve := mkCurve { c_nodes : nodes; c_rule : rule; c_id : name; c_base : option T }.

(* CurveDF::try_new curve.rs:38-58: never fails, does not validate the number of nodes *)
Definition curve_try_new (n : nodes) (r : rule) (id : name) (base : option T) : curve :=
  mkCurve (nodes_sort_keys (nodes_ts_from n)) r id base.
Definition curve_ad (c : curve) : adorder :=
  match c_nodes c with NsF _ => OZero | NsD _ => OOne | NsD2 _ => OTwo end.
Definition interpolated_value (c : curve) (x : Z) : outcome (number T) :=
  match c_nodes c with
  | NsF m => omap NF (interp_at iops_f (c_rule c) m x)
  | NsD m => omap ND (interp_at iops_d (c_rule c) m x)
  | NsD2 m => omap ND2 (interp_at iops_d2 (c_rule c) m x)
  end.
(* default trait method: also available on the Null interpolator *)
Definition node_index (c : curve) (x : Z) : outcome nat :=
  index_left Z.leb Z.eqb (nodes_keys (c_nodes c)) x.

(* CurveDF::set_ad_order curve.rs:77-132 (always returns Ok(())) *)
Definition set_ad_order (c : curve) (ad : adorder) : curve :=
  let vars := get_variable_tags (c_id c) (length (nodes_keys (c_nodes c))) in
  let upd n := mkCurve n (c_rule c) (c_id c) (c_base c) in
  match ad, c_nodes c with
  | OZero, NsF _ | OOne, NsD _ | OTwo, NsD2 _ => c
  | OOne, NsF m => upd (NsD (mapi (fun i kv => (fst kv, dual_new (snd kv) [nth i vars []])) m))
  | OTwo, NsF m => upd (NsD2 (mapi (fun i kv => (fst kv, dual2_new (snd kv) [nth i vars []])) m))
  | OOne, NsD2 m => upd (NsD (map (fun kv => (fst kv, dual_of_dual2 (snd kv))) m))
  | OZero, NsD m => upd (NsF (map (fun kv => (fst kv, re (snd kv))) m))
  | OZero, NsD2 m => upd (NsF (map (fun kv => (fst kv, re2 (snd kv))) m))
  | OTwo, NsD m => upd (NsD2 (map (fun kv => (fst kv, dual2_of_dual (snd kv))) m))
  end.

(* CurveDF::index_value curve.rs:134-145 *)
Definition index_value (c : curve) (x : Z) : outcome (number T) :=
  match c_base c with
  | None => Err
  | Some ib =>
    do k0 <- first_key (c_nodes c);
    if (x <? k0)%Z then Ok (NF n0)
    else do v <- interpolated_value c x; num_div false (NF ib) v
  end.

(* ------------------------------------------------------------ curve_py.rs *)
(* nodes_into_order :230-248 (keys = datetimes; `nodes` is an IndexMap, i.e. has unique keys) *)
Definition nodes_into_order (m : list (Z * number T)) (ad : adorder) (id : name) : nodes :=
  let vars := get_variable_tags id (length m) in
  let s := sort_keys Z.leb m in
  match ad with
  | OZero => NsF (map (fun kv => (fst kv, num_to_f (snd kv))) s)
  | OOne => NsD (mapi (fun i kv => (fst kv, num_to_dual (set_order (snd kv) ad [nth i vars []]))) s)
  | OTwo => NsD2 (mapi (fun i kv => (fst kv, num_to_dual2 (set_order (snd kv) ad [nth i vars []]))) s)
  end.
(* Curve::new_py *)
Definition curve_new_py (m : list (Z * number T)) (r : rule) (ad : adorder) (id : name) (base : option T) : curve :=
  curve_try_new (nodes_into_order m ad id) r id base.

End Curve.
Arguments nodes T : clear implicits.
Arguments curve T : clear implicits.
Arguments iops T U : clear implicits.
Arguments io_add {T U}. Arguments io_sub {T U}. Arguments io_mulf {T U}. Arguments io_log {T U}. Arguments io_exp {T U}.
