(* Model of rust/calendars/dateroll.rs (DateRoll trait: adjustment, business-day arithmetic) and
   rust/calendars/calendar.rs (Cal, UnionCal, equality).  Executable definitions only.
   Dates are day numbers (Model/Dates.v).  `while` loops are structural recursion on explicit fuel
   and return Panic when the fuel runs out (an endless loop is an abort for our purposes). *)
From Coq Require Import ZArith List Bool.
From RL Require Import Base.Outcome Model.Dates.
Import ListNotations.
Open Scope Z_scope.

Inductive modifier := Act | F | ModF | P | ModP.

(* ---------- the DateRoll default methods, over ANY business-day / settlement predicates ---------- *)
Section DateRoll.
  Variable bus : Z -> bool.      (* is_bus_day *)
  Variable settle : Z -> bool.   (* is_settlement *)
  Variable FUEL : nat.           (* bound on the length of every day-by-day search *)

  (* roll_forward_bus_day :83 / roll_backward_bus_day :92 *)
  Fixpoint fwd_f (fuel : nat) (d : Z) : outcome Z :=
    if bus d then Ok d else match fuel with O => Panic | S f => fwd_f f (d + 1) end.
  Fixpoint bwd_f (fuel : nat) (d : Z) : outcome Z :=
    if bus d then Ok d else match fuel with O => Panic | S f => bwd_f f (d - 1) end.
  Definition roll_fwd (d : Z) := fwd_f FUEL d.
  Definition roll_bwd (d : Z) := bwd_f FUEL d.

  (* roll_mod_forward_bus_day :102 / roll_mod_backward_bus_day :113 *)
  Definition roll_mod_fwd (d : Z) : outcome Z :=
    do r <- roll_fwd d; if negb (month_of r =? month_of d) then roll_bwd d else Ok r.
  Definition roll_mod_bwd (d : Z) : outcome Z :=
    do r <- roll_bwd d; if negb (month_of r =? month_of d) then roll_fwd d else Ok r.

  (* roll_forward_settled_bus_day :125 / roll_backward_settled_bus_day :136 *)
  Fixpoint fwd_settled_f (fuel : nat) (d : Z) : outcome Z :=
    do r <- roll_fwd d;
    if settle r then Ok r else match fuel with O => Panic | S f => fwd_settled_f f (r + 1) end.
  Fixpoint bwd_settled_f (fuel : nat) (d : Z) : outcome Z :=
    do r <- roll_bwd d;
    if settle r then Ok r else match fuel with O => Panic | S f => bwd_settled_f f (r - 1) end.
  Definition roll_fwd_settled (d : Z) := fwd_settled_f FUEL d.
  Definition roll_bwd_settled (d : Z) := bwd_settled_f FUEL d.

  (* roll_forward_mod_settled_bus_day :146 / roll_backward_mod_settled_bus_day :157 *)
  Definition roll_fwd_mod_settled (d : Z) : outcome Z :=
    do r <- roll_fwd_settled d; if negb (month_of r =? month_of d) then roll_bwd_settled d else Ok r.
  Definition roll_bwd_mod_settled (d : Z) : outcome Z :=
    do r <- roll_bwd_settled d; if negb (month_of r =? month_of d) then roll_fwd_settled d else Ok r.

  (* roll :175, roll_with_settlement :412, roll_without_settlement :426 *)
  Definition roll (d : Z) (m : modifier) (settlement : bool) : outcome Z :=
    if settlement then
      match m with
      | Act => Ok d | F => roll_fwd_settled d | P => roll_bwd_settled d
      | ModF => roll_fwd_mod_settled d | ModP => roll_bwd_mod_settled d
      end
    else
      match m with
      | Act => Ok d | F => roll_fwd d | P => roll_bwd d
      | ModF => roll_mod_fwd d | ModP => roll_mod_bwd d
      end.

  (* the counter loops of add_bus_days :249-261 *)
  Fixpoint step_fwd (n : nat) (d : Z) : outcome Z :=
    match n with O => Ok d | S k => do r <- roll_fwd (d + 1); step_fwd k r end.
  Fixpoint step_bwd (n : nat) (d : Z) : outcome Z :=
    match n with O => Ok d | S k => do r <- roll_bwd (d - 1); step_bwd k r end.

  (* add_bus_days :233.  `days` is an i8: the caller supplies -128 <= days <= 127 *)
  Definition add_bus_days (d days : Z) (settlement : bool) : outcome Z :=
    if negb (bus d) then Err else
    do r <- (if days <? 0 then step_bwd (Z.to_nat (- days)) d else step_fwd (Z.to_nat days) d);
    if negb settlement then Ok r
    else if days <? 0 then roll_bwd_settled r else roll_fwd_settled r.

  Definition unwrap {A} (o : outcome A) : outcome A :=
    match o with Ok a => Ok a | _ => Panic end.

  (* lag :189 *)
  Definition lag (d days : Z) (settlement : bool) : outcome Z :=
    if bus d then unwrap (add_bus_days d days settlement)
    else if days =? 0 then roll_fwd d
    else if days <? 0 then do r <- roll_bwd d; unwrap (add_bus_days r (days + 1) settlement)
    else do r <- roll_fwd d; unwrap (add_bus_days r (days - 1) settlement).

  (* add_days :210 (the i8 day count is turned into a magnitude with unsigned_abs, so every i8
     value is handled) *)
  Definition add_days (d days : Z) (m : modifier) (settlement : bool) : outcome Z :=
    roll (d + days) m settlement.

  (* add_months :271 *)
  Definition add_months (d months : Z) (m : modifier) (r : rollday) (settlement : bool) : outcome Z :=
    do x <- add_months_unadj d months r; roll x m settlement.

  (* bus_date_range :312 — `while sample <= end { push; sample = add_bus_days(sample, 1, false)? }` *)
  Fixpoint bus_range_f (fuel : nat) (s e : Z) : outcome (list Z) :=
    if e <? s then Ok [] else
    match fuel with
    | O => Panic
    | S f => do nx <- add_bus_days s 1 false; do tl <- bus_range_f f nx e; Ok (s :: tl)
    end.
  Definition bus_date_range (s e : Z) : outcome (list Z) :=
    if negb (bus s) || negb (bus e) then Err
    else bus_range_f (Z.to_nat (e - s + 1)) s e.

  (* cal_date_range :330 *)
  Fixpoint cal_range_f (n : nat) (s : Z) : list Z :=
    match n with O => [] | S k => s :: cal_range_f k (s + 1) end.
  Definition cal_date_range (s e : Z) : list Z := cal_range_f (Z.to_nat (e - s + 1)) s.
End DateRoll.

(* ---------- calendar.rs ---------- *)
Record cal := mkCal { c_mask : list Z;     (* excluded weekdays, 0 = Mon .. 6 = Sun *)
                      c_hols : list Z }.   (* holidays, as day numbers *)
Record ucal := mkUCal { u_cals : list cal; u_settle : option (list cal) }.

Definition zmem (x : Z) (l : list Z) : bool := existsb (Z.eqb x) l.

(* Cal::new :43 — `Weekday::try_from(v).unwrap()` aborts on a week-mask value above 6 *)
Definition cal_new (hols mask : list Z) : outcome cal :=
  if forallb (fun v => (0 <=? v) && (v <=? 6)) mask then Ok (mkCal mask hols) else Panic.

(* impl DateRoll for Cal :154 *)
Definition cal_is_weekday (c : cal) (d : Z) : bool := negb (zmem (weekday d) (c_mask c)).
Definition cal_is_holiday (c : cal) (d : Z) : bool := zmem d (c_hols c).
Definition cal_is_bus (c : cal) (d : Z) : bool := cal_is_weekday c d && negb (cal_is_holiday c d).
Definition cal_is_settle (c : cal) (d : Z) : bool := true.

(* impl DateRoll for UnionCal :168 *)
Definition ucal_is_weekday (u : ucal) (d : Z) : bool := forallb (fun c => cal_is_weekday c d) (u_cals u).
Definition ucal_is_holiday (u : ucal) (d : Z) : bool := existsb (fun c => cal_is_holiday c d) (u_cals u).
Definition ucal_is_bus (u : ucal) (d : Z) : bool := ucal_is_weekday u d && negb (ucal_is_holiday u d).
Definition ucal_is_settle (u : ucal) (d : Z) : bool :=
  match u_settle u with
  | None => true
  | Some v => negb (existsb (fun c => negb (cal_is_bus c d)) v)
  end.

Definition ucal_of_cal (c : cal) : ucal := mkUCal [c] None.

(* PartialEq :224-270: all of 1970-01-01 .. 2200-12-31 *)
Definition d1970 : Z := 0.
Definition d2200 : Z := 84370.   (* = days_from_civil 2200 12 31, pinned in Props/C06.v *)
Definition dr_eq (bus1 settle1 bus2 settle2 : Z -> bool) : bool :=
  forallb (fun d => Bool.eqb (bus1 d) (bus2 d) && Bool.eqb (settle1 d) (settle2 d))
          (cal_date_range d1970 d2200).
Definition ucal_eq (a b : ucal) : bool :=
  dr_eq (ucal_is_bus a) (ucal_is_settle a) (ucal_is_bus b) (ucal_is_settle b).
Definition cal_eq_ucal (a : cal) (b : ucal) : bool :=
  dr_eq (cal_is_bus a) (cal_is_settle a) (ucal_is_bus b) (ucal_is_settle b).

(* search bound used when the model is EXECUTED: any run of 7*(h+1) consecutive days of a calendar
   with h holidays and a working weekday contains a business day (Proofs/CalendarP.v) *)
Definition cal_fuel (c : cal) : nat := 7 * (length (c_hols c) + 1).
Definition ucal_fuel (u : ucal) : nat :=
  let hs := fold_right (fun c n => (length (c_hols c) + n)%nat) O in
  (7 * (hs (u_cals u) + match u_settle u with None => O | Some v => hs v end + 1))%nat.
