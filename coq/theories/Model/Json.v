(* Model of the save / load layer at the serde DATA-MODEL level (rust/json/mod.rs, json_py.rs and
   the derived / hand-written Serialize + Deserialize impls of every serialisable type).
   Executable definitions only.

   What is modelled: which fields are written and in which order, externally tagged enums,
   Option, #[serde(skip)], #[serde(try_from = ..)] validation / rebuild on load (NamedCal, FXRates
   rebuilt from name / quotes; Dual, Dual2, PPSpline validated; NodesTimestamp sorted), the derived
   visit_map / visit_seq of structs (unknown keys ignored,
   duplicate field = error, missing field = error unless Option, FIRST failure in document order
   wins: this matters because a nested rebuild can abort), ndarray's own (de)serialiser
   ({"v":1,"dim":[..],"data":[..]}, unknown key = error, duplicates silently overwrite, a `dim` of the wrong rank is an error as soon as it is read, size check),
   IndexSet/HashSet (a sequence, duplicates collapse), IndexMap<i64,_> (a map with integer keys,
   a repeated key overwrites in place), chrono Weekday names.

   What is NOT modelled (library code, interface; tied by the correspondence): serde_json's text
   codec, ryu, bincode.  A JSON text is represented by its tree.  Three leaves are abstract:
     JNum x   a number written with a fraction/exponent (an f64),
     JDate d  the string chrono writes for / parses as the midnight of day number d
              ("YYYY-MM-DDT00:00:00"); any OTHER string is JStr and is rejected where a
              NaiveDateTime is expected,
     KInt z   the object key that is the canonical decimal spelling of the integer z. *)
From Coq Require Import ZArith List Bool String Ascii.
From RL Require Import Base.Num Base.Str Base.Outcome Model.Dates Model.Calendar Model.Named
  Model.Dual Model.Number Model.FX.
Import ListNotations.
Open Scope Z_scope.

Definition s2n (s : string) : name := name_of_string s.

Inductive key := KStr (s : name) | KInt (z : Z).

Section Json.
Context {T : Type} `{Num T}.

Inductive json : Type :=
| JNull
| JBool (b : bool)
| JInt (z : Z)
| JNum (x : T)
| JStr (s : name)
| JDate (d : Z)
| JArr (l : list json)
| JObj (l : list (key * json)).

(* ------------------------------------------------------------------ text of a date (only used when
   a date-spelling string sits where a plain String is expected) *)
Definition digit (n : Z) : Z := 48 + n mod 10.
Definition pad2 (n : Z) : name := [digit (n / 10); digit n].
Definition pad4 (n : Z) : name := [digit (n / 1000); digit (n / 100); digit (n / 10); digit n].
Definition date_text (d : Z) : name :=
  let '(y, m, dd) := civil_from_days d in
  pad4 y ++ [45] ++ pad2 m ++ [45] ++ pad2 dd ++ s2n "T00:00:00".

(* ------------------------------------------------------------------ primitive decoders *)
Definition u64_max : Z := 18446744073709551615.
Definition i64_min : Z := -9223372036854775808.
Definition i64_max : Z := 9223372036854775807.

Definition dec_f64 (j : json) : outcome T :=
  match j with JNum x => Ok x | JInt z => Ok (nofZ z) | _ => Err end.
Definition dec_uint (max : Z) (j : json) : outcome Z :=
  match j with JInt z => if (0 <=? z) && (z <=? max) then Ok z else Err | _ => Err end.
Definition dec_usize := dec_uint u64_max.
Definition dec_u8 := dec_uint 255.
Definition dec_str (j : json) : outcome name :=
  match j with JStr s => Ok s | JDate d => Ok (date_text d) | _ => Err end.
Definition dec_date (j : json) : outcome Z :=
  match j with JDate d => Ok d | _ => Err end.
Definition dec_opt {A} (d : json -> outcome A) (j : json) : outcome (option A) :=
  match j with JNull => Ok None | _ => omap Some (d j) end.
Definition dec_seq {A} (d : json -> outcome A) (j : json) : outcome (list A) :=
  match j with JArr l => omapM d l | _ => Err end.

Definition enc_opt {A} (e : A -> json) (o : option A) : json :=
  match o with None => JNull | Some a => e a end.
Definition enc_seq {A} (e : A -> json) (l : list A) : json := JArr (map e l).
Definition enc_struct (fields : list name) (vals : list json) : json :=
  JObj (combine (map KStr fields) vals).

(* ------------------------------------------------------------------ serde-derived structs *)
Definition chk {A} (d : json -> outcome A) (j : json) : outcome unit := omap (fun _ => tt) (d j).
Definition no_chk (j : json) : outcome unit := Err.

Definition field_index (k : key) (fields : list name) : option nat :=
  match k with KStr s => index_of s fields | KInt _ => None end.

(* visit_map: keys in document order; a known key seen twice = error, otherwise its value is
   deserialised at once (first failure wins); unknown keys are skipped *)
Fixpoint scan_chk (fields : list name) (chks : list (json -> outcome unit)) (seen : list nat)
                  (kvs : list (key * json)) : outcome unit :=
  match kvs with
  | [] => Ok tt
  | (k, v) :: r =>
      match field_index k fields with
      | None => scan_chk fields chks seen r
      | Some i =>
          if existsb (Nat.eqb i) seen then Err
          else do _ <- nth i chks no_chk v; scan_chk fields chks (i :: seen) r
      end
  end.
(* the value stored for a field = its (only) occurrence *)
Fixpoint lookup (s : name) (kvs : list (key * json)) : option json :=
  match kvs with
  | [] => None
  | (KStr k, v) :: r => if name_eqb s k then Some v else lookup s r
  | (KInt _, _) :: r => lookup s r
  end.
(* visit_seq: positional, every field required, nothing may follow *)
Fixpoint seq_chk (chks : list (json -> outcome unit)) (l : list json) : outcome unit :=
  match chks, l with
  | [], [] => Ok tt
  | [], _ :: _ => Err
  | _ :: _, [] => Err
  | c :: cs, x :: xs => do _ <- c x; seq_chk cs xs
  end.
(* slots of a struct, in field order; None = absent *)
Definition fields_of (fields : list name) (chks : list (json -> outcome unit)) (j : json)
  : outcome (list (option json)) :=
  match j with
  | JObj kvs => do _ <- scan_chk fields chks [] kvs; Ok (map (fun f => lookup f kvs) fields)
  | JArr l => do _ <- seq_chk chks l; Ok (map Some l)
  | _ => Err
  end.
Definition slot (sl : list (option json)) (i : nat) : option json := nth i sl None.
Definition req {A} (d : json -> outcome A) (o : option json) : outcome A :=
  match o with Some v => d v | None => Err end.                 (* missing field *)
Definition optf {A} (d : json -> outcome A) (o : option json) : outcome (option A) :=
  match o with Some v => dec_opt d v | None => Ok None end.      (* a missing Option field is None *)

(* ------------------------------------------------------------------ externally tagged enums *)
(* {"Variant": value}: the variant is identified first (unknown = error), then the value is
   deserialised, then the object must end.  A bare string names a unit variant only. *)
Definition dec_tagged {A} (variants : list (name * (json -> outcome A))) (j : json) : outcome A :=
  match j with
  | JObj ((KStr k, v) :: rest) =>
      match find (fun kv => name_eqb k (fst kv)) variants with
      | None => Err
      | Some (_, d) => do x <- d v; match rest with [] => Ok x | _ => Err end
      end
  | _ => Err
  end.
(* unit-only enums (Convention, Modifier): "Name", or {"Name": null} *)
Definition dec_unit_enum (names : list name) (j : json) : outcome nat :=
  match j with
  | JStr s => match index_of s names with Some i => Ok i | None => Err end
  | JDate d => Err
  | JObj ((KStr k, v) :: rest) =>
      match index_of k names with
      | None => Err
      | Some i => match v with JNull => match rest with [] => Ok i | _ => Err end | _ => Err end
      end
  | _ => Err
  end.

(* ------------------------------------------------------------------ ndarray (array_serde.rs) *)
Definition k_v := s2n "v". Definition k_dim := s2n "dim". Definition k_data := s2n "data".
(* visit_map: unknown key = error; a repeated key overwrites; version checked when met *)
(* `rank`: the array type fixes the number of dimensions (Ix1 / Ix2 deserialise as fixed-size tuples): a `dim`
   entry of another length is an error AS SOON AS IT IS READ (so also when a later duplicate would overwrite it) *)
Fixpoint nd_scan {A} (rank : nat) (d : json -> outcome A) (kvs : list (key * json))
                 (v : bool) (dim : option (list Z)) (data : option (list A))
  : outcome (list Z * list A) :=
  match kvs with
  | [] => if negb v then Err
          else match data, dim with Some da, Some di => Ok (di, da) | _, _ => Err end
  | (KStr k, x) :: r =>
      if name_eqb k k_v then do ver <- dec_u8 x; if ver =? 1 then nd_scan rank d r true dim data else Err
      else if name_eqb k k_data then do da <- dec_seq d x; nd_scan rank d r v dim (Some da)
      else if name_eqb k k_dim then
        do di <- dec_seq dec_usize x;
        if Nat.eqb (List.length di) rank then nd_scan rank d r v (Some di) data else Err
      else Err
  | (KInt _, _) :: _ => Err
  end.
Definition nd_raw {A} (rank : nat) (d : json -> outcome A) (j : json) : outcome (list Z * list A) :=
  match j with
  | JObj kvs => nd_scan rank d kvs false None None
  | JArr [jv; jdim; jdata] =>
      do ver <- dec_u8 jv; if negb (ver =? 1) then Err else
      do di <- dec_seq dec_usize jdim;
      if negb (Nat.eqb (List.length di) rank) then Err else
      do da <- dec_seq d jdata; Ok (di, da)
  | JArr (jv :: _) => do ver <- dec_u8 jv; Err
  | _ => Err
  end.
(* Array1: dim = [n] with n = number of elements *)
Definition dec_arr1 {A} (d : json -> outcome A) (j : json) : outcome (list A) :=
  do r <- nd_raw 1 d j;
  match fst r with
  | [n] => if n =? Z.of_nat (List.length (snd r)) then Ok (snd r) else Err
  | _ => Err
  end.
Definition enc_arr1 {A} (e : A -> json) (l : list A) : json :=
  enc_struct [k_v; k_dim; k_data] [JInt 1; JArr [JInt (Z.of_nat (List.length l))]; enc_seq e l].
(* Array2, row major.  rows * cols = number of elements (from_shape_vec) *)
Record arr2 := mkArr2 { a_rows : Z; a_cols : Z; a_data : list T }.
Definition dec_arr2 (j : json) : outcome arr2 :=
  do r <- nd_raw 2 dec_f64 j;
  match fst r with
  | [n; m] => if n * m =? Z.of_nat (List.length (snd r)) then Ok (mkArr2 n m (snd r)) else Err
  | _ => Err
  end.
Definition enc_arr2 (a : arr2) : json :=
  enc_struct [k_v; k_dim; k_data]
    [JInt 1; JArr [JInt (a_rows a); JInt (a_cols a)]; enc_seq JNum (a_data a)].

(* ------------------------------------------------------------------ Dual, Dual2, Number *)
Definition k_real := s2n "real". Definition k_vars := s2n "vars".
Definition k_dual := s2n "dual". Definition k_dual2 := s2n "dual2".
Definition dual_fields := [k_real; k_vars; k_dual].
Definition dual2_fields := [k_real; k_vars; k_dual; k_dual2].

(* Arc<IndexSet<String>>: a sequence; a repeated name is dropped *)
Definition dec_vars (j : json) : outcome (list name) := omap dedup (dec_seq dec_str j).
Definition enc_vars (l : list name) : json := enc_seq JStr l.

Definition enc_dual (d : dual T) : json :=
  enc_struct dual_fields [JNum (re d); enc_vars (vs d); enc_arr1 JNum (du d)].
Definition dec_dual (j : json) : outcome (dual T) :=
  do sl <- fields_of dual_fields [chk dec_f64; chk dec_vars; chk (dec_arr1 dec_f64)] j;
  do r <- req dec_f64 (slot sl 0);
  do v <- req dec_vars (slot sl 1);
  do d <- req (dec_arr1 dec_f64) (slot sl 2);
  (* TryFrom<DualDataModel> dual.rs: |vars| = |dual| *)
  if Nat.eqb (List.length v) (List.length d) then Ok (mkDual r v d) else Err.

(* a loaded Dual2 keeps the stored array shape (an ndarray can be 0 x c) *)
Record jdual2 := mkJD2 { j2_re : T; j2_vars : list name; j2_du : list T; j2_dd : arr2 }.
Definition enc_dual2 (d : jdual2) : json :=
  enc_struct dual2_fields [JNum (j2_re d); enc_vars (j2_vars d); enc_arr1 JNum (j2_du d); enc_arr2 (j2_dd d)].
Definition dec_dual2 (j : json) : outcome jdual2 :=
  do sl <- fields_of dual2_fields [chk dec_f64; chk dec_vars; chk (dec_arr1 dec_f64); chk dec_arr2] j;
  do r <- req dec_f64 (slot sl 0);
  do v <- req dec_vars (slot sl 1);
  do d <- req (dec_arr1 dec_f64) (slot sl 2);
  do dd <- req dec_arr2 (slot sl 3);
  (* TryFrom<Dual2DataModel> dual.rs: |vars| = |dual| and dual2 is |vars| x |vars| *)
  let n := Z.of_nat (List.length v) in
  if Nat.eqb (List.length v) (List.length d) && (a_rows dd =? n) && (a_cols dd =? n)
  then Ok (mkJD2 r v d dd) else Err.
(* to / from the operational model of Model/Dual.v *)
Definition dual2_of_j (d : jdual2) : dual2 T :=
  mkDual2 (j2_re d) (j2_vars d) (j2_du d) (chunk (Z.to_nat (a_cols (j2_dd d))) (Z.to_nat (a_rows (j2_dd d))) (a_data (j2_dd d))).
Definition j_of_dual2 (d : dual2 T) : jdual2 :=
  let n := Z.of_nat (List.length (dd2 d)) in
  mkJD2 (re2 d) (vs2 d) (du2 d)
    (mkArr2 n (match dd2 d with r :: _ => Z.of_nat (List.length r) | [] => 0 end) (List.concat (dd2 d))).

Inductive jnumber := JNF (x : T) | JND (d : dual T) | JND2 (d : jdual2).
Definition k_F64 := s2n "F64". Definition k_Dual := s2n "Dual". Definition k_Dual2 := s2n "Dual2".
Definition enc_number (x : jnumber) : json :=
  match x with
  | JNF f => JObj [(KStr k_F64, JNum f)]
  | JND d => JObj [(KStr k_Dual, enc_dual d)]
  | JND2 d => JObj [(KStr k_Dual2, enc_dual2 d)]
  end.
Definition dec_number : json -> outcome jnumber :=
  dec_tagged [(k_Dual, fun j => omap JND (dec_dual j));
              (k_Dual2, fun j => omap JND2 (dec_dual2 j));
              (k_F64, fun j => omap JNF (dec_f64 j))].
Definition num_of_j (x : jnumber) : number T :=
  match x with JNF f => NF f | JND d => ND d | JND2 d => ND2 (dual2_of_j d) end.

(* ------------------------------------------------------------------ calendars *)
Definition wd_names : list name :=
  [s2n "Mon"; s2n "Tue"; s2n "Wed"; s2n "Thu"; s2n "Fri"; s2n "Sat"; s2n "Sun"].
Definition wd_long : list name :=
  [s2n "monday"; s2n "tuesday"; s2n "wednesday"; s2n "thursday"; s2n "friday"; s2n "saturday"; s2n "sunday"].
(* chrono FromStr for Weekday: short or long English name, ASCII case-insensitive *)
Definition wd_parse (s : name) : option Z :=
  let l := map ascii_lower s in
  match index_of l (map (map ascii_lower) wd_names) with
  | Some i => Some (Z.of_nat i)
  | None => option_map Z.of_nat (index_of l wd_long)
  end.
Definition enc_weekday (w : Z) : json := JStr (nth (Z.to_nat w) wd_names []).
Definition dec_weekday (j : json) : outcome Z :=
  match j with JStr s => match wd_parse s with Some w => Ok w | None => Err end | _ => Err end.

Fixpoint zdedup_aux (seen l : list Z) : list Z :=
  match l with
  | [] => []
  | x :: r => if zmem x seen then zdedup_aux seen r else x :: zdedup_aux (x :: seen) r
  end.
Definition zdedup (l : list Z) : list Z := zdedup_aux [] l.

Definition k_holidays := s2n "holidays". Definition k_week_mask := s2n "week_mask".
Definition cal_fields := [k_holidays; k_week_mask].
Definition dec_hols (j : json) : outcome (list Z) := omap zdedup (dec_seq dec_date j).
Definition dec_mask (j : json) : outcome (list Z) := omap zdedup (dec_seq dec_weekday j).
Definition enc_cal (c : cal) : json :=
  enc_struct cal_fields [enc_seq JDate (c_hols c); enc_seq enc_weekday (c_mask c)].
Definition dec_cal (j : json) : outcome cal :=
  do sl <- fields_of cal_fields [chk dec_hols; chk dec_mask] j;
  do h <- req dec_hols (slot sl 0);
  do m <- req dec_mask (slot sl 1);
  Ok (mkCal m h).

Definition k_calendars := s2n "calendars". Definition k_settle := s2n "settlement_calendars".
Definition ucal_fields := [k_calendars; k_settle].
Definition enc_ucal (u : ucal) : json :=
  enc_struct ucal_fields [enc_seq enc_cal (u_cals u); enc_opt (enc_seq enc_cal) (u_settle u)].
Definition dec_ucal (j : json) : outcome ucal :=
  do sl <- fields_of ucal_fields [chk (dec_seq dec_cal); chk (dec_opt (dec_seq dec_cal))] j;
  do c <- req (dec_seq dec_cal) (slot sl 0);
  do s <- optf (dec_seq dec_cal) (slot sl 1);
  Ok (mkUCal c s).

(* NamedCal: only `name` is written (#[serde(skip)] union_cal); loading goes through
   NamedCalDataModel { name } and TryFrom<NamedCalDataModel>, i.e. try_new(name) *)
Definition k_name := s2n "name".
Definition enc_named (n : namedcal) : json := enc_struct [k_name] [JStr (n_name n)].
Definition dec_named_model (j : json) : outcome name :=
  do sl <- fields_of [k_name] [chk dec_str] j; req dec_str (slot sl 0).

Section Rebuild.
  (* the two load-time reconstructions, as parameters (instantiated below by rebuild_named /
     rebuild_fx); the generic statements say the loader aborts only if a reconstruction does *)
  Variable rebuild_named : name -> outcome namedcal.

  Definition dec_named (j : json) : outcome namedcal :=
    do s <- dec_named_model j; rebuild_named s.

  Inductive caltype := CTCal (c : cal) | CTUnion (u : ucal) | CTNamed (n : namedcal).
  Definition k_Cal := s2n "Cal". Definition k_UnionCal := s2n "UnionCal". Definition k_NamedCal := s2n "NamedCal".
  Definition enc_caltype (c : caltype) : json :=
    match c with
    | CTCal c => JObj [(KStr k_Cal, enc_cal c)]
    | CTUnion u => JObj [(KStr k_UnionCal, enc_ucal u)]
    | CTNamed n => JObj [(KStr k_NamedCal, enc_named n)]
    end.
  Definition dec_caltype : json -> outcome caltype :=
    dec_tagged [(k_Cal, fun j => omap CTCal (dec_cal j));
                (k_UnionCal, fun j => omap CTUnion (dec_ucal j));
                (k_NamedCal, fun j => omap CTNamed (dec_named j))].

  (* ---------------------------------------------------------------- curves *)
  Definition conv_names : list name :=
    [s2n "One"; s2n "OnePlus"; s2n "Act365F"; s2n "Act365FPlus"; s2n "Act360"; s2n "ThirtyE360";
     s2n "Thirty360"; s2n "Thirty360ISDA"; s2n "ActActISDA"; s2n "ActActICMA"; s2n "Bus252"].
  Definition mod_names : list name := [s2n "Act"; s2n "F"; s2n "ModF"; s2n "P"; s2n "ModP"].
  Definition rule_names : list name :=
    [s2n "LogLinear"; s2n "Linear"; s2n "LinearZeroRate"; s2n "FlatForward"; s2n "FlatBackward"; s2n "Null"].

  (* IndexMap<i64, V>: a map whose keys spell integers; a repeated key overwrites in place *)
  Fixpoint im_put {V} (k : Z) (v : V) (m : list (Z * V)) : list (Z * V) :=
    match m with
    | [] => [(k, v)]
    | (k', v') :: r => if k =? k' then (k, v) :: r else (k', v') :: im_put k v r
    end.
  Fixpoint dec_imap_go {V} (d : json -> outcome V) (kvs : list (key * json)) (acc : list (Z * V))
    : outcome (list (Z * V)) :=
    match kvs with
    | [] => Ok acc
    | (KInt z, v) :: r =>
        if (i64_min <=? z) && (z <=? i64_max) then do x <- d v; dec_imap_go d r (im_put z x acc) else Err
    | (KStr _, _) :: _ => Err
    end.
  Definition dec_imap {V} (d : json -> outcome V) (j : json) : outcome (list (Z * V)) :=
    match j with JObj kvs => dec_imap_go d kvs [] | _ => Err end.
  Definition enc_imap {V} (e : V -> json) (m : list (Z * V)) : json :=
    JObj (map (fun kv => (KInt (fst kv), e (snd kv))) m).

  (* IndexMap::sort_keys (keys are unique): stable insertion by key *)
  Fixpoint ins_key {V} (kv : Z * V) (m : list (Z * V)) : list (Z * V) :=
    match m with
    | [] => [kv]
    | x :: r => if fst kv <? fst x then kv :: m else x :: ins_key kv r
    end.
  Definition sort_keys {V} (m : list (Z * V)) : list (Z * V) := fold_right ins_key [] m.

  Inductive jnodes := NdF (m : list (Z * T)) | NdD (m : list (Z * dual T)) | NdD2 (m : list (Z * jdual2)).
  Definition enc_nodes (n : jnodes) : json :=
    match n with
    | NdF m => JObj [(KStr k_F64, enc_imap JNum m)]
    | NdD m => JObj [(KStr k_Dual, enc_imap enc_dual m)]
    | NdD2 m => JObj [(KStr k_Dual2, enc_imap enc_dual2 m)]
    end.
  (* From<NodesTimestampDataModel> nodes.rs: the keys are sorted on load, as CurveDF::try_new does *)
  Definition dec_nodes : json -> outcome jnodes :=
    dec_tagged [(k_F64, fun j => omap (fun m => NdF (sort_keys m)) (dec_imap dec_f64 j));
                (k_Dual, fun j => omap (fun m => NdD (sort_keys m)) (dec_imap dec_dual j));
                (k_Dual2, fun j => omap (fun m => NdD2 (sort_keys m)) (dec_imap dec_dual2 j))].

  (* the six interpolators are field-less braced structs: {} (any keys ignored) or [] *)
  Definition dec_empty_struct (j : json) : outcome unit :=
    match j with JObj _ => Ok tt | JArr [] => Ok tt | _ => Err end.
  Definition enc_rule (r : nat) : json := JObj [(KStr (nth r rule_names []), JObj [])].
  Definition dec_rule : json -> outcome nat :=
    dec_tagged (map (fun i => (nth i rule_names [], fun j => omap (fun _ => i) (dec_empty_struct j)))
                    (seq 0 6)).

  Record jcurve := mkJCurve {
    cv_nodes : jnodes; cv_rule : nat; cv_id : name; cv_conv : nat; cv_mod : nat;
    cv_base : option T; cv_cal : caltype }.
  Definition k_nodes := s2n "nodes". Definition k_interpolator := s2n "interpolator".
  Definition k_id := s2n "id". Definition k_convention := s2n "convention".
  Definition k_modifier := s2n "modifier". Definition k_index_base := s2n "index_base".
  Definition k_calendar := s2n "calendar". Definition k_inner := s2n "inner".
  Definition curve_fields := [k_nodes; k_interpolator; k_id; k_convention; k_modifier; k_index_base; k_calendar].
  Definition enc_curvedf (c : jcurve) : json :=
    enc_struct curve_fields
      [enc_nodes (cv_nodes c); enc_rule (cv_rule c); JStr (cv_id c);
       JStr (nth (cv_conv c) conv_names []); JStr (nth (cv_mod c) mod_names []);
       enc_opt JNum (cv_base c); enc_caltype (cv_cal c)].
  Definition dec_curvedf (j : json) : outcome jcurve :=
    do sl <- fields_of curve_fields
               [chk dec_nodes; chk dec_rule; chk dec_str; chk (dec_unit_enum conv_names);
                chk (dec_unit_enum mod_names); chk (dec_opt dec_f64); chk dec_caltype] j;
    do n <- req dec_nodes (slot sl 0);
    do r <- req dec_rule (slot sl 1);
    do i <- req dec_str (slot sl 2);
    do c <- req (dec_unit_enum conv_names) (slot sl 3);
    do m <- req (dec_unit_enum mod_names) (slot sl 4);
    do b <- optf dec_f64 (slot sl 5);
    do cal <- req dec_caltype (slot sl 6);
    Ok (mkJCurve n r i c m b cal).
  Definition enc_curve (c : jcurve) : json := enc_struct [k_inner] [enc_curvedf c].
  Definition dec_curve (j : json) : outcome jcurve :=
    do sl <- fields_of [k_inner] [chk dec_curvedf] j; req dec_curvedf (slot sl 0).

  (* ---------------------------------------------------------------- FX *)
  Record jfxrate := mkJRate { fr_lhs : name; fr_rhs : name; fr_rate : jnumber; fr_settle : option Z }.
  Record jfxdata := mkJFxData { fd_rates : list jfxrate; fd_ccys : list name }.    (* FXRatesDataModel *)
  (* a loaded / constructed market: quotes and currencies as stored, and the derived matrix *)
  Record jfx := mkJFx { jf_rates : list jfxrate; jf_ccys : list name; jf_arr : numarr T }.

  Definition enc_ccy (c : name) : json := enc_struct [k_name] [JStr c].
  Definition dec_ccy (j : json) : outcome name :=
    do sl <- fields_of [k_name] [chk dec_str] j; req dec_str (slot sl 0).
  (* FXPair(Ccy, Ccy): a tuple struct = a 2-element sequence *)
  Definition dec_pair (j : json) : outcome (name * name) :=
    match j with
    | JArr (a :: r) =>
        do x <- dec_ccy a;
        match r with
        | b :: r2 => do y <- dec_ccy b; match r2 with [] => Ok (x, y) | _ => Err end
        | [] => Err
        end
    | _ => Err
    end.
  Definition k_pair := s2n "pair". Definition k_rate := s2n "rate". Definition k_settlement := s2n "settlement".
  Definition fxrate_fields := [k_pair; k_rate; k_settlement].
  Definition enc_fxrate (r : jfxrate) : json :=
    enc_struct fxrate_fields
      [JArr [enc_ccy (fr_lhs r); enc_ccy (fr_rhs r)]; enc_number (fr_rate r); enc_opt JDate (fr_settle r)].
  Definition dec_fxrate (j : json) : outcome jfxrate :=
    do sl <- fields_of fxrate_fields [chk dec_pair; chk dec_number; chk (dec_opt dec_date)] j;
    do p <- req dec_pair (slot sl 0);
    do r <- req dec_number (slot sl 1);
    do s <- optf dec_date (slot sl 2);
    Ok (mkJRate (fst p) (snd p) r s).
  Definition k_fx_rates := s2n "fx_rates". Definition k_currencies := s2n "currencies".
  Definition fx_fields := [k_fx_rates; k_currencies].
  Definition dec_ccys (j : json) : outcome (list name) := omap dedup (dec_seq dec_ccy j).
  Definition dec_fxdata (j : json) : outcome jfxdata :=
    do sl <- fields_of fx_fields [chk (dec_seq dec_fxrate); chk dec_ccys] j;
    do r <- req (dec_seq dec_fxrate) (slot sl 0);
    do c <- req dec_ccys (slot sl 1);
    Ok (mkJFxData r c).
  Definition enc_fx (f : jfx) : json :=
    enc_struct fx_fields [enc_seq enc_fxrate (jf_rates f); enc_seq enc_ccy (jf_ccys f)].

  Variable rebuild_fx : jfxdata -> outcome jfx.
  Definition dec_fx (j : json) : outcome jfx := do d <- dec_fxdata j; rebuild_fx d.

  (* ---------------------------------------------------------------- splines *)
  Record jspline (X : Type) := mkJSp { sp_k : Z; sp_t : list T; sp_c : option (list X); sp_n : Z }.
  Arguments mkJSp {X}. Arguments sp_k {X}. Arguments sp_t {X}. Arguments sp_c {X}. Arguments sp_n {X}.
  (* zip(&t[1..], &t[..len-1]).all(|(a, b)| a >= b) *)
  Fixpoint nondecr (t : list T) : bool :=
    match t with
    | a :: (b :: _) as r => nleb a b && nondecr r
    | _ => true
    end.
  Definition k_k := s2n "k". Definition k_t := s2n "t". Definition k_c := s2n "c". Definition k_n := s2n "n".
  Definition spline_fields := [k_k; k_t; k_c; k_n].
  Definition enc_pp {X} (e : X -> json) (s : jspline X) : json :=
    enc_struct spline_fields
      [JInt (sp_k s); enc_seq JNum (sp_t s); enc_opt (enc_arr1 e) (sp_c s); JInt (sp_n s)].
  Definition dec_pp {X} (d : json -> outcome X) (j : json) : outcome (jspline X) :=
    do sl <- fields_of spline_fields
               [chk dec_usize; chk (dec_seq dec_f64); chk (dec_opt (dec_arr1 d)); chk dec_usize] j;
    do k <- req dec_usize (slot sl 0);
    do t <- req (dec_seq dec_f64) (slot sl 1);
    do c <- optf (dec_arr1 d) (slot sl 2);
    do n <- req dec_usize (slot sl 3);
    (* TryFrom<PPSplineDataModel<T>> spline.rs: what PPSpline::new asserts, and n = |t| - k *)
    let lt := Z.of_nat (List.length t) in
    if (1 <? lt) && nondecr t && (k <=? lt) && (n =? lt - k) then Ok (mkJSp k t c n) else Err.
  Definition enc_spline {X} (e : X -> json) (s : jspline X) : json := enc_struct [k_inner] [enc_pp e s].
  Definition dec_spline {X} (d : json -> outcome X) (j : json) : outcome (jspline X) :=
    do sl <- fields_of [k_inner] [chk (dec_pp d)] j; req (dec_pp d) (slot sl 0).

  (* ---------------------------------------------------------------- DeserializedObj *)
  Inductive obj :=
  | ODual (d : dual T) | ODual2 (d : jdual2)
  | OCal (c : cal) | OUnion (u : ucal) | ONamed (n : namedcal)
  | OFX (f : jfx) | OCurve (c : jcurve)
  | OSpF (s : jspline T) | OSpD (s : jspline (dual T)) | OSpD2 (s : jspline jdual2).
  Definition k_FXRates := s2n "FXRates". Definition k_Curve := s2n "Curve".
  Definition k_PPSplineF64 := s2n "PPSplineF64". Definition k_PPSplineDual := s2n "PPSplineDual".
  Definition k_PPSplineDual2 := s2n "PPSplineDual2".
  Definition tag1 (k : name) (j : json) : json := JObj [(KStr k, j)].
  Definition enc_obj (o : obj) : json :=
    match o with
    | ODual d => tag1 k_Dual (enc_dual d)
    | ODual2 d => tag1 k_Dual2 (enc_dual2 d)
    | OCal c => tag1 k_Cal (enc_cal c)
    | OUnion u => tag1 k_UnionCal (enc_ucal u)
    | ONamed n => tag1 k_NamedCal (enc_named n)
    | OFX f => tag1 k_FXRates (enc_fx f)
    | OCurve c => tag1 k_Curve (enc_curve c)
    | OSpF s => tag1 k_PPSplineF64 (enc_spline JNum s)
    | OSpD s => tag1 k_PPSplineDual (enc_spline enc_dual s)
    | OSpD2 s => tag1 k_PPSplineDual2 (enc_spline enc_dual2 s)
    end.
  Definition obj_variants : list (name * (json -> outcome obj)) :=
    [(k_Dual, fun j => omap ODual (dec_dual j));
     (k_Dual2, fun j => omap ODual2 (dec_dual2 j));
     (k_Cal, fun j => omap OCal (dec_cal j));
     (k_UnionCal, fun j => omap OUnion (dec_ucal j));
     (k_NamedCal, fun j => omap ONamed (dec_named j));
     (k_FXRates, fun j => omap OFX (dec_fx j));
     (k_Curve, fun j => omap OCurve (dec_curve j));
     (k_PPSplineF64, fun j => omap OSpF (dec_spline dec_f64 j));
     (k_PPSplineDual, fun j => omap OSpD (dec_spline dec_dual j));
     (k_PPSplineDual2, fun j => omap OSpD2 (dec_spline dec_dual2 j))].
  (* from_json of json_py.rs, on trees *)
  Definition dec_obj : json -> outcome obj := dec_tagged obj_variants.
  (* the payload without the tag (JSON::to_json / from_json of the type itself) *)
  Definition enc_payload (o : obj) : json :=
    match enc_obj o with JObj [(_, j)] => j | j => j end.
  Definition dec_payload (kind : nat) (j : json) : outcome obj :=
    match nth_error obj_variants kind with Some (_, d) => d j | None => Err end.
End Rebuild.

(* ------------------------------------------------------------------ the reconstructions *)
(* TryFrom<NamedCalDataModel> calendar.rs: try_new(name), its error returned *)
Definition rebuild_named (s : name) : outcome namedcal := named_try_new s.

Definition fxrate_of_j (r : jfxrate) : fxrate T :=
  mkRate (mkPair (fr_lhs r) (fr_rhs r)) (num_of_j (fr_rate r)) (fr_settle r).
(* TryFrom<FXRatesDataModel> fx/rates/mod.rs: no currency = error; otherwise
   try_new(fx_rates, Some(first currency)), its error returned *)
Definition fx_build (d : jfxdata) (base : name) : outcome jfx :=
  do f <- fx_try_new (map fxrate_of_j (fd_rates d)) (Some base);
  Ok (mkJFx (fd_rates d) (currencies f) (fx_array f)).
Definition rebuild_fx (d : jfxdata) : outcome jfx :=
  match fd_ccys d with
  | [] => Err
  | base :: _ => fx_build d base
  end.

(* from_json of json_py.rs, on trees *)
Definition from_json_model : json -> outcome obj := dec_obj rebuild_named rebuild_fx.

End Json.
Arguments json T : clear implicits.
Arguments arr2 T : clear implicits.
Arguments jdual2 T : clear implicits.
Arguments jnumber T : clear implicits.
Arguments jnodes T : clear implicits.
Arguments jcurve T : clear implicits.
Arguments jfxrate T : clear implicits.
Arguments jfxdata T : clear implicits.
Arguments jfx T : clear implicits.
Arguments jspline T : clear implicits.
Arguments obj T : clear implicits.
Arguments mkJSp {T X}. Arguments sp_k {T X}. Arguments sp_t {T X}. Arguments sp_c {T X}. Arguments sp_n {T X}.

(* ------------------------------------------------------------------ PartialEq of each type, as coded
   (derived: field by field; IndexSet / HashSet / IndexMap: same size and every element of the left
   found in the right; UnionCal / NamedCal: agreement of is_bus_day / is_settlement over 1970-2200;
   Dual / Dual2: dual_ops/eq.rs; PPSpline: spline.rs:360-378).  The Dual-vs-Dual2 arms of
   `Number == Number` abort in the code; they cannot be met when an object is compared with its own
   reload and are `false` here. *)
Section JsonEq.
Context {T : Type} `{Num T}.

Definition zset_eqb (a b : list Z) : bool :=
  Nat.eqb (List.length a) (List.length b) && forallb (fun x => zmem x b) a.
Definition nset_eqb (a b : list name) : bool :=
  Nat.eqb (List.length a) (List.length b) && forallb (fun x => mem x b) a.
Fixpoint vec_eqb {A} (e : A -> A -> bool) (a b : list A) : bool :=
  match a, b with
  | [], [] => true
  | x :: a', y :: b' => e x y && vec_eqb e a' b'
  | _, _ => false
  end.
Definition opt_eqb {A} (e : A -> A -> bool) (a b : option A) : bool :=
  match a, b with None, None => true | Some x, Some y => e x y | _, _ => false end.

Definition jdual2_eqb (a b : jdual2 T) : bool := d2eqb false (dual2_of_j a) (dual2_of_j b).
Definition jnum_eqb (a b : jnumber T) : bool :=
  match a, b with
  | JNF f, JNF g => neqb f g
  | JNF f, JND d => deqb_f d f
  | JND d, JNF f => deqb_f d f
  | JNF f, JND2 d => d2eqb_f (dual2_of_j d) f
  | JND2 d, JNF f => d2eqb_f (dual2_of_j d) f
  | JND d, JND e => deqb false d e
  | JND2 d, JND2 e => jdual2_eqb d e
  | _, _ => false
  end.

Definition cal_eqb (a b : cal) : bool := zset_eqb (c_hols a) (c_hols b) && zset_eqb (c_mask a) (c_mask b).
Definition caltype_eqb (a b : caltype) : bool :=
  match a, b with
  | CTCal x, CTCal y => cal_eqb x y
  | CTUnion x, CTUnion y => ucal_eq x y
  | CTNamed x, CTNamed y => ucal_eq (n_ucal x) (n_ucal y)
  | _, _ => false
  end.

Fixpoint im_get {V} (k : Z) (m : list (Z * V)) : option V :=
  match m with [] => None | (k', v) :: r => if k =? k' then Some v else im_get k r end.
Definition imap_eqb {V} (e : V -> V -> bool) (a b : list (Z * V)) : bool :=
  Nat.eqb (List.length a) (List.length b) &&
  forallb (fun kv => match im_get (fst kv) b with Some v => e (snd kv) v | None => false end) a.
Definition nodes_eqb (a b : jnodes T) : bool :=
  match a, b with
  | NdF x, NdF y => imap_eqb neqb x y
  | NdD x, NdD y => imap_eqb (deqb false) x y
  | NdD2 x, NdD2 y => imap_eqb jdual2_eqb x y
  | _, _ => false
  end.
Definition curve_eqb (a b : jcurve T) : bool :=
  nodes_eqb (cv_nodes a) (cv_nodes b) && Nat.eqb (cv_rule a) (cv_rule b) && name_eqb (cv_id a) (cv_id b) &&
  Nat.eqb (cv_conv a) (cv_conv b) && Nat.eqb (cv_mod a) (cv_mod b) &&
  opt_eqb neqb (cv_base a) (cv_base b) && caltype_eqb (cv_cal a) (cv_cal b).

Definition fxrate_eqb (a b : jfxrate T) : bool :=
  name_eqb (fr_lhs a) (fr_lhs b) && name_eqb (fr_rhs a) (fr_rhs b) && jnum_eqb (fr_rate a) (fr_rate b) &&
  opt_eqb Z.eqb (fr_settle a) (fr_settle b).
Definition mat_eqb_gen {A} (e : A -> A -> bool) (a b : list (list A)) : bool := vec_eqb (vec_eqb e) a b.
Definition numarr_eqb (a b : numarr T) : bool :=
  match a, b with
  | AF x, AF y => mat_eqb_gen neqb x y
  | AD x, AD y => mat_eqb_gen (deqb false) x y
  | AD2 x, AD2 y => mat_eqb_gen (d2eqb false) x y
  | _, _ => false
  end.
Definition fx_eqb (a b : jfx T) : bool :=
  vec_eqb fxrate_eqb (jf_rates a) (jf_rates b) && nset_eqb (jf_ccys a) (jf_ccys b) &&
  numarr_eqb (jf_arr a) (jf_arr b).

Definition spline_eqb {X} (e : X -> X -> bool) (a b : jspline T X) : bool :=
  if negb (sp_k a =? sp_k b) || negb (sp_n a =? sp_n b) then false
  else if negb (vec_eqb neqb (sp_t a) (sp_t b)) then false
  else match sp_c a, sp_c b with
       | Some x, Some y => vec_eqb e x y
       | None, None => true
       | _, _ => false
       end.

Definition obj_eqb (a b : obj T) : bool :=
  match a, b with
  | ODual x, ODual y => deqb false x y
  | ODual2 x, ODual2 y => jdual2_eqb x y
  | OCal x, OCal y => cal_eqb x y
  | OUnion x, OUnion y => ucal_eq x y
  | ONamed x, ONamed y => ucal_eq (n_ucal x) (n_ucal y)
  | OFX x, OFX y => fx_eqb x y
  | OCurve x, OCurve y => curve_eqb x y
  | OSpF x, OSpF y => spline_eqb neqb x y
  | OSpD x, OSpD y => spline_eqb (deqb false) x y
  | OSpD2 x, OSpD2 y => spline_eqb jdual2_eqb x y
  | _, _ => false
  end.
End JsonEq.
