(* Model of rust/dual/dual.rs and rust/dual/dual_ops/*.rs for Dual (first order) and Dual2 (second
   order).  Executable definitions only.  `vs` mirrors the ORDER of the IndexSet; every binary
   operation takes `p` = "the two operands share their Arc" (Arc::ptr_eq is not observable in
   Gallina).  ndarray element-wise operations are list zips (shapes agree for well-formed numbers;
   indexing a too-short array is `nth .. n0` here and excluded by `wf` in the theorems). *)
From Coq Require Import ZArith List Bool.
From RL Require Import Base.Num Base.Str Base.Outcome.
Import ListNotations.

Inductive varsrel := ArcEq | ValEq | Superset | Subset | Difference.

Fixpoint names_zip_all (a b : list name) : bool :=
  match a, b with
  | x :: a', y :: b' => name_eqb x y && names_zip_all a' b'
  | _, _ => true          (* zip stops at the shorter list *)
  end.

(* Vars::vars_cmp dual.rs:66-84 *)
Definition vars_cmp (p : bool) (xs ys : list name) : varsrel :=
  if p then ArcEq
  else if Nat.eqb (length xs) (length ys) && names_zip_all xs ys then ValEq
  else if Nat.leb (length ys) (length xs) && forallb (fun v => mem v xs) ys then Superset
  else if Nat.ltb (length xs) (length ys) && forallb (fun v => mem v ys) xs then Subset
  else Difference.

Section Dual.
Context {T : Type} `{Num T}.

Record dual := mkDual { re : T; vs : list name; du : list T }.
Record dual2 := mkDual2 { re2 : T; vs2 : list name; du2 : list T; dd2 : list (list T) }.

(* ---------------------------------------------------------------- constructors dual.rs:385-520 *)
Definition dual_new (r : T) (vars : list name) : dual :=
  let u := dedup vars in mkDual r u (vones (length u)).
Definition dual_try_new (r : T) (vars : list name) (d : list T) : outcome dual :=
  let u := dedup vars in
  let d' := match d with [] => vones (length u) | _ => d end in
  if Nat.eqb (length u) (length d') then Ok (mkDual r u d') else Err.
Definition dual2_new (r : T) (vars : list name) : dual2 :=
  let u := dedup vars in mkDual2 r u (vones (length u)) (mzeros (length u) (length u)).
Fixpoint chunk (n : nat) (rows : nat) (l : list T) : list (list T) :=
  match rows with O => [] | S k => firstn n l :: chunk n k (skipn n l) end.
Definition dual2_try_new (r : T) (vars : list name) (d : list T) (d2 : list T) : outcome dual2 :=
  let u := dedup vars in
  let n := length u in
  let d' := match d with [] => vones n | _ => d end in
  if negb (Nat.eqb n (length d')) then Err
  else match d2 with
       | [] => Ok (mkDual2 r u d' (mzeros n n))
       | _ => if negb (Nat.eqb (length d2) (n * n)) then Err
              else Ok (mkDual2 r u d' (chunk n n d2))
       end.

(* ---------------------------------------------------------------- re-indexing dual.rs:173-262 *)
Definition lookup_or_zero (vars : list name) (d : list T) (v : name) : T :=
  match index_of v vars with Some i => nth i d n0 | None => n0 end.
Definition lookup2_or_zero (vars : list name) (m : list (list T)) (u v : name) : T :=
  match index_of u vars, index_of v vars with
  | Some i, Some j => nth j (nth i m []) n0
  | _, _ => n0
  end.
Definition to_new_vars (a : dual) (target : list name) (st : varsrel) : dual :=
  match st with
  | ArcEq | ValEq => mkDual (re a) target (du a)
  | _ => mkDual (re a) target (map (lookup_or_zero (vs a) (du a)) target)
  end.
Definition to_new_vars2 (a : dual2) (target : list name) (st : varsrel) : dual2 :=
  match st with
  | ArcEq | ValEq => mkDual2 (re2 a) target (du2 a) (dd2 a)
  | _ => mkDual2 (re2 a) target (map (lookup_or_zero (vs2 a) (du2 a)) target)
           (map (fun u => map (fun v => lookup2_or_zero (vs2 a) (dd2 a) u v) target) target)
  end.
(* Vars::to_union_vars / to_combined_vars dual.rs:103-139 *)
Definition to_union_vars (a b : dual) (st : varsrel) : dual * dual :=
  match st with
  | ArcEq => (a, b)
  | ValEq => (a, to_new_vars b (vs a) ValEq)
  | Superset => (a, to_new_vars b (vs a) Subset)
  | Subset => (to_new_vars a (vs b) Subset, b)
  | Difference => let c := union_vars (vs a) (vs b) in
                  (to_new_vars a c Difference, to_new_vars b c Difference)
  end.
Definition to_union_vars2 (a b : dual2) (st : varsrel) : dual2 * dual2 :=
  match st with
  | ArcEq => (a, b)
  | ValEq => (a, to_new_vars2 b (vs2 a) ValEq)
  | Superset => (a, to_new_vars2 b (vs2 a) Subset)
  | Subset => (to_new_vars2 a (vs2 b) Subset, b)
  | Difference => let c := union_vars (vs2 a) (vs2 b) in
                  (to_new_vars2 a c Difference, to_new_vars2 b c Difference)
  end.

(* the common shape of every Dual (+) Dual operator: fast path on (Arc|Value)Equivalent, otherwise
   align first; both branches then apply the same closure *)
Definition align (p : bool) (a b : dual) : dual * dual :=
  let st := vars_cmp p (vs a) (vs b) in
  match st with ArcEq | ValEq => (a, b) | _ => to_union_vars a b st end.
Definition align2 (p : bool) (a b : dual2) : dual2 * dual2 :=
  let st := vars_cmp p (vs2 a) (vs2 b) in
  match st with ArcEq | ValEq => (a, b) | _ => to_union_vars2 a b st end.

(* ---------------------------------------------------------------- Dual operators *)
Definition dadd (p : bool) (a b : dual) : dual :=
  let '(x, y) := align p a b in mkDual (nadd (re x) (re y)) (vs x) (vzip nadd (du x) (du y)).
Definition dsub (p : bool) (a b : dual) : dual :=
  let '(x, y) := align p a b in mkDual (nsub (re x) (re y)) (vs x) (vzip nsub (du x) (du y)).
Definition dmul (p : bool) (a b : dual) : dual :=
  let '(x, y) := align p a b in
  mkDual (nmul (re x) (re y)) (vs x) (vzip nadd (vscale_r (du x) (re y)) (vscale_r (du y) (re x))).
(* Dual +,-,*,/ f64 and f64 +,-,*,/ Dual *)
Definition dadd_f (a : dual) (r : T) : dual := mkDual (nadd (re a) r) (vs a) (du a).      (* also r + a *)
Definition dsub_f (a : dual) (r : T) : dual := mkDual (nsub (re a) r) (vs a) (du a).
Definition fsub_d (r : T) (a : dual) : dual := mkDual (nsub r (re a)) (vs a) (map nneg (du a)).
Definition dmul_f (a : dual) (r : T) : dual := mkDual (nmul (re a) r) (vs a) (vscale_l r (du a)).  (* also r * a *)
Definition ddiv_f (a : dual) (r : T) : dual :=
  mkDual (ndiv (re a) r) (vs a) (vscale_l (ndiv n1 r) (du a)).
(* Pow<f64>: owned and borrowed impls are written twice in pow.rs *)
(* x^0 is constant: the code multiplies the derivative array by 0.0 instead of evaluating
   0 * x^(-1) (= 0 * inf = NaN at a zero base) *)
Definition dpow (a : dual) (pw : T) : dual :=
  mkDual (npow (re a) pw) (vs a)
    (map (fun x => if neqb pw n0 then nmul x n0
                   else nmul (nmul x pw) (npow (re a) (nsub pw n1))) (du a)).
Definition dpow_ref (a : dual) (pw : T) : dual :=
  mkDual (npow (re a) pw) (vs a)
    (map (fun x => if neqb pw n0 then nmul x n0
                   else nmul (nmul x pw) (npow (re a) (nsub pw n1))) (du a)).
Definition fdiv_d (r : T) (a : dual) : dual := dmul_f (dpow a nm1) r.            (* a * b.pow(-1.0) *)
Definition ddiv (p : bool) (a b : dual) : dual :=
  let b_ := mkDual (ndiv n1 (re b)) (vs b)
              (vscale_l (ndiv nm1 (nmul (re b) (re b))) (du b)) in
  dmul p a b_.
Definition dneg (a : dual) : dual := mkDual (nneg (re a)) (vs a) (map nneg (du a)).            (* -a  (owned) *)
Definition dneg_ref (a : dual) : dual := mkDual (nneg (re a)) (vs a) (vscale_r (du a) nm1).    (* -&a *)
(* MathFuncs *)
Definition dexp (a : dual) : dual :=
  let c := nexp (re a) in mkDual c (vs a) (vscale_l c (du a)).
Definition dlog (a : dual) : dual :=
  mkDual (nln (re a)) (vs a) (vscale_l (ndiv n1 (re a)) (du a)).
Definition cdf_scalar (x : T) : T :=
  nmul (ndiv n1 (nsqrt (nmul n2 npi))) (nexp (nmul (nneg nhalf) (npow x n2))).
Definition icdf_scalar (base : T) : T :=
  nmul (nsqrt (nmul n2 npi)) (nexp (nmul nhalf (npow base n2))).
Definition dncdf (a : dual) : dual :=
  mkDual (ncdf (re a)) (vs a) (vscale_l (cdf_scalar (re a)) (du a)).
Definition dnicdf (a : dual) : dual :=
  let base := nicdf (re a) in mkDual base (vs a) (vscale_l (icdf_scalar base) (du a)).
(* Signed *)
Definition dabs (a : dual) : dual :=
  if nltb n0 (re a) then mkDual (re a) (vs a) (du a)
  else mkDual (nneg (re a)) (vs a) (vscale_l nm1 (du a)).
Definition dsignum (a : dual) : dual := dual_new (nsignum (re a)) [].
(* Rem *)
Definition drem_f (a : dual) (r : T) : dual := mkDual (nrem (re a) r) (vs a) (du a).
Definition drem (p : bool) (a b : dual) : dual :=
  let d := ntrunc (ndiv (re a) (re b)) in dsub p a (dmul_f b d).
Definition frem_d (r : T) (b : dual) : dual := drem false (dual_new r []) b.
(* Sum, Zero, One *)
Definition dzero : dual := dual_new n0 [].
Definition done : dual := dual_new n1 [].
Definition dsum (l : list dual) : dual := fold_left (dadd false) l dzero.
(* PartialEq eq.rs *)
Fixpoint list_eqb (a b : list T) : bool :=
  match a, b with
  | [], [] => true
  | x :: a', y :: b' => neqb x y && list_eqb a' b'
  | _, _ => false
  end.
Definition deqb (p : bool) (a b : dual) : bool :=
  if negb (neqb (re a) (re b)) then false
  else let '(x, y) := align p a b in list_eqb (du x) (du y).
Definition deqb_f (a : dual) (r : T) : bool := deqb false (dual_new r []) a.   (* d == f and f == d *)
Definition dis_zero (a : dual) : bool := deqb false a dzero.
(* PartialOrd ord.rs: on the real part only *)
Definition dltb (a b : dual) : bool := nltb (re a) (re b).
Definition dleb (a b : dual) : bool := nleb (re a) (re b).
(* Signed::abs_sub signed.rs:31-37: `if self <= other { Dual::new(0.0, Vec::new()) } else { self - other }`;
   num_traits' f64::abs_sub is the same test on plain floats *)
Definition fabs_sub (a b : T) : T := if nleb a b then n0 else nsub a b.
Definition dabs_sub (p : bool) (a b : dual) : dual := if dleb a b then dzero else dsub p a b.
(* Gradient1::gradient1 dual.rs:272-293 *)
Definition gradient1_gen (vars : list name) (d : list T) (ws : list name) : list T :=
  let w := dedup ws in
  match vars_cmp false vars w with
  | ArcEq | ValEq => d
  | _ => map (lookup_or_zero vars d) w
  end.
Definition gradient1 (a : dual) (ws : list name) : list T := gradient1_gen (vs a) (du a) ws.

(* ---------------------------------------------------------------- Dual2 operators *)
Definition sym_cross (a b : list T) : list (list T) :=      (* 0.5 * (ab^T + (ab^T)^T) *)
  let c := outer a b in
  mmap (fun x => nmul nhalf x) (mzip nadd c (transpose (length b) c)).
Definition d2add (p : bool) (a b : dual2) : dual2 :=
  let '(x, y) := align2 p a b in
  mkDual2 (nadd (re2 x) (re2 y)) (vs2 x) (vzip nadd (du2 x) (du2 y)) (mzip nadd (dd2 x) (dd2 y)).
Definition d2sub (p : bool) (a b : dual2) : dual2 :=
  let '(x, y) := align2 p a b in
  mkDual2 (nsub (re2 x) (re2 y)) (vs2 x) (vzip nsub (du2 x) (du2 y)) (mzip nsub (dd2 x) (dd2 y)).
Definition d2mul (p : bool) (a b : dual2) : dual2 :=
  let '(x, y) := align2 p a b in
  let m := mzip nadd (mmap (fun e => nmul e (re2 y)) (dd2 x)) (mmap (fun e => nmul e (re2 x)) (dd2 y)) in
  mkDual2 (nmul (re2 x) (re2 y)) (vs2 x)
    (vzip nadd (vscale_r (du2 x) (re2 y)) (vscale_r (du2 y) (re2 x)))
    (mzip nadd m (sym_cross (du2 x) (du2 y))).
Definition d2add_f (a : dual2) (r : T) : dual2 := mkDual2 (nadd (re2 a) r) (vs2 a) (du2 a) (dd2 a).
Definition d2sub_f (a : dual2) (r : T) : dual2 := mkDual2 (nsub (re2 a) r) (vs2 a) (du2 a) (dd2 a).
Definition fsub_d2 (r : T) (a : dual2) : dual2 :=
  mkDual2 (nsub r (re2 a)) (vs2 a) (map nneg (du2 a)) (mmap nneg (dd2 a)).
Definition d2mul_f (a : dual2) (r : T) : dual2 :=
  mkDual2 (nmul (re2 a) r) (vs2 a) (vscale_l r (du2 a)) (mmap (fun e => nmul r e) (dd2 a)).
Definition d2div_f (a : dual2) (r : T) : dual2 :=
  let c := ndiv n1 r in
  mkDual2 (ndiv (re2 a) r) (vs2 a) (vscale_l c (du2 a)) (mmap (fun e => nmul c e) (dd2 a)).
Definition d2pow (a : dual2) (pw : T) : dual2 :=
  (* x^0 and x^1 have vanishing first / second derivative: guarded against 0 * inf at a zero base *)
  let coeff := if neqb pw n0 then n0 else nmul pw (npow (re2 a) (nsub pw n1)) in
  let coeff2 := if neqb pw n0 || neqb pw n1 then n0
                else nmul (nmul (nmul nhalf pw) (nsub pw n1)) (npow (re2 a) (nsub pw n2)) in
  let cross := outer (du2 a) (du2 a) in
  mkDual2 (npow (re2 a) pw) (vs2 a) (vscale_r (du2 a) coeff)
    (mzip nadd (mmap (fun e => nmul e coeff) (dd2 a)) (mmap (fun e => nmul e coeff2) cross)).
Definition d2pow_ref := d2pow.
Definition d2div (p : bool) (a b : dual2) : dual2 := d2mul p a (d2pow b nm1).
Definition fdiv_d2 (r : T) (a : dual2) : dual2 := d2mul_f (d2pow a nm1) r.
Definition d2neg (a : dual2) : dual2 := mkDual2 (nneg (re2 a)) (vs2 a) (map nneg (du2 a)) (mmap nneg (dd2 a)).
Definition d2neg_ref (a : dual2) : dual2 :=
  mkDual2 (nneg (re2 a)) (vs2 a) (vscale_r (du2 a) nm1) (mmap (fun e => nmul e nm1) (dd2 a)).
Definition d2exp (a : dual2) : dual2 :=
  let c := nexp (re2 a) in
  mkDual2 c (vs2 a) (vscale_l c (du2 a))
    (mmap (fun e => nmul c e) (mzip nadd (dd2 a) (mmap (fun e => nmul nhalf e) (outer (du2 a) (du2 a))))).
Definition d2log (a : dual2) : dual2 :=
  let s := ndiv n1 (re2 a) in
  mkDual2 (nln (re2 a)) (vs2 a) (vscale_l s (du2 a))
    (mzip nsub (mmap (fun e => nmul s e) (dd2 a))
               (mmap (fun e => nmul (nmul e nhalf) (nmul s s)) (outer (du2 a) (du2 a)))).
Definition d2ncdf (a : dual2) : dual2 :=
  let s := cdf_scalar (re2 a) in
  let s2 := nmul s (nneg (re2 a)) in
  mkDual2 (ncdf (re2 a)) (vs2 a) (vscale_l s (du2 a))
    (mzip nadd (mmap (fun e => nmul s e) (dd2 a))
               (mmap (fun e => nmul (nmul nhalf s2) e) (outer (du2 a) (du2 a)))).
Definition d2nicdf (a : dual2) : dual2 :=
  let base := nicdf (re2 a) in
  let s := icdf_scalar base in
  let s2 := nmul (npow s n2) base in
  mkDual2 base (vs2 a) (vscale_l s (du2 a))
    (mzip nadd (mmap (fun e => nmul s e) (dd2 a))
               (mmap (fun e => nmul (nmul nhalf s2) e) (outer (du2 a) (du2 a)))).
Definition d2abs (a : dual2) : dual2 :=
  if nltb n0 (re2 a) then a
  else mkDual2 (nneg (re2 a)) (vs2 a) (vscale_l nm1 (du2 a)) (mmap (fun e => nmul nm1 e) (dd2 a)).
Definition d2signum (a : dual2) : dual2 := dual2_new (nsignum (re2 a)) [].
Definition d2rem_f (a : dual2) (r : T) : dual2 := mkDual2 (nrem (re2 a) r) (vs2 a) (du2 a) (dd2 a).
Definition d2rem (p : bool) (a b : dual2) : dual2 :=
  let d := ntrunc (ndiv (re2 a) (re2 b)) in d2sub p a (d2mul_f b d).
Definition frem_d2 (r : T) (b : dual2) : dual2 := d2rem false (dual2_new r []) b.
Definition d2zero : dual2 := dual2_new n0 [].
Definition d2one : dual2 := dual2_new n1 [].
Definition d2sum (l : list dual2) : dual2 := fold_left (d2add false) l d2zero.
Fixpoint mat_eqb (a b : list (list T)) : bool :=
  match a, b with
  | [], [] => true
  | x :: a', y :: b' => list_eqb x y && mat_eqb a' b'
  | _, _ => false
  end.
Definition d2eqb (p : bool) (a b : dual2) : bool :=
  if negb (neqb (re2 a) (re2 b)) then false
  else let '(x, y) := align2 p a b in list_eqb (du2 x) (du2 y) && mat_eqb (dd2 x) (dd2 y).
Definition d2eqb_f (a : dual2) (r : T) : bool := d2eqb false (dual2_new r []) a.
Definition d2is_zero (a : dual2) : bool := d2eqb false a d2zero.
Definition d2ltb (a b : dual2) : bool := nltb (re2 a) (re2 b).
Definition d2leb (a b : dual2) : bool := nleb (re2 a) (re2 b).
(* Signed::abs_sub signed.rs:71-77 *)
Definition d2abs_sub (p : bool) (a b : dual2) : dual2 := if d2leb a b then d2zero else d2sub p a b.

(* Gradient1 / Gradient2 for Dual2 dual.rs:272-374 *)
Definition gradient1_2 (a : dual2) (ws : list name) : list T := gradient1_gen (vs2 a) (du2 a) ws.
Definition gradient2 (a : dual2) (ws : list name) : list (list T) :=
  let w := dedup ws in
  match vars_cmp false (vs2 a) w with
  | ArcEq | ValEq => mmap (fun e => nmul n2 e) (dd2 a)
  | _ => mmap (fun e => nmul n2 e)
           (map (fun u => map (fun v => lookup2_or_zero (vs2 a) (dd2 a) u v) w) w)
  end.
(* gradient1_manifold dual.rs:347-374: `vars` is NOT de-duplicated for the indices, but the shared
   variable list of the results is (Dual2::new); absent names get a clone of `default_zero`.
   MANIFOLD_DEFAULT_DU is the `dual` array of that default entry. *)
Definition manifold_default (ws : list name) : dual2 :=
  let u := dedup ws in mkDual2 n0 u (vzeros (length u)) (mzeros (length u) (length u)).
Definition gradient1_manifold (a : dual2) (ws : list name) : list dual2 :=
  let n := length ws in
  map (fun wi =>
         match index_of wi (vs2 a) with
         | Some i => mkDual2 (nth i (du2 a) n0) (dedup ws)
                       (map (fun wj => match index_of wj (vs2 a) with
                                       | Some j => nmul (nth j (nth i (dd2 a) []) n0) n2
                                       | None => n0 end) ws)
                       (mzeros n n)
         | None => manifold_default ws
         end) ws.

(* From conversions from.rs *)
Definition dual_of_dual2 (a : dual2) : dual := mkDual (re2 a) (vs2 a) (du2 a).
Definition dual2_of_dual (a : dual) : dual2 :=
  let n := length (du a) in mkDual2 (re a) (vs a) (du a) (mzeros n n).
Definition dual_of_f (r : T) : dual := dual_new r [].
Definition dual2_of_f (r : T) : dual2 := dual2_new r [].
(* From<Dual> / From<&Dual> / From<Dual2> / From<&Dual2> for f64 from.rs:5-27 *)
Definition f_of_dual (a : dual) : T := re a.
Definition f_of_dual2 (a : dual2) : T := re2 a.

(* ---------------------------------------------------------------- constructors on another number's
   variables dual.rs:519-551 / 671-704: build the number with new / try_new (a FRESH Arc: never shared
   with `other`), then `to_new_vars(other.vars(), None)`; `None` = the relationship is computed by
   vars_cmp.  `other` may be of either order: only its variable list is used.
   `to_new_vars_auto p a target` is the direct public call `a.to_new_vars(&target, None)` where p says
   that `target` is a's own Arc. *)
Definition to_new_vars_auto (p : bool) (a : dual) (target : list name) : dual :=
  to_new_vars a target (vars_cmp p (vs a) target).
Definition to_new_vars2_auto (p : bool) (a : dual2) (target : list name) : dual2 :=
  to_new_vars2 a target (vars_cmp p (vs2 a) target).
(* the public `a.to_union_vars(&b, None)`: p = the two numbers share their Arc *)
Definition to_union_vars_auto (p : bool) (a b : dual) : dual * dual :=
  to_union_vars a b (vars_cmp p (vs a) (vs b)).
Definition to_union_vars2_auto (p : bool) (a b : dual2) : dual2 * dual2 :=
  to_union_vars2 a b (vars_cmp p (vs2 a) (vs2 b)).
Definition dual_new_from (other : list name) (r : T) (vars : list name) : dual :=
  to_new_vars_auto false (dual_new r vars) other.
Definition dual_try_new_from (other : list name) (r : T) (vars : list name) (d : list T) : outcome dual :=
  do n <- dual_try_new r vars d; Ok (to_new_vars_auto false n other).
Definition dual2_new_from (other : list name) (r : T) (vars : list name) : dual2 :=
  to_new_vars2_auto false (dual2_new r vars) other.
Definition dual2_try_new_from (other : list name) (r : T) (vars : list name) (d d2 : list T) : outcome dual2 :=
  do n <- dual2_try_new r vars d d2; Ok (to_new_vars2_auto false n other).

End Dual.
Arguments dual T : clear implicits.
Arguments dual2 T : clear implicits.
