(* Model of `PPSpline<T>` of rust/splines/spline.rs:170-378 and of the dual-abscissa basis
   evaluations :136-168.  Executable definitions only.

   The Rust struct is generic in the coefficient type (f64, Dual, Dual2); here the coefficient type
   is `E` with its `Ops E` (Model/Linalg.v: the trait methods the solver and the inner products
   call) and `xmul : T -> E -> E` (`&f64 * &E`).  Knots and the collocation matrix are always of
   the base type `T` (f64).

     bspldnev_dual / bspldnev_dual2   bspldnev_single_dual :136 / bspldnev_single_dual2 :154
     pp_new                            PPSpline::new :204 (asserts: > 1 knot, non-decreasing; n = len - k)
     bsplmatrix                        :262-274
     csolve                            :227-250 (fdsolve of linalg_f64.rs:153 = Model/Linalg.v)
     ppdnev_single                     :213 (any coefficient kind, f64 abscissa)
     ppdnev_f_dual, ppdnev_f_dual2     PPSpline<f64>::ppdnev_single_dual :287 / _dual2 :301
     ppdnev_d_dual, ppdnev_d_dual2     PPSpline<Dual>:: :333 / :327 (error)
     ppdnev_d2_dual, ppdnev_d2_dual2   PPSpline<Dual2>:: :359 (error) / :365
     mapped_value_f / _d / _d2         NumberMapping::mapped_value :276 / :316 / :348 *)
From Coq Require Import ZArith List Bool Arith.
From RL Require Import Base.Outcome Base.Num Base.Str Model.Dual Model.Number Model.Linalg Model.Spline.
Import ListNotations.

Section DualBasis.
  Context {T : Type} `{Num T}.

  (* Dual::clone_from(x, real, dual): assert_eq!(other.vars().len(), dual.len()) *)
  Definition dual_clone_from (vars : list name) (r : T) (d : list T) : outcome (dual T) :=
    if Nat.eqb (length vars) (length d) then Ok (mkDual r vars d) else Panic.
  (* Dual2::clone_from: the three shape asserts *)
  Definition dual2_clone_from (vars : list name) (r : T) (d : list T) (dd : list (list T))
    : outcome (dual2 T) :=
    if Nat.eqb (length vars) (length d) && Nat.eqb (length vars) (length dd)
       && Nat.eqb (length vars) (ncols dd)
    then Ok (mkDual2 r vars d dd) else Panic.

  (* bspldnev_single_dual :136 *)
  Definition bspldnev_dual (x : dual T) (i k : nat) (t : list T) (m : nat) (org_k : option nat)
    : outcome (dual T) :=
    do b <- bspldnev (re x) i k t m org_k;
    do db <- bspldnev (re x) i k t (m + 1) org_k;
    dual_clone_from (vs x) b (vscale_l db (du x)).           (* dbdx_f64 * x.dual() *)

  (* bsplev_single_dual :56: value from bsplev (org_k passed on), slope from the first derivative *)
  Definition bsplev_dual (x : dual T) (i k : nat) (t : list T) (org_k : option nat) : outcome (dual T) :=
    do b <- bsplev (re x) i k t org_k;
    do db <- bspldnev (re x) i k t 1 org_k;
    dual_clone_from (vs x) b (vscale_l db (du x)).

  (* bspldnev_single_dual2 :154
       dual2 = dbdx * x.dual2() + 0.5 * d2bdx2 * fouter11_(x.dual(), x.dual()) *)
  Definition bspldnev_dual2 (x : dual2 T) (i k : nat) (t : list T) (m : nat) (org_k : option nat)
    : outcome (dual2 T) :=
    do b <- bspldnev (re2 x) i k t m org_k;
    do db <- bspldnev (re2 x) i k t (m + 1) org_k;
    do d2b <- bspldnev (re2 x) i k t (m + 2) org_k;
    let h := nmul nhalf d2b in
    let dd := mzip nadd (mmap (fun e => nmul db e) (dd2 x))
                        (mmap (fun e => nmul h e) (outer (du2 x) (du2 x))) in
    dual2_clone_from (vs2 x) b (vscale_l db (du2 x)) dd.
  (* bsplev_single_dual2 :72 *)
  Definition bsplev_dual2 (x : dual2 T) (i k : nat) (t : list T) (org_k : option nat) : outcome (dual2 T) :=
    do b <- bsplev (re2 x) i k t org_k;
    do db <- bspldnev (re2 x) i k t 1 org_k;
    do d2b <- bspldnev (re2 x) i k t 2 org_k;
    let h := nmul nhalf d2b in
    let dd := mzip nadd (mmap (fun e => nmul db e) (dd2 x))
                        (mmap (fun e => nmul h e) (outer (du2 x) (du2 x))) in
    dual2_clone_from (vs2 x) b (vscale_l db (du2 x)) dd.
End DualBasis.

Section PPSpline.
  Context {T : Type} `{Num T}.

  Record ppspline (E : Type) := mkPP { pk : nat; pt : list T; pc : option (list E); pn : nat }.
  Arguments mkPP {E}. Arguments pk {E}. Arguments pt {E}. Arguments pc {E}. Arguments pn {E}.

  Fixpoint nondecreasingb (t : list T) : bool :=          (* zip(&t[1..], &t[..len-1]).all(|(a, b)| a >= b) *)
    match t with
    | a :: ((b :: _) as r) => nleb a b && nondecreasingb r
    | _ => true
    end.

  (* PPSpline::new *)
  Definition pp_new {E} (k : nat) (t : list T) (c : option (list E)) : outcome (ppspline E) :=
    if negb (Nat.ltb 1 (length t)) then Panic                  (* assert!(t.len() > 1) *)
    else if negb (nondecreasingb t) then Panic
    else do n <- usub (length t) k;                            (* t.len() - k *)
         Ok (mkPP k t c n).

  (* bsplmatrix: rows as lists.  Row 0 = left_n-th derivatives at tau[0], last row = right_n-th
     derivatives at tau[len-1] (written after row 0: wins when len = 1), rows between = values. *)
  Definition bsplmatrix {E} (s : ppspline E) (tau : list T) (left_n right_n : nat)
    : outcome (list (list T)) :=
    match pn s with
    | O => Ok (map (fun _ => []) tau)                          (* no column: nothing is indexed *)
    | S _ =>
      match tau with
      | [] => Panic                                            (* tau[0] *)
      | tau0 :: _ =>
        let len := length tau in
        let tlast := last tau tau0 in
        do r0 <- bspldnev_row tau0 (pk s) (pt s) left_n (pn s);
        do rl <- bspldnev_row tlast (pk s) (pt s) right_n (pn s);
        do mid <- omapM (fun x => bsplev_row x (pk s) (pt s) (pn s))
                        (firstn (len - 2) (skipn 1 tau));
        Ok (match len with
            | S O => [rl]
            | _ => r0 :: mid ++ [rl]
            end)
      end
    end.

  Section Kind.
    Context {E : Type} {OE : Ops E} (xmul : T -> E -> E).

    (* csolve :227 *)
    Definition csolve (s : ppspline E) (tau : list T) (y : list E) (left_n right_n : nat)
        (allow_lsq : bool) : outcome (ppspline E) :=
      if negb (Nat.eqb (length tau) (pn s)) && negb (allow_lsq && Nat.ltb (pn s) (length tau))
      then Err
      else if negb (Nat.eqb (length tau) (length y)) then Err
      else do b <- bsplmatrix s tau left_n right_n;
           do c <- fdsolve xmul b y allow_lsq;
           Ok (mkPP (pk s) (pt s) (Some c) (pn s)).

    (* ppdnev_single :213: the basis row is built first (index panics), then `c` is inspected *)
    Definition ppdnev_single (s : ppspline E) (x : T) (m : nat) : outcome E :=
      do b <- bspldnev_row x (pk s) (pt s) m (pn s);
      match pc s with
      | Some c => fdmul11_ xmul b c
      | None => Err
      end.
  End Kind.

  (* PPSpline::bspldnev :286 (vector form): the m-th derivative of basis function i at each abscissa *)
  Definition pp_bspldnev {E} (s : ppspline E) (xs : list T) (i m : nat) : outcome (list T) :=
    omapM (fun x => bspldnev x i (pk s) (pt s) m None) xs.

  (* PartialEq for PPSpline<T> :410-430 (e = the coefficient type's own ==) *)
  Fixpoint vec_eqb_gen {A} (e : A -> A -> bool) (a b : list A) : bool :=
    match a, b with
    | [], [] => true
    | x :: a', y :: b' => e x y && vec_eqb_gen e a' b'
    | _, _ => false
    end.
  Definition pp_eqb {E} (e : E -> E -> bool) (a b : ppspline E) : bool :=
    if negb (Nat.eqb (pk a) (pk b)) || negb (Nat.eqb (pn a) (pn b)) then false
    else if negb (vec_eqb_gen neqb (pt a) (pt b)) then false
    else match pc a, pc b with
         | Some x, Some y => vec_eqb_gen e x y
         | None, None => true
         | _, _ => false
         end.

  Definition dual_row (s_k : nat) (s_t : list T) (s_n : nat) (x : dual T) (m : nat)
    : outcome (list (dual T)) :=
    omapM (fun i => bspldnev_dual x i s_k s_t m None) (seq 0 s_n).
  Definition dual2_row (s_k : nat) (s_t : list T) (s_n : nat) (x : dual2 T) (m : nat)
    : outcome (list (dual2 T)) :=
    omapM (fun i => bspldnev_dual2 x i s_k s_t m None) (seq 0 s_n).

  (* PPSpline<f64> *)
  Definition ppdnev_f_dual (s : ppspline T) (x : dual T) (m : nat) : outcome (dual T) :=
    do b <- dual_row (pk s) (pt s) (pn s) x m;
    match pc s with Some c => fdmul11_ xmul_dual c b | None => Err end.
  Definition ppdnev_f_dual2 (s : ppspline T) (x : dual2 T) (m : nat) : outcome (dual2 T) :=
    do b <- dual2_row (pk s) (pt s) (pn s) x m;
    match pc s with Some c => fdmul11_ xmul_dual2 c b | None => Err end.
  (* PPSpline<Dual> *)
  Definition ppdnev_d_dual (s : ppspline (dual T)) (x : dual T) (m : nat) : outcome (dual T) :=
    do b <- dual_row (pk s) (pt s) (pn s) x m;
    match pc s with Some c => dmul11_ c b | None => Err end.
  Definition ppdnev_d_dual2 (s : ppspline (dual T)) (x : dual2 T) (m : nat) : outcome (dual2 T) := Err.
  (* PPSpline<Dual2> *)
  Definition ppdnev_d2_dual (s : ppspline (dual2 T)) (x : dual T) (m : nat) : outcome (dual T) := Err.
  Definition ppdnev_d2_dual2 (s : ppspline (dual2 T)) (x : dual2 T) (m : nat) : outcome (dual2 T) :=
    do b <- dual2_row (pk s) (pt s) (pn s) x m;
    match pc s with Some c => dmul11_ c b | None => Err end.

  (* NumberMapping::mapped_value for the three spline kinds *)
  Definition mapped_value_f (s : ppspline T) (x : number T) : outcome (number T) :=
    match x with
    | NF f => omap NF (ppdnev_single xmul_num s f 0)
    | ND d => omap ND (ppdnev_f_dual s d 0)
    | ND2 d => omap ND2 (ppdnev_f_dual2 s d 0)
    end.
  Definition mapped_value_d (s : ppspline (dual T)) (x : number T) : outcome (number T) :=
    match x with
    | NF f => omap ND (ppdnev_single xmul_dual s f 0)
    | ND d => omap ND (ppdnev_d_dual s d 0)
    | ND2 d => omap ND2 (ppdnev_d_dual2 s d 0)
    end.
  Definition mapped_value_d2 (s : ppspline (dual2 T)) (x : number T) : outcome (number T) :=
    match x with
    | NF f => omap ND2 (ppdnev_single xmul_dual2 s f 0)
    | ND d => omap ND (ppdnev_d2_dual s d 0)
    | ND2 d => omap ND2 (ppdnev_d2_dual2 s d 0)
    end.
End PPSpline.
Arguments mkPP {T E}. Arguments pk {T E}. Arguments pt {T E}. Arguments pc {T E}. Arguments pn {T E}.
