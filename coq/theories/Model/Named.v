(* Model of rust/calendars/named/mod.rs (lookup of built-in tables) and NamedCal::try_new /
   parse_cals (rust/calendars/calendar.rs:116-152).  The tables and the name wiring come from the
   GENERATED files Gen/NamedTables.v, Gen/NameWiring.v.  Strings are lists of Unicode code points. *)
From Coq Require Import ZArith List Bool String Ascii.
From RL Require Import Base.Outcome Model.Dates Model.Calendar Gen.NamedTables Gen.NameWiring.
Import ListNotations.
Open Scope Z_scope.

Definition str := list Z.
Fixpoint str_of_string (s : string) : str :=
  match s with EmptyString => [] | String c r => Z.of_nat (nat_of_ascii c) :: str_of_string r end.
Fixpoint str_eqb (a b : str) : bool :=
  match a, b with
  | [], [] => true
  | x :: a', y :: b' => (x =? y) && str_eqb a' b'
  | _, _ => false
  end.

(* str::to_lowercase restricted to what can matter for table names: ASCII upper case, and the two
   non-ASCII code points whose lower case contains an ASCII letter (U+212A KELVIN SIGN -> k,
   U+0130 -> i U+0307).  Every other code point is left as it is (its lower case is non-ASCII). *)
Definition lower_cp (c : Z) : list Z :=
  if (65 <=? c) && (c <=? 90) then [c + 32]
  else if c =? 8490 then [107]
  else if c =? 304 then [105; 775]
  else [c].
Definition lower (s : str) : str := flat_map lower_cp s.

(* str::split(sep): "a,,b" -> ["a"; ""; "b"], "" -> [""] *)
Fixpoint split (sep : Z) (s : str) : list str :=
  match s with
  | [] => [[]]
  | c :: r =>
      let l := split sep r in
      if c =? sep then [] :: l
      else match l with h :: t => (c :: h) :: t | [] => [[c]] end
  end.

(* HashMap::from([...]).get(name): the LAST entry with that key wins *)
Fixpoint assoc_last {A} (name : str) (l : list (string * A)) (acc : option A) : option A :=
  match l with
  | [] => acc
  | (k, v) :: r => assoc_last name r (if str_eqb name (str_of_string k) then Some v else acc)
  end.

Definition get_weekmask_by_name (name : str) : outcome (list Z) :=
  match assoc_last name wiring_mask None with Some m => Ok m | None => Err end.
Definition get_holidays_by_name (name : str) : outcome (list Z) :=
  match assoc_last name wiring_hols None with Some h => Ok h | None => Err end.

(* get_calendar_by_name :112 *)
Definition get_calendar_by_name (name : str) : outcome cal :=
  do h <- get_holidays_by_name name;
  do m <- get_weekmask_by_name name;
  cal_new h m.

(* parse_cals :146 *)
Definition parse_cals (s : str) : outcome (list cal) := omapM get_calendar_by_name (split 44 s).

Record namedcal := mkNamed { n_name : str; n_ucal : ucal }.

(* NamedCal::try_new :116 *)
Definition named_try_new (name : str) : outcome namedcal :=
  let name_ := lower name in
  let parts := split 124 name_ in
  match parts with
  | [p0] => do cs <- parse_cals p0; Ok (mkNamed name_ (mkUCal cs None))
  | [p0; p1] => do cs <- parse_cals p0; do ss <- parse_cals p1; Ok (mkNamed name_ (mkUCal cs (Some ss)))
  | _ => Err
  end.

(* impl DateRoll for NamedCal :184 — everything is delegated to the stored union *)
Definition ncal_is_weekday (n : namedcal) (d : Z) : bool := ucal_is_weekday (n_ucal n) d.
Definition ncal_is_holiday (n : namedcal) (d : Z) : bool := ucal_is_holiday (n_ucal n) d.
Definition ncal_is_bus (n : namedcal) (d : Z) : bool := ucal_is_bus (n_ucal n) d.
Definition ncal_is_settle (n : namedcal) (d : Z) : bool := ucal_is_settle (n_ucal n) d.

(* the PartialEq impls of calendar.rs:224-270; `other` is any DateRoll, given by its two predicates.
   (`cal_date_range` is the trait's default method for every calendar kind, so the two zipped date
   vectors are the same days 1970-01-01..2200-12-31.) *)
(* impl<T: DateRoll> PartialEq<T> for UnionCal :224 *)
Definition ucal_eq_any (u : ucal) (bus2 settle2 : Z -> bool) : bool :=
  dr_eq (ucal_is_bus u) (ucal_is_settle u) bus2 settle2.
(* impl<T: DateRoll> PartialEq<T> for NamedCal :242 — self.union_cal.eq(other) *)
Definition ncal_eq_any (n : namedcal) (bus2 settle2 : Z -> bool) : bool := ucal_eq_any (n_ucal n) bus2 settle2.
(* impl PartialEq<UnionCal> for Cal :251 is Calendar.cal_eq_ucal;
   impl PartialEq<NamedCal> for Cal :267 — other.union_cal.eq(self) *)
Definition cal_eq_ncal (c : cal) (n : namedcal) : bool :=
  ucal_eq_any (n_ucal n) (cal_is_bus c) (cal_is_settle c).
