(* Datetimes WITH a time of day (the API type is chrono::NaiveDateTime, not a date).
   A datetime is (day number d, seconds after midnight t) with 0 <= t < 86400.  Holiday lists hold midnights (Cal::new
   stores the datetimes it is given; every table and constructor route builds them from dates) and
   `Cal::is_holiday` (calendar.rs:162) is EXACT set membership, while `is_weekday` looks only at the day.  Day-by-day
   searches add whole days, so the time of day is carried through unchanged.  Executable definitions only. *)
From Coq Require Import ZArith List Bool.
From RL Require Import Base.Outcome Model.Dates Model.Calendar.
Import ListNotations.
Open Scope Z_scope.

Definition cal_is_holiday_dt (c : cal) (d t : Z) : bool := (t =? 0) && zmem d (c_hols c).
Definition cal_is_bus_dt (c : cal) (d t : Z) : bool := cal_is_weekday c d && negb (cal_is_holiday_dt c d t).
Definition ucal_is_holiday_dt (u : ucal) (d t : Z) : bool := existsb (fun c => cal_is_holiday_dt c d t) (u_cals u).
Definition ucal_is_bus_dt (u : ucal) (d t : Z) : bool := ucal_is_weekday u d && negb (ucal_is_holiday_dt u d t).
Definition ucal_is_settle_dt (u : ucal) (d t : Z) : bool :=
  match u_settle u with
  | None => true
  | Some v => negb (existsb (fun c => negb (cal_is_bus_dt c d t)) v)
  end.

(* the calendar a datetime with t <> 0 sees: the week mask alone *)
Definition cal_strip (c : cal) : cal := mkCal (c_mask c) [].
Definition ucal_strip (u : ucal) : ucal :=
  mkUCal (map cal_strip (u_cals u)) (option_map (map cal_strip) (u_settle u)).
Definition cal_at (c : cal) (t : Z) : cal := if t =? 0 then c else cal_strip c.
Definition ucal_at (u : ucal) (t : Z) : ucal := if t =? 0 then u else ucal_strip u.
