(* Model of rust/dual/linalg/linalg_dual.rs and linalg_f64.rs.  Executable definitions only.

   ndarray arrays are lists (1d) and lists of rows (2d, every row of the same length: an ndarray
   cannot be ragged).  The Rust solver is generic in the element type `T` (f64, Dual, Dual2) through
   the traits Sub/Mul/Div/Sum/Zero/Signed/PartialOrd; here it is generic in the record `Ops T` with
   one field per trait method the code calls, and instances for the three kinds at the end.

   `dsolve21_` (all entries of type T) and `fdsolve21_` (f64 matrix, rhs of type T) are the same
   loops written twice in the Rust source; they differ only in which type each operator is taken at
   and in ONE line of the back substitution (`&v / &u[[i,i]]` vs `&(1.0 / &u[[i,i]]) * &v`).  The
   loops are therefore written once below, over a matrix type F and a rhs type E with the two
   cross-type operations as arguments (`xmul` = F * E, `xdiv` = the last line of the back
   substitution), and the two Rust functions are its two instantiations (section Solvers).

   Panic sites: `assert!(a.is_square())`, `assert_eq!(b.len(), n)`, the `assert_eq!` of
   dmul11_/dmul21_/dmul22_, `partial_cmp(..).unwrap()` in argabsmax (a NaN in the pivot column),
   `max_by(..).unwrap()` (empty slice), the index preconditions of row_swap / el_swap.  There is
   no `Err` path.  Indexing inside the loops cannot go out of bounds once the shape asserts passed
   (all indices < n), so `nth` with a default is used there.
   Degenerate shapes r x 0 / 0 x c (r, c > 0) are not representable as lists of rows and are out of
   the modelled domain. *)
From Coq Require Import List Arith Bool ZArith.
From RL Require Import Base.Outcome Base.Num Base.Str Model.Dual.
Import ListNotations.
Local Open Scope nat_scope.

(* What the solver needs from an element type *)
Class Ops (T : Type) := {
  oadd : T -> T -> T;          (* Add, used by Sum *)
  osub : T -> T -> T;          (* &T - &T *)
  omul : T -> T -> T;          (* &T * &T *)
  odiv : T -> T -> T;          (* &T / &T *)
  ozero : T;                   (* T::zero() *)
  oone : T;                    (* the literal 1.0_f64 (used at F = f64 only) *)
  osum0 : T;                   (* the initial accumulator of `impl Sum for T` *)
  ocmp_abs : T -> T -> option comparison   (* x.abs().partial_cmp(&y.abs()); None = unordered *)
}.

(* ------------------------------------------------------------------ arrays *)
Section Arrays.
  Context {T : Type}.
  Fixpoint vset (v : list T) (i : nat) (x : T) : list T :=        (* v[i] = x *)
    match v, i with
    | [], _ => []
    | _ :: r, O => x :: r
    | y :: r, S i' => y :: vset r i' x
    end.
  Definition ncols (a : list (list T)) : nat := match a with [] => O | r :: _ => length r end.
  Definition is_square (a : list (list T)) : bool :=
    forallb (fun r => Nat.eqb (length r) (length a)) a.
  Definition is_rect (c : nat) (a : list (list T)) : bool :=
    forallb (fun r => Nat.eqb (length r) c) a.
End Arrays.
Definition mget {T} (d : T) (a : list (list T)) (i j : nat) : T := nth j (nth i a []) d.   (* a[[i,j]] *)
Definition mset {T} (a : list (list T)) (i j : nat) (x : T) : list (list T) :=             (* a[[i,j]] = x *)
  vset a i (vset (nth i a []) j x).
(* a.t(), for a matrix with c columns *)
Definition mtranspose {T} (d : T) (c : nat) (a : list (list T)) : list (list T) :=
  map (fun k => map (fun row => nth k row d) a) (seq 0 c).

(* fold with early exit for loops whose body can abort *)
Fixpoint ofold {S X} (f : S -> X -> outcome S) (l : list X) (s : S) : outcome S :=
  match l with
  | [] => Ok s
  | x :: r => do s' <- f s x; ofold f r s'
  end.

(* ------------------------------------------------------------------ pivot choice and swaps *)
Section Pivot.
  Context {T : Type} {O : Ops T}.
  (* linalg_dual.rs:69  a.iter().zip(0..).max_by(|x,y| x.0.abs().partial_cmp(&y.0.abs()).unwrap()).unwrap().1
     Iterator::max_by folds with `match compare(&acc, &next) { Greater => acc, _ => next }`:
     among equal maxima the LAST one wins. *)
  Fixpoint argabsmax_go (best : T) (bi : nat) (i : nat) (l : list T) : outcome nat :=
    match l with
    | [] => Ok bi
    | y :: r => match ocmp_abs best y with
                | None => Panic                                   (* partial_cmp(..).unwrap() *)
                | Some Gt => argabsmax_go best bi (S i) r
                | Some _ => argabsmax_go y i (S i) r
                end
    end.
  Definition argabsmax (l : list T) : outcome nat :=
    match l with
    | [] => Panic                                                 (* max_by(..).unwrap() on None *)
    | x :: r => argabsmax_go x 0 1 r
    end.
End Pivot.

(* linalg_dual.rs:94  split_at(Axis(0), kr) needs kr <= nrows; pt.row_mut(j) needs j < kr;
   pb.row_mut(0) needs kr < nrows *)
Definition row_swap {T} (p : list (list T)) (j kr : nat) : outcome (list (list T)) :=
  if (j <? kr) && (kr <? length p)
  then Ok (vset (vset p j (nth kr p [])) kr (nth j p []))
  else Panic.
(* linalg_dual.rs:107 *)
Definition el_swap {T} (d : T) (p : list T) (j k : nat) : outcome (list T) :=
  if (j <? k) && (k <? length p)
  then Ok (vset (vset p j (nth k p d)) k (nth j p d))
  else Panic.

(* ------------------------------------------------------------------ the solver loops, written once *)
Section Loops.
  Context {F E : Type} {OF : Ops F} {OE : Ops E}.
  Context (xmul : F -> E -> E)     (* product of a matrix-side and a rhs-side value *)
          (xdiv : E -> F -> E).    (* last line of the back substitution: x[i] from v and u[[i,i]] *)

  (* dmul11_ / fdmul11_ without the length assert:
     a.iter().zip(b.iter()).map(|(x, y)| x * y).sum() ; Sum = fold(osum0, |acc, x| acc + x) *)
  Definition gdot (a : list F) (b : list E) : E :=
    fold_left (fun acc p => oadd acc (xmul (fst p) (snd p))) (combine a b) osum0.
  Definition gmul11 (a : list F) (b : list E) : outcome E :=
    if Nat.eqb (length a) (length b) then Ok (gdot a b) else Panic.
  (* dmul21_ / fdmul21_ : assert_eq!(a.ncols, b.len) *)
  Definition gmat_vec (a : list (list F)) (b : list E) : list E := map (fun row => gdot row b) a.
  Definition gmul21 (a : list (list F)) (b : list E) : outcome (list E) :=
    if Nat.eqb (ncols a) (length b) then Ok (gmat_vec a b) else Panic.

  (* the m loop of dsolve21_ :319-322 / fdsolve21_ :139-142 for row l, after `scl` was computed:
       a_[[l, j]] = T::zero();
       for m in (j + 1)..n { a_[[l, m]] = &a_[[l, m]] - &(&scl * &a_[[j, m]]); } *)
  Definition rowop (j n l : nat) (scl : F) (a : list (list F)) : list (list F) :=
    fold_left (fun a m => mset a l m (osub (mget ozero a l m) (omul scl (mget ozero a j m))))
              (seq (S j) (n - S j)) (mset a l j ozero).
  (* body of the l loop :317-324 / :137-144 *)
  Definition step_l (j n : nat) (st : list (list F) * list E) (l : nat) : list (list F) * list E :=
    let '(a, b) := st in
    let scl := odiv (mget ozero a l j) (mget ozero a j j) in
    (rowop j n l scl a,
     vset b l (osub (nth l b ozero) (xmul scl (nth j b ozero)))).
  (* body of the j loop :309-325 / :129-145 *)
  Definition pivot_col (a : list (list F)) (j : nat) : list F :=       (* a_.slice(s![j.., j]) *)
    map (fun r => nth j r ozero) (skipn j a).
  Definition step_j (n : nat) (st : list (list F) * list E) (j : nat) : outcome (list (list F) * list E) :=
    let '(a, b) := st in
    do k0 <- argabsmax (pivot_col a j);
    let k := k0 + j in
    do st1 <- (if Nat.eqb j k then Ok (a, b)
               else do a' <- row_swap a j k; do b' <- el_swap ozero b j k; Ok (a', b'));
    Ok (fold_left (step_l j n) (seq (S j) (n - S j)) st1).
  Definition eliminate (n : nat) (a : list (list F)) (b : list E) : outcome (list (list F) * list E) :=
    ofold (step_j n) (seq 0 n) (a, b).

  (* dsolve_upper21_ :282 / fdsolve_upper21_ :100
       let mut x = Array::zeros(n);
       for i in (0..n).rev() {
           let v = &b[i] - &dmul11_(&u.slice(s![i, (i + 1)..]), &x.slice(s![(i + 1)..]));
           x[i] = <xdiv v u[[i,i]]> }
     (the two slices have length n - (i+1) each: dmul11_'s assert cannot fire) *)
  Definition step_u (u : list (list F)) (b : list E) (x : list E) (i : nat) : list E :=
    let v := osub (nth i b ozero) (gdot (skipn (S i) (nth i u [])) (skipn (S i) x)) in
    vset x i (xdiv v (mget ozero u i i)).
  Definition gsolve_upper (n : nat) (u : list (list F)) (b : list E) : list E :=
    fold_left (step_u u b) (rev (seq 0 n)) (repeat ozero n).

  (* dsolve21_ :296 / fdsolve21_ :115 *)
  Definition gsolve21 (a : list (list F)) (b : list E) : outcome (list E) :=
    if negb (is_square a) then Panic                         (* assert!(a.is_square()) *)
    else let n := length a in
    if negb (Nat.eqb (length b) n) then Panic                (* assert_eq!(b.len_of(Axis(0)), n) *)
    else do st <- eliminate n a b;
         Ok (gsolve_upper n (fst st) (snd st)).
End Loops.

(* ------------------------------------------------------------------ the Rust entry points *)
Section Solvers.
  Context {T : Type} {O : Ops T}.
  (* linalg_dual.rs: everything at type T *)
  Definition dot : list T -> list T -> T := gdot omul.
  Definition dmul11_ : list T -> list T -> outcome T := gmul11 omul.
  Definition mat_vec : list (list T) -> list T -> list T := gmat_vec omul.
  Definition dmul21_ : list (list T) -> list T -> outcome (list T) := gmul21 omul.
  (* dmul22_: rows of a x columns of b (cartesian_product, row major) *)
  Definition mat_mul (a b : list (list T)) : list (list T) :=
    map (fun row => map (fun col => dot row col) (mtranspose ozero (ncols b) b)) a.
  Definition dmul22_ (a b : list (list T)) : outcome (list (list T)) :=
    if Nat.eqb (ncols a) (length b) then Ok (mat_mul a b) else Panic.
  Definition dsolve_upper21_ (u : list (list T)) (b : list T) : list T :=
    gsolve_upper omul odiv (length u) u b.
  Definition dsolve21_ : list (list T) -> list T -> outcome (list T) := gsolve21 omul odiv.
  (* linalg_dual.rs:359 *)
  Definition dsolve (a : list (list T)) (b : list T) (allow_lsq : bool) : outcome (list T) :=
    if allow_lsq then
      let at_ := mtranspose ozero (ncols a) a in
      do a_ <- dmul22_ at_ a;
      do b_ <- dmul21_ at_ b;
      dsolve21_ a_ b_
    else dsolve21_ a b.
End Solvers.

Section MixedSolvers.
  (* linalg_f64.rs: matrix of F (= f64), rhs of T; xmul is `&f64 * &T` *)
  Context {F T : Type} {OF : Ops F} {OT : Ops T} (xmul : F -> T -> T).
  Definition fdot : list F -> list T -> T := gdot xmul.
  Definition fdmul11_ : list F -> list T -> outcome T := gmul11 xmul.
  Definition fmat_vec : list (list F) -> list T -> list T := gmat_vec xmul.
  Definition fdmul21_ : list (list F) -> list T -> outcome (list T) := gmul21 xmul.
  Definition fxdiv (v : T) (u : F) : T := xmul (odiv oone u) v.      (* &(1.0_f64 / &u[[i,i]]) * &v *)
  Definition fdsolve_upper21_ (u : list (list F)) (b : list T) : list T :=
    gsolve_upper xmul fxdiv (length u) u b.
  Definition fdsolve21_ : list (list F) -> list T -> outcome (list T) := gsolve21 xmul fxdiv.
  (* linalg_f64.rs:153 *)
  Definition fdsolve (a : list (list F)) (b : list T) (allow_lsq : bool) : outcome (list T) :=
    if allow_lsq then
      let at_ := mtranspose ozero (ncols a) a in
      do a_ <- dmul22_ at_ a;
      do b_ <- fdmul21_ at_ b;
      fdsolve21_ a_ b_
    else fdsolve21_ a b.
End MixedSolvers.

(* ------------------------------------------------------------------ the three element kinds *)
Section Kinds.
  Context {T : Type} {N : Num T}.
  (* f64::partial_cmp *)
  Definition num_pcmp (a b : T) : option comparison :=
    if nltb a b then Some Lt else if nltb b a then Some Gt else if neqb a b then Some Eq else None.
  (* f64: Signed::abs = f64::abs; `impl Sum for f64` folds from -0.0 (Rust >= 1.83) *)
  #[global] Instance ops_num : Ops T := {|
    oadd := nadd; osub := nsub; omul := nmul; odiv := ndiv;
    ozero := n0; oone := n1; osum0 := nneg n0;
    ocmp_abs := fun a b => num_pcmp (nabs a) (nabs b) |}.
  (* Dual: operators of dual_ops/{add,sub,mul,div}.rs; Zero = Sum's start = Dual::new(0.0, []);
     abs (signed.rs) and partial_cmp (ord.rs) look at the real part only *)
  #[global] Instance ops_dual : Ops (dual T) := {|
    oadd := dadd false; osub := dsub false; omul := dmul false; odiv := ddiv false;
    ozero := dzero; oone := done; osum0 := dzero;
    ocmp_abs := fun a b => num_pcmp (re (dabs a)) (re (dabs b)) |}.
  #[global] Instance ops_dual2 : Ops (dual2 T) := {|
    oadd := d2add false; osub := d2sub false; omul := d2mul false; odiv := d2div false;
    ozero := d2zero; oone := d2one; osum0 := d2zero;
    ocmp_abs := fun a b => num_pcmp (re2 (d2abs a)) (re2 (d2abs b)) |}.
  (* &f64 * &T for the three rhs kinds (mul.rs: commutative impls) *)
  Definition xmul_num (a b : T) : T := nmul a b.
  Definition xmul_dual (a : T) (b : dual T) : dual T := dmul_f b a.
  Definition xmul_dual2 (a : T) (b : dual2 T) : dual2 T := d2mul_f b a.
End Kinds.
