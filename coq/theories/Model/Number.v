(* Model of rust/dual/enums.rs `Number`, the nine-arm operator tables on it (dual_ops/*.rs), the
   order conversions (convert.rs) and From conversions (from.rs).  Mixing Dual with Dual2 panics. *)
From Coq Require Import ZArith List Bool.
From RL Require Import Base.Num Base.Str Base.Outcome Model.Dual.
Import ListNotations.

Inductive adorder := OZero | OOne | OTwo.

Section Number.
Context {T : Type} `{Num T}.

Inductive number := NF (f : T) | ND (d : dual T) | ND2 (d : dual2 T).

Definition num_real (x : number) : T :=
  match x with NF f => f | ND d => re d | ND2 d => re2 d end.
Definition num_vars (x : number) : list name :=
  match x with NF _ => [] | ND d => vs d | ND2 d => vs2 d end.

(* set_order / set_order_clone convert.rs:30-59 (the two tables are identical) *)
Definition set_order (x : number) (o : adorder) (vars : list name) : number :=
  match x, o with
  | NF f, OZero => NF f
  | ND d, OZero => NF (re d)
  | ND2 d, OZero => NF (re2 d)
  | NF f, OOne => ND (dual_new f vars)
  | ND d, OOne => ND d
  | ND2 d, OOne => ND (dual_of_dual2 d)
  | NF f, OTwo => ND2 (dual2_new f vars)
  | ND d, OTwo => ND2 (dual2_of_dual d)
  | ND2 d, OTwo => ND2 d
  end.
Definition set_order_clone := set_order.

(* From<Number> for f64 / Dual / Dual2 *)
Definition num_to_f (x : number) : T := num_real x.
Definition num_to_dual (x : number) : dual T :=
  match x with NF f => dual_new f [] | ND d => d | ND2 d => dual_of_dual2 d end.
Definition num_to_dual2 (x : number) : dual2 T :=
  match x with NF f => dual2_new f [] | ND d => dual2_of_dual d | ND2 d => d end.

(* generic nine-arm table: ff on floats, the four mixed float/dual closures, dd on equal kinds;
   `p` = the two dual operands share their Arc *)
Definition num_bin
   (ff : T -> T -> T)
   (fd : T -> dual T -> dual T) (df : dual T -> T -> dual T) (dd : bool -> dual T -> dual T -> dual T)
   (fd2 : T -> dual2 T -> dual2 T) (d2f : dual2 T -> T -> dual2 T) (d2d2 : bool -> dual2 T -> dual2 T -> dual2 T)
   (p : bool) (a b : number) : outcome number :=
  match a, b with
  | NF f, NF g => Ok (NF (ff f g))
  | NF f, ND d => Ok (ND (fd f d))
  | NF f, ND2 d => Ok (ND2 (fd2 f d))
  | ND d, NF g => Ok (ND (df d g))
  | ND d, ND e => Ok (ND (dd p d e))
  | ND _, ND2 _ => Panic
  | ND2 d, NF g => Ok (ND2 (d2f d g))
  | ND2 _, ND _ => Panic
  | ND2 d, ND2 e => Ok (ND2 (d2d2 p d e))
  end.
Definition num_add := num_bin nadd (fun f d => dadd_f d f) dadd_f dadd (fun f d => d2add_f d f) d2add_f d2add.
Definition num_sub := num_bin nsub fsub_d dsub_f dsub fsub_d2 d2sub_f d2sub.
Definition num_mul := num_bin nmul (fun f d => dmul_f d f) dmul_f dmul (fun f d => d2mul_f d f) d2mul_f d2mul.
Definition num_div := num_bin ndiv fdiv_d ddiv_f ddiv fdiv_d2 d2div_f d2div.
Definition num_rem := num_bin nrem frem_d drem_f drem frem_d2 d2rem_f d2rem.
(* Number (op) f64 and f64 (op) Number *)
Definition num_add_f (a : number) (r : T) : number :=
  match a with NF f => NF (nadd f r) | ND d => ND (dadd_f d r) | ND2 d => ND2 (d2add_f d r) end.
Definition num_sub_f (a : number) (r : T) : number :=
  match a with NF f => NF (nsub f r) | ND d => ND (dsub_f d r) | ND2 d => ND2 (d2sub_f d r) end.
Definition f_sub_num (r : T) (a : number) : number :=
  match a with NF f => NF (nsub r f) | ND d => ND (fsub_d r d) | ND2 d => ND2 (fsub_d2 r d) end.
Definition num_mul_f (a : number) (r : T) : number :=
  match a with NF f => NF (nmul f r) | ND d => ND (dmul_f d r) | ND2 d => ND2 (d2mul_f d r) end.
Definition num_div_f (a : number) (r : T) : number :=
  match a with NF f => NF (ndiv f r) | ND d => ND (ddiv_f d r) | ND2 d => ND2 (d2div_f d r) end.
Definition f_div_num (r : T) (a : number) : number :=
  match a with NF f => NF (ndiv r f) | ND d => ND (fdiv_d r d) | ND2 d => ND2 (fdiv_d2 r d) end.
Definition num_rem_f (a : number) (r : T) : number :=
  match a with NF f => NF (nrem f r) | ND d => ND (drem_f d r) | ND2 d => ND2 (d2rem_f d r) end.
Definition f_rem_num (r : T) (a : number) : number :=
  match a with NF f => NF (nrem r f) | ND d => ND (frem_d r d) | ND2 d => ND2 (frem_d2 r d) end.
(* unary *)
Definition num_un (ff : T -> T) (fd : dual T -> dual T) (fd2 : dual2 T -> dual2 T) (a : number) : number :=
  match a with NF f => NF (ff f) | ND d => ND (fd d) | ND2 d => ND2 (fd2 d) end.
Definition num_neg := num_un nneg dneg d2neg.
Definition num_neg_ref := num_un nneg dneg_ref d2neg_ref.
Definition num_pow (a : number) (pw : T) : number :=
  num_un (fun f => npow f pw) (fun d => dpow d pw) (fun d => d2pow d pw) a.
Definition num_exp := num_un nexp dexp d2exp.
Definition num_log := num_un nln dlog d2log.
Definition num_ncdf := num_un ncdf dncdf d2ncdf.
Definition num_nicdf := num_un nicdf dnicdf d2nicdf.
Definition num_abs := num_un nabs dabs d2abs.
Definition num_signum := num_un nsignum dsignum d2signum.
(* Signed::abs_sub for Number signed.rs:101-121: the nine-arm table; a float operand next to a dual one is
   promoted to a variable-free number of that kind (a fresh Arc: never shared) *)
Definition num_abs_sub := num_bin fabs_sub
  (fun f d => dabs_sub false (dual_new f []) d) (fun d f => dabs_sub false d (dual_new f []))
  dabs_sub
  (fun f d => d2abs_sub false (dual2_new f []) d) (fun d f => d2abs_sub false d (dual2_new f []))
  d2abs_sub.
(* From<f64> / From<&f64> / From<Dual> / From<&Dual> / From<Dual2> / From<&Dual2> for Number from.rs:151-185 *)
Definition num_of_f (f : T) : number := NF f.
Definition num_of_dual (d : dual T) : number := ND d.
Definition num_of_dual2 (d : dual2 T) : number := ND2 d.
Definition num_zero : number := NF n0.
Definition num_one : number := NF n1.
(* Sum for Number: fold from F64(0.0) with + *)
Fixpoint num_sum_from (acc : outcome number) (l : list number) : outcome number :=
  match l with
  | [] => acc
  | x :: r => num_sum_from (do a <- acc; num_add false a x) r
  end.
Definition num_sum (l : list number) : outcome number := num_sum_from (Ok num_zero) l.
(* comparisons: eq.rs / ord.rs *)
Definition num_eqb (p : bool) (a b : number) : outcome bool :=
  match a, b with
  | NF f, NF g => Ok (neqb f g)
  | NF f, ND d => Ok (deqb_f d f)
  | NF f, ND2 d => Ok (d2eqb_f d f)
  | ND d, NF g => Ok (deqb_f d g)
  | ND d, ND e => Ok (deqb p d e)
  | ND _, ND2 _ => Panic
  | ND2 d, NF g => Ok (d2eqb_f d g)
  | ND2 _, ND _ => Panic
  | ND2 d, ND2 e => Ok (d2eqb p d e)
  end.
Definition num_eqb_f (a : number) (r : T) : bool :=
  match a with NF f => neqb f r | ND d => deqb_f d r | ND2 d => d2eqb_f d r end.
Definition num_cmp (cmp : T -> T -> bool) (a b : number) : outcome bool :=
  match a, b with
  | ND _, ND2 _ => Panic
  | ND2 _, ND _ => Panic
  | _, _ => Ok (cmp (num_real a) (num_real b))
  end.
Definition num_ltb := num_cmp nltb.
Definition num_leb := num_cmp nleb.
Definition num_is_zero (a : number) : bool :=
  match a with NF f => neqb f n0 | ND d => dis_zero d | ND2 d => d2is_zero d end.

End Number.
Arguments number T : clear implicits.
