(* Model of rust/fx/rates/{ccy,fxpair,fxrate,mod}.rs.  Executable definitions only.

   * currencies are `name`s (lists of code points).  Ccy::try_new lower-cases and requires a BYTE
     length of 3: modelled with ASCII lower-casing + UTF-8 byte length (non-ASCII cased letters
     are outside the modelled domain; the generators never produce them).
   * NumberArray2 is the three-armed enum `numarr`; the triangulation `fill`
     (mut_arrays_remaining_elements) is written once, generic in the element operations `fxops`
     (one, zero, &a * &b, 1.0 / &a), exactly as the Rust generic is instantiated at f64/Dual/Dual2.
   * `edges` is the i16 count matrix (entries are only ever 0/1).  The harness is built with
     overflow-checks, so an i16 sum above 32767 aborts: `Panic`.  `(n*n) as i16` wraps.
   * recursion = fuel; exhaustion = Panic.  fx_try_new supplies `fill_fuel n`, which
     Proofs/FXP.v shows is never exhausted (whatever the input).
   * HashSet `prev_value` = duplicate-free list (the inserted node is never a member).
   * Arc::ptr_eq is not observable: the dual operators are called with p = false (value comparison
     of the variable lists), which computes the same result whenever the Arcs are equal. *)
From Coq Require Import ZArith List Bool.
From RL Require Import Base.Num Base.Str Base.Outcome Model.Dual Model.Number.
Import ListNotations.

(* ------------------------------------------------------------------ ccy.rs *)
Definition ascii_lower (c : Z) : Z := if (Z.leb 65 c && Z.leb c 90)%bool then (c + 32)%Z else c.
Definition utf8_len (c : Z) : Z :=
  if Z.ltb c 128 then 1%Z else if Z.ltb c 2048 then 2%Z else if Z.ltb c 65536 then 3%Z else 4%Z.
Definition str_bytes (s : name) : Z := fold_right (fun c acc => (utf8_len c + acc)%Z) 0%Z s.
(* str::to_lowercase on the code points that matter for a 3-byte test: ASCII upper case, and the non-ASCII code points
   whose lower case has ANOTHER UTF-8 length (U+212A KELVIN SIGN, 3 bytes -> k, 1 byte; U+0130, 2 bytes -> i U+0307, 3 bytes;
   U+1E9E CAPITAL SHARP S, 3 bytes -> U+00DF, 2 bytes).  Every other code point is left as it is (the generators use no
   other cased non-ASCII letter). *)
Definition ccy_lower_cp (c : Z) : list Z :=
  if (Z.leb 65 c && Z.leb c 90)%bool then [(c + 32)%Z]
  else if Z.eqb c 8490 then [107%Z]
  else if Z.eqb c 304 then [105%Z; 775%Z]
  else if Z.eqb c 7838 then [223%Z]
  else [c].
Definition ccy_lower (s : name) : name := flat_map ccy_lower_cp s.
(* Ccy::try_new: the length test is on the LOWER-CASED string, which is what is stored *)
Definition ccy_try_new (s : name) : outcome name :=
  let c := ccy_lower s in
  if Z.eqb (str_bytes c) 3 then Ok c else Err.

(* ------------------------------------------------------------------ fxpair.rs *)
Record fxpair := mkPair { p0 : name; p1 : name }.
Definition pair_eqb (a b : fxpair) : bool := name_eqb (p0 a) (p0 b) && name_eqb (p1 a) (p1 b).
Definition fxpair_try_new (lhs rhs : name) : outcome fxpair :=
  do l <- ccy_try_new lhs;
  do r <- ccy_try_new rhs;
  if name_eqb l r then Err else Ok (mkPair l r).
(* Display: "{}{}" *)
Definition pair_name (p : fxpair) : name := p0 p ++ p1 p.
(* "fx_" *)
Definition fx_prefix : name := [102; 120; 95]%Z.
Definition fx_var (p : fxpair) : name := fx_prefix ++ pair_name p.

(* ------------------------------------------------------------------ matrices (ndarray Array2) *)
Section Mat.
  Context {A : Type}.
  Definition mat := list (list A).
  Definition mget (d : A) (m : list (list A)) (i j : nat) : A := nth j (nth i m []) d.
  Fixpoint lset {X} (l : list X) (i : nat) (x : X) : list X :=
    match l, i with
    | [], _ => []
    | _ :: r, O => x :: r
    | y :: r, S k => y :: lset r k x
    end.
  Definition mset (m : list (list A)) (i j : nat) (x : A) : list (list A) :=
    lset m i (lset (nth i m []) j x).
  (* Array2::eye *)
  Definition eye (one zero : A) (n : nat) : list (list A) :=
    map (fun i => map (fun j => if Nat.eqb i j then one else zero) (seq 0 n)) (seq 0 n).
End Mat.

(* element operations used by the generic code: One, Zero, &T * &T, f64(1.0) / &T *)
Record fxops (A : Type) := mkOps { fone : A; fzero : A; fmul : A -> A -> A; finv : A -> A }.
Arguments fone {A}. Arguments fzero {A}. Arguments fmul {A}. Arguments finv {A}.

(* ------------------------------------------------------------------ i16 *)
Definition i16_wrap (z : Z) : Z := ((z + 32768) mod 65536 - 32768)%Z.        (* `as i16` *)
Definition zsum (l : list Z) : Z := fold_right Z.add 0%Z l.
Definition msum (e : list (list Z)) : Z := zsum (map zsum e).

(* itertools combinations(2): lexicographic in positions *)
Fixpoint pairs2 {X} (l : list X) : list (X * X) :=
  match l with
  | [] => []
  | x :: r => map (fun y => (x, y)) r ++ pairs2 r
  end.

(* Iterator::max_by_key: the LAST maximal element *)
Definition max_by_key_last (l : list (Z * nat)) : option (Z * nat) :=
  fold_left (fun best c =>
               match best with
               | None => Some c
               | Some b => if Z.ltb (fst c) (fst b) then best else Some c
               end) l None.

Section Fill.
  Context {A : Type} (ops : fxops A).

  (* create_initial_edges mod.rs:231-240 *)
  Fixpoint init_edges_go (cs : list name) (pairs : list fxpair) (e : list (list Z)) : outcome (list (list Z)) :=
    match pairs with
    | [] => Ok e
    | p :: r =>
        match index_of (p0 p) cs, index_of (p1 p) cs with
        | Some row, Some col => init_edges_go cs r (mset (mset e row col 1%Z) col row 1%Z)
        | _, _ => Panic                                    (* get_index_of(..).unwrap() *)
        end
    end.
  Definition init_edges (cs : list name) (pairs : list fxpair) : outcome (list (list Z)) :=
    init_edges_go cs pairs (eye 1%Z 0%Z (length cs)).

  (* create_initial_fx_array mod.rs:245-264 *)
  Fixpoint init_arr_go (cs : list name) (pairs : list fxpair) (rates : list A) (arr : list (list A))
    : outcome (list (list A)) :=
    match pairs, rates with
    | [], _ => Ok arr
    | p :: ps, x :: xs =>
        match index_of (p0 p) cs, index_of (p1 p) cs with
        | Some row, Some col =>
            let a1 := mset arr row col x in
            init_arr_go cs ps xs (mset a1 col row (finv ops (mget (fzero ops) a1 row col)))
        | _, _ => Panic
        end
    | _ :: _, [] => Panic                                  (* fx_rates[i] out of bounds; excluded by the assert *)
    end.
  Definition init_arr (cs : list name) (pairs : list fxpair) (rates : list A) : outcome (list (list A)) :=
    if negb (Nat.eqb (length pairs) (length rates)) then Panic      (* assert_eq! *)
    else init_arr_go cs pairs rates (eye (fone ops) (fzero ops) (length cs)).

  (* one populated combination, mod.rs:324-330 *)
  Definition apply_combo (node : nat) (st : list (list A) * list (list Z)) (c : nat * nat)
    : list (list A) * list (list Z) :=
    let '(arr, e) := st in
    let '(a, b) := c in
    let e1 := mset (mset e a b 1%Z) b a 1%Z in
    let arr1 := mset arr a b (fmul ops (mget (fzero ops) arr a node) (mget (fzero ops) arr node b)) in
    let arr2 := mset arr1 b a (finv ops (mget (fzero ops) arr1 a b)) in
    (arr2, e1).

  Definition neighbours (e : list (list Z)) (node : nat) : list nat :=
    filter (fun i => Z.eqb (mget 0%Z e node i) 1 && negb (Nat.eqb i node)) (seq 0 (length e)).
  Definition combos (e : list (list Z)) (node : nat) : list (nat * nat) :=
    filter (fun c => Z.eqb (mget 0%Z e (fst c) (snd c)) 0) (pairs2 (neighbours e node)).
  Definition candidates (e : list (list Z)) (prev : list nat) : list (Z * nat) :=
    filter (fun c => negb (existsb (Nat.eqb (snd c)) prev))
           (combine (map zsum e) (seq 0 (length e))).

  (* mut_arrays_remaining_elements mod.rs:266-347 *)
  Fixpoint fill (fuel : nat) (arr : list (list A)) (e : list (list Z)) (prev : list nat)
    : outcome (list (list A) * list (list Z)) :=
    match fuel with
    | O => Panic
    | S k =>
        let n := length e in
        let total := msum e in
        if Z.ltb 32767 total then Panic                    (* i16 overflow in edges.sum() *)
        else if Z.eqb total (i16_wrap (Z.of_nat (n * n))) then Ok (arr, e)
        else
          match max_by_key_last (candidates e prev) with
          | None => Err
          | Some (_, node) =>
              let cs := combos e node in
              match cs with
              | [] => fill k arr e (node :: prev)
              | _ :: _ =>
                  let '(arr', e') := fold_left (apply_combo node) cs (arr, e) in
                  fill k arr' e' [node]
              end
          end
    end.

  Definition fill_fuel (n : nat) : nat := S (n * n) * S n.
End Fill.

Section FX.
Context {T : Type} `{Num T}.

Record fxrate := mkRate { pair : fxpair; rate : number T; settlement : option Z }.
Definition fxrate_try_new (lhs rhs : name) (r : number T) (s : option Z) : outcome fxrate :=
  do p <- fxpair_try_new lhs rhs; Ok (mkRate p r s).

Inductive numarr :=
| AF (m : list (list T))
| AD (m : list (list (dual T)))
| AD2 (m : list (list (dual2 T))).

Record fxrates := mkFX { fx_rates : list fxrate; currencies : list name; fx_array : numarr }.

Definition ops_f : fxops T := mkOps T n1 n0 nmul (fun x => ndiv n1 x).
Definition ops_d : fxops (dual T) := mkOps (dual T) done dzero (dmul false) (fun x => fdiv_d n1 x).
Definition ops_d2 : fxops (dual2 T) := mkOps (dual2 T) d2one d2zero (d2mul false) (fun x => fdiv_d2 n1 x).

(* create_fx_array mod.rs:350-398 *)
Definition lifted_rates (qs : list fxrate) (ad : adorder) : list (number T) :=
  map (fun x => set_order_clone (rate x) ad [fx_var (pair x)]) qs.
Definition create_fx_array (cs : list name) (qs : list fxrate) (ad : adorder) : outcome numarr :=
  let pairs := map pair qs in
  do edges <- init_edges cs pairs;
  let lifted := lifted_rates qs ad in
  let fuel := fill_fuel (length cs) in
  match ad with
  | OZero => do arr <- init_arr ops_f cs pairs (map num_to_f lifted);
             do r <- fill ops_f fuel arr edges []; Ok (AF (fst r))
  | OOne => do arr <- init_arr ops_d cs pairs (map num_to_dual lifted);
            do r <- fill ops_d fuel arr edges []; Ok (AD (fst r))
  | OTwo => do arr <- init_arr ops_d2 cs pairs (map num_to_dual2 lifted);
            do r <- fill ops_d2 fuel arr edges []; Ok (AD2 (fst r))
  end.

(* the IndexSet built in try_new: base first, then pair members in quote order *)
Definition ccy_index (qs : list fxrate) (base : option name) : list name :=
  dedup ((match base with Some b => [b] | None => [] end)
           ++ flat_map (fun q => [p0 (pair q); p1 (pair q)]) qs).

Definition settlement_consistent (qs : list fxrate) : bool :=
  match qs with
  | [] => true
  | q :: _ =>
      match settlement q with
      | Some date => forallb (fun d => match settlement d with Some v => Z.eqb v date | None => false end) qs
      | None => forallb (fun d => match settlement d with Some _ => false | None => true end) qs
      end
  end.

(* FXRates::try_new mod.rs:51-117 *)
Definition fx_try_new (qs : list fxrate) (base : option name) : outcome fxrates :=
  match qs with
  | [] => Err
  | _ :: _ =>
      let cs := ccy_index qs base in
      let q := length cs in
      if Nat.ltb (length qs + 1) q then Err
      else if Nat.ltb q (length qs + 1) then Err
      else if negb (settlement_consistent qs) then Err
      else do arr <- create_fx_array cs qs OOne; Ok (mkFX qs cs arr)
  end.

(* FXRates::rate mod.rs:123-131 (the array is |currencies| x |currencies| by construction) *)
Definition arr_get (a : numarr) (i j : nat) : number T :=
  match a with
  | AF m => NF (mget n0 m i j)
  | AD m => ND (mget dzero m i j)
  | AD2 m => ND2 (mget d2zero m i j)
  end.
Definition fx_rate (s : fxrates) (lhs rhs : name) : option (number T) :=
  match index_of lhs (currencies s), index_of rhs (currencies s) with
  | Some i, Some j => Some (arr_get (fx_array s) i j)
  | _, _ => None
  end.

(* FXRates::update mod.rs:133-159 *)
Definition last_match_idx (p : fxpair) (l : list fxrate) : nat :=
  fold_left (fun a iv => if pair_eqb p (pair (snd iv)) then fst iv else a)
            (combine (seq 0 (length l)) l) 0%nat.
Fixpoint replace_quotes (cur : list fxrate) (upd : list fxrate) : outcome (list fxrate) :=
  match upd with
  | [] => Ok cur
  | fxr :: r =>
      let idx := last_match_idx (pair fxr) cur in
      if Nat.ltb idx (length cur) then replace_quotes (lset cur idx fxr) r
      else Panic                                           (* fx_rates_[idx] out of bounds *)
  end.
Definition fx_update (s : fxrates) (upd : list fxrate) : outcome fxrates :=
  if negb (forallb (fun v => existsb (fun x => pair_eqb (pair x) (pair v)) (fx_rates s)) upd) then Err
  else
    do qs <- replace_quotes (fx_rates s) upd;
    match currencies s with
    | [] => Panic                                          (* self.currencies[0] *)
    | b :: _ => fx_try_new qs (Some b)
    end.

(* FXRates::set_ad_order mod.rs:161-227 *)
Definition fx_set_ad_order (s : fxrates) (ad : adorder) : outcome fxrates :=
  let rebuild o := do a <- create_fx_array (currencies s) (fx_rates s) o;
                   Ok (mkFX (fx_rates s) (currencies s) a) in
  match ad, fx_array s with
  | OZero, AF _ | OOne, AD _ | OTwo, AD2 _ => Ok s
  | OOne, AF _ => rebuild OOne
  | OTwo, AF _ => rebuild OTwo
  | OOne, AD2 m => Ok (mkFX (fx_rates s) (currencies s) (AD (map (map dual_of_dual2) m)))
  | OZero, AD m => Ok (mkFX (fx_rates s) (currencies s) (AF (map (map re) m)))
  | OZero, AD2 m => Ok (mkFX (fx_rates s) (currencies s) (AF (map (map re2) m)))
  | OTwo, AD _ => rebuild OTwo
  end.

(* histories *)
Inductive fxop := OpUpdate (upd : list fxrate) | OpSetOrder (ad : adorder).
(* a returned error leaves the object untouched (all assignments come after the `?`) *)
Definition fx_step (s : fxrates) (o : fxop) : fxrates * outcome unit :=
  let r := match o with OpUpdate u => fx_update s u | OpSetOrder ad => fx_set_ad_order s ad end in
  match r with
  | Ok s' => (s', Ok tt)
  | Err => (s, Err)
  | Panic => (s, Panic)
  end.
Definition fx_run (s : fxrates) (ops : list fxop) : fxrates := fold_left (fun st o => fst (fx_step st o)) ops s.

End FX.
Arguments fxrate T : clear implicits.
Arguments fxrates T : clear implicits.
Arguments numarr T : clear implicits.
Arguments fxop T : clear implicits.
