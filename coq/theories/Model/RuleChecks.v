(* The checks of the generated tables (Gen/) against the published rules (Model/Rules.v) that are evaluated by
   vm_compute in Proofs/RulesP_*.v and lifted to quantified statements in Proofs/RulesP.v.  Executable definitions only. *)
From Coq Require Import ZArith List Bool String.
From RL Require Import Base.Outcome Model.Dates Model.Calendar Model.Named Model.Rules Gen.NamedTables Gen.NameWiring
  Gen.DocNames Gen.Fixings.
Import ListNotations.
Open Scope Z_scope.

(* ---------- the checks that are evaluated (vm_compute) against the generated tables ---------- *)
Definition by_name (n : string) : outcome cal := get_calendar_by_name (str_of_string n).
Definition is_wd5 (d : Z) : bool := weekday d <? 5.

(* Evaluation in windows: `forall d in a..b, Q s d` where s is the start of the 1024-day window containing d.
   Q s is evaluated once per window (it restricts the tables to the window, so that the per-date look-ups are short);
   Proofs/RulesP.v lifts `forall_chunked a b Q = true` to every date of a..b and removes the restriction again. *)
Definition chunk_len : Z := 1024.
Definition within (d0 cnt h : Z) : bool := (d0 <=? h) && (h <? d0 + cnt).
Definition restrict (c : cal) (d0 cnt : Z) : cal := mkCal (c_mask c) (filter (within d0 cnt) (c_hols c)).
Definition forall_chunked (a b : Z) (Q : Z -> Z -> bool) : bool :=
  forallb (fun k => let s := a + k * chunk_len in let q := Q s in
             forallb (fun d => if d <=? b then q d else true) (cal_range_f (Z.to_nat chunk_len) s))
          (cal_range_f (Z.to_nat ((b - a) / chunk_len + 1)) 0).

Definition mask_is_sat_sun (c : cal) : bool :=
  forallb (fun v => zmem v [5; 6]) (c_mask c) && forallb (fun v => zmem v (c_mask c)) [5; 6].

(* a fully published calendar: the name resolves, the week mask is Sat+Sun, and on every weekday of
   1970-2200 the table says holiday exactly when the rules do *)
Definition full_agree (c : cal) (rs : list hrule) (d : Z) : bool :=
  if is_wd5 d then Bool.eqb (cal_is_holiday c d) (rules_hit rs d) else true.
Definition full_check (nr : string * list hrule) : bool :=
  match by_name (fst nr) with
  | Ok c => mask_is_sat_sun c &&
            forall_chunked d1970 d2200 (fun s => let c' := restrict c s chunk_len in full_agree c' (snd nr))
  | _ => false
  end.
(* a partially published calendar: every weekday hit by a documented rule is a holiday *)
Definition partial_agree (c : cal) (rs : list hrule) (d : Z) : bool :=
  if is_wd5 d then (if rules_hit rs d then cal_is_holiday c d else true) else true.
Definition partial_check (nr : string * list hrule) : bool :=
  match by_name (fst nr) with
  | Ok c => mask_is_sat_sun c &&
            forall_chunked d1970 d2200 (fun s => let c' := restrict c s chunk_len in partial_agree c' (snd nr))
  | _ => false
  end.
(* fed = nyc without Good Friday (the Friday before Easter Sunday of the computus) *)
Definition is_good_friday (d : Z) : bool := kind_hit good_friday (dctx_of d).
Definition fed_nyc_agree (f n : cal) (d : Z) : bool :=
  if is_wd5 d then Bool.eqb (cal_is_holiday f d) (cal_is_holiday n d && negb (is_good_friday d)) else true.
Definition fed_nyc_check : bool :=
  match by_name "fed", by_name "nyc" with
  | Ok f, Ok n => forall_chunked d1970 d2200 (fun s => let f' := restrict f s chunk_len in let n' := restrict n s chunk_len in
                                                        fed_nyc_agree f' n')
  | _, _ => false
  end.
(* 'all' and 'bus' *)
Definition all_bus_check : bool :=
  match by_name "all", by_name "bus" with
  | Ok a, Ok b => match c_hols a, c_mask a, c_hols b with [], [], [] => true | _, _, _ => false end && mask_is_sat_sun b
  | _, _ => false
  end.
(* documented names resolve *)
Definition resolves (n : string) : bool := is_ok (by_name n).
Definition doc_names_check : bool := forallb resolves doc_names.
(* fixing histories: between the first and the last publication date the business days are the publication dates *)
Definition zmin_list (l : list Z) : Z := fold_right Z.min (hd 0 l) l.
Definition zmax_list (l : list Z) : Z := fold_right Z.max (hd 0 l) l.
Definition fix_agree (c : cal) (fx : list Z) (d : Z) : bool := Bool.eqb (cal_is_bus c d) (zmem d fx).
Definition fix_check (p : string * (string * list Z)) : bool :=
  let '(_, (nm, fx)) := p in
  match by_name nm with
  | Ok c => negb (match fx with [] => true | _ => false end) &&
            forall_chunked (zmin_list fx) (zmax_list fx)
              (fun s => let c' := restrict c s chunk_len in let fx' := filter (within s chunk_len) fx in fix_agree c' fx')
  | _ => false
  end.
