(* Expression language over the operator VARIANTS of rust/dual/dual_ops/*.rs (dual∘dual, dual∘float,
   float∘dual, owned/borrowed negation and power), with plain evaluation and evaluation on Dual
   and Dual2.  Polymorphic in the numeric structure: the theorems use T := R, the correspondence
   executes T := float. *)
From Coq Require Import ZArith List Bool.
From RL Require Import Base.Num Base.Str Base.Outcome Model.Dual.
Import ListNotations.

Definition same_vars (xs ys : list name) : bool :=
  Nat.eqb (length xs) (length ys) && names_zip_all xs ys.

Section Expr.
Context {T : Type} `{Num T}.

Inductive expr :=
| Var (v : name)                       (* Dual::new(rho v, [v]) *)
| Cst (r : T)                          (* Dual::new(r, [])  — a float promoted to a constant *)
| Add (a b : expr) | AddF (a : expr) (r : T) | FAdd (r : T) (a : expr)
| Sub (a b : expr) | SubF (a : expr) (r : T) | FSub (r : T) (a : expr)
| Mul (a b : expr) | MulF (a : expr) (r : T) | FMul (r : T) (a : expr)
| Div (a b : expr) | DivF (a : expr) (r : T) | FDiv (r : T) (a : expr)
| Neg (a : expr) | NegRef (a : expr)
| Pow (a : expr) (p : T) | PowRef (a : expr) (p : T)
| Exp (a : expr) | Log (a : expr) | Ncdf (a : expr) | Nicdf (a : expr) | Abs (a : expr).

Definition env := name -> T.

(* plain evaluation *)
Fixpoint evalT (e : expr) (rho : env) : T :=
  match e with
  | Var v => rho v
  | Cst r => r
  | Add a b => nadd (evalT a rho) (evalT b rho)
  | AddF a r => nadd (evalT a rho) r | FAdd r a => nadd r (evalT a rho)
  | Sub a b => nsub (evalT a rho) (evalT b rho)
  | SubF a r => nsub (evalT a rho) r | FSub r a => nsub r (evalT a rho)
  | Mul a b => nmul (evalT a rho) (evalT b rho)
  | MulF a r => nmul (evalT a rho) r | FMul r a => nmul r (evalT a rho)
  | Div a b => ndiv (evalT a rho) (evalT b rho)
  | DivF a r => ndiv (evalT a rho) r | FDiv r a => ndiv r (evalT a rho)
  | Neg a | NegRef a => nneg (evalT a rho)
  | Pow a p | PowRef a p => npow (evalT a rho) p
  | Exp a => nexp (evalT a rho)
  | Log a => nln (evalT a rho)
  | Ncdf a => ncdf (evalT a rho)
  | Nicdf a => nicdf (evalT a rho)
  | Abs a => nabs (evalT a rho)
  end.

(* `sh` = "operands with identical variable lists share their Arc" (either is a possible
   execution; the theorems hold for both) *)
Variable sh : bool.
Definition psh (xs ys : list name) : bool := sh && same_vars xs ys.

Fixpoint evalDual (e : expr) (rho : env) : dual T :=
  match e with
  | Var v => dual_new (rho v) [v]
  | Cst r => dual_new r []
  | Add a b => let x := evalDual a rho in let y := evalDual b rho in dadd (psh (vs x) (vs y)) x y
  | AddF a r | FAdd r a => dadd_f (evalDual a rho) r
  | Sub a b => let x := evalDual a rho in let y := evalDual b rho in dsub (psh (vs x) (vs y)) x y
  | SubF a r => dsub_f (evalDual a rho) r
  | FSub r a => fsub_d r (evalDual a rho)
  | Mul a b => let x := evalDual a rho in let y := evalDual b rho in dmul (psh (vs x) (vs y)) x y
  | MulF a r | FMul r a => dmul_f (evalDual a rho) r
  | Div a b => let x := evalDual a rho in let y := evalDual b rho in ddiv (psh (vs x) (vs y)) x y
  | DivF a r => ddiv_f (evalDual a rho) r
  | FDiv r a => fdiv_d r (evalDual a rho)
  | Neg a => dneg (evalDual a rho)
  | NegRef a => dneg_ref (evalDual a rho)
  | Pow a p => dpow (evalDual a rho) p
  | PowRef a p => dpow_ref (evalDual a rho) p
  | Exp a => dexp (evalDual a rho)
  | Log a => dlog (evalDual a rho)
  | Ncdf a => dncdf (evalDual a rho)
  | Nicdf a => dnicdf (evalDual a rho)
  | Abs a => dabs (evalDual a rho)
  end.

Fixpoint evalDual2 (e : expr) (rho : env) : dual2 T :=
  match e with
  | Var v => dual2_new (rho v) [v]
  | Cst r => dual2_new r []
  | Add a b => let x := evalDual2 a rho in let y := evalDual2 b rho in d2add (psh (vs2 x) (vs2 y)) x y
  | AddF a r | FAdd r a => d2add_f (evalDual2 a rho) r
  | Sub a b => let x := evalDual2 a rho in let y := evalDual2 b rho in d2sub (psh (vs2 x) (vs2 y)) x y
  | SubF a r => d2sub_f (evalDual2 a rho) r
  | FSub r a => fsub_d2 r (evalDual2 a rho)
  | Mul a b => let x := evalDual2 a rho in let y := evalDual2 b rho in d2mul (psh (vs2 x) (vs2 y)) x y
  | MulF a r | FMul r a => d2mul_f (evalDual2 a rho) r
  | Div a b => let x := evalDual2 a rho in let y := evalDual2 b rho in d2div (psh (vs2 x) (vs2 y)) x y
  | DivF a r => d2div_f (evalDual2 a rho) r
  | FDiv r a => fdiv_d2 r (evalDual2 a rho)
  | Neg a => d2neg (evalDual2 a rho)
  | NegRef a => d2neg_ref (evalDual2 a rho)
  | Pow a p => d2pow (evalDual2 a rho) p
  | PowRef a p => d2pow_ref (evalDual2 a rho) p
  | Exp a => d2exp (evalDual2 a rho)
  | Log a => d2log (evalDual2 a rho)
  | Ncdf a => d2ncdf (evalDual2 a rho)
  | Nicdf a => d2nicdf (evalDual2 a rho)
  | Abs a => d2abs (evalDual2 a rho)
  end.
End Expr.
Arguments expr T : clear implicits.
Arguments env T : clear implicits.
