(* C09 — An FX market built from n-1 quotes is complete and arbitrage-free.
   Code: rust/fx/rates/mod.rs (FXRates::try_new, create_initial_edges, create_initial_fx_array,
   mut_arrays_remaining_elements, rate).  Model: Model/FX.v.  Number type: R (Base/NumR.v).

   Vocabulary
     tree_quotes cs qs   : qs connects the currencies cs as a tree (start from one currency, attach
                           one new currency per quote, either orientation, any order of the list);
     qpath qs a b steps  : steps is a walk a -> b through quotes of qs, each step flagged
                           true (travelled base -> quoted) or false (backwards);
     Rpath_prod steps    : product of the quoted values along the walk, inverted when backwards;
     rate_val fx a b     : the real value of FXRates::rate(a, b);
     qconnected cs qs    : every two currencies of cs are joined by quotes of qs.
   The bound `length cs <= 181` is the code's own: the stop test compares an i16 sum with n*n. *)
From Coq Require Import Reals ZArith List Bool Permutation Lra.
From RL Require Import Base.Num Base.Str Base.NumR Base.Outcome Model.Dual Model.Number Model.FX
  Proofs.FXMat Proofs.FXFill Proofs.FXTree Proofs.FXCreate Proofs.FXP Proofs.FXAcc Proofs.FXReload.
Import ListNotations.
Local Open Scope R_scope.

(* triangulation never writes a wrong number: if the populated entries are ratios of a potential
   before, they are after — for ANY fuel, any size, any edge set, any visited set *)
Theorem C09_safety : forall (n : nat) (v : nat -> R), (forall i, v i <> 0) ->
  forall fuel arr e prev arr' e',
    einv n e -> sq n arr ->
    (forall i j, (i < n)%nat -> (j < n)%nat -> adj e i j -> mget 0 arr i j = v i / v j) ->
    fill ops_f fuel arr e prev = Ok (arr', e') ->
    forall i j, (i < n)%nat -> (j < n)%nat -> adj e' i j -> mget 0 arr' i j = v i / v j.
Proof. exact fill_safety_R. Qed.

(* market level: ANY accepted quote list that is consistent with a potential (not only trees)
   yields exactly the ratios of that potential: no arbitrage *)
Theorem C09_arbitrage_free : forall (qs : list (fxrate R)) base fx (v : name -> R),
  (length (ccy_index qs base) <= 181)%nat ->
  (forall c, v c <> 0) -> (forall q, In q qs -> qval q = v (q0 q) * / v (q1 q)) ->
  fx_try_new qs base = Ok fx ->
  fx_rates fx = qs /\ currencies fx = ccy_index qs base /\
  forall a b, In a (currencies fx) -> In b (currencies fx) ->
    exists d, fx_rate fx a b = Some (ND d) /\ re d = v a * / v b.
Proof. intros qs base fx v Hn U P. apply try_new_values; [exact Hn|split; assumption]. Qed.

(* tree-shaped quote sets are accepted, the currency index is base first then quote order, and
   all n*n crosses are available (and non-zero) *)
Theorem C09_complete : forall cs (qs : list (fxrate R)) base,
  tree_quotes cs qs -> qs <> [] -> base_ok cs base -> settlement_consistent qs = true ->
  (length cs <= 181)%nat -> quotes_nonzero qs ->
  exists fx, fx_try_new qs base = Ok fx /\ fx_rates fx = qs /\ currencies fx = ccy_index qs base /\
    Permutation (currencies fx) cs /\
    (forall a b, In a cs -> In b cs -> exists d, fx_rate fx a b = Some (ND d) /\ re d <> 0).
Proof. exact market_complete. Qed.

(* any cross equals the product of the quotes along ANY walk between the two currencies, inverted
   where travelled backwards *)
Theorem C09_path : forall cs (qs : list (fxrate R)) base fx,
  tree_quotes cs qs -> base_ok cs base -> (length cs <= 181)%nat -> quotes_nonzero qs ->
  fx_try_new qs base = Ok fx ->
  forall a b steps, In a cs -> qpath qs a b steps -> rate_val fx a b = Rpath_prod steps.
Proof. exact market_path. Qed.

Theorem C09_quoted_as_quoted : forall cs (qs : list (fxrate R)) base fx,
  tree_quotes cs qs -> base_ok cs base -> (length cs <= 181)%nat -> quotes_nonzero qs ->
  fx_try_new qs base = Ok fx ->
  forall q, In q qs -> rate_val fx (q0 q) (q1 q) = qval q.
Proof. exact rate_quoted. Qed.

Theorem C09_self_is_one : forall cs (qs : list (fxrate R)) base fx,
  tree_quotes cs qs -> base_ok cs base -> (length cs <= 181)%nat -> quotes_nonzero qs ->
  fx_try_new qs base = Ok fx ->
  forall a, In a cs -> rate_val fx a a = 1.
Proof. exact rate_self. Qed.

Theorem C09_inverse : forall cs (qs : list (fxrate R)) base fx,
  tree_quotes cs qs -> base_ok cs base -> (length cs <= 181)%nat -> quotes_nonzero qs ->
  fx_try_new qs base = Ok fx ->
  forall a b, In a cs -> In b cs -> rate_val fx a b * rate_val fx b a = 1.
Proof. exact rate_inverse. Qed.

Theorem C09_order_and_base_free : forall cs (qs qs' : list (fxrate R)) base base' fx fx',
  tree_quotes cs qs -> Permutation qs qs' -> base_ok cs base -> base_ok cs base' ->
  (length cs <= 181)%nat -> quotes_nonzero qs ->
  fx_try_new qs base = Ok fx -> fx_try_new qs' base' = Ok fx' ->
  forall a b, In a cs -> In b cs -> rate_val fx a b = rate_val fx' a b.
Proof. exact rate_order_base_free. Qed.

(* under-/over-specified, mixed settlement dates, disconnected (hence, with n-1 quotes, cyclic)
   quote graphs: an error, never rates, never an abort *)
Theorem C09_rejects : forall (qs : list (fxrate R)) base,
  (length (ccy_index qs base) <> (length qs + 1)%nat \/
   settlement_consistent qs = false \/
   ((length (ccy_index qs base) <= 181)%nat /\ ~ qconnected (ccy_index qs base) qs)) ->
  fx_try_new qs base = Err.
Proof. exact try_new_rejects. Qed.

(* conversely, ONLY tree-shaped quote lists are ever accepted: a list that is not a tree over its
   currency index (cyclic, duplicated or inverse-duplicated pairs, several components, ...) is an error *)
Theorem C09_accepted_only_trees : forall (qs : list (fxrate R)) base fx,
  (length (ccy_index qs base) <= 181)%nat -> fx_try_new qs base = Ok fx ->
  tree_quotes (ccy_index qs base) qs.
Proof. exact accepted_is_tree. Qed.
Theorem C09_non_trees_rejected : forall (qs : list (fxrate R)) base,
  (length (ccy_index qs base) <= 181)%nat -> ~ tree_quotes (ccy_index qs base) qs -> fx_try_new qs base = Err.
Proof. exact non_tree_rejected. Qed.

(* the recursion budget the model supplies is never exhausted and no arithmetic overflows *)
Theorem C09_never_aborts : forall (qs : list (fxrate R)) base,
  (length (ccy_index qs base) <= 181)%nat -> fx_try_new qs base <> Panic.
Proof. exact try_new_no_panic. Qed.

(* THE MARKET RESTORED FROM ITS SAVED DOCUMENT.  The loader (impl TryFrom<FXRatesDataModel> for FXRates; Model/Json.v
   rebuild_fx) calls try_new again on the saved quotes with the FIRST SAVED CURRENCY as base.  Whatever base the market was
   built with, the rebuild succeeds, lists the same currencies in the same order, keeps the quotes, and returns the same
   rate for every pair. *)
Theorem C09_reloaded_market : forall cs (qs : list (fxrate R)) base fx,
  tree_quotes cs qs -> qs <> [] -> base_ok cs base -> settlement_consistent qs = true ->
  (length cs <= 181)%nat -> quotes_nonzero qs ->
  fx_try_new qs base = Ok fx ->
  exists fx', fx_try_new (fx_rates fx) (Some (hd [] (currencies fx))) = Ok fx' /\
    currencies fx' = currencies fx /\ fx_rates fx' = fx_rates fx /\
    forall a b, In a cs -> In b cs -> rate_val fx a b = rate_val fx' a b.
Proof. exact reload_same_market. Qed.

(* ------------------------------------------------------------------ non-vacuity *)
Definition usd : name := [117; 115; 100]%Z.
Definition eur : name := [101; 117; 114]%Z.
Definition jpy : name := [106; 112; 121]%Z.
Definition ex_q1 : fxrate R := mkRate (mkPair eur usd) (NF 2) None.
Definition ex_q2 : fxrate R := mkRate (mkPair jpy usd) (NF (/ 100)) None.

Example C09_hypotheses_satisfiable :
  tree_quotes [jpy; usd; eur] [ex_q2; ex_q1] /\ [ex_q2; ex_q1] <> [] /\
  base_ok [jpy; usd; eur] (Some usd) /\ settlement_consistent [ex_q2; ex_q1] = true /\
  (length [jpy; usd; eur] <= 181)%nat /\ quotes_nonzero [ex_q2; ex_q1] /\
  qpath [ex_q2; ex_q1] eur jpy [(ex_q1, true); (ex_q2, false)].
Proof.
  assert (T1 : tree_quotes [usd; eur] [ex_q1]).
  { change usd with (q1 ex_q1). apply tq_fwd; [constructor|left; reflexivity|].
    intros [C|[]]. discriminate C. }
  split.
  { change jpy with (q0 ex_q2). apply tq_bwd; [exact T1|left; reflexivity|].
    intros [C|[C|[]]]; discriminate C. }
  split; [discriminate|]. split; [right; left; reflexivity|]. split; [reflexivity|].
  split; [cbn; repeat constructor|]. split.
  { intros q [<-|[<-|[]]]; unfold qval; cbn; [apply Rinv_neq_0_compat|]; lra. }
  change eur with (q0 ex_q1). apply qp_fwd; [right; left; reflexivity|].
  change (q1 ex_q1) with (q1 ex_q2). apply qp_bwd; [left; reflexivity|]. apply qp_nil.
Qed.

Print Assumptions C09_safety.
Print Assumptions C09_arbitrage_free.
Print Assumptions C09_complete.
Print Assumptions C09_path.
Print Assumptions C09_quoted_as_quoted.
Print Assumptions C09_self_is_one.
Print Assumptions C09_inverse.
Print Assumptions C09_order_and_base_free.
Print Assumptions C09_rejects.
Print Assumptions C09_never_aborts.
Print Assumptions C09_accepted_only_trees.
Print Assumptions C09_non_trees_rejected.
