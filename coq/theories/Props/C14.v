(* C14 — B-spline basis: non-negative local partition of unity, correct derivatives.
   Property theorems only.  `bsplev` / `bspldnev` are the models of bsplev_single_f64 /
   bspldnev_single_f64 (Model/Spline.v) at T := R.

   Vocabulary (Proofs/SplineP.v, Proofs/SplinePoly.v):
     tn t i            the knot t_i (i in range; the last knot beyond the range)
     admissible k n t  order k >= 1, n >= k basis functions, n + k non-decreasing knots, right end
                       knot exactly k-fold.  Weaker than the class of the property
                       (`standard_knots`: k-fold knots at both ends, interior multiplicity < k),
                       see C14_standard_admissible; no bound on k, n or the multiplicities.
     in_span k n t j x t_j <= x < t_{j+1} with k-1 <= j <= n-1, or x = t_n and j = n-1 (the last
                       non-empty span).  Every x of the domain [t_{k-1}, t_n] lies in one
                       (C14_span_exists), interior knots and both end points included.
     P (tn t) j k i    the Cox-de Boor PIECE POLYNOMIAL of B_{i,k} on span j: Kronecker base case,
                       the usual two-term recursion with 0/0 := 0, no short-circuits.  Its ordinary
                       m-th derivative at x is the derivative of the piecewise polynomial B_{i,k}
                       taken from the right (from the left at the right end point). *)
From Coq Require Import Reals List Lra Lia.
From Coquelicot Require Import Coquelicot.
From RL Require Import Base.Outcome Base.Num Base.NumR Model.Spline Proofs.SplinePoly Proofs.SplineP.
Import ListNotations.
Open Scope R_scope.

Theorem C14_standard_admissible : forall k n t, standard_knots k n t -> admissible k n t.
Proof. exact standard_admissible. Qed.

Theorem C14_span_exists : forall k n t x, admissible k n t -> tn t (k - 1) <= x <= tn t n ->
  exists j, in_span k n t j x.
Proof. exact span_exists. Qed.

(* the value returned is the Cox-de Boor piece polynomial of the span containing x *)
Theorem C14_value : forall k n t j x i, admissible k n t -> in_span k n t j x -> (i < n)%nat ->
  bsplev x i k t None = Ok (P (tn t) j k i x).
Proof. exact bsplev_value. Qed.

(* vanishes outside its k knot spans (any x, inside the domain or not) *)
Theorem C14_support : forall k n t x i, admissible k n t -> (i < n)%nat ->
  x < tn t i \/ tn t (i + k) < x -> bsplev x i k t None = Ok 0.
Proof. exact bsplev_support. Qed.

(* ... and on every span other than its own k spans (x = t_{i+k} included: it belongs to span i+k) *)
Theorem C14_support_span : forall k n t j x i, admissible k n t -> in_span k n t j x -> (i < n)%nat ->
  ~ (i <= j < i + k)%nat -> bsplev x i k t None = Ok 0.
Proof. exact bsplev_support_span. Qed.

Theorem C14_nonneg : forall k n t x i, admissible k n t -> tn t (k - 1) <= x <= tn t n -> (i < n)%nat ->
  exists v, bsplev x i k t None = Ok v /\ 0 <= v.
Proof. exact bsplev_nonneg. Qed.

(* partition of unity over the whole domain, interior knots and the right end point included *)
Theorem C14_unity : forall k n t x, admissible k n t -> tn t (k - 1) <= x <= tn t n ->
  exists vs, bsplev_row x k t n = Ok vs /\ Rsum vs = 1.
Proof. exact bsplev_unity. Qed.

Theorem C14_high_m : forall (x : R) i k t m org, (1 <= k)%nat -> (k <= m)%nat ->
  bspldnev x i k t m org = Ok 0.
Proof. exact bspldnev_high. Qed.

(* the m-th derivative returned is the m-th derivative of the piece polynomial of the span of x *)
Theorem C14_deriv : forall k n t j x i m, admissible k n t -> in_span k n t j x -> (i < n)%nat ->
  exists v, bspldnev x i k t m None = Ok v /\ is_derive_n (P (tn t) j k i) m x v.
Proof. exact bspldnev_deriv. Qed.

(* an index outside the knot vector aborts, as the Rust slice index does *)
Theorem C14_index_panics : forall (x : R) i k t org, (length t <= i)%nat -> bsplev x i k t org = Panic.
Proof. exact bsplev_oob. Qed.

(* non-vacuity: a cubic knot vector with a double interior knot is admissible (and standard), and
   its domain points have spans *)
Example C14_nonvacuous :
  standard_knots 4 7 [0;0;0;0;1;2;2;3;3;3;3] /\ in_span 4 7 [0;0;0;0;1;2;2;3;3;3;3] 6 3
  /\ in_span 4 7 [0;0;0;0;1;2;2;3;3;3;3] 6 2.
Proof.
  split; [|split].
  - unfold standard_knots.
    split; [lia|]. split; [lia|]. split; [reflexivity|].
    split. { intros a Ha. cbn in Ha. do 10 (destruct a as [|a]; [cbn; lra|]). lia. }
    split. { intros a Ha. do 4 (destruct a as [|a]; [cbn; lra|]). lia. }
    split. { cbn. lra. }
    split. { intros a Ha. do 11 (destruct a as [|a]; [cbn; try lra; lia|]). lia. }
    split. { cbn. lra. }
    intros a H1 H2 _. do 4 (destruct a as [|a]; [lia|]). do 3 (destruct a as [|a]; [cbn; try lra; lia|]). lia.
  - split. cbn; lia. right. split; reflexivity.
  - split. cbn; lia. left. unfold tn. cbn. lra.
Qed.

Print Assumptions C14_standard_admissible.
Print Assumptions C14_span_exists.
Print Assumptions C14_value.
Print Assumptions C14_support.
Print Assumptions C14_support_span.
Print Assumptions C14_nonneg.
Print Assumptions C14_unity.
Print Assumptions C14_high_m.
Print Assumptions C14_deriv.
Print Assumptions C14_index_panics.
