(* C11 — Curve look-ups follow each interpolation rule at, between and beyond nodes.
   Property theorems only: each is closed by `exact <lemma>` and followed by Print Assumptions.
   Real-number statements (T := R).  `sortedF c m` = the curve's nodes are the float-valued list m,
   keys strictly increasing, at least two (what CurveDF::try_new produces from >= 2 nodes with
   distinct timestamps: C11_constructed).  Nodes are (timestamp, value); nth_error m i = the i-th
   node in date order. *)
From Coq Require Import Reals ZArith List Bool Sorting.Permutation Sorting.Sorted.
From RL Require Import Base.Num Base.Str Base.NumR Base.Outcome Model.Dual Model.Number Model.Curve Proofs.CurveP.
Import ListNotations.
Open Scope R_scope.

(* the interval used for a date is the one whose right end is the first node on or after it, clamped to
   the first and last intervals (index_left on integer timestamps, as used by node_index) *)
Theorem C11_index : forall (ks : list Z) (x : Z), StronglySorted Z.lt ks -> (2 <= length ks)%nat ->
  (exists j, (j <= length ks)%nat /\ (forall i, (i < j)%nat -> (nth i ks 0 < x)%Z) /\
             ((j < length ks)%nat -> (x <= nth j ks 0)%Z)) /\
  (forall j, (j <= length ks)%nat -> (forall i, (i < j)%nat -> (nth i ks 0 < x)%Z) ->
             ((j < length ks)%nat -> (x <= nth j ks 0)%Z) ->
     index_left Z.leb Z.eqb ks x = Ok (Z.to_nat (clampZ 0 (Z.of_nat (length ks) - 2) (Z.of_nat j - 1)))).
Proof. exact index_left_first_Z. Qed.

(* the same hand-written bisection on a list of reals (the float entry point) *)
Theorem C11_index_reals : forall (l : list R) (x : R), StronglySorted Rlt l -> (2 <= length l)%nat ->
  forall j, (j <= length l)%nat -> (forall i, (i < j)%nat -> nth i l 0 < x) ->
            ((j < length l)%nat -> x <= nth j l 0) ->
     index_left Rleb Reqb l x = Ok (Z.to_nat (clampZ 0 (Z.of_nat (length l) - 2) (Z.of_nat j - 1))).
Proof. exact index_left_first_R. Qed.

(* every look-up evaluates the rule's closed form on the first node and the two nodes of the interval
   that node_index returns *)
Theorem C11_interval_used : forall (c : curve R) m x, sortedF c m -> c_rule c <> Null ->
  exists i x0 y0 x1 y1 x2 y2, node_index c x = Ok i /\
    nth_error m 0 = Some (x0, y0) /\ nth_error m i = Some (x1, y1) /\ nth_error m (S i) = Some (x2, y2) /\
    interpolated_value c x = Ok (NF (closed_form (c_rule c) x0 x1 y1 x2 y2 x)).
Proof. exact value_uses_node_index. Qed.

(* the value at a node date is that node's value (zero-rate rule: from the second node on; 1 at the first) *)
Theorem C11_at_node : forall (c : curve R) m j k y, sortedF c m -> nth_error m j = Some (k, y) ->
  (c_rule c = Linear \/ c_rule c = FlatForward \/ c_rule c = FlatBackward -> interpolated_value c k = Ok (NF y)) /\
  (c_rule c = LogLinear -> 0 < y -> interpolated_value c k = Ok (NF y)) /\
  (c_rule c = LinearZeroRate ->
     (j = 0%nat -> interpolated_value c k = Ok (NF 1)) /\
     ((1 <= j)%nat -> 0 < y -> interpolated_value c k = Ok (NF y))).
Proof. exact value_at_node. Qed.

(* strictly between two adjacent nodes (x1,y1), (x2,y2), first node at x0 *)
Theorem C11_between : forall (c : curve R) m j x0 y0 x1 y1 x2 y2 x, sortedF c m ->
  nth_error m 0 = Some (x0, y0) -> nth_error m j = Some (x1, y1) -> nth_error m (S j) = Some (x2, y2) ->
  (x1 < x < x2)%Z ->
  let w := (IZR x - IZR x1) / (IZR x2 - IZR x1) in
  let t := IZR x - IZR x0 in let t1 := IZR x1 - IZR x0 in let t2 := IZR x2 - IZR x0 in
  (c_rule c = Linear ->
     interpolated_value c x = Ok (NF (y1 + (y2 - y1) * w)) /\
     Rmin y1 y2 <= y1 + (y2 - y1) * w <= Rmax y1 y2) /\
  (c_rule c = LogLinear ->
     interpolated_value c x = Ok (NF (exp (ln y1 + (ln y2 - ln y1) * w))) /\
     (0 < y1 -> 0 < y2 -> Rmin y1 y2 <= exp (ln y1 + (ln y2 - ln y1) * w) <= Rmax y1 y2)) /\
  (c_rule c = LinearZeroRate ->
     interpolated_value c x =
       Ok (NF (exp (- t * match j with
                          | O => - ln y2 / t2
                          | S _ => - ln y1 / t1 + (- ln y2 / t2 - - ln y1 / t1) * ((t - t1) / (t2 - t1))
                          end)))) /\
  (c_rule c = FlatForward -> interpolated_value c x = Ok (NF y1)) /\
  (c_rule c = FlatBackward -> interpolated_value c x = Ok (NF y2)).
Proof. exact value_between_explicit. Qed.

(* flat forward: the left value on [x1, x2); flat backward: the right value on (x1, x2] *)
Theorem C11_flat : forall (c : curve R) m j x1 y1 x2 y2 x, sortedF c m ->
  nth_error m j = Some (x1, y1) -> nth_error m (S j) = Some (x2, y2) ->
  (c_rule c = FlatForward -> (x1 <= x < x2)%Z -> interpolated_value c x = Ok (NF y1)) /\
  (c_rule c = FlatBackward -> (x1 < x <= x2)%Z -> interpolated_value c x = Ok (NF y2)).
Proof. exact value_flat. Qed.

(* dates outside the node range: the function of x used on the first (last) interval is used for every
   earlier (later) date as well; for the flat rules that is the first (last) node's value *)
Theorem C11_outside : forall (c : curve R) m x0 y0 x1 y1 xa ya xb yb, sortedF c m -> c_rule c <> Null ->
  nth_error m 0 = Some (x0, y0) -> nth_error m 1%nat = Some (x1, y1) ->
  nth_error m (length m - 2) = Some (xa, ya) -> nth_error m (length m - 1) = Some (xb, yb) ->
  (forall x, (x <= x1)%Z -> interpolated_value c x = Ok (NF (closed_form (c_rule c) x0 x0 y0 x1 y1 x))) /\
  (forall x, (xa < x)%Z -> interpolated_value c x = Ok (NF (closed_form (c_rule c) x0 xa ya xb yb x))) /\
  (forall x, (x < x0)%Z -> (c_rule c = FlatForward \/ c_rule c = FlatBackward) -> interpolated_value c x = Ok (NF y0)) /\
  (forall x, (xb < x)%Z -> (c_rule c = FlatForward \/ c_rule c = FlatBackward) -> interpolated_value c x = Ok (NF yb)).
Proof. exact value_outside. Qed.

(* `closed_form` is literally these expressions *)
Theorem C11_closed_form_def : forall r x0 x1 y1 x2 y2 x,
  closed_form r x0 x1 y1 x2 y2 x =
  let w := (IZR x - IZR x1) / (IZR x2 - IZR x1) in
  match r with
  | Linear => y1 + (y2 - y1) * w
  | LogLinear => exp (ln y1 + (ln y2 - ln y1) * w)
  | LinearZeroRate =>
      let t := IZR x - IZR x0 in let t1 := IZR x1 - IZR x0 in let t2 := IZR x2 - IZR x0 in
      exp (- t * (if (x1 =? x0)%Z then - ln y2 / t2
                  else - ln y1 / t1 + (- ln y2 / t2 - - ln y1 / t1) * ((t - t1) / (t2 - t1))))
  | FlatForward => if (x >=? x2)%Z then y2 else y1
  | FlatBackward => if (x <=? x1)%Z then y1 else y2
  | Null => 0
  end.
Proof. exact (fun r x0 x1 y1 x2 y2 x => eq_refl). Qed.

(* the order in which nodes are supplied does not matter (CurveDF::try_new for each node kind, and
   the Python-facing constructor, which numbers the variables after sorting); keys of the supplied
   nodes are datetimes in nanoseconds, distinct as timestamps in seconds *)
Theorem C11_order_free : forall (n n' : nodes R) r id b, nodes_perm n n' -> NoDup (nodes_tskeys n) ->
  curve_try_new n r id b = curve_try_new n' r id b.
Proof. exact (@try_new_order_free R). Qed.
Theorem C11_order_free_py : forall (m m' : list (Z * number R)) r ad id b, Permutation m m' -> NoDup (tskeys m) ->
  curve_new_py m r ad id b = curve_new_py m' r ad id b.
Proof. exact (@new_py_order_free R NumR). Qed.

(* construction from >= 2 float nodes with distinct timestamps gives a date-sorted curve with the same nodes *)
Theorem C11_constructed : forall (m : list (Z * R)) r id b, NoDup (tskeys m) -> (2 <= length m)%nat ->
  exists s, sortedF (curve_try_new (NsF m) r id b) s /\
            Permutation s (map (fun kv => (ts_of_ns (fst kv), snd kv)) m).
Proof. exact try_new_sortedF. Qed.

(* non-vacuity: three nodes supplied out of order (t = 20 s, 0 s, 10 s); half-way through the first interval *)
Example C11_example :
  let c := curve_try_new (NsF [(20000000000%Z, 0.98); (0%Z, 1); (10000000000%Z, 0.99)]) Linear [] None in
  sortedF c [(0%Z, 1); (10%Z, 0.99); (20%Z, 0.98)] /\
  interpolated_value c 5 = Ok (NF (1 + (0.99 - 1) * ((5 - 0) / (10 - 0)))).
Proof.
  cbn zeta.
  assert (SF : sortedF (curve_try_new (NsF [(20000000000%Z, 0.98); (0%Z, 1); (10000000000%Z, 0.99)]) Linear [] None)
                 [(0%Z, 1); (10%Z, 0.99); (20%Z, 0.98)]).
  { split; [reflexivity|]. split; [|cbn; auto].
    cbn. repeat constructor; reflexivity. }
  split; [exact SF|].
  assert (Hx : (0 < 5 < 10)%Z) by (split; reflexivity).
  pose proof (C11_between _ _ 0%nat 0%Z 1 0%Z 1 10%Z 0.99 5%Z SF eq_refl eq_refl eq_refl Hx) as A.
  cbn zeta in A. destruct A as (A & _). destruct (A eq_refl) as (B & _). exact B.
Qed.

Print Assumptions C11_index.
Print Assumptions C11_index_reals.
Print Assumptions C11_interval_used.
Print Assumptions C11_at_node.
Print Assumptions C11_between.
Print Assumptions C11_flat.
Print Assumptions C11_outside.
Print Assumptions C11_closed_form_def.
Print Assumptions C11_order_free.
Print Assumptions C11_order_free_py.
Print Assumptions C11_constructed.
