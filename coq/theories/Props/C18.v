(* C18 — Changing derivative order or mixing number kinds never alters values. *)
From Coq Require Import Reals ZArith List Bool Lra.
From RL Require Import Base.Num Base.Str Base.NumR Base.Outcome Model.Dual Model.Number
  Proofs.NumRP Proofs.DualP Proofs.Dual2P Proofs.NumberP.
Import ListNotations.
Open Scope R_scope.

(* the order-conversion table, cell by cell *)
Theorem C18_set_order_table : forall (x : number R) (vars : list name),
  set_order x OZero vars = NF (num_real x) /\
  set_order x OOne vars = match x with NF f => ND (dual_new f vars) | ND d => ND d | ND2 d => ND (dual_of_dual2 d) end /\
  set_order x OTwo vars = match x with NF f => ND2 (dual2_new f vars) | ND d => ND2 (dual2_of_dual d) | ND2 d => ND2 d end /\
  (forall o, set_order_clone x o vars = set_order x o vars).
Proof. intros x vars. destruct x; repeat split. Qed.

(* raising a float attaches exactly the requested names (each once) with unit sensitivity, and a
   zero Hessian at second order *)
Theorem C18_raise_float : forall f vars,
  (wf (dual_new f vars) /\ re (dual_new f vars) = f /\ (forall v, In v (vs (dual_new f vars)) <-> In v vars) /\
   forall v, coef (dual_new f vars) v = if mem v vars then 1 else 0) /\
  (wf2 (dual2_new f vars) /\ re2 (dual2_new f vars) = f /\ (forall v, In v (vs2 (dual2_new f vars)) <-> In v vars) /\
   (forall v, coef1 (dual2_new f vars) v = if mem v vars then 1 else 0) /\ (forall u v, coef2 (dual2_new f vars) u v = 0)).
Proof. intros f vars. split; [apply raise_one|apply raise_two]. Qed.
(* first -> second order adds a zero Hessian, second -> first drops only the Hessian *)
Theorem C18_one_two : forall d : dual R, wf d ->
  wf2 (dual2_of_dual d) /\ re2 (dual2_of_dual d) = re d /\ vs2 (dual2_of_dual d) = vs d /\
  du2 (dual2_of_dual d) = du d /\ (forall u v, coef2 (dual2_of_dual d) u v = 0).
Proof. exact up_one_two. Qed.
Theorem C18_two_one : forall d : dual2 R,
  re (dual_of_dual2 d) = re2 d /\ vs (dual_of_dual2 d) = vs2 d /\ du (dual_of_dual2 d) = du2 d.
Proof. exact down_two_one. Qed.
(* no conversion changes the value; lowering to float returns it *)
Theorem C18_value_kept : forall (x : number R) o vars, num_real (set_order x o vars) = num_real x.
Proof. exact set_order_value. Qed.
Theorem C18_names_kept : forall (x : number R) o vars,
  (exists f, x = NF f) \/ o = OZero \/ num_vars (set_order x o vars) = num_vars x.
Proof. exact set_order_names. Qed.

(* From conversions (dual_ops/from.rs): lowering a number of either order (or the container) to a float returns its
   value; raising a float gives the variable-free constant of either order (well formed, no names, every
   sensitivity zero); wrapping a float / Dual / Dual2 into the container and converting back is the identity and
   keeps value and names *)
Theorem C18_lowering : forall (d : dual R) (d2 : dual2 R) (x : number R),
  f_of_dual d = re d /\ f_of_dual2 d2 = re2 d2 /\ num_to_f x = num_real x.
Proof. exact lowering. Qed.
Theorem C18_raise_constant : forall f : R,
  (wf (dual_of_f f) /\ re (dual_of_f f) = f /\ vs (dual_of_f f) = [] /\ forall v, coef (dual_of_f f) v = 0) /\
  (wf2 (dual2_of_f f) /\ re2 (dual2_of_f f) = f /\ vs2 (dual2_of_f f) = [] /\
   (forall v, coef1 (dual2_of_f f) v = 0) /\ forall u v, coef2 (dual2_of_f f) u v = 0).
Proof. exact raise_const. Qed.
Theorem C18_wrap_unwrap : forall (f : R) (d : dual R) (d2 : dual2 R),
  num_to_f (num_of_f f) = f /\ num_to_dual (num_of_dual d) = d /\ num_to_dual2 (num_of_dual2 d2) = d2 /\
  num_real (num_of_dual d) = re d /\ num_real (num_of_dual2 d2) = re2 d2 /\
  num_vars (num_of_f f) = [] /\ num_vars (num_of_dual d) = vs d /\ num_vars (num_of_dual2 d2) = vs2 d2 /\
  num_to_dual (num_of_f f) = dual_of_f f /\ num_to_dual2 (num_of_f f) = dual2_of_f f.
Proof. exact wrap_unwrap. Qed.

(* arithmetic on the container = the same arithmetic on the contained types; Dual with Dual2 is
   refused (the Rust code panics), in exactly those two arms, for every operator *)
Theorem C18_number_ops : forall p (a b : number R),
  (forall f g, num_add p (NF f) (NF g) = Ok (NF (f + g)) /\ num_sub p (NF f) (NF g) = Ok (NF (f - g)) /\
               num_mul p (NF f) (NF g) = Ok (NF (f * g)) /\ num_div p (NF f) (NF g) = Ok (NF (f / g))) /\
  (forall d e, num_add p (ND d) (ND e) = Ok (ND (dadd p d e)) /\ num_sub p (ND d) (ND e) = Ok (ND (dsub p d e)) /\
               num_mul p (ND d) (ND e) = Ok (ND (dmul p d e)) /\ num_div p (ND d) (ND e) = Ok (ND (ddiv p d e)) /\
               num_rem p (ND d) (ND e) = Ok (ND (drem p d e))) /\
  (forall d e, num_add p (ND2 d) (ND2 e) = Ok (ND2 (d2add p d e)) /\ num_sub p (ND2 d) (ND2 e) = Ok (ND2 (d2sub p d e)) /\
               num_mul p (ND2 d) (ND2 e) = Ok (ND2 (d2mul p d e)) /\ num_div p (ND2 d) (ND2 e) = Ok (ND2 (d2div p d e)) /\
               num_rem p (ND2 d) (ND2 e) = Ok (ND2 (d2rem p d e))) /\
  (forall f d, num_add p (NF f) (ND d) = Ok (ND (dadd_f d f)) /\ num_add p (ND d) (NF f) = Ok (ND (dadd_f d f)) /\
               num_sub p (NF f) (ND d) = Ok (ND (fsub_d f d)) /\ num_sub p (ND d) (NF f) = Ok (ND (dsub_f d f)) /\
               num_mul p (NF f) (ND d) = Ok (ND (dmul_f d f)) /\ num_mul p (ND d) (NF f) = Ok (ND (dmul_f d f)) /\
               num_div p (NF f) (ND d) = Ok (ND (fdiv_d f d)) /\ num_div p (ND d) (NF f) = Ok (ND (ddiv_f d f))) /\
  (forall f d, num_add p (NF f) (ND2 d) = Ok (ND2 (d2add_f d f)) /\ num_add p (ND2 d) (NF f) = Ok (ND2 (d2add_f d f)) /\
               num_sub p (NF f) (ND2 d) = Ok (ND2 (fsub_d2 f d)) /\ num_sub p (ND2 d) (NF f) = Ok (ND2 (d2sub_f d f)) /\
               num_mul p (NF f) (ND2 d) = Ok (ND2 (d2mul_f d f)) /\ num_mul p (ND2 d) (NF f) = Ok (ND2 (d2mul_f d f)) /\
               num_div p (NF f) (ND2 d) = Ok (ND2 (fdiv_d2 f d)) /\ num_div p (ND2 d) (NF f) = Ok (ND2 (d2div_f d f))) /\
  (num_add p a b = Panic <-> mixed a b = true) /\ (num_sub p a b = Panic <-> mixed a b = true) /\
  (num_mul p a b = Panic <-> mixed a b = true) /\ (num_div p a b = Panic <-> mixed a b = true) /\
  (num_rem p a b = Panic <-> mixed a b = true) /\ (num_eqb p a b = Panic <-> mixed a b = true) /\
  (num_ltb a b = Panic <-> mixed a b = true) /\ (num_leb a b = Panic <-> mixed a b = true).
Proof.
  intros p a b. repeat split; try reflexivity;
    try (apply num_bin_refuses); try (apply num_eqb_refuses); try (apply num_cmp_refuses).
Qed.

Example C18_example :
  let x := [120%Z] in
  mixed (ND (dual_new 1 [x])) (ND2 (dual2_new 2 [x])) = true /\
  num_real (set_order (NF 3) OTwo [x; x]) = 3 /\ num_vars (set_order (NF 3) OTwo [x; x]) = [x].
Proof. cbn. repeat split. Qed.

Print Assumptions C18_set_order_table.
Print Assumptions C18_raise_float.
Print Assumptions C18_one_two.
Print Assumptions C18_two_one.
Print Assumptions C18_value_kept.
Print Assumptions C18_names_kept.
Print Assumptions C18_number_ops.
Print Assumptions C18_lowering.
Print Assumptions C18_raise_constant.
Print Assumptions C18_wrap_unwrap.
