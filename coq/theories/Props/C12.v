(* C12 — Curve values carry exact sensitivities to their nodes at every derivative order.
   Property theorems only: each is closed by `exact <lemma>` and followed by Print Assumptions.
   C12_values, C12_names_kept and C12_tags hold for every numeric structure (in particular for the
   reals AND for binary64 floats); C12_grad and C12_index are about the reals.
   Vocabulary (Proofs/CurveP.v):  sortedF c m = float-valued nodes m, keys strictly increasing, >= 2;
   var_tag id i = id ++ decimal digits of i;  lookupR r m x = the looked-up real value of the curve with
   rule r and nodes m (the C11 closed form on the interval used);  add_val m j a = m with a added to the
   value of node j;  interval_of m x = the interval index C11_index describes. *)
From Coq Require Import Reals ZArith List Bool Lra Sorting.Permutation Sorting.Sorted.
From Coquelicot Require Import Coquelicot.
From RL Require Import Base.Num Base.Str Base.NumR Base.Outcome Model.Dual Model.Number Model.Curve Proofs.CurveP.
Import ListNotations.
Open Scope R_scope.

(* switching a float-valued curve to order 1 / 2 tags node i (in stored = date order, from 0) with the
   single new variable id ++ dec i, derivative 1 (and zero second-order part) *)
Theorem C12_tags : forall (c : curve R) m, c_nodes c = NsF m ->
  c_nodes (set_ad_order c OOne) =
    NsD (mapi (fun i kv => (fst kv, mkDual (snd kv) [var_tag (c_id c) i] [1])) m) /\
  c_nodes (set_ad_order c OTwo) =
    NsD2 (mapi (fun i kv => (fst kv, mkDual2 (snd kv) [var_tag (c_id c) i] [1] [[0]])) m).
Proof. exact (@set_order_tags R NumR). Qed.

(* the Python-facing constructor numbers the variables after sorting the supplied (unsorted) nodes:
   node i in date order carries id ++ dec i; keys of the result are strictly increasing *)
Theorem C12_tags_unsorted_input : forall (raw : list (Z * number R)) r id b, all_floats raw -> NoDup (tskeys raw) ->
  c_nodes (curve_new_py raw r OOne id b) =
    NsD (mapi (fun i kv => (ts_of_ns (fst kv), mkDual (num_real (snd kv)) [var_tag id i] [1])) (sort_keys Z.leb raw)) /\
  c_nodes (curve_new_py raw r OTwo id b) =
    NsD2 (mapi (fun i kv => (ts_of_ns (fst kv), mkDual2 (num_real (snd kv)) [var_tag id i] [1] [[0]])) (sort_keys Z.leb raw)) /\
  StronglySorted Z.lt (map (fun kv => ts_of_ns (fst kv)) (sort_keys Z.leb raw)).
Proof. exact (@new_py_tags R NumR). Qed.

(* variable names of different nodes differ (node counts are machine integers) *)
Theorem C12_tags_distinct : forall id i j, (Z.of_nat i < usize_max)%Z -> (Z.of_nat j < usize_max)%Z ->
  var_tag id i = var_tag id j -> i = j.
Proof. exact var_tag_inj. Qed.

(* any sequence of order switches keeps every node's key and real part, and the real part (and the
   outcome class) of every look-up; stated for every numeric structure T *)
Theorem C12_values : forall (T : Type) (NT : Num T) (ops : list adorder) (c : curve T),
  real_nodes (c_nodes (fold_left set_ad_order ops c)) = real_nodes (c_nodes c) /\
  forall x, omap num_real (interpolated_value (fold_left set_ad_order ops c) x) =
            omap num_real (interpolated_value c x).
Proof. exact (fun T NT => @switches_keep_values T NT). Qed.

(* switches among orders 1 and 2 keep every node's variable names (and first-order parts) *)
Theorem C12_names_kept : forall (T : Type) (NT : Num T) (ops : list adorder) (c : curve T),
  curve_ad c <> OZero -> List.Forall (fun o => o <> OZero) ops ->
  node_vars (c_nodes (fold_left set_ad_order ops c)) = node_vars (c_nodes c) /\
  node_duals (c_nodes (fold_left set_ad_order ops c)) = node_duals (c_nodes c).
Proof. exact (fun T NT => @switches_12_keep T NT). Qed.

(* histories: a float-valued curve after ANY sequence of switches is exactly the curve switched once to the
   last requested order (so C12_tags / C12_grad / C12_grad2 apply after every history ending in order 1 / 2) *)
Theorem C12_history : forall (T : Type) (NT : Num T) (ops : list adorder) (c : curve T) m, c_nodes c = NsF m ->
  fold_left set_ad_order ops c = set_ad_order c (last ops OZero).
Proof. exact (fun T NT => @history_collapses T NT). Qed.

(* first order: the gradient of the looked-up value w.r.t. the node variables is the true partial
   derivative of the look-up w.r.t. each node value; zero for nodes outside the interval used *)
Theorem C12_grad : forall (c : curve R) m x, sortedF c m -> c_rule c <> Null ->
  (Z.of_nat (length m) <= usize_max)%Z -> positive_nodes m ->
  let tags := get_variable_tags (c_id c) (length m) in
  exists d, interpolated_value (set_ad_order c OOne) x = Ok (ND d) /\ re d = lookupR (c_rule c) m x /\
    (forall j, (j < length m)%nat ->
       is_derive (fun p => lookupR (c_rule c) (add_val m j p) x) 0 (nth j (gradient1 d tags) 0)) /\
    (forall j, (j < length m)%nat -> j <> interval_of m x -> j <> S (interval_of m x) ->
       nth j (gradient1 d tags) 0 = 0).
Proof. exact grad1_exact. Qed.

(* second order: gradient as above, and entry (j, k) of gradient2 is the mixed second partial derivative
   (the derivative at 0, w.r.t. a shift q of node k, of the first partial g1 q w.r.t. a shift p of node j);
   rows and columns of nodes outside the interval used are zero *)
Theorem C12_grad2 : forall (c : curve R) m x, sortedF c m -> c_rule c <> Null ->
  (Z.of_nat (length m) <= usize_max)%Z -> positive_nodes m ->
  let tags := get_variable_tags (c_id c) (length m) in
  exists d, interpolated_value (set_ad_order c OTwo) x = Ok (ND2 d) /\ re2 d = lookupR (c_rule c) m x /\
    (forall j, (j < length m)%nat ->
       is_derive (fun p => lookupR (c_rule c) (add_val m j p) x) 0 (nth j (gradient1_2 d tags) 0)) /\
    (forall j k, (j < length m)%nat -> (k < length m)%nat ->
       exists g1 : R -> R,
         locally 0 (fun q => is_derive (fun p => lookupR (c_rule c) (add_val (add_val m j p) k q) x) 0 (g1 q)) /\
         is_derive g1 0 (nth k (nth j (gradient2 d tags) []) 0)) /\
    (forall j, (j < length m)%nat -> j <> interval_of m x -> j <> S (interval_of m x) ->
       nth j (gradient1_2 d tags) 0 = 0 /\
       forall k, (k < length m)%nat ->
         nth k (nth j (gradient2 d tags) []) 0 = 0 /\ nth j (nth k (gradient2 d tags) []) 0 = 0).
Proof. exact grad2_exact. Qed.

(* `lookupR` is the C11 closed form on the nodes of the interval used *)
Theorem C12_lookup_is_closed_form : forall r (m : list (Z * R)) x x0 y0 x1 y1 x2 y2,
  StronglySorted Z.lt (map fst m) -> (2 <= length m)%nat -> r <> Null ->
  nth_error m 0 = Some (x0, y0) -> nth_error m (interval_of m x) = Some (x1, y1) ->
  nth_error m (S (interval_of m x)) = Some (x2, y2) ->
  lookupR r m x = closed_form r x0 x1 y1 x2 y2 x.
Proof. exact lookupR_closed. Qed.

(* index value: Err without a base; F64 0 before the first node; otherwise base / value, of the value's kind *)
Theorem C12_index : forall (c : curve R) x,
  (c_base c = None -> index_value c x = Err) /\
  (forall ib k0, c_base c = Some ib -> first_key (c_nodes c) = Ok k0 ->
     ((x < k0)%Z -> index_value c x = Ok (NF 0)) /\
     ((k0 <= x)%Z -> forall v, interpolated_value c x = Ok v ->
        exists w, index_value c x = Ok w /\ num_kind w = num_kind v /\
                  (num_real v <> 0 -> num_real w = ib / num_real v))).
Proof. exact index_value_spec. Qed.

(* non-vacuity: the C11 example curve, switched to first order, looked up half-way through the first interval *)
Example C12_example :
  let c := curve_try_new (NsF [(20000000000%Z, 0.98); (0%Z, 1); (10000000000%Z, 0.99)]) Linear [99%Z] None in
  sortedF c [(0%Z, 1); (10%Z, 0.99); (20%Z, 0.98)] /\ positive_nodes [(0%Z, 1); (10%Z, 0.99); (20%Z, 0.98)] /\
  interpolated_value (set_ad_order c OOne) 5 =
    Ok (ND (mkDual (1 + (0.99 - 1) * ((5 - 0) / (10 - 0))) [[99; 49]%Z; [99; 48]%Z]
                   [0 + (5 - 0) / (10 - 0) * (1 - 0); 1 + (5 - 0) / (10 - 0) * (0 - 1)])).
Proof.
  cbn zeta. split; [|split].
  - split; [reflexivity|]. split; [|cbn; auto]. cbn. repeat constructor; reflexivity.
  - intros kv [E|[E|[E|[]]]]; subst; cbn; lra.
  - reflexivity.
Qed.

Print Assumptions C12_tags.
Print Assumptions C12_tags_unsorted_input.
Print Assumptions C12_tags_distinct.
Print Assumptions C12_values.
Print Assumptions C12_names_kept.
Print Assumptions C12_history.
Print Assumptions C12_grad.
Print Assumptions C12_grad2.
Print Assumptions C12_lookup_is_closed_form.
Print Assumptions C12_index.
