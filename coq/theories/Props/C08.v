(* C08 — Month arithmetic and roll-day rules follow calendar arithmetic.
   Property theorems only: each is closed by `exact <lemma>` and followed by Print Assumptions. *)
From Coq Require Import ZArith List Bool.
From RL Require Import Base.Outcome Model.Dates Proofs.DatesP.
Open Scope Z_scope.

(* chrono model: day numbers and valid (y, m, d) triples are in bijection, for all of Z *)
Theorem C08_civil_roundtrip : forall n : Z,
  let '(y, m, d) := civil_from_days n in valid_ymd y m d /\ days_from_civil y m d = n.
Proof. exact civil_roundtrip. Qed.
Theorem C08_civil_roundtrip_conv : forall y m d, valid_ymd y m d ->
  civil_from_days (days_from_civil y m d) = (y, m, d).
Proof. exact civil_roundtrip_conv. Qed.

(* the month exactly k months away: 12*y' + (m'-1) = 12*y + (m-1) + k *)
Theorem C08_add_months_carry : forall m k, 1 <= m <= 12 ->
  let '(dy, m') := month_carry m k in 1 <= m' <= 12 /\ 12 * dy + (m' - 1) = (m - 1) + k.
Proof. exact month_carry_spec. Qed.

(* roll day capped at the month's length; never aborts for roll days >= 1 *)
Theorem C08_roll_day : forall y m r, 1 <= m <= 12 -> 1 <= r ->
  get_roll_by_day y m r = Ok (days_from_civil y m (Z.min r (dim y m))).
Proof. exact get_roll_by_day_spec. Qed.

(* add_months before adjustment: own day / given day / 31 / 1, capped, in the month k away *)
Theorem C08_add_months_kinds : forall n k r, r <> IMM -> 1 <= target_day r (day_of n) ->
  i32_min < k ->
  let '(dy, m') := month_carry (month_of n) k in
  in_i32 (year_of n + dy) = true ->
  add_months_unadj n k r =
    Ok (days_from_civil (year_of n + dy) m' (Z.min (target_day r (day_of n)) (dim (year_of n + dy) m'))).
Proof. exact add_months_unadj_spec. Qed.
Theorem C08_add_months_imm : forall n k, i32_min < k ->
  let '(dy, m') := month_carry (month_of n) k in
  in_i32 (year_of n + dy) = true ->
  add_months_unadj n k IMM = get_imm (year_of n + dy) m'.
Proof. exact add_months_unadj_imm. Qed.

(* IMM = the third Wednesday: a Wednesday (weekday 2, Monday = 0) with day of month in 15..21,
   which is unique *)
Theorem C08_imm : forall y m, 1 <= m <= 12 ->
  exists d, get_imm y m = Ok (days_from_civil y m d) /\ 15 <= d <= 21 /\
            weekday (days_from_civil y m d) = 2.
Proof. exact get_imm_spec. Qed.
Theorem C08_imm_unique : forall y m d d', 15 <= d <= 21 -> 15 <= d' <= 21 ->
  weekday (days_from_civil y m d) = 2 -> weekday (days_from_civil y m d') = 2 -> d = d'.
Proof. exact third_wed_unique. Qed.
Theorem C08_is_imm : forall n, exists d, 15 <= d <= 21 /\
  weekday (days_from_civil (year_of n) (month_of n) d) = 2 /\ is_imm n = Ok (day_of n =? d).
Proof. exact is_imm_spec. Qed.

(* end of month = last day; is_eom is its characteristic function *)
Theorem C08_eom : forall y m, 1 <= m <= 12 -> get_eom y m = Ok (days_from_civil y m (dim y m)).
Proof. exact get_eom_spec. Qed.
Theorem C08_is_eom : forall n, is_eom n = Ok (day_of n =? dim (year_of n) (month_of n)).
Proof. exact is_eom_spec. Qed.

(* Gregorian leap rule *)
Theorem C08_leap : forall y, is_leap_year y =
  (y mod 4 =? 0) && (negb (y mod 100 =? 0) || (y mod 400 =? 0)).
Proof. exact is_leap_year_spec. Qed.

(* non-vacuity: 2024-01-31 + 1 month, roll unspecified -> 2024-02-29 *)
Example C08_example : add_months_unadj 19753 1 Unspecified = Ok 19782
  /\ civil_from_days 19753 = (2024, 1, 31) /\ civil_from_days 19782 = (2024, 2, 29).
Proof. vm_compute. auto. Qed.

Print Assumptions C08_civil_roundtrip.
Print Assumptions C08_civil_roundtrip_conv.
Print Assumptions C08_add_months_carry.
Print Assumptions C08_roll_day.
Print Assumptions C08_add_months_kinds.
Print Assumptions C08_add_months_imm.
Print Assumptions C08_imm.
Print Assumptions C08_imm_unique.
Print Assumptions C08_is_imm.
Print Assumptions C08_eom.
Print Assumptions C08_is_eom.
Print Assumptions C08_leap.
