(* C07 — Built-in holiday calendars agree with their published rules.
   The tables, the name wiring, the documented names and the fixing dates are the GENERATED files Gen/*.v
   (driver/translate.py, regenerated from /repo on every run); the rules are Model/Rules.v (transcribed from the
   *_script.py generator scripts).  Every statement below is closed by evaluating a check over all 84 371 days
   1970-01-01..2200-12-31 inside the kernel (vm_compute, Proofs/RulesP_*.v) and lifting it with forallb_forall. *)
From Coq Require Import ZArith List Bool String.
From RL Require Import Base.Outcome Model.Dates Model.Calendar Model.Named Model.Rules Model.RuleChecks
  Gen.DocNames Gen.Fixings Proofs.RulesSpecP Proofs.RulesP Proofs.RulesP_fednyc Proofs.RulesP_misc Proofs.RulesAllP.
Import ListNotations.
Open Scope Z_scope.

(* tgt, nyc, fed, ldn, stk, osl, zur: the name resolves (through the generated wiring) to a calendar with a Sat+Sun week
   mask in which every weekday of 1970-2200 is a holiday exactly when the published rules make it one *)
Theorem C07_rules : forall n rs, In (n, rs) full_rules ->
  exists c, by_name n = Ok c /\ mask_sat_sun c /\
    forall d, d1970 <= d <= d2200 -> weekday d < 5 -> cal_is_holiday c d = rules_hit rs d.
Proof. exact full_rules_ok. Qed.
(* hence its business days are the weekdays that are not rule holidays *)
Theorem C07_rules_bus_days : forall n rs, In (n, rs) full_rules ->
  exists c, by_name n = Ok c /\ forall d, d1970 <= d <= d2200 ->
    cal_is_bus c d = (weekday d <? 5) && negb (rules_hit rs d).
Proof. exact full_rules_bus. Qed.
(* 'all' has no holidays and no weekend; 'bus' has no holidays and a Sat+Sun weekend *)
Theorem C07_all_bus :
  (forall d, exists a, by_name "all" = Ok a /\ cal_is_holiday a d = false /\ cal_is_bus a d = true) /\
  (exists b, by_name "bus" = Ok b /\ forall d, cal_is_holiday b d = false /\ cal_is_bus b d = (weekday d <? 5)).
Proof. exact all_bus_days. Qed.
(* 'fed' is 'nyc' without Good Friday (the Friday before the Easter Sunday of the anonymous Gregorian computus) *)
Theorem C07_fed_is_nyc_minus_good_friday :
  exists f n, by_name "fed" = Ok f /\ by_name "nyc" = Ok n /\
    forall d, d1970 <= d <= d2200 -> weekday d < 5 ->
      cal_is_holiday f d = cal_is_holiday n d && negb (is_good_friday d).
Proof. exact fed_nyc_ok. Qed.
(* tro, tyo, syd, wlg, mum: every weekday occurrence of a documented fixed-date or Easter-linked holiday is a holiday.
   This implication IS the statement of the property for these calendars (their other holidays - movable, astronomical,
   ad hoc - are not published as rules). *)
Theorem C07_partial_rules : forall n rs, In (n, rs) partial_rules ->
  exists c, by_name n = Ok c /\ mask_sat_sun c /\
    forall d, d1970 <= d <= d2200 -> weekday d < 5 -> rules_hit rs d = true -> cal_is_holiday c d = true.
Proof. exact partial_rules_ok. Qed.
(* every calendar name listed in the get_calendar docstring resolves *)
Theorem C07_doc_names : forall n, In n doc_names -> exists c, by_name n = Ok c.
Proof. exact doc_names_ok. Qed.
(* over each shipped fixing history, between its first and last publication date, the calendar's business days are
   exactly the publication dates *)
Theorem C07_fixings : forall ccy nm fx, In (ccy, (nm, fx)) fixing_pairs ->
  fx <> [] /\ exists c, by_name nm = Ok c /\
    (forall x, In x fx -> zmin_list fx <= x <= zmax_list fx) /\
    forall d, zmin_list fx <= d <= zmax_list fx -> cal_is_bus c d = zmem d fx.
Proof. exact fixings_ok. Qed.
(* the specification itself: Easter Sunday of the computus is a Sunday in 22 March..25 April of its year, and the rule
   sets satisfy the side conditions under which Model/Rules.v reads the pandas rules (no observed date leaves its month) *)
Theorem C07_easter_is_a_sunday : forall y, 1970 <= y <= 2200 ->
  weekday (easter y) = 6 /\ days_from_civil y 3 22 <= easter y <= days_from_civil y 4 25 /\ year_of (easter y) = y.
Proof. exact easter_bounds. Qed.
(* a `Fixed m dd o` rule holds on day n exactly when n is the date (m, dd) of some year moved by the pandas observance o *)
Theorem C07_observance_reading : forall m dd o n, kind_wf (Fixed m dd o) = true ->
  (fixed_hit m dd o (dctx_of n) = true <->
   exists b, month_of b = m /\ day_of b = dd /\ n = b + obs_shift o (weekday b)).
Proof. exact fixed_hit_spec. Qed.
Theorem C07_rules_well_formed : forallb (fun nr => rules_wf (snd nr)) (full_rules ++ partial_rules) = true.
Proof. exact all_rules_wf. Qed.

(* non-vacuity: which calendars / pairs the quantifiers range over, and sample dates *)
Example C07_example :
  map fst full_rules = ["tgt"; "nyc"; "fed"; "ldn"; "stk"; "osl"; "zur"]%string /\
  map fst partial_rules = ["tro"; "tyo"; "syd"; "wlg"; "mum"]%string /\
  map (fun p => (fst p, fst (snd p))) fixing_pairs =
    [("usd", "nyc"); ("gbp", "ldn"); ("cad", "tro"); ("eur", "tgt"); ("jpy", "tyo"); ("sek", "stk"); ("nok", "osl");
     ("aud", "syd"); ("inr", "mum")]%string /\
  List.length doc_names = 14%nat /\
  (* Good Friday 2024-03-29 (day 19811): a holiday by the nyc and tgt rules, not by the fed rules; 2024-11-11 for nyc *)
  easter 2024 = days_from_civil 2024 3 31 /\ days_from_civil 2024 3 29 = 19811 /\
  rules_hit rules_nyc 19811 = true /\ rules_hit rules_fed 19811 = false /\ rules_hit rules_tgt 19811 = true /\
  rules_hit rules_nyc (days_from_civil 2024 11 11) = true /\
  (* Christmas 2021 was a Saturday: observed Friday 24 December in New York, Monday 27 and Tuesday 28 in London *)
  rules_hit rules_nyc (days_from_civil 2021 12 24) = true /\ rules_hit rules_ldn (days_from_civil 2021 12 27) = true /\
  rules_hit rules_ldn (days_from_civil 2021 12 28) = true /\ rules_hit rules_ldn (days_from_civil 2021 12 24) = false.
Proof. vm_compute. repeat split; reflexivity. Qed.

Print Assumptions C07_rules.
Print Assumptions C07_rules_bus_days.
Print Assumptions C07_all_bus.
Print Assumptions C07_fed_is_nyc_minus_good_friday.
Print Assumptions C07_partial_rules.
Print Assumptions C07_doc_names.
Print Assumptions C07_fixings.
Print Assumptions C07_easter_is_a_sunday.
Print Assumptions C07_rules_well_formed.
Print Assumptions C07_observance_reading.
