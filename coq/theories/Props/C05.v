(* C05 — Business-day arithmetic counts exactly the business days it says it does.
   For EVERY predicate bus/settle and search bound FUEL.  cnt_oc a b = number of business days in
   (a, b]; cnt_co a b = number in [a, b)  ("counting the result, not the start"). *)
From Coq Require Import ZArith List Bool.
From RL Require Import Base.Outcome Model.Dates Model.Calendar Model.SubDay Proofs.CalendarP Proofs.CalExt Proofs.SubDayP.
Import ListNotations.
Open Scope Z_scope.

Theorem C05_add_counts : forall bus settle FUEL d n r,
  bus d = true -> add_bus_days bus settle FUEL d n false = Ok r ->
  bus r = true /\ (0 <= n -> d <= r /\ cnt_oc bus d r = n) /\ (n < 0 -> r <= d /\ cnt_co bus r d = - n).
Proof. exact add_bus_days_counts. Qed.
Theorem C05_inverse : forall bus settle FUEL d n r,
  bus d = true -> add_bus_days bus settle FUEL d n false = Ok r ->
  add_bus_days bus settle FUEL r (- n) false = Ok d.
Proof. exact add_bus_days_inverse. Qed.
Theorem C05_rejects : forall bus settle FUEL d n s,
  bus d = false -> add_bus_days bus settle FUEL d n s = Err.
Proof. exact add_bus_days_rejects. Qed.
(* with settlement: the unsettled answer moved onward in the direction of n (forward when n = 0) *)
Theorem C05_settled : forall bus settle FUEL d n,
  add_bus_days bus settle FUEL d n true =
    do r <- add_bus_days bus settle FUEL d n false;
    if n <? 0 then roll_bwd_settled bus settle FUEL r else roll_fwd_settled bus settle FUEL r.
Proof. exact add_bus_days_settled. Qed.
(* lag *)
Theorem C05_lag : forall bus settle FUEL d n s,
  lag bus settle FUEL d n s =
    if bus d then add_bus_days bus settle FUEL d n s
    else if n =? 0 then roll_fwd bus FUEL d
    else if n <? 0 then do r <- roll_bwd bus FUEL d; add_bus_days bus settle FUEL r (n + 1) s
    else do r <- roll_fwd bus FUEL d; add_bus_days bus settle FUEL r (n - 1) s.
Proof. exact lag_spec. Qed.
Theorem C05_lag_counts_fwd : forall bus settle FUEL d n r,
  bus d = false -> 0 < n -> lag bus settle FUEL d n false = Ok r ->
  bus r = true /\ d < r /\ cnt_oc bus d r = n.
Proof. exact lag_counts_fwd. Qed.
Theorem C05_lag_counts_bwd : forall bus settle FUEL d n r,
  bus d = false -> n < 0 -> lag bus settle FUEL d n false = Ok r ->
  bus r = true /\ r < d /\ cnt_co bus r d = - n.
Proof. exact lag_counts_bwd. Qed.
(* business-date range = exactly the business days of the calendar-date range, in order *)
Theorem C05_range : forall bus settle FUEL s e,
  bus s = true -> bus e = true -> s <= e -> e - s <= Z.of_nat FUEL ->
  (exists nb, e < nb <= e + 1 + Z.of_nat FUEL /\ bus nb = true) ->
  bus_date_range bus settle FUEL s e = Ok (filter bus (cal_date_range s e)).
Proof. exact bus_date_range_spec. Qed.
Theorem C05_range_rejects : forall bus settle FUEL s e,
  bus s = false \/ bus e = false -> bus_date_range bus settle FUEL s e = Err.
Proof. exact bus_date_range_rejects. Qed.
(* calendar-day addition followed by adjustment *)
Theorem C05_add_days : forall bus settle FUEL d n m s,
  add_days bus settle FUEL d n m s = roll bus settle FUEL (d + n) m s.
Proof. exact add_days_spec. Qed.

(* the same calendar listed differently (other order of holidays / weekdays, repeated entries — same_listing, Proofs/CalExt.v)
   adds business days, lags, adds days and months and ranges identically, for every search bound *)
Theorem C05_listing_free : forall c c', same_listing c c' -> forall FUEL,
  (forall d n s, add_bus_days (cal_is_bus c) (cal_is_settle c) FUEL d n s = add_bus_days (cal_is_bus c') (cal_is_settle c') FUEL d n s) /\
  (forall d n s, lag (cal_is_bus c) (cal_is_settle c) FUEL d n s = lag (cal_is_bus c') (cal_is_settle c') FUEL d n s) /\
  (forall d n m s, add_days (cal_is_bus c) (cal_is_settle c) FUEL d n m s = add_days (cal_is_bus c') (cal_is_settle c') FUEL d n m s) /\
  (forall d k m r s, add_months (cal_is_bus c) (cal_is_settle c) FUEL d k m r s = add_months (cal_is_bus c') (cal_is_settle c') FUEL d k m r s) /\
  (forall a e, bus_date_range (cal_is_bus c) (cal_is_settle c) FUEL a e = bus_date_range (cal_is_bus c') (cal_is_settle c') FUEL a e).
Proof. exact (fun c c' SL FUEL => proj2 (cal_ops_listing_free c c' SL FUEL)). Qed.

(* start DATETIMES with a time of day t (seconds after midnight): the business-day and settlement predicates the datetime (d, t)
   sees are those of the calendar `ucal_at u t` (u itself at midnight, its week masks alone otherwise: the holiday look-up is
   exact) on the day d — so every theorem above, stated for arbitrary predicates, holds from such a start *)
Theorem C05_subday : forall u d t,
  ucal_is_bus_dt u d t = ucal_is_bus (ucal_at u t) d /\ ucal_is_settle_dt u d t = ucal_is_settle (ucal_at u t) d.
Proof. exact (fun u d t => conj (ucal_is_bus_dt_at u d t) (ucal_is_settle_dt_at u d t)). Qed.

Example C05_example :
  let bus := cal_is_bus (mkCal [5; 6] [19814]) in
  add_bus_days bus (fun _ => true) 10 19810 2 false = Ok 19815 /\
  add_bus_days bus (fun _ => true) 10 19815 (-2) false = Ok 19810.
Proof. vm_compute. auto. Qed.
