(* C15 — a solved spline reproduces data, end conditions and polynomials, with exact AD.
   Property theorems only.  Models: Model/PPSpline.v (PPSpline<T>::new / bsplmatrix / csolve /
   ppdnev_single / ppdnev_single_dual / ppdnev_single_dual2 / mapped_value), Model/Linalg.v
   (fdsolve), Model/Spline.v (basis).  E is the coefficient kind (R, dual R, dual2 R at T := R),
   `xmul` is `&f64 * &E`.

   Vocabulary:
     row_m l r len j        derivative order carried by row j of the collocation matrix: l for the
                            first site, r for the last one, 0 between
     fmat_vec xmul B c      the matrix-vector product B c (Model/Linalg.v)
     coef d v / coef1, coef2  first-order / stored second-order coefficient of a dual number by NAME
     wf / wf2               well-formed dual number: distinct names, matching array shapes
     dotR                   inner product of two real lists
   C15_interpolates and C15_poly_partial take the solver's conclusion (B c = y, for C15_poly also
   its uniqueness) as an explicit hypothesis: that is C13's theorem about fdsolve. *)
From Coq Require Import Reals List Lra Lia ZArith.
From Coquelicot Require Import Coquelicot.
From RL Require Import Base.Outcome Base.Num Base.NumR Base.Str Model.Dual Model.Number Model.Linalg
  Model.Spline Model.PPSpline Proofs.DualP Proofs.Dual2P Proofs.SplinePoly Proofs.SplineP
  Proofs.SplineMarsden Proofs.PPSplineP Proofs.Colloc Proofs.PPSplineHom Proofs.PPSplineR Proofs.PPSplinePoly Proofs.LinalgI Proofs.PPSplineLin.
Import ListNotations.
Open Scope R_scope.

(* mismatched site counts are reported as errors - and nothing else is *)
Theorem C15_errors : forall {T : Type} {H : Num T} {E : Type} {OE : Ops E} (xmul : T -> E -> E)
    (s : @ppspline T E) tau (y : list E) l r lsq,
  csolve xmul s tau y l r lsq = Err <->
  (length tau <> pn s /\ ~ (lsq = true /\ (pn s < length tau)%nat)) \/ length tau <> length y.
Proof. exact @csolve_err. Qed.

(* After solving, every data value is reproduced: the spline passes through the interior data
   points and meets the requested derivative orders at the two end sites.  Any coefficient kind. *)
Theorem C15_interpolates : forall {T : Type} {H : Num T} {E : Type} {OE : Ops E} (xmul : T -> E -> E)
    (s s' : @ppspline T E) tau (y : list E) l r,
  (1 <= pn s)%nat ->
  csolve xmul s tau y l r false = Ok s' ->
  (forall B c, bsplmatrix s tau l r = Ok B -> pc s' = Some c ->
               fmat_vec xmul B c = y /\ length c = pn s) ->
  forall j x v, nth_error tau j = Some x -> nth_error y j = Some v ->
    ppdnev_single xmul s' x (row_m l r (length tau) j) = Ok v.
Proof. exact @csolve_interpolates. Qed.

(* ... with the solver hypothesis discharged by C13 for float coefficients over R: a non-singular
   collocation matrix is enough (`nonsingular n B`: B y = 0 only for y = 0, Proofs/LinalgI.v) *)
Theorem C15_interpolates_R : forall (s s' : @ppspline R R) tau y l r, (1 <= pn s)%nat ->
  csolve xmul_num s tau y l r false = Ok s' ->
  (forall B, bsplmatrix s tau l r = Ok B -> nonsingular (pn s) B) ->
  forall j x v, nth_error tau j = Some x -> nth_error y j = Some v ->
    ppdnev_single xmul_num s' x (row_m l r (length tau) j) = Ok v.
Proof. exact interpolates_R. Qed.

(* Dual data: for each name v the sensitivity of the solved spline (any point, any derivative
   order) is the spline solved on the sensitivities of the data; its value is the spline solved on
   the values of the data.  No hypothesis on the matrix: the solver is linear in its right-hand
   side step by step. *)
Theorem C15_data_sensitivity : forall (v : name) (s s' : @ppspline R (dual R)) tau y l r lsq,
  List.Forall wf y ->
  csolve xmul_dual s tau y l r lsq = Ok s' ->
  csolve xmul_num (pp_map (fun d => coef d v) s) tau (map (fun d => coef d v) y) l r lsq
    = Ok (pp_map (fun d => coef d v) s') /\
  forall x m d, ppdnev_single xmul_dual s' x m = Ok d ->
                ppdnev_single xmul_num (pp_map (fun d => coef d v) s') x m = Ok (coef d v).
Proof. exact data_sens_coef. Qed.

Theorem C15_data_value : forall (s s' : @ppspline R (dual R)) tau y l r lsq,
  List.Forall wf y ->
  csolve xmul_dual s tau y l r lsq = Ok s' ->
  csolve xmul_num (pp_map (@re R) s) tau (map (@re R) y) l r lsq = Ok (pp_map (@re R) s') /\
  forall x m d, ppdnev_single xmul_dual s' x m = Ok d ->
                ppdnev_single xmul_num (pp_map (@re R) s') x m = Ok (re d).
Proof. exact data_sens_re. Qed.

(* the same for Dual2 data: value, first-order coefficient of v, stored second-order coefficient
   of (u, v) of the solved spline = the spline solved on those observations of the data *)
Theorem C15_data_sensitivity2 : forall (u v : name) (s s' : @ppspline R (dual2 R)) tau y l r lsq,
  List.Forall wf2 y ->
  csolve xmul_dual2 s tau y l r lsq = Ok s' ->
  (forall x m d, ppdnev_single xmul_dual2 s' x m = Ok d ->
     ppdnev_single xmul_num (pp_map (@re2 R) s') x m = Ok (re2 d) /\
     ppdnev_single xmul_num (pp_map (fun d => coef1 d v) s') x m = Ok (coef1 d v) /\
     ppdnev_single xmul_num (pp_map (fun d => coef2 d u v) s') x m = Ok (coef2 d u v)) /\
  csolve xmul_num (pp_map (@re2 R) s) tau (map (@re2 R) y) l r lsq = Ok (pp_map (@re2 R) s') /\
  csolve xmul_num (pp_map (fun d => coef1 d v) s) tau (map (fun d => coef1 d v) y) l r lsq
    = Ok (pp_map (fun d => coef1 d v) s') /\
  csolve xmul_num (pp_map (fun d => coef2 d u v) s) tau (map (fun d => coef2 d u v) y) l r lsq
    = Ok (pp_map (fun d => coef2 d u v) s').
Proof.
  intros u v s s' tau y l r lsq G HS.
  destruct (data_sens2_re s s' tau y l r lsq G HS) as [A1 A2].
  destruct (data_sens2_coef1 v s s' tau y l r lsq G HS) as [B1 B2].
  destruct (data_sens2_coef2 u v s s' tau y l r lsq G HS) as [C1 C2].
  repeat split; auto.
Qed.

(* with one own variable per datum, the sensitivities of the data w.r.t. name_i are the i-th unit
   vector: the sensitivity to datum i is the spline solved on unit data e_i *)
Theorem C15_unit_data : forall names, NoDup names -> forall vals i, length vals = length names ->
  (i < length names)%nat ->
  List.Forall wf (own_vars vals names) /\
  map (fun d => coef d (nth i names [])) (own_vars vals names) = unit_vec (length names) i.
Proof. intros. split. apply own_vars_wf. apply own_vars_unit; auto. Qed.

(* Dual abscissa on a float spline: value, and the spline's own derivative as sensitivity *)
Theorem C15_abscissa : forall (X : dual R), wf X -> forall (s : @ppspline R R) m d,
  ppdnev_f_dual s X m = Ok d ->
  exists v0 v1, ppdnev_single xmul_num s (re X) m = Ok v0 /\
                ppdnev_single xmul_num s (re X) (m + 1) = Ok v1 /\
                wf d /\ re d = v0 /\ forall v, coef d v = v1 * coef X v.
Proof. exact ppdnev_f_dual_spec. Qed.

(* Dual coefficients AND a Dual abscissa (PPSpline<Dual>::ppdnev_single_dual): the sensitivity is
   the sensitivity through the data plus the spline's own derivative times the abscissa's *)
Theorem C15_abscissa_dual_spline : forall (X : dual R), wf X ->
  forall (s : @ppspline R (dual R)) c m d,
  pc s = Some c -> List.Forall wf c ->
  ppdnev_d_dual s X m = Ok d ->
  exists d0 d1, ppdnev_single xmul_dual s (re X) m = Ok d0 /\
                ppdnev_single xmul_dual s (re X) (m + 1) = Ok d1 /\
                wf d /\ re d = re d0 /\ forall v, coef d v = coef d0 v + re d1 * coef X v.
Proof. exact ppdnev_d_dual_spec. Qed.

(* Dual2 abscissa: first order as above; second order (stored half-Hessian) as coded:
   s' * X_uv + 1/2 s'' * X_u X_v *)
Theorem C15_abscissa2 : forall (X : dual2 R), wf2 X -> forall (s : @ppspline R R) m d,
  ppdnev_f_dual2 s X m = Ok d ->
  exists v0 v1 v2, ppdnev_single xmul_num s (re2 X) m = Ok v0 /\
                   ppdnev_single xmul_num s (re2 X) (m + 1) = Ok v1 /\
                   ppdnev_single xmul_num s (re2 X) (m + 2) = Ok v2 /\
                   wf2 d /\ re2 d = v0 /\ (forall v, coef1 d v = v1 * coef1 X v) /\
                   forall u v, coef2 d u v = v1 * coef2 X u v + / 2 * v2 * (coef1 X u * coef1 X v).
Proof. exact ppdnev_f_dual2_spec. Qed.

(* Dual2 coefficients AND a Dual2 abscissa (PPSpline<Dual2>::ppdnev_single_dual2): value, first
   order as for Dual, and the stored second-order coefficient with all cross terms:
   data part + s' X_uv + 1/2 s'' X_u X_v + 1/2 (d/du s' X_v + d/dv s' X_u) *)
Theorem C15_abscissa2_dual2_spline : forall (X : dual2 R), wf2 X ->
  forall (s : @ppspline R (dual2 R)) c m d,
  pc s = Some c -> List.Forall wf2 c ->
  ppdnev_d2_dual2 s X m = Ok d ->
  exists d0 d1 d2, ppdnev_single xmul_dual2 s (re2 X) m = Ok d0 /\
                   ppdnev_single xmul_dual2 s (re2 X) (m + 1) = Ok d1 /\
                   ppdnev_single xmul_dual2 s (re2 X) (m + 2) = Ok d2 /\
                   wf2 d /\ re2 d = re2 d0 /\
                   (forall v, coef1 d v = coef1 d0 v + re2 d1 * coef1 X v) /\
                   forall u v, coef2 d u v = coef2 d0 u v + re2 d1 * coef2 X u v
                                 + / 2 * re2 d2 * (coef1 X u * coef1 X v)
                                 + / 2 * (coef1 d1 u * coef1 X v + coef1 d1 v * coef1 X u).
Proof. exact ppdnev_d2_dual2_spec. Qed.

(* ONE basis function at a dual-number abscissa (bsplev_single_dual / bsplev_single_dual2 with org_k = None): it is
   the derivative evaluation at order 0; its value is B_i(re X), its sensitivities are B_i'(re X) times the abscissa's,
   and at second order the stored half-Hessian is B_i' X_uv + 1/2 B_i'' X_u X_v; the names are the abscissa's *)
Theorem C15_basis_abscissa : forall (X : dual R), wf X -> forall i k t D,
  bsplev_dual X i k t None = bspldnev_dual X i k t 0 None /\
  (bsplev_dual X i k t None = Ok D ->
   exists b db, bsplev (re X) i k t None = Ok b /\ bspldnev (re X) i k t 1 None = Ok db /\
                wf D /\ vs D = vs X /\ re D = b /\ forall v, coef D v = db * coef X v).
Proof. intros X WX i k t D. split; [apply bsplev_dual_is_dn|apply bsplev_dual_spec; exact WX]. Qed.
Theorem C15_basis_abscissa2 : forall (X : dual2 R), wf2 X -> forall i k t D,
  bsplev_dual2 X i k t None = bspldnev_dual2 X i k t 0 None /\
  (bsplev_dual2 X i k t None = Ok D ->
   exists b db d2b, bsplev (re2 X) i k t None = Ok b /\ bspldnev (re2 X) i k t 1 None = Ok db /\
                    bspldnev (re2 X) i k t 2 None = Ok d2b /\
                    wf2 D /\ vs2 D = vs2 X /\ re2 D = b /\ (forall v, coef1 D v = db * coef1 X v) /\
                    forall u v, coef2 D u v = db * coef2 X u v + (/ 2 * d2b) * (coef1 X u * coef1 X v)).
Proof. intros X WX i k t D. split; [apply bsplev_dual2_is_dn|apply bsplev_dual2_spec; exact WX]. Qed.

(* the vector form PPSpline::bspldnev: one entry per abscissa, entry j = the m-th derivative of basis function i at x_j *)
Theorem C15_basis_vector : forall {T : Type} {H : Num T} {E : Type} (s : @ppspline T E) xs i m ys,
  pp_bspldnev s xs i m = Ok ys ->
  length ys = length xs /\
  forall j x, nth_error xs j = Some x -> exists y, nth_error ys j = Some y /\ bspldnev x i (pk s) (pt s) m None = Ok y.
Proof. exact @pp_bspldnev_spec. Qed.

(* THE COLLOCATION MATRIX, entry by entry (PPSpline::bsplmatrix): one row per data site; row j, column i holds the basis
   derivative bspldnev(tau_j, i, k, t, m, None) of order m = row_m l r |tau| j - left_n on the first site, right_n on
   the last (the last wins on a one-row matrix), the plain value between - whatever the site is (interior knots and end
   points included: C14 says what that derivative is there).  Any number type. *)
Theorem C15_collocation_entry : forall {T : Type} {H : Num T} {E : Type} (s : @ppspline T E) tau l r B j x i,
  (1 <= pn s)%nat -> bsplmatrix s tau l r = Ok B -> nth_error tau j = Some x -> (i < pn s)%nat ->
  exists row v, nth_error B j = Some row /\ nth_error row i = Some v /\ length row = pn s /\
    bspldnev x i (pk s) (pt s) (row_m l r (length tau) j) None = Ok v.
Proof. exact @collocation_entry. Qed.

(* == of two splines (PartialEq for PPSpline): same order, same count, same knots, and coefficients both absent or both
   present and pairwise equal - i.e. equality of the four fields, whenever the coefficient type's == decides equality *)
Theorem C15_spline_eq : forall {E : Type} (e : E -> E -> bool), (forall x y, e x y = true <-> x = y) ->
  forall a b : @ppspline R E, pp_eqb e a b = true <-> (pk a = pk b /\ pn a = pn b /\ pt a = pt b /\ pc a = pc b).
Proof. exact @pp_eqb_spec. Qed.

(* the 3 x 3 table spline kind x abscissa kind of mapped_value: with coefficients present, seven
   cells never return an error and answer in the stated kind (0 float, 1 Dual, 2 Dual2); the cells
   (Dual spline, Dual2 abscissa) and (Dual2 spline, Dual abscissa) are errors *)
Theorem C15_kind_table : forall {T : Type} {H : Num T},
  (forall (s : @ppspline T T) c x, pc s = Some c -> okind kind_of (mapped_value_f s x) (kind_of x)) /\
  (forall (s : @ppspline T (dual T)) c x, pc s = Some c ->
     match x with
     | NF _ | ND _ => okind kind_of (mapped_value_d s x) 1
     | ND2 _ => mapped_value_d s x = Err
     end) /\
  (forall (s : @ppspline T (dual2 T)) c x, pc s = Some c ->
     match x with
     | NF _ | ND2 _ => okind kind_of (mapped_value_d2 s x) 2
     | ND _ => mapped_value_d2 s x = Err
     end).
Proof. intros. split; [exact table_f|split; [exact table_d|exact table_d2]]. Qed.

(* polynomial reproduction, by uniqueness of the solution *)
Theorem C15_poly_partial : forall k n t (c0 : option (list R)) (s' : @ppspline R R) tau y l r
    (p : R -> R) cstar,
  admissible k n t ->
  csolve xmul_num (mkPP k t c0 n) tau y l r false = Ok s' ->
  (forall B c, bsplmatrix (mkPP k t c0 n) tau l r = Ok B -> pc s' = Some c ->
     fmat_vec xmul_num B c = y /\ length c = n /\
     forall c2, length c2 = n -> fmat_vec xmul_num B c2 = y -> c2 = c) ->
  length cstar = n ->
  (forall j, (k - 1 <= j <= n - 1)%nat -> tn t j < tn t (S j) ->
     forall x, dotR (map (fun i => P (tn t) j k i x) (seq 0 n)) cstar = p x) ->
  (forall jx x, nth_error tau jx = Some x -> tn t (k - 1) <= x <= tn t n) ->
  length y = length tau ->
  (forall jx x, nth_error tau jx = Some x ->
     nth_error y jx = Some (Derive_n p (row_m l r (length tau) jx) x)) ->
  forall x m, tn t (k - 1) <= x <= tn t n ->
    ppdnev_single xmul_num s' x m = Ok (Derive_n p m x).
Proof. exact poly_partial. Qed.
Theorem C15_poly_partial_R : forall k n t (c0 : option (list R)) (s' : @ppspline R R) tau y l r
    (p : R -> R) cstar,
  admissible k n t ->
  csolve xmul_num (mkPP k t c0 n) tau y l r false = Ok s' ->
  (forall B, bsplmatrix (mkPP k t c0 n) tau l r = Ok B -> nonsingular n B) ->
  length cstar = n ->
  (forall j, (k - 1 <= j <= n - 1)%nat -> tn t j < tn t (S j) ->
     forall x, dotR (map (fun i => P (tn t) j k i x) (seq 0 n)) cstar = p x) ->
  (forall jx x, nth_error tau jx = Some x -> tn t (k - 1) <= x <= tn t n) ->
  length y = length tau ->
  (forall jx x, nth_error tau jx = Some x ->
     nth_error y jx = Some (Derive_n p (row_m l r (length tau) jx) x)) ->
  forall x m, tn t (k - 1) <= x <= tn t n ->
    ppdnev_single xmul_num s' x m = Ok (Derive_n p m x).
Proof. exact poly_partial_R. Qed.
(* Marsden's identity on the piece polynomials, every order and knot sequence:
   (x - tau)^(k-1) = Sigma_i psi_{i,k}(tau) B_{i,k}(x) with psi_{i,k}(tau) = Prod_{r=1..k-1} (t_{i+r} - tau) *)
Theorem C15_marsden : forall (tf : nat -> R), (forall a b, (a <= b)%nat -> tf a <= tf b) ->
  forall j, tf j < tf (S j) ->
  forall k N x tau, (1 <= k)%nat -> (k - 1 <= j)%nat -> (j < N)%nat ->
  sumf (fun i => psi tf k i tau * P tf j k i x) N = (x - tau) ^ (k - 1).
Proof. exact marsden. Qed.

(* Polynomial reproduction without the c* hypothesis, for every p(x) = Sigma_q a_q (x - tau_q)^(k-1)
   (any finite list of (a_q, tau_q)): the solved spline on samples of p - values inside, the
   requested derivatives at the two end sites - equals p and all its derivatives on the whole
   domain, provided only that the collocation matrix is non-singular.
   (Superseded by C15_poly below, which covers every polynomial of degree < k; kept.) *)
Theorem C15_poly_marsden_partial : forall k n t (c0 : option (list R)) (s' : @ppspline R R) tau y l r
    (q : list (R * R)),
  admissible k n t ->
  csolve xmul_num (mkPP k t c0 n) tau y l r false = Ok s' ->
  (forall B, bsplmatrix (mkPP k t c0 n) tau l r = Ok B -> nonsingular n B) ->
  (forall jx x, nth_error tau jx = Some x -> tn t (k - 1) <= x <= tn t n) ->
  length y = length tau ->
  (forall jx x, nth_error tau jx = Some x ->
     nth_error y jx = Some (Derive_n (shifted_powers k q) (row_m l r (length tau) jx) x)) ->
  forall x m, tn t (k - 1) <= x <= tn t n ->
    ppdnev_single xmul_num s' x m = Ok (Derive_n (shifted_powers k q) m x).
Proof. exact poly_marsden_R. Qed.

(* Every polynomial of degree < k is a combination of the B-splines with explicit coefficients:
   compare the coefficients of tau^d on both sides of Marsden's identity (binomial theorem on the
   left; a real polynomial vanishing everywhere has zero coefficients).
   peval a x = a_0 + a_1 x + a_2 x^2 + ... (C15_peval_monomials). *)
Theorem C15_peval_monomials : forall a x, peval a x = sumf (fun j => nth j a 0 * x ^ j) (length a).
Proof. exact peval_monomials. Qed.

Theorem C15_poly_coeffs : forall k n t a, admissible k n t -> (length a <= k)%nat ->
  forall j, (k - 1 <= j <= n - 1)%nat -> tn t j < tn t (S j) ->
  forall x, dotR (map (fun i => P (tn t) j k i x) (seq 0 n)) (poly_cstar k n t a) = peval a x.
Proof. exact poly_cstar_repro. Qed.

(* C15_poly, FULL: for every polynomial p of degree below the order (any coefficient list a of
   length <= k), the spline solved on samples of p - values at the interior sites, the requested
   derivatives at the two end sites - equals p, and every derivative of the spline equals the
   corresponding derivative of p, at every point of the domain.  Only hypothesis on the data
   sites: the collocation matrix is non-singular. *)
Theorem C15_poly : forall k n t (c0 : option (list R)) (s' : @ppspline R R) tau y l r (a : list R),
  admissible k n t -> (length a <= k)%nat ->
  csolve xmul_num (mkPP k t c0 n) tau y l r false = Ok s' ->
  (forall B, bsplmatrix (mkPP k t c0 n) tau l r = Ok B -> nonsingular n B) ->
  (forall jx x, nth_error tau jx = Some x -> tn t (k - 1) <= x <= tn t n) ->
  length y = length tau ->
  (forall jx x, nth_error tau jx = Some x ->
     nth_error y jx = Some (Derive_n (peval a) (row_m l r (length tau) jx) x)) ->
  forall x m, tn t (k - 1) <= x <= tn t n ->
    ppdnev_single xmul_num s' x m = Ok (Derive_n (peval a) m x).
Proof. exact poly_R. Qed.

(* degree 0 directly: the constants are reproduced by c* = (1, ..., 1) *)
Theorem C15_poly_const_hyp : forall k n t, admissible k n t ->
  forall j, (k - 1 <= j <= n - 1)%nat -> tn t j < tn t (S j) ->
  forall x, dotR (map (fun i => P (tn t) j k i x) (seq 0 n)) (repeat 1 n) = 1.
Proof. exact ones_reproduce_one. Qed.

(* non-vacuity: well-formed dual abscissae and data exist; the error condition is satisfiable both ways *)
Example C15_nonvacuous :
  wf (dual_new 1 [[120%Z]]) /\ List.Forall wf (own_vars [1; 2] [[97%Z]; [98%Z]]) /\
  csolve xmul_num (mkPP 2%nat [0; 0; 1; 1] None 2%nat) [0] [1; 2] 0 0 false = Err.
Proof.
  split; [apply wf_dual_new|]. split; [apply own_vars_wf|].
  apply C15_errors. left. cbn. split; [lia|]. intros [A _]. discriminate.
Qed.

(* peval reads a coefficient list lowest degree first: 1 + 2 x + 3 x^2 at x = 2 *)
Example C15_peval_example : peval [1; 2; 3] 2 = 17.
Proof. cbn. ring. Qed.

Print Assumptions C15_errors.
Print Assumptions C15_interpolates.
Print Assumptions C15_interpolates_R.
Print Assumptions C15_data_sensitivity.
Print Assumptions C15_data_value.
Print Assumptions C15_data_sensitivity2.
Print Assumptions C15_unit_data.
Print Assumptions C15_abscissa.
Print Assumptions C15_abscissa2.
Print Assumptions C15_abscissa_dual_spline.
Print Assumptions C15_kind_table.
Print Assumptions C15_poly_partial.
Print Assumptions C15_poly_partial_R.
Print Assumptions C15_marsden.
Print Assumptions C15_poly_marsden_partial.
Print Assumptions C15_poly_const_hyp.
Print Assumptions C15_peval_monomials.
Print Assumptions C15_poly_coeffs.
Print Assumptions C15_poly.
Print Assumptions C15_abscissa2_dual2_spline.
Print Assumptions C15_basis_abscissa.
Print Assumptions C15_basis_abscissa2.
Print Assumptions C15_basis_vector.
Print Assumptions C15_spline_eq.
