(* C03 — Derivatives are tracked by variable name, whatever the internal layout. *)
From Coq Require Import Reals ZArith List Bool Lra.
From RL Require Import Base.Num Base.Str Base.NumR Base.Outcome Model.Dual Proofs.NumRP Proofs.DualP Proofs.Dual2P Proofs.LayoutP Proofs.RelistP.
Import ListNotations.
Open Scope R_scope.

(* Every binary operator on first-order numbers: for ANY two well-formed operands (any ordered
   variable lists: permutations, subsets, supersets, disjoint, overlapping), shared or unshared
   storage (p), the result is well-formed (duplicate-free names, derivative array of matching
   length), carries exactly the union of the operands' names, and its value and derivative per
   name are the textbook functions of the operands' values and derivatives per name. *)
Theorem C03_refines_dual : forall p a b, wf a -> wf b -> (p = true -> vs a = vs b) ->
  (wf (dadd p a b) /\ re (dadd p a b) = re a + re b /\
     (forall v, coef (dadd p a b) v = coef a v + coef b v) /\ in_union (dadd p a b) a b) /\
  (wf (dsub p a b) /\ re (dsub p a b) = re a - re b /\
     (forall v, coef (dsub p a b) v = coef a v - coef b v) /\ in_union (dsub p a b) a b) /\
  (wf (dmul p a b) /\ re (dmul p a b) = re a * re b /\
     (forall v, coef (dmul p a b) v = coef a v * re b + coef b v * re a) /\ in_union (dmul p a b) a b) /\
  (wf (ddiv p a b) /\ re (ddiv p a b) = re a * (1 / re b) /\
     (forall v, coef (ddiv p a b) v = coef a v * (1 / re b) + (-1 / (re b * re b) * coef b v) * re a) /\
     in_union (ddiv p a b) a b) /\
  (wf (drem p a b) /\ re (drem p a b) = re a - re b * Rtrunc (re a / re b) /\
     (forall v, coef (drem p a b) v = coef a v - Rtrunc (re a / re b) * coef b v) /\ in_union (drem p a b) a b).
Proof.
  intros p a b WA WB HP. repeat split;
    first [apply (dadd_spec p a b WA WB HP) | apply (dsub_spec p a b WA WB HP) | apply (dmul_spec p a b WA WB HP)
          | apply (ddiv_spec p a b WA WB HP) | apply (drem_spec p a b WA WB HP)].
Qed.

(* the same for second-order numbers, including the stored half-Hessian per pair of names *)
Theorem C03_refines_dual2 : forall p a b, wf2 a -> wf2 b -> (p = true -> vs2 a = vs2 b) ->
  (wf2 (d2add p a b) /\ re2 (d2add p a b) = re2 a + re2 b /\
     (forall v, coef1 (d2add p a b) v = coef1 a v + coef1 b v) /\
     (forall u v, coef2 (d2add p a b) u v = coef2 a u v + coef2 b u v) /\ in_union2 (d2add p a b) a b) /\
  (wf2 (d2sub p a b) /\ re2 (d2sub p a b) = re2 a - re2 b /\
     (forall v, coef1 (d2sub p a b) v = coef1 a v - coef1 b v) /\
     (forall u v, coef2 (d2sub p a b) u v = coef2 a u v - coef2 b u v) /\ in_union2 (d2sub p a b) a b) /\
  (wf2 (d2mul p a b) /\ re2 (d2mul p a b) = re2 a * re2 b /\
     (forall v, coef1 (d2mul p a b) v = coef1 a v * re2 b + coef1 b v * re2 a) /\
     (forall u v, coef2 (d2mul p a b) u v =
        coef2 a u v * re2 b + coef2 b u v * re2 a + / 2 * (coef1 a u * coef1 b v + coef1 a v * coef1 b u)) /\
     in_union2 (d2mul p a b) a b) /\
  (wf2 (d2div p a b) /\ in_union2 (d2div p a b) a b) /\
  (wf2 (d2rem p a b) /\ re2 (d2rem p a b) = re2 a - re2 b * Rtrunc (re2 a / re2 b) /\
     (forall v, coef1 (d2rem p a b) v = coef1 a v - Rtrunc (re2 a / re2 b) * coef1 b v) /\
     (forall u v, coef2 (d2rem p a b) u v = coef2 a u v - Rtrunc (re2 a / re2 b) * coef2 b u v) /\
     in_union2 (d2rem p a b) a b).
Proof.
  intros p a b WA WB HP. repeat split;
    first [apply (d2add_spec p a b WA WB HP) | apply (d2sub_spec p a b WA WB HP) | apply (d2mul_spec p a b WA WB HP)
          | apply (d2div_spec p a b WA WB HP) | apply (d2rem_spec p a b WA WB HP)].
Qed.

(* layout independence: operands that are equal by value and by derivative per name (≈: other order
   of variables, extra variables with zero derivative, shared or unshared lists) give ≈-equal results *)
Definition ops1 : list (bool -> dual R -> dual R -> dual R) := [dadd; dsub; dmul; ddiv; drem].
Definition ops2 : list (bool -> dual2 R -> dual2 R -> dual2 R) := [d2add; d2sub; d2mul; d2div; d2rem].
Theorem C03_layout_independent_dual : forall op, In op ops1 ->
  forall p p' a a' b b', wf a -> wf b -> wf a' -> wf b' ->
    (p = true -> vs a = vs b) -> (p' = true -> vs a' = vs b') ->
    a ≈ a' -> b ≈ b' -> op p a b ≈ op p' a' b'.
Proof.
  intros op I. cbn in I. destruct I as [E|[E|[E|[E|[E|[]]]]]]; subst op.
  - apply (layout_indep1 dadd Rplus (fun _ ca _ cb => ca + cb)). intros. split; apply dadd_spec; auto.
  - apply (layout_indep1 dsub Rminus (fun _ ca _ cb => ca - cb)). intros. split; apply dsub_spec; auto.
  - apply (layout_indep1 dmul Rmult (fun ra ca rb cb => ca * rb + cb * ra)). intros. split; apply dmul_spec; auto.
  - apply (layout_indep1 ddiv (fun ra rb => ra * (1 / rb)) (fun ra ca rb cb => ca * (1 / rb) + (-1 / (rb * rb) * cb) * ra)).
    intros. split; apply ddiv_spec; auto.
  - apply (layout_indep1 drem (fun ra rb => ra - rb * Rtrunc (ra / rb)) (fun ra ca rb cb => ca - Rtrunc (ra / rb) * cb)).
    intros. split; apply drem_spec; auto.
Qed.
Theorem C03_layout_independent_dual2 : forall op, In op ops2 ->
  forall p p' a a' b b', wf2 a -> wf2 b -> wf2 a' -> wf2 b' ->
    (p = true -> vs2 a = vs2 b) -> (p' = true -> vs2 a' = vs2 b') ->
    a ≈₂ a' -> b ≈₂ b' -> op p a b ≈₂ op p' a' b'.
Proof.
  intros op I. cbn in I. destruct I as [E|[E|[E|[E|[E|[]]]]]]; subst op.
  - apply (layout_indep2 d2add Rplus (fun _ ca _ cb => ca + cb) (fun _ _ _ ha _ _ _ hb => ha + hb)).
    intros. repeat split; apply d2add_spec; auto.
  - apply (layout_indep2 d2sub Rminus (fun _ ca _ cb => ca - cb) (fun _ _ _ ha _ _ _ hb => ha - hb)).
    intros. repeat split; apply d2sub_spec; auto.
  - apply (layout_indep2 d2mul Rmult (fun ra ca rb cb => ca * rb + cb * ra)
             (fun ra cau cav ha rb cbu cbv hb => ha * rb + hb * ra + / 2 * (cau * cbv + cav * cbu))).
    intros. repeat split; apply d2mul_spec; auto.
  - apply (layout_indep2 d2div (fun ra rb => ra * Rpowf rb (-1))
             (fun ra ca rb cb => ca * Rpowf rb (-1) + cb * (-1 * Rpowf rb (-1 - 1)) * ra)
             (fun ra cau cav ha rb cbu cbv hb =>
                ha * Rpowf rb (-1) + (hb * (-1 * Rpowf rb (-1 - 1)) + cbu * cbv * (/ 2 * -1 * (-1 - 1) * Rpowf rb (-1 - 2))) * ra
                + / 2 * (cau * (cbv * (-1 * Rpowf rb (-1 - 1))) + cav * (cbu * (-1 * Rpowf rb (-1 - 1)))))).
    intros. repeat split; apply d2div_spec; auto.
  - apply (layout_indep2 d2rem (fun ra rb => ra - rb * Rtrunc (ra / rb)) (fun ra ca rb cb => ca - Rtrunc (ra / rb) * cb)
             (fun ra _ _ ha rb _ _ hb => ha - Rtrunc (ra / rb) * hb)).
    intros. repeat split; apply d2rem_spec; auto.
Qed.

(* == is exactly "same value and same derivative for every name": a missing variable and a zero
   derivative are the same thing *)
Theorem C03_eq_spec : forall p a b, wf a -> wf b -> (p = true -> vs a = vs b) ->
  (deqb p a b = true <-> a ≈ b).
Proof. exact deqb_spec. Qed.
Theorem C03_eq_spec2 : forall p a b, wf2 a -> wf2 b -> (p = true -> vs2 a = vs2 b) ->
  (d2eqb p a b = true <-> a ≈₂ b).
Proof. exact d2eqb_spec. Qed.

(* re-listing a number's derivatives on ANY duplicate-free list that contains its variables (other
   order, extra variables) changes nothing observable *)
Theorem C03_relisting : forall a target, wf a -> NoDup target -> (forall v, In v (vs a) -> In v target) ->
  wf (to_new_vars a target Subset) /\ vs (to_new_vars a target Subset) = target /\ to_new_vars a target Subset ≈ a.
Proof.
  intros a target WA ND S.
  destruct (to_new_vars_lookup_spec a target Subset ltac:(congruence) ltac:(congruence) ND) as (R1 & R2 & R3 & R4).
  split; [exact R3|]. split; [exact R2|]. split; [exact R1|]. intros v. rewrite R4.
  destruct (mem v target) eqn:M; auto. apply mem_false in M. symmetry. apply coef_notin. auto.
Qed.

(* the PUBLIC re-listing call `a.to_new_vars(target, None)` (the relationship is found by vars_cmp: the same Arc (p),
   an equal list, a superset, a subset, unrelated): for ANY duplicate-free target the result is well formed, lists
   exactly the target, keeps the value and has per name the coefficient of `a` on the names the target has and zero
   elsewhere; when the target has all of a's names nothing observable changes *)
Theorem C03_relisting_auto : forall p (a : dual R) target, wf a -> NoDup target -> (p = true -> vs a = target) ->
  wf (to_new_vars_auto p a target) /\ vs (to_new_vars_auto p a target) = target /\
  re (to_new_vars_auto p a target) = re a /\
  (forall v, coef (to_new_vars_auto p a target) v = if mem v target then coef a v else 0) /\
  ((forall v, In v (vs a) -> In v target) -> to_new_vars_auto p a target ≈ a).
Proof.
  intros p a target WA ND HP. destruct (to_new_vars_auto_spec p a target WA ND HP) as (A & B & C & D).
  repeat split; auto; try apply A; apply (to_new_vars_auto_deq p a target WA ND HP); auto.
Qed.
Theorem C03_relisting_auto2 : forall p (a : dual2 R) target, wf2 a -> NoDup target -> (p = true -> vs2 a = target) ->
  wf2 (to_new_vars2_auto p a target) /\ vs2 (to_new_vars2_auto p a target) = target /\
  re2 (to_new_vars2_auto p a target) = re2 a /\
  (forall v, coef1 (to_new_vars2_auto p a target) v = if mem v target then coef1 a v else 0) /\
  (forall u v, coef2 (to_new_vars2_auto p a target) u v = if mem u target && mem v target then coef2 a u v else 0) /\
  ((forall v, In v (vs2 a) -> In v target) -> to_new_vars2_auto p a target ≈₂ a).
Proof.
  intros p a target WA ND HP. destruct (to_new_vars2_auto_spec p a target WA ND HP) as (A & B & C & D1 & D2).
  split; [exact A|]. split; [exact B|]. split; [exact C|]. split; [exact D1|]. split; [exact D2|].
  apply (to_new_vars2_auto_deq p a target WA ND HP).
Qed.

(* the PUBLIC pairing call `a.to_union_vars(&b, None)`: the two results share one duplicate-free list holding exactly
   the union of the names, are well formed, and each keeps its value and its coefficient per name *)
Theorem C03_union_vars : forall p (a b : dual R), wf a -> wf b -> (p = true -> vs a = vs b) ->
  let '(x, y) := to_union_vars_auto p a b in
  vs x = vs y /\ wf x /\ wf y /\ re x = re a /\ re y = re b /\
  (forall v, coef x v = coef a v) /\ (forall v, coef y v = coef b v) /\
  (forall v, In v (vs x) <-> In v (vs a) \/ In v (vs b)).
Proof.
  intros p a b WA WB HP. pose proof (to_union_vars_auto_spec p a b WA WB HP) as S.
  destruct (to_union_vars_auto p a b) as [x y].
  destruct S as [Avs [NX LX] [NY LY] Arx Ary Acx Acy Ain]. repeat split; auto; apply Ain.
Qed.
Theorem C03_union_vars2 : forall p (a b : dual2 R), wf2 a -> wf2 b -> (p = true -> vs2 a = vs2 b) ->
  let '(x, y) := to_union_vars2_auto p a b in
  vs2 x = vs2 y /\ wf2 x /\ wf2 y /\ re2 x = re2 a /\ re2 y = re2 b /\
  (forall v, coef1 x v = coef1 a v) /\ (forall v, coef1 y v = coef1 b v) /\
  (forall u v, coef2 x u v = coef2 a u v) /\ (forall u v, coef2 y u v = coef2 b u v) /\
  (forall v, In v (vs2 x) <-> In v (vs2 a) \/ In v (vs2 b)).
Proof.
  intros p a b WA WB HP. pose proof (to_union_vars2_auto_spec p a b WA WB HP) as S.
  destruct (to_union_vars2_auto p a b) as [x y].
  destruct S as [Avs WX WY Arx Ary Acx Acy Accx Accy Ain]. repeat split; auto; try apply WX; try apply WY; apply Ain.
Qed.

(* constructors on another number's variable list (`other` = the duplicate-free names of any number of either order):
   `try_new_from` fails exactly when `try_new` fails (never aborts); otherwise the number is well formed, lists exactly
   `other`'s names, has the requested value, and per name the coefficient `try_new` would give on shared names, zero
   elsewhere (names given but absent from `other` are dropped).  `new_from`: unit sensitivities on the shared names. *)
Theorem C03_new_from : forall other r vars d, NoDup other ->
  match dual_try_new r vars d with
  | Ok n => exists x, dual_try_new_from other r vars d = Ok x /\ wf x /\ vs x = other /\ re x = r /\
                      forall v, coef x v = if mem v other then coef n v else 0
  | Err => dual_try_new_from other r vars d = Err
  | Panic => False
  end /\
  (dual_try_new r vars d = Err <->
   length (dedup vars) <> length (match d with [] => vones (length (dedup vars)) | _ => d end)) /\
  (wf (dual_new_from other r vars) /\ vs (dual_new_from other r vars) = other /\ re (dual_new_from other r vars) = r /\
   forall v, coef (dual_new_from other r vars) v = if mem v other && mem v vars then 1 else 0).
Proof.
  intros other r vars d ND. split; [apply dual_try_new_from_spec; exact ND|].
  split; [apply dual_try_new_err|apply dual_new_from_spec; exact ND].
Qed.
Theorem C03_new_from2 : forall other r vars d d2, NoDup other ->
  match dual2_try_new r vars d d2 with
  | Ok n => exists x, dual2_try_new_from other r vars d d2 = Ok x /\ wf2 x /\ vs2 x = other /\ re2 x = r /\
                      (forall v, coef1 x v = if mem v other then coef1 n v else 0) /\
                      (forall u v, coef2 x u v = if mem u other && mem v other then coef2 n u v else 0)
  | Err => dual2_try_new_from other r vars d d2 = Err
  | Panic => False
  end /\
  (wf2 (dual2_new_from other r vars) /\ vs2 (dual2_new_from other r vars) = other /\
   re2 (dual2_new_from other r vars) = r /\
   (forall v, coef1 (dual2_new_from other r vars) v = if mem v other && mem v vars then 1 else 0) /\
   forall u v, coef2 (dual2_new_from other r vars) u v = 0).
Proof.
  intros other r vars d d2 ND. split; [apply dual2_try_new_from_spec; exact ND|apply dual2_new_from_spec; exact ND].
Qed.

Example C03_example :
  let x := [120%Z] in let y := [121%Z] in
  let a := mkDual 2 [x; y] [3; 0] in let b := mkDual 2 [y; x] [0; 3] in let c := mkDual 2 [x] [3] in
  wf a /\ wf b /\ wf c /\ a ≈ b /\ a ≈ c.
Proof.
  cbn. repeat split; cbn; try (repeat constructor; cbn; intuition congruence); try reflexivity;
    intros v; unfold coef, lk, lookup_or_zero; cbn;
    destruct (name_eqb v [120%Z]) eqn:E1; destruct (name_eqb v [121%Z]) eqn:E2; cbn; try reflexivity;
    apply name_eqb_eq in E1; apply name_eqb_eq in E2; congruence.
Qed.

Print Assumptions C03_refines_dual.
Print Assumptions C03_refines_dual2.
Print Assumptions C03_layout_independent_dual.
Print Assumptions C03_layout_independent_dual2.
Print Assumptions C03_eq_spec.
Print Assumptions C03_eq_spec2.
Print Assumptions C03_relisting.
Print Assumptions C03_relisting_auto.
Print Assumptions C03_relisting_auto2.
Print Assumptions C03_union_vars.
Print Assumptions C03_union_vars2.
Print Assumptions C03_new_from.
Print Assumptions C03_new_from2.
