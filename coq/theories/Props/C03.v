(* C03 — Derivatives are tracked by variable name, whatever the internal layout. *)
From Coq Require Import Reals ZArith List Bool Lra.
From RL Require Import Base.Num Base.Str Base.NumR Model.Dual Proofs.NumRP Proofs.DualP Proofs.Dual2P Proofs.LayoutP.
Import ListNotations.
Open Scope R_scope.

(* Every binary operator on first-order numbers: for ANY two well-formed operands (any ordered
   variable lists: permutations, subsets, supersets, disjoint, overlapping), shared or unshared
   storage (p), the result is well-formed (duplicate-free names, derivative array of matching
   length), carries exactly the union of the operands' names, and its value and derivative per
   name are the textbook functions of the operands' values and derivatives per name. *)
Theorem C03_refines_dual : forall p a b, wf a -> wf b -> (p = true -> vs a = vs b) ->
  (wf (dadd p a b) /\ re (dadd p a b) = re a + re b /\
     (forall v, coef (dadd p a b) v = coef a v + coef b v) /\ in_union (dadd p a b) a b) /\
  (wf (dsub p a b) /\ re (dsub p a b) = re a - re b /\
     (forall v, coef (dsub p a b) v = coef a v - coef b v) /\ in_union (dsub p a b) a b) /\
  (wf (dmul p a b) /\ re (dmul p a b) = re a * re b /\
     (forall v, coef (dmul p a b) v = coef a v * re b + coef b v * re a) /\ in_union (dmul p a b) a b) /\
  (wf (ddiv p a b) /\ re (ddiv p a b) = re a * (1 / re b) /\
     (forall v, coef (ddiv p a b) v = coef a v * (1 / re b) + (-1 / (re b * re b) * coef b v) * re a) /\
     in_union (ddiv p a b) a b) /\
  (wf (drem p a b) /\ re (drem p a b) = re a - re b * Rtrunc (re a / re b) /\
     (forall v, coef (drem p a b) v = coef a v - Rtrunc (re a / re b) * coef b v) /\ in_union (drem p a b) a b).
Proof.
  intros p a b WA WB HP. repeat split;
    first [apply (dadd_spec p a b WA WB HP) | apply (dsub_spec p a b WA WB HP) | apply (dmul_spec p a b WA WB HP)
          | apply (ddiv_spec p a b WA WB HP) | apply (drem_spec p a b WA WB HP)].
Qed.

(* the same for second-order numbers, including the stored half-Hessian per pair of names *)
Theorem C03_refines_dual2 : forall p a b, wf2 a -> wf2 b -> (p = true -> vs2 a = vs2 b) ->
  (wf2 (d2add p a b) /\ re2 (d2add p a b) = re2 a + re2 b /\
     (forall v, coef1 (d2add p a b) v = coef1 a v + coef1 b v) /\
     (forall u v, coef2 (d2add p a b) u v = coef2 a u v + coef2 b u v) /\ in_union2 (d2add p a b) a b) /\
  (wf2 (d2sub p a b) /\ re2 (d2sub p a b) = re2 a - re2 b /\
     (forall v, coef1 (d2sub p a b) v = coef1 a v - coef1 b v) /\
     (forall u v, coef2 (d2sub p a b) u v = coef2 a u v - coef2 b u v) /\ in_union2 (d2sub p a b) a b) /\
  (wf2 (d2mul p a b) /\ re2 (d2mul p a b) = re2 a * re2 b /\
     (forall v, coef1 (d2mul p a b) v = coef1 a v * re2 b + coef1 b v * re2 a) /\
     (forall u v, coef2 (d2mul p a b) u v =
        coef2 a u v * re2 b + coef2 b u v * re2 a + / 2 * (coef1 a u * coef1 b v + coef1 a v * coef1 b u)) /\
     in_union2 (d2mul p a b) a b) /\
  (wf2 (d2div p a b) /\ in_union2 (d2div p a b) a b) /\
  (wf2 (d2rem p a b) /\ re2 (d2rem p a b) = re2 a - re2 b * Rtrunc (re2 a / re2 b) /\
     (forall v, coef1 (d2rem p a b) v = coef1 a v - Rtrunc (re2 a / re2 b) * coef1 b v) /\
     (forall u v, coef2 (d2rem p a b) u v = coef2 a u v - Rtrunc (re2 a / re2 b) * coef2 b u v) /\
     in_union2 (d2rem p a b) a b).
Proof.
  intros p a b WA WB HP. repeat split;
    first [apply (d2add_spec p a b WA WB HP) | apply (d2sub_spec p a b WA WB HP) | apply (d2mul_spec p a b WA WB HP)
          | apply (d2div_spec p a b WA WB HP) | apply (d2rem_spec p a b WA WB HP)].
Qed.

(* layout independence: operands that are equal by value and by derivative per name (≈: other order
   of variables, extra variables with zero derivative, shared or unshared lists) give ≈-equal results *)
Definition ops1 : list (bool -> dual R -> dual R -> dual R) := [dadd; dsub; dmul; ddiv; drem].
Definition ops2 : list (bool -> dual2 R -> dual2 R -> dual2 R) := [d2add; d2sub; d2mul; d2div; d2rem].
Theorem C03_layout_independent_dual : forall op, In op ops1 ->
  forall p p' a a' b b', wf a -> wf b -> wf a' -> wf b' ->
    (p = true -> vs a = vs b) -> (p' = true -> vs a' = vs b') ->
    a ≈ a' -> b ≈ b' -> op p a b ≈ op p' a' b'.
Proof.
  intros op I. cbn in I. destruct I as [E|[E|[E|[E|[E|[]]]]]]; subst op.
  - apply (layout_indep1 dadd Rplus (fun _ ca _ cb => ca + cb)). intros. split; apply dadd_spec; auto.
  - apply (layout_indep1 dsub Rminus (fun _ ca _ cb => ca - cb)). intros. split; apply dsub_spec; auto.
  - apply (layout_indep1 dmul Rmult (fun ra ca rb cb => ca * rb + cb * ra)). intros. split; apply dmul_spec; auto.
  - apply (layout_indep1 ddiv (fun ra rb => ra * (1 / rb)) (fun ra ca rb cb => ca * (1 / rb) + (-1 / (rb * rb) * cb) * ra)).
    intros. split; apply ddiv_spec; auto.
  - apply (layout_indep1 drem (fun ra rb => ra - rb * Rtrunc (ra / rb)) (fun ra ca rb cb => ca - Rtrunc (ra / rb) * cb)).
    intros. split; apply drem_spec; auto.
Qed.
Theorem C03_layout_independent_dual2 : forall op, In op ops2 ->
  forall p p' a a' b b', wf2 a -> wf2 b -> wf2 a' -> wf2 b' ->
    (p = true -> vs2 a = vs2 b) -> (p' = true -> vs2 a' = vs2 b') ->
    a ≈₂ a' -> b ≈₂ b' -> op p a b ≈₂ op p' a' b'.
Proof.
  intros op I. cbn in I. destruct I as [E|[E|[E|[E|[E|[]]]]]]; subst op.
  - apply (layout_indep2 d2add Rplus (fun _ ca _ cb => ca + cb) (fun _ _ _ ha _ _ _ hb => ha + hb)).
    intros. repeat split; apply d2add_spec; auto.
  - apply (layout_indep2 d2sub Rminus (fun _ ca _ cb => ca - cb) (fun _ _ _ ha _ _ _ hb => ha - hb)).
    intros. repeat split; apply d2sub_spec; auto.
  - apply (layout_indep2 d2mul Rmult (fun ra ca rb cb => ca * rb + cb * ra)
             (fun ra cau cav ha rb cbu cbv hb => ha * rb + hb * ra + / 2 * (cau * cbv + cav * cbu))).
    intros. repeat split; apply d2mul_spec; auto.
  - apply (layout_indep2 d2div (fun ra rb => ra * Rpowf rb (-1))
             (fun ra ca rb cb => ca * Rpowf rb (-1) + cb * (-1 * Rpowf rb (-1 - 1)) * ra)
             (fun ra cau cav ha rb cbu cbv hb =>
                ha * Rpowf rb (-1) + (hb * (-1 * Rpowf rb (-1 - 1)) + cbu * cbv * (/ 2 * -1 * (-1 - 1) * Rpowf rb (-1 - 2))) * ra
                + / 2 * (cau * (cbv * (-1 * Rpowf rb (-1 - 1))) + cav * (cbu * (-1 * Rpowf rb (-1 - 1)))))).
    intros. repeat split; apply d2div_spec; auto.
  - apply (layout_indep2 d2rem (fun ra rb => ra - rb * Rtrunc (ra / rb)) (fun ra ca rb cb => ca - Rtrunc (ra / rb) * cb)
             (fun ra _ _ ha rb _ _ hb => ha - Rtrunc (ra / rb) * hb)).
    intros. repeat split; apply d2rem_spec; auto.
Qed.

(* == is exactly "same value and same derivative for every name": a missing variable and a zero
   derivative are the same thing *)
Theorem C03_eq_spec : forall p a b, wf a -> wf b -> (p = true -> vs a = vs b) ->
  (deqb p a b = true <-> a ≈ b).
Proof. exact deqb_spec. Qed.
Theorem C03_eq_spec2 : forall p a b, wf2 a -> wf2 b -> (p = true -> vs2 a = vs2 b) ->
  (d2eqb p a b = true <-> a ≈₂ b).
Proof. exact d2eqb_spec. Qed.

(* re-listing a number's derivatives on ANY duplicate-free list that contains its variables (other
   order, extra variables) changes nothing observable *)
Theorem C03_relisting : forall a target, wf a -> NoDup target -> (forall v, In v (vs a) -> In v target) ->
  wf (to_new_vars a target Subset) /\ vs (to_new_vars a target Subset) = target /\ to_new_vars a target Subset ≈ a.
Proof.
  intros a target WA ND S.
  destruct (to_new_vars_lookup_spec a target Subset ltac:(congruence) ltac:(congruence) ND) as (R1 & R2 & R3 & R4).
  split; [exact R3|]. split; [exact R2|]. split; [exact R1|]. intros v. rewrite R4.
  destruct (mem v target) eqn:M; auto. apply mem_false in M. symmetry. apply coef_notin. auto.
Qed.

Example C03_example :
  let x := [120%Z] in let y := [121%Z] in
  let a := mkDual 2 [x; y] [3; 0] in let b := mkDual 2 [y; x] [0; 3] in let c := mkDual 2 [x] [3] in
  wf a /\ wf b /\ wf c /\ a ≈ b /\ a ≈ c.
Proof.
  cbn. repeat split; cbn; try (repeat constructor; cbn; intuition congruence); try reflexivity;
    intros v; unfold coef, lk, lookup_or_zero; cbn;
    destruct (name_eqb v [120%Z]) eqn:E1; destruct (name_eqb v [121%Z]) eqn:E2; cbn; try reflexivity;
    apply name_eqb_eq in E1; apply name_eqb_eq in E2; congruence.
Qed.

Print Assumptions C03_refines_dual.
Print Assumptions C03_refines_dual2.
Print Assumptions C03_layout_independent_dual.
Print Assumptions C03_layout_independent_dual2.
Print Assumptions C03_eq_spec.
Print Assumptions C03_eq_spec2.
Print Assumptions C03_relisting.
