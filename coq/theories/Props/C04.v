(* C04 — Date adjustment lands on the nearest eligible business day in its direction.
   Stated for EVERY pair of predicates bus/settle : Z -> bool (so for every week mask, holiday set,
   union and settlement association), every search bound FUEL, every date, modifier and flag.
   elig s d = bus d && (s -> settle d). *)
From Coq Require Import ZArith List Bool.
From RL Require Import Base.Outcome Model.Dates Model.Calendar Proofs.CalendarP Proofs.CalExt.
Import ListNotations.
Open Scope Z_scope.

(* following: first eligible date on or after d *)
Theorem C04_following : forall bus settle FUEL s d r,
  roll bus settle FUEL d F s = Ok r ->
  elig bus settle s r = true /\ d <= r /\ forall x, d <= x < r -> elig bus settle s x = false.
Proof. exact roll_following. Qed.
(* ... and it IS found (no abort) whenever an eligible date lies within the search bound *)
Theorem C04_following_found : forall bus settle FUEL s d r,
  d <= r -> r - d <= Z.of_nat FUEL -> elig bus settle s r = true ->
  (forall x, d <= x < r -> elig bus settle s x = false) -> roll bus settle FUEL d F s = Ok r.
Proof. exact roll_following_complete. Qed.
(* previous: mirror image *)
Theorem C04_previous : forall bus settle FUEL s d r,
  roll bus settle FUEL d P s = Ok r ->
  elig bus settle s r = true /\ r <= d /\ forall x, r < x <= d -> elig bus settle s x = false.
Proof. exact roll_previous. Qed.
Theorem C04_previous_found : forall bus settle FUEL s d r,
  r <= d -> d - r <= Z.of_nat FUEL -> elig bus settle s r = true ->
  (forall x, r < x <= d -> elig bus settle s x = false) -> roll bus settle FUEL d P s = Ok r.
Proof. exact roll_previous_complete. Qed.
(* modified: that date unless it lies in a different calendar month, then the opposite direction *)
Theorem C04_modified_following : forall bus settle FUEL s d,
  roll bus settle FUEL d ModF s =
    do r <- roll bus settle FUEL d F s;
    if negb (month_of r =? month_of d) then roll bus settle FUEL d P s else Ok r.
Proof. exact roll_modified_following. Qed.
Theorem C04_modified_previous : forall bus settle FUEL s d,
  roll bus settle FUEL d ModP s =
    do r <- roll bus settle FUEL d P s;
    if negb (month_of r =? month_of d) then roll bus settle FUEL d F s else Ok r.
Proof. exact roll_modified_previous. Qed.
Theorem C04_actual : forall bus settle FUEL s d, roll bus settle FUEL d Act s = Ok d.
Proof. exact roll_actual. Qed.
(* an eligible date is never moved; adjusting twice equals adjusting once *)
Theorem C04_fixpoint : forall bus settle FUEL m s d,
  elig bus settle s d = true -> roll bus settle FUEL d m s = Ok d.
Proof. exact roll_fixpoint. Qed.
Theorem C04_idempotent : forall bus settle FUEL m s d r,
  roll bus settle FUEL d m s = Ok r -> roll bus settle FUEL r m s = Ok r.
Proof. exact roll_idempotent. Qed.

(* A calendar is its BEHAVIOUR.  same_listing c c' : the two calendars exclude the same weekdays and hold the same
   holidays — listed in any order, with or without repetitions (a constructor call, a saved document read back).  Such
   calendars adjust every date identically, for every modifier, flag and search bound. *)
Theorem C04_listing_free : forall c c', same_listing c c' -> forall FUEL d m s,
  roll (cal_is_bus c) (cal_is_settle c) FUEL d m s = roll (cal_is_bus c') (cal_is_settle c') FUEL d m s.
Proof. exact (fun c c' SL FUEL => proj1 (cal_ops_listing_free c c' SL FUEL)). Qed.

(* non-vacuity: weekend-only calendar, Saturday 2024-03-30 rolls F to Monday 2024-04-01 and ModF
   back to Friday 2024-03-29 *)
Example C04_example :
  let bus := cal_is_bus (mkCal [5; 6] []) in
  roll bus (fun _ => true) 10 19812 F false = Ok 19814 /\ roll bus (fun _ => true) 10 19812 ModF false = Ok 19811.
Proof. vm_compute. auto. Qed.
