(* C10 — FX sensitivities are exact and the market state follows its update history.
   Code: rust/fx/rates/mod.rs (create_fx_array, update, set_ad_order, rate), rust/dual/dual_ops/convert.rs.
   Model: Model/FX.v, Model/Dual.v, Model/Number.v.  Number type: R.

   Vocabulary (see also Props/C09.v)
     lift1 q / lift2 q   : the quote as create_fx_array lifts it at order One / Two
                           (set_order_clone(rate, order, ["fx_" ++ pair])): a plain number becomes the
                           variable named fx_<pair>; a dual-valued quote is kept as it is;
     coef d v            : the first-order coefficient of d for the variable NAMED v (what gradient1
                           returns for v, C10_gradient_by_name), 0 if absent;
     coef1 / coef2       : the same for Dual2; coef2 is the stored half-Hessian entry, gradient2 = 2 * coef2;
     logsum v steps      : sum over the walk of  (+1 forwards, -1 backwards) * coef (lift1 q) v / value q;
     hist_ok / inv       : the state invariant (currencies = index of the quotes, array = created from
                           the quotes at some order or a projection of such an array).
   Observation (not a defect): update rebuilds at order One whatever the current order; the model
   mirrors it and the statements below are about values. *)
From Coq Require Import Reals ZArith List Bool Permutation Lra.
From RL Require Import Base.Num Base.Str Base.NumR Base.Outcome Model.Dual Model.Number Model.FX
  Proofs.DualP Proofs.Dual2P Proofs.FXMat Proofs.FXFill Proofs.FXTree Proofs.FXCreate Proofs.FXP
  Proofs.FXD Proofs.FXH Proofs.FXD2.
Import ListNotations.
Local Open Scope R_scope.

(* first-order sensitivities of every cross, whatever the kind of the quotes: value = product along
   the walk, coefficient for ANY name v = value * (signed sum of the quotes' own relative
   coefficients for v along the walk) *)
Theorem C10_names_and_signs : forall cs (qs : list (fxrate R)) base fx,
  tree_quotes cs qs -> base_ok cs base -> (length cs <= 181)%nat -> quotes_nonzero qs -> quotes_wf qs ->
  fx_try_new qs base = Ok fx ->
  forall a b steps v, In a cs -> qpath qs a b steps ->
    exists d, fx_rate fx a b = Some (ND d) /\ wf d /\ re d = Rpath_prod steps /\
              coef d v = re d * logsum v steps.
Proof. exact market_gradient. Qed.

(* a plain quote r for pair xy on a simple walk: reported under "fx_xy", equal to +- cross / r *)
Theorem C10_plain_quote_on_path : forall cs (qs : list (fxrate R)) base fx,
  tree_quotes cs qs -> base_ok cs base -> (length cs <= 181)%nat -> quotes_nonzero qs -> quotes_wf qs ->
  fx_try_new qs base = Ok fx ->
  forall a b steps q dir r, In a cs -> qpath qs a b steps -> NoDup (map fst steps) ->
    In (q, dir) steps -> rate q = NF r ->
    (forall q' d', In (q', d') steps -> q' <> q -> coef (lift1 q') (fx_var (pair q)) = 0) ->
    exists d, fx_rate fx a b = Some (ND d) /\ wf d /\ re d = Rpath_prod steps /\
              coef d (fx_var (pair q)) = (if dir then 1 else -1) * re d / r.
Proof. exact gradient_plain_on_path. Qed.

(* ... whose side condition holds for every other plain quote of a tree with 3-byte codes *)
Theorem C10_other_plain_quotes_do_not_interfere : forall cs (qs : list (fxrate R)) q q' r',
  tree_quotes cs qs -> (forall c, In c cs -> ccy_ok c) -> In q qs -> In q' qs -> q' <> q ->
  rate q' = NF r' -> coef (lift1 q') (fx_var (pair q)) = 0.
Proof. exact other_plain_quote_zero. Qed.

(* a name carried by no quote on the walk: zero *)
Theorem C10_off_path_zero : forall cs (qs : list (fxrate R)) base fx,
  tree_quotes cs qs -> base_ok cs base -> (length cs <= 181)%nat -> quotes_nonzero qs -> quotes_wf qs ->
  fx_try_new qs base = Ok fx ->
  forall a b steps v, In a cs -> qpath qs a b steps ->
    (forall q d, In (q, d) steps -> coef (lift1 q) v = 0) ->
    exists d, fx_rate fx a b = Some (ND d) /\ wf d /\ coef d v = 0.
Proof. exact gradient_off_path. Qed.

(* quotes that already are dual numbers keep their own variables; plain ones get fx_<pair> *)
Theorem C10_dual_quotes_keep_their_names : forall (q : fxrate R) d, rate q = ND d -> lift1 q = d.
Proof. exact lift1_dual. Qed.
Theorem C10_plain_quotes_are_named : forall (q : fxrate R) r v, rate q = NF r ->
  coef (lift1 q) v = if name_eqb v (fx_var (pair q)) then 1 else 0.
Proof. exact coef_lift1_plain. Qed.
(* coef is what Gradient1::gradient1 reports, by name, in the order asked *)
Theorem C10_gradient_by_name : forall (d : dual R) ws, wf d -> NoDup ws -> gradient1 d ws = map (coef d) ws.
Proof. exact gradient1_spec. Qed.

(* second order: the order-Two array carries value, both first derivatives and the Hessian entry of
   the product along the walk (Leibniz), for every pair of names *)
Theorem C10_second_order : forall cs (qs : list (fxrate R)) base fx fx2,
  tree_quotes cs qs -> base_ok cs base -> (length cs <= 181)%nat -> quotes_nonzero qs -> quotes_wf2 qs ->
  fx_try_new qs base = Ok fx -> fx_set_ad_order fx OTwo = Ok fx2 ->
  forall a b steps u w, In a cs -> qpath qs a b steps ->
    exists d, fx_rate fx2 a b = Some (ND2 d) /\ wf2 d /\ re2 d = Rpath_prod steps /\
              coef1 d u = re2 d * logsum1 u steps /\ coef1 d w = re2 d * logsum1 w steps /\
              2 * coef2 d u w = re2 d * (logsum1 u steps * logsum1 w steps + logsum2 u w steps).
Proof. exact market_hessian. Qed.

(* plain quotes: d2P/dr_k dr_l = s_k s_l P/(r_k r_l), d2P/dr_k^2 = s_k (s_k - 1) P / r_k^2 *)
Theorem C10_second_order_plain : forall cs (qs : list (fxrate R)) base fx fx2,
  tree_quotes cs qs -> base_ok cs base -> (length cs <= 181)%nat -> quotes_nonzero qs -> quotes_wf2 qs ->
  (forall c, In c cs -> ccy_ok c) ->
  fx_try_new qs base = Ok fx -> fx_set_ad_order fx OTwo = Ok fx2 ->
  forall a b steps, In a cs -> qpath qs a b steps -> NoDup (map fst steps) ->
    (forall x e, In (x, e) steps -> exists r, rate x = NF r) ->
    forall q1 d1 r1 q2 d2 r2, In (q1, d1) steps -> In (q2, d2) steps -> rate q1 = NF r1 -> rate q2 = NF r2 ->
    let s1 := if d1 then 1 else -1 in let s2 := if d2 then 1 else -1 in
    exists d, fx_rate fx2 a b = Some (ND2 d) /\ wf2 d /\
      coef1 d (fx_var (pair q1)) = s1 * re2 d / r1 /\
      2 * coef2 d (fx_var (pair q1)) (fx_var (pair q2)) =
        if pair_eqb (pair q1) (pair q2) then s1 * (s1 - 1) * re2 d / (r1 * r1)
        else s1 * s2 * re2 d / (r1 * r2).
Proof. exact hessian_plain. Qed.

(* switching the derivative order always succeeds on a reachable state and never changes a value *)
Theorem C10_values_order_free : forall cs s ad, (length cs <= 181)%nat -> hist_ok cs s ->
  exists s', fx_set_ad_order s ad = Ok s' /\ fx_rates s' = fx_rates s /\ currencies s' = currencies s /\
    forall a b, In a cs -> In b cs -> rate_val s' a b = rate_val s a b.
Proof. exact order_switch_values. Qed.

(* after ANY sequence of updates / order switches / refused updates the object satisfies the
   invariant, has kept its currency index and its pairs, and returns the values of the market built
   directly from its current (= latest accepted) quotes *)
Theorem C10_history : forall cs (qs : list (fxrate R)) base s0,
  tree_quotes cs qs -> base_ok cs base -> (length cs <= 181)%nat -> quotes_nonzero qs ->
  fx_try_new qs base = Ok s0 ->
  forall ops, Forall op_ok ops ->
    let s := fx_run s0 ops in
    inv s /\ currencies s = currencies s0 /\ map pair (fx_rates s) = map pair qs /\
    exists s', fx_try_new (fx_rates s) (Some (hd [] (currencies s0))) = Ok s' /\
      forall a b, In a cs -> In b cs -> rate_val s a b = rate_val s' a b.
Proof. exact history. Qed.

(* what an accepted update does to the quote list: same pairs in the same places, every quote either
   the old one or one of the submitted ones *)
Theorem C10_update_replaces_in_place : forall (s : fxrates R) u, inv s -> pairs_known (fx_rates s) u ->
  exists qs', map pair qs' = map pair (fx_rates s) /\ (forall q, In q qs' -> In q (fx_rates s) \/ In q u) /\
              fx_update s u = fx_try_new qs' (Some (hd [] (currencies s))).
Proof. exact fx_update_known. Qed.

(* ... and precisely: every quote is replaced by the LAST submitted quote with its pair (upd_quote),
   the others stay; the object is then rebuilt from that list with the same base *)
Theorem C10_latest_quotes : forall cs (s : fxrates R) u, hist_ok cs s -> pairs_known (fx_rates s) u ->
  fx_update s u = fx_try_new (map (upd_quote u) (fx_rates s)) (Some (hd [] (currencies s))).
Proof. exact update_latest. Qed.

Theorem C10_unknown_pair_refused : forall (s : fxrates R) u q,
  In q u -> (forall x, In x (fx_rates s) -> pair x <> pair q) -> fx_step s (OpUpdate u) = (s, Err).
Proof. exact unknown_pair_refused. Qed.
Theorem C10_refused_leaves_unchanged : forall (s : fxrates R) o,
  snd (fx_step s o) <> Ok tt -> fst (fx_step s o) = s.
Proof. exact refused_unchanged. Qed.
Theorem C10_no_step_aborts : forall cs s o, (length cs <= 181)%nat -> hist_ok cs s -> op_ok o ->
  snd (fx_step s o) <> Panic.
Proof. exact no_step_aborts. Qed.
Theorem C10_initial_state_ok : forall cs (qs : list (fxrate R)) base s,
  tree_quotes cs qs -> base_ok cs base -> quotes_nonzero qs -> fx_try_new qs base = Ok s -> hist_ok cs s.
Proof. exact try_new_hist_ok. Qed.

(* ------------------------------------------------------------------ non-vacuity *)
Definition usd : name := [117; 115; 100]%Z.
Definition eur : name := [101; 117; 114]%Z.
Definition jpy : name := [106; 112; 121]%Z.
Definition ex_q1 : fxrate R := mkRate (mkPair eur usd) (NF 2) None.
Definition ex_q2 : fxrate R := mkRate (mkPair jpy usd) (ND (dual_new (/ 100) [[120]%Z])) None.
Definition ex_upd : fxrate R := mkRate (mkPair eur usd) (NF 3) None.

Example C10_hypotheses_satisfiable :
  tree_quotes [jpy; usd; eur] [ex_q2; ex_q1] /\ base_ok [jpy; usd; eur] None /\
  quotes_nonzero [ex_q2; ex_q1] /\ quotes_wf [ex_q2; ex_q1] /\ quotes_wf2 [ex_q2; ex_q1] /\
  (forall c, In c [jpy; usd; eur] -> ccy_ok c) /\
  qpath [ex_q2; ex_q1] eur jpy [(ex_q1, true); (ex_q2, false)] /\
  NoDup (map fst [(ex_q1, true); (ex_q2, false)]) /\
  Forall op_ok [OpUpdate [ex_upd]; OpSetOrder OTwo; OpSetOrder OZero] /\
  pairs_known [ex_q2; ex_q1] [ex_upd].
Proof.
  assert (T1 : tree_quotes [usd; eur] [ex_q1]).
  { change usd with (q1 ex_q1). apply tq_fwd; [constructor|left; reflexivity|].
    intros [C|[]]. discriminate C. }
  split.
  { change jpy with (q0 ex_q2). apply tq_bwd; [exact T1|left; reflexivity|].
    intros [C|[C|[]]]; discriminate C. }
  split; [exact I|]. split.
  { intros q [<-|[<-|[]]]; unfold qval; cbn; [apply Rinv_neq_0_compat|]; lra. }
  split.
  { intros q [<-|[<-|[]]]; cbn; [apply wf_dual_new|exact I]. }
  split.
  { intros q [<-|[<-|[]]]; cbn; [apply wf_dual_new|exact I]. }
  split.
  { intros c [<-|[<-|[<-|[]]]]; reflexivity. }
  split.
  { change eur with (q0 ex_q1). apply qp_fwd; [right; left; reflexivity|].
    change (q1 ex_q1) with (q1 ex_q2). apply qp_bwd; [left; reflexivity|]. apply qp_nil. }
  split.
  { cbn. constructor; [intros [C|[]]; discriminate C|]. constructor; [intros []|constructor]. }
  split.
  { repeat constructor. intros q [<-|[]]. unfold qval. cbn. lra. }
  intros y [<-|[]]. exists ex_q1. split; [right; left; reflexivity|reflexivity].
Qed.

Print Assumptions C10_names_and_signs.
Print Assumptions C10_plain_quote_on_path.
Print Assumptions C10_second_order.
Print Assumptions C10_second_order_plain.
Print Assumptions C10_values_order_free.
Print Assumptions C10_history.
