(* C20 — Fallible entry points return errors, never abort; date arithmetic is total.
   Property theorems only (proofs: Proofs/EntryP.v, Proofs/LoadP.v).
   Models: Model/Dual.v, Model/FX.v, Model/Named.v, Model/Calendar.v, Model/Dates.v, Model/Json.v (the
   loader, on JSON trees), Model/Entry.v (shapes, the sum type over the listed constructors).
   Generic in the float type T: no float operation takes part in any outcome class.

   entry_small i  : an FXRates::try_new call with at most 181 currencies (from 182 on the i16 edge
                    counter of the triangulation overflows, an abort under overflow checks; see C09).
   dense b s F    : every window of F+1 consecutive days, in both directions, holds a day that is a
                    business day and a settlement day; F is the bound of every day-by-day search.
   doc_small j    : if j is an FXRates document, the market it describes has at most 181 currencies
                    (same bound as entry_small; every other document is small: C20_small_other).
                    The loader mirrors the repaired code: serde(try_from) reconstructions of NamedCal and
                    FXRates (fix bca0987) and validating data models for Dual, Dual2, PPSpline and curve
                    nodes (fix e8eeeaf); the documents that aborted / loaded ill-shaped values on the
                    pinned tree are rejected (C20_load_rejects).
   shapeb v       : the full shape invariant of the loaded value (Model/Entry.v). *)
From Coq Require Import ZArith List Bool String.
From RL Require Import Base.Num Base.Str Base.Outcome Model.Dates Model.Calendar Model.Named
  Model.Dual Model.Number Model.FX Model.Json Model.Entry
  Proofs.DatesP Proofs.CalendarP Proofs.NamedP Proofs.EntryP Proofs.JsonP Proofs.LoadP Proofs.FXMat Proofs.FXP.
Import ListNotations.
Open Scope Z_scope.

Theorem C20_constructors : forall (T : Type) (H : Num T) (i : entry_in T), entry_small i ->
  run_entry i <> Panic /\ forall v, run_entry i = Ok v -> entry_shape v.
Proof. exact c20_constructors. Qed.

(* the number constructors on another number's variable list (`Dual::try_new_from`, `Dual2::try_new_from`): never abort,
   fail exactly when `try_new` fails, and a returned number lists exactly the other number's names with one
   derivative per name *)
Theorem C20_new_from : forall (T : Type) (H : Num T) other r vars d d2,
  (dual_try_new_from other r vars d <> Panic /\
   (dual_try_new_from other r vars d = Err <-> dual_try_new r vars d = Err) /\
   forall v, dual_try_new_from other r vars d = Ok v -> vs v = other /\ List.length (du v) = List.length other) /\
  (dual2_try_new_from other r vars d d2 <> Panic /\
   (dual2_try_new_from other r vars d d2 = Err <-> dual2_try_new r vars d d2 = Err)).
Proof. exact (fun T H other r vars d d2 => conj (dual_try_new_from_total other r vars d) (dual2_try_new_from_total other r vars d d2)). Qed.

Theorem C20_cal_new : forall hols mask,
  (Forall (fun v => 0 <= v <= 6) mask /\ cal_new hols mask = Ok (mkCal mask hols)) \/
  (~ Forall (fun v => 0 <= v <= 6) mask /\ cal_new hols mask = Panic).
Proof. exact c20_cal_new. Qed.

Theorem C20_roll_day : forall y m r, 1 <= m <= 12 ->
  (1 <= r -> exists x, get_roll_by_day y m r = Ok x) /\ (r <= 0 -> get_roll_by_day y m r = Panic).
Proof. exact c20_roll_day. Qed.

Theorem C20_dates_total_dense : forall bus settle FUEL, dense bus settle FUEL ->
  forall d n m s k r,
    (exists x, add_days bus settle FUEL d n m s = Ok x) /\
    add_bus_days bus settle FUEL d n s <> Panic /\
    (exists x, lag bus settle FUEL d n s = Ok x) /\
    (exists x, roll bus settle FUEL d m s = Ok x) /\
    (roll_day_ok r -> i32_min < k -> in_i32 (year_of d + fst (month_carry (month_of d) k)) = true ->
     exists x, add_months bus settle FUEL d k m r s = Ok x).
Proof. exact c20_dates_total_dense. Qed.

Theorem C20_cal_dense : forall c, has_working_weekday c -> dense (cal_is_bus c) (cal_is_settle c) (cal_fuel c).
Proof. exact c20_cal_dense. Qed.

Theorem C20_dates_total : forall hols mask c, cal_new hols mask = Ok c -> has_working_weekday c ->
  forall d n m s k r, -128 <= n <= 127 -> roll_in_range r -> i32_min < k ->
    1970 <= year_of d + fst (month_carry (month_of d) k) <= 2200 ->
    cal_add_days c d n m s <> Panic /\ cal_add_bus_days c d n s <> Panic /\ cal_lag c d n s <> Panic /\
    cal_roll c d m s <> Panic /\ cal_add_months c d k m r s <> Panic.
Proof. exact c20_dates_total. Qed.

Theorem C20_load : forall (T : Type) (H : Num T) (j : json T), doc_small j ->
  from_json_model j <> Panic /\ forall v, from_json_model j = Ok v -> shapeb v = true.
Proof. exact c20_load. Qed.

Theorem C20_small_other : forall (T : Type) (H : Num T) (j : json T),
  (forall v rest, j <> JObj ((KStr k_FXRates, v) :: rest)) -> doc_small j.
Proof. exact c20_small_other. Qed.

Theorem C20_load_total_with_try_from : forall (T : Type) (H : Num T) rn rf,
  (forall s, rn s <> Panic) -> (forall d, rf d <> Panic) -> forall j : json T, dec_obj rn rf j <> Panic.
Proof. exact c20_load_total_with_try_from. Qed.

Theorem C20_named_rebuild_total : forall s, rebuild_named s <> Panic.
Proof. exact c20_named_rebuild_total. Qed.

Theorem C20_load_rejects : forall (T : Type) (H : Num T),
  from_json_model (doc_named_bad (T:=T)) = Err /\ from_json_model (doc_fx_empty (T:=T)) = Err /\
  from_json_model (doc_dual_short (T:=T)) = Err.
Proof. exact c20_load_rejects. Qed.

(* ------------------------------------------------------------------ spline solving (partial)
   csolve (Model/Entry.v, on Model/Spline.v + Model/Linalg.v): the two validations return errors and a
   returned spline is well formed.  MISSING for the full statement: "never aborts".  It is FALSE on
   IEEE doubles: a repeated data site makes the collocation matrix singular, the elimination divides
   0 by 0 and the next pivot search `partial_cmp(..).unwrap()` aborts on NaN — see the witness below,
   which the harness replays on the real code.  (Over the reals the model cannot abort for that
   reason; solver correctness under non-singularity is C13 / C15.) *)
Theorem C20_csolve_partial : forall (T : Type) (H : Num T) (X : Type) (OX : Linalg.Ops X) (xmul : T -> X -> X)
    (s : pp T X) tau y ln rn lsq,
  ((List.length tau <> pp_n s /\ (lsq = false \/ (List.length tau <= pp_n s)%nat)) \/ List.length tau <> List.length y ->
     csolve xmul s tau y ln rn lsq = Err) /\
  (forall s', csolve xmul s tau y ln rn lsq = Ok s' ->
     pp_k s' = pp_k s /\ pp_t s' = pp_t s /\ pp_n s' = pp_n s /\ exists c, pp_c s' = Some c).
Proof. exact (fun T H X OX xmul s tau y ln rn lsq =>
  conj (csolve_rejects xmul s tau y ln rn lsq) (fun s' => csolve_ok xmul s s' tau y ln rn lsq)). Qed.
(* the witness: Proofs/CsolveWitness.v `csolve_witness_aborts : csolve_witness = Panic` (k = 1, knots 0..4, sites
   [0.5; 0.5; 2.5; 3.5]), proved by vm_compute on primitive floats — kept out of this file because
   Print Assumptions lists the primitive float operations it evaluates *)

Example C20_example :
  (forall (T : Type) (H : Num T),
     from_json_model (T:=T) (JObj [(KStr k_NamedCal, JObj [(KStr k_name, JStr (s2n "tgt"%string))])]) <> Panic) /\
  has_working_weekday (mkCal [5; 6] [19814]) /\
  cal_add_days (mkCal [5; 6] [19814]) 19812 (-128) F false = Ok 19684.
Proof. exact c20_example. Qed.

(* currency codes whose lower-casing changes their UTF-8 length: the 3-byte test is on the LOWER-CASED string, which is what is
   stored - "\u0130a" (3 bytes as given, 4 stored) / KELVIN SIGN (3 -> 1) / CAPITAL SHARP S (3 -> 2) are rejected,
   "\u0130" alone (2 bytes as given, 3 stored) and "USD" are accepted in lower case *)
Example C20_ccy_lowercase_length :
  Model.FX.ccy_try_new [304; 97] = Err /\ Model.FX.ccy_try_new [8490] = Err /\ Model.FX.ccy_try_new [7838] = Err /\
  Model.FX.ccy_try_new [304] = Ok [105; 775] /\ Model.FX.ccy_try_new [85; 83; 68] = Ok [117; 115; 100].
Proof. vm_compute. repeat split. Qed.

Print Assumptions C20_constructors.
Print Assumptions C20_new_from.
Print Assumptions C20_cal_new.
Print Assumptions C20_roll_day.
Print Assumptions C20_dates_total_dense.
Print Assumptions C20_cal_dense.
Print Assumptions C20_dates_total.
Print Assumptions C20_load.
Print Assumptions C20_load_total_with_try_from.
Print Assumptions C20_named_rebuild_total.
Print Assumptions C20_small_other.
Print Assumptions C20_load_rejects.
Print Assumptions C20_csolve_partial.
