(* C02 — Second-order automatic differentiation is exact and consistent with first order. *)
From Coq Require Import Reals ZArith List Bool Lra.
From Coquelicot Require Import Coquelicot.
From RL Require Import Base.Num Base.Str Base.NumR Model.Dual Model.Expr
  Proofs.NumRP Proofs.DualP Proofs.Dual2P Proofs.AD1 Proofs.AD2.
Import ListNotations.
Open Scope R_scope.

(* same value and same gradient as the first-order type: converting the Dual2 result down
   (From<Dual2> for Dual) gives a number equal, in value and in the derivative for every name, to
   the first-order evaluation — for EVERY expression and environment, no domain condition *)
Theorem C02_first_order_agrees : forall (sh : bool) (e : expr R) (rho : env R),
  dual_of_dual2 (evalDual2 sh e rho) ≈ evalDual sh e rho.
Proof. exact first_order_agrees. Qed.

(* value = plain evaluation, gradient = true partial derivatives, result well-formed (square
   Hessian array on a duplicate-free variable list) *)
Theorem C02_value_and_gradient : forall sh (e : expr R) (rho : env R), Dom e rho ->
  wf2 (evalDual2 sh e rho) /\ re2 (evalDual2 sh e rho) = evalT e rho /\
  forall v, is_derive (fun x => evalT e (upd rho v x)) (rho v) (coef1 (evalDual2 sh e rho) v).
Proof. exact dual2_first_order_exact. Qed.

(* the stored half-Hessian is symmetric, by name *)
Theorem C02_symmetric : forall sh (e : expr R) (rho : env R) u v,
  coef2 (evalDual2 sh e rho) u v = coef2 (evalDual2 sh e rho) v u.
Proof. exact hessian_symmetric. Qed.

(* twice the stored entry (= what gradient2 reads back) for the pair (u, v) is the derivative with
   respect to v of the first-order AD coefficient for u — which by C01_ad1_exact is the true first
   partial derivative d/du at every point of the domain *)
Theorem C02_hessian_pointwise : forall sh (e : expr R) (rho : env R) u v, Dom2 e rho ->
  is_derive (fun y => coef (evalDual sh e (upd rho v y)) u) (rho v) (2 * coef2 (evalDual2 sh e rho) u v).
Proof. exact hessian_pointwise. Qed.

(* ... and therefore the Hessian read back IS the matrix of second partial derivatives: with
   d_u f (rho') := Derive (fun x => f (rho'[u := x])) (rho' u), Coquelicot's total derivative operator,
   the function y |-> d_u f (rho[v := y]) is differentiable at rho v with derivative 2 * dual2[u][v]
   (needs the domain to be open along coordinates, which is proved: Dom_locally) *)
Theorem C02_hessian_exact : forall sh (e : expr R) (rho : env R) u v, Dom2 e rho ->
  is_derive (fun y => Derive (fun x => evalT e (upd (upd rho v y) u x)) (upd rho v y u)) (rho v)
            (2 * coef2 (evalDual2 sh e rho) u v).
Proof. exact hessian_exact. Qed.

(* Dom2 = the twice-differentiable domain (Proofs/AD2.v): Dom with, for powers, the power rule
   differentiable once more — base 0 is included for every exponent 0, 1, 2, 3, ... *)
Theorem C02_domains : forall (e : expr R) (rho : env R), Dom2 e rho -> Dom e rho.
Proof. exact Dom2_Dom. Qed.

Example C02_example :
  let x := [120%Z] in let y := [121%Z] in
  let rho : env R := fun _ => 1 in
  Dom2 (Mul (Var x) (Exp (Mul (Var x) (Var y)))) rho /\
  Dom2 (Pow (Sub (Var x) (Var y)) 2) rho.          (* (x - y)^2 at x = y: base exactly 0 *)
Proof.
  cbn. split; [tauto|]. split; [tauto|]. split.
  - right. right. split; [lra|]. exists 2%nat. cbn; lra.
  - left. right. right. split; [lra|]. exists 1%nat. cbn; lra.
Qed.

Print Assumptions C02_first_order_agrees.
Print Assumptions C02_value_and_gradient.
Print Assumptions C02_symmetric.
Print Assumptions C02_hessian_pointwise.
Print Assumptions C02_hessian_exact.
Print Assumptions C02_domains.
