(* C01 — First-order automatic differentiation is exact.  Property theorems only. *)
From Coq Require Import Reals ZArith List Bool Lra.
From Coquelicot Require Import Coquelicot.
From RL Require Import Base.Num Base.Str Base.NumR Model.Dual Model.Expr Proofs.NumRP Proofs.DualP Proofs.AD1.
Import ListNotations.
Open Scope R_scope.

(* For every expression tree over the operator variants of dual_ops/*.rs (dual∘dual, dual∘float,
   float∘dual, owned/borrowed negation and power), every environment in the differentiable domain,
   whether or not equal variable lists are shared by pointer (`sh`): the dual evaluation is
   well-formed, its value is the plain evaluation, and its coefficient for every name v is the
   partial derivative of the plain evaluation with respect to v. *)
Theorem C01_ad1_exact : forall (sh : bool) (e : expr R) (rho : env R), Dom e rho ->
  wf (evalDual sh e rho) /\
  re (evalDual sh e rho) = evalT e rho /\
  forall v, is_derive (fun x => evalT e (upd rho v x)) (rho v) (coef (evalDual sh e rho) v).
Proof. exact ad1_exact. Qed.

(* the gradient read back through gradient1 is that derivative, in the order asked *)
Theorem C01_gradient_readback : forall sh (e : expr R) (rho : env R) ws, Dom e rho -> NoDup ws ->
  gradient1 (evalDual sh e rho) ws = map (coef (evalDual sh e rho)) ws.
Proof. intros sh e rho ws D N. apply gradient1_spec; [apply ad1_exact; exact D|exact N]. Qed.

(* mixing floats and duals in either operand position = promoting the float to a constant *)
Theorem C01_float_mix_add : forall a r, wf a ->
  dadd_f a r ≈ dadd false a (cst r) /\ dadd_f a r ≈ dadd false (cst r) a.
Proof. exact mix_add. Qed.
Theorem C01_float_mix_sub : forall a r, wf a ->
  dsub_f a r ≈ dsub false a (cst r) /\ fsub_d r a ≈ dsub false (cst r) a.
Proof. exact mix_sub. Qed.
Theorem C01_float_mix_mul : forall a r, wf a ->
  dmul_f a r ≈ dmul false a (cst r) /\ dmul_f a r ≈ dmul false (cst r) a.
Proof. exact mix_mul. Qed.
Theorem C01_float_mix_div : forall a r, wf a ->
  (r <> 0 -> ddiv_f a r ≈ ddiv false a (cst r)) /\ (re a <> 0 -> fdiv_d r a ≈ ddiv false (cst r) a).
Proof. exact mix_div. Qed.
(* the owned and borrowed implementations agree *)
Theorem C01_owned_ref : forall a p, dneg a ≈ dneg_ref a /\ dpow a p = dpow_ref a p.
Proof. intros a p. split; [apply owned_ref_neg|apply owned_ref_pow]. Qed.

(* non-vacuity: (x * exp y) / (z + 2) - |x| ^ 1.5 + icdf(cdf(y)) at x = 1, y = 0, z = 1 is in the domain *)
Definition ex_x : name := [120%Z]. Definition ex_y : name := [121%Z]. Definition ex_z : name := [122%Z].
Definition ex_rho : env R := fun v => if name_eqb v ex_y then 0 else 1.
Definition ex_e : expr R :=
  Add (Sub (Div (Mul (Var ex_x) (Exp (Var ex_y))) (AddF (Var ex_z) 2)) (Pow (Abs (Var ex_x)) (3 / 2)))
      (Nicdf (Ncdf (Var ex_y))).
Example C01_example : Dom ex_e ex_rho.
Proof.
  cbn. unfold ex_rho. cbn. repeat split; try lra; try (left; rewrite Rabs_R1; lra). exists 0. reflexivity.
Qed.

Print Assumptions C01_ad1_exact.
Print Assumptions C01_gradient_readback.
Print Assumptions C01_float_mix_add.
Print Assumptions C01_float_mix_sub.
Print Assumptions C01_float_mix_mul.
Print Assumptions C01_float_mix_div.
Print Assumptions C01_owned_ref.
