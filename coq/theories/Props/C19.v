(* C19 — Ordering, sign, remainder, sums and identities are coherent with the value. *)
From Coq Require Import Reals ZArith List Bool Lra Lia.
From RL Require Import Base.Num Base.Str Base.NumR Base.Outcome Model.Dual Model.Number
  Proofs.NumRP Proofs.DualP Proofs.Dual2P Proofs.LayoutP Proofs.RemEq Proofs.AD1 Proofs.OrdP Proofs.SumPerm Proofs.NumberP.
Import ListNotations.
Open Scope R_scope.

(* ordering depends only on the values and agrees with the float comparison — Dual∘Dual, and through
   the Number container (float operands in either position compare their value with the real part) *)
Theorem C19_ordering : forall (a b : dual R) (c d : dual2 R),
  dltb a b = Rltb (re a) (re b) /\ dleb a b = Rleb (re a) (re b) /\
  d2ltb c d = Rltb (re2 c) (re2 d) /\ d2leb c d = Rleb (re2 c) (re2 d).
Proof. intros. repeat split. Qed.
Theorem C19_ordering_number : forall (x y : number R), Proofs.NumberP.mixed x y = false ->
  num_ltb x y = Ok (Rltb (num_real x) (num_real y)) /\ num_leb x y = Ok (Rleb (num_real x) (num_real y)).
Proof. intros x y M. destruct x, y; cbn in M; try discriminate; split; reflexivity. Qed.

(* abs: identity for positive values; flips value and all derivatives together for negative ones *)
Theorem C19_abs : forall a : dual R, (0 < re a -> dabs a = a) /\ (re a < 0 -> dabs a ≈ dneg a).
Proof. intros a. split; [apply dabs_pos|apply dabs_neg]. Qed.
Theorem C19_abs2 : forall a : dual2 R, wf2 a -> (0 < re2 a -> d2abs a = a) /\ (re2 a < 0 -> d2abs a ≈₂ d2neg a).
Proof. intros a W. split; [apply d2abs_pos|apply d2abs_neg; exact W]. Qed.

(* abs_sub ("positive difference"): when the value does not exceed the other's it is the variable-free zero;
   otherwise it is the difference, which refines a - b by name (value, every derivative, union of the names);
   in all cases the result is well formed and its value is the positive part of re a - re b *)
Theorem C19_abs_sub : forall p (a b : dual R), wf a -> wf b -> (p = true -> vs a = vs b) ->
  wf (dabs_sub p a b) /\ re (dabs_sub p a b) = Rmax 0 (re a - re b) /\
  (re a <= re b -> dabs_sub p a b = dzero /\ forall v, coef (dabs_sub p a b) v = 0) /\
  (re b < re a -> dabs_sub p a b = dsub p a b /\ (forall v, coef (dabs_sub p a b) v = coef a v - coef b v) /\
                  in_union (dabs_sub p a b) a b).
Proof. exact dabs_sub_spec. Qed.
Theorem C19_abs_sub2 : forall p (a b : dual2 R), wf2 a -> wf2 b -> (p = true -> vs2 a = vs2 b) ->
  wf2 (d2abs_sub p a b) /\ re2 (d2abs_sub p a b) = Rmax 0 (re2 a - re2 b) /\
  (re2 a <= re2 b -> d2abs_sub p a b = d2zero /\ (forall v, coef1 (d2abs_sub p a b) v = 0) /\
                     forall u v, coef2 (d2abs_sub p a b) u v = 0) /\
  (re2 b < re2 a -> d2abs_sub p a b = d2sub p a b /\
                    (forall v, coef1 (d2abs_sub p a b) v = coef1 a v - coef1 b v) /\
                    (forall u v, coef2 (d2abs_sub p a b) u v = coef2 a u v - coef2 b u v) /\
                    in_union2 (d2abs_sub p a b) a b).
Proof. exact d2abs_sub_spec. Qed.
(* ... and on the Number container: seven computing cells (a float next to a dual number is promoted to the
   variable-free constant of that kind), the two Dual-with-Dual2 cells refuse, and whenever a result is
   returned its value is the positive part of the difference of the values *)
Theorem C19_abs_sub_number : forall p (a b : number R),
  (forall f g d e d2 e2,
     num_abs_sub p (NF f) (NF g) = Ok (NF (fabs_sub f g)) /\
     num_abs_sub p (NF f) (ND e) = Ok (ND (dabs_sub false (cst f) e)) /\
     num_abs_sub p (ND d) (NF g) = Ok (ND (dabs_sub false d (cst g))) /\
     num_abs_sub p (ND d) (ND e) = Ok (ND (dabs_sub p d e)) /\
     num_abs_sub p (NF f) (ND2 e2) = Ok (ND2 (d2abs_sub false (dual2_new f []) e2)) /\
     num_abs_sub p (ND2 d2) (NF g) = Ok (ND2 (d2abs_sub false d2 (dual2_new g []))) /\
     num_abs_sub p (ND2 d2) (ND2 e2) = Ok (ND2 (d2abs_sub p d2 e2)) /\
     num_abs_sub p (ND d) (ND2 e2) = Panic /\ num_abs_sub p (ND2 d2) (ND e) = Panic) /\
  (num_abs_sub p a b = Panic <-> Proofs.NumberP.mixed a b = true) /\
  (forall r, num_abs_sub p a b = Ok r -> num_real r = Rmax 0 (num_real a - num_real b)).
Proof.
  intros p a b. split; [intros; apply num_abs_sub_cells|].
  split; [apply num_abs_sub_refuses|apply num_abs_sub_value].
Qed.

(* remainder: a % b = a - trunc(a/b) * b in value and in every derivative; float divisor / dividend
   forms equal the promoted-constant form *)
Theorem C19_rem : forall p a b, wf a -> wf b -> (p = true -> vs a = vs b) ->
  let q := Rtrunc (re a / re b) in
  wf (drem p a b) /\ re (drem p a b) = re a - re b * q /\ (forall v, coef (drem p a b) v = coef a v - q * coef b v).
Proof. intros p a b WA WB HP q. destruct (drem_spec p a b WA WB HP) as (W & R & C & _). auto. Qed.
Theorem C19_rem2 : forall p a b, wf2 a -> wf2 b -> (p = true -> vs2 a = vs2 b) ->
  let q := Rtrunc (re2 a / re2 b) in
  wf2 (d2rem p a b) /\ re2 (d2rem p a b) = re2 a - re2 b * q /\
  (forall v, coef1 (d2rem p a b) v = coef1 a v - q * coef1 b v) /\
  (forall u v, coef2 (d2rem p a b) u v = coef2 a u v - q * coef2 b u v).
Proof. intros p a b WA WB HP q. destruct (d2rem_spec p a b WA WB HP) as (W & R & C & H & _). auto. Qed.
(* the remainder at EQUAL MAGNITUDES (quotient exactly +1 / -1): value zero, every derivative the difference / the sum -
   so x % x is the zero number, at both orders *)
Theorem C19_rem_equal : forall p (a b : dual R), wf a -> wf b -> (p = true -> vs a = vs b) -> re b <> 0 ->
  (re a = re b -> re (drem p a b) = 0 /\ forall v, coef (drem p a b) v = coef a v - coef b v) /\
  (re a = - re b -> re (drem p a b) = 0 /\ forall v, coef (drem p a b) v = coef a v + coef b v).
Proof. exact drem_equal. Qed.
Theorem C19_rem_equal2 : forall p (a b : dual2 R), wf2 a -> wf2 b -> (p = true -> vs2 a = vs2 b) -> re2 b <> 0 ->
  (re2 a = re2 b -> re2 (d2rem p a b) = 0 /\ (forall v, coef1 (d2rem p a b) v = coef1 a v - coef1 b v) /\
                    forall u v, coef2 (d2rem p a b) u v = coef2 a u v - coef2 b u v) /\
  (re2 a = - re2 b -> re2 (d2rem p a b) = 0 /\ (forall v, coef1 (d2rem p a b) v = coef1 a v + coef1 b v) /\
                    forall u v, coef2 (d2rem p a b) u v = coef2 a u v + coef2 b u v).
Proof. exact d2rem_equal. Qed.
Theorem C19_rem_float : forall (a : dual R) r, wf a ->
  drem_f a r ≈ drem false a (cst r) /\ frem_d r a = drem false (cst r) a /\
  re (drem_f a r) = Rfmod (re a) r.
Proof. intros a r W. destruct (drem_f_spec a r W) as (_ & _ & E). repeat split; try apply E. Qed.

(* sum = adding left to right from zero, in value and every derivative *)
Theorem C19_sum : forall l : list (dual R), Forall wf l ->
  dsum l = fold_left (dadd false) l dzero /\ wf (dsum l) /\
  re (dsum l) = fold_left Rplus (map (@re R) l) 0 /\
  forall v, coef (dsum l) v = fold_left Rplus (map (fun d => coef d v) l) 0.
Proof. intros l WL. split; [reflexivity|]. apply dsum_spec. exact WL. Qed.

(* ... and it does not depend on the ORDER of the terms (the iterator form sums whatever order the iterator yields) *)
Theorem C19_sum_order_free : forall l l' : list (dual R), Forall wf l -> Permutation.Permutation l l' ->
  re (dsum l) = re (dsum l') /\ forall v, coef (dsum l) v = coef (dsum l') v.
Proof. exact dsum_perm. Qed.

(* zero and one are neutral; is_zero is equality with zero *)
Theorem C19_identities : forall p (a : dual R), wf a ->
  ((p = true -> vs a = []) -> dadd p a dzero ≈ a) /\ ((p = true -> vs a = []) -> dmul p a done ≈ a) /\
  (dis_zero a = true <-> a ≈ dzero).
Proof.
  intros p a W. split; [|split].
  - intros HP. apply dzero_neutral; auto.
  - intros HP. apply done_neutral; auto.
  - apply dis_zero_spec; auto.
Qed.

Example C19_example :
  let x := [120%Z] in let a := mkDual (-7) [x] [2] in let b := mkDual 2 [x] [1] in
  wf a /\ wf b /\ re a < 0 /\ Rtrunc (re a / re b) = -3.
Proof.
  cbn zeta. repeat split; try (repeat constructor; cbn; intuition congruence); try reflexivity; cbn; try lra.
  unfold Rtrunc. destruct (Rle_dec 0 (-7 / 2)); [lra|].
  replace (- (-7 / 2)) with (IZR 3 + / 2) by lra.
  assert (E : Int_part (IZR 3 + / 2) = 3%Z).
  { unfold Int_part. assert (up (IZR 3 + / 2) = 4%Z); [|lia]. symmetry. apply tech_up; cbn; lra. }
  rewrite E. cbn. lra.
Qed.

Print Assumptions C19_ordering.
Print Assumptions C19_ordering_number.
Print Assumptions C19_abs.
Print Assumptions C19_abs2.
Print Assumptions C19_abs_sub.
Print Assumptions C19_abs_sub2.
Print Assumptions C19_abs_sub_number.
Print Assumptions C19_rem.
Print Assumptions C19_rem2.
Print Assumptions C19_rem_float.
Print Assumptions C19_sum.
Print Assumptions C19_identities.
