(* C13 — The linear solver returns the true solution together with its derivatives.

   Property theorems only.  The solver of Model/Linalg.v (dsolve / fdsolve: Gaussian elimination
   with the code's pivot choice, explicit zeroing, back substitution, least-squares branch) is proved
   correct ONCE over an arbitrary commutative ring with a partial inverse on units (class `CRing`,
   Proofs/LinalgL.v: ring laws under Leibniz equality + `runit u -> u * rinv u = 1`), for an
   ARBITRARY pivot comparison `cmp` (so in particular for the code's |real part| comparison), and
   then instantiated at
     R                                      (CRing_R;  `C13_real_ops`: the model at T := R IS this instance)
     D1 = R * (name -> R)                   (CRing_D1: value and first derivatives by name)
     D2 = R * (name -> R) * (name -> name -> R)   (CRing_D2: + stored half-Hessian)
   whose product / reciprocal are the formulas of dual_ops/{mul,div,pow}.rs.  An equation in D1 / D2
   is an equation of values and of every first (and second) derivative coefficient
   (`C13_dual1_meaning`, `C13_dual2_meaning`), so `mat_vec A x = b` there IS "A x = b in value and in
   every first and second derivative carried by A and b".  The refinement from the list-based
   `dual R` / `dual2 R` of Model/Dual.v to D1 / D2 is Proofs/DualP.v.

   `pivots_are_units cmp n A` (Proofs/LinalgP.v) = every pivot the code selects on A is a unit; it is
   computed on A alone.  `C13_nonsingular` (extension, proved: over R with the code's comparison)
   derives it from "A has trivial kernel", and `C13_pivots_dual1/2` transfer it from the real-part
   matrix to a matrix of dual numbers; this gives the headline forms `C13_solve_R`, `C13_rows_R`,
   `C13_solve_dual1/2`, `C13_mixed_dual1/2` whose hypothesis is the property's "non-singular".
   `shape n A` = n rows of length n.  mat_vec / mat_mul / mtranspose are the code's own dmul21_ /
   dmul22_ / `.t()` (Model/Linalg.v) without their shape asserts. *)
From Coq Require Import Reals List Arith Bool Lia Lra Permutation.
From RL Require Import Base.Outcome Base.Num Base.NumR Base.Str Model.Dual Model.Linalg
  Proofs.DualP Proofs.Dual2P Proofs.LinalgL Proofs.LinalgP Proofs.LinalgT Proofs.LinalgH Proofs.LinalgI Proofs.LinalgRel.
Import ListNotations.

Section AnyRing.
  Context {F : Type} {CF : CRing F}.
  Variable cmp : F -> F -> option comparison.          (* arbitrary pivot comparison *)
  Local Instance OA : Ops F := ops_cring cmp.

  (* (1) square system, every pivot met is a unit: the solver returns (no abort) and A x = b *)
  Theorem C13_solve : forall n (A : list (list F)) (b : list F),
    shape n A -> length b = n -> pivots_are_units cmp n A ->
    exists x, dsolve A b false = Ok x /\ length x = n /\ mat_vec A x = b.
  Proof. exact (dsolve_solve cmp). Qed.

  (* (2) and the returned vector is the only solution *)
  Theorem C13_unique : forall n (A : list (list F)) (b y : list F),
    shape n A -> length b = n -> pivots_are_units cmp n A ->
    length y = n -> mat_vec A y = b -> dsolve A b false = Ok y.
  Proof. exact (dsolve_unique cmp). Qed.

  (* (3) least squares on an r x c system: the normal equations (A^T A) x = A^T b, uniquely *)
  Theorem C13_lsq : forall c (A : list (list F)) (b : list F),
    is_rect c A = true -> (1 <= c)%nat -> (1 <= length A)%nat -> length b = length A ->
    let At := mtranspose rzero c A in
    pivots_are_units cmp c (mat_mul At A) ->
    exists x, dsolve A b true = Ok x /\ length x = c /\
      mat_vec (mat_mul At A) x = mat_vec At b /\
      forall y, length y = c -> mat_vec (mat_mul At A) y = mat_vec At b -> y = x.
  Proof. exact (dsolve_lsq cmp). Qed.

  (* (4) the order of the rows of (A | b) does not change the answer *)
  Theorem C13_rows : forall n (A A' : list (list F)) (b b' : list F),
    shape n A -> length b = n -> shape n A' -> length b' = n ->
    pivots_are_units cmp n A -> pivots_are_units cmp n A' ->
    Permutation (combine A b) (combine A' b') ->
    dsolve A' b' false = dsolve A b false.
  Proof. intros n A A' b b'. exact (dsolve_rows cmp n A b A' b'). Qed.

  (* a non-square matrix without allow_lsq aborts (assert!(a.is_square())) *)
  Theorem C13_not_square : forall (A : list (list F)) (b : list F),
    is_square A = false -> dsolve A b false = Panic.
  Proof. exact (dsolve_not_square cmp). Qed.
End AnyRing.

(* (5) fdsolve: matrix over a ring F ("f64"), rhs and solution over a ring E ("f64 / Dual / Dual2"),
   phi : F -> E a ring homomorphism (constants), xmul = `&f64 * &T` = fun f e => phi f * e *)
Section Mixed.
  Context {F E : Type} {CF : CRing F} {CE : CRing E}.
  Variable cmpF : F -> F -> option comparison.
  Variable cmpE : E -> E -> option comparison.
  Variable phi : F -> E.
  Hypothesis phi_add : forall a b, phi (radd a b) = radd (phi a) (phi b).
  Hypothesis phi_mul : forall a b, phi (rmul a b) = rmul (phi a) (phi b).
  Hypothesis phi_one : phi rone = rone.
  Variable xmul : F -> E -> E.
  Hypothesis xmul_spec : forall f e, xmul f e = rmul (phi f) e.
  Local Instance OMF : Ops F := ops_cring cmpF.
  Local Instance OME : Ops E := ops_cring cmpE.

  Theorem C13_mixed_solve : forall n (A : list (list F)) (b : list E),
    shape n A -> length b = n -> pivots_are_units cmpF n A ->
    exists x, fdsolve xmul A b false = Ok x /\ length x = n /\ fmat_vec xmul A x = b.
  Proof. exact (fdsolve_solve cmpF cmpE phi phi_add phi_mul phi_one xmul xmul_spec). Qed.
  Theorem C13_mixed_unique : forall n (A : list (list F)) (b y : list E),
    shape n A -> length b = n -> pivots_are_units cmpF n A ->
    length y = n -> fmat_vec xmul A y = b -> fdsolve xmul A b false = Ok y.
  Proof. exact (fdsolve_unique cmpF cmpE phi phi_add phi_mul phi_one xmul xmul_spec). Qed.
  Theorem C13_mixed_lsq : forall c (A : list (list F)) (b : list E),
    is_rect c A = true -> (1 <= c)%nat -> (1 <= length A)%nat -> length b = length A ->
    let At := mtranspose rzero c A in
    pivots_are_units cmpF c (mat_mul At A) ->
    exists x, fdsolve xmul A b true = Ok x /\ length x = c /\
      fmat_vec xmul (mat_mul At A) x = fmat_vec xmul At b /\
      forall y, length y = c -> fmat_vec xmul (mat_mul At A) y = fmat_vec xmul At b -> y = x.
  Proof. exact (fdsolve_lsq cmpF cmpE phi phi_add phi_mul phi_one xmul xmul_spec). Qed.
  Theorem C13_mixed_rows : forall n (A A' : list (list F)) (b b' : list E),
    shape n A -> length b = n -> shape n A' -> length b' = n ->
    pivots_are_units cmpF n A -> pivots_are_units cmpF n A' ->
    Permutation (combine A b) (combine A' b') ->
    fdsolve xmul A' b' false = fdsolve xmul A b false.
  Proof.
    intros n A A' b b'.
    exact (fdsolve_rows cmpF cmpE phi phi_add phi_mul phi_one xmul xmul_spec n A b A' b').
  Qed.
End Mixed.

(* ------------------------------------------------------------------ instances *)
(* the model's own element operations at T := R (Base/NumR.v) are the ring operations of CRing_R
   with the comparison of |x| and |y| *)
Theorem C13_real_ops : @ops_num R NumR = ops_cring (CR := CRing_R) cmpR.
Proof. exact ops_num_R. Qed.

(* extension: over R, with the code's comparison, "non-singular" implies the pivot hypothesis *)
Theorem C13_nonsingular : forall n (A : list (list R)),
  shape n A ->
  (forall y, length y = n -> mat_vec (O := ops_cring cmpR) A y = repeat 0%R n -> y = repeat 0%R n) ->
  pivots_are_units cmpR n A.
Proof. exact nonsingular_R. Qed.

(* headline, reals: a non-singular square system is solved, uniquely, by the model at T := R *)
Theorem C13_solve_R : forall n (A : list (list R)) (b : list R),
  shape n A -> length b = n -> nonsingular n A ->
  exists x, dsolve (O := @ops_num R NumR) A b false = Ok x /\ length x = n /\
    mat_vec (O := @ops_num R NumR) A x = b /\
    forall y, length y = n -> mat_vec (O := @ops_num R NumR) A y = b -> y = x.
Proof. exact solve_R. Qed.
Theorem C13_rows_R : forall n (A A' : list (list R)) (b b' : list R),
  shape n A -> length b = n -> shape n A' -> length b' = n -> nonsingular n A ->
  Permutation (combine A b) (combine A' b') ->
  dsolve (O := @ops_num R NumR) A' b' false = dsolve (O := @ops_num R NumR) A b false.
Proof. exact rows_R. Qed.

(* dual numbers: dsolve on Dual / Dual2 arrays, pivoting by |real part| (cmp1 / cmp2 = the code's
   comparison, signed.rs + ord.rs).  If the REAL-PART matrix is non-singular the solver returns the
   unique solution of A x = b in the ring of dual numbers (units = real part <> 0) *)
Theorem C13_solve_dual1 : forall n (A : list (list D1)) (b : list D1),
  shape n A -> length b = n -> nonsingular n (map (map fst) A) ->
  exists x, dsolve (O := ops_cring cmp1) A b false = Ok x /\ length x = n /\
    mat_vec (O := ops_cring cmp1) A x = b /\
    forall y, length y = n -> mat_vec (O := ops_cring cmp1) A y = b -> y = x.
Proof. exact solve_dual1. Qed.
Theorem C13_solve_dual2 : forall n (A : list (list D2)) (b : list D2),
  shape n A -> length b = n -> nonsingular n (map (map re_) A) ->
  exists x, dsolve (O := ops_cring cmp2) A b false = Ok x /\ length x = n /\
    mat_vec (O := ops_cring cmp2) A x = b /\
    forall y, length y = n -> mat_vec (O := ops_cring cmp2) A y = b -> y = x.
Proof. exact solve_dual2. Qed.
(* the pivot hypothesis of the ring-generic theorems (C13_lsq, C13_rows, ...) on a dual-valued matrix
   is the one of its real-part matrix *)
Theorem C13_pivots_dual1 : forall n (A : list (list D1)),
  pivots_are_units (CF := CRing_D1) cmp1 n A <-> pivots_are_units cmpR n (map (map fst) A).
Proof.
  intros n A. symmetry.
  exact (pivots_are_units_mapm (CF := CRing_D1) (CG := CRing_R) cmp1 cmpR fst
           eq_refl (fun _ _ => eq_refl) (fun _ _ => eq_refl) (fun _ => eq_refl) (fun _ _ => eq_refl)
           (fun _ => conj (fun H => H) (fun H => H)) n A).
Qed.
Theorem C13_pivots_dual2 : forall n (A : list (list D2)),
  pivots_are_units (CF := CRing_D2) cmp2 n A <-> pivots_are_units cmpR n (map (map re_) A).
Proof.
  intros n A. symmetry.
  exact (pivots_are_units_mapm (CF := CRing_D2) (CG := CRing_R) cmp2 cmpR re_
           eq_refl (fun _ _ => eq_refl) (fun _ _ => eq_refl) (fun _ => eq_refl) (fun _ _ => eq_refl)
           (fun _ => conj (fun H => H) (fun H => H)) n A).
Qed.

(* ... and what `mat_vec A x = b` says there: the real system, and the system differentiated once
   (and twice) with respect to every variable name, all hold *)
Theorem C13_dual1_meaning : forall cmp n (A : list (list D1)) (b x : list D1),
  shape n A -> length b = n -> length x = n ->
  mat_vec (O := ops_cring (CR := CRing_D1) cmp) A x = b ->
  forall i, (i < n)%nat ->
    Rsum (seq 0 n) (fun k => fst (A1 A i k) * fst (V1 x k))%R = fst (V1 b i) /\
    forall v, Rsum (seq 0 n) (fun k => snd (A1 A i k) v * fst (V1 x k) + snd (V1 x k) v * fst (A1 A i k))%R
              = snd (V1 b i) v.
Proof. exact dual1_meaning. Qed.
Theorem C13_dual2_meaning : forall cmp n (A : list (list D2)) (b x : list D2),
  shape n A -> length b = n -> length x = n ->
  mat_vec (O := ops_cring (CR := CRing_D2) cmp) A x = b ->
  forall i, (i < n)%nat ->
    Rsum (seq 0 n) (fun k => re_ (A2 A i k) * re_ (V2 x k))%R = re_ (V2 b i) /\
    (forall v, Rsum (seq 0 n) (fun k => gr_ (A2 A i k) v * re_ (V2 x k) + gr_ (V2 x k) v * re_ (A2 A i k))%R
               = gr_ (V2 b i) v) /\
    (forall u v, Rsum (seq 0 n) (fun k =>
         hs_ (A2 A i k) u v * re_ (V2 x k) + hs_ (V2 x k) u v * re_ (A2 A i k)
         + / 2 * (gr_ (A2 A i k) u * gr_ (V2 x k) v + gr_ (A2 A i k) v * gr_ (V2 x k) u))%R
       = hs_ (V2 b i) u v).
Proof. exact dual2_meaning. Qed.

(* fdsolve with a non-singular real matrix and a Dual / Dual2 right-hand side: C13_mixed_* at
   phi = constants, xmul = f64 * Dual (d1scale) / f64 * Dual2 (d2scale) *)
Theorem C13_mixed_dual1 : forall cmpE n (A : list (list R)) (b : list D1),
  shape n A -> length b = n -> nonsingular n A ->
  exists x, fdsolve (OF := ops_cring cmpR) (OT := ops_cring cmpE) d1scale A b false = Ok x /\ length x = n /\
    fmat_vec (OT := ops_cring cmpE) d1scale A x = b /\
    forall y, length y = n -> fmat_vec (OT := ops_cring cmpE) d1scale A y = b -> y = x.
Proof. exact mixed_dual1. Qed.
Theorem C13_mixed_dual2 : forall cmpE n (A : list (list R)) (b : list D2),
  shape n A -> length b = n -> nonsingular n A ->
  exists x, fdsolve (OF := ops_cring cmpR) (OT := ops_cring cmpE) d2scale A b false = Ok x /\ length x = n /\
    fmat_vec (OT := ops_cring cmpE) d2scale A x = b /\
    forall y, length y = n -> fmat_vec (OT := ops_cring cmpE) d2scale A y = b -> y = x.
Proof. exact mixed_dual2. Qed.

(* ------------------------------------------------------------------ the solver AS THE CODE RUNS IT:
   on the concrete list-based dual numbers of Model/Dual.v with the operations `ops_dual` / `ops_dual2`
   (the instances Run/RunLinalg.v executes at T := float, here at T := R).
   (a) the solver is relationally parametric in its element operations: two `Ops` instances related by
       `OpsRel` give related outcomes (same Ok / Err / Panic class, element-wise related solutions) on
       element-wise related inputs;
   (b) `ops_dual` ~ `ops_cring cmp1` along  d ~ (re d, coef d)  for well-formed d  (Proofs/DualP.v operator
       specs), and `ops_dual2` ~ `ops_cring cmp2` along  d ~ (re2 d, coef1 d, coef2 d)  (Dual2P.v, LayoutP.v);
   (c) hence every theorem above transfers to the concrete solver. *)
Theorem C13_parametric_dsolve : forall (T1 T2 : Type) (O1 : Ops T1) (O2 : Ops T2) (Rel : T1 -> T2 -> Prop),
  OpsRel O1 O2 Rel ->
  forall A1 A2 b1 b2 lsq, Forall2 (Forall2 Rel) A1 A2 -> Forall2 Rel b1 b2 ->
  orel (Forall2 Rel) (dsolve (O := O1) A1 b1 lsq) (dsolve (O := O2) A2 b2 lsq).
Proof. exact @dsolve_rel. Qed.
Theorem C13_parametric_fdsolve : forall (F1 F2 T1 T2 : Type) (OF1 : Ops F1) (OF2 : Ops F2) (OT1 : Ops T1) (OT2 : Ops T2)
  (RF : F1 -> F2 -> Prop) (RT : T1 -> T2 -> Prop),
  OpsRel OF1 OF2 RF -> OpsRel OT1 OT2 RT ->
  forall (xmul1 : F1 -> T1 -> T1) (xmul2 : F2 -> T2 -> T2),
  (forall f f' e e', RF f f' -> RT e e' -> RT (xmul1 f e) (xmul2 f' e')) ->
  forall A1 A2 b1 b2 lsq, Forall2 (Forall2 RF) A1 A2 -> Forall2 RT b1 b2 ->
  orel (Forall2 RT) (fdsolve xmul1 A1 b1 lsq) (fdsolve xmul2 A2 b2 lsq).
Proof. exact @fdsolve_rel. Qed.
Theorem C13_refine_dual1 : OpsRel (@ops_dual R NumR) (ops_cring (CR := CRing_D1) cmp1) (fun d a => wf d /\ a = (re d, coef d)).
Proof. exact opsrel_dual1. Qed.
Theorem C13_refine_dual2 : OpsRel (@ops_dual2 R NumR) (ops_cring (CR := CRing_D2) cmp2)
  (fun d a => wf2 d /\ a = (re2 d, coef1 d, coef2 d)).
Proof. exact opsrel_dual2. Qed.

(* headline, concrete Dual: square system of well-formed duals whose real-part matrix is non-singular.
   The model's dsolve returns well-formed duals whose abstraction abs1 x = (value, coefficient per name)
   is THE solution of the abstract system ... *)
Theorem C13_solve_concrete_dual1 : forall n (A : list (list (dual R))) (b : list (dual R)),
  shape n A -> length b = n -> Forall (Forall wf) A -> Forall wf b ->
  nonsingular n (map (map (@re R)) A) ->
  exists x, dsolve (O := @ops_dual R NumR) A b false = Ok x /\ length x = n /\ Forall wf x /\
    mat_vec (O := ops_cring cmp1) (map (map abs1) A) (map abs1 x) = map abs1 b /\
    forall y : list D1, length y = n ->
      mat_vec (O := ops_cring cmp1) (map (map abs1) A) y = map abs1 b -> y = map abs1 x.
Proof. exact solve_concrete_dual1. Qed.
(* ... i.e. A x = b holds in value and in the coefficient of every variable name *)
Theorem C13_concrete_dual1_meaning : forall n (A : list (list (dual R))) (b x : list (dual R)),
  shape n A -> length b = n -> length x = n ->
  mat_vec (O := ops_cring cmp1) (map (map abs1) A) (map abs1 x) = map abs1 b ->
  forall i, (i < n)%nat ->
    Rsum (seq 0 n) (fun k => re (mget dzero A i k) * re (nth k x dzero))%R = re (nth i b dzero) /\
    forall v, Rsum (seq 0 n) (fun k => coef (mget dzero A i k) v * re (nth k x dzero)
                                        + coef (nth k x dzero) v * re (mget dzero A i k))%R
              = coef (nth i b dzero) v.
Proof. exact concrete_dual1_meaning. Qed.
Theorem C13_solve_concrete_dual2 : forall n (A : list (list (dual2 R))) (b : list (dual2 R)),
  shape n A -> length b = n -> Forall (Forall wf2) A -> Forall wf2 b ->
  nonsingular n (map (map (@re2 R)) A) ->
  exists x, dsolve (O := @ops_dual2 R NumR) A b false = Ok x /\ length x = n /\ Forall wf2 x /\
    mat_vec (O := ops_cring cmp2) (map (map abs2) A) (map abs2 x) = map abs2 b /\
    forall y : list D2, length y = n ->
      mat_vec (O := ops_cring cmp2) (map (map abs2) A) y = map abs2 b -> y = map abs2 x.
Proof. exact solve_concrete_dual2. Qed.
Theorem C13_concrete_dual2_meaning : forall n (A : list (list (dual2 R))) (b x : list (dual2 R)),
  shape n A -> length b = n -> length x = n ->
  mat_vec (O := ops_cring cmp2) (map (map abs2) A) (map abs2 x) = map abs2 b ->
  forall i, (i < n)%nat ->
    let a k := mget d2zero A i k in
    let xk k := nth k x d2zero in
    let bi := nth i b d2zero in
    Rsum (seq 0 n) (fun k => re2 (a k) * re2 (xk k))%R = re2 bi /\
    (forall v, Rsum (seq 0 n) (fun k => coef1 (a k) v * re2 (xk k) + coef1 (xk k) v * re2 (a k))%R = coef1 bi v) /\
    (forall u v, Rsum (seq 0 n) (fun k =>
         coef2 (a k) u v * re2 (xk k) + coef2 (xk k) u v * re2 (a k)
         + / 2 * (coef1 (a k) u * coef1 (xk k) v + coef1 (a k) v * coef1 (xk k) u))%R = coef2 bi u v).
Proof. exact concrete_dual2_meaning. Qed.
(* least squares on concrete duals: Gram matrix of the real parts non-singular => normal equations *)
Theorem C13_lsq_concrete_dual1 : forall c (A : list (list (dual R))) (b : list (dual R)),
  is_rect c A = true -> (1 <= c)%nat -> (1 <= length A)%nat -> length b = length A ->
  Forall (Forall wf) A -> Forall wf b ->
  let reA := map (map (@re R)) A in
  nonsingular c (mat_mul (O := @ops_num R NumR) (mtranspose 0%R c reA) reA) ->
  let A' := map (map abs1) A in
  let At := mtranspose d1zero c A' in
  exists x, dsolve (O := @ops_dual R NumR) A b true = Ok x /\ length x = c /\ Forall wf x /\
    mat_vec (O := ops_cring cmp1) (mat_mul (O := ops_cring cmp1) At A') (map abs1 x)
      = mat_vec (O := ops_cring cmp1) At (map abs1 b) /\
    forall y : list D1, length y = c ->
      mat_vec (O := ops_cring cmp1) (mat_mul (O := ops_cring cmp1) At A') y
        = mat_vec (O := ops_cring cmp1) At (map abs1 b) -> y = map abs1 x.
Proof. exact lsq_concrete_dual1. Qed.
Theorem C13_lsq_concrete_dual2 : forall c (A : list (list (dual2 R))) (b : list (dual2 R)),
  is_rect c A = true -> (1 <= c)%nat -> (1 <= length A)%nat -> length b = length A ->
  Forall (Forall wf2) A -> Forall wf2 b ->
  let reA := map (map (@re2 R)) A in
  nonsingular c (mat_mul (O := @ops_num R NumR) (mtranspose 0%R c reA) reA) ->
  let A' := map (map abs2) A in
  let At := mtranspose d2zero_ c A' in
  exists x, dsolve (O := @ops_dual2 R NumR) A b true = Ok x /\ length x = c /\ Forall wf2 x /\
    mat_vec (O := ops_cring cmp2) (mat_mul (O := ops_cring cmp2) At A') (map abs2 x)
      = mat_vec (O := ops_cring cmp2) At (map abs2 b) /\
    forall y : list D2, length y = c ->
      mat_vec (O := ops_cring cmp2) (mat_mul (O := ops_cring cmp2) At A') y
        = mat_vec (O := ops_cring cmp2) At (map abs2 b) -> y = map abs2 x.
Proof. exact lsq_concrete_dual2. Qed.
(* fdsolve as the code runs it: real matrix (model operations at T := R), concrete Dual / Dual2 rhs *)
Theorem C13_mixed_concrete_dual1 : forall n (A : list (list R)) (b : list (dual R)),
  shape n A -> length b = n -> Forall wf b -> nonsingular n A ->
  exists x, fdsolve (OF := @ops_num R NumR) (OT := @ops_dual R NumR) xmul_dual A b false = Ok x /\
    length x = n /\ Forall wf x /\
    fmat_vec (OT := ops_cring cmp1) d1scale A (map abs1 x) = map abs1 b /\
    forall y : list D1, length y = n -> fmat_vec (OT := ops_cring cmp1) d1scale A y = map abs1 b -> y = map abs1 x.
Proof. exact mixed_concrete_dual1. Qed.
Theorem C13_mixed_concrete_dual2 : forall n (A : list (list R)) (b : list (dual2 R)),
  shape n A -> length b = n -> Forall wf2 b -> nonsingular n A ->
  exists x, fdsolve (OF := @ops_num R NumR) (OT := @ops_dual2 R NumR) xmul_dual2 A b false = Ok x /\
    length x = n /\ Forall wf2 x /\
    fmat_vec (OT := ops_cring cmp2) d2scale A (map abs2 x) = map abs2 b /\
    forall y : list D2, length y = n -> fmat_vec (OT := ops_cring cmp2) d2scale A y = map abs2 b -> y = map abs2 x.
Proof. exact mixed_concrete_dual2. Qed.
Theorem C13_mixed_lsq_concrete_dual1 : forall c (A : list (list R)) (b : list (dual R)),
  is_rect c A = true -> (1 <= c)%nat -> (1 <= length A)%nat -> length b = length A -> Forall wf b ->
  let At := mtranspose 0%R c A in
  let G := mat_mul (O := ops_cring cmpR) At A in
  nonsingular c G ->
  exists x, fdsolve (OF := @ops_num R NumR) (OT := @ops_dual R NumR) xmul_dual A b true = Ok x /\
    length x = c /\ Forall wf x /\
    fmat_vec (OT := ops_cring cmp1) d1scale G (map abs1 x) = fmat_vec (OT := ops_cring cmp1) d1scale At (map abs1 b) /\
    forall y : list D1, length y = c ->
      fmat_vec (OT := ops_cring cmp1) d1scale G y = fmat_vec (OT := ops_cring cmp1) d1scale At (map abs1 b) ->
      y = map abs1 x.
Proof. exact mixed_lsq_concrete_dual1. Qed.
Theorem C13_mixed_lsq_concrete_dual2 : forall c (A : list (list R)) (b : list (dual2 R)),
  is_rect c A = true -> (1 <= c)%nat -> (1 <= length A)%nat -> length b = length A -> Forall wf2 b ->
  let At := mtranspose 0%R c A in
  let G := mat_mul (O := ops_cring cmpR) At A in
  nonsingular c G ->
  exists x, fdsolve (OF := @ops_num R NumR) (OT := @ops_dual2 R NumR) xmul_dual2 A b true = Ok x /\
    length x = c /\ Forall wf2 x /\
    fmat_vec (OT := ops_cring cmp2) d2scale G (map abs2 x) = fmat_vec (OT := ops_cring cmp2) d2scale At (map abs2 b) /\
    forall y : list D2, length y = c ->
      fmat_vec (OT := ops_cring cmp2) d2scale G y = fmat_vec (OT := ops_cring cmp2) d2scale At (map abs2 b) ->
      y = map abs2 x.
Proof. exact mixed_lsq_concrete_dual2. Qed.

(* non-vacuity: a 3 x 3 real system with a zero in the top-left corner (the first step must swap
   rows) is non-singular, hence satisfies every hypothesis above: the solver returns its solution *)
Example C13_example :
  let A := [[0; 2; 1]; [1; 1; 0]; [3; 0; 1]]%R in
  let b := [1; 2; 3]%R in
  mget 0%R A 0 0 = 0%R /\ shape 3 A /\ nonsingular 3 A /\ pivots_are_units cmpR 3 A /\
  exists x, dsolve (O := @ops_num R NumR) A b false = Ok x /\ mat_vec (O := @ops_num R NumR) A x = b.
Proof.
  intros A b.
  assert (Sh : shape 3 A).
  { split; [reflexivity|]. intros i Hi. do 3 (destruct i as [|i]; [reflexivity|]). lia. }
  assert (NS : nonsingular 3 A).
  { intros y Ly Hy. rewrite ops_num_R in Hy.
    destruct y as [|y0 [|y1 [|y2 [|? ?]]]]; try discriminate.
    unfold mat_vec, gmat_vec, gdot, A, zerosR in Hy. cbn in Hy. injection Hy as H0 H1 H2.
    unfold zerosR. cbn. f_equal; [|f_equal; [|f_equal]]; lra. }
  split; [reflexivity|]. split; [exact Sh|]. split; [exact NS|]. split.
  - apply nonsingular_R; auto. unfold nonsingular in NS. rewrite ops_num_R in NS. exact NS.
  - destruct (solve_R 3 A b Sh eq_refl NS) as (x & E1 & _ & H & _). exists x. auto.
Qed.

Print Assumptions C13_solve.
Print Assumptions C13_unique.
Print Assumptions C13_lsq.
Print Assumptions C13_rows.
Print Assumptions C13_not_square.
Print Assumptions C13_mixed_solve.
Print Assumptions C13_mixed_unique.
Print Assumptions C13_mixed_lsq.
Print Assumptions C13_mixed_rows.
Print Assumptions C13_real_ops.
Print Assumptions C13_nonsingular.
Print Assumptions C13_solve_R.
Print Assumptions C13_rows_R.
Print Assumptions C13_solve_dual1.
Print Assumptions C13_solve_dual2.
Print Assumptions C13_pivots_dual1.
Print Assumptions C13_pivots_dual2.
Print Assumptions C13_dual1_meaning.
Print Assumptions C13_dual2_meaning.
Print Assumptions C13_mixed_dual1.
Print Assumptions C13_mixed_dual2.
Print Assumptions C13_parametric_dsolve.
Print Assumptions C13_parametric_fdsolve.
Print Assumptions C13_refine_dual1.
Print Assumptions C13_refine_dual2.
Print Assumptions C13_solve_concrete_dual1.
Print Assumptions C13_concrete_dual1_meaning.
Print Assumptions C13_solve_concrete_dual2.
Print Assumptions C13_concrete_dual2_meaning.
Print Assumptions C13_lsq_concrete_dual1.
Print Assumptions C13_lsq_concrete_dual2.
Print Assumptions C13_mixed_concrete_dual1.
Print Assumptions C13_mixed_concrete_dual2.
Print Assumptions C13_mixed_lsq_concrete_dual1.
Print Assumptions C13_mixed_lsq_concrete_dual2.
Print Assumptions C13_example.
