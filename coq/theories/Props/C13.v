(* C13 — The linear solver returns the true solution together with its derivatives.

   Property theorems only.  The solver of Model/Linalg.v (dsolve / fdsolve: Gaussian elimination
   with the code's pivot choice, explicit zeroing, back substitution, least-squares branch) is proved
   correct ONCE over an arbitrary commutative ring with a partial inverse on units (class `CRing`,
   Proofs/LinalgL.v: ring laws under Leibniz equality + `runit u -> u * rinv u = 1`), for an
   ARBITRARY pivot comparison `cmp` (so in particular for the code's |real part| comparison), and
   then instantiated at
     R                                      (CRing_R;  `C13_real_ops`: the model at T := R IS this instance)
     D1 = R * (name -> R)                   (CRing_D1: value and first derivatives by name)
     D2 = R * (name -> R) * (name -> name -> R)   (CRing_D2: + stored half-Hessian)
   whose product / reciprocal are the formulas of dual_ops/{mul,div,pow}.rs.  An equation in D1 / D2
   is an equation of values and of every first (and second) derivative coefficient
   (`C13_dual1_meaning`, `C13_dual2_meaning`), so `mat_vec A x = b` there IS "A x = b in value and in
   every first and second derivative carried by A and b".  The refinement from the list-based
   `dual R` / `dual2 R` of Model/Dual.v to D1 / D2 is Proofs/DualP.v.

   `pivots_are_units cmp n A` (Proofs/LinalgP.v) = every pivot the code selects on A is a unit; it is
   computed on A alone.  `C13_nonsingular` (extension, proved: over R with the code's comparison)
   derives it from "A has trivial kernel", and `C13_pivots_dual1/2` transfer it from the real-part
   matrix to a matrix of dual numbers; this gives the headline forms `C13_solve_R`, `C13_rows_R`,
   `C13_solve_dual1/2`, `C13_mixed_dual1/2` whose hypothesis is the property's "non-singular".
   `shape n A` = n rows of length n.  mat_vec / mat_mul / mtranspose are the code's own dmul21_ /
   dmul22_ / `.t()` (Model/Linalg.v) without their shape asserts. *)
From Coq Require Import Reals List Arith Bool Lia Lra Permutation.
From RL Require Import Base.Outcome Base.Num Base.NumR Base.Str Model.Dual Model.Linalg
  Proofs.LinalgL Proofs.LinalgP Proofs.LinalgT Proofs.LinalgH Proofs.LinalgI.
Import ListNotations.

Section AnyRing.
  Context {F : Type} {CF : CRing F}.
  Variable cmp : F -> F -> option comparison.          (* arbitrary pivot comparison *)
  Local Instance OA : Ops F := ops_cring cmp.

  (* (1) square system, every pivot met is a unit: the solver returns (no abort) and A x = b *)
  Theorem C13_solve : forall n (A : list (list F)) (b : list F),
    shape n A -> length b = n -> pivots_are_units cmp n A ->
    exists x, dsolve A b false = Ok x /\ length x = n /\ mat_vec A x = b.
  Proof. exact (dsolve_solve cmp). Qed.

  (* (2) and the returned vector is the only solution *)
  Theorem C13_unique : forall n (A : list (list F)) (b y : list F),
    shape n A -> length b = n -> pivots_are_units cmp n A ->
    length y = n -> mat_vec A y = b -> dsolve A b false = Ok y.
  Proof. exact (dsolve_unique cmp). Qed.

  (* (3) least squares on an r x c system: the normal equations (A^T A) x = A^T b, uniquely *)
  Theorem C13_lsq : forall c (A : list (list F)) (b : list F),
    is_rect c A = true -> (1 <= c)%nat -> (1 <= length A)%nat -> length b = length A ->
    let At := mtranspose rzero c A in
    pivots_are_units cmp c (mat_mul At A) ->
    exists x, dsolve A b true = Ok x /\ length x = c /\
      mat_vec (mat_mul At A) x = mat_vec At b /\
      forall y, length y = c -> mat_vec (mat_mul At A) y = mat_vec At b -> y = x.
  Proof. exact (dsolve_lsq cmp). Qed.

  (* (4) the order of the rows of (A | b) does not change the answer *)
  Theorem C13_rows : forall n (A A' : list (list F)) (b b' : list F),
    shape n A -> length b = n -> shape n A' -> length b' = n ->
    pivots_are_units cmp n A -> pivots_are_units cmp n A' ->
    Permutation (combine A b) (combine A' b') ->
    dsolve A' b' false = dsolve A b false.
  Proof. intros n A A' b b'. exact (dsolve_rows cmp n A b A' b'). Qed.

  (* a non-square matrix without allow_lsq aborts (assert!(a.is_square())) *)
  Theorem C13_not_square : forall (A : list (list F)) (b : list F),
    is_square A = false -> dsolve A b false = Panic.
  Proof. exact (dsolve_not_square cmp). Qed.
End AnyRing.

(* (5) fdsolve: matrix over a ring F ("f64"), rhs and solution over a ring E ("f64 / Dual / Dual2"),
   phi : F -> E a ring homomorphism (constants), xmul = `&f64 * &T` = fun f e => phi f * e *)
Section Mixed.
  Context {F E : Type} {CF : CRing F} {CE : CRing E}.
  Variable cmpF : F -> F -> option comparison.
  Variable cmpE : E -> E -> option comparison.
  Variable phi : F -> E.
  Hypothesis phi_add : forall a b, phi (radd a b) = radd (phi a) (phi b).
  Hypothesis phi_mul : forall a b, phi (rmul a b) = rmul (phi a) (phi b).
  Hypothesis phi_one : phi rone = rone.
  Variable xmul : F -> E -> E.
  Hypothesis xmul_spec : forall f e, xmul f e = rmul (phi f) e.
  Local Instance OMF : Ops F := ops_cring cmpF.
  Local Instance OME : Ops E := ops_cring cmpE.

  Theorem C13_mixed_solve : forall n (A : list (list F)) (b : list E),
    shape n A -> length b = n -> pivots_are_units cmpF n A ->
    exists x, fdsolve xmul A b false = Ok x /\ length x = n /\ fmat_vec xmul A x = b.
  Proof. exact (fdsolve_solve cmpF cmpE phi phi_add phi_mul phi_one xmul xmul_spec). Qed.
  Theorem C13_mixed_unique : forall n (A : list (list F)) (b y : list E),
    shape n A -> length b = n -> pivots_are_units cmpF n A ->
    length y = n -> fmat_vec xmul A y = b -> fdsolve xmul A b false = Ok y.
  Proof. exact (fdsolve_unique cmpF cmpE phi phi_add phi_mul phi_one xmul xmul_spec). Qed.
  Theorem C13_mixed_lsq : forall c (A : list (list F)) (b : list E),
    is_rect c A = true -> (1 <= c)%nat -> (1 <= length A)%nat -> length b = length A ->
    let At := mtranspose rzero c A in
    pivots_are_units cmpF c (mat_mul At A) ->
    exists x, fdsolve xmul A b true = Ok x /\ length x = c /\
      fmat_vec xmul (mat_mul At A) x = fmat_vec xmul At b /\
      forall y, length y = c -> fmat_vec xmul (mat_mul At A) y = fmat_vec xmul At b -> y = x.
  Proof. exact (fdsolve_lsq cmpF cmpE phi phi_add phi_mul phi_one xmul xmul_spec). Qed.
  Theorem C13_mixed_rows : forall n (A A' : list (list F)) (b b' : list E),
    shape n A -> length b = n -> shape n A' -> length b' = n ->
    pivots_are_units cmpF n A -> pivots_are_units cmpF n A' ->
    Permutation (combine A b) (combine A' b') ->
    fdsolve xmul A' b' false = fdsolve xmul A b false.
  Proof.
    intros n A A' b b'.
    exact (fdsolve_rows cmpF cmpE phi phi_add phi_mul phi_one xmul xmul_spec n A b A' b').
  Qed.
End Mixed.

(* ------------------------------------------------------------------ instances *)
(* the model's own element operations at T := R (Base/NumR.v) are the ring operations of CRing_R
   with the comparison of |x| and |y| *)
Theorem C13_real_ops : @ops_num R NumR = ops_cring (CR := CRing_R) cmpR.
Proof. exact ops_num_R. Qed.

(* extension: over R, with the code's comparison, "non-singular" implies the pivot hypothesis *)
Theorem C13_nonsingular : forall n (A : list (list R)),
  shape n A ->
  (forall y, length y = n -> mat_vec (O := ops_cring cmpR) A y = repeat 0%R n -> y = repeat 0%R n) ->
  pivots_are_units cmpR n A.
Proof. exact nonsingular_R. Qed.

(* headline, reals: a non-singular square system is solved, uniquely, by the model at T := R *)
Theorem C13_solve_R : forall n (A : list (list R)) (b : list R),
  shape n A -> length b = n -> nonsingular n A ->
  exists x, dsolve (O := @ops_num R NumR) A b false = Ok x /\ length x = n /\
    mat_vec (O := @ops_num R NumR) A x = b /\
    forall y, length y = n -> mat_vec (O := @ops_num R NumR) A y = b -> y = x.
Proof. exact solve_R. Qed.
Theorem C13_rows_R : forall n (A A' : list (list R)) (b b' : list R),
  shape n A -> length b = n -> shape n A' -> length b' = n -> nonsingular n A ->
  Permutation (combine A b) (combine A' b') ->
  dsolve (O := @ops_num R NumR) A' b' false = dsolve (O := @ops_num R NumR) A b false.
Proof. exact rows_R. Qed.

(* dual numbers: dsolve on Dual / Dual2 arrays, pivoting by |real part| (cmp1 / cmp2 = the code's
   comparison, signed.rs + ord.rs).  If the REAL-PART matrix is non-singular the solver returns the
   unique solution of A x = b in the ring of dual numbers (units = real part <> 0) *)
Theorem C13_solve_dual1 : forall n (A : list (list D1)) (b : list D1),
  shape n A -> length b = n -> nonsingular n (map (map fst) A) ->
  exists x, dsolve (O := ops_cring cmp1) A b false = Ok x /\ length x = n /\
    mat_vec (O := ops_cring cmp1) A x = b /\
    forall y, length y = n -> mat_vec (O := ops_cring cmp1) A y = b -> y = x.
Proof. exact solve_dual1. Qed.
Theorem C13_solve_dual2 : forall n (A : list (list D2)) (b : list D2),
  shape n A -> length b = n -> nonsingular n (map (map re_) A) ->
  exists x, dsolve (O := ops_cring cmp2) A b false = Ok x /\ length x = n /\
    mat_vec (O := ops_cring cmp2) A x = b /\
    forall y, length y = n -> mat_vec (O := ops_cring cmp2) A y = b -> y = x.
Proof. exact solve_dual2. Qed.
(* the pivot hypothesis of the ring-generic theorems (C13_lsq, C13_rows, ...) on a dual-valued matrix
   is the one of its real-part matrix *)
Theorem C13_pivots_dual1 : forall n (A : list (list D1)),
  pivots_are_units (CF := CRing_D1) cmp1 n A <-> pivots_are_units cmpR n (map (map fst) A).
Proof.
  intros n A. symmetry.
  exact (pivots_are_units_mapm (CF := CRing_D1) (CG := CRing_R) cmp1 cmpR fst
           eq_refl (fun _ _ => eq_refl) (fun _ _ => eq_refl) (fun _ => eq_refl) (fun _ _ => eq_refl)
           (fun _ => conj (fun H => H) (fun H => H)) n A).
Qed.
Theorem C13_pivots_dual2 : forall n (A : list (list D2)),
  pivots_are_units (CF := CRing_D2) cmp2 n A <-> pivots_are_units cmpR n (map (map re_) A).
Proof.
  intros n A. symmetry.
  exact (pivots_are_units_mapm (CF := CRing_D2) (CG := CRing_R) cmp2 cmpR re_
           eq_refl (fun _ _ => eq_refl) (fun _ _ => eq_refl) (fun _ => eq_refl) (fun _ _ => eq_refl)
           (fun _ => conj (fun H => H) (fun H => H)) n A).
Qed.

(* ... and what `mat_vec A x = b` says there: the real system, and the system differentiated once
   (and twice) with respect to every variable name, all hold *)
Theorem C13_dual1_meaning : forall cmp n (A : list (list D1)) (b x : list D1),
  shape n A -> length b = n -> length x = n ->
  mat_vec (O := ops_cring (CR := CRing_D1) cmp) A x = b ->
  forall i, (i < n)%nat ->
    Rsum (seq 0 n) (fun k => fst (A1 A i k) * fst (V1 x k))%R = fst (V1 b i) /\
    forall v, Rsum (seq 0 n) (fun k => snd (A1 A i k) v * fst (V1 x k) + snd (V1 x k) v * fst (A1 A i k))%R
              = snd (V1 b i) v.
Proof. exact dual1_meaning. Qed.
Theorem C13_dual2_meaning : forall cmp n (A : list (list D2)) (b x : list D2),
  shape n A -> length b = n -> length x = n ->
  mat_vec (O := ops_cring (CR := CRing_D2) cmp) A x = b ->
  forall i, (i < n)%nat ->
    Rsum (seq 0 n) (fun k => re_ (A2 A i k) * re_ (V2 x k))%R = re_ (V2 b i) /\
    (forall v, Rsum (seq 0 n) (fun k => gr_ (A2 A i k) v * re_ (V2 x k) + gr_ (V2 x k) v * re_ (A2 A i k))%R
               = gr_ (V2 b i) v) /\
    (forall u v, Rsum (seq 0 n) (fun k =>
         hs_ (A2 A i k) u v * re_ (V2 x k) + hs_ (V2 x k) u v * re_ (A2 A i k)
         + / 2 * (gr_ (A2 A i k) u * gr_ (V2 x k) v + gr_ (A2 A i k) v * gr_ (V2 x k) u))%R
       = hs_ (V2 b i) u v).
Proof. exact dual2_meaning. Qed.

(* fdsolve with a non-singular real matrix and a Dual / Dual2 right-hand side: C13_mixed_* at
   phi = constants, xmul = f64 * Dual (d1scale) / f64 * Dual2 (d2scale) *)
Theorem C13_mixed_dual1 : forall cmpE n (A : list (list R)) (b : list D1),
  shape n A -> length b = n -> nonsingular n A ->
  exists x, fdsolve (OF := ops_cring cmpR) (OT := ops_cring cmpE) d1scale A b false = Ok x /\ length x = n /\
    fmat_vec (OT := ops_cring cmpE) d1scale A x = b /\
    forall y, length y = n -> fmat_vec (OT := ops_cring cmpE) d1scale A y = b -> y = x.
Proof. exact mixed_dual1. Qed.
Theorem C13_mixed_dual2 : forall cmpE n (A : list (list R)) (b : list D2),
  shape n A -> length b = n -> nonsingular n A ->
  exists x, fdsolve (OF := ops_cring cmpR) (OT := ops_cring cmpE) d2scale A b false = Ok x /\ length x = n /\
    fmat_vec (OT := ops_cring cmpE) d2scale A x = b /\
    forall y, length y = n -> fmat_vec (OT := ops_cring cmpE) d2scale A y = b -> y = x.
Proof. exact mixed_dual2. Qed.

(* non-vacuity: a 3 x 3 real system with a zero in the top-left corner (the first step must swap
   rows) is non-singular, hence satisfies every hypothesis above: the solver returns its solution *)
Example C13_example :
  let A := [[0; 2; 1]; [1; 1; 0]; [3; 0; 1]]%R in
  let b := [1; 2; 3]%R in
  mget 0%R A 0 0 = 0%R /\ shape 3 A /\ nonsingular 3 A /\ pivots_are_units cmpR 3 A /\
  exists x, dsolve (O := @ops_num R NumR) A b false = Ok x /\ mat_vec (O := @ops_num R NumR) A x = b.
Proof.
  intros A b.
  assert (Sh : shape 3 A).
  { split; [reflexivity|]. intros i Hi. do 3 (destruct i as [|i]; [reflexivity|]). lia. }
  assert (NS : nonsingular 3 A).
  { intros y Ly Hy. rewrite ops_num_R in Hy.
    destruct y as [|y0 [|y1 [|y2 [|? ?]]]]; try discriminate.
    unfold mat_vec, gmat_vec, gdot, A, zerosR in Hy. cbn in Hy. injection Hy as H0 H1 H2.
    unfold zerosR. cbn. f_equal; [|f_equal; [|f_equal]]; lra. }
  split; [reflexivity|]. split; [exact Sh|]. split; [exact NS|]. split.
  - apply nonsingular_R; auto. unfold nonsingular in NS. rewrite ops_num_R in NS. exact NS.
  - destruct (solve_R 3 A b Sh eq_refl NS) as (x & E1 & _ & H & _). exists x. auto.
Qed.

Print Assumptions C13_solve.
Print Assumptions C13_unique.
Print Assumptions C13_lsq.
Print Assumptions C13_rows.
Print Assumptions C13_not_square.
Print Assumptions C13_mixed_solve.
Print Assumptions C13_mixed_unique.
Print Assumptions C13_mixed_lsq.
Print Assumptions C13_mixed_rows.
Print Assumptions C13_real_ops.
Print Assumptions C13_nonsingular.
Print Assumptions C13_solve_R.
Print Assumptions C13_rows_R.
Print Assumptions C13_solve_dual1.
Print Assumptions C13_solve_dual2.
Print Assumptions C13_pivots_dual1.
Print Assumptions C13_pivots_dual2.
Print Assumptions C13_dual1_meaning.
Print Assumptions C13_dual2_meaning.
Print Assumptions C13_mixed_dual1.
Print Assumptions C13_mixed_dual2.
Print Assumptions C13_example.
