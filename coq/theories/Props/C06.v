(* C06 — Combined and named calendars mean the union of their parts. *)
From Coq Require Import ZArith List Bool String.
From RL Require Import Base.Outcome Model.Dates Model.Calendar Model.Named Gen.NameWiring
  Proofs.CalendarP Proofs.NamedP Proofs.CalExt.
Import ListNotations.
Open Scope Z_scope.

(* business day in a union <-> business day in every member *)
Theorem C06_union_bus : forall u d, ucal_is_bus u d = forallb (fun c => cal_is_bus c d) (u_cals u).
Proof. exact ucal_is_bus_spec. Qed.
(* settlement day <-> business day in every settlement calendar (always, if there are none) *)
Theorem C06_union_settle : forall u d, ucal_is_settle u d =
  match u_settle u with None => true | Some v => forallb (fun c => cal_is_bus c d) v end.
Proof. exact ucal_is_settle_spec. Qed.
(* a named calendar is the explicit union of the tables its comma/pipe-separated parts are wired to *)
Theorem C06_named_is_union : forall s n, named_try_new s = Ok n ->
  n_name n = lower s /\
  ((exists p0 cs, split 124 (lower s) = [p0] /\ Forall2 table_of (split 44 p0) cs /\ n_ucal n = mkUCal cs None) \/
   (exists p0 p1 cs ss, split 124 (lower s) = [p0; p1] /\ Forall2 table_of (split 44 p0) cs /\
      Forall2 table_of (split 44 p1) ss /\ n_ucal n = mkUCal cs (Some ss))).
Proof. exact named_is_union. Qed.
(* letter case does not matter *)
Theorem C06_case_insensitive : forall s1 s2, lower s1 = lower s2 -> named_try_new s1 = named_try_new s2.
Proof. exact named_case_insensitive. Qed.
Theorem C06_lower_idempotent : forall s, named_try_new (lower s) = named_try_new s.
Proof. exact named_lower. Qed.
(* unknown names and more than one '|' are errors — exactly those — and construction never aborts *)
Theorem C06_errors : forall s, named_try_new s = Err <->
  (2 < List.length (split 124 (lower s)))%nat \/
  exists p name, In p (firstn 2 (split 124 (lower s))) /\ In name (split 44 p) /\ known name = false.
Proof. exact named_err_spec. Qed.
Theorem C06_no_abort : forall s, named_try_new s <> Panic.
Proof. exact named_no_panic. Qed.
(* equality of any two calendars (as business-day / settlement predicates) = agreement on 1970-2200 *)
Theorem C06_eq_spec : forall b1 s1 b2 s2, dr_eq b1 s1 b2 s2 = true <->
  forall d, d1970 <= d <= d2200 -> b1 d = b2 d /\ s1 d = s2 d.
Proof. exact dr_eq_spec. Qed.

(* the named calendar is, date for date (every date, not just 1970-2200) and under ==, the explicit UnionCal of the
   tables its parts are wired to; and conversely every string whose parts are all wired yields exactly that union *)
Theorem C06_named_date_for_date : forall s n, named_try_new s = Ok n ->
  exists cs ss, named_parts s cs ss /\
    (forall d, ncal_is_bus n d = forallb (fun c => cal_is_bus c d) cs /\
               ncal_is_settle n d = match ss with None => true | Some v => forallb (fun c => cal_is_bus c d) v end /\
               ncal_is_bus n d = ucal_is_bus (mkUCal cs ss) d /\ ncal_is_settle n d = ucal_is_settle (mkUCal cs ss) d /\
               ncal_is_weekday n d = ucal_is_weekday (mkUCal cs ss) d /\ ncal_is_holiday n d = ucal_is_holiday (mkUCal cs ss) d) /\
    ncal_eq_any n (ucal_is_bus (mkUCal cs ss)) (ucal_is_settle (mkUCal cs ss)) = true /\
    ucal_eq_any (mkUCal cs ss) (ncal_is_bus n) (ncal_is_settle n) = true.
Proof. exact named_date_for_date. Qed.
Theorem C06_named_iff_parts : forall s u, (exists n, named_try_new s = Ok n /\ n_ucal n = u) <->
  exists cs ss, named_parts s cs ss /\ u = mkUCal cs ss.
Proof. exact named_iff_parts. Qed.
(* flipping the case of any ASCII letters of the string changes nothing *)
Theorem C06_case_flip : forall s1 s2, Forall2 same_letter s1 s2 -> named_try_new s1 = named_try_new s2.
Proof. exact named_case_flip. Qed.
(* the four PartialEq impls of calendar.rs (UnionCal == any, NamedCal == any, Cal == UnionCal, Cal == NamedCal) *)
Theorem C06_eq_union_any : forall u b2 s2, ucal_eq_any u b2 s2 = true <->
  forall d, d1970 <= d <= d2200 -> ucal_is_bus u d = b2 d /\ ucal_is_settle u d = s2 d.
Proof. exact ucal_eq_any_spec. Qed.
Theorem C06_eq_named_any : forall n b2 s2, ncal_eq_any n b2 s2 = true <->
  forall d, d1970 <= d <= d2200 -> ncal_is_bus n d = b2 d /\ ncal_is_settle n d = s2 d.
Proof. exact ncal_eq_any_spec. Qed.
Theorem C06_eq_cal_union : forall c u, cal_eq_ucal c u = true <->
  forall d, d1970 <= d <= d2200 -> cal_is_bus c d = ucal_is_bus u d /\ cal_is_settle c d = ucal_is_settle u d.
Proof. exact cal_eq_ucal_spec. Qed.
Theorem C06_eq_cal_named : forall c n, cal_eq_ncal c n = true <->
  forall d, d1970 <= d <= d2200 -> cal_is_bus c d = ncal_is_bus n d /\ cal_is_settle c d = ncal_is_settle n d.
Proof. exact cal_eq_ncal_spec. Qed.

(* what a plain calendar IS: its business-day, holiday, weekday and settlement predicates see the two lists only through
   membership (same_listing: same excluded weekdays, same holidays, any order, any repetitions) - hence, by the
   equality theorems above, such calendars compare equal to exactly the same calendars *)
Theorem C06_listing_free : forall c c', same_listing c c' ->
  forall d, cal_is_bus c d = cal_is_bus c' d /\ cal_is_holiday c d = cal_is_holiday c' d /\
            cal_is_weekday c d = cal_is_weekday c' d /\ cal_is_settle c d = cal_is_settle c' d.
Proof. exact cal_pred_listing_free. Qed.

(* ... and a combined calendar sees its member lists only through membership (same_members: the same member calendars
   and the same settlement calendars, in any order, with any repetitions) *)
Theorem C06_members_free : forall u u', same_members u u' ->
  forall d, ucal_is_bus u d = ucal_is_bus u' d /\ ucal_is_settle u d = ucal_is_settle u' d.
Proof. exact ucal_members_free. Qed.

(* the supported range is 1970-01-01 .. 2200-12-31 *)
Example C06_range : days_from_civil 1970 1 1 = d1970 /\ days_from_civil 2200 12 31 = d2200.
Proof. vm_compute. auto. Qed.
Example C06_example :
  is_ok (named_try_new (str_of_string "TGT,ldn|Fed")) = true /\
  named_try_new (str_of_string "tgt|ldn|fed") = Err /\ named_try_new (str_of_string "tgt,") = Err.
Proof. vm_compute. auto. Qed.

Print Assumptions C06_union_bus.
Print Assumptions C06_union_settle.
Print Assumptions C06_named_is_union.
Print Assumptions C06_case_insensitive.
Print Assumptions C06_lower_idempotent.
Print Assumptions C06_errors.
Print Assumptions C06_no_abort.
Print Assumptions C06_eq_spec.
Print Assumptions C06_named_date_for_date.
Print Assumptions C06_named_iff_parts.
Print Assumptions C06_case_flip.
Print Assumptions C06_eq_union_any.
Print Assumptions C06_eq_named_any.
Print Assumptions C06_eq_cal_union.
Print Assumptions C06_eq_cal_named.
