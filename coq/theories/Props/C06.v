(* C06 — Combined and named calendars mean the union of their parts. *)
From Coq Require Import ZArith List Bool String.
From RL Require Import Base.Outcome Model.Dates Model.Calendar Model.Named Gen.NameWiring
  Proofs.CalendarP Proofs.NamedP.
Import ListNotations.
Open Scope Z_scope.

(* business day in a union <-> business day in every member *)
Theorem C06_union_bus : forall u d, ucal_is_bus u d = forallb (fun c => cal_is_bus c d) (u_cals u).
Proof. exact ucal_is_bus_spec. Qed.
(* settlement day <-> business day in every settlement calendar (always, if there are none) *)
Theorem C06_union_settle : forall u d, ucal_is_settle u d =
  match u_settle u with None => true | Some v => forallb (fun c => cal_is_bus c d) v end.
Proof. exact ucal_is_settle_spec. Qed.
(* a named calendar is the explicit union of the tables its comma/pipe-separated parts are wired to *)
Theorem C06_named_is_union : forall s n, named_try_new s = Ok n ->
  n_name n = lower s /\
  ((exists p0 cs, split 124 (lower s) = [p0] /\ Forall2 table_of (split 44 p0) cs /\ n_ucal n = mkUCal cs None) \/
   (exists p0 p1 cs ss, split 124 (lower s) = [p0; p1] /\ Forall2 table_of (split 44 p0) cs /\
      Forall2 table_of (split 44 p1) ss /\ n_ucal n = mkUCal cs (Some ss))).
Proof. exact named_is_union. Qed.
(* letter case does not matter *)
Theorem C06_case_insensitive : forall s1 s2, lower s1 = lower s2 -> named_try_new s1 = named_try_new s2.
Proof. exact named_case_insensitive. Qed.
Theorem C06_lower_idempotent : forall s, named_try_new (lower s) = named_try_new s.
Proof. exact named_lower. Qed.
(* unknown names and more than one '|' are errors — exactly those — and construction never aborts *)
Theorem C06_errors : forall s, named_try_new s = Err <->
  (2 < List.length (split 124 (lower s)))%nat \/
  exists p name, In p (firstn 2 (split 124 (lower s))) /\ In name (split 44 p) /\ known name = false.
Proof. exact named_err_spec. Qed.
Theorem C06_no_abort : forall s, named_try_new s <> Panic.
Proof. exact named_no_panic. Qed.
(* equality of any two calendars (as business-day / settlement predicates) = agreement on 1970-2200 *)
Theorem C06_eq_spec : forall b1 s1 b2 s2, dr_eq b1 s1 b2 s2 = true <->
  forall d, d1970 <= d <= d2200 -> b1 d = b2 d /\ s1 d = s2 d.
Proof. exact dr_eq_spec. Qed.

Example C06_example :
  is_ok (named_try_new (str_of_string "TGT,ldn|Fed")) = true /\
  named_try_new (str_of_string "tgt|ldn|fed") = Err /\ named_try_new (str_of_string "tgt,") = Err.
Proof. vm_compute. auto. Qed.
