(* C17 — Gradients are read back by name, in the order asked for. *)
From Coq Require Import Reals ZArith List Bool Lra.
From RL Require Import Base.Num Base.Str Base.NumR Model.Dual Proofs.NumRP Proofs.DualP Proofs.Dual2P Proofs.LayoutP Proofs.GradP.
Import ListNotations.
Open Scope R_scope.

(* gradient1 (Dual and Dual2): exactly the requested order, zero for names the number does not
   depend on, whatever order the number stores them in (fast path = lookup path) *)
Theorem C17_gradient1 : forall a ws, wf a -> NoDup ws -> gradient1 a ws = map (coef a) ws.
Proof. exact gradient1_spec. Qed.
Theorem C17_gradient1_dual2 : forall a ws, wf2 a -> NoDup ws -> gradient1_2 a ws = map (coef1 a) ws.
Proof. exact gradient1_2_spec. Qed.
(* gradient2: entry (i, j) is twice the stored half-Hessian entry for the names (w_i, w_j) *)
Theorem C17_gradient2 : forall a ws, wf2 a -> NoDup ws ->
  gradient2 a ws = map (fun u => map (fun v => 2 * coef2 a u v) ws) ws.
Proof. exact gradient2_spec. Qed.
(* gradient1_manifold: entry i is a Dual2 on the requested names with value = i-th first derivative,
   own gradient = the matching Hessian row (zero row for a name the number does not depend on),
   zero second-order part *)
Theorem C17_manifold : forall a ws, wf2 a -> NoDup ws ->
  gradient1_manifold a ws =
  map (fun wi => mkDual2 (coef1 a wi) ws (map (fun wj => 2 * coef2 a wi wj) ws) (mzeros (length ws) (length ws))) ws.
Proof. exact gradient1_manifold_spec. Qed.
(* the product rule applied to manifolds reproduces the second derivatives of a product *)
Theorem C17_product : forall a b ws wi wj p p1 p2 p3,
  wf2 a -> wf2 b -> NoDup ws -> In wi ws -> In wj ws ->
  (p = true -> vs2 a = vs2 b) ->
  (p1 = true -> vs2 (manifold_entry a ws wi) = vs2 b) ->
  (p2 = true -> vs2 a = vs2 (manifold_entry b ws wi)) ->
  (p3 = true -> vs2 (d2mul p1 (manifold_entry a ws wi) b) = vs2 (d2mul p2 a (manifold_entry b ws wi))) ->
  coef1 (d2add p3 (d2mul p1 (manifold_entry a ws wi) b) (d2mul p2 a (manifold_entry b ws wi))) wj
  = 2 * coef2 (d2mul p a b) wi wj.
Proof. exact manifold_product. Qed.

Example C17_example :
  let x := [120%Z] in let y := [121%Z] in let z := [122%Z] in
  let a := mkDual2 1 [x; y] [2; 3] [[4; 5]; [5; 6]] in
  wf2 a /\ NoDup [z; y; x] /\ gradient1_2 a [z; y; x] = [0; 3; 2] /\
  gradient2 a [y; x] = [[2 * 6; 2 * 5]; [2 * 5; 2 * 4]].
Proof.
  cbn zeta. split; [|split; [|split]].
  - split; [repeat constructor; cbn; intuition congruence|]. split; [reflexivity|].
    split; [reflexivity|repeat constructor].
  - repeat constructor; cbn; intuition congruence.
  - reflexivity.
  - cbn. unfold n2. cbn. repeat f_equal; ring.
Qed.

Print Assumptions C17_gradient1.
Print Assumptions C17_gradient1_dual2.
Print Assumptions C17_gradient2.
Print Assumptions C17_manifold.
Print Assumptions C17_product.
