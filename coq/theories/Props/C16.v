(* C16 — Saving and loading an object gives back an equal object.
   Property theorems only (proofs: Proofs/JsonP.v).  Model: Model/Json.v — the serde data-model
   mapping of every serialisable type on JSON trees (floats, chrono date strings and integer map
   keys are leaves), the tagged enum DeserializedObj, the direct per-type entry points, the
   load-time reconstructions of NamedCal and FXRates, and each type's PartialEq as coded.

   ok_obj o    : o is a reachable object: variable lists / holiday sets / node keys / currency lists
                 duplicate-free (they are IndexSet / HashSet / IndexMap in the code), sizes fit a usize,
                 one derivative per variable name and an n x n second-order array (what try_new and every
                 operator establish; checked on loading since fix e8eeeaf), curve node keys strictly
                 increasing (CurveDF::try_new sorts them), splines as PPSpline::new asserts (two knots or
                 more, non-decreasing, k <= |t|, n = |t| - k), enum indices in range; a NamedCal is what its
                 own (lower-case) name denotes (true of every constructed one: C16_named_norm); an FX
                 market is what the reconstruction builds from its own quotes and first currency, i.e.
                 it is at AD order one (the saved form does not contain the matrix and the currency
                 index is reproduced: C16_fx_norm) — "FX markets are compared in that state".
   obj_eqb     : the type's own PartialEq, as coded.
   The text codec (serde_json + ryu; bincode likewise) is an interface: section variables
   print / parse with the single hypothesis that parsing a printed tree with finite floats gives the
   tree back — exactly what the correspondence checks on the real code, double by double. *)
From Coq Require Import ZArith List Bool String.
From RL Require Import Base.Num Base.Str Base.Outcome Model.Dates Model.Calendar Model.Named
  Model.Dual Model.Number Model.FX Model.Json Model.Entry Proofs.JsonP Base.NumR.
Import ListNotations.
Open Scope Z_scope.

(* tree level, through the tagged enum (from_json of json_py.rs): the loaded object IS the saved
   one, and it compares equal to it under the type's PartialEq whenever float equality is reflexive
   (all finite doubles; the reals) *)
Theorem C16_tree_roundtrip : forall (T : Type) (H : Num T), (forall x : T, neqb x x = true) ->
  forall o : obj T, ok_obj o -> from_json_model (enc_obj o) = Ok o /\ obj_eqb o o = true.
Proof. exact c16_tree_roundtrip. Qed.

Theorem C16_tagged : forall (T : Type) (H : Num T) (o : obj T), ok_obj o ->
  dec_obj rebuild_named rebuild_fx (enc_obj o) = Ok o.
Proof. exact (fun T H o => @dec_obj_enc T H o). Qed.

(* the direct entry point of each type (JSON::to_json / from_json without the tag) *)
Theorem C16_direct : forall (T : Type) (H : Num T) (o : obj T), ok_obj o ->
  dec_payload rebuild_named rebuild_fx (Z.to_nat (kind_of o)) (enc_payload o) = Ok o.
Proof. exact c16_direct. Qed.

(* the two rebuilt-on-load types *)
Theorem C16_named_norm : forall s n, named_try_new s = Ok n ->
  n_name n = lower s /\ named_try_new (n_name n) = Ok n.
Proof. exact c16_named_norm. Qed.
Theorem C16_fx_norm : forall (T : Type) (H : Num T) (f : jfx T) (a : numarr T) (qs : list (fxrate T)) base,
  enc_fx (mkJFx (jf_rates f) (jf_ccys f) a) = enc_fx f /\
  (qs <> [] -> ccy_index qs (Some (hd [] (ccy_index qs base))) = ccy_index qs base).
Proof. exact c16_fx_norm. Qed.

Section text.
  Context {T : Type} {H : Num T}.
  Variable text : Type.
  Variable print : json T -> text.
  Variable parse : text -> outcome (json T).
  Variable finite : T -> Prop.
  Hypothesis codec : forall j, json_finite finite j -> parse (print j) = Ok j.

  Theorem C16_text_roundtrip : forall o : obj T, ok_obj o -> finite_obj finite o ->
    from_json_text text parse (to_json_text text print o) = Ok o.
  Proof. exact (text_roundtrip text print parse finite codec). Qed.
End text.

Example C16_example : forall (T : Type) (H : Num T),
  let d := ODual (mkDual n1 [s2n "x"%string; s2n "y"%string] [n0; n1]) in
  ok_obj d /\ from_json_model (enc_obj d) = Ok d.
Proof. exact c16_example. Qed.

(* the hypothesis of C16_tree_roundtrip holds at the instance the theorems are read at (the reals) *)
Example C16_reals_reflexive : forall x : Reals.Rdefinitions.R, neqb (Num := NumR.NumR) x x = true.
Proof. intros x. cbn. unfold NumR.Reqb. destruct (Reals.RIneq.Req_EM_T x x); congruence. Qed.

Print Assumptions C16_tree_roundtrip.
Print Assumptions C16_tagged.
Print Assumptions C16_direct.
Print Assumptions C16_named_norm.
Print Assumptions C16_fx_norm.
Print Assumptions C16_text_roundtrip.
