(* C15, part 5 (T := R, float coefficients): the solver hypotheses of C15_interpolates and
   C15_poly_partial discharged from "the collocation matrix is non-singular", through C13
   (Proofs/LinalgT.v fdsolve21_correct, Proofs/LinalgI.v nonsingular_R). *)
From Coq Require Import Reals Lra Lia Arith List Bool ZArith.
From Coquelicot Require Import Coquelicot.
From RL Require Import Base.Outcome Base.Num Base.NumR Base.Str Model.Dual Model.Linalg Model.Spline
  Model.PPSpline Proofs.LinalgL Proofs.LinalgP Proofs.LinalgT Proofs.LinalgI
  Proofs.SplinePoly Proofs.SplineMarsden Proofs.SplineP Proofs.PPSplineP Proofs.PPSplineR Proofs.PPSplinePoly.
Import ListNotations.
Open Scope R_scope.

(* fdsolve with a real matrix and a real right-hand side *)
Lemma fdsolve_R n (a : list (list R)) (b : list R) : shape n a -> length b = n -> nonsingular n a ->
  exists x, fdsolve (OF := @ops_num R NumR) (OT := @ops_num R NumR) xmul_num a b false = Ok x /\
    length x = n /\ fmat_vec (OT := @ops_num R NumR) xmul_num a x = b /\
    forall y, length y = n -> fmat_vec (OT := @ops_num R NumR) xmul_num a y = b -> y = x.
Proof.
  unfold nonsingular. rewrite ops_num_R. intros Sh Lb HK.
  pose proof (nonsingular_R n a Sh HK) as HP.
  exact (fdsolve21_correct (CF := CRing_R) (CE := CRing_R) cmpR cmpR (fun x => x)
           (fun _ _ => eq_refl) (fun _ _ => eq_refl) eq_refl
           (@xmul_num R NumR) (fun _ _ => eq_refl) n a b Sh Lb HP).
Qed.

Lemma bsplmatrix_shape (s : @ppspline R R) tau l r B : (1 <= pn s)%nat ->
  bsplmatrix s tau l r = Ok B -> length tau = pn s -> shape (pn s) B.
Proof.
  intros Hn HB Lt. pose proof (bsplmatrix_length s tau l r B Hn HB) as LB. split. lia.
  intros i Hi.
  destruct (nth_error tau i) as [x|] eqn:Ex.
  - destruct (bsplmatrix_row s tau l r B i x Hn HB Ex) as (row & Hr1 & Hr2).
    rewrite (nth_error_nth _ _ _ Hr1). apply (bspldnev_row_length _ _ _ _ _ _ Hr2).
  - apply nth_error_None in Ex. lia.
Qed.

(* what the solver hypotheses of part 1 / part 4 need, from non-singularity *)
Lemma solver_hyp (s s' : @ppspline R R) tau y l r : (1 <= pn s)%nat ->
  csolve xmul_num s tau y l r false = Ok s' ->
  (forall B, bsplmatrix s tau l r = Ok B -> nonsingular (pn s) B) ->
  forall B c, bsplmatrix s tau l r = Ok B -> pc s' = Some c ->
    fmat_vec xmul_num B c = y /\ length c = pn s /\
    forall c2, length c2 = pn s -> fmat_vec xmul_num B c2 = y -> c2 = c.
Proof.
  intros Hn HS Hns B c HB Hc.
  destruct (csolve_ok xmul_num s s' tau y l r false HS) as (B' & c' & HB' & HC' & -> & Ly & Lt).
  rewrite HB in HB'. inversion HB'; subst B'. cbn [pc] in Hc. inversion Hc; subst c'.
  destruct Lt as [Lt|[Lt _]]; [|discriminate].
  pose proof (bsplmatrix_shape s tau l r B Hn HB Lt) as Sh.
  destruct (fdsolve_R (pn s) B y Sh ltac:(lia) (Hns B HB)) as (x & E1 & Lx & Hx & Ux).
  rewrite E1 in HC'. inversion HC'; subst x. auto.
Qed.

Lemma interpolates_R (s s' : @ppspline R R) tau y l r : (1 <= pn s)%nat ->
  csolve xmul_num s tau y l r false = Ok s' ->
  (forall B, bsplmatrix s tau l r = Ok B -> nonsingular (pn s) B) ->
  forall j x v, nth_error tau j = Some x -> nth_error y j = Some v ->
    ppdnev_single xmul_num s' x (row_m l r (length tau) j) = Ok v.
Proof.
  intros Hn HS Hns. apply (csolve_interpolates xmul_num s s' tau y l r Hn HS).
  intros B c HB Hc. destruct (solver_hyp s s' tau y l r Hn HS Hns B c HB Hc) as (A1 & A2 & _). auto.
Qed.

Lemma poly_partial_R k n t (c0 : option (list R)) (s' : @ppspline R R) tau y l r (p : R -> R) cstar :
  admissible k n t ->
  csolve xmul_num (mkPP k t c0 n) tau y l r false = Ok s' ->
  (forall B, bsplmatrix (mkPP k t c0 n) tau l r = Ok B -> nonsingular n B) ->
  length cstar = n ->
  (forall j, (k - 1 <= j <= n - 1)%nat -> tn t j < tn t (S j) ->
     forall x, dotR (map (fun i => P (tn t) j k i x) (seq 0 n)) cstar = p x) ->
  (forall jx x, nth_error tau jx = Some x -> tn t (k - 1) <= x <= tn t n) ->
  length y = length tau ->
  (forall jx x, nth_error tau jx = Some x ->
     nth_error y jx = Some (Derive_n p (row_m l r (length tau) jx) x)) ->
  forall x m, tn t (k - 1) <= x <= tn t n ->
    ppdnev_single xmul_num s' x m = Ok (Derive_n p m x).
Proof.
  intros Adm HS Hns. apply (poly_partial k n t c0 s' tau y l r p cstar Adm HS).
  pose proof Adm as (Hk & Hn & _).
  apply (solver_hyp (mkPP k t c0 n) s' tau y l r); auto. cbn. lia.
Qed.

(* polynomial reproduction with the coefficient vector given by Marsden's identity: no hypothesis
   other than a non-singular collocation matrix *)
Lemma poly_marsden_R k n t (c0 : option (list R)) (s' : @ppspline R R) tau y l r (q : list (R * R)) :
  admissible k n t ->
  csolve xmul_num (mkPP k t c0 n) tau y l r false = Ok s' ->
  (forall B, bsplmatrix (mkPP k t c0 n) tau l r = Ok B -> nonsingular n B) ->
  (forall jx x, nth_error tau jx = Some x -> tn t (k - 1) <= x <= tn t n) ->
  length y = length tau ->
  (forall jx x, nth_error tau jx = Some x ->
     nth_error y jx = Some (Derive_n (shifted_powers k q) (row_m l r (length tau) jx) x)) ->
  forall x m, tn t (k - 1) <= x <= tn t n ->
    ppdnev_single xmul_num s' x m = Ok (Derive_n (shifted_powers k q) m x).
Proof.
  intros Adm HS Hns.
  apply (poly_partial_R k n t c0 s' tau y l r (shifted_powers k q) (marsden_coeffs k n t q) Adm HS Hns).
  - unfold marsden_coeffs. rewrite map_length, seq_length. reflexivity.
  - intros j Hj Hs x. apply marsden_reproduces; auto.
Qed.

(* ------------------------------------------------------------------ every polynomial of degree < k *)
Definition poly_cstar (k n : nat) (t : list R) (a : list R) : list R :=
  map (fun i => poly_coeff (tn t) k a 0 i) (seq 0 n).

Lemma poly_cstar_repro k n t a : admissible k n t -> (length a <= k)%nat ->
  forall j, (k - 1 <= j <= n - 1)%nat -> tn t j < tn t (S j) ->
  forall x, dotR (map (fun i => P (tn t) j k i x) (seq 0 n)) (poly_cstar k n t a) = peval a x.
Proof.
  intros A La j Hj Hs x. pose proof A as (Hk & Hn & Len & ND & He & Hl).
  unfold poly_cstar. rewrite dotR_map_seq. cbn [Nat.add].
  apply (poly_repro (tn t) (tn_mono t ND) j Hs k n x a); auto; lia.
Qed.

(* C15_poly: the spline solved on samples of ANY polynomial of degree < k (coefficient list a,
   p x = a_0 + a_1 x + ...) is that polynomial, with all derivatives, on the whole domain *)
Lemma poly_R k n t (c0 : option (list R)) (s' : @ppspline R R) tau y l r (a : list R) :
  admissible k n t -> (length a <= k)%nat ->
  csolve xmul_num (mkPP k t c0 n) tau y l r false = Ok s' ->
  (forall B, bsplmatrix (mkPP k t c0 n) tau l r = Ok B -> nonsingular n B) ->
  (forall jx x, nth_error tau jx = Some x -> tn t (k - 1) <= x <= tn t n) ->
  length y = length tau ->
  (forall jx x, nth_error tau jx = Some x ->
     nth_error y jx = Some (Derive_n (peval a) (row_m l r (length tau) jx) x)) ->
  forall x m, tn t (k - 1) <= x <= tn t n ->
    ppdnev_single xmul_num s' x m = Ok (Derive_n (peval a) m x).
Proof.
  intros Adm La HS Hns.
  apply (poly_partial_R k n t c0 s' tau y l r (peval a) (poly_cstar k n t a) Adm HS Hns).
  - unfold poly_cstar. rewrite map_length, seq_length. reflexivity.
  - intros j Hj Hs x. apply poly_cstar_repro; auto.
Qed.
