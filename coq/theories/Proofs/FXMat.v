(* Lists-as-matrices lemmas for the FX proofs: lset / mset / mget / eye, square shapes, entry sums. *)
From Coq Require Import ZArith List Bool Lia Arith.
From RL Require Import Base.Num Base.Str Base.Outcome Model.FX.
Import ListNotations.
Local Open Scope nat_scope.

(* ------------------------------------------------------------------ lset *)
Lemma lset_length {X} (l : list X) : forall i x, length (lset l i x) = length l.
Proof. induction l as [|y l IH]; intros [|i] x; cbn; auto. Qed.

Lemma nth_lset {X} (l : list X) : forall i j x d,
  nth j (lset l i x) d = if (Nat.eqb i j && Nat.ltb i (length l))%bool then x else nth j l d.
Proof.
  induction l as [|y l IH]; intros i j x d.
  - cbn. destruct i, j; cbn; try reflexivity. rewrite andb_false_r. reflexivity.
  - destruct i as [|i], j as [|j]; cbn [lset nth length]; try reflexivity.
    rewrite IH. change (Nat.eqb (S i) (S j)) with (Nat.eqb i j).
    change (Nat.ltb (S i) (S (length l))) with (Nat.ltb i (length l)). reflexivity.
Qed.
Lemma nth_lset_same {X} (l : list X) i x d : i < length l -> nth i (lset l i x) d = x.
Proof.
  intros Hi. rewrite nth_lset, Nat.eqb_refl. apply Nat.ltb_lt in Hi. rewrite Hi. reflexivity.
Qed.
Lemma nth_lset_other {X} (l : list X) i j x d : i <> j -> nth j (lset l i x) d = nth j l d.
Proof. intros N. rewrite nth_lset. apply Nat.eqb_neq in N. rewrite N. reflexivity. Qed.

(* ------------------------------------------------------------------ square matrices *)
Definition sq {A} (n : nat) (m : list (list A)) : Prop :=
  length m = n /\ forall i, i < n -> length (nth i m []) = n.

Lemma mset_sq {A} n (m : list (list A)) i j x : sq n m -> sq n (mset m i j x).
Proof.
  intros [L R]. unfold mset. split; [rewrite lset_length; exact L|].
  intros k Hk. rewrite nth_lset. destruct (Nat.eqb i k && Nat.ltb i (length m))%bool eqn:E.
  - apply andb_true_iff in E. destruct E as [E _]. apply Nat.eqb_eq in E. subst k.
    rewrite lset_length. apply R. exact Hk.
  - apply R. exact Hk.
Qed.

Lemma mget_mset_same {A} n (m : list (list A)) i j x d :
  sq n m -> i < n -> j < n -> mget d (mset m i j x) i j = x.
Proof.
  intros [L R] Hi Hj. unfold mget, mset. rewrite nth_lset_same by lia.
  apply nth_lset_same. rewrite R by exact Hi. exact Hj.
Qed.
Lemma mget_mset_other {A} (m : list (list A)) i j x d i' j' :
  (i', j') <> (i, j) -> mget d (mset m i j x) i' j' = mget d m i' j'.
Proof.
  intros N. unfold mget, mset. rewrite nth_lset.
  destruct (Nat.eqb i i' && Nat.ltb i (length m))%bool eqn:E; [|reflexivity].
  apply andb_true_iff in E. destruct E as [E _]. apply Nat.eqb_eq in E. subst i'.
  apply nth_lset_other. intros C. subst. apply N. reflexivity.
Qed.
Lemma mget_mset {A} n (m : list (list A)) i j x d i' j' :
  sq n m -> i < n -> j < n ->
  mget d (mset m i j x) i' j' = if (Nat.eqb i' i && Nat.eqb j' j)%bool then x else mget d m i' j'.
Proof.
  intros S Hi Hj. destruct (Nat.eqb i' i && Nat.eqb j' j)%bool eqn:E.
  - apply andb_true_iff in E. destruct E as [E1 E2]. apply Nat.eqb_eq in E1, E2. subst.
    eapply mget_mset_same; eauto.
  - apply mget_mset_other. intros C. inversion C; subst. rewrite !Nat.eqb_refl in E. discriminate.
Qed.

(* nth of a map over seq *)
Lemma nth_map_seq {B} (f : nat -> B) n i d : i < n -> nth i (map f (seq 0 n)) d = f i.
Proof.
  intros Hi. rewrite nth_indep with (d' := f 0) by (rewrite map_length, seq_length; exact Hi).
  rewrite map_nth. rewrite seq_nth by exact Hi. reflexivity.
Qed.

Lemma eye_sq {A} (one zero : A) n : sq n (eye one zero n).
Proof.
  unfold eye. split; [rewrite map_length, seq_length; reflexivity|].
  intros i Hi. rewrite nth_map_seq by exact Hi. rewrite map_length, seq_length. reflexivity.
Qed.
Lemma mget_eye {A} (one zero : A) n i j d : i < n -> j < n ->
  mget d (eye one zero n) i j = if Nat.eqb i j then one else zero.
Proof.
  intros Hi Hj. unfold mget, eye. rewrite nth_map_seq by exact Hi. rewrite nth_map_seq by exact Hj.
  reflexivity.
Qed.

(* extensionality for square matrices *)
Lemma list_ext_nth {X} (d : X) (a b : list X) :
  length a = length b -> (forall i, i < length a -> nth i a d = nth i b d) -> a = b.
Proof. intros L E. apply nth_ext with (d := d) (d' := d); auto. Qed.
Lemma mat_ext {A} n (d : A) (a b : list (list A)) :
  sq n a -> sq n b -> (forall i j, i < n -> j < n -> mget d a i j = mget d b i j) -> a = b.
Proof.
  intros [La Ra] [Lb Rb] E. apply (list_ext_nth []); [congruence|].
  intros i Hi. rewrite La in Hi. apply (list_ext_nth d); [rewrite Ra, Rb; auto|].
  intros j Hj. rewrite Ra in Hj by exact Hi. apply E; auto.
Qed.

(* mget through an entry-wise map *)
Lemma mget_map {A B} (f : A -> B) (m : list (list A)) d i j :
  mget (f d) (map (map f) m) i j = f (mget d m i j).
Proof.
  unfold mget. change (@nil B) with (map f []). rewrite map_nth. rewrite map_nth. reflexivity.
Qed.
Lemma map_map_sq {A B} (f : A -> B) n (m : list (list A)) : sq n m -> sq n (map (map f) m).
Proof.
  intros [L R]. split; [rewrite map_length; exact L|]. intros i Hi.
  change (@nil B) with (map f []). rewrite map_nth, map_length. apply R. exact Hi.
Qed.

(* ------------------------------------------------------------------ sums of entries *)
Local Open Scope Z_scope.

Lemma zsum_cons x a : zsum (x :: a) = x + zsum a.
Proof. reflexivity. Qed.
Lemma zsum_le (a : list Z) : forall b, Forall2 Z.le a b -> zsum a <= zsum b /\ (zsum a = zsum b -> a = b).
Proof.
  induction a as [|x a IH]; intros b F; inversion F; subst.
  - split; [cbn; lia|reflexivity].
  - rewrite !zsum_cons. destruct (IH _ H3) as [I1 I2]. split; [lia|]. intros E.
    assert (x = y) by lia. subst. f_equal. apply I2. lia.
Qed.
Lemma msum_le (a : list (list Z)) : forall b, Forall2 (Forall2 Z.le) a b ->
  msum a <= msum b /\ (msum a = msum b -> a = b).
Proof.
  unfold msum. induction a as [|x a IH]; intros b F; inversion F; subst.
  - split; [cbn; lia|reflexivity].
  - cbn [map]. rewrite !zsum_cons.
    destruct (IH _ H3) as [I1 I2]. destruct (zsum_le _ _ H1) as [J1 J2]. split; [lia|]. intros E.
    assert (zsum x = zsum y) by lia. assert (zsum (map zsum a) = zsum (map zsum l')) by lia.
    f_equal; auto.
Qed.

Lemma Forall2_nth_intro {X} (R : X -> X -> Prop) (d : X) (a : list X) : forall b,
  length a = length b -> (forall i, (i < length a)%nat -> R (nth i a d) (nth i b d)) -> Forall2 R a b.
Proof.
  induction a as [|x a IH]; intros [|y b] L Hn; cbn in L; try discriminate; constructor.
  - apply (Hn 0%nat). cbn. lia.
  - apply IH; [lia|]. intros i Hi. apply (Hn (S i)). cbn. lia.
Qed.

Lemma mat_le_intro n (a b : list (list Z)) :
  sq n a -> sq n b -> (forall i j, (i < n)%nat -> (j < n)%nat -> mget 0 a i j <= mget 0 b i j) ->
  Forall2 (Forall2 Z.le) a b.
Proof.
  intros [La Ra] [Lb Rb] Hle. apply (Forall2_nth_intro _ []); [congruence|].
  intros i Hi. rewrite La in Hi. apply (Forall2_nth_intro _ 0); [rewrite Ra, Rb; auto|].
  intros j Hj. rewrite Ra in Hj by exact Hi. apply Hle; auto.
Qed.

Definition ones (n : nat) : list (list Z) := repeat (repeat 1 n) n.
Lemma zsum_repeat c n : zsum (repeat c n) = Z.of_nat n * c.
Proof. induction n; [cbn; lia|]. cbn [repeat]. rewrite zsum_cons, IHn. lia. Qed.
Lemma map_repeat' {X Y} (f : X -> Y) x n : map f (repeat x n) = repeat (f x) n.
Proof. induction n; cbn; [reflexivity|]. rewrite IHn. reflexivity. Qed.
Lemma msum_ones n : msum (ones n) = Z.of_nat (n * n).
Proof.
  unfold msum, ones. rewrite map_repeat'. rewrite !zsum_repeat. lia.
Qed.
Lemma ones_sq n : sq n (ones n).
Proof.
  unfold ones. split; [apply repeat_length|]. intros i Hi.
  rewrite nth_indep with (d' := repeat 1 n) by (rewrite repeat_length; exact Hi).
  rewrite nth_repeat. apply repeat_length.
Qed.
Lemma mget_ones n i j : (i < n)%nat -> (j < n)%nat -> mget 0 (ones n) i j = 1.
Proof.
  intros Hi Hj. unfold mget, ones.
  rewrite nth_indep with (d' := repeat 1 n) by (rewrite repeat_length; exact Hi).
  rewrite nth_repeat. rewrite nth_indep with (d' := 1) by (rewrite repeat_length; exact Hj).
  apply nth_repeat.
Qed.

Lemma cmat_sq (c : Z) n : sq n (repeat (repeat c n) n).
Proof.
  split; [apply repeat_length|]. intros i Hi.
  rewrite (nth_indep _ [] (repeat c n)) by (rewrite repeat_length; exact Hi).
  rewrite nth_repeat. apply repeat_length.
Qed.
Lemma mget_cmat (c : Z) n i j : (i < n)%nat -> (j < n)%nat -> mget 0 (repeat (repeat c n) n) i j = c.
Proof.
  intros Hi Hj. unfold mget.
  rewrite (nth_indep _ [] (repeat c n)) by (rewrite repeat_length; exact Hi).
  rewrite nth_repeat. rewrite (nth_indep _ 0 c) by (rewrite repeat_length; exact Hj).
  apply nth_repeat.
Qed.
