(* C03 / C20: re-listing a number on another variable list through the PUBLIC entry points
   `to_new_vars(.., None)`, `new_from`, `try_new_from` (dual.rs:227-315, 519-551, 671-704): whatever
   relationship `vars_cmp` finds (same Arc, equal list, superset, subset, unrelated), the result is well
   formed, lists exactly the target, keeps the value, and carries per NAME the coefficient of the
   source on the names the target has and zero elsewhere. *)
From Coq Require Import Reals ZArith List Bool Lra Lia.
From RL Require Import Base.Num Base.Str Base.NumR Base.Outcome Model.Dual
  Proofs.NumRP Proofs.DualP Proofs.Dual2P Proofs.NumberP.
Import ListNotations.
Open Scope R_scope.

(* ------------------------------------------------------------------ to_new_vars with state None *)
Lemma to_new_vars_same (a : dualR) target st : st = ArcEq \/ st = ValEq -> vs a = target -> wf a ->
  let x := to_new_vars a target st in
  wf x /\ vs x = target /\ re x = re a /\ forall v, coef x v = if mem v target then coef a v else 0.
Proof.
  intros S V [N L]. subst target.
  assert (C : forall v, lk (vs a) (du a) v = if mem v (vs a) then coef a v else 0).
  { intros v. destruct (mem v (vs a)) eqn:M; [reflexivity|]. apply mem_false in M. apply lk_notin. exact M. }
  destruct S; subst st; cbn; (split; [split; assumption|]); (split; [reflexivity|]); (split; [reflexivity|]); exact C.
Qed.

Lemma to_new_vars_auto_spec p (a : dualR) target : wf a -> NoDup target -> (p = true -> vs a = target) ->
  let x := to_new_vars_auto p a target in
  wf x /\ vs x = target /\ re x = re a /\ forall v, coef x v = if mem v target then coef a v else 0.
Proof.
  intros WA ND HP. unfold to_new_vars_auto.
  pose proof (vars_cmp_spec p (vs a) target) as S.
  destruct S as [Ep | Ev | Sup | Sub | ].
  - apply to_new_vars_same; auto.
  - apply to_new_vars_same; auto.
  - destruct (to_new_vars_lookup_spec a target Superset ltac:(congruence) ltac:(congruence) ND) as (R1 & R2 & R3 & R4). auto.
  - destruct (to_new_vars_lookup_spec a target Subset ltac:(congruence) ltac:(congruence) ND) as (R1 & R2 & R3 & R4). auto.
  - destruct (to_new_vars_lookup_spec a target Difference ltac:(congruence) ltac:(congruence) ND) as (R1 & R2 & R3 & R4). auto.
Qed.

(* when the target lists every variable of the source nothing observable changes *)
Lemma to_new_vars_auto_deq p (a : dualR) target : wf a -> NoDup target -> (p = true -> vs a = target) ->
  (forall v, In v (vs a) -> In v target) -> to_new_vars_auto p a target ≈ a.
Proof.
  intros WA ND HP S. destruct (to_new_vars_auto_spec p a target WA ND HP) as (_ & _ & R & C).
  split; [exact R|]. intros v. rewrite C. destruct (mem v target) eqn:M; auto.
  apply mem_false in M. symmetry. apply coef_notin. auto.
Qed.

Lemma to_new_vars2_same (a : dual2R) target st : st = ArcEq \/ st = ValEq -> vs2 a = target -> wf2 a ->
  let x := to_new_vars2 a target st in
  wf2 x /\ vs2 x = target /\ re2 x = re2 a /\
  (forall v, coef1 x v = if mem v target then coef1 a v else 0) /\
  (forall u v, coef2 x u v = if mem u target && mem v target then coef2 a u v else 0).
Proof.
  intros S V W. subst target.
  assert (C1 : forall v, lk (vs2 a) (du2 a) v = if mem v (vs2 a) then coef1 a v else 0).
  { intros v. symmetry. apply (reidx_c1 a (vs2 a) v). auto. }
  assert (C2 : forall u v, lk2 (vs2 a) (dd2 a) u v = if mem u (vs2 a) && mem v (vs2 a) then coef2 a u v else 0).
  { intros u v. symmetry. apply (reidx_c2 a (vs2 a) u v). auto. }
  destruct S; subst st; cbn; (split; [exact W|]); (split; [reflexivity|]); (split; [reflexivity|]); (split; [exact C1|exact C2]).
Qed.

Lemma to_new_vars2_auto_spec p (a : dual2R) target : wf2 a -> NoDup target -> (p = true -> vs2 a = target) ->
  let x := to_new_vars2_auto p a target in
  wf2 x /\ vs2 x = target /\ re2 x = re2 a /\
  (forall v, coef1 x v = if mem v target then coef1 a v else 0) /\
  (forall u v, coef2 x u v = if mem u target && mem v target then coef2 a u v else 0).
Proof.
  intros WA ND HP. unfold to_new_vars2_auto.
  pose proof (vars_cmp_spec p (vs2 a) target) as S.
  destruct S as [Ep | Ev | Sup | Sub | ].
  - apply to_new_vars2_same; auto.
  - apply to_new_vars2_same; auto.
  - destruct (to_new_vars2_lookup_spec a target Superset ltac:(congruence) ltac:(congruence) ND) as (R1 & R2 & R3 & R4 & R5). auto.
  - destruct (to_new_vars2_lookup_spec a target Subset ltac:(congruence) ltac:(congruence) ND) as (R1 & R2 & R3 & R4 & R5). auto.
  - destruct (to_new_vars2_lookup_spec a target Difference ltac:(congruence) ltac:(congruence) ND) as (R1 & R2 & R3 & R4 & R5). auto.
Qed.

Lemma to_new_vars2_auto_deq p (a : dual2R) target : wf2 a -> NoDup target -> (p = true -> vs2 a = target) ->
  (forall v, In v (vs2 a) -> In v target) -> to_new_vars2_auto p a target ≈₂ a.
Proof.
  intros WA ND HP S. destruct (to_new_vars2_auto_spec p a target WA ND HP) as (_ & _ & R & C1 & C2).
  split; [exact R|]. split.
  - intros v. rewrite C1. apply reidx_c1. exact S.
  - intros u v. rewrite C2. apply reidx_c2. exact S.
Qed.

(* the public pairing call `a.to_union_vars(&b, None)` is the alignment every binary operator performs (the operators
   only skip the re-wrapping when the lists are already equal): both results on one common list, the union of the
   names, values and per-name coefficients unchanged *)
Lemma to_union_vars_auto_align p (a b : dualR) : to_union_vars_auto p a b = align p a b.
Proof.
  unfold to_union_vars_auto, align. pose proof (vars_cmp_spec p (vs a) (vs b)) as S.
  destruct S as [Ep | Ev | Sup | Sub | ]; try reflexivity.
  cbn. f_equal. destruct b as [rb vb db]. cbn in *. congruence.
Qed.
Lemma to_union_vars_auto_spec p (a b : dualR) : wf a -> wf b -> (p = true -> vs a = vs b) ->
  let '(x, y) := to_union_vars_auto p a b in aligned a b x y.
Proof. intros WA WB HP. rewrite to_union_vars_auto_align. apply align_spec; auto. Qed.
Lemma to_union_vars2_auto_align p (a b : dual2R) : to_union_vars2_auto p a b = align2 p a b.
Proof.
  unfold to_union_vars2_auto, align2. pose proof (vars_cmp_spec p (vs2 a) (vs2 b)) as S.
  destruct S as [Ep | Ev | Sup | Sub | ]; try reflexivity.
  cbn. f_equal. destruct b as [rb vb db ddb]. cbn in *. congruence.
Qed.
Lemma to_union_vars2_auto_spec p (a b : dual2R) : wf2 a -> wf2 b -> (p = true -> vs2 a = vs2 b) ->
  let '(x, y) := to_union_vars2_auto p a b in aligned2 a b x y.
Proof. intros WA WB HP. rewrite to_union_vars2_auto_align. apply align2_spec; auto. Qed.

(* ------------------------------------------------------------------ what try_new returns *)
Lemma dual_try_new_ok r vars d (n : dualR) : dual_try_new r vars d = Ok n ->
  wf n /\ re n = r /\ vs n = dedup vars.
Proof.
  unfold dual_try_new. destruct (Nat.eqb_spec (length (dedup vars))
    (length (match d with [] => vones (length (dedup vars)) | _ => d end))) as [E|E]; [|discriminate].
  intros [= <-]. cbn. repeat split; auto. apply dedup_NoDup.
Qed.
Lemma dual_try_new_nopanic r vars (d : list R) : dual_try_new r vars d <> Panic.
Proof. unfold dual_try_new. destruct (Nat.eqb _ _); discriminate. Qed.

Lemma chunk_length n rows (l : list R) : length (chunk n rows l) = rows.
Proof. revert l; induction rows; intros l; cbn [chunk length]; auto. Qed.
Lemma chunk_rows n rows : forall (l : list R), length l = (rows * n)%nat ->
  Forall (fun row => length row = n) (chunk n rows l).
Proof.
  induction rows as [|k IH]; intros l Hl; cbn [chunk]; constructor.
  - rewrite firstn_length. simpl in Hl. lia.
  - apply IH. rewrite skipn_length. simpl in Hl. lia.
Qed.
Lemma dual2_try_new_ok r vars d d2 (n : dual2R) : dual2_try_new r vars d d2 = Ok n ->
  wf2 n /\ re2 n = r /\ vs2 n = dedup vars.
Proof.
  unfold dual2_try_new. set (u := dedup vars). set (k := length u).
  set (d' := match d with [] => vones k | _ => d end).
  destruct (Nat.eqb_spec k (length d')) as [E|E]; cbn [negb]; [|discriminate].
  destruct d2 as [|x d2].
  - intros [= <-]. cbn [vs2 du2 dd2 re2]. fold k. repeat split; auto; try apply dedup_NoDup; apply square_mzeros.
  - destruct (Nat.eqb_spec (length (x :: d2)) (k * k)) as [E2|E2]; cbn [negb]; [|discriminate].
    intros [= <-]. cbn [vs2 du2 dd2 re2]. fold k. repeat split; auto; try apply dedup_NoDup.
    + apply chunk_length.
    + apply chunk_rows. exact E2.
Qed.
Lemma dual2_try_new_nopanic r vars (d d2 : list R) : dual2_try_new r vars d d2 <> Panic.
Proof.
  unfold dual2_try_new. destruct (negb _); [discriminate|]. destruct d2; [discriminate|]. destruct (negb _); discriminate.
Qed.

(* ------------------------------------------------------------------ new_from / try_new_from *)
Lemma dual_try_new_from_spec other r vars d : NoDup other ->
  match dual_try_new r vars d with
  | Ok n => exists x, dual_try_new_from other r vars d = Ok x /\ wf x /\ vs x = other /\ re x = r /\
                      forall v, coef x v = if mem v other then coef n v else 0
  | Err => dual_try_new_from other r vars d = Err
  | Panic => False
  end.
Proof.
  intros ND. unfold dual_try_new_from. pose proof (dual_try_new_nopanic r vars d) as NP.
  destruct (dual_try_new r vars d) as [n| |] eqn:E; cbn [obind]; [|reflexivity|congruence].
  destruct (dual_try_new_ok r vars d n E) as (W & R & _).
  destruct (to_new_vars_auto_spec false n other W ND ltac:(discriminate)) as (A & B & C & D).
  eexists. split; [reflexivity|]. repeat split; try apply A; auto. congruence.
Qed.

Lemma dual_new_from_spec other r vars : NoDup other ->
  let x := dual_new_from other r vars in
  wf x /\ vs x = other /\ re x = r /\ forall v, coef x v = if mem v other && mem v vars then 1 else 0.
Proof.
  intros ND. cbn zeta. unfold dual_new_from.
  destruct (raise_one r vars) as (W & R & _ & C).
  destruct (to_new_vars_auto_spec false (dual_new r vars) other W ND ltac:(discriminate)) as (A & B & C' & D).
  repeat split; try apply A; auto.
  intros v. rewrite D, C. destruct (mem v other); reflexivity.
Qed.

Lemma dual2_try_new_from_spec other r vars d d2 : NoDup other ->
  match dual2_try_new r vars d d2 with
  | Ok n => exists x, dual2_try_new_from other r vars d d2 = Ok x /\ wf2 x /\ vs2 x = other /\ re2 x = r /\
                      (forall v, coef1 x v = if mem v other then coef1 n v else 0) /\
                      (forall u v, coef2 x u v = if mem u other && mem v other then coef2 n u v else 0)
  | Err => dual2_try_new_from other r vars d d2 = Err
  | Panic => False
  end.
Proof.
  intros ND. unfold dual2_try_new_from. pose proof (dual2_try_new_nopanic r vars d d2) as NP.
  destruct (dual2_try_new r vars d d2) as [n| |] eqn:E; cbn [obind]; [|reflexivity|congruence].
  destruct (dual2_try_new_ok r vars d d2 n E) as (W & R & _).
  destruct (to_new_vars2_auto_spec false n other W ND ltac:(discriminate)) as (A & B & C & D1 & D2).
  eexists. split; [reflexivity|]. repeat split; try apply A; auto. congruence.
Qed.

Lemma dual2_new_from_spec other r vars : NoDup other ->
  let x := dual2_new_from other r vars in
  wf2 x /\ vs2 x = other /\ re2 x = r /\
  (forall v, coef1 x v = if mem v other && mem v vars then 1 else 0) /\ (forall u v, coef2 x u v = 0).
Proof.
  intros ND. cbn zeta. unfold dual2_new_from.
  destruct (raise_two r vars) as (W & R & _ & C1 & C2).
  destruct (to_new_vars2_auto_spec false (dual2_new r vars) other W ND ltac:(discriminate)) as (A & B & C' & D1 & D2).
  split; [exact A|]. split; [exact B|]. split; [congruence|]. split.
  - intros v. rewrite D1, C1. destruct (mem v other); reflexivity.
  - intros u v. rewrite D2, C2. destruct (mem u other && mem v other); reflexivity.
Qed.

(* the error of try_new_from is exactly the error of try_new: the array lengths against the
   de-duplicated names *)
Lemma dual_try_new_err r vars (d : list R) :
  dual_try_new r vars d = Err <->
  length (dedup vars) <> length (match d with [] => vones (length (dedup vars)) | _ => d end).
Proof.
  unfold dual_try_new. destruct (Nat.eqb_spec (length (dedup vars))
    (length (match d with [] => vones (length (dedup vars)) | _ => d end))) as [E|E]; split; intros A; auto; try discriminate.
  exfalso. apply A. exact E.
Qed.
