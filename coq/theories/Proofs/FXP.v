(* C09: FXRates::try_new on tree-shaped quote sets (T := R): accepted, complete, arbitrage-free,
   equal to the path product; rejected otherwise. *)
From Coq Require Import Reals ZArith List Bool Lia Lra Arith Permutation.
From RL Require Import Base.Num Base.Str Base.NumR Base.Outcome Model.Dual Model.Number Model.FX
  Proofs.NumRP Proofs.DualP Proofs.AD1 Proofs.FXMat Proofs.FXFill Proofs.FXTree Proofs.FXCreate.
Import ListNotations.
Local Open Scope nat_scope.

(* ------------------------------------------------------------------ generic in the number type *)
Section Generic.
Context {T : Type} `{Num T}.

Definition quote_names (qs : list (fxrate T)) : list name := flat_map (fun q => [q0 q; q1 q]) qs.
Definition base_list (base : option name) : list name := match base with Some b => [b] | None => [] end.

Lemma ccy_index_eq qs base : ccy_index qs base = dedup (base_list base ++ quote_names qs).
Proof. reflexivity. Qed.
Lemma ccy_index_NoDup (qs : list (fxrate T)) base : NoDup (ccy_index qs base).
Proof. apply dedup_NoDup. Qed.
Lemma In_quote_names (qs : list (fxrate T)) c :
  In c (quote_names qs) <-> exists q, In q qs /\ (q0 q = c \/ q1 q = c).
Proof.
  unfold quote_names. rewrite in_flat_map. split; intros (q & I & D); exists q; split; auto.
  - cbn in D. tauto.
  - cbn. tauto.
Qed.
Lemma In_ccy_index (qs : list (fxrate T)) base c :
  In c (ccy_index qs base) <-> base = Some c \/ exists q, In q qs /\ (q0 q = c \/ q1 q = c).
Proof.
  rewrite ccy_index_eq, dedup_In, in_app_iff, In_quote_names.
  destruct base as [b|]; cbn; split; intros [D|D]; auto.
  - destruct D as [->|[]]. auto.
  - inversion D; auto.
  - destruct D.
  - discriminate.
Qed.
Lemma ccy_index_members (qs : list (fxrate T)) base :
  forall q, In q qs -> In (q0 q) (ccy_index qs base) /\ In (q1 q) (ccy_index qs base).
Proof. intros q I. split; apply In_ccy_index; right; exists q; auto. Qed.

Lemma fx_try_new_unfold (qs : list (fxrate T)) base :
  qs <> [] -> length (ccy_index qs base) = length qs + 1 -> settlement_consistent qs = true ->
  fx_try_new qs base =
  (do arr <- create_fx_array (ccy_index qs base) qs OOne; Ok (mkFX qs (ccy_index qs base) arr)).
Proof.
  intros NE L SC. unfold fx_try_new. destruct qs as [|q qs']; [contradiction|].
  rewrite L. rewrite Nat.ltb_irrefl. rewrite SC. reflexivity.
Qed.
Lemma fx_try_new_count (qs : list (fxrate T)) base :
  length (ccy_index qs base) <> length qs + 1 -> fx_try_new qs base = Err.
Proof.
  intros NL. unfold fx_try_new. destruct qs as [|q qs']; [reflexivity|].
  destruct (Nat.ltb (length (q :: qs') + 1) (length (ccy_index (q :: qs') base))) eqn:E1; [reflexivity|].
  destruct (Nat.ltb (length (ccy_index (q :: qs') base)) (length (q :: qs') + 1)) eqn:E2; [reflexivity|].
  apply Nat.ltb_ge in E1, E2. lia.
Qed.
Lemma fx_try_new_settlement (qs : list (fxrate T)) base :
  settlement_consistent qs = false -> fx_try_new qs base = Err.
Proof.
  intros SC. unfold fx_try_new. destruct qs as [|q qs']; [reflexivity|].
  rewrite SC. cbn [negb].
  destruct (Nat.ltb _ _); [reflexivity|]. destruct (Nat.ltb _ _); reflexivity.
Qed.
Lemma fx_try_new_empty base : fx_try_new (@nil (fxrate T)) base = Err.
Proof. reflexivity. Qed.

(* the three arms of create_fx_array are the generic creation *)
Lemma create_OZero cs (qs : list (fxrate T)) :
  create_fx_array cs qs OZero =
  omap AF (create_gen ops_f cs (map pair qs) (map num_to_f (lifted_rates qs OZero))).
Proof.
  unfold create_fx_array, create_gen. destruct (init_edges cs (map pair qs)); cbn [obind omap]; try reflexivity.
  destruct (init_arr ops_f _ _ _); cbn [obind omap]; try reflexivity. destruct (fill ops_f _ _ _ _); reflexivity.
Qed.
Lemma create_OOne cs (qs : list (fxrate T)) :
  create_fx_array cs qs OOne =
  omap AD (create_gen ops_d cs (map pair qs) (map num_to_dual (lifted_rates qs OOne))).
Proof.
  unfold create_fx_array, create_gen. destruct (init_edges cs (map pair qs)); cbn [obind omap]; try reflexivity.
  destruct (init_arr ops_d _ _ _); cbn [obind omap]; try reflexivity. destruct (fill ops_d _ _ _ _); reflexivity.
Qed.
Lemma create_OTwo cs (qs : list (fxrate T)) :
  create_fx_array cs qs OTwo =
  omap AD2 (create_gen ops_d2 cs (map pair qs) (map num_to_dual2 (lifted_rates qs OTwo))).
Proof.
  unfold create_fx_array, create_gen. destruct (init_edges cs (map pair qs)); cbn [obind omap]; try reflexivity.
  destruct (init_arr ops_d2 _ _ _); cbn [obind omap]; try reflexivity. destruct (fill ops_d2 _ _ _ _); reflexivity.
Qed.

(* tree-shaped quote sets give exactly the currency index *)
Definition base_ok (cs0 : list name) (base : option name) : Prop :=
  match base with Some b => In b cs0 | None => True end.

Lemma tree_index_perm cs0 (qs : list (fxrate T)) base :
  tree_quotes cs0 qs -> qs <> [] -> base_ok cs0 base -> Permutation (ccy_index qs base) cs0.
Proof.
  intros TQ NE BO. apply NoDup_Permutation; [apply ccy_index_NoDup|eapply tree_NoDup; eauto|].
  intros c. rewrite In_ccy_index. split.
  - intros [->|(q & I & D)]; [exact BO|]. destruct (tree_members _ _ TQ q I) as (A & B & _).
    destruct D as [<-|<-]; auto.
  - intros I. right. eapply tree_covered; eauto.
Qed.

Lemma small_square n : n <= 181 -> (Z.of_nat (n * n) <= 32767)%Z.
Proof. intros Hn. assert (n * n <= 181 * 181) by (apply Nat.mul_le_mono; exact Hn). lia. Qed.

Lemma try_new_ok_inv_gen (qs : list (fxrate T)) base fx : fx_try_new qs base = Ok fx ->
  qs <> [] /\ length (ccy_index qs base) = length qs + 1 /\ settlement_consistent qs = true.
Proof.
  intros E. split; [intros ->; discriminate|].
  destruct (Nat.eq_dec (length (ccy_index qs base)) (length qs + 1)) as [L|L].
  - split; auto. destruct (settlement_consistent qs) eqn:SC; auto.
    rewrite fx_try_new_settlement in E by exact SC. discriminate.
  - rewrite fx_try_new_count in E by exact L. discriminate.
Qed.

(* for any number type: no abort while n*n fits the i16 of the stop test *)
Theorem try_new_no_panic_gen (qs : list (fxrate T)) base :
  length (ccy_index qs base) <= 181 -> fx_try_new qs base <> Panic.
Proof.
  intros Hn. destruct qs as [|q0' qs']; [discriminate|]. set (qs := q0' :: qs') in *.
  destruct (Nat.eq_dec (length (ccy_index qs base)) (length qs + 1)) as [L|L];
    [|rewrite fx_try_new_count by exact L; discriminate].
  destruct (settlement_consistent qs) eqn:SC; [|rewrite fx_try_new_settlement by exact SC; discriminate].
  rewrite (fx_try_new_unfold qs base ltac:(discriminate) L SC). rewrite create_OOne.
  set (cs := ccy_index qs base) in *.
  assert (M : members_in cs (map pair qs)) by (apply members_of_quotes, ccy_index_members).
  pose proof (create_gen_spec ops_d cs (map pair qs) (map num_to_dual (lifted_rates qs OOne))
                (fun _ _ _ => True) (small_square _ Hn)) as CS.
  cbv zeta in CS. cbv beta in CS.
  specialize (CS ltac:(intros; constructor) ltac:(intros; constructor) ltac:(intros; constructor) M
                ltac:(apply Forall2_True; unfold lifted_rates; rewrite !map_length; reflexivity)).
  destruct (create_gen ops_d cs (map pair qs) (map num_to_dual (lifted_rates qs OOne))) as [arr| |];
    cbn [omap obind]; try discriminate. contradiction.
Qed.

(* for any number type and any size: what an accepted market looks like *)
Theorem try_new_shape (qs : list (fxrate T)) base f : fx_try_new qs base = Ok f ->
  currencies f = ccy_index qs base /\ fx_rates f = qs /\
  exists m, fx_array f = AD m /\ sq (length (currencies f)) m /\
            length m = length (currencies f) /\ Forall (fun r => length r = length (currencies f)) m.
Proof.
  intros E. destruct (try_new_ok_inv_gen _ _ _ E) as (NE & L & SC).
  rewrite (fx_try_new_unfold qs base NE L SC) in E. rewrite create_OOne in E.
  set (cs := ccy_index qs base) in *.
  assert (M : members_in cs (map pair qs)) by (apply members_of_quotes, ccy_index_members).
  destruct (create_gen ops_d cs (map pair qs) (map num_to_dual (lifted_rates qs OOne))) as [arr| |] eqn:CE;
    cbn [omap obind] in E; try discriminate.
  inversion E; subst f; clear E. cbn [currencies fx_rates fx_array].
  pose proof (create_gen_sq ops_d cs _ _ _ M CE) as S.
  split; [reflexivity|]. split; [reflexivity|]. exists arr. split; [reflexivity|]. split; [exact S|].
  destruct S as [S1 S2]. split; [exact S1|]. apply Forall_forall. intros r Ir.
  destruct (In_nth _ _ [] Ir) as (i & Hi & <-). apply S2. rewrite <- S1. exact Hi.
Qed.

End Generic.

(* ------------------------------------------------------------------ T := R *)
Local Open Scope R_scope.

Notation quoteR := (fxrate R).
Definition qval (q : quoteR) : R := num_real (rate q).
(* the quote as create_fx_array lifts it at order One *)
Definition lift1 (q : quoteR) : dual R :=
  num_to_dual (set_order_clone (rate q) OOne [fx_var (pair q)]).

Lemma re_lift1 q : re (lift1 q) = qval q.
Proof. unfold lift1, qval. destruct (rate q); reflexivity. Qed.

Lemma re_dmul p (a b : dual R) : re (dmul p a b) = re a * re b.
Proof. unfold dmul, align. destruct (vars_cmp p (vs a) (vs b)); reflexivity. Qed.
Lemma re_finv_d (a : dual R) : re a <> 0 -> re (fdiv_d 1 a) = / re a.
Proof.
  intros N. unfold fdiv_d, dmul_f, dpow. cbn [re]. rewrite npow_m1 by exact N. cbn [nmul NumR]. ring.
Qed.

(* the non-zero reals as the group of potentials *)
Definition Rnz (x : R) : Prop := x <> 0.
Definition Rpotential (qs : list quoteR) (v : name -> R) : Prop :=
  potential Rmult Rinv Rnz qval qs v.

Lemma Rnz_mul x y : Rnz x -> Rnz y -> Rnz (x * y).
Proof. unfold Rnz. intros. apply Rmult_integral_contrapositive_currified; auto. Qed.
Lemma Rnz_inv x : Rnz x -> Rnz (/ x).
Proof. unfold Rnz. intros. apply Rinv_neq_0_compat; auto. Qed.
Lemma Rnz_one : Rnz 1.
Proof. unfold Rnz. lra. Qed.
Lemma Rg_assoc x y z : Rnz x -> Rnz y -> Rnz z -> x * (y * z) = x * y * z.
Proof. intros. ring. Qed.
Lemma Rg_comm x y : Rnz x -> Rnz y -> x * y = y * x.
Proof. intros. ring. Qed.
Lemma Rg_one x : Rnz x -> x * 1 = x.
Proof. intros. ring. Qed.
Lemma Rg_inv x : Rnz x -> x * / x = 1.
Proof. unfold Rnz. intros. field. auto. Qed.

Lemma Rpotential_exists cs qs : tree_quotes cs qs -> (forall q, In q qs -> qval q <> 0) ->
  exists v, Rpotential qs v.
Proof.
  intros TQ NZ.
  exact (potential_exists Rmult Rinv 1 Rnz Rnz_mul Rnz_inv Rnz_one Rg_assoc Rg_comm Rg_one Rg_inv
           qval cs qs TQ NZ).
Qed.

Definition Rpath_prod : list (quoteR * bool) -> R := path_prod Rmult Rinv 1 qval.

Lemma Rpath_telescopes qs v : Rpotential qs v ->
  forall a b steps, qpath qs a b steps -> Rpath_prod steps = v a * / v b.
Proof.
  intros P. exact (path_telescopes Rmult Rinv 1 Rnz Rnz_mul Rnz_inv Rnz_one Rg_assoc Rg_comm Rg_one Rg_inv
                     qval qs v P).
Qed.

(* --- what try_new returns when it returns: every rate is the ratio of potentials *)
Lemma try_new_ok_inv (qs : list quoteR) base fx : fx_try_new qs base = Ok fx ->
  qs <> [] /\ length (ccy_index qs base) = (length qs + 1)%nat /\ settlement_consistent qs = true.
Proof.
  intros E. split; [intros ->; discriminate|].
  destruct (Nat.eq_dec (length (ccy_index qs base)) (length qs + 1)) as [L|L].
  - split; auto. destruct (settlement_consistent qs) eqn:SC; auto.
    rewrite fx_try_new_settlement in E by exact SC. discriminate.
  - rewrite fx_try_new_count in E by exact L. discriminate.
Qed.

Lemma quotes_forall2 (cs : list name) (qs : list quoteR) (I : nat -> nat -> dual R -> Prop) :
  (forall q, In q qs -> I (idx cs (q0 q)) (idx cs (q1 q)) (lift1 q)) ->
  Forall2 (fun p x => I (idx cs (p0 p)) (idx cs (p1 p)) x)
          (map pair qs) (map num_to_dual (lifted_rates qs OOne)).
Proof.
  induction qs as [|q qs IH]; intros Hq; cbn; constructor.
  - apply (Hq q). left; reflexivity.
  - apply IH. intros x Ix. apply Hq. right; exact Ix.
Qed.

Theorem try_new_values (qs : list quoteR) base fx v :
  (length (ccy_index qs base) <= 181)%nat -> Rpotential qs v -> fx_try_new qs base = Ok fx ->
  fx_rates fx = qs /\ currencies fx = ccy_index qs base /\
  forall a b, In a (currencies fx) -> In b (currencies fx) ->
    exists d, fx_rate fx a b = Some (ND d) /\ re d = v a * / v b.
Proof.
  intros Hn [Uv Pv] E. destruct (try_new_ok_inv _ _ _ E) as (NE & L & SC).
  rewrite (fx_try_new_unfold qs base NE L SC) in E. rewrite create_OOne in E.
  set (cs := ccy_index qs base) in *.
  pose (I := fun (i j : nat) (d : dual R) => re d = v (nth i cs []) * / v (nth j cs [])).
  assert (M : members_in cs (map pair qs)) by (apply members_of_quotes, ccy_index_members).
  pose proof (create_gen_spec ops_d cs (map pair qs) (map num_to_dual (lifted_rates qs OOne)) I
                (small_square _ Hn)) as CS.
  cbv zeta in CS.
  assert (NZ : forall i j, v (nth i cs []) * / v (nth j cs []) <> 0).
  { intros i j. apply Rnz_mul; [apply Uv|apply Rnz_inv, Uv]. }
  specialize (CS
    ltac:(intros a w b x y _ _ _ Ha Hb; unfold I in *; cbn [fmul ops_d]; rewrite re_dmul, Ha, Hb;
          field; split; apply Uv)
    ltac:(intros a b x _ _ Ha; unfold I in *; cbn [finv ops_d]; change n1 with 1;
          rewrite re_finv_d by (rewrite Ha; apply NZ); rewrite Ha; field; split; apply Uv)
    ltac:(intros i _; unfold I; cbn; field; apply Uv)
    M).
  specialize (CS ltac:(apply quotes_forall2; intros q Iq; unfold I;
                       destruct (ccy_index_members qs base q Iq) as [M0 M1]; fold cs in M0, M1;
                       rewrite !nth_idx by auto; rewrite re_lift1; apply Pv; exact Iq)).
  destruct (create_gen ops_d cs (map pair qs) (map num_to_dual (lifted_rates qs OOne))) as [arr| |];
    cbn [omap obind] in E; try discriminate.
  inversion E; subst fx; clear E. cbn [fx_rates currencies].
  split; [reflexivity|]. split; [reflexivity|].
  destruct CS as (_ & SA & VAL). intros a b Ia Ib.
  exists (mget dzero arr (idx cs a) (idx cs b)). unfold fx_rate. cbn [currencies fx_array].
  rewrite (index_of_idx _ _ Ia), (index_of_idx _ _ Ib). split; [reflexivity|].
  specialize (VAL (idx cs a) (idx cs b) (idx_lt _ _ Ia) (idx_lt _ _ Ib)). unfold I in VAL.
  rewrite !nth_idx in VAL by auto. exact VAL.
Qed.

(* --- tree-shaped quote sets are accepted *)
Theorem try_new_ok cs0 (qs : list quoteR) base :
  tree_quotes cs0 qs -> qs <> [] -> base_ok cs0 base -> settlement_consistent qs = true ->
  (length cs0 <= 181)%nat ->
  exists fx, fx_try_new qs base = Ok fx /\ fx_rates fx = qs /\ currencies fx = ccy_index qs base /\
             Permutation (currencies fx) cs0.
Proof.
  intros TQ NE BO SC Hn. pose proof (tree_index_perm cs0 qs base TQ NE BO) as PM.
  assert (L : length (ccy_index qs base) = (length qs + 1)%nat).
  { rewrite (Permutation_length PM), (tree_count _ _ TQ). lia. }
  rewrite (fx_try_new_unfold qs base NE L SC). rewrite create_OOne.
  set (cs := ccy_index qs base) in *.
  assert (Hn' : (length cs <= 181)%nat) by (rewrite (Permutation_length PM); exact Hn).
  assert (M : members_in cs (map pair qs)) by (apply members_of_quotes, ccy_index_members).
  pose proof (create_gen_spec ops_d cs (map pair qs) (map num_to_dual (lifted_rates qs OOne))
                (fun _ _ _ => True) (small_square _ Hn')) as CS.
  cbv zeta in CS.
  cbv beta in CS.
    specialize (CS ltac:(intros; constructor) ltac:(intros; constructor) ltac:(intros; constructor) M
                  ltac:(apply (quotes_forall2 cs qs (fun _ _ _ => True)); intros; constructor)).
  assert (CO : connected (length cs) (seed_edges cs (map pair qs))).
  { apply connected_iff; [apply ccy_index_NoDup|apply ccy_index_members|].
    intros a b Ia Ib. eapply tree_connected; eauto; eapply Permutation_in; eauto. }
  destruct (create_gen ops_d cs (map pair qs) (map num_to_dual (lifted_rates qs OOne))) as [arr| |].
  - cbn [omap obind]. eexists. split; [reflexivity|]. cbn. auto.
  - contradiction.
  - contradiction.
Qed.

(* --- everything else is rejected with an error: never Ok, never an abort *)
Theorem try_new_rejects (qs : list quoteR) base :
  (length (ccy_index qs base) <> (length qs + 1)%nat \/
   settlement_consistent qs = false \/
   ((length (ccy_index qs base) <= 181)%nat /\ ~ qconnected (ccy_index qs base) qs)) ->
  fx_try_new qs base = Err.
Proof.
  intros [L|[SC|[Hn NC]]].
  - apply fx_try_new_count; exact L.
  - apply fx_try_new_settlement; exact SC.
  - destruct qs as [|q0' qs']; [reflexivity|]. set (qs := q0' :: qs') in *.
    destruct (Nat.eq_dec (length (ccy_index qs base)) (length qs + 1)) as [L|L];
      [|apply fx_try_new_count; exact L].
    destruct (settlement_consistent qs) eqn:SC; [|apply fx_try_new_settlement; exact SC].
    rewrite (fx_try_new_unfold qs base ltac:(discriminate) L SC). rewrite create_OOne.
    set (cs := ccy_index qs base) in *.
    assert (M : members_in cs (map pair qs)) by (apply members_of_quotes, ccy_index_members).
    pose proof (create_gen_spec ops_d cs (map pair qs) (map num_to_dual (lifted_rates qs OOne))
                  (fun _ _ _ => True) (small_square _ Hn)) as CS.
    cbv zeta in CS.
    cbv beta in CS.
    specialize (CS ltac:(intros; constructor) ltac:(intros; constructor) ltac:(intros; constructor) M
                  ltac:(apply (quotes_forall2 cs qs (fun _ _ _ => True)); intros; constructor)).
    destruct (create_gen ops_d cs (map pair qs) (map num_to_dual (lifted_rates qs OOne))) as [arr| |].
    + exfalso. apply NC. apply connected_iff; [apply ccy_index_NoDup|apply ccy_index_members|apply CS].
    + reflexivity.
    + contradiction.
Qed.

(* ------------------------------------------------------------------ the C09 statements *)
Definition rate_val (fx : fxrates R) (a b : name) : R :=
  match fx_rate fx a b with Some x => num_real x | None => 0 end.

Definition quotes_nonzero (qs : list quoteR) : Prop := forall q, In q qs -> qval q <> 0.

Lemma qpath_mono (qs qs' : list quoteR) : (forall q, In q qs -> In q qs') ->
  forall a b steps, qpath qs a b steps -> qpath qs' a b steps.
Proof. intros S a b steps P. induction P; constructor; auto. Qed.

Lemma qpath_ends cs (qs : list quoteR) : (forall q, In q qs -> In (q0 q) cs /\ In (q1 q) cs) ->
  forall a b steps, qpath qs a b steps -> In a cs -> In b cs.
Proof.
  intros M a b steps P. induction P; intros Ia; auto.
  - apply IHP. apply (M q H).
  - apply IHP. apply (M q H).
Qed.

Theorem tree_market cs0 (qs : list quoteR) base :
  tree_quotes cs0 qs -> qs <> [] -> base_ok cs0 base -> settlement_consistent qs = true ->
  (length cs0 <= 181)%nat -> quotes_nonzero qs ->
  exists fx, fx_try_new qs base = Ok fx /\ fx_rates fx = qs /\ currencies fx = ccy_index qs base /\
    Permutation (currencies fx) cs0 /\
    (forall a b, In a cs0 -> In b cs0 -> exists d, fx_rate fx a b = Some (ND d) /\ re d <> 0) /\
    (forall a b steps, In a cs0 -> qpath qs a b steps -> rate_val fx a b = Rpath_prod steps).
Proof.
  intros TQ NE BO SC Hn NZ.
  destruct (try_new_ok cs0 qs base TQ NE BO SC Hn) as (fx & E & Q & C & PM).
  destruct (Rpotential_exists cs0 qs TQ NZ) as (v & PV).
  assert (Hn' : (length (ccy_index qs base) <= 181)%nat).
  { rewrite <- C, (Permutation_length PM). exact Hn. }
  destruct (try_new_values qs base fx v Hn' PV E) as (_ & _ & VAL).
  exists fx. repeat split; auto.
  - intros a b Ia Ib.
    destruct (VAL a b) as (d & Ed & Rd); try (eapply Permutation_in; [apply Permutation_sym|]; eauto).
    exists d. split; auto. rewrite Rd. destruct PV as [Uv _].
    apply Rnz_mul; [apply Uv|apply Rnz_inv, Uv].
  - intros a b steps Ia P.
    assert (Ib : In b cs0).
    { eapply (qpath_ends cs0 qs); eauto. intros q Iq. destruct (tree_members _ _ TQ q Iq) as (A & B & _). auto. }
    destruct (VAL a b) as (d & Ed & Rd); try (eapply Permutation_in; [apply Permutation_sym|]; eauto).
    unfold rate_val. rewrite Ed. cbn [num_real]. rewrite Rd. symmetry.
    eapply Rpath_telescopes; eauto.
Qed.

(* corollaries *)
Lemma rate_quoted cs0 (qs : list quoteR) base fx :
  tree_quotes cs0 qs -> base_ok cs0 base -> (length cs0 <= 181)%nat -> quotes_nonzero qs ->
  fx_try_new qs base = Ok fx ->
  forall q, In q qs -> rate_val fx (q0 q) (q1 q) = qval q.
Proof.
  intros TQ BO Hn NZ E q Iq.
  destruct (try_new_ok_inv _ _ _ E) as (NE & _ & SC).
  destruct (tree_market cs0 qs base TQ NE BO SC Hn NZ) as (fx' & E' & _ & _ & _ & _ & PATH).
  rewrite E in E'. inversion E'; subst fx'.
  rewrite (PATH (q0 q) (q1 q) [(q, true)]).
  - unfold Rpath_prod. cbn. ring.
  - apply (tree_members _ _ TQ q Iq).
  - constructor; auto. constructor.
Qed.
Lemma rate_self cs0 (qs : list quoteR) base fx :
  tree_quotes cs0 qs -> base_ok cs0 base -> (length cs0 <= 181)%nat -> quotes_nonzero qs ->
  fx_try_new qs base = Ok fx ->
  forall a, In a cs0 -> rate_val fx a a = 1.
Proof.
  intros TQ BO Hn NZ E a Ia.
  destruct (try_new_ok_inv _ _ _ E) as (NE & _ & SC).
  destruct (tree_market cs0 qs base TQ NE BO SC Hn NZ) as (fx' & E' & _ & _ & _ & _ & PATH).
  rewrite E in E'. inversion E'; subst fx'.
  rewrite (PATH a a []); [reflexivity|exact Ia|constructor].
Qed.

Fixpoint rev_steps (steps : list (quoteR * bool)) : list (quoteR * bool) :=
  match steps with
  | [] => []
  | (q, d) :: r => rev_steps r ++ [(q, negb d)]
  end.
Lemma qpath_app (qs : list quoteR) a b c s1 s2 :
  qpath qs a b s1 -> qpath qs b c s2 -> qpath qs a c (s1 ++ s2).
Proof. intros P1 P2. induction P1; cbn; auto; constructor; auto. Qed.
Lemma qpath_rev (qs : list quoteR) a b steps : qpath qs a b steps -> qpath qs b a (rev_steps steps).
Proof.
  induction 1; cbn.
  - constructor.
  - eapply qpath_app; [exact IHqpath|]. constructor; auto. constructor.
  - eapply qpath_app; [exact IHqpath|]. constructor; auto. constructor.
Qed.
Lemma Rpath_prod_app s1 s2 : Rpath_prod (s1 ++ s2) = Rpath_prod s1 * Rpath_prod s2.
Proof.
  unfold Rpath_prod. induction s1 as [|[q [|]] r IH]; cbn; [ring| |]; rewrite IH; ring.
Qed.
Lemma Rpath_prod_rev steps : (forall q d, In (q, d) steps -> qval q <> 0) ->
  Rpath_prod steps * Rpath_prod (rev_steps steps) = 1.
Proof.
  induction steps as [|[q d] r IH]; intros NZ; [unfold Rpath_prod; cbn; ring|].
  cbn [rev_steps]. rewrite Rpath_prod_app.
  assert (N : qval q <> 0) by (apply (NZ q d); left; reflexivity).
  assert (IH' := IH (fun q' d' I => NZ q' d' (or_intror I))).
  unfold Rpath_prod in *. destruct d; cbn [path_prod negb] in *.
  - transitivity ((path_prod Rmult Rinv 1 qval r * path_prod Rmult Rinv 1 qval (rev_steps r)) * (qval q * / qval q));
      [ring|]. rewrite IH'. field. exact N.
  - transitivity ((path_prod Rmult Rinv 1 qval r * path_prod Rmult Rinv 1 qval (rev_steps r)) * (qval q * / qval q));
      [ring|]. rewrite IH'. field. exact N.
Qed.

Lemma rate_inverse cs0 (qs : list quoteR) base fx :
  tree_quotes cs0 qs -> base_ok cs0 base -> (length cs0 <= 181)%nat -> quotes_nonzero qs ->
  fx_try_new qs base = Ok fx ->
  forall a b, In a cs0 -> In b cs0 -> rate_val fx a b * rate_val fx b a = 1.
Proof.
  intros TQ BO Hn NZ E a b Ia Ib.
  destruct (try_new_ok_inv _ _ _ E) as (NE & _ & SC).
  destruct (tree_market cs0 qs base TQ NE BO SC Hn NZ) as (fx' & E' & _ & _ & _ & _ & PATH).
  rewrite E in E'. inversion E'; subst fx'.
  destruct (qconn_path qs a b (tree_connected _ _ TQ a b Ia Ib)) as (steps & P).
  rewrite (PATH a b steps Ia P). rewrite (PATH b a (rev_steps steps) Ib (qpath_rev _ _ _ _ P)).
  apply Rpath_prod_rev. intros q d I. apply NZ.
  clear -P I. induction P; cbn in I; [contradiction| |]; destruct I as [I|I]; try (inversion I; subst; auto); auto.
Qed.

(* independence of the order of the quote list and of the base currency *)
Lemma rate_order_base_free cs0 (qs qs' : list quoteR) base base' fx fx' :
  tree_quotes cs0 qs -> Permutation qs qs' -> base_ok cs0 base -> base_ok cs0 base' ->
  (length cs0 <= 181)%nat -> quotes_nonzero qs ->
  fx_try_new qs base = Ok fx -> fx_try_new qs' base' = Ok fx' ->
  forall a b, In a cs0 -> In b cs0 -> rate_val fx a b = rate_val fx' a b.
Proof.
  intros TQ PM BO BO' Hn NZ E E' a b Ia Ib.
  assert (TQ' : tree_quotes cs0 qs') by (eapply tq_perm; eauto).
  assert (NZ' : quotes_nonzero qs').
  { intros q I. apply NZ. eapply Permutation_in; [apply Permutation_sym|]; eauto. }
  destruct (try_new_ok_inv _ _ _ E) as (NE & _ & SC).
  destruct (try_new_ok_inv _ _ _ E') as (NE' & _ & SC').
  destruct (tree_market cs0 qs base TQ NE BO SC Hn NZ) as (f1 & E1 & _ & _ & _ & _ & PATH).
  destruct (tree_market cs0 qs' base' TQ' NE' BO' SC' Hn NZ') as (f2 & E2 & _ & _ & _ & _ & PATH').
  rewrite E in E1. inversion E1; subst f1. rewrite E' in E2. inversion E2; subst f2.
  destruct (qconn_path qs a b (tree_connected _ _ TQ a b Ia Ib)) as (steps & P).
  rewrite (PATH a b steps Ia P).
  rewrite (PATH' a b steps Ia); [reflexivity|].
  eapply qpath_mono; [|exact P]. intros q I. eapply Permutation_in; eauto.
Qed.

(* fill-level safety on plain reals: whatever the fuel and the size, populated entries are ratios *)
Theorem fill_safety_R n (v : nat -> R) : (forall i, v i <> 0) ->
  forall fuel arr e prev arr' e',
    einv n e -> sq n arr ->
    (forall i j, (i < n)%nat -> (j < n)%nat -> adj e i j -> mget 0 arr i j = v i / v j) ->
    fill ops_f fuel arr e prev = Ok (arr', e') ->
    forall i j, (i < n)%nat -> (j < n)%nat -> adj e' i j -> mget 0 arr' i j = v i / v j.
Proof.
  intros NZ fuel arr e prev arr' e' EI SA P F.
  pose proof (fill_invariant ops_f n (fun i j x => x = v i / v j)) as FI.
  specialize (FI ltac:(intros a w b x y _ _ _ -> ->; cbn; field; split; apply NZ)
                 ltac:(intros a b x _ _ ->; cbn; field; split; apply NZ)
                 fuel arr e prev arr' e' EI (conj SA P) F).
  destruct FI as [_ G]. exact G.
Qed.

Lemma market_complete cs0 (qs : list quoteR) base :
  tree_quotes cs0 qs -> qs <> [] -> base_ok cs0 base -> settlement_consistent qs = true ->
  (length cs0 <= 181)%nat -> quotes_nonzero qs ->
  exists fx, fx_try_new qs base = Ok fx /\ fx_rates fx = qs /\ currencies fx = ccy_index qs base /\
    Permutation (currencies fx) cs0 /\
    (forall a b, In a cs0 -> In b cs0 -> exists d, fx_rate fx a b = Some (ND d) /\ re d <> 0).
Proof.
  intros TQ NE BO SC Hn NZ.
  destruct (tree_market cs0 qs base TQ NE BO SC Hn NZ) as (fx & A & B & C & D & E & _).
  exists fx. auto.
Qed.
Lemma market_path cs0 (qs : list quoteR) base fx :
  tree_quotes cs0 qs -> base_ok cs0 base -> (length cs0 <= 181)%nat -> quotes_nonzero qs ->
  fx_try_new qs base = Ok fx ->
  forall a b steps, In a cs0 -> qpath qs a b steps -> rate_val fx a b = Rpath_prod steps.
Proof.
  intros TQ BO Hn NZ E.
  destruct (try_new_ok_inv _ _ _ E) as (NE & _ & SC).
  destruct (tree_market cs0 qs base TQ NE BO SC Hn NZ) as (fx' & E' & _ & _ & _ & _ & PATH).
  rewrite E in E'. inversion E'; subst fx'. exact PATH.
Qed.
Lemma try_new_no_panic (qs : list quoteR) base :
  (length (ccy_index qs base) <= 181)%nat -> fx_try_new qs base <> Panic.
Proof.
  intros Hn. destruct qs as [|q0' qs']; [discriminate|]. set (qs := q0' :: qs') in *.
  destruct (Nat.eq_dec (length (ccy_index qs base)) (length qs + 1)) as [L|L];
    [|rewrite fx_try_new_count by exact L; discriminate].
  destruct (settlement_consistent qs) eqn:SC; [|rewrite fx_try_new_settlement by exact SC; discriminate].
  rewrite (fx_try_new_unfold qs base ltac:(discriminate) L SC). rewrite create_OOne.
  set (cs := ccy_index qs base) in *.
  assert (M : members_in cs (map pair qs)) by (apply members_of_quotes, ccy_index_members).
  pose proof (create_gen_spec ops_d cs (map pair qs) (map num_to_dual (lifted_rates qs OOne))
                (fun _ _ _ => True) (small_square _ Hn)) as CS.
  cbv zeta in CS. cbv beta in CS.
  specialize (CS ltac:(intros; constructor) ltac:(intros; constructor) ltac:(intros; constructor) M
                ltac:(apply (quotes_forall2 cs qs (fun _ _ _ => True)); intros; constructor)).
  destruct (create_gen ops_d cs (map pair qs) (map num_to_dual (lifted_rates qs OOne))) as [arr| |];
    cbn [omap obind]; try discriminate. contradiction.
Qed.

Lemma try_new_ok_connected (qs : list quoteR) base fx :
  (length (ccy_index qs base) <= 181)%nat -> fx_try_new qs base = Ok fx -> qconnected (ccy_index qs base) qs.
Proof.
  intros Hn E. destruct (try_new_ok_inv _ _ _ E) as (NE & L & SC).
  rewrite (fx_try_new_unfold qs base NE L SC) in E. rewrite create_OOne in E.
  set (cs := ccy_index qs base) in *.
  assert (M : members_in cs (map pair qs)) by (apply members_of_quotes, ccy_index_members).
  pose proof (create_gen_spec ops_d cs (map pair qs) (map num_to_dual (lifted_rates qs OOne))
                (fun _ _ _ => True) (small_square _ Hn)) as CS.
  cbv zeta in CS. cbv beta in CS.
  specialize (CS ltac:(intros; constructor) ltac:(intros; constructor) ltac:(intros; constructor) M
                ltac:(apply (quotes_forall2 cs qs (fun _ _ _ => True)); intros; constructor)).
  destruct (create_gen ops_d cs (map pair qs) (map num_to_dual (lifted_rates qs OOne))) as [arr| |];
    cbn [omap obind] in E; try discriminate.
  apply connected_iff; [apply ccy_index_NoDup|apply ccy_index_members|apply CS].
Qed.
