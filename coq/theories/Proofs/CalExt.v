(* Calendars are their BEHAVIOUR: every DateRoll operation depends on the business-day and settlement predicates
   pointwise only, and the predicates of a Cal depend only on WHICH weekdays are excluded and WHICH dates are holidays —
   not on the order in which a constructor or a saved document lists them, nor on repetitions.  No axioms. *)
From Coq Require Import ZArith List Bool Lia.
From RL Require Import Base.Outcome Model.Dates Model.Calendar.
Import ListNotations.
Open Scope Z_scope.

Section Ext.
  Variables bus bus' settle settle' : Z -> bool.
  Hypothesis Hb : forall d, bus d = bus' d.
  Hypothesis Hs : forall d, settle d = settle' d.
  Variable FUEL : nat.

  Lemma fwd_f_ext fuel d : fwd_f bus fuel d = fwd_f bus' fuel d.
  Proof. revert d; induction fuel as [|f IH]; intros d; cbn [fwd_f]; rewrite Hb; destruct (bus' d); auto. Qed.
  Lemma bwd_f_ext fuel d : bwd_f bus fuel d = bwd_f bus' fuel d.
  Proof. revert d; induction fuel as [|f IH]; intros d; cbn [bwd_f]; rewrite Hb; destruct (bus' d); auto. Qed.
  Lemma roll_fwd_ext d : roll_fwd bus FUEL d = roll_fwd bus' FUEL d.
  Proof. apply fwd_f_ext. Qed.
  Lemma roll_bwd_ext d : roll_bwd bus FUEL d = roll_bwd bus' FUEL d.
  Proof. apply bwd_f_ext. Qed.
  Lemma roll_mod_fwd_ext d : roll_mod_fwd bus FUEL d = roll_mod_fwd bus' FUEL d.
  Proof. unfold roll_mod_fwd. rewrite roll_fwd_ext, roll_bwd_ext. reflexivity. Qed.
  Lemma roll_mod_bwd_ext d : roll_mod_bwd bus FUEL d = roll_mod_bwd bus' FUEL d.
  Proof. unfold roll_mod_bwd. rewrite roll_fwd_ext, roll_bwd_ext. reflexivity. Qed.
  Lemma fwd_settled_f_ext fuel d : fwd_settled_f bus settle FUEL fuel d = fwd_settled_f bus' settle' FUEL fuel d.
  Proof.
    revert d; induction fuel as [|f IH]; intros d; cbn [fwd_settled_f]; rewrite roll_fwd_ext;
      destruct (roll_fwd bus' FUEL d) as [r| |]; cbn [obind]; auto; rewrite Hs; destruct (settle' r); auto.
  Qed.
  Lemma bwd_settled_f_ext fuel d : bwd_settled_f bus settle FUEL fuel d = bwd_settled_f bus' settle' FUEL fuel d.
  Proof.
    revert d; induction fuel as [|f IH]; intros d; cbn [bwd_settled_f]; rewrite roll_bwd_ext;
      destruct (roll_bwd bus' FUEL d) as [r| |]; cbn [obind]; auto; rewrite Hs; destruct (settle' r); auto.
  Qed.
  Lemma roll_ext d m s : roll bus settle FUEL d m s = roll bus' settle' FUEL d m s.
  Proof.
    unfold roll, roll_fwd_mod_settled, roll_bwd_mod_settled, roll_fwd_settled, roll_bwd_settled.
    destruct s, m; try reflexivity;
      rewrite ?fwd_settled_f_ext, ?bwd_settled_f_ext, ?roll_fwd_ext, ?roll_bwd_ext, ?roll_mod_fwd_ext, ?roll_mod_bwd_ext;
      reflexivity.
  Qed.
  Lemma step_fwd_ext n d : step_fwd bus FUEL n d = step_fwd bus' FUEL n d.
  Proof. revert d; induction n as [|k IH]; intros d; cbn [step_fwd]; auto. rewrite roll_fwd_ext.
         destruct (roll_fwd bus' FUEL (d + 1)); cbn [obind]; auto. Qed.
  Lemma step_bwd_ext n d : step_bwd bus FUEL n d = step_bwd bus' FUEL n d.
  Proof. revert d; induction n as [|k IH]; intros d; cbn [step_bwd]; auto. rewrite roll_bwd_ext.
         destruct (roll_bwd bus' FUEL (d - 1)); cbn [obind]; auto. Qed.
  Lemma add_bus_days_ext d n s : add_bus_days bus settle FUEL d n s = add_bus_days bus' settle' FUEL d n s.
  Proof.
    unfold add_bus_days, roll_fwd_settled, roll_bwd_settled. rewrite Hb. destruct (negb (bus' d)); auto.
    rewrite step_bwd_ext, step_fwd_ext.
    destruct (if n <? 0 then step_bwd bus' FUEL (Z.to_nat (- n)) d else step_fwd bus' FUEL (Z.to_nat n) d) as [r| |];
      cbn [obind]; auto.
    rewrite fwd_settled_f_ext, bwd_settled_f_ext. reflexivity.
  Qed.
  Lemma lag_ext d n s : lag bus settle FUEL d n s = lag bus' settle' FUEL d n s.
  Proof.
    unfold lag. rewrite Hb, roll_fwd_ext, roll_bwd_ext, add_bus_days_ext.
    destruct (bus' d); auto. destruct (n =? 0); auto. destruct (n <? 0).
    - destruct (roll_bwd bus' FUEL d); cbn [obind]; auto. rewrite add_bus_days_ext. reflexivity.
    - destruct (roll_fwd bus' FUEL d); cbn [obind]; auto. rewrite add_bus_days_ext. reflexivity.
  Qed.
  Lemma add_days_ext d n m s : add_days bus settle FUEL d n m s = add_days bus' settle' FUEL d n m s.
  Proof. apply roll_ext. Qed.
  Lemma add_months_ext d k m r s : add_months bus settle FUEL d k m r s = add_months bus' settle' FUEL d k m r s.
  Proof. unfold add_months. destruct (add_months_unadj d k r); cbn [obind]; auto. apply roll_ext. Qed.
  Lemma bus_range_f_ext fuel a e : bus_range_f bus settle FUEL fuel a e = bus_range_f bus' settle' FUEL fuel a e.
  Proof.
    revert a; induction fuel as [|f IH]; intros a; cbn [bus_range_f]; auto.
    destruct (e <? a); auto. rewrite add_bus_days_ext.
    destruct (add_bus_days bus' settle' FUEL a 1 false); cbn [obind]; auto. rewrite IH. reflexivity.
  Qed.
  Lemma bus_date_range_ext a e : bus_date_range bus settle FUEL a e = bus_date_range bus' settle' FUEL a e.
  Proof. unfold bus_date_range. rewrite !Hb. destruct (negb (bus' a) || negb (bus' e)); auto. apply bus_range_f_ext. Qed.
End Ext.

(* the predicates of a Cal see its two lists only through membership *)
Lemma zmem_members x l l' : (forall v, In v l <-> In v l') -> zmem x l = zmem x l'.
Proof.
  intros M. unfold zmem. apply eq_true_iff_eq. rewrite !existsb_exists. split; intros (y & I & E); exists y; split; auto; apply M; auto.
Qed.

Definition same_listing (c c' : cal) : Prop :=
  (forall v, In v (c_mask c) <-> In v (c_mask c')) /\ (forall h, In h (c_hols c) <-> In h (c_hols c')).

Lemma cal_pred_listing_free c c' : same_listing c c' ->
  forall d, cal_is_bus c d = cal_is_bus c' d /\ cal_is_holiday c d = cal_is_holiday c' d /\
            cal_is_weekday c d = cal_is_weekday c' d /\ cal_is_settle c d = cal_is_settle c' d.
Proof.
  intros (M & Hh) d. unfold cal_is_bus, cal_is_holiday, cal_is_weekday, cal_is_settle.
  rewrite (zmem_members (weekday d) _ _ M), (zmem_members d _ _ Hh). auto.
Qed.

(* a Cal and the same calendar listed differently (another order, repeated entries - e.g. restored from a saved
   document) adjust, add and range identically, for every search bound *)
Lemma cal_ops_listing_free c c' : same_listing c c' -> forall FUEL,
  (forall d m s, roll (cal_is_bus c) (cal_is_settle c) FUEL d m s = roll (cal_is_bus c') (cal_is_settle c') FUEL d m s) /\
  (forall d n s, add_bus_days (cal_is_bus c) (cal_is_settle c) FUEL d n s = add_bus_days (cal_is_bus c') (cal_is_settle c') FUEL d n s) /\
  (forall d n s, lag (cal_is_bus c) (cal_is_settle c) FUEL d n s = lag (cal_is_bus c') (cal_is_settle c') FUEL d n s) /\
  (forall d n m s, add_days (cal_is_bus c) (cal_is_settle c) FUEL d n m s = add_days (cal_is_bus c') (cal_is_settle c') FUEL d n m s) /\
  (forall d k m r s, add_months (cal_is_bus c) (cal_is_settle c) FUEL d k m r s = add_months (cal_is_bus c') (cal_is_settle c') FUEL d k m r s) /\
  (forall a e, bus_date_range (cal_is_bus c) (cal_is_settle c) FUEL a e = bus_date_range (cal_is_bus c') (cal_is_settle c') FUEL a e).
Proof.
  intros SL FUEL.
  assert (Hb : forall d, cal_is_bus c d = cal_is_bus c' d) by (intros d; apply (cal_pred_listing_free c c' SL d)).
  assert (Hs : forall d, cal_is_settle c d = cal_is_settle c' d) by reflexivity.
  repeat split; intros.
  - apply roll_ext; auto.
  - apply add_bus_days_ext; auto.
  - apply lag_ext; auto.
  - apply add_days_ext; auto.
  - apply add_months_ext; auto.
  - apply bus_date_range_ext; auto.
Qed.

Example listing_example :
  same_listing (mkCal [5; 6] [16685; 16686; 16683]) (mkCal [6; 5; 5] [16683; 16685; 16686; 16685]).
Proof. split; intros v; cbn; intuition. Qed.

Lemma forallb_members {A} (f : A -> bool) l l' : (forall x, In x l <-> In x l') -> forallb f l = forallb f l'.
Proof. intros M. apply eq_true_iff_eq. rewrite !forallb_forall. split; intros Hf x I; apply Hf, M, I. Qed.
Lemma existsb_members {A} (f : A -> bool) l l' : (forall x, In x l <-> In x l') -> existsb f l = existsb f l'.
Proof. intros M. apply eq_true_iff_eq. rewrite !existsb_exists. split; intros (x & I & E); exists x; split; auto; apply M; auto. Qed.

(* a combined calendar sees its member lists only through membership: order and repetition of members are immaterial *)
Definition same_members (u u' : ucal) : Prop :=
  (forall c, In c (u_cals u) <-> In c (u_cals u')) /\
  match u_settle u, u_settle u' with
  | None, None => True
  | Some v, Some v' => forall c, In c v <-> In c v'
  | _, _ => False
  end.

Lemma ucal_members_free u u' : same_members u u' ->
  forall d, ucal_is_bus u d = ucal_is_bus u' d /\ ucal_is_settle u d = ucal_is_settle u' d.
Proof.
  intros (M & S) d. unfold ucal_is_bus, ucal_is_weekday, ucal_is_holiday, ucal_is_settle.
  rewrite (forallb_members _ _ _ M), (existsb_members _ _ _ M). split; [reflexivity|].
  destruct (u_settle u) as [v|], (u_settle u') as [v'|]; try contradiction; [|reflexivity].
  rewrite (existsb_members _ _ _ S). reflexivity.
Qed.
