(* vm_compute check of one generated table against Model/Rules.v (its own file so that `make -j` runs them in parallel) *)
From Coq Require Import ZArith List Bool String.
From RL Require Import Base.Outcome Model.Rules Model.RuleChecks Gen.Fixings Proofs.RulesP.
Open Scope string_scope.

Lemma stk_ok : full_spec "stk" rules_stk.
Proof. apply full_check_spec. vm_cast_no_check (eq_refl true). Qed.
