(* Quote graphs: tree-shaped quote sets, connectivity in currency space, paths, and potentials with
   values in an abelian group given by (carrier, mul, inv, one, unit predicate).  The group is
   instantiated with the non-zero reals (C09) and with jets of positive reals (C10). *)
From Coq Require Import ZArith List Bool Lia Arith Permutation.
From RL Require Import Base.Num Base.Str Base.Outcome Model.Dual Model.Number Model.FX.
Import ListNotations.
Local Open Scope nat_scope.

Section Quotes.
Context {T : Type} `{Num T}.
Notation quote := (fxrate T).

Definition q0 (q : quote) : name := p0 (pair q).
Definition q1 (q : quote) : name := p1 (pair q).

Definition undirected_in (qs : list quote) (a b : name) : Prop :=
  exists q, In q qs /\ ((q0 q = a /\ q1 q = b) \/ (q0 q = b /\ q1 q = a)).

Inductive qconn (qs : list quote) : name -> name -> Prop :=
| qc_refl a : qconn qs a a
| qc_step a b c : qconn qs a b -> undirected_in qs b c -> qconn qs a c.

Lemma undirected_sym qs a b : undirected_in qs a b -> undirected_in qs b a.
Proof. intros (q & I & D). exists q. split; auto. tauto. Qed.
Lemma qconn_trans qs a b c : qconn qs a b -> qconn qs b c -> qconn qs a c.
Proof. intros A B. revert A. induction B; intros A; auto. econstructor; [apply IHB; exact A|auto]. Qed.
Lemma qconn_edge qs a b : undirected_in qs a b -> qconn qs a b.
Proof. intros U. econstructor; [apply qc_refl|exact U]. Qed.
Lemma qconn_sym qs a b : qconn qs a b -> qconn qs b a.
Proof.
  induction 1; [constructor|]. eapply qconn_trans; [|exact IHqconn].
  apply qconn_edge. apply undirected_sym. assumption.
Qed.
Lemma qconn_mono qs qs' a b : (forall q, In q qs -> In q qs') -> qconn qs a b -> qconn qs' a b.
Proof.
  intros S C. induction C; [constructor|]. econstructor; [exact IHC|].
  destruct H0 as (q & I & D). exists q. auto.
Qed.

(* tree-shaped quote sets: start from one currency, attach one new currency per quote (either
   orientation), in any order *)
Inductive tree_quotes : list name -> list quote -> Prop :=
| tq_one c : tree_quotes [c] []
| tq_fwd cs qs q : tree_quotes cs qs -> In (q0 q) cs -> ~ In (q1 q) cs -> tree_quotes (q1 q :: cs) (q :: qs)
| tq_bwd cs qs q : tree_quotes cs qs -> In (q1 q) cs -> ~ In (q0 q) cs -> tree_quotes (q0 q :: cs) (q :: qs)
| tq_perm cs cs' qs qs' : tree_quotes cs qs -> Permutation cs cs' -> Permutation qs qs' -> tree_quotes cs' qs'.

Lemma tree_NoDup cs qs : tree_quotes cs qs -> NoDup cs.
Proof.
  induction 1.
  - constructor; [intros []|constructor].
  - constructor; auto.
  - constructor; auto.
  - eapply Permutation_NoDup; eauto.
Qed.
Lemma tree_count cs qs : tree_quotes cs qs -> length cs = S (length qs).
Proof.
  induction 1; cbn; auto.
  rewrite <- (Permutation_length H1), <- (Permutation_length H2). exact IHtree_quotes.
Qed.
Lemma tree_members cs qs : tree_quotes cs qs ->
  forall q, In q qs -> In (q0 q) cs /\ In (q1 q) cs /\ q0 q <> q1 q.
Proof.
  induction 1; intros x I.
  - destruct I.
  - destruct I as [<-|I].
    + split; [right; auto|]. split; [left; auto|]. intros E. rewrite E in *. contradiction.
    + destruct (IHtree_quotes x I) as (A & B & C). repeat split; auto; right; auto.
  - destruct I as [<-|I].
    + split; [left; auto|]. split; [right; auto|]. intros E. rewrite E in *. contradiction.
    + destruct (IHtree_quotes x I) as (A & B & C). repeat split; auto; right; auto.
  - apply (Permutation_in _ (Permutation_sym H2)) in I. destruct (IHtree_quotes x I) as (A & B & C).
    repeat split; auto; eapply Permutation_in; eauto.
Qed.
Lemma tree_covered cs qs : tree_quotes cs qs -> qs <> [] ->
  forall z, In z cs -> exists q, In q qs /\ (q0 q = z \/ q1 q = z).
Proof.
  induction 1 as [c | cs qs q TQ IH I0 N1 | cs qs q TQ IH I1 N0 | cs cs' qs qs' TQ IH P1 P2]; intros NE z I.
  - contradiction.
  - destruct I as [<-|I]; [exists q; split; [left|]; auto|].
    destruct qs as [|q' qs'].
    + pose proof (tree_count _ _ TQ) as L. destruct cs as [|c0 [|]]; cbn in L; try discriminate.
      destruct I as [<-|[]]. destruct I0 as [->|[]]. exists q. split; [left|]; auto.
    + destruct (IH ltac:(discriminate) z I) as (x & Ix & D). exists x. split; [right|]; auto.
  - destruct I as [<-|I]; [exists q; split; [left|]; auto|].
    destruct qs as [|q' qs'].
    + pose proof (tree_count _ _ TQ) as L. destruct cs as [|c0 [|]]; cbn in L; try discriminate.
      destruct I as [<-|[]]. destruct I1 as [->|[]]. exists q. split; [left|]; auto.
    + destruct (IH ltac:(discriminate) z I) as (x & Ix & D). exists x. split; [right|]; auto.
  - assert (NE' : qs <> []).
    { intros ->. apply Permutation_nil in P2. contradiction. }
    apply (Permutation_in _ (Permutation_sym P1)) in I.
    destruct (IH NE' z I) as (x & Ix & D). exists x. split; auto.
    eapply Permutation_in; eauto.
Qed.
Lemma tree_connected cs qs : tree_quotes cs qs -> forall a b, In a cs -> In b cs -> qconn qs a b.
Proof.
  induction 1; intros a b Ia Ib.
  - destruct Ia as [<-|[]], Ib as [<-|[]]. constructor.
  - assert (M : forall x y, qconn qs x y -> qconn (q :: qs) x y)
      by (intros x y; apply qconn_mono; intros; right; auto).
    assert (E : undirected_in (q :: qs) (q0 q) (q1 q)) by (exists q; split; [left|]; auto).
    destruct Ia as [<-|Ia], Ib as [<-|Ib].
    + constructor.
    + eapply qconn_trans; [apply qconn_edge, undirected_sym, E|]. apply M. auto.
    + eapply qconn_trans; [apply M; apply (IHtree_quotes a (q0 q)); auto|]. apply qconn_edge, E.
    + apply M. auto.
  - assert (M : forall x y, qconn qs x y -> qconn (q :: qs) x y)
      by (intros x y; apply qconn_mono; intros; right; auto).
    assert (E : undirected_in (q :: qs) (q0 q) (q1 q)) by (exists q; split; [left|]; auto).
    destruct Ia as [<-|Ia], Ib as [<-|Ib].
    + constructor.
    + eapply qconn_trans; [apply qconn_edge, E|]. apply M. auto.
    + eapply qconn_trans; [apply M; apply (IHtree_quotes a (q1 q)); auto|]. apply qconn_edge, undirected_sym, E.
    + apply M. auto.
  - apply (qconn_mono qs); [intros; eapply Permutation_in; eauto|].
    apply IHtree_quotes; eapply Permutation_in; try apply Permutation_sym; eauto.
Qed.

Lemma NoDup_map_inj_in {X Y} (f : X -> Y) l : NoDup (map f l) ->
  forall x y, In x l -> In y l -> f x = f y -> x = y.
Proof.
  induction l as [|a l IH]; cbn; intros ND x y Ix Iy E; [contradiction|].
  inversion ND as [|? ? NI ND']; subst.
  destruct Ix as [<-|Ix], Iy as [<-|Iy]; auto.
  - exfalso. apply NI. rewrite E. apply in_map. exact Iy.
  - exfalso. apply NI. rewrite <- E. apply in_map. exact Ix.
Qed.
Lemma tree_pairs_NoDup cs qs : tree_quotes cs qs -> NoDup (map pair qs).
Proof.
  induction 1 as [c | cs qs q TQ IH I0 N1 | cs qs q TQ IH I1 N0 | cs cs' qs qs' TQ IH P1 P2]; cbn.
  - constructor.
  - constructor; auto. intros C. apply in_map_iff in C. destruct C as (x & E & Ix).
    destruct (tree_members _ _ TQ x Ix) as (_ & B & _). apply N1. unfold q1 in *. rewrite <- E. exact B.
  - constructor; auto. intros C. apply in_map_iff in C. destruct C as (x & E & Ix).
    destruct (tree_members _ _ TQ x Ix) as (A & _ & _). apply N0. unfold q0 in *. rewrite <- E. exact A.
  - eapply Permutation_NoDup; [apply Permutation_map; exact P2|exact IH].
Qed.
(* tree-ness only depends on the pairs *)
Lemma tree_quotes_pairs cs qs : tree_quotes cs qs -> forall qs', map pair qs = map pair qs' -> tree_quotes cs qs'.
Proof.
  induction 1 as [c | cs qs q TQ IH I0 N1 | cs qs q TQ IH I1 N0 | cs cs' qs qs' TQ IH P1 P2]; intros l E.
  - destruct l; [constructor|discriminate].
  - destruct l as [|x l]; [discriminate|]. cbn in E. inversion E as [[E1 E2]].
    assert (Q0 : q0 q = q0 x) by (unfold q0; rewrite E1; reflexivity).
    assert (Q1 : q1 q = q1 x) by (unfold q1; rewrite E1; reflexivity).
    rewrite Q1. apply tq_fwd; [apply IH; exact E2|rewrite <- Q0; exact I0|rewrite <- Q1; exact N1].
  - destruct l as [|x l]; [discriminate|]. cbn in E. inversion E as [[E1 E2]].
    assert (Q0 : q0 q = q0 x) by (unfold q0; rewrite E1; reflexivity).
    assert (Q1 : q1 q = q1 x) by (unfold q1; rewrite E1; reflexivity).
    rewrite Q0. apply tq_bwd; [apply IH; exact E2|rewrite <- Q1; exact I1|rewrite <- Q0; exact N0].
  - assert (PM : Permutation (map pair qs) (map pair l)) by (rewrite <- E; apply Permutation_map; exact P2).
    destruct (Permutation_map_inv _ _ PM) as (l3 & E3 & P3).
    eapply tq_perm; [apply (IH l3 E3)|exact P1|apply Permutation_sym; exact P3].
Qed.

(* directed walks through the quote graph: true = quote travelled base -> quoted, false = backwards *)
Inductive qpath (qs : list quote) : name -> name -> list (quote * bool) -> Prop :=
| qp_nil a : qpath qs a a []
| qp_fwd q c rest : In q qs -> qpath qs (q1 q) c rest -> qpath qs (q0 q) c ((q, true) :: rest)
| qp_bwd q c rest : In q qs -> qpath qs (q0 q) c rest -> qpath qs (q1 q) c ((q, false) :: rest).

Lemma qconn_path qs a b : qconn qs a b -> exists steps, qpath qs a b steps.
Proof.
  intros C. apply qconn_sym in C. induction C as [a | b x c C IH U].
  - exists []. constructor.
  - (* C : qconn b x (reversed), U : undirected x c; build c -> x -> ... -> b *)
    destruct IH as (steps & P). destruct U as (q & I & [[E0 E1]|[E0 E1]]); subst.
    + exists ((q, false) :: steps). constructor; auto.
    + exists ((q, true) :: steps). constructor; auto.
Qed.

(* ------------------------------------------------------------------ potentials in an abelian group *)
Section Group.
  Context {G : Type} (gmul : G -> G -> G) (ginv : G -> G) (gone : G) (U : G -> Prop).
  Hypothesis U_mul : forall x y, U x -> U y -> U (gmul x y).
  Hypothesis U_inv : forall x, U x -> U (ginv x).
  Hypothesis U_one : U gone.
  Hypothesis g_assoc : forall x y z, U x -> U y -> U z -> gmul x (gmul y z) = gmul (gmul x y) z.
  Hypothesis g_comm : forall x y, U x -> U y -> gmul x y = gmul y x.
  Hypothesis g_one : forall x, U x -> gmul x gone = x.
  Hypothesis g_inv : forall x, U x -> gmul x (ginv x) = gone.

  Lemma g_one_l x : U x -> gmul gone x = x.
  Proof. intros. rewrite g_comm; auto. Qed.
  Lemma g_inv_unique x y : U x -> U y -> gmul x y = gone -> y = ginv x.
  Proof.
    intros Ux Uy E.
    assert (S1 : gmul y (gmul x (ginv x)) = y) by (rewrite g_inv by auto; apply g_one; auto).
    rewrite g_assoc in S1 by auto. rewrite (g_comm y x) in S1 by auto. rewrite E in S1.
    rewrite g_one_l in S1 by auto. symmetry. exact S1.
  Qed.
  Lemma g_inv_inv x : U x -> ginv (ginv x) = x.
  Proof.
    intros Ux. symmetry. apply g_inv_unique; auto. rewrite g_comm by auto. apply g_inv. exact Ux.
  Qed.
  Lemma g_inv_mul x y : U x -> U y -> ginv (gmul x y) = gmul (ginv x) (ginv y).
  Proof.
    intros Ux Uy. symmetry. apply g_inv_unique; auto.
    rewrite g_assoc by auto. rewrite <- (g_assoc x y (ginv x)) by auto.
    rewrite (g_comm y (ginv x)) by auto. rewrite g_assoc by auto. rewrite g_inv by auto.
    rewrite g_one_l by auto. apply g_inv. exact Uy.
  Qed.
  (* (a/w)(w/b) = a/b *)
  Lemma g_telescope a w b : U a -> U w -> U b ->
    gmul (gmul a (ginv w)) (gmul w (ginv b)) = gmul a (ginv b).
  Proof.
    intros Ua Uw Ub. rewrite g_assoc by auto. rewrite <- (g_assoc a (ginv w) w) by auto.
    rewrite (g_comm (ginv w) w) by auto. rewrite g_inv by auto. rewrite g_one by auto. reflexivity.
  Qed.
  (* 1/(a/b) = b/a *)
  Lemma g_inv_ratio a b : U a -> U b -> ginv (gmul a (ginv b)) = gmul b (ginv a).
  Proof.
    intros Ua Ub. rewrite g_inv_mul by auto. rewrite g_inv_inv by auto. apply g_comm; auto.
  Qed.
  Lemma g_ratio_self a : U a -> gmul a (ginv a) = gone.
  Proof. apply g_inv. Qed.

  Context (gval : quote -> G).

  Definition potential (qs : list quote) (v : name -> G) : Prop :=
    (forall c, U (v c)) /\ forall q, In q qs -> gval q = gmul (v (q0 q)) (ginv (v (q1 q))).

  Lemma potential_exists cs qs : tree_quotes cs qs -> (forall q, In q qs -> U (gval q)) ->
    exists v, potential qs v.
  Proof.
    induction 1 as [c | cs qs q TQ IH I0 N1 | cs qs q TQ IH I1 N0 | cs cs' qs qs' TQ IH P1 P2]; intros UQ.
    - exists (fun _ => gone). split; [auto|]. intros q [].
    - destruct IH as (v & Uv & Pv); [intros; apply UQ; right; auto|].
      assert (Ug : U (gval q)) by (apply UQ; left; auto).
      exists (fun c => if name_eqb c (q1 q) then gmul (v (q0 q)) (ginv (gval q)) else v c).
      split; [intros c; destruct (name_eqb c (q1 q)); auto|].
      intros x [<-|Ix].
      + rewrite name_eqb_refl.
        assert (E : name_eqb (q0 q) (q1 q) = false).
        { apply name_eqb_neq. intros E. rewrite E in I0. contradiction. }
        rewrite E. rewrite g_inv_ratio by auto. rewrite (g_comm (gval q) (ginv (v (q0 q)))) by auto.
        rewrite g_assoc by auto. rewrite g_inv by auto. rewrite g_one_l by auto. reflexivity.
      + destruct (tree_members _ _ TQ x Ix) as (A & B & _).
        assert (E0 : name_eqb (q0 x) (q1 q) = false)
          by (apply name_eqb_neq; intros E; rewrite E in A; contradiction).
        assert (E1 : name_eqb (q1 x) (q1 q) = false)
          by (apply name_eqb_neq; intros E; rewrite E in B; contradiction).
        rewrite E0, E1. apply Pv. exact Ix.
    - destruct IH as (v & Uv & Pv); [intros; apply UQ; right; auto|].
      assert (Ug : U (gval q)) by (apply UQ; left; auto).
      exists (fun c => if name_eqb c (q0 q) then gmul (gval q) (v (q1 q)) else v c).
      split; [intros c; destruct (name_eqb c (q0 q)); auto|].
      intros x [<-|Ix].
      + rewrite name_eqb_refl.
        assert (E : name_eqb (q1 q) (q0 q) = false).
        { apply name_eqb_neq. intros E. rewrite E in I1. contradiction. }
        rewrite E. rewrite <- g_assoc by auto. rewrite g_inv by auto. rewrite g_one by auto. reflexivity.
      + destruct (tree_members _ _ TQ x Ix) as (A & B & _).
        assert (E0 : name_eqb (q0 x) (q0 q) = false)
          by (apply name_eqb_neq; intros E; rewrite E in A; contradiction).
        assert (E1 : name_eqb (q1 x) (q0 q) = false)
          by (apply name_eqb_neq; intros E; rewrite E in B; contradiction).
        rewrite E0, E1. apply Pv. exact Ix.
    - destruct IH as (v & Uv & Pv); [intros; apply UQ; eapply Permutation_in; eauto|].
      exists v. split; auto. intros q I. apply Pv. eapply Permutation_in; [apply Permutation_sym|]; eauto.
  Qed.

  (* product of the quotes along a walk, inverted when travelled backwards *)
  Fixpoint path_prod (steps : list (quote * bool)) : G :=
    match steps with
    | [] => gone
    | (q, true) :: r => gmul (gval q) (path_prod r)
    | (q, false) :: r => gmul (ginv (gval q)) (path_prod r)
    end.

  Lemma path_telescopes qs v : potential qs v ->
    forall a b steps, qpath qs a b steps -> path_prod steps = gmul (v a) (ginv (v b)).
  Proof.
    intros [Uv Pv] a b steps P. induction P.
    - cbn. symmetry. apply g_inv. auto.
    - cbn. rewrite IHP, (Pv q H0). apply g_telescope; auto.
    - cbn. rewrite IHP, (Pv q H0). rewrite g_inv_ratio by auto. apply g_telescope; auto.
  Qed.
End Group.

End Quotes.
