(* Second-order analogue of DualP.v: abstraction of Dual2 (value, derivative per name, stored
   half-Hessian entry per pair of names) and refinement lemmas for every Dual2 operator. *)
From Coq Require Import Reals ZArith List Bool Lra Lia.
From RL Require Import Base.Num Base.Str Base.NumR Base.Outcome Model.Dual Proofs.DualP.
Import ListNotations.
Open Scope R_scope.

Notation dual2R := (dual2 R).

Definition lk2 (vars : list name) (m : list (list R)) (u v : name) : R := lookup2_or_zero vars m u v.
Definition coef1 (d : dual2R) (v : name) : R := lk (vs2 d) (du2 d) v.
Definition coef2 (d : dual2R) (u v : name) : R := lk2 (vs2 d) (dd2 d) u v.
Definition square (n : nat) (m : list (list R)) : Prop := length m = n /\ Forall (fun r => length r = n) m.
Definition wf2 (d : dual2R) : Prop :=
  NoDup (vs2 d) /\ length (du2 d) = length (vs2 d) /\ square (length (vs2 d)) (dd2 d).
Definition deq2 (a b : dual2R) : Prop :=
  re2 a = re2 b /\ (forall v, coef1 a v = coef1 b v) /\ (forall u v, coef2 a u v = coef2 b u v).
Infix "≈₂" := deq2 (at level 70).

(* matrix entry with zero default *)
Definition ent (m : list (list R)) (i j : nat) : R := nth j (nth i m []) 0.
Lemma lk2_ent vars m u v :
  lk2 vars m u v = match index_of u vars, index_of v vars with
                   | Some i, Some j => ent m i j | _, _ => 0 end.
Proof. reflexivity. Qed.
Lemma lk2_notin_l vars m u v : ~ In u vars -> lk2 vars m u v = 0.
Proof. intros N. unfold lk2, lookup2_or_zero. apply index_of_none in N. rewrite N. reflexivity. Qed.
Lemma lk2_notin_r vars m u v : ~ In v vars -> lk2 vars m u v = 0.
Proof.
  intros N. unfold lk2, lookup2_or_zero. apply index_of_none in N. rewrite N.
  destruct (index_of u vars); reflexivity.
Qed.

Lemma ent_mmap f m i j : f 0 = 0 -> ent (mmap f m) i j = f (ent m i j).
Proof.
  intros F. unfold ent, mmap.
  replace (nth i (map (map f) m) []) with (map f (nth i m [])).
  - rewrite <- F at 1. apply map_nth.
  - symmetry. change (@nil R) with (map f []) at 1. apply map_nth.
Qed.
Lemma mzip_nth (f : R -> R -> R) a : forall b i, length a = length b ->
  nth i (mzip f a b) [] = vzip f (nth i a []) (nth i b []).
Proof.
  unfold mzip. induction a as [|x a IH]; intros [|y b] i L; cbn in *; try discriminate.
  - destruct i; reflexivity.
  - destruct i; [reflexivity|]. apply IH. lia.
Qed.
Lemma Forall_nth_len n (m : list (list R)) i : Forall (fun r => length r = n) m -> (i < length m)%nat ->
  length (nth i m []) = n.
Proof. intros F L. rewrite Forall_forall in F. apply F. apply nth_In. exact L. Qed.
Lemma ent_mzip f n a b i j : square n a -> square n b -> f 0 0 = 0 ->
  ent (mzip f a b) i j = f (ent a i j) (ent b i j).
Proof.
  intros [LA FA] [LB FB] F. unfold ent. rewrite mzip_nth by congruence.
  destruct (lt_dec i n) as [Hi|Hi].
  - apply nth_vzip; auto. rewrite (Forall_nth_len n a), (Forall_nth_len n b); auto; lia.
  - rewrite !(nth_overflow _ (@nil R)) by lia. cbn. destruct j; auto.
Qed.
Lemma length_mzip (f : R -> R -> R) a : forall b, length a = length b -> length (mzip f a b) = length a.
Proof. unfold mzip. induction a as [|x a IH]; intros [|y b] L; cbn in *; try discriminate; auto. Qed.
Lemma square_mzip f n a b : square n a -> square n b -> square n (mzip f a b).
Proof.
  intros [LA FA] [LB FB]. split; [rewrite length_mzip; congruence|].
  apply Forall_forall. intros r I. destruct (In_nth _ _ [] I) as (i & Hi & E).
  rewrite length_mzip in Hi by congruence.
  rewrite mzip_nth in E by congruence. subst r. rewrite length_vzip.
  - apply Forall_nth_len; auto.
  - rewrite (Forall_nth_len n a), (Forall_nth_len n b); auto; lia.
Qed.
Lemma square_mmap f n a : square n a -> square n (mmap f a).
Proof.
  intros [LA FA]. unfold mmap. split; [rewrite map_length; auto|].
  apply Forall_forall. intros r I. apply in_map_iff in I. destruct I as (r0 & E & I). subst.
  rewrite map_length. rewrite Forall_forall in FA. auto.
Qed.
Lemma ent_outer a b i j : ent (outer a b) i j = nth i a 0 * nth j b 0.
Proof.
  unfold ent, outer. set (g := fun x : R => map (fun y => nmul x y) b).
  destruct (lt_dec i (length a)) as [Hi|Hi].
  - assert (E : nth i (map g a) [] = g (nth i a 0)).
    { rewrite nth_indep with (d' := g 0); [apply map_nth|]. rewrite map_length. exact Hi. }
    rewrite E. unfold g.
    set (h := fun y : R => nmul (nth i a 0) y).
    replace 0 with (h 0) at 1 by (unfold h; cbn; ring).
    rewrite map_nth. reflexivity.
  - rewrite (nth_overflow (map g a)) by (rewrite map_length; lia). rewrite (nth_overflow a) by lia.
    destruct j; cbn; ring.
Qed.
Lemma square_outer a b : length a = length b -> square (length a) (outer a b).
Proof.
  intros L. unfold outer. split; [apply map_length|]. apply Forall_forall. intros r I.
  apply in_map_iff in I. destruct I as (x & E & _). subst. rewrite map_length. auto.
Qed.
Lemma transpose_aux_nth n : forall (m : list (list R)) i, (i < n)%nat ->
  nth i (transpose_aux n m) [] = map (fun r => nth i r 0) m.
Proof.
  induction n as [|n IH]; intros m i Hi; [lia|]. cbn. destruct i as [|i].
  - apply map_ext. intros r. destruct r; reflexivity.
  - rewrite IH by lia. rewrite map_map. apply map_ext. intros r. destruct r; cbn; auto. destruct i; auto.
Qed.
Lemma transpose_aux_length n (m : list (list R)) : length (transpose_aux n m) = n.
Proof. revert m; induction n; intros m; cbn; auto. Qed.
Lemma ent_transpose n m i j : square n m -> ent (transpose n m) i j = ent m j i.
Proof.
  intros [L F]. unfold ent, transpose. destruct (lt_dec i n) as [Hi|Hi].
  - rewrite transpose_aux_nth by auto. set (g := fun r : list R => nth i r 0).
    destruct (lt_dec j (length m)) as [Hj|Hj].
    + assert (E : nth j (map g m) 0 = g (nth j m [])).
      { rewrite nth_indep with (d' := g []); [apply map_nth|]. rewrite map_length. exact Hj. }
      rewrite E. reflexivity.
    + assert (E : nth j (map g m) 0 = 0) by (apply nth_overflow; rewrite map_length; lia).
      rewrite E. assert (E2 : nth j m [] = []) by (apply nth_overflow; lia). rewrite E2.
      destruct i; reflexivity.
  - assert (E : nth i (transpose_aux n m) [] = []) by (apply nth_overflow; rewrite transpose_aux_length; lia).
    rewrite E.
    destruct (lt_dec j (length m)) as [Hj|Hj].
    + assert (E2 : nth i (nth j m []) 0 = 0).
      { apply nth_overflow. rewrite (Forall_nth_len n m) by auto. lia. }
      rewrite E2. destruct j; reflexivity.
    + assert (E2 : nth j m [] = []) by (apply nth_overflow; lia). rewrite E2.
      destruct j; destruct i; reflexivity.
Qed.
Lemma square_transpose n m : square n m -> square n (transpose n m).
Proof.
  intros [L F]. unfold transpose. split; [apply transpose_aux_length|].
  apply Forall_forall. intros r I. destruct (In_nth _ _ [] I) as (i & Hi & E).
  rewrite transpose_aux_length in Hi. rewrite transpose_aux_nth in E by auto. subst. rewrite map_length. auto.
Qed.
Lemma square_mzeros n : square n (mzeros n n).
Proof.
  unfold mzeros. split; [apply repeat_length|]. apply Forall_forall. intros r I.
  apply repeat_spec in I. subst. apply repeat_length.
Qed.
Lemma nth_repeat_dflt {A} (x : A) n i : nth i (repeat x n) x = x.
Proof. revert i; induction n; intros [|i]; cbn; auto. Qed.
Lemma ent_mzeros n k i j : ent (mzeros n k) i j = 0.
Proof.
  unfold ent, mzeros. cbn [n0 NumR].
  destruct (lt_dec i n) as [Hi|Hi].
  - assert (E : nth i (repeat (repeat 0 k) n) [] = repeat 0 k).
    { rewrite nth_indep with (d' := repeat 0 k); [apply nth_repeat_dflt|]. rewrite repeat_length. exact Hi. }
    rewrite E. apply nth_repeat_dflt.
  - assert (E : nth i (repeat (repeat 0 k) n) [] = []) by (apply nth_overflow; rewrite repeat_length; lia).
    rewrite E. destruct j; reflexivity.
Qed.

(* ------------------------------------------------------------------ lookups by name *)
Lemma lk2_mmap f vars m u v : f 0 = 0 -> lk2 vars (mmap f m) u v = f (lk2 vars m u v).
Proof.
  intros F. rewrite !lk2_ent. destruct (index_of u vars), (index_of v vars); auto. apply ent_mmap; auto.
Qed.
Lemma lk2_mzip f n vars a b u v : square n a -> square n b -> f 0 0 = 0 ->
  lk2 vars (mzip f a b) u v = f (lk2 vars a u v) (lk2 vars b u v).
Proof.
  intros SA SB F. rewrite !lk2_ent. destruct (index_of u vars), (index_of v vars); auto.
  apply (ent_mzip f n); auto.
Qed.
Lemma lk2_outer vars a b u v : lk2 vars (outer a b) u v = lk vars a u * lk vars b v.
Proof.
  rewrite lk2_ent. unfold lk, lookup_or_zero. cbn [n0 NumR].
  destruct (index_of u vars), (index_of v vars); try ring. apply ent_outer.
Qed.
Lemma lk2_transpose n vars m u v : square n m -> lk2 vars (transpose n m) u v = lk2 vars m v u.
Proof.
  intros S. rewrite !lk2_ent. destruct (index_of u vars), (index_of v vars); auto. apply ent_transpose; auto.
Qed.
Lemma lk2_mzeros vars n k u v : lk2 vars (mzeros n k) u v = 0.
Proof. rewrite lk2_ent. destruct (index_of u vars), (index_of v vars); auto. apply ent_mzeros. Qed.

Definition reindex2 (vars : list name) (m : list (list R)) (target : list name) : list (list R) :=
  map (fun u => map (fun v => lookup2_or_zero vars m u v) target) target.
Lemma square_reindex2 vars m target : square (length target) (reindex2 vars m target).
Proof.
  unfold reindex2. split; [apply map_length|]. apply Forall_forall. intros r I.
  apply in_map_iff in I. destruct I as (x & E & _). subst. apply map_length.
Qed.
Lemma lk2_reindex vars m target u v :
  lk2 target (reindex2 vars m target) u v = if mem u target && mem v target then lk2 vars m u v else 0.
Proof.
  rewrite lk2_ent. unfold mem.
  destruct (index_of u target) as [i|] eqn:Eu; [|reflexivity].
  destruct (index_of v target) as [j|] eqn:Ev; [|reflexivity]. cbn [andb].
  destruct (index_of_some _ _ _ Eu) as [Ai Bi]. destruct (index_of_some _ _ _ Ev) as [Aj Bj].
  unfold ent, reindex2.
  set (g := fun u0 : name => map (fun v0 => lookup2_or_zero vars m u0 v0) target).
  assert (E1 : nth i (map g target) [] = g (nth i target [])).
  { rewrite nth_indep with (d' := g []); [apply map_nth|]. rewrite map_length. exact Ai. }
  rewrite E1, Bi. unfold g.
  set (h := fun v0 : name => lookup2_or_zero vars m u v0).
  assert (E2 : nth j (map h target) 0 = h (nth j target [])).
  { rewrite nth_indep with (d' := h []); [apply map_nth|]. rewrite map_length. exact Aj. }
  rewrite E2, Bj. reflexivity.
Qed.

(* ------------------------------------------------------------------ alignment *)
Lemma to_new_vars2_lookup_spec a target st :
  st <> ArcEq -> st <> ValEq -> NoDup target ->
  let x := to_new_vars2 a target st in
  re2 x = re2 a /\ vs2 x = target /\ wf2 x /\
  (forall v, coef1 x v = if mem v target then coef1 a v else 0) /\
  (forall u v, coef2 x u v = if mem u target && mem v target then coef2 a u v else 0).
Proof.
  intros N1 N2 ND. destruct st; try congruence; cbn.
  all: split; [reflexivity|]; split; [reflexivity|]; split;
    [split; cbn; [exact ND|split; [apply map_length|apply (square_reindex2 (vs2 a) (dd2 a) target)]]|];
    split; [intros v; unfold coef1; cbn; apply lk_reindex|intros u v; unfold coef2; cbn; apply (lk2_reindex (vs2 a) (dd2 a) target)].
Qed.

Record aligned2 (a b x y : dual2R) : Prop := {
  a2_vs : vs2 x = vs2 y;
  a2_wfx : wf2 x; a2_wfy : wf2 y;
  a2_rex : re2 x = re2 a; a2_rey : re2 y = re2 b;
  a2_cx : forall v, coef1 x v = coef1 a v;
  a2_cy : forall v, coef1 y v = coef1 b v;
  a2_ccx : forall u v, coef2 x u v = coef2 a u v;
  a2_ccy : forall u v, coef2 y u v = coef2 b u v;
  a2_in : forall v, In v (vs2 x) <-> In v (vs2 a) \/ In v (vs2 b)
}.

Lemma coef2_notin_l d u v : ~ In u (vs2 d) -> coef2 d u v = 0.
Proof. apply lk2_notin_l. Qed.
Lemma coef2_notin_r d u v : ~ In v (vs2 d) -> coef2 d u v = 0.
Proof. apply lk2_notin_r. Qed.
Lemma coef1_notin d v : ~ In v (vs2 d) -> coef1 d v = 0.
Proof. apply lk_notin. Qed.

Lemma reidx_c1 (a : dual2R) (T : list name) v :
  (forall w, In w (vs2 a) -> In w T) ->
  (if mem v T then coef1 a v else 0) = coef1 a v.
Proof.
  intros S. destruct (mem v T) eqn:M; auto. apply mem_false in M. symmetry. apply coef1_notin. auto.
Qed.
Lemma reidx_c2 (a : dual2R) (T : list name) u v :
  (forall w, In w (vs2 a) -> In w T) ->
  (if mem u T && mem v T then coef2 a u v else 0) = coef2 a u v.
Proof.
  intros S. destruct (mem u T) eqn:M; cbn [andb].
  - destruct (mem v T) eqn:M2; auto. apply mem_false in M2. symmetry. apply coef2_notin_r. auto.
  - apply mem_false in M. symmetry. apply coef2_notin_l. auto.
Qed.

Lemma align2_spec p a b : wf2 a -> wf2 b -> (p = true -> vs2 a = vs2 b) ->
  let '(x, y) := align2 p a b in aligned2 a b x y.
Proof.
  intros WA WB HP. pose proof WA as (NA & LA & SA). pose proof WB as (NB & LB & SB). unfold align2.
  pose proof (vars_cmp_spec p (vs2 a) (vs2 b)) as S.
  destruct S as [Ep | Ev | Sup | Sub | ].
  - specialize (HP Ep). constructor; try assumption; try reflexivity. intros w. rewrite HP. tauto.
  - constructor; try assumption; try reflexivity. intros w. rewrite Ev. tauto.
  - cbn [to_union_vars2].
    destruct (to_new_vars2_lookup_spec b (vs2 a) Subset ltac:(congruence) ltac:(congruence) NA) as (R1 & R2 & R3 & R4 & R5).
    constructor; try assumption; try reflexivity.
    + intros w. rewrite R4. apply reidx_c1. exact Sup.
    + intros u w. rewrite R5. apply reidx_c2. exact Sup.
    + intros w. split; auto. intros [C|C]; auto.
  - cbn [to_union_vars2].
    destruct (to_new_vars2_lookup_spec a (vs2 b) Subset ltac:(congruence) ltac:(congruence) NB) as (R1 & R2 & R3 & R4 & R5).
    constructor; try assumption; try reflexivity.
    + intros w. rewrite R4. apply reidx_c1. exact Sub.
    + intros u w. rewrite R5. apply reidx_c2. exact Sub.
    + intros w. rewrite R2. split; auto. intros [C|C]; auto.
  - cbn [to_union_vars2].
    assert (NU : NoDup (union_vars (vs2 a) (vs2 b))) by (apply union_vars_NoDup; auto).
    destruct (to_new_vars2_lookup_spec a _ Difference ltac:(congruence) ltac:(congruence) NU) as (R1 & R2 & R3 & R4 & R5).
    destruct (to_new_vars2_lookup_spec b _ Difference ltac:(congruence) ltac:(congruence) NU) as (S1 & S2 & S3 & S4 & S5).
    constructor; try assumption; try reflexivity.
    + intros w. rewrite R4. apply reidx_c1. intros z I. apply union_vars_In. auto.
    + intros w. rewrite S4. apply reidx_c1. intros z I. apply union_vars_In. auto.
    + intros u w. rewrite R5. apply reidx_c2. intros z I. apply union_vars_In. auto.
    + intros u w. rewrite S5. apply reidx_c2. intros z I. apply union_vars_In. auto.
    + intros w. cbn [vs2 to_new_vars2]. apply union_vars_In.
Qed.

(* the first-order part of the alignment is the first-order alignment *)
Lemma align2_proj p a b :
  let '(x, y) := align2 p a b in
  align p (dual_of_dual2 a) (dual_of_dual2 b) = (dual_of_dual2 x, dual_of_dual2 y).
Proof.
  unfold align2, align. cbn [vs dual_of_dual2].
  destruct (vars_cmp p (vs2 a) (vs2 b)); reflexivity.
Qed.


(* ------------------------------------------------------------------ binary operators *)
Definition in_union2 (r a b : dual2R) : Prop := forall v, In v (vs2 r) <-> In v (vs2 a) \/ In v (vs2 b).

Ltac use_align2 p a b WA WB HP x y AL :=
  pose proof (align2_spec p a b WA WB HP) as AL; destruct (align2 p a b) as [x y].

Ltac al2_setup AL x y :=
  destruct AL as [Avs [NX [LX SX]] [NY [LY SY]] Arx Ary Acx Acy Accx Accy Ain];
  assert (Ldu : length (du2 x) = length (du2 y)) by (rewrite LX, LY, Avs; reflexivity);
  assert (SY' : square (length (vs2 x)) (dd2 y)) by (rewrite Avs; exact SY);
  assert (Cy1 : forall v, lk (vs2 x) (du2 y) v = lk (vs2 y) (du2 y) v) by (intros; rewrite Avs; reflexivity);
  assert (Cy2 : forall u v, lk2 (vs2 x) (dd2 y) u v = lk2 (vs2 y) (dd2 y) u v) by (intros; rewrite Avs; reflexivity).

Lemma d2add_spec p a b : wf2 a -> wf2 b -> (p = true -> vs2 a = vs2 b) ->
  wf2 (d2add p a b) /\ re2 (d2add p a b) = re2 a + re2 b /\
  (forall v, coef1 (d2add p a b) v = coef1 a v + coef1 b v) /\
  (forall u v, coef2 (d2add p a b) u v = coef2 a u v + coef2 b u v) /\ in_union2 (d2add p a b) a b.
Proof.
  intros WA WB HP. unfold d2add. use_align2 p a b WA WB HP x y AL. al2_setup AL x y.
  cbn [re2 vs2 du2 dd2]. split; [|split; [|split; [|split]]].
  - split; [exact NX|]. split; [cbn; rewrite length_vzip; auto|]. cbn. apply square_mzip; auto.
  - cbn [nadd NumR]. congruence.
  - intros v. unfold coef1. cbn [vs2 du2]. rewrite lk_vzip; auto; [|cbn; lra].
    rewrite Cy1. fold (coef1 x v) (coef1 y v). rewrite Acx, Acy. reflexivity.
  - intros u v. unfold coef2. cbn [vs2 dd2]. rewrite (lk2_mzip _ (length (vs2 x))); auto; [|cbn; lra].
    rewrite Cy2. fold (coef2 x u v) (coef2 y u v). rewrite Accx, Accy. reflexivity.
  - exact Ain.
Qed.
Lemma d2sub_spec p a b : wf2 a -> wf2 b -> (p = true -> vs2 a = vs2 b) ->
  wf2 (d2sub p a b) /\ re2 (d2sub p a b) = re2 a - re2 b /\
  (forall v, coef1 (d2sub p a b) v = coef1 a v - coef1 b v) /\
  (forall u v, coef2 (d2sub p a b) u v = coef2 a u v - coef2 b u v) /\ in_union2 (d2sub p a b) a b.
Proof.
  intros WA WB HP. unfold d2sub. use_align2 p a b WA WB HP x y AL. al2_setup AL x y.
  cbn [re2 vs2 du2 dd2]. split; [|split; [|split; [|split]]].
  - split; [exact NX|]. split; [cbn; rewrite length_vzip; auto|]. cbn. apply square_mzip; auto.
  - cbn [nsub NumR]. congruence.
  - intros v. unfold coef1. cbn [vs2 du2]. rewrite lk_vzip; auto; [|cbn; lra].
    rewrite Cy1. fold (coef1 x v) (coef1 y v). rewrite Acx, Acy. reflexivity.
  - intros u v. unfold coef2. cbn [vs2 dd2]. rewrite (lk2_mzip _ (length (vs2 x))); auto; [|cbn; lra].
    rewrite Cy2. fold (coef2 x u v) (coef2 y u v). rewrite Accx, Accy. reflexivity.
  - exact Ain.
Qed.

Lemma square_sym_cross a b : length a = length b -> square (length a) (sym_cross a b).
Proof.
  intros L. unfold sym_cross. apply square_mmap. apply square_mzip.
  - apply square_outer; auto.
  - rewrite <- L. apply square_transpose. apply square_outer; auto.
Qed.
Lemma lk2_sym_cross vars a b u v : length a = length b ->
  lk2 vars (sym_cross a b) u v = / 2 * (lk vars a u * lk vars b v + lk vars a v * lk vars b u).
Proof.
  intros L. unfold sym_cross. rewrite lk2_mmap by (unfold nhalf; cbn; lra).
  rewrite (lk2_mzip _ (length a)); [| apply square_outer; auto
    | rewrite <- L; apply square_transpose; apply square_outer; auto | cbn; lra].
  rewrite <- L. rewrite (lk2_transpose (length a)) by (apply square_outer; auto).
  rewrite !lk2_outer. unfold nhalf. cbn. field.
Qed.

Lemma d2mul_spec p a b : wf2 a -> wf2 b -> (p = true -> vs2 a = vs2 b) ->
  wf2 (d2mul p a b) /\ re2 (d2mul p a b) = re2 a * re2 b /\
  (forall v, coef1 (d2mul p a b) v = coef1 a v * re2 b + coef1 b v * re2 a) /\
  (forall u v, coef2 (d2mul p a b) u v =
     coef2 a u v * re2 b + coef2 b u v * re2 a + / 2 * (coef1 a u * coef1 b v + coef1 a v * coef1 b u)) /\
  in_union2 (d2mul p a b) a b.
Proof.
  intros WA WB HP. unfold d2mul. use_align2 p a b WA WB HP x y AL. al2_setup AL x y.
  assert (Lx : length (du2 x) = length (vs2 x)) by exact LX.
  cbn [re2 vs2 du2 dd2]. split; [|split; [|split; [|split]]].
  - split; [exact NX|]. split.
    + cbn. unfold vscale_r. rewrite length_vzip; rewrite ?map_length; auto.
    + cbn. apply square_mzip.
      * apply square_mzip; apply square_mmap; auto.
      * rewrite <- Lx. apply square_sym_cross; auto.
  - cbn [nmul NumR]. congruence.
  - intros v. unfold coef1. cbn [vs2 du2]. unfold vscale_r.
    rewrite lk_vzip; [|rewrite !map_length; auto|cbn; lra].
    rewrite !lk_map by (cbn; ring). rewrite Cy1. fold (coef1 x v) (coef1 y v).
    rewrite Acx, Acy, Arx, Ary. reflexivity.
  - intros u v. unfold coef2. cbn [vs2 dd2].
    rewrite (lk2_mzip _ (length (vs2 x))); [| apply square_mzip; apply square_mmap; auto
      | rewrite <- Lx; apply square_sym_cross; auto | cbn; lra].
    rewrite (lk2_mzip _ (length (vs2 x))); [| apply square_mmap; auto | apply square_mmap; auto | cbn; lra].
    rewrite !lk2_mmap by (cbn; ring). rewrite lk2_sym_cross by auto.
    rewrite Cy2, !Cy1. fold (coef2 x u v) (coef2 y u v) (coef1 x u) (coef1 x v) (coef1 y u) (coef1 y v).
    rewrite Accx, Accy, !Acx, !Acy, Arx, Ary. unfold coef2. cbn [nadd nmul NumR]. ring.
  - exact Ain.
Qed.

(* ------------------------------------------------------------------ unary operators *)
Lemma wf2_sq a : wf2 a -> square (length (vs2 a)) (dd2 a).
Proof. intros (_ & _ & S); exact S. Qed.
Lemma wf2_outer a : wf2 a -> square (length (vs2 a)) (outer (du2 a) (du2 a)).
Proof. intros (_ & L & _). rewrite <- L. apply square_outer. reflexivity. Qed.
Lemma wf2_mk r a f M : wf2 a -> square (length (vs2 a)) M -> wf2 (mkDual2 r (vs2 a) (map f (du2 a)) M).
Proof. intros (N & L & S) SM. split; [exact N|]. split; [cbn; rewrite map_length; exact L|exact SM]. Qed.
Lemma coef1_mk r a f M v : f 0 = 0 -> coef1 (mkDual2 r (vs2 a) (map f (du2 a)) M) v = f (coef1 a v).
Proof. intros F. unfold coef1. cbn [vs2 du2]. apply lk_map. exact F. Qed.

Ltac sq2 :=
  repeat first [ apply square_mzip | apply square_mmap | apply wf2_sq; assumption | apply wf2_outer; assumption ].
Ltac numr := unfold nhalf, n2, nm1; cbn [nadd nsub nmul ndiv nneg nofZ n0 n1 npow nexp nln NumR]; try lra; try ring; try (field; fail).

Lemma d2pow_unguard (a : dual2R) pw :
  d2pow a pw =
  let coeff := nmul pw (npow (re2 a) (nsub pw n1)) in
  let coeff2 := nmul (nmul (nmul nhalf pw) (nsub pw n1)) (npow (re2 a) (nsub pw n2)) in
  let cross := outer (du2 a) (du2 a) in
  mkDual2 (npow (re2 a) pw) (vs2 a) (vscale_r (du2 a) coeff)
    (mzip nadd (mmap (fun e => nmul e coeff) (dd2 a)) (mmap (fun e => nmul e coeff2) cross)).
Proof.
  unfold d2pow. cbn zeta.
  set (c1g := if neqb pw n0 then n0 else nmul pw (npow (re2 a) (nsub pw n1))).
  set (c2g := if neqb pw n0 || neqb pw n1 then n0
              else nmul (nmul (nmul nhalf pw) (nsub pw n1)) (npow (re2 a) (nsub pw n2))).
  assert (E1 : c1g = nmul pw (npow (re2 a) (nsub pw n1))).
  { unfold c1g. cbn [neqb n0 NumR]. unfold Reqb. destruct (Req_EM_T pw 0) as [E|E]; [subst; cbn; ring|reflexivity]. }
  assert (E2 : c2g = nmul (nmul (nmul nhalf pw) (nsub pw n1)) (npow (re2 a) (nsub pw n2))).
  { unfold c2g. cbn [neqb n0 n1 NumR]. unfold Reqb.
    destruct (Req_EM_T pw 0) as [E|E]; [subst; cbn; ring|].
    destruct (Req_EM_T pw 1) as [F|F]; [subst; cbn; ring|reflexivity]. }
  rewrite E1, E2. reflexivity.
Qed.
Lemma d2pow_spec a pw : wf2 a ->
  let c1 := pw * Rpowf (re2 a) (pw - 1) in
  let c2 := / 2 * pw * (pw - 1) * Rpowf (re2 a) (pw - 2) in
  wf2 (d2pow a pw) /\ re2 (d2pow a pw) = Rpowf (re2 a) pw /\
  (forall v, coef1 (d2pow a pw) v = coef1 a v * c1) /\
  (forall u v, coef2 (d2pow a pw) u v = coef2 a u v * c1 + coef1 a u * coef1 a v * c2).
Proof.
  intros W c1 c2. rewrite d2pow_unguard. cbn zeta. unfold vscale_r. split; [|split; [|split]].
  - apply wf2_mk; auto. sq2.
  - reflexivity.
  - intros v. rewrite coef1_mk by numr. reflexivity.
  - intros u v. unfold coef2. cbn [vs2 dd2].
    rewrite (lk2_mzip _ (length (vs2 a))); [| sq2 | sq2 | numr].
    rewrite !lk2_mmap by numr. rewrite lk2_outer. unfold c1, c2. unfold coef1. numr.
Qed.
Lemma d2exp_spec a : wf2 a ->
  let c := exp (re2 a) in
  wf2 (d2exp a) /\ re2 (d2exp a) = c /\
  (forall v, coef1 (d2exp a) v = c * coef1 a v) /\
  (forall u v, coef2 (d2exp a) u v = c * (coef2 a u v + / 2 * (coef1 a u * coef1 a v))).
Proof.
  intros W c. unfold d2exp, vscale_l. split; [|split; [|split]].
  - apply wf2_mk; auto. sq2.
  - reflexivity.
  - intros v. rewrite coef1_mk by numr. reflexivity.
  - intros u v. unfold coef2. cbn [vs2 dd2].
    rewrite lk2_mmap by numr.
    rewrite (lk2_mzip _ (length (vs2 a))); [| sq2 | sq2 | numr].
    rewrite !lk2_mmap by numr. rewrite lk2_outer. unfold c, coef1. numr.
Qed.
Lemma d2log_spec a : wf2 a ->
  let s := 1 / re2 a in
  wf2 (d2log a) /\ re2 (d2log a) = ln (re2 a) /\
  (forall v, coef1 (d2log a) v = s * coef1 a v) /\
  (forall u v, coef2 (d2log a) u v = s * coef2 a u v - coef1 a u * coef1 a v * / 2 * (s * s)).
Proof.
  intros W s. unfold d2log, vscale_l. split; [|split; [|split]].
  - apply wf2_mk; auto. sq2.
  - reflexivity.
  - intros v. rewrite coef1_mk by numr. reflexivity.
  - intros u v. unfold coef2. cbn [vs2 dd2].
    rewrite (lk2_mzip _ (length (vs2 a))); [| sq2 | sq2 | numr].
    rewrite !lk2_mmap by numr. rewrite lk2_outer. unfold s, coef1. numr.
Qed.
Lemma d2cdf_like_spec a r' s s2 : wf2 a ->
  let d := mkDual2 r' (vs2 a) (vscale_l s (du2 a))
    (mzip nadd (mmap (fun e => nmul s e) (dd2 a))
               (mmap (fun e => nmul (nmul nhalf s2) e) (outer (du2 a) (du2 a)))) in
  wf2 d /\ re2 d = r' /\
  (forall v, coef1 d v = s * coef1 a v) /\
  (forall u v, coef2 d u v = s * coef2 a u v + / 2 * s2 * (coef1 a u * coef1 a v)).
Proof.
  intros W d. unfold d, vscale_l. split; [|split; [|split]].
  - apply wf2_mk; auto. sq2.
  - reflexivity.
  - intros v. rewrite coef1_mk by numr. reflexivity.
  - intros u v. unfold coef2. cbn [vs2 dd2].
    rewrite (lk2_mzip _ (length (vs2 a))); [| sq2 | sq2 | numr].
    rewrite !lk2_mmap by numr. rewrite lk2_outer. unfold coef1. numr.
Qed.
Lemma d2scale_spec a r' (c : R) (fd fm : R -> R) : wf2 a -> (forall x, fd x = c * x) -> (forall x, fm x = c * x) ->
  let d := mkDual2 r' (vs2 a) (map fd (du2 a)) (mmap fm (dd2 a)) in
  wf2 d /\ re2 d = r' /\ (forall v, coef1 d v = c * coef1 a v) /\ (forall u v, coef2 d u v = c * coef2 a u v).
Proof.
  intros W Fd Fm d. unfold d. split; [|split; [|split]].
  - apply wf2_mk; auto. sq2.
  - reflexivity.
  - intros v. rewrite coef1_mk by (rewrite Fd; ring). apply Fd.
  - intros u v. unfold coef2. cbn [vs2 dd2]. rewrite lk2_mmap by (rewrite Fm; ring). apply Fm.
Qed.
