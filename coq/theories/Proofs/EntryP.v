(* Proofs for C20: totality of the date arithmetic under a density hypothesis on the calendar (and
   the density of every Cal with a working weekday), the fallible constructors never abort and
   return well-shaped values. Axiom-free. *)
From Coq Require Import ZArith Lia List Bool Arith FinFun.
From RL Require Import Base.Num Base.Str Base.Outcome Model.Dates Model.Calendar Model.Named
  Model.Dual Model.Number Model.FX Model.Json Model.Entry
  Proofs.DatesP Proofs.CalendarP Proofs.NamedP.
Import ListNotations.
Open Scope Z_scope.

(* ------------------------------------------------------------------ first / last witness in a window *)
Lemma first_true (P : Z -> bool) N : forall d,
  (exists r, d <= r <= d + Z.of_nat N /\ P r = true) ->
  exists r, d <= r <= d + Z.of_nat N /\ P r = true /\ forall x, d <= x < r -> P x = false.
Proof.
  induction N as [|N IH]; intros d [r [Hr Hp]].
  - exists d. assert (r = d) as -> by lia. repeat split; auto; lia.
  - destruct (P d) eqn:E.
    + exists d. repeat split; auto; lia.
    + destruct (IH (d + 1)) as [r' [Hr' [Hp' Hn']]].
      { exists r. split; auto. destruct (Z.eq_dec r d) as [->|]; [congruence | lia]. }
      exists r'. repeat split; auto; try lia.
      intros x Hx. destruct (Z.eq_dec x d) as [->|]; auto. apply Hn'. lia.
Qed.
Lemma last_true (P : Z -> bool) N : forall d,
  (exists r, d - Z.of_nat N <= r <= d /\ P r = true) ->
  exists r, d - Z.of_nat N <= r <= d /\ P r = true /\ forall x, r < x <= d -> P x = false.
Proof.
  induction N as [|N IH]; intros d [r [Hr Hp]].
  - exists d. assert (r = d) as -> by lia. repeat split; auto; lia.
  - destruct (P d) eqn:E.
    + exists d. repeat split; auto; lia.
    + destruct (IH (d - 1)) as [r' [Hr' [Hp' Hn']]].
      { exists r. split; auto. destruct (Z.eq_dec r d) as [->|]; [congruence | lia]. }
      exists r'. repeat split; auto; try lia.
      intros x Hx. destruct (Z.eq_dec x d) as [->|]; auto. apply Hn'. lia.
Qed.

(* ------------------------------------------------------------------ totality of the date functions *)
(* every window of FUEL+1 consecutive days, in both directions, holds a business day that is also
   a settlement day *)
Definition dense (bus settle : Z -> bool) (FUEL : nat) : Prop :=
  forall d, (exists r, d <= r <= d + Z.of_nat FUEL /\ elig bus settle true r = true) /\
            (exists r, d - Z.of_nat FUEL <= r <= d /\ elig bus settle true r = true).

Definition roll_day_ok (r : rollday) : Prop := match r with RInt x => 1 <= x | _ => True end.

Section Total.
  Variable bus settle : Z -> bool.
  Variable FUEL : nat.
  Hypothesis D : dense bus settle FUEL.

  Lemma elig_weaken s r : elig bus settle true r = true -> elig bus settle s r = true.
  Proof.
    unfold elig. intros E. apply andb_true_iff in E. destruct E as [B S]. rewrite B.
    destruct s; simpl in *; auto.
  Qed.
  Lemma roll_F_ok s d : exists r, roll bus settle FUEL d F s = Ok r.
  Proof.
    destruct (D d) as [[r [Hr Hp]] _].
    destruct (first_true (elig bus settle s) FUEL d) as [r' [Hr' [Hp' Hn']]].
    { exists r. split; auto. apply elig_weaken; auto. }
    exists r'. apply roll_following_complete; auto; lia.
  Qed.
  Lemma roll_P_ok s d : exists r, roll bus settle FUEL d P s = Ok r.
  Proof.
    destruct (D d) as [_ [r [Hr Hp]]].
    destruct (last_true (elig bus settle s) FUEL d) as [r' [Hr' [Hp' Hn']]].
    { exists r. split; auto. apply elig_weaken; auto. }
    exists r'. apply roll_previous_complete; auto; lia.
  Qed.
  Theorem roll_total m s d : exists r, roll bus settle FUEL d m s = Ok r.
  Proof.
    destruct m.
    - exists d. apply roll_actual.
    - apply roll_F_ok.
    - rewrite roll_modified_following. destruct (roll_F_ok s d) as [r ->]. cbn [obind].
      destruct (negb (month_of r =? month_of d)); [apply roll_P_ok | eauto].
    - apply roll_P_ok.
    - rewrite roll_modified_previous. destruct (roll_P_ok s d) as [r ->]. cbn [obind].
      destruct (negb (month_of r =? month_of d)); [apply roll_F_ok | eauto].
  Qed.

  Lemma bus_of_elig r : elig bus settle true r = true -> bus r = true.
  Proof. unfold elig. intros E. apply andb_true_iff in E. tauto. Qed.
  Lemma roll_fwd_ok d : exists r, roll_fwd bus FUEL d = Ok r.
  Proof.
    destruct (D d) as [[r [Hr Hp]] _]. apply (fwd_f_exists bus FUEL d r); auto. apply bus_of_elig; auto.
  Qed.
  Lemma roll_bwd_ok d : exists r, roll_bwd bus FUEL d = Ok r.
  Proof.
    destruct (D d) as [_ [r [Hr Hp]]]. apply (bwd_f_exists bus FUEL d r); auto. apply bus_of_elig; auto.
  Qed.
  Lemma step_fwd_ok n : forall d, exists r, step_fwd bus FUEL n d = Ok r.
  Proof.
    induction n as [|n IH]; intros d; cbn [step_fwd]; [eauto|].
    destruct (roll_fwd_ok (d + 1)) as [r ->]. cbn [obind]. apply IH.
  Qed.
  Lemma step_bwd_ok n : forall d, exists r, step_bwd bus FUEL n d = Ok r.
  Proof.
    induction n as [|n IH]; intros d; cbn [step_bwd]; [eauto|].
    destruct (roll_bwd_ok (d - 1)) as [r ->]. cbn [obind]. apply IH.
  Qed.
  Lemma roll_fwd_settled_ok d : exists r, roll_fwd_settled bus settle FUEL d = Ok r.
  Proof. exact (roll_F_ok true d). Qed.
  Lemma roll_bwd_settled_ok d : exists r, roll_bwd_settled bus settle FUEL d = Ok r.
  Proof. exact (roll_P_ok true d). Qed.

  (* add_bus_days: an error exactly for a non-business start, otherwise a value *)
  Theorem add_bus_days_total d n s :
    (bus d = false /\ add_bus_days bus settle FUEL d n s = Err) \/
    (bus d = true /\ exists r, add_bus_days bus settle FUEL d n s = Ok r).
  Proof.
    destruct (bus d) eqn:B; [right | left]; split; auto.
    - unfold add_bus_days. rewrite B. cbn [negb].
      destruct (n <? 0).
      + destruct (step_bwd_ok (Z.to_nat (- n)) d) as [r ->]. cbn [obind].
        destruct s; cbn [negb]; [apply roll_bwd_settled_ok | eauto].
      + destruct (step_fwd_ok (Z.to_nat n) d) as [r ->]. cbn [obind].
        destruct s; cbn [negb]; [apply roll_fwd_settled_ok | eauto].
    - apply add_bus_days_rejects; auto.
  Qed.
  Theorem lag_total d n s : exists r, lag bus settle FUEL d n s = Ok r.
  Proof.
    rewrite lag_spec. destruct (bus d) eqn:B.
    - destruct (add_bus_days_total d n s) as [[C _]|[_ R]]; [congruence | auto].
    - destruct (n =? 0); [apply roll_fwd_ok|].
      destruct (n <? 0).
      + destruct (roll_bwd_ok d) as [r E]. rewrite E. cbn [obind].
        pose proof (bwd_f_sound bus _ _ _ E) as [Br _].
        destruct (add_bus_days_total r (n + 1) s) as [[C _]|[_ R]]; [congruence | auto].
      + destruct (roll_fwd_ok d) as [r E]. rewrite E. cbn [obind].
        pose proof (fwd_f_sound bus _ _ _ E) as [Br _].
        destruct (add_bus_days_total r (n - 1) s) as [[C _]|[_ R]]; [congruence | auto].
  Qed.
  Theorem add_days_total d n m s : exists r, add_days bus settle FUEL d n m s = Ok r.
  Proof. unfold add_days. apply roll_total. Qed.

  (* month addition: any offset whose target year is representable, roll days >= 1 *)
  Lemma add_months_unadj_total d k r : roll_day_ok r -> i32_min < k ->
    in_i32 (year_of d + fst (month_carry (month_of d) k)) = true ->
    exists x, add_months_unadj d k r = Ok x.
  Proof.
    intros Hr Hk Hy. destruct (civil_valid d) as [[Hm Hd] _].
    destruct (month_carry (month_of d) k) as [dy m'] eqn:E. cbn [fst] in Hy.
    pose proof (month_carry_spec (month_of d) k Hm) as C. rewrite E in C.
    destruct r.
    - pose proof (add_months_unadj_spec d k Unspecified) as S. rewrite E in S. cbv beta iota in S.
      eexists. apply S; auto; try discriminate; try (cbn [target_day]; lia).
    - pose proof (add_months_unadj_spec d k (RInt day)) as S. rewrite E in S. cbv beta iota in S.
      eexists. apply S; auto; try discriminate.
    - pose proof (add_months_unadj_spec d k EoM) as S. rewrite E in S. cbv beta iota in S.
      eexists. apply S; auto; try discriminate; try (cbn [target_day]; lia).
    - pose proof (add_months_unadj_spec d k SoM) as S. rewrite E in S. cbv beta iota in S.
      eexists. apply S; auto; try discriminate; try (cbn [target_day]; lia).
    - pose proof (add_months_unadj_imm d k Hk) as S. rewrite E in S. cbv beta iota in S.
      rewrite S by auto.
      destruct (get_imm_spec (year_of d + dy) m') as [x [-> _]]; [tauto | eauto].
  Qed.
  Theorem add_months_total d k m r s : roll_day_ok r -> i32_min < k ->
    in_i32 (year_of d + fst (month_carry (month_of d) k)) = true ->
    exists x, add_months bus settle FUEL d k m r s = Ok x.
  Proof.
    intros Hr Hk Hy. unfold add_months.
    destruct (add_months_unadj_total d k r Hr Hk Hy) as [x ->]. cbn [obind]. apply roll_total.
  Qed.
End Total.

(* ------------------------------------------------------------------ every Cal with a working weekday is dense *)
Lemma weekday_hit d w : 0 <= w <= 6 -> exists d0, d <= d0 <= d + 6 /\ weekday d0 = w.
Proof.
  intros Hw. exists (d + (w - weekday d) mod 7). pose proof (weekday_range d).
  split; [lia|]. rewrite weekday_add. lia.
Qed.
Lemma weekday_hit_back d w : 0 <= w <= 6 -> exists d0, d - 6 <= d0 <= d /\ weekday d0 = w.
Proof.
  intros Hw. exists (d - (weekday d - w) mod 7). pose proof (weekday_range d).
  split; [lia|]. replace (d - (weekday d - w) mod 7) with (d + - ((weekday d - w) mod 7)) by lia.
  rewrite weekday_add. lia.
Qed.
Lemma zmem_in x l : zmem x l = true <-> In x l.
Proof.
  unfold zmem. rewrite existsb_exists. split.
  - intros [y [Hy E]]. apply Z.eqb_eq in E. subst. auto.
  - intros Hx. exists x. split; auto. apply Z.eqb_refl.
Qed.
Lemma zmem_false x l : zmem x l = false <-> ~ In x l.
Proof.
  split; intros E.
  - intros C. apply zmem_in in C. congruence.
  - destruct (zmem x l) eqn:F; auto. apply zmem_in in F. contradiction.
Qed.
(* pigeonhole: h+1 distinct days cannot all be among h holidays *)
Lemma not_all_holidays (hols : list Z) (f : nat -> Z) :
  (forall i j, f i = f j -> i = j) ->
  exists i, (i <= length hols)%nat /\ ~ In (f i) hols.
Proof.
  intros Inj.
  set (l := map f (seq 0 (S (length hols)))).
  assert (ND : NoDup l).
  { unfold l. apply Injective_map_NoDup; [exact Inj | apply seq_NoDup]. }
  destruct (Forall_Exists_dec (fun x => In x hols) (fun x => in_dec Z.eq_dec x hols) l) as [Fa|Ex].
  - assert (incl l hols) by (intros x Hx; rewrite Forall_forall in Fa; auto).
    pose proof (NoDup_incl_length ND H) as L. unfold l in L. rewrite map_length, seq_length in L. lia.
  - apply Exists_exists in Ex. destruct Ex as [x [Hx Hn]].
    unfold l in Hx. apply in_map_iff in Hx. destruct Hx as [i [<- Hi]]. apply in_seq in Hi.
    exists i. split; [lia | auto].
Qed.

Definition has_working_weekday (c : cal) : Prop := exists w, 0 <= w <= 6 /\ ~ In w (c_mask c).

Theorem cal_dense c : has_working_weekday c -> dense (cal_is_bus c) (cal_is_settle c) (cal_fuel c).
Proof.
  intros [w [Hw Hm]] d. unfold cal_fuel, elig, cal_is_settle.
  set (h := length (c_hols c)). split.
  - destruct (weekday_hit d w Hw) as [d0 [Hd0 W0]].
    destruct (not_all_holidays (c_hols c) (fun i => d0 + 7 * Z.of_nat i)) as [i [Hi Hn]].
    { intros i j E. lia. }
    exists (d0 + 7 * Z.of_nat i). fold h in Hi. split; [lia|].
    unfold cal_is_bus, cal_is_weekday, cal_is_holiday.
    replace (weekday (d0 + 7 * Z.of_nat i)) with w by (rewrite weekday_add; lia).
    apply zmem_false in Hm, Hn. rewrite Hm, Hn. reflexivity.
  - destruct (weekday_hit_back d w Hw) as [d0 [Hd0 W0]].
    destruct (not_all_holidays (c_hols c) (fun i => d0 - 7 * Z.of_nat i)) as [i [Hi Hn]].
    { intros i j E. lia. }
    exists (d0 - 7 * Z.of_nat i). fold h in Hi. split; [lia|].
    unfold cal_is_bus, cal_is_weekday, cal_is_holiday.
    replace (weekday (d0 - 7 * Z.of_nat i)) with w
      by (replace (d0 - 7 * Z.of_nat i) with (d0 + - (7 * Z.of_nat i)) by lia; rewrite weekday_add; lia).
    apply zmem_false in Hm, Hn. rewrite Hm, Hn. reflexivity.
Qed.

(* Cal::new aborts exactly for a week-mask value outside 0..6 *)
Lemma cal_new_spec hols mask :
  (Forall (fun v => 0 <= v <= 6) mask /\ cal_new hols mask = Ok (mkCal mask hols)) \/
  (~ Forall (fun v => 0 <= v <= 6) mask /\ cal_new hols mask = Panic).
Proof.
  unfold cal_new. destruct (forallb (fun v => (0 <=? v) && (v <=? 6)) mask) eqn:E.
  - left. split; auto. apply Forall_forall. intros x Hx.
    rewrite forallb_forall in E. specialize (E x Hx). lia.
  - right. split; auto. intros F. rewrite Forall_forall in F.
    assert (forallb (fun v => (0 <=? v) && (v <=? 6)) mask = true).
    { apply forallb_forall. intros x Hx. specialize (F x Hx). lia. }
    congruence.
Qed.

(* the whole date API of one calendar *)
Theorem cal_dates_total c : has_working_weekday c ->
  forall d n m s k r,
    (exists x, cal_add_days c d n m s = Ok x) /\
    cal_add_bus_days c d n s <> Panic /\
    (exists x, cal_lag c d n s = Ok x) /\
    (exists x, cal_roll c d m s = Ok x) /\
    (roll_day_ok r -> i32_min < k -> in_i32 (year_of d + fst (month_carry (month_of d) k)) = true ->
     exists x, cal_add_months c d k m r s = Ok x).
Proof.
  intros Hc d n m s k r. pose proof (cal_dense c Hc) as D.
  split; [apply add_days_total; auto|].
  split.
  { unfold cal_add_bus_days.
    destruct (add_bus_days_total _ _ _ D d n s) as [[_ ->]|[_ [x ->]]]; discriminate. }
  split; [apply lag_total; auto|].
  split; [apply roll_total; auto|].
  intros. apply add_months_total; auto.
Qed.

(* ------------------------------------------------------------------ constructors *)
Section Ctors.
Context {T : Type} `{Num T}.

Lemma nodupb_spec l : nodupb l = true <-> NoDup l.
Proof.
  induction l as [|x l IH]; cbn [nodupb].
  - split; auto. constructor.
  - rewrite andb_true_iff, negb_true_iff, IH. split.
    + intros [M N]. constructor; auto. intros C.
      assert (mem x l = true).
      { unfold mem. destruct (index_of x l) eqn:E; auto.
        exfalso. revert E C. clear. induction l as [|y l IH]; cbn [index_of]; [intros _ []|].
        destruct (name_eqb x y) eqn:F; [discriminate|].
        intros E [->|C]; [rewrite name_eqb_refl in F; discriminate|].
        destruct (index_of x l); [discriminate | auto]. }
      congruence.
    + intros N. inversion N; subst. split; auto.
      unfold mem. destruct (index_of x l) eqn:E; auto. exfalso. apply H2.
      revert n E. clear. induction l as [|y l IH]; cbn [index_of]; [discriminate|].
      destruct (name_eqb x y) eqn:F.
      * apply name_eqb_eq in F. subst. left; auto.
      * intros n E. destruct (index_of x l) eqn:G; [|discriminate]. right. eapply IH; eauto.
Qed.

Lemma mem_in' v l : mem v l = true <-> In v l.
Proof.
  unfold mem. induction l as [|y l IH]; cbn [index_of].
  - split; [discriminate | intros []].
  - destruct (name_eqb v y) eqn:F.
    + apply name_eqb_eq in F. subst. split; auto. left; auto.
    + apply name_eqb_neq in F. destruct (index_of v l); cbn [option_map].
      * split; auto. intros _. right. apply IH. auto.
      * split; [discriminate|]. intros [E|E]; [congruence|]. apply IH in E. discriminate.
Qed.
Lemma dedup_aux_nodup seen l : NoDup (dedup_aux seen l) /\ forall v, In v (dedup_aux seen l) -> In v l /\ ~ In v seen.
Proof.
  revert seen. induction l as [|x l IH]; intros seen; cbn [dedup_aux].
  - split; [constructor | intros v []].
  - destruct (mem x seen) eqn:M.
    + destruct (IH seen) as [N I]. split; auto. intros v Hv. destruct (I v Hv). split; auto. right; auto.
    + destruct (IH (x :: seen)) as [N I]. split.
      * constructor; auto. intros C. destruct (I x C) as [_ C2]. apply C2. left; auto.
      * intros v [<-|Hv].
        -- split; [left; auto|]. intros C. apply mem_in' in C. congruence.
        -- destruct (I v Hv) as [A B]. split; [right; auto|]. intros C. apply B. right; auto.
Qed.
Lemma dedup_nodup l : NoDup (dedup l).
Proof. apply dedup_aux_nodup. Qed.

Definition wf_dual (d : dual T) : Prop := NoDup (vs d) /\ length (du d) = length (vs d).
Definition wf_dual2 (d : dual2 T) : Prop :=
  NoDup (vs2 d) /\ length (du2 d) = length (vs2 d) /\ length (dd2 d) = length (vs2 d) /\
  Forall (fun row => length row = length (vs2 d)) (dd2 d).

Lemma vones_length n : length (@vones T _ n) = n.
Proof. apply repeat_length. Qed.

Theorem dual_try_new_spec r vars d :
  dual_try_new r vars d <> Panic /\ forall v, dual_try_new r vars d = Ok v -> wf_dual v.
Proof.
  unfold dual_try_new. split.
  - destruct (Nat.eqb _ _); discriminate.
  - intros v. destruct (Nat.eqb (length (dedup vars)) _) eqn:E; [|discriminate].
    intros [= <-]. split; cbn [vs du]; [apply dedup_nodup|].
    apply Nat.eqb_eq in E. auto.
Qed.

Lemma chunk_length n rows (l : list T) : length (chunk n rows l) = rows.
Proof. revert l; induction rows; intros l; cbn [chunk]; cbn [length]; auto. Qed.
Lemma chunk_rows n rows : forall (l : list T), length l = (rows * n)%nat ->
  Forall (fun row => length row = n) (chunk n rows l).
Proof.
  induction rows as [|k IH]; intros l Hl; cbn [chunk]; constructor.
  - rewrite firstn_length. simpl in Hl. lia.
  - apply IH. rewrite skipn_length. simpl in Hl. lia.
Qed.
Lemma mzeros_shape n : length (@mzeros T _ n n) = n /\ Forall (fun row => length row = n) (@mzeros T _ n n).
Proof.
  unfold mzeros. split; [apply repeat_length|].
  apply Forall_forall. intros x Hx. apply repeat_spec in Hx. subst. apply repeat_length.
Qed.

Theorem dual2_try_new_spec r vars d d2 :
  dual2_try_new r vars d d2 <> Panic /\ forall v, dual2_try_new r vars d d2 = Ok v -> wf_dual2 v.
Proof.
  unfold dual2_try_new. set (u := dedup vars). set (n := length u).
  set (d' := match d with [] => vones n | _ => d end).
  split.
  - destruct (negb (Nat.eqb n (length d'))); [discriminate|].
    destruct d2; [discriminate|]. destruct (negb _); discriminate.
  - intros v. destruct (Nat.eqb n (length d')) eqn:E; cbn [negb]; [|discriminate].
    apply Nat.eqb_eq in E.
    destruct d2 as [|x d2].
    + intros [= <-]. unfold wf_dual2; cbn [vs2 du2 dd2]. fold n.
      destruct (mzeros_shape n) as [A B]. repeat split; auto. apply dedup_nodup.
    + destruct (Nat.eqb (length (x :: d2)) (n * n)) eqn:E2; cbn [negb]; [|discriminate].
      apply Nat.eqb_eq in E2.
      intros [= <-]. unfold wf_dual2; cbn [vs2 du2 dd2]. fold n.
      repeat split; auto; [apply dedup_nodup | apply chunk_length | apply chunk_rows; auto].
Qed.

(* the constructors on another number's variable list: try_new, then a re-listing that cannot fail *)
Theorem dual_try_new_from_total other r vars d :
  dual_try_new_from other r vars d <> Panic /\
  (dual_try_new_from other r vars d = Err <-> dual_try_new r vars d = Err) /\
  forall v, dual_try_new_from other r vars d = Ok v -> vs v = other /\ length (du v) = length other.
Proof.
  unfold dual_try_new_from. destruct (dual_try_new_spec r vars d) as [NP W].
  destruct (dual_try_new r vars d) as [n| |] eqn:E; cbn [obind]; try congruence.
  - split; [discriminate|]. split; [split; discriminate|]. intros v [= <-].
    destruct (W n eq_refl) as [_ L]. unfold to_new_vars_auto.
    unfold vars_cmp.
    destruct (Nat.eqb (length (vs n)) (length other) && names_zip_all (vs n) other) eqn:Q.
    + apply andb_true_iff in Q. destruct Q as [Q _]. apply Nat.eqb_eq in Q. cbn. split; [reflexivity|congruence].
    + destruct (Nat.leb (length other) (length (vs n)) && forallb (fun v => mem v (vs n)) other);
        [|destruct (Nat.ltb (length (vs n)) (length other) && forallb (fun v => mem v other) (vs n))];
        cbn; (split; [reflexivity|apply map_length]).
  - split; [discriminate|]. split; [tauto|]. discriminate.
Qed.
Theorem dual2_try_new_from_total other r vars d d2 :
  dual2_try_new_from other r vars d d2 <> Panic /\
  (dual2_try_new_from other r vars d d2 = Err <-> dual2_try_new r vars d d2 = Err).
Proof.
  unfold dual2_try_new_from. destruct (dual2_try_new_spec r vars d d2) as [NP W].
  destruct (dual2_try_new r vars d d2) as [n| |]; cbn [obind]; try congruence.
  - split; [discriminate|]. split; discriminate.
  - split; [discriminate|]. tauto.
Qed.

(* currencies, pairs, quotes: the constructors of Model/FX.v cannot abort *)
Definition ccy_shape (c : name) : Prop := str_bytes c = 3 /\ ccy_lower c = c.
Lemma ascii_lower_idem c : ascii_lower (ascii_lower c) = ascii_lower c.
Proof. unfold ascii_lower. repeat match goal with |- context [if ?b then _ else _] => destruct b eqn:? end; lia. Qed.
Lemma ccy_lower_cp_idem c : flat_map ccy_lower_cp (ccy_lower_cp c) = ccy_lower_cp c.
Proof.
  unfold ccy_lower_cp.
  destruct (Z.leb_spec 65 c), (Z.leb_spec c 90); cbn [andb];
    repeat (match goal with |- context [Z.eqb ?a ?b] => destruct (Z.eqb_spec a b) end; try lia);
    cbn [flat_map app];
    repeat (match goal with |- context [Z.leb ?a ?b] => destruct (Z.leb_spec a b) end; try lia);
    cbn [andb app];
    repeat (match goal with |- context [Z.eqb ?a ?b] => destruct (Z.eqb_spec a b) end; try lia);
    cbn [app]; try reflexivity; try lia.
Qed.
Lemma ccy_lower_idem s : ccy_lower (ccy_lower s) = ccy_lower s.
Proof.
  unfold ccy_lower. induction s as [|c s IH]; [reflexivity|].
  cbn [flat_map]. rewrite flat_map_app, ccy_lower_cp_idem, IH. reflexivity.
Qed.
Theorem ccy_try_new_spec s : ccy_try_new s <> Panic /\ forall c, ccy_try_new s = Ok c -> ccy_shape c.
Proof.
  unfold ccy_try_new. split.
  - destruct (Z.eqb _ _); discriminate.
  - intros c. destruct (Z.eqb (str_bytes (ccy_lower s)) 3) eqn:E; [|discriminate].
    intros [= <-]. split; [apply Z.eqb_eq; auto|]. apply ccy_lower_idem.
Qed.
Definition pair_shape (p : fxpair) : Prop := ccy_shape (p0 p) /\ ccy_shape (p1 p) /\ p0 p <> p1 p.
Theorem fxpair_try_new_spec l r :
  fxpair_try_new l r <> Panic /\ forall p, fxpair_try_new l r = Ok p -> pair_shape p.
Proof.
  unfold fxpair_try_new.
  destruct (ccy_try_new_spec l) as [Pl Sl]. destruct (ccy_try_new_spec r) as [Pr Sr].
  destruct (ccy_try_new l) as [a| |]; cbn [obind].
  2: { split; [discriminate | intros; discriminate]. }
  2: { contradiction. }
  destruct (ccy_try_new r) as [b| |]; cbn [obind].
  2: { split; [discriminate | intros; discriminate]. }
  2: { contradiction. }
  destruct (name_eqb a b) eqn:E; split; try discriminate.
  intros p [= <-]. apply name_eqb_neq in E. unfold pair_shape. cbn [p0 p1]. auto.
Qed.
Theorem fxrate_try_new_spec l r (x : number T) s :
  fxrate_try_new l r x s <> Panic /\
  forall q, fxrate_try_new l r x s = Ok q -> pair_shape (pair q) /\ rate q = x /\ settlement q = s.
Proof.
  unfold fxrate_try_new. destruct (fxpair_try_new_spec l r) as [P S].
  destruct (fxpair_try_new l r) as [p| |]; cbn [obind]; split; try discriminate; try contradiction.
  intros q [= <-]. cbn. auto.
Qed.

End Ctors.

(* ------------------------------------------------------------------ csolve *)
From RL Require Import Model.Spline Model.Linalg.
Section CSolveP.
Context {T : Type} `{Num T} {X : Type} {OX : Ops X} (xmul : T -> X -> X).

(* the two validations return an error (never abort), whatever the spline *)
Lemma csolve_rejects (s : pp T X) tau y ln rn lsq :
  (length tau <> pp_n s /\ (lsq = false \/ (length tau <= pp_n s)%nat)) \/ length tau <> length y ->
  csolve xmul s tau y ln rn lsq = Err.
Proof.
  unfold csolve. intros [[A B]|A].
  - assert (E1 : Nat.eqb (length tau) (pp_n s) = false) by (apply Nat.eqb_neq; auto).
    rewrite E1. cbn [negb andb].
    assert (E2 : (lsq && Nat.ltb (pp_n s) (length tau))%bool = false).
    { destruct B as [->|B]; [reflexivity|]. destruct lsq; [|reflexivity]. cbn [andb]. apply Nat.ltb_ge. exact B. }
    rewrite E2. reflexivity.
  - destruct (negb (Nat.eqb (length tau) (pp_n s)) && negb (lsq && Nat.ltb (pp_n s) (length tau)))%bool; [reflexivity|].
    assert (E1 : Nat.eqb (length tau) (length y) = false) by (apply Nat.eqb_neq; auto).
    rewrite E1. reflexivity.
Qed.
(* a returned spline keeps order, knots and n, and carries coefficients *)
Lemma csolve_ok (s s' : pp T X) tau y ln rn lsq : csolve xmul s tau y ln rn lsq = Ok s' ->
  pp_k s' = pp_k s /\ pp_t s' = pp_t s /\ pp_n s' = pp_n s /\ exists c, pp_c s' = Some c.
Proof.
  unfold csolve.
  destruct (negb (Nat.eqb (length tau) (pp_n s)) && negb (lsq && Nat.ltb (pp_n s) (length tau)))%bool; [discriminate|].
  destruct (negb (Nat.eqb (length tau) (length y))); [discriminate|].
  destruct (bsplmatrix (pp_k s) (pp_t s) (pp_n s) tau ln rn) as [b| |]; cbn [obind]; try discriminate.
  destruct (pp_n s) eqn:N.
  - intros [= <-]. cbn. eauto.
  - destruct (fdsolve xmul b y lsq) as [c| |]; cbn [obind]; try discriminate.
    intros [= <-]. cbn. eauto.
Qed.
End CSolveP.

