(* A sum does not depend on the order of its terms: value and every derivative, by name (impl Sum = left fold of +). *)
From Coq Require Import Reals List Lra Permutation.
From RL Require Import Base.Num Base.NumR Base.Outcome Model.Dual Proofs.DualP Proofs.OrdP.
Import ListNotations.
Open Scope R_scope.

Lemma fold_plus_shift (l : list R) a : fold_left Rplus l a = a + fold_left Rplus l 0.
Proof.
  revert a. induction l as [|x l IH]; intros a; cbn [fold_left]; [lra|].
  rewrite IH, (IH (0 + x)). lra.
Qed.
Lemma fold_plus_perm (l l' : list R) : Permutation l l' -> fold_left Rplus l 0 = fold_left Rplus l' 0.
Proof.
  induction 1 as [|x l l' _ IH|x y l|l l' l'' _ IH1 _ IH2]; cbn [fold_left]; auto.
  - rewrite (fold_plus_shift l), (fold_plus_shift l'), IH. reflexivity.
  - rewrite (fold_plus_shift l (0 + y + x)), (fold_plus_shift l (0 + x + y)). lra.
  - congruence.
Qed.

(* a sum does not depend on the ORDER of its terms: value and every derivative by name *)
Lemma dsum_perm (l l' : list (dual R)) : Forall wf l -> Permutation l l' ->
  re (dsum l) = re (dsum l') /\ forall v, coef (dsum l) v = coef (dsum l') v.
Proof.
  intros W P.
  assert (W' : Forall wf l') by (eapply Permutation_Forall; eauto).
  destruct (dsum_spec l W) as (_ & R1 & C1). destruct (dsum_spec l' W') as (_ & R2 & C2).
  split.
  - rewrite R1, R2. apply fold_plus_perm. apply Permutation_map. exact P.
  - intros v. rewrite C1, C2. apply fold_plus_perm. apply Permutation_map. exact P.
Qed.
