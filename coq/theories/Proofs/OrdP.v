(* C19: ordering, sign, remainder, sums and identities are coherent with the value. *)
From Coq Require Import Reals ZArith List Bool Lra.
From RL Require Import Base.Num Base.Str Base.NumR Base.Outcome Model.Dual Model.Number
  Proofs.NumRP Proofs.DualP Proofs.Dual2P Proofs.LayoutP Proofs.AD1 Proofs.NumberP.
Import ListNotations.
Open Scope R_scope.

(* abs flips value and all derivatives together when the value is negative, and is the identity
   when it is positive *)
Lemma dabs_pos (a : dualR) : 0 < re a -> dabs a = a.
Proof.
  intros P. unfold dabs. cbn [nltb n0 NumR]. unfold Rltb. destruct (Rlt_dec 0 (re a)); [|contradiction].
  destruct a; reflexivity.
Qed.
Lemma dabs_neg (a : dualR) : re a < 0 -> dabs a ≈ dneg a.
Proof.
  intros P. unfold dabs. cbn [nltb n0 NumR]. unfold Rltb. destruct (Rlt_dec 0 (re a)); [lra|].
  split; [reflexivity|]. intros v. unfold dneg, vscale_l. rewrite !coef_map by (cbn; ring). cbn; ring.
Qed.
Lemma d2abs_pos (a : dual2R) : 0 < re2 a -> d2abs a = a.
Proof.
  intros P. unfold d2abs. cbn [nltb n0 NumR]. unfold Rltb. destruct (Rlt_dec 0 (re2 a)); [reflexivity|contradiction].
Qed.
Lemma d2abs_neg (a : dual2R) : wf2 a -> re2 a < 0 -> d2abs a ≈₂ d2neg a.
Proof.
  intros W P. unfold d2abs. cbn [nltb n0 NumR]. unfold Rltb. destruct (Rlt_dec 0 (re2 a)); [lra|].
  unfold vscale_l, d2neg.
  destruct (d2scale_spec a (nneg (re2 a)) (-1) (fun x => nmul nm1 x) (fun x => nmul nm1 x) W) as (_ & R1 & C1 & H1);
    try (intros; cbn; ring).
  destruct (d2scale_spec a (nneg (re2 a)) (-1) nneg nneg W) as (_ & R2 & C2 & H2); try (intros; cbn; ring).
  split; [rewrite R1, R2; reflexivity|]. split.
  - intros v. rewrite C1, C2. reflexivity.
  - intros u v. rewrite H1, H2. reflexivity.
Qed.

(* remainder with a float divisor / dividend = remainder with the float promoted to a constant *)
Lemma drem_f_spec (a : dualR) r : wf a ->
  re (drem_f a r) = re a - r * Rtrunc (re a / r) /\ (forall v, coef (drem_f a r) v = coef a v) /\
  drem_f a r ≈ drem false a (cst r).
Proof.
  intros W. destruct (drem_spec false a (cst r) W (wf_cst r) (pfalse _ _)) as (_ & R & C & _).
  split; [reflexivity|]. split; [reflexivity|]. split.
  - rewrite R. reflexivity.
  - intros v. rewrite C, coef_cst. unfold coef. cbn. ring.
Qed.
Lemma frem_d_is (r : R) (b : dualR) : frem_d r b = drem false (cst r) b.
Proof. reflexivity. Qed.

(* sums: value and every derivative add up, left to right from the variable-free zero *)
Definition wf_all (l : list dualR) : Prop := Forall wf l.
Lemma fold_dadd_spec l : forall acc, wf acc -> wf_all l ->
  wf (fold_left (dadd false) l acc) /\
  re (fold_left (dadd false) l acc) = fold_left Rplus (map (@re R) l) (re acc) /\
  forall v, coef (fold_left (dadd false) l acc) v = fold_left Rplus (map (fun d => coef d v) l) (coef acc v).
Proof.
  induction l as [|x l IH]; intros acc WA WL; cbn [fold_left map].
  - auto.
  - inversion WL; subst.
    destruct (dadd_spec false acc x WA H1 (pfalse _ _)) as (W & R & C & _).
    destruct (IH (dadd false acc x) W H2) as (W' & R' & C').
    split; [exact W'|]. split; [rewrite R', R; reflexivity|]. intros v. rewrite C', C. reflexivity.
Qed.
Lemma dsum_spec l : wf_all l ->
  wf (dsum l) /\ re (dsum l) = fold_left Rplus (map (@re R) l) 0 /\
  forall v, coef (dsum l) v = fold_left Rplus (map (fun d => coef d v) l) 0.
Proof. intros WL. apply (fold_dadd_spec l dzero (wf_dual_new _ _) WL). Qed.

(* zero and one are neutral; is_zero = "equals the variable-free zero" *)
Lemma dzero_neutral p (a : dualR) : wf a -> (p = true -> vs a = vs (@dzero R _)) -> dadd p a dzero ≈ a.
Proof.
  intros W HP. destruct (dadd_spec p a dzero W (wf_dual_new _ _) HP) as (_ & R & C & _).
  split; [rewrite R; cbn; ring|]. intros v. rewrite C. unfold dzero. rewrite coef_const. ring.
Qed.
Lemma done_neutral p (a : dualR) : wf a -> (p = true -> vs a = vs (@done R _)) -> dmul p a done ≈ a.
Proof.
  intros W HP. destruct (dmul_spec p a done W (wf_dual_new _ _) HP) as (_ & R & C & _).
  split; [rewrite R; cbn; ring|]. intros v. rewrite C. unfold done. rewrite coef_const. cbn. ring.
Qed.
Lemma dis_zero_spec (a : dualR) : wf a -> (dis_zero a = true <-> a ≈ dzero).
Proof. intros W. unfold dis_zero. apply deqb_spec; auto. apply wf_dual_new. discriminate. Qed.

(* abs_sub ("positive difference"): the variable-free zero when the value does not exceed the other's,
   otherwise the difference - which refines a - b by name (dsub_spec) *)
Lemma dabs_sub_le p (a b : dualR) : re a <= re b -> dabs_sub p a b = dzero.
Proof.
  intros L. unfold dabs_sub, dleb. cbn [nleb NumR]. unfold Rleb. destruct (Rle_dec (re a) (re b)); [reflexivity|contradiction].
Qed.
Lemma dabs_sub_gt p (a b : dualR) : re b < re a -> dabs_sub p a b = dsub p a b.
Proof.
  intros L. unfold dabs_sub, dleb. cbn [nleb NumR]. unfold Rleb. destruct (Rle_dec (re a) (re b)); [lra|reflexivity].
Qed.
Lemma d2abs_sub_le p (a b : dual2R) : re2 a <= re2 b -> d2abs_sub p a b = d2zero.
Proof.
  intros L. unfold d2abs_sub, d2leb. cbn [nleb NumR]. unfold Rleb. destruct (Rle_dec (re2 a) (re2 b)); [reflexivity|contradiction].
Qed.
Lemma d2abs_sub_gt p (a b : dual2R) : re2 b < re2 a -> d2abs_sub p a b = d2sub p a b.
Proof.
  intros L. unfold d2abs_sub, d2leb. cbn [nleb NumR]. unfold Rleb. destruct (Rle_dec (re2 a) (re2 b)); [lra|reflexivity].
Qed.
Lemma wf2_d2zero_ : wf2 (@d2zero R NumR).
Proof. split; [constructor|]. split; [reflexivity|]. apply (square_mzeros 0). Qed.
Lemma coef1_d2zero v : coef1 (@d2zero R NumR) v = 0.
Proof. apply coef1_notin. cbn. tauto. Qed.
Lemma coef2_d2zero u v : coef2 (@d2zero R NumR) u v = 0.
Proof. apply coef2_notin_l. cbn. tauto. Qed.

Lemma dabs_sub_spec p (a b : dualR) : wf a -> wf b -> (p = true -> vs a = vs b) ->
  wf (dabs_sub p a b) /\ re (dabs_sub p a b) = Rmax 0 (re a - re b) /\
  (re a <= re b -> dabs_sub p a b = dzero /\ forall v, coef (dabs_sub p a b) v = 0) /\
  (re b < re a -> dabs_sub p a b = dsub p a b /\ (forall v, coef (dabs_sub p a b) v = coef a v - coef b v) /\
                  in_union (dabs_sub p a b) a b).
Proof.
  intros WA WB HP. destruct (dsub_spec p a b WA WB HP) as (W & R & C & U).
  destruct (Rle_or_lt (re a) (re b)) as [L|L].
  - rewrite (dabs_sub_le p a b L). split; [apply wf_dual_new|]. split; [cbn; rewrite Rmax_left; lra|].
    split; [intros _; split; [reflexivity|intros v; apply coef_const]|intros G; lra].
  - rewrite (dabs_sub_gt p a b L). split; [exact W|]. split; [rewrite R, Rmax_right; lra|].
    split; [intros G; lra|intros _; auto].
Qed.
Lemma d2abs_sub_spec p (a b : dual2R) : wf2 a -> wf2 b -> (p = true -> vs2 a = vs2 b) ->
  wf2 (d2abs_sub p a b) /\ re2 (d2abs_sub p a b) = Rmax 0 (re2 a - re2 b) /\
  (re2 a <= re2 b -> d2abs_sub p a b = d2zero /\ (forall v, coef1 (d2abs_sub p a b) v = 0) /\
                     forall u v, coef2 (d2abs_sub p a b) u v = 0) /\
  (re2 b < re2 a -> d2abs_sub p a b = d2sub p a b /\
                    (forall v, coef1 (d2abs_sub p a b) v = coef1 a v - coef1 b v) /\
                    (forall u v, coef2 (d2abs_sub p a b) u v = coef2 a u v - coef2 b u v) /\
                    in_union2 (d2abs_sub p a b) a b).
Proof.
  intros WA WB HP. destruct (d2sub_spec p a b WA WB HP) as (W & R & C & H & U).
  destruct (Rle_or_lt (re2 a) (re2 b)) as [L|L].
  - rewrite (d2abs_sub_le p a b L). split; [apply wf2_d2zero_|]. split; [cbn; rewrite Rmax_left; lra|].
    split; [intros _; split; [reflexivity|split; [apply coef1_d2zero|apply coef2_d2zero]]|intros G; lra].
  - rewrite (d2abs_sub_gt p a b L). split; [exact W|]. split; [rewrite R, Rmax_right; lra|].
    split; [intros G; lra|intros _; auto].
Qed.

(* the value of a difference needs no well-formedness: alignment never touches the real part *)
Lemma re_dsub p (a b : dualR) : re (dsub p a b) = re a - re b.
Proof. unfold dsub, align. destruct (vars_cmp p (vs a) (vs b)); reflexivity. Qed.
Lemma re_d2sub p (a b : dual2R) : re2 (d2sub p a b) = re2 a - re2 b.
Proof. unfold d2sub, align2. destruct (vars_cmp p (vs2 a) (vs2 b)); reflexivity. Qed.
Lemma re_dabs_sub p (a b : dualR) : re (dabs_sub p a b) = Rmax 0 (re a - re b).
Proof.
  destruct (Rle_or_lt (re a) (re b)) as [L|L].
  - rewrite (dabs_sub_le p a b L). cbn. rewrite Rmax_left; lra.
  - rewrite (dabs_sub_gt p a b L), re_dsub, Rmax_right; lra.
Qed.
Lemma re_d2abs_sub p (a b : dual2R) : re2 (d2abs_sub p a b) = Rmax 0 (re2 a - re2 b).
Proof.
  destruct (Rle_or_lt (re2 a) (re2 b)) as [L|L].
  - rewrite (d2abs_sub_le p a b L). cbn. rewrite Rmax_left; lra.
  - rewrite (d2abs_sub_gt p a b L), re_d2sub, Rmax_right; lra.
Qed.
Lemma fabs_sub_R (x y : R) : fabs_sub x y = Rmax 0 (x - y).
Proof.
  unfold fabs_sub. cbn [nleb n0 nsub NumR]. unfold Rleb. destruct (Rle_dec x y); [rewrite Rmax_left|rewrite Rmax_right]; lra.
Qed.

(* abs_sub on the container: seven computing cells (a float next to a dual number is promoted to the
   variable-free constant of that kind), the two Dual-with-Dual2 cells refuse; the value is always the
   positive part of the difference of the values *)
Lemma num_abs_sub_cells p (f g : R) (d e : dualR) (d2 e2 : dual2R) :
  num_abs_sub p (NF f) (NF g) = Ok (NF (fabs_sub f g)) /\
  num_abs_sub p (NF f) (ND e) = Ok (ND (dabs_sub false (cst f) e)) /\
  num_abs_sub p (ND d) (NF g) = Ok (ND (dabs_sub false d (cst g))) /\
  num_abs_sub p (ND d) (ND e) = Ok (ND (dabs_sub p d e)) /\
  num_abs_sub p (NF f) (ND2 e2) = Ok (ND2 (d2abs_sub false (dual2_new f []) e2)) /\
  num_abs_sub p (ND2 d2) (NF g) = Ok (ND2 (d2abs_sub false d2 (dual2_new g []))) /\
  num_abs_sub p (ND2 d2) (ND2 e2) = Ok (ND2 (d2abs_sub p d2 e2)) /\
  num_abs_sub p (ND d) (ND2 e2) = Panic /\ num_abs_sub p (ND2 d2) (ND e) = Panic.
Proof. repeat split. Qed.
Lemma num_abs_sub_refuses p (a b : numberR) : num_abs_sub p a b = Panic <-> mixed a b = true.
Proof. apply num_bin_refuses. Qed.
Lemma num_abs_sub_value p (a b r : numberR) : num_abs_sub p a b = Ok r ->
  num_real r = Rmax 0 (num_real a - num_real b).
Proof.
  destruct a, b; cbn; intros E; inversion E; cbn [num_real];
    first [apply fabs_sub_R | apply re_dabs_sub | apply re_d2abs_sub].
Qed.
