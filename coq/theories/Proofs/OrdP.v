(* C19: ordering, sign, remainder, sums and identities are coherent with the value. *)
From Coq Require Import Reals ZArith List Bool Lra.
From RL Require Import Base.Num Base.Str Base.NumR Base.Outcome Model.Dual
  Proofs.NumRP Proofs.DualP Proofs.Dual2P Proofs.LayoutP Proofs.AD1.
Import ListNotations.
Open Scope R_scope.

(* abs flips value and all derivatives together when the value is negative, and is the identity
   when it is positive *)
Lemma dabs_pos (a : dualR) : 0 < re a -> dabs a = a.
Proof.
  intros P. unfold dabs. cbn [nltb n0 NumR]. unfold Rltb. destruct (Rlt_dec 0 (re a)); [|contradiction].
  destruct a; reflexivity.
Qed.
Lemma dabs_neg (a : dualR) : re a < 0 -> dabs a ≈ dneg a.
Proof.
  intros P. unfold dabs. cbn [nltb n0 NumR]. unfold Rltb. destruct (Rlt_dec 0 (re a)); [lra|].
  split; [reflexivity|]. intros v. unfold dneg, vscale_l. rewrite !coef_map by (cbn; ring). cbn; ring.
Qed.
Lemma d2abs_pos (a : dual2R) : 0 < re2 a -> d2abs a = a.
Proof.
  intros P. unfold d2abs. cbn [nltb n0 NumR]. unfold Rltb. destruct (Rlt_dec 0 (re2 a)); [reflexivity|contradiction].
Qed.
Lemma d2abs_neg (a : dual2R) : wf2 a -> re2 a < 0 -> d2abs a ≈₂ d2neg a.
Proof.
  intros W P. unfold d2abs. cbn [nltb n0 NumR]. unfold Rltb. destruct (Rlt_dec 0 (re2 a)); [lra|].
  unfold vscale_l, d2neg.
  destruct (d2scale_spec a (nneg (re2 a)) (-1) (fun x => nmul nm1 x) (fun x => nmul nm1 x) W) as (_ & R1 & C1 & H1);
    try (intros; cbn; ring).
  destruct (d2scale_spec a (nneg (re2 a)) (-1) nneg nneg W) as (_ & R2 & C2 & H2); try (intros; cbn; ring).
  split; [rewrite R1, R2; reflexivity|]. split.
  - intros v. rewrite C1, C2. reflexivity.
  - intros u v. rewrite H1, H2. reflexivity.
Qed.

(* remainder with a float divisor / dividend = remainder with the float promoted to a constant *)
Lemma drem_f_spec (a : dualR) r : wf a ->
  re (drem_f a r) = re a - r * Rtrunc (re a / r) /\ (forall v, coef (drem_f a r) v = coef a v) /\
  drem_f a r ≈ drem false a (cst r).
Proof.
  intros W. destruct (drem_spec false a (cst r) W (wf_cst r) (pfalse _ _)) as (_ & R & C & _).
  split; [reflexivity|]. split; [reflexivity|]. split.
  - rewrite R. reflexivity.
  - intros v. rewrite C, coef_cst. unfold coef. cbn. ring.
Qed.
Lemma frem_d_is (r : R) (b : dualR) : frem_d r b = drem false (cst r) b.
Proof. reflexivity. Qed.

(* sums: value and every derivative add up, left to right from the variable-free zero *)
Definition wf_all (l : list dualR) : Prop := Forall wf l.
Lemma fold_dadd_spec l : forall acc, wf acc -> wf_all l ->
  wf (fold_left (dadd false) l acc) /\
  re (fold_left (dadd false) l acc) = fold_left Rplus (map (@re R) l) (re acc) /\
  forall v, coef (fold_left (dadd false) l acc) v = fold_left Rplus (map (fun d => coef d v) l) (coef acc v).
Proof.
  induction l as [|x l IH]; intros acc WA WL; cbn [fold_left map].
  - auto.
  - inversion WL; subst.
    destruct (dadd_spec false acc x WA H1 (pfalse _ _)) as (W & R & C & _).
    destruct (IH (dadd false acc x) W H2) as (W' & R' & C').
    split; [exact W'|]. split; [rewrite R', R; reflexivity|]. intros v. rewrite C', C. reflexivity.
Qed.
Lemma dsum_spec l : wf_all l ->
  wf (dsum l) /\ re (dsum l) = fold_left Rplus (map (@re R) l) 0 /\
  forall v, coef (dsum l) v = fold_left Rplus (map (fun d => coef d v) l) 0.
Proof. intros WL. apply (fold_dadd_spec l dzero (wf_dual_new _ _) WL). Qed.

(* zero and one are neutral; is_zero = "equals the variable-free zero" *)
Lemma dzero_neutral p (a : dualR) : wf a -> (p = true -> vs a = vs (@dzero R _)) -> dadd p a dzero ≈ a.
Proof.
  intros W HP. destruct (dadd_spec p a dzero W (wf_dual_new _ _) HP) as (_ & R & C & _).
  split; [rewrite R; cbn; ring|]. intros v. rewrite C. unfold dzero. rewrite coef_const. ring.
Qed.
Lemma done_neutral p (a : dualR) : wf a -> (p = true -> vs a = vs (@done R _)) -> dmul p a done ≈ a.
Proof.
  intros W HP. destruct (dmul_spec p a done W (wf_dual_new _ _) HP) as (_ & R & C & _).
  split; [rewrite R; cbn; ring|]. intros v. rewrite C. unfold done. rewrite coef_const. cbn. ring.
Qed.
Lemma dis_zero_spec (a : dualR) : wf a -> (dis_zero a = true <-> a ≈ dzero).
Proof. intros W. unfold dis_zero. apply deqb_spec; auto. apply wf_dual_new. discriminate. Qed.
