(* Collects the per-table results of Proofs/RulesP_*.v into the C07 statements. Axiom-free. *)
From Coq Require Import ZArith Lia List Bool String.
From RL Require Import Base.Outcome Model.Dates Model.Calendar Model.Named Model.Rules Model.RuleChecks
  Gen.DocNames Gen.Fixings Proofs.DatesP Proofs.CalendarP Proofs.RulesP
  Proofs.RulesP_tgt Proofs.RulesP_nyc Proofs.RulesP_fed Proofs.RulesP_ldn Proofs.RulesP_stk Proofs.RulesP_osl Proofs.RulesP_zur
  Proofs.RulesP_part_tro Proofs.RulesP_part_tyo Proofs.RulesP_part_syd Proofs.RulesP_part_wlg Proofs.RulesP_part_mum
  Proofs.RulesP_fednyc Proofs.RulesP_misc Proofs.RulesP_fix_a Proofs.RulesP_fix_b Proofs.RulesP_fix_c.
Import ListNotations.
Open Scope Z_scope.

Theorem full_rules_ok n rs : In (n, rs) full_rules -> full_spec n rs.
Proof.
  unfold full_rules. cbn [In]. intros H.
  repeat (destruct H as [H|H]; [injection H as <- <-|]); try contradiction.
  - exact tgt_ok. - exact nyc_ok. - exact fed_ok. - exact ldn_ok. - exact stk_ok. - exact osl_ok. - exact zur_ok.
Qed.

(* business days of a fully published calendar: Mon-Fri and not a rule holiday *)
Theorem full_rules_bus n rs : In (n, rs) full_rules ->
  exists c, by_name n = Ok c /\ forall d, d1970 <= d <= d2200 ->
    cal_is_bus c d = (weekday d <? 5) && negb (rules_hit rs d).
Proof.
  intros H. destruct (full_rules_ok n rs H) as [c [Hc [M A]]]. exists c. split; auto.
  intros d Hd. unfold cal_is_bus. rewrite (mask_sat_sun_weekday c d M).
  destruct (Z.ltb_spec (weekday d) 5) as [L|L]; [|reflexivity]. rewrite (A d Hd L). reflexivity.
Qed.

Theorem partial_rules_ok n rs : In (n, rs) partial_rules -> partial_spec n rs.
Proof.
  unfold partial_rules. cbn [In]. intros H.
  repeat (destruct H as [H|H]; [injection H as <- <-|]); try contradiction.
  - exact tro_partial_ok. - exact tyo_partial_ok. - exact syd_partial_ok. - exact wlg_partial_ok. - exact mum_partial_ok.
Qed.

Theorem all_bus_days : (forall d, exists a, by_name "all" = Ok a /\ cal_is_holiday a d = false /\ cal_is_bus a d = true) /\
  (exists b, by_name "bus" = Ok b /\ forall d, cal_is_holiday b d = false /\ cal_is_bus b d = (weekday d <? 5)).
Proof.
  destruct all_bus_ok as [b [Ha [Hb [Hh M]]]]. split.
  - intros d. exists (mkCal [] []). split; [exact Ha|]. split; reflexivity.
  - exists b. split; auto. intros d.
    assert (E : cal_is_holiday b d = false) by (unfold cal_is_holiday; rewrite Hh; reflexivity).
    split; auto. unfold cal_is_bus. rewrite E, (mask_sat_sun_weekday b d M). apply andb_true_r.
Qed.

Theorem fixings_ok ccy nm fx : In (ccy, (nm, fx)) fixing_pairs -> fix_spec nm fx.
Proof.
  unfold fixing_pairs. cbn [In]. intros H.
  repeat (destruct H as [H|H]; [injection H as <- <- <-|]); try contradiction.
  - exact fix_usd_ok. - exact fix_gbp_ok. - exact fix_cad_ok. - exact fix_eur_ok. - exact fix_jpy_ok.
  - exact fix_sek_ok. - exact fix_nok_ok. - exact fix_aud_ok. - exact fix_inr_ok.
Qed.
