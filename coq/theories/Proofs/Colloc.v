(* The collocation matrix (PPSpline::bsplmatrix) entry by entry: row j, column i holds the basis derivative
   bspldnev(tau_j, i, k, t, m, None) with m = row_m l r |tau| j (left_n on the first site, right_n on the last — the last
   one wins on a one-row matrix — and the plain value between).  Any number type; no axioms. *)
From Coq Require Import List Lia.
From RL Require Import Base.Outcome Base.Num Model.Spline Model.PPSpline Proofs.PPSplineP.
Import ListNotations.

Lemma collocation_entry {T : Type} {H : Num T} {E : Type} (s : @ppspline T E) tau l r B j x i :
  (1 <= pn s)%nat -> bsplmatrix s tau l r = Ok B -> nth_error tau j = Some x -> (i < pn s)%nat ->
  exists row v, nth_error B j = Some row /\ nth_error row i = Some v /\ length row = pn s /\
    bspldnev x i (pk s) (pt s) (row_m l r (length tau) j) None = Ok v.
Proof.
  intros Hn HB Hj Hi.
  destruct (bsplmatrix_row s tau l r B j x Hn HB Hj) as (row & R1 & R2).
  unfold bspldnev_row in R2.
  assert (Hs : nth_error (seq 0 (pn s)) i = Some i).
  { rewrite nth_error_nth' with (d := O) by (rewrite seq_length; exact Hi). rewrite seq_nth by exact Hi. reflexivity. }
  destruct (omapM_nth _ _ _ _ _ R2 Hs) as (v & V1 & V2).
  exists row, v. repeat split; auto.
  rewrite (omapM_length _ _ _ R2), seq_length. reflexivity.
Qed.

Lemma collocation_rows {T : Type} {H : Num T} {E : Type} (s : @ppspline T E) tau l r B :
  (1 <= pn s)%nat -> bsplmatrix s tau l r = Ok B -> length B = length tau.
Proof. apply bsplmatrix_length. Qed.
