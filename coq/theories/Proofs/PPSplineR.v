(* C15, part 2 (T := R): evaluation at a dual-number abscissa returns the spline's own first and
   second derivatives as sensitivities (chain rule on the basis derivatives, as coded). *)
From Coq Require Import Reals Lra Lia Arith List Bool ZArith.
From RL Require Import Base.Outcome Base.Num Base.NumR Base.Str Model.Dual Model.Number Model.Linalg
  Model.Spline Model.PPSpline Proofs.DualP Proofs.Dual2P Proofs.PPSplineP Proofs.PPSplineHom.
Import ListNotations.
Open Scope R_scope.

(* ------------------------------------------------------------------ inner products over R *)
Fixpoint dotR (a b : list R) : R :=
  match a, b with
  | x :: a', y :: b' => x * y + dotR a' b'
  | _, _ => 0
  end.
Lemma dotR_comm a : forall b, dotR a b = dotR b a.
Proof. induction a as [|x a IH]; intros [|y b]; cbn; auto. rewrite IH. ring. Qed.
Lemma dotR_scale_r a k : forall b, dotR a (map (fun y => y * k) b) = dotR a b * k.
Proof. induction a as [|x a IH]; intros [|y b]; cbn; try ring. rewrite IH. ring. Qed.
Lemma dotR_add_r a : forall b c, length b = length c ->
  dotR a (map (fun p => fst p + snd p) (combine b c)) = dotR a b + dotR a c.
Proof.
  induction a as [|x a IH]; intros [|y b] [|z c] L; cbn in *; try ring; try discriminate.
  rewrite IH by lia. ring.
Qed.

(* fdmul11_ / gdot at the float kind, read over R *)
Lemma gdot_R_acc a : forall b acc,
  fold_left (fun acc p => oadd acc (xmul_num (fst p) (snd p))) (combine a b) acc = acc + dotR a b.
Proof.
  induction a as [|x a IH]; intros [|y b] acc; cbn [combine fold_left dotR]; try ring.
  rewrite IH. cbn. ring.
Qed.
Lemma gdot_R a b : gdot (OE := ops_num) xmul_num a b = dotR a b.
Proof. unfold gdot. rewrite gdot_R_acc. cbn. ring. Qed.

Lemma ppdnev_single_R (s : @ppspline R R) x m v :
  ppdnev_single xmul_num s x m = Ok v ->
  exists row c, bspldnev_row x (pk s) (pt s) m (pn s) = Ok row /\ pc s = Some c /\
                length row = length c /\ v = dotR row c.
Proof.
  unfold ppdnev_single. destruct (bspldnev_row x (pk s) (pt s) m (pn s)) as [row| |]; cbn [obind]; try discriminate.
  destruct (pc s) as [c|]; try discriminate.
  unfold fdmul11_, gmul11. destruct (Nat.eqb_spec (length row) (length c)); try discriminate.
  intros HV. inversion HV. exists row, c. rewrite gdot_R. auto.
Qed.

(* ------------------------------------------------------------------ first order *)
Section Abscissa1.
  Variable X : dual R.
  Hypothesis WX : wf X.

  (* one basis function at the dual abscissa *)
  Lemma bspldnev_dual_spec i k t m D :
    bspldnev_dual X i k t m None = Ok D ->
    exists b db, bspldnev (re X) i k t m None = Ok b /\ bspldnev (re X) i k t (m + 1) None = Ok db /\
                 wf D /\ re D = b /\ forall v, coef D v = db * coef X v.
  Proof.
    unfold bspldnev_dual.
    destruct (bspldnev (re X) i k t m None) as [b| |]; cbn [obind]; try discriminate.
    destruct (bspldnev (re X) i k t (m + 1) None) as [db| |]; cbn [obind]; try discriminate.
    unfold dual_clone_from. destruct (Nat.eqb_spec (length (vs X)) (length (vscale_l db (du X)))); try discriminate.
    intros HD. inversion HD. exists b, db.
    split; [reflexivity|]. split; [reflexivity|].
    split. { split; [apply WX|]. cbn. unfold vscale_l. rewrite map_length. apply WX. }
    split; [reflexivity|].
    intros v. unfold vscale_l. apply (coef_map (fun y => db * y) b X v). ring.
  Qed.

  Lemma dual_row_spec k t m : forall l Ds,
    omapM (fun i => bspldnev_dual X i k t m None) l = Ok Ds ->
    exists bs dbs,
      omapM (fun i => bspldnev (re X) i k t m None) l = Ok bs /\
      omapM (fun i => bspldnev (re X) i k t (m + 1) None) l = Ok dbs /\
      Forall wf Ds /\ map (@re R) Ds = bs /\
      forall v, map (fun d => coef d v) Ds = map (fun db => db * coef X v) dbs.
  Proof.
    induction l as [|i l IH]; intros Ds HM; cbn [omapM] in *.
    - inversion HM. exists [], []. repeat split; auto.
    - destruct (bspldnev_dual X i k t m None) as [D| |] eqn:ED; cbn [obind] in HM; try discriminate.
      destruct (omapM (fun i0 => bspldnev_dual X i0 k t m None) l) as [Ds'| |] eqn:EL; cbn [obind] in HM; try discriminate.
      inversion HM; subst Ds. clear HM.
      destruct (bspldnev_dual_spec i k t m D ED) as (b & db & Hb & Hdb & WD & RD & CD).
      destruct (IH Ds' eq_refl) as (bs & dbs & Hbs & Hdbs & WDs & RDs & CDs).
      exists (b :: bs), (db :: dbs). rewrite Hb, Hdb, Hbs, Hdbs. cbn [obind].
      repeat split; auto.
      + cbn [map]. congruence.
      + intros v. cbn [map]. rewrite CD, CDs. reflexivity.
  Qed.

  (* the coefficient-weighted sum of dual numbers, by real part and by name *)
  Lemma gdot_dual_acc c : forall Ds acc, Forall wf Ds -> wf acc ->
    let r := fold_left (fun acc p => oadd acc (xmul_dual (fst p) (snd p))) (combine c Ds) acc in
    wf r /\ re r = re acc + dotR c (map (@re R) Ds) /\
    forall v, coef r v = coef acc v + dotR c (map (fun d => coef d v) Ds).
  Proof.
    induction c as [|ci c IH]; intros Ds acc WDs Wacc.
    - cbn. split; [exact Wacc|]. split; [ring|]. intros; ring.
    - destruct Ds as [|D Ds].
      + cbn. split; [exact Wacc|]. split; [ring|]. intros; ring.
      + inversion WDs as [|? ? WD WDs']; subst.
        cbn [combine fold_left fst snd map dotR].
        assert (WM : wf (xmul_dual ci D)).
        { unfold xmul_dual, dmul_f, vscale_l. apply wf_map. exact WD. }
        destruct (dadd_spec false acc (xmul_dual ci D) Wacc WM ltac:(discriminate)) as (W1 & R1 & C1 & _).
        destruct (IH Ds (dadd false acc (xmul_dual ci D)) WDs' W1) as (W2 & R2 & C2).
        change (oadd acc (xmul_dual ci D)) with (dadd false acc (xmul_dual ci D)). split; [exact W2|]. split.
        * rewrite R2, R1. unfold xmul_dual, dmul_f. cbn [re]. cbn. ring.
        * intros v. rewrite C2, C1.
          assert (coef (xmul_dual ci D) v = ci * coef D v) as ->.
          { unfold xmul_dual, dmul_f, vscale_l. apply (coef_map (fun y => ci * y)). ring. }
          ring.
  Qed.

  Lemma wf_dzero : wf (@dzero R NumR). Proof. apply wf_dual_new. Qed.

  Lemma ppdnev_f_dual_spec (s : @ppspline R R) m d :
    ppdnev_f_dual s X m = Ok d ->
    exists v0 v1, ppdnev_single xmul_num s (re X) m = Ok v0 /\
                  ppdnev_single xmul_num s (re X) (m + 1) = Ok v1 /\
                  wf d /\ re d = v0 /\ forall v, coef d v = v1 * coef X v.
  Proof.
    unfold ppdnev_f_dual, dual_row.
    destruct (omapM (fun i => bspldnev_dual X i (pk s) (pt s) m None) (seq 0 (pn s))) as [Ds| |] eqn:ED;
      cbn [obind]; try discriminate.
    destruct (pc s) as [c|] eqn:Ec; try discriminate.
    unfold fdmul11_, gmul11. destruct (Nat.eqb_spec (length c) (length Ds)) as [L|L]; try discriminate.
    intros HD. inversion HD as [HD']. clear HD.
    destruct (dual_row_spec (pk s) (pt s) m _ Ds ED) as (bs & dbs & Hbs & Hdbs & WDs & RDs & CDs).
    pose proof (omapM_length _ _ _ ED) as L1. pose proof (omapM_length _ _ _ Hbs) as L2.
    pose proof (omapM_length _ _ _ Hdbs) as L3.
    destruct (gdot_dual_acc c Ds dzero WDs wf_dzero) as (W & Rr & Cr).
    exists (dotR bs c), (dotR dbs c).
    unfold ppdnev_single, bspldnev_row. rewrite Hbs, Hdbs. cbn [obind]. rewrite Ec.
    unfold fdmul11_, gmul11.
    replace (length bs =? length c)%nat with true by (symmetry; apply Nat.eqb_eq; lia).
    replace (length dbs =? length c)%nat with true by (symmetry; apply Nat.eqb_eq; lia).
    rewrite !gdot_R. subst d. unfold gdot. cbn [osum0 ops_dual].
    split; [reflexivity|]. split; [reflexivity|]. split; [exact W|]. split.
    - rewrite Rr, RDs. cbn. rewrite (dotR_comm c bs). ring.
    - intros v. rewrite Cr, CDs.
      rewrite dotR_scale_r, (dotR_comm c dbs). unfold dzero. rewrite coef_const. ring.
  Qed.

  (* Dual coefficients AND a dual abscissa (PPSpline<Dual>::ppdnev_single_dual): the total
     derivative = sensitivity through the data + the spline's own derivative times the abscissa's *)
  Lemma gdot_dd_acc (c : list (dual R)) : forall Ds acc, Forall wf c -> Forall wf Ds -> wf acc ->
    let r := fold_left (fun acc p => dadd false acc (dmul false (fst p) (snd p))) (combine c Ds) acc in
    wf r /\ re r = re acc + dotR (map (@re R) c) (map (@re R) Ds) /\
    forall v, coef r v = coef acc v + dotR (map (fun d => coef d v) c) (map (@re R) Ds)
                         + dotR (map (@re R) c) (map (fun d => coef d v) Ds).
  Proof.
    induction c as [|ci c IH]; intros Ds acc Wc WDs Wacc.
    - cbn. split; [exact Wacc|]. split; [ring|]. intros; ring.
    - destruct Ds as [|D Ds].
      + cbn. split; [exact Wacc|]. split; [ring|]. intros; ring.
      + inversion WDs as [|? ? WD WDs']; subst. inversion Wc as [|? ? Wci Wc']; subst.
        cbn [combine fold_left fst snd map dotR].
        destruct (dmul_spec false ci D Wci WD ltac:(discriminate)) as (WM & RM & CM & _).
        destruct (dadd_spec false acc (dmul false ci D) Wacc WM ltac:(discriminate)) as (W1 & R1 & C1 & _).
        destruct (IH Ds (dadd false acc (dmul false ci D)) Wc' WDs' W1) as (W2 & R2 & C2).
        split; [exact W2|]. split.
        * rewrite R2, R1, RM. ring.
        * intros v. rewrite C2, C1, CM. ring.
  Qed.

  Lemma ppdnev_single_dual_R (s : @ppspline R (dual R)) c x m d :
    pc s = Some c -> Forall wf c -> ppdnev_single xmul_dual s x m = Ok d ->
    exists row, bspldnev_row x (pk s) (pt s) m (pn s) = Ok row /\ length row = length c /\
                re d = dotR row (map (@re R) c) /\ forall v, coef d v = dotR row (map (fun e => coef e v) c).
  Proof.
    intros Hc Wc. unfold ppdnev_single. rewrite Hc.
    destruct (bspldnev_row x (pk s) (pt s) m (pn s)) as [row| |]; cbn [obind]; try discriminate.
    unfold fdmul11_, gmul11. destruct (Nat.eqb_spec (length row) (length c)); try discriminate.
    intros HD. inversion HD as [HD']. exists row. split; auto. split; auto.
    destruct (gdot_dual_acc row c dzero Wc wf_dzero) as (W & Rr & Cr).
    subst d. unfold gdot. cbn [osum0 ops_dual]. split.
    - rewrite Rr. cbn. ring.
    - intros v. rewrite Cr. unfold dzero. rewrite coef_const. ring.
  Qed.

  Lemma ppdnev_d_dual_spec (s : @ppspline R (dual R)) c m d :
    pc s = Some c -> Forall wf c ->
    ppdnev_d_dual s X m = Ok d ->
    exists d0 d1, ppdnev_single xmul_dual s (re X) m = Ok d0 /\
                  ppdnev_single xmul_dual s (re X) (m + 1) = Ok d1 /\
                  wf d /\ re d = re d0 /\ forall v, coef d v = coef d0 v + re d1 * coef X v.
  Proof.
    intros Hc Wc. unfold ppdnev_d_dual, dual_row. rewrite Hc.
    destruct (omapM (fun i => bspldnev_dual X i (pk s) (pt s) m None) (seq 0 (pn s))) as [Ds| |] eqn:ED;
      cbn [obind]; try discriminate.
    unfold dmul11_, gmul11. destruct (Nat.eqb_spec (length c) (length Ds)) as [L|L]; try discriminate.
    intros HD. inversion HD as [HD']. clear HD.
    destruct (dual_row_spec (pk s) (pt s) m _ Ds ED) as (bs & dbs & Hbs & Hdbs & WDs & RDs & CDs).
    pose proof (omapM_length _ _ _ ED) as L1. pose proof (omapM_length _ _ _ Hbs) as L2.
    pose proof (omapM_length _ _ _ Hdbs) as L3.
    destruct (gdot_dd_acc c Ds dzero Wc WDs wf_dzero) as (W & Rr & Cr).
    assert (E0 : exists d0, ppdnev_single xmul_dual s (re X) m = Ok d0).
    { unfold ppdnev_single, bspldnev_row. rewrite Hbs. cbn [obind]. rewrite Hc. unfold fdmul11_, gmul11.
      replace (length bs =? length c)%nat with true by (symmetry; apply Nat.eqb_eq; lia). eauto. }
    assert (E1 : exists d1, ppdnev_single xmul_dual s (re X) (m + 1) = Ok d1).
    { unfold ppdnev_single, bspldnev_row. rewrite Hdbs. cbn [obind]. rewrite Hc. unfold fdmul11_, gmul11.
      replace (length dbs =? length c)%nat with true by (symmetry; apply Nat.eqb_eq; lia). eauto. }
    destruct E0 as [d0 E0]. destruct E1 as [d1 E1]. exists d0, d1.
    split; [exact E0|]. split; [exact E1|].
    destruct (ppdnev_single_dual_R s c (re X) m d0 Hc Wc E0) as (row0 & Hr0 & _ & R0 & C0).
    destruct (ppdnev_single_dual_R s c (re X) (m + 1) d1 Hc Wc E1) as (row1 & Hr1 & _ & R1 & _).
    unfold bspldnev_row in Hr0, Hr1. rewrite Hbs in Hr0. rewrite Hdbs in Hr1.
    inversion Hr0; subst row0. inversion Hr1; subst row1.
    subst d. unfold dot, gdot. cbn [osum0 oadd omul ops_dual]. split; [exact W|]. split.
    - rewrite Rr, RDs, R0. cbn. rewrite (dotR_comm bs). ring.
    - intros v. rewrite Cr, RDs, CDs, C0, R1. unfold dzero. rewrite coef_const.
      rewrite dotR_scale_r, (dotR_comm (map (fun d2 => coef d2 v) c) bs), (dotR_comm (map (@re R) c) dbs). ring.
  Qed.
End Abscissa1.

(* ------------------------------------------------------------------ second order *)
Section Abscissa2.
  Variable X : dual2 R.
  Hypothesis WX : wf2 X.

  Lemma square_len n (m : list (list R)) : square n m -> length m = n /\ ncols m = n \/ (n = 0%nat /\ m = []).
  Proof.
    intros [L F]. destruct m as [|r m']. right. cbn in L. auto.
    left. split; auto. cbn. inversion F; auto.
  Qed.

  Lemma bspldnev_dual2_spec i k t m D :
    bspldnev_dual2 X i k t m None = Ok D ->
    exists b db d2b, bspldnev (re2 X) i k t m None = Ok b /\
                     bspldnev (re2 X) i k t (m + 1) None = Ok db /\
                     bspldnev (re2 X) i k t (m + 2) None = Ok d2b /\
                     wf2 D /\ re2 D = b /\ (forall v, coef1 D v = db * coef1 X v) /\
                     forall u v, coef2 D u v = db * coef2 X u v + (/ 2 * d2b) * (coef1 X u * coef1 X v).
  Proof.
    unfold bspldnev_dual2.
    destruct (bspldnev (re2 X) i k t m None) as [b| |]; cbn [obind]; try discriminate.
    destruct (bspldnev (re2 X) i k t (m + 1) None) as [db| |]; cbn [obind]; try discriminate.
    destruct (bspldnev (re2 X) i k t (m + 2) None) as [d2b| |]; cbn [obind]; try discriminate.
    unfold dual2_clone_from.
    match goal with |- (if ?c then _ else _) = _ -> _ => destruct c; try discriminate end.
    intros HD. inversion HD. clear HD. exists b, db, d2b.
    destruct WX as (ND & LD & SQ).
    assert (SO : square (length (vs2 X)) (outer (du2 X) (du2 X))).
    { rewrite <- LD. apply square_outer. reflexivity. }
    assert (S1 : square (length (vs2 X)) (mmap (fun e => nmul db e) (dd2 X))) by (apply square_mmap; auto).
    assert (S2 : square (length (vs2 X)) (mmap (fun e => nmul (nmul nhalf d2b) e) (outer (du2 X) (du2 X))))
      by (apply square_mmap; auto).
    repeat split; auto.
    - cbn. unfold vscale_l. rewrite map_length. exact LD.
    - cbn. apply square_mzip; auto.
    - cbn. apply square_mzip; auto.
    - intros v. unfold coef1. cbn [vs2 du2]. unfold vscale_l. apply (lk_map (fun y => db * y)). ring.
    - intros u v. unfold coef2. cbn [vs2 dd2].
      rewrite (lk2_mzip _ (length (vs2 X))); auto; [|cbn; lra].
      rewrite !lk2_mmap by (cbn; ring).
      rewrite lk2_outer. unfold coef1, coef2. cbn. field.
  Qed.

  Lemma dual2_row_spec k t m : forall l Ds,
    omapM (fun i => bspldnev_dual2 X i k t m None) l = Ok Ds ->
    exists bs dbs d2bs,
      omapM (fun i => bspldnev (re2 X) i k t m None) l = Ok bs /\
      omapM (fun i => bspldnev (re2 X) i k t (m + 1) None) l = Ok dbs /\
      omapM (fun i => bspldnev (re2 X) i k t (m + 2) None) l = Ok d2bs /\
      Forall wf2 Ds /\ map (@re2 R) Ds = bs /\
      (forall v, map (fun d => coef1 d v) Ds = map (fun db => db * coef1 X v) dbs) /\
      forall u v, map (fun d => coef2 d u v) Ds =
                  map (fun p => fst p + snd p)
                      (combine (map (fun db => db * coef2 X u v) dbs)
                               (map (fun d2b => d2b * (/ 2 * (coef1 X u * coef1 X v))) d2bs)).
  Proof.
    induction l as [|i l IH]; intros Ds HM; cbn [omapM] in *.
    - inversion HM. exists [], [], []. repeat split; auto.
    - destruct (bspldnev_dual2 X i k t m None) as [D| |] eqn:ED; cbn [obind] in HM; try discriminate.
      destruct (omapM (fun i0 => bspldnev_dual2 X i0 k t m None) l) as [Ds'| |] eqn:EL; cbn [obind] in HM; try discriminate.
      inversion HM; subst Ds. clear HM.
      destruct (bspldnev_dual2_spec i k t m D ED) as (b & db & d2b & Hb & Hdb & Hd2b & WD & RD & C1 & C2).
      destruct (IH Ds' eq_refl) as (bs & dbs & d2bs & Hbs & Hdbs & Hd2bs & WDs & RDs & C1s & C2s).
      exists (b :: bs), (db :: dbs), (d2b :: d2bs). rewrite Hb, Hdb, Hd2b, Hbs, Hdbs, Hd2bs. cbn [obind].
      repeat split; auto.
      + cbn [map]. congruence.
      + intros v. cbn [map]. rewrite C1, C1s. reflexivity.
      + intros u v. cbn [map combine fst snd]. rewrite C2, C2s. f_equal. ring.
  Qed.

  Lemma wf2_xmul ci D : wf2 D -> wf2 (xmul_dual2 ci D) /\ re2 (xmul_dual2 ci D) = ci * re2 D /\
    (forall v, coef1 (xmul_dual2 ci D) v = ci * coef1 D v) /\
    (forall u v, coef2 (xmul_dual2 ci D) u v = ci * coef2 D u v).
  Proof.
    intros (ND & LD & SQ). unfold xmul_dual2, d2mul_f. cbn [re2 vs2 du2 dd2]. repeat split; cbn [vs2 du2 dd2].
    - exact ND.
    - unfold vscale_l. rewrite map_length. exact LD.
    - apply square_mmap; auto.
    - apply square_mmap; auto.
    - cbn. ring.
    - intros v. unfold coef1, vscale_l. cbn [vs2 du2]. apply (lk_map (fun y => ci * y)). ring.
    - intros u v. unfold coef2. cbn [vs2 dd2]. rewrite lk2_mmap by (cbn; ring). reflexivity.
  Qed.

  Lemma gdot_dual2_acc c : forall Ds acc, Forall wf2 Ds -> wf2 acc ->
    let r := fold_left (fun acc p => oadd acc (xmul_dual2 (fst p) (snd p))) (combine c Ds) acc in
    wf2 r /\ re2 r = re2 acc + dotR c (map (@re2 R) Ds) /\
    (forall v, coef1 r v = coef1 acc v + dotR c (map (fun d => coef1 d v) Ds)) /\
    forall u v, coef2 r u v = coef2 acc u v + dotR c (map (fun d => coef2 d u v) Ds).
  Proof.
    induction c as [|ci c IH]; intros Ds acc WDs Wacc.
    - cbn. split; [exact Wacc|]. split; [ring|]. split; intros; ring.
    - destruct Ds as [|D Ds].
      + cbn. split; [exact Wacc|]. split; [ring|]. split; intros; ring.
      + inversion WDs as [|? ? WD WDs']; subst.
        cbn [combine fold_left fst snd map dotR].
        destruct (wf2_xmul ci D WD) as (WM & RM & C1M & C2M).
        destruct (d2add_spec false acc (xmul_dual2 ci D) Wacc WM ltac:(discriminate)) as (W1 & R1 & C1 & C2 & _).
        destruct (IH Ds (d2add false acc (xmul_dual2 ci D)) WDs' W1) as (W2 & R2 & C12 & C22).
        change (oadd acc (xmul_dual2 ci D)) with (d2add false acc (xmul_dual2 ci D)). split; [exact W2|]. split; [|split].
        * rewrite R2, R1, RM. ring.
        * intros v. rewrite C12, C1, C1M. ring.
        * intros u v. rewrite C22, C2, C2M. ring.
  Qed.

  Lemma wf2_d2zero : wf2 (@d2zero R NumR).
  Proof.
    unfold d2zero, dual2_new. cbn. repeat split; cbn; auto. constructor.
  Qed.

  Lemma ppdnev_f_dual2_spec (s : @ppspline R R) m d :
    ppdnev_f_dual2 s X m = Ok d ->
    exists v0 v1 v2, ppdnev_single xmul_num s (re2 X) m = Ok v0 /\
                     ppdnev_single xmul_num s (re2 X) (m + 1) = Ok v1 /\
                     ppdnev_single xmul_num s (re2 X) (m + 2) = Ok v2 /\
                     wf2 d /\ re2 d = v0 /\ (forall v, coef1 d v = v1 * coef1 X v) /\
                     forall u v, coef2 d u v = v1 * coef2 X u v + / 2 * v2 * (coef1 X u * coef1 X v).
  Proof.
    unfold ppdnev_f_dual2, dual2_row.
    destruct (omapM (fun i => bspldnev_dual2 X i (pk s) (pt s) m None) (seq 0 (pn s))) as [Ds| |] eqn:ED;
      cbn [obind]; try discriminate.
    destruct (pc s) as [c|] eqn:Ec; try discriminate.
    unfold fdmul11_, gmul11. destruct (Nat.eqb_spec (length c) (length Ds)) as [L|L]; try discriminate.
    intros HD. inversion HD as [HD']. clear HD.
    destruct (dual2_row_spec (pk s) (pt s) m _ Ds ED) as (bs & dbs & d2bs & Hbs & Hdbs & Hd2bs & WDs & RDs & C1s & C2s).
    pose proof (omapM_length _ _ _ ED) as L1. pose proof (omapM_length _ _ _ Hbs) as L2.
    pose proof (omapM_length _ _ _ Hdbs) as L3. pose proof (omapM_length _ _ _ Hd2bs) as L4.
    destruct (gdot_dual2_acc c Ds d2zero WDs wf2_d2zero) as (W & Rr & C1r & C2r).
    exists (dotR bs c), (dotR dbs c), (dotR d2bs c).
    unfold ppdnev_single, bspldnev_row. rewrite Hbs, Hdbs, Hd2bs. cbn [obind]. rewrite Ec.
    unfold fdmul11_, gmul11.
    replace (length bs =? length c)%nat with true by (symmetry; apply Nat.eqb_eq; lia).
    replace (length dbs =? length c)%nat with true by (symmetry; apply Nat.eqb_eq; lia).
    replace (length d2bs =? length c)%nat with true by (symmetry; apply Nat.eqb_eq; lia).
    rewrite !gdot_R. subst d. unfold gdot. cbn [osum0 ops_dual2].
    split; [reflexivity|]. split; [reflexivity|]. split; [reflexivity|].
    split; [exact W|]. split; [|split].
    - rewrite Rr, RDs. cbn. rewrite (dotR_comm c bs). ring.
    - intros v. rewrite C1r, C1s. rewrite dotR_scale_r, (dotR_comm c dbs). cbn. ring.
    - intros u v. rewrite C2r, C2s.
      rewrite dotR_add_r by (rewrite !map_length; lia).
      rewrite !dotR_scale_r, (dotR_comm c dbs), (dotR_comm c d2bs). cbn. ring.
  Qed.

  (* Dual2 coefficients AND a Dual2 abscissa (PPSpline<Dual2>::ppdnev_single_dual2) *)
  Lemma gdot_d2d2_acc (c : list (dual2 R)) : forall Ds acc, Forall wf2 c -> Forall wf2 Ds -> wf2 acc ->
    let r := fold_left (fun acc p => d2add false acc (d2mul false (fst p) (snd p))) (combine c Ds) acc in
    wf2 r /\ re2 r = re2 acc + dotR (map (@re2 R) c) (map (@re2 R) Ds) /\
    (forall v, coef1 r v = coef1 acc v + dotR (map (fun d => coef1 d v) c) (map (@re2 R) Ds)
                           + dotR (map (@re2 R) c) (map (fun d => coef1 d v) Ds)) /\
    forall u v, coef2 r u v = coef2 acc u v + dotR (map (fun d => coef2 d u v) c) (map (@re2 R) Ds)
                  + dotR (map (@re2 R) c) (map (fun d => coef2 d u v) Ds)
                  + / 2 * (dotR (map (fun d => coef1 d u) c) (map (fun d => coef1 d v) Ds)
                           + dotR (map (fun d => coef1 d v) c) (map (fun d => coef1 d u) Ds)).
  Proof.
    induction c as [|ci c IH]; intros Ds acc Wc WDs Wacc.
    - cbn. split; [exact Wacc|]. split; [ring|]. split; intros; ring.
    - destruct Ds as [|D Ds].
      + cbn. split; [exact Wacc|]. split; [ring|]. split; intros; ring.
      + inversion WDs as [|? ? WD WDs']; subst. inversion Wc as [|? ? Wci Wc']; subst.
        cbn [combine fold_left fst snd map dotR].
        destruct (d2mul_spec false ci D Wci WD ltac:(discriminate)) as (WM & RM & C1M & C2M & _).
        destruct (d2add_spec false acc (d2mul false ci D) Wacc WM ltac:(discriminate)) as (W1 & R1 & C11 & C21 & _).
        destruct (IH Ds (d2add false acc (d2mul false ci D)) Wc' WDs' W1) as (W2 & R2 & C12 & C22).
        split; [exact W2|]. split; [|split].
        * rewrite R2, R1, RM. ring.
        * intros v. rewrite C12, C11, C1M. ring.
        * intros u v. rewrite C22, C21, C2M. ring.
  Qed.

  Lemma ppdnev_single_dual2_R (s : @ppspline R (dual2 R)) c x m d :
    pc s = Some c -> Forall wf2 c -> ppdnev_single xmul_dual2 s x m = Ok d ->
    exists row, bspldnev_row x (pk s) (pt s) m (pn s) = Ok row /\ length row = length c /\
                re2 d = dotR row (map (@re2 R) c) /\
                (forall v, coef1 d v = dotR row (map (fun e => coef1 e v) c)) /\
                forall u v, coef2 d u v = dotR row (map (fun e => coef2 e u v) c).
  Proof.
    intros Hc Wc. unfold ppdnev_single. rewrite Hc.
    destruct (bspldnev_row x (pk s) (pt s) m (pn s)) as [row| |]; cbn [obind]; try discriminate.
    unfold fdmul11_, gmul11. destruct (Nat.eqb_spec (length row) (length c)); try discriminate.
    intros HD. inversion HD as [HD']. exists row. split; auto. split; auto.
    destruct (gdot_dual2_acc row c d2zero Wc wf2_d2zero) as (W & Rr & C1r & C2r).
    subst d. unfold gdot. cbn [osum0 ops_dual2]. split; [|split].
    - rewrite Rr. cbn. ring.
    - intros v. rewrite C1r. cbn. ring.
    - intros u v. rewrite C2r. cbn. ring.
  Qed.

  Lemma ppdnev_d2_dual2_spec (s : @ppspline R (dual2 R)) c m d :
    pc s = Some c -> Forall wf2 c ->
    ppdnev_d2_dual2 s X m = Ok d ->
    exists d0 d1 d2, ppdnev_single xmul_dual2 s (re2 X) m = Ok d0 /\
                     ppdnev_single xmul_dual2 s (re2 X) (m + 1) = Ok d1 /\
                     ppdnev_single xmul_dual2 s (re2 X) (m + 2) = Ok d2 /\
                     wf2 d /\ re2 d = re2 d0 /\
                     (forall v, coef1 d v = coef1 d0 v + re2 d1 * coef1 X v) /\
                     forall u v, coef2 d u v = coef2 d0 u v + re2 d1 * coef2 X u v
                                   + / 2 * re2 d2 * (coef1 X u * coef1 X v)
                                   + / 2 * (coef1 d1 u * coef1 X v + coef1 d1 v * coef1 X u).
  Proof.
    intros Hc Wc. unfold ppdnev_d2_dual2, dual2_row. rewrite Hc.
    destruct (omapM (fun i => bspldnev_dual2 X i (pk s) (pt s) m None) (seq 0 (pn s))) as [Ds| |] eqn:ED;
      cbn [obind]; try discriminate.
    unfold dmul11_, gmul11. destruct (Nat.eqb_spec (length c) (length Ds)) as [L|L]; try discriminate.
    intros HD. inversion HD as [HD']. clear HD.
    destruct (dual2_row_spec (pk s) (pt s) m _ Ds ED) as (bs & dbs & d2bs & Hbs & Hdbs & Hd2bs & WDs & RDs & C1s & C2s).
    pose proof (omapM_length _ _ _ ED) as L1. pose proof (omapM_length _ _ _ Hbs) as L2.
    pose proof (omapM_length _ _ _ Hdbs) as L3. pose proof (omapM_length _ _ _ Hd2bs) as L4.
    destruct (gdot_d2d2_acc c Ds d2zero Wc WDs wf2_d2zero) as (W & Rr & C1r & C2r).
    assert (EX : forall mm row, omapM (fun i => bspldnev (re2 X) i (pk s) (pt s) mm None) (seq 0 (pn s)) = Ok row ->
                 exists dd, ppdnev_single xmul_dual2 s (re2 X) mm = Ok dd).
    { intros mm row Hrow. pose proof (omapM_length _ _ _ Hrow) as Lr.
      unfold ppdnev_single, bspldnev_row. rewrite Hrow. cbn [obind]. rewrite Hc. unfold fdmul11_, gmul11.
      replace (length row =? length c)%nat with true by (symmetry; apply Nat.eqb_eq; lia). eauto. }
    destruct (EX m bs Hbs) as [d0 E0]. destruct (EX (m + 1)%nat dbs Hdbs) as [d1 E1].
    destruct (EX (m + 2)%nat d2bs Hd2bs) as [d2 E2]. exists d0, d1, d2.
    split; [exact E0|]. split; [exact E1|]. split; [exact E2|].
    destruct (ppdnev_single_dual2_R s c (re2 X) m d0 Hc Wc E0) as (row0 & Hr0 & _ & R0 & C10 & C20).
    destruct (ppdnev_single_dual2_R s c (re2 X) (m + 1) d1 Hc Wc E1) as (row1 & Hr1 & _ & R1 & C11 & _).
    destruct (ppdnev_single_dual2_R s c (re2 X) (m + 2) d2 Hc Wc E2) as (row2 & Hr2 & _ & R2 & _ & _).
    unfold bspldnev_row in Hr0, Hr1, Hr2. rewrite Hbs in Hr0. rewrite Hdbs in Hr1. rewrite Hd2bs in Hr2.
    inversion Hr0; subst row0. inversion Hr1; subst row1. inversion Hr2; subst row2.
    subst d. unfold dot, gdot. cbn [osum0 oadd omul ops_dual2]. split; [exact W|]. split; [|split].
    - rewrite Rr, RDs, R0. cbn. rewrite (dotR_comm bs). ring.
    - intros v. rewrite C1r, RDs, C1s, C10, R1.
      rewrite dotR_scale_r, (dotR_comm _ bs), (dotR_comm _ dbs). cbn. ring.
    - intros u v. rewrite C2r, RDs, C2s, !C1s, C20, R1, R2, !C11.
      rewrite dotR_add_r by (rewrite !map_length; lia).
      rewrite !dotR_scale_r.
      rewrite (dotR_comm (map (fun d3 => coef2 d3 u v) c) bs), (dotR_comm (map (@re2 R) c) dbs),
              (dotR_comm (map (@re2 R) c) d2bs), (dotR_comm (map (fun d3 => coef1 d3 u) c) dbs),
              (dotR_comm (map (fun d3 => coef1 d3 v) c) dbs).
      cbn. ring.
  Qed.
End Abscissa2.

(* ------------------------------------------------------------------ linearity in the data: Dual data *)
Lemma csolve_indep {E} {OE : Ops E} (xm : R -> E -> E) (s1 s2 : @ppspline R E) tau y l r lsq :
  pk s1 = pk s2 -> pt s1 = pt s2 -> pn s1 = pn s2 ->
  csolve xm s1 tau y l r lsq = csolve xm s2 tau y l r lsq.
Proof.
  intros A B C. unfold csolve. rewrite (bsplmatrix_indep s1 s2) by auto. rewrite A, B, C. reflexivity.
Qed.

Section DataDual.
  Variable v : name.
  Let hv (d : dual R) : R := coef d v.

  Lemma wf_xmul_dual f a : wf a -> wf (xmul_dual f a).
  Proof. intros W. unfold xmul_dual, dmul_f, vscale_l. apply wf_map. exact W. Qed.
  Lemma coef_xmul_dual f a u : coef (xmul_dual f a) u = f * coef a u.
  Proof. unfold xmul_dual, dmul_f, vscale_l. apply (coef_map (fun y => f * y)). ring. Qed.
  Lemma re_xmul_dual f (a : dual R) : re (xmul_dual f a) = f * re a.
  Proof. unfold xmul_dual, dmul_f. cbn. ring. Qed.

  (* the solved spline on dual data, seen through "coefficient of v": it is the spline solved on
     the coefficients of v of the data *)
  Lemma data_sens_coef (s s' : @ppspline R (dual R)) tau y l r lsq : Forall wf y ->
    csolve xmul_dual s tau y l r lsq = Ok s' ->
    csolve xmul_num (pp_map hv s) tau (map hv y) l r lsq = Ok (pp_map hv s') /\
    forall x m d, ppdnev_single xmul_dual s' x m = Ok d ->
                  ppdnev_single xmul_num (pp_map hv s') x m = Ok (coef d v).
  Proof.
    intros G HS.
    assert (g_zero : wf (@ozero _ (@ops_dual R NumR))) by apply wf_dual_new.
    assert (g_sub : forall a b, wf a -> wf b -> wf (@osub _ (@ops_dual R NumR) a b)).
    { intros a b Wa Wb. apply (dsub_spec false a b Wa Wb). discriminate. }
    assert (g_add : forall a b, wf a -> wf b -> wf (@oadd _ (@ops_dual R NumR) a b)).
    { intros a b Wa Wb. apply (dadd_spec false a b Wa Wb). discriminate. }
    assert (h_zero : hv (@ozero _ (@ops_dual R NumR)) = @ozero _ (@ops_num R NumR)) by reflexivity.
    assert (h_sum0 : hv (@osum0 _ (@ops_dual R NumR)) = @osum0 _ (@ops_num R NumR)).
    { unfold hv. cbn [osum0 ops_dual ops_num]. unfold dzero. rewrite coef_const. cbn. ring. }
    assert (h_sub : forall a b, wf a -> wf b ->
              hv (@osub _ (@ops_dual R NumR) a b) = @osub _ (@ops_num R NumR) (hv a) (hv b)).
    { intros a b Wa Wb. destruct (dsub_spec false a b Wa Wb ltac:(discriminate)) as (_ & _ & C & _). apply C. }
    assert (h_add : forall a b, wf a -> wf b ->
              hv (@oadd _ (@ops_dual R NumR) a b) = @oadd _ (@ops_num R NumR) (hv a) (hv b)).
    { intros a b Wa Wb. destruct (dadd_spec false a b Wa Wb ltac:(discriminate)) as (_ & _ & C & _). apply C. }
    assert (h_mul : forall f a, wf a -> hv (xmul_dual f a) = xmul_num f (hv a)).
    { intros f a _. apply coef_xmul_dual. }
    destruct (csolve_hom xmul_dual xmul_num hv wf g_zero g_zero g_sub g_add (fun f a => wf_xmul_dual f a)
                h_zero h_sum0 h_sub h_add h_mul s s' tau y l r lsq G HS) as [H1 G1].
    split; [exact H1|].
    intros x m d HD.
    exact (ppdnev_single_hom xmul_dual xmul_num hv wf g_zero g_add (fun f a => wf_xmul_dual f a)
             h_sum0 h_add h_mul s' x m d G1 HD).
  Qed.

  (* ... and through "real part": the spline solved on the real parts of the data *)
  Lemma data_sens_re (s s' : @ppspline R (dual R)) tau y l r lsq : Forall wf y ->
    csolve xmul_dual s tau y l r lsq = Ok s' ->
    csolve xmul_num (pp_map (@re R) s) tau (map (@re R) y) l r lsq = Ok (pp_map (@re R) s') /\
    forall x m d, ppdnev_single xmul_dual s' x m = Ok d ->
                  ppdnev_single xmul_num (pp_map (@re R) s') x m = Ok (re d).
  Proof.
    intros G HS.
    assert (g_zero : wf (@ozero _ (@ops_dual R NumR))) by apply wf_dual_new.
    assert (g_sub : forall a b, wf a -> wf b -> wf (@osub _ (@ops_dual R NumR) a b)).
    { intros a b Wa Wb. apply (dsub_spec false a b Wa Wb). discriminate. }
    assert (g_add : forall a b, wf a -> wf b -> wf (@oadd _ (@ops_dual R NumR) a b)).
    { intros a b Wa Wb. apply (dadd_spec false a b Wa Wb). discriminate. }
    assert (h_zero : @re R (@ozero _ (@ops_dual R NumR)) = @ozero _ (@ops_num R NumR)) by reflexivity.
    assert (h_sum0 : @re R (@osum0 _ (@ops_dual R NumR)) = @osum0 _ (@ops_num R NumR)).
    { cbn. ring. }
    assert (h_sub : forall a b, wf a -> wf b ->
              re (@osub _ (@ops_dual R NumR) a b) = @osub _ (@ops_num R NumR) (re a) (re b)).
    { intros a b Wa Wb. destruct (dsub_spec false a b Wa Wb ltac:(discriminate)) as (_ & C & _). apply C. }
    assert (h_add : forall a b, wf a -> wf b ->
              re (@oadd _ (@ops_dual R NumR) a b) = @oadd _ (@ops_num R NumR) (re a) (re b)).
    { intros a b Wa Wb. destruct (dadd_spec false a b Wa Wb ltac:(discriminate)) as (_ & C & _). apply C. }
    assert (h_mul : forall f a, wf a -> re (xmul_dual f a) = xmul_num f (re a)).
    { intros f a _. apply re_xmul_dual. }
    destruct (csolve_hom xmul_dual xmul_num (@re R) wf g_zero g_zero g_sub g_add (fun f a => wf_xmul_dual f a)
                h_zero h_sum0 h_sub h_add h_mul s s' tau y l r lsq G HS) as [H1 G1].
    split; [exact H1|].
    intros x m d HD.
    exact (ppdnev_single_hom xmul_dual xmul_num (@re R) wf g_zero g_add (fun f a => wf_xmul_dual f a)
             h_sum0 h_add h_mul s' x m d G1 HD).
  Qed.
End DataDual.

(* data carrying one own variable each: the coefficient vector of name_i is the i-th unit vector *)
Definition own_vars (vals : list R) (names : list name) : list (dual R) :=
  map (fun p => dual_new (fst p) [snd p]) (combine vals names).
Definition unit_vec (n i : nat) : list R := map (fun j => if Nat.eqb j i then 1 else 0) (seq 0 n).

Lemma nth_map_lt {A B} (f : A -> B) l d d' j : (j < length l)%nat -> nth j (map f l) d' = f (nth j l d).
Proof. intros Hj. rewrite nth_indep with (d' := f d) by (rewrite map_length; auto). apply map_nth. Qed.

Lemma own_vars_wf vals names : Forall wf (own_vars vals names).
Proof. unfold own_vars. apply Forall_forall. intros d I. apply in_map_iff in I. destruct I as (p & <- & _). apply wf_dual_new. Qed.

Lemma own_vars_unit names : NoDup names -> forall vals i, length vals = length names ->
  (i < length names)%nat ->
  map (fun d => coef d (nth i names [])) (own_vars vals names) = unit_vec (length names) i.
Proof.
  intros ND vals i L Hi. unfold own_vars, unit_vec.
  apply nth_ext with (d := 0) (d' := 0).
  - rewrite !map_length, combine_length, seq_length, L, Nat.min_id. reflexivity.
  - intros j Hj. rewrite !map_length, combine_length, L, Nat.min_id in Hj.
    pose proof Hj as Hj'.
    rewrite map_map.
    rewrite (nth_map_lt _ _ (0, ([] : name)) 0) by (rewrite combine_length, L, Nat.min_id; exact Hj).
    rewrite combine_nth by auto. cbn [fst snd].
    rewrite coef_var.
    rewrite (nth_map_lt _ _ 0%nat 0) by (rewrite seq_length; exact Hj).
    rewrite seq_nth by auto. cbn [plus].
    destruct (Nat.eqb_spec j i) as [->|NE].
    + rewrite name_eqb_refl. reflexivity.
    + destruct (name_eqb _ _) eqn:EQ; [|reflexivity].
      apply name_eqb_eq in EQ. exfalso. apply NE.
      symmetry. apply (proj1 (NoDup_nth names []) ND i j Hi Hj' EQ).
Qed.

(* ------------------------------------------------------------------ linearity in the data: Dual2 data *)
Section DataDual2.
  (* any real-valued observation h of a Dual2 that is additive, commutes with scaling by a float
     and vanishes at zero - on well-formed numbers *)
  Variable h2 : dual2 R -> R.
  Hypothesis h2_zero : h2 (@d2zero R NumR) = 0.
  Hypothesis h2_sub : forall a b, wf2 a -> wf2 b -> h2 (d2sub false a b) = h2 a - h2 b.
  Hypothesis h2_add : forall a b, wf2 a -> wf2 b -> h2 (d2add false a b) = h2 a + h2 b.
  Hypothesis h2_mul : forall f a, wf2 a -> h2 (xmul_dual2 f a) = f * h2 a.

  Lemma data_sens_dual2 (s s' : @ppspline R (dual2 R)) tau y l r lsq : Forall wf2 y ->
    csolve xmul_dual2 s tau y l r lsq = Ok s' ->
    csolve xmul_num (pp_map h2 s) tau (map h2 y) l r lsq = Ok (pp_map h2 s') /\
    forall x m d, ppdnev_single xmul_dual2 s' x m = Ok d ->
                  ppdnev_single xmul_num (pp_map h2 s') x m = Ok (h2 d).
  Proof.
    intros G HS.
    assert (g_zero : wf2 (@ozero _ (@ops_dual2 R NumR))) by apply wf2_d2zero.
    assert (g_sub : forall a b, wf2 a -> wf2 b -> wf2 (@osub _ (@ops_dual2 R NumR) a b)).
    { intros a b Wa Wb. apply (d2sub_spec false a b Wa Wb). discriminate. }
    assert (g_add : forall a b, wf2 a -> wf2 b -> wf2 (@oadd _ (@ops_dual2 R NumR) a b)).
    { intros a b Wa Wb. apply (d2add_spec false a b Wa Wb). discriminate. }
    assert (g_mul : forall (f : R) a, wf2 a -> wf2 (xmul_dual2 f a)).
    { intros f a Wa. apply (wf2_xmul f a Wa). }
    assert (h_zero : h2 (@ozero _ (@ops_dual2 R NumR)) = @ozero _ (@ops_num R NumR)) by exact h2_zero.
    assert (h_sum0 : h2 (@osum0 _ (@ops_dual2 R NumR)) = @osum0 _ (@ops_num R NumR)).
    { cbn [osum0 ops_dual2 ops_num]. rewrite h2_zero. cbn. ring. }
    assert (h_mul : forall (f : R) a, wf2 a -> h2 (xmul_dual2 f a) = xmul_num f (h2 a)).
    { intros f a Wa. rewrite h2_mul by auto. reflexivity. }
    destruct (csolve_hom xmul_dual2 xmul_num h2 wf2 g_zero g_zero g_sub g_add g_mul
                h_zero h_sum0 h2_sub h2_add h_mul s s' tau y l r lsq G HS) as [H1 G1].
    split; [exact H1|].
    intros x m d HD.
    exact (ppdnev_single_hom xmul_dual2 xmul_num h2 wf2 g_zero g_add g_mul
             h_sum0 h2_add h_mul s' x m d G1 HD).
  Qed.
End DataDual2.

(* the three observations: value, first-order coefficient of v, stored second-order coefficient of (u, v) *)
Lemma data_sens2_re (s s' : @ppspline R (dual2 R)) tau y l r lsq : Forall wf2 y ->
  csolve xmul_dual2 s tau y l r lsq = Ok s' ->
  csolve xmul_num (pp_map (@re2 R) s) tau (map (@re2 R) y) l r lsq = Ok (pp_map (@re2 R) s') /\
  forall x m d, ppdnev_single xmul_dual2 s' x m = Ok d ->
                ppdnev_single xmul_num (pp_map (@re2 R) s') x m = Ok (re2 d).
Proof.
  apply data_sens_dual2.
  - reflexivity.
  - intros a b Wa Wb. destruct (d2sub_spec false a b Wa Wb ltac:(discriminate)) as (_ & C & _). exact C.
  - intros a b Wa Wb. destruct (d2add_spec false a b Wa Wb ltac:(discriminate)) as (_ & C & _). exact C.
  - intros f a Wa. destruct (wf2_xmul f a Wa) as (_ & C & _). exact C.
Qed.
Lemma data_sens2_coef1 v (s s' : @ppspline R (dual2 R)) tau y l r lsq : Forall wf2 y ->
  csolve xmul_dual2 s tau y l r lsq = Ok s' ->
  csolve xmul_num (pp_map (fun d => coef1 d v) s) tau (map (fun d => coef1 d v) y) l r lsq
    = Ok (pp_map (fun d => coef1 d v) s') /\
  forall x m d, ppdnev_single xmul_dual2 s' x m = Ok d ->
                ppdnev_single xmul_num (pp_map (fun d => coef1 d v) s') x m = Ok (coef1 d v).
Proof.
  apply (data_sens_dual2 (fun d => coef1 d v)).
  - reflexivity.
  - intros a b Wa Wb. destruct (d2sub_spec false a b Wa Wb ltac:(discriminate)) as (_ & _ & C & _). apply C.
  - intros a b Wa Wb. destruct (d2add_spec false a b Wa Wb ltac:(discriminate)) as (_ & _ & C & _). apply C.
  - intros f a Wa. destruct (wf2_xmul f a Wa) as (_ & _ & C & _). apply C.
Qed.
Lemma data_sens2_coef2 u v (s s' : @ppspline R (dual2 R)) tau y l r lsq : Forall wf2 y ->
  csolve xmul_dual2 s tau y l r lsq = Ok s' ->
  csolve xmul_num (pp_map (fun d => coef2 d u v) s) tau (map (fun d => coef2 d u v) y) l r lsq
    = Ok (pp_map (fun d => coef2 d u v) s') /\
  forall x m d, ppdnev_single xmul_dual2 s' x m = Ok d ->
                ppdnev_single xmul_num (pp_map (fun d => coef2 d u v) s') x m = Ok (coef2 d u v).
Proof.
  apply (data_sens_dual2 (fun d => coef2 d u v)).
  - unfold coef2, d2zero, dual2_new. cbn. reflexivity.
  - intros a b Wa Wb. destruct (d2sub_spec false a b Wa Wb ltac:(discriminate)) as (_ & _ & _ & C & _). apply C.
  - intros a b Wa Wb. destruct (d2add_spec false a b Wa Wb ltac:(discriminate)) as (_ & _ & _ & C & _). apply C.
  - intros f a Wa. destruct (wf2_xmul f a Wa) as (_ & _ & _ & C). apply C.
Qed.

(* ------------------------------------------------------------------ value of ONE basis function at a
   dual abscissa (bsplev_single_dual / bsplev_single_dual2): with org_k = None it is the m = 0 case of
   the derivative evaluation, hence value B_i(re X), slope B_i'(re X) * dX, and at second order
   B_i' * X_uv + 1/2 B_i'' * X_u X_v *)
Lemma bsplev_dual_is_dn (X : dual R) i k t : bsplev_dual X i k t None = bspldnev_dual X i k t 0 None.
Proof. reflexivity. Qed.
Lemma bsplev_dual2_is_dn (X : dual2 R) i k t : bsplev_dual2 X i k t None = bspldnev_dual2 X i k t 0 None.
Proof. reflexivity. Qed.
Lemma bsplev_dual_spec (X : dual R) : wf X -> forall i k t D,
  bsplev_dual X i k t None = Ok D ->
  exists b db, bsplev (re X) i k t None = Ok b /\ bspldnev (re X) i k t 1 None = Ok db /\
               wf D /\ vs D = vs X /\ re D = b /\ forall v, coef D v = db * coef X v.
Proof.
  intros WX i k t D E. destruct (bspldnev_dual_spec X WX i k t 0 D E) as (b & db & A & B & W & R & C).
  exists b, db. repeat split; auto; try apply W.
  revert E. unfold bsplev_dual, dual_clone_from.
  destruct (bsplev (re X) i k t None); cbn [obind]; try discriminate.
  destruct (bspldnev (re X) i k t 1 None); cbn [obind]; try discriminate.
  destruct (Nat.eqb _ _); [|discriminate]. intros [= <-]. reflexivity.
Qed.
Lemma bsplev_dual2_spec (X : dual2 R) : wf2 X -> forall i k t D,
  bsplev_dual2 X i k t None = Ok D ->
  exists b db d2b, bsplev (re2 X) i k t None = Ok b /\ bspldnev (re2 X) i k t 1 None = Ok db /\
                   bspldnev (re2 X) i k t 2 None = Ok d2b /\
                   wf2 D /\ vs2 D = vs2 X /\ re2 D = b /\ (forall v, coef1 D v = db * coef1 X v) /\
                   forall u v, coef2 D u v = db * coef2 X u v + (/ 2 * d2b) * (coef1 X u * coef1 X v).
Proof.
  intros WX i k t D E. destruct (bspldnev_dual2_spec X WX i k t 0 D E) as (b & db & d2b & A & B & B2 & W & R & C1 & C2).
  exists b, db, d2b. repeat split; auto; try apply W.
  revert E. unfold bsplev_dual2, dual2_clone_from.
  destruct (bsplev (re2 X) i k t None); cbn [obind]; try discriminate.
  destruct (bspldnev (re2 X) i k t 1 None); cbn [obind]; try discriminate.
  destruct (bspldnev (re2 X) i k t 2 None); cbn [obind]; try discriminate.
  match goal with |- (if ?c then _ else _) = _ -> _ => destruct c; try discriminate end.
  intros [= <-]. reflexivity.
Qed.

(* the vector form PPSpline::bspldnev: entry j is the m-th derivative of basis function i at x_j *)
Lemma pp_bspldnev_spec {T : Type} {H : Num T} {E : Type} (s : @ppspline T E) xs i m ys :
  pp_bspldnev s xs i m = Ok ys ->
  length ys = length xs /\
  forall j x, nth_error xs j = Some x -> exists y, nth_error ys j = Some y /\ bspldnev x i (pk s) (pt s) m None = Ok y.
Proof.
  intros HM. split; [apply (omapM_length _ _ _ HM)|]. intros j x Hx. apply (omapM_nth _ _ _ _ _ HM Hx).
Qed.

(* PartialEq for PPSpline: equal order, knot count, knots, and coefficients (both absent, or both present
   and pairwise equal under the coefficient type's own ==); over R with an == that decides equality this
   is equality of the four fields *)
Lemma vec_eqb_gen_spec {A} (e : A -> A -> bool) : (forall x y, e x y = true <-> x = y) ->
  forall a b, vec_eqb_gen e a b = true <-> a = b.
Proof.
  intros He. induction a as [|x a IH]; intros [|y b]; cbn; split; intros Q; try congruence; try reflexivity.
  - apply andb_true_iff in Q. destruct Q as [Q1 Q2]. apply He in Q1. apply IH in Q2. congruence.
  - inversion Q; subst. apply andb_true_iff. split; [apply He; reflexivity|apply IH; reflexivity].
Qed.
Lemma Reqb_spec x y : Reqb x y = true <-> x = y.
Proof. unfold Reqb. destruct (Req_EM_T x y); split; intros; auto; discriminate. Qed.
Lemma pp_eqb_spec {E} (e : E -> E -> bool) : (forall x y, e x y = true <-> x = y) ->
  forall a b : @ppspline R E, pp_eqb e a b = true <-> (pk a = pk b /\ pn a = pn b /\ pt a = pt b /\ pc a = pc b).
Proof.
  intros He a b. unfold pp_eqb.
  destruct (Nat.eqb_spec (pk a) (pk b)) as [K|K]; cbn [negb orb]; [|split; [discriminate|intros (A & _); contradiction]].
  destruct (Nat.eqb_spec (pn a) (pn b)) as [N|N]; cbn [negb]; [|split; [discriminate|intros (_ & A & _); contradiction]].
  pose proof (vec_eqb_gen_spec (A:=R) neqb Reqb_spec (pt a) (pt b)) as HT.
  destruct (vec_eqb_gen neqb (pt a) (pt b)); cbn [negb].
  - assert (Tq : pt a = pt b) by (apply HT; reflexivity).
    destruct (pc a) as [x|], (pc b) as [y|]; split; intros Q; try discriminate; repeat split; auto.
    + f_equal. apply (vec_eqb_gen_spec e He). exact Q.
    + destruct Q as (_ & _ & _ & Q). inversion Q. apply (vec_eqb_gen_spec e He). reflexivity.
    + destruct Q as (_ & _ & _ & Q). discriminate.
    + destruct Q as (_ & _ & _ & Q). discriminate.
  - split; [discriminate|]. intros (_ & _ & A & _). apply HT in A. discriminate.
Qed.
