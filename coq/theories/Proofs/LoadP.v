(* C20, loading: the loader of Model/Json.v (from_json on trees)
     - never aborts in the data-model decoding itself, whatever the tree;
     - the two load-time reconstructions (serde(try_from), fix bca0987) return their error, so the
       loader never aborts on a document describing at most 181 currencies (the i16 edge counter of
       FXRates::try_new, see C09);
     - every loaded value has its full shape (the validating data models of fix e8eeeaf).
   Axiom-free. *)
From Coq Require Import ZArith Lia List Bool Arith String.
From RL Require Import Base.Num Base.Str Base.Outcome Model.Dates Model.Calendar Model.Named
  Model.Dual Model.Number Model.FX Model.Json Model.Entry Proofs.DatesP Proofs.CalendarP Proofs.NamedP Proofs.EntryP Proofs.JsonP
  Proofs.FXMat Proofs.FXP.
Import ListNotations.
Open Scope Z_scope.

Lemma bind_np {A B} (o : outcome A) (f : A -> outcome B) :
  o <> Panic -> (forall a, o = Ok a -> f a <> Panic) -> obind o f <> Panic.
Proof. destruct o; cbn [obind]; intros; auto; discriminate. Qed.
Lemma omap_np {A B} (g : A -> B) (o : outcome A) : o <> Panic -> omap g o <> Panic.
Proof. destruct o; cbn [omap]; intros; auto; discriminate. Qed.
Lemma bind_ok {A B} (o : outcome A) (f : A -> outcome B) b :
  obind o f = Ok b -> exists a, o = Ok a /\ f a = Ok b.
Proof. destruct o; cbn [obind]; intros; try discriminate. eauto. Qed.
Lemma bind_panic {A B} (o : outcome A) (f : A -> outcome B) :
  obind o f = Panic -> o = Panic \/ exists a, o = Ok a /\ f a = Panic.
Proof. destruct o; cbn [obind]; intros; try discriminate; eauto. Qed.
Lemma omap_ok {A B} (g : A -> B) (o : outcome A) b : omap g o = Ok b -> exists a, o = Ok a /\ b = g a.
Proof. destruct o; cbn [omap]; intros E; try discriminate. injection E as <-. eauto. Qed.
Lemma omap_panic {A B} (g : A -> B) (o : outcome A) : omap g o = Panic -> o = Panic.
Proof. destruct o; cbn [omap]; intros; auto; discriminate. Qed.

Section Load.
Context {T : Type} `{Num T}.
Notation json := (json T).

Definition np {A} (d : json -> outcome A) : Prop := forall j, d j <> Panic.

(* ------------------------------------------------------------------ children and sites *)
Definition children (j : json) : list json :=
  match j with JArr l => l | JObj kvs => map snd kvs | _ => [] end.
Definition is_key (k : name) (x : key) : bool := match x with KStr s => name_eqb s k | KInt _ => false end.
Fixpoint named_sites (j : json) : list json :=
  match j with
  | JArr l => flat_map named_sites l
  | JObj kvs => flat_map (fun kv => match kv with (k, v) =>
                    (if is_key k_NamedCal k then [v] else []) ++ named_sites v end) kvs
  | _ => []
  end.
Lemma sites_child j v : In v (children j) -> incl (named_sites v) (named_sites j).
Proof.
  destruct j; cbn [children]; try (intros []).
  - intros Hv x Hx. cbn [named_sites]. apply in_flat_map. eauto.
  - intros Hv x Hx. cbn [named_sites]. apply in_map_iff in Hv. destruct Hv as [[k w] [E Hkv]]. cbn [snd] in E. subst w.
    apply in_flat_map. exists (k, v). split; auto. apply in_or_app. right; auto.
Qed.

(* ------------------------------------------------------------------ struct combinators *)
Lemma chk_np {A} (d : json -> outcome A) : np d -> np (chk d).
Proof. intros Hd j. unfold chk. apply omap_np. apply Hd. Qed.
Lemma no_chk_np : np no_chk.
Proof. intros j. discriminate. Qed.
Lemma nth_np (chks : list (json -> outcome unit)) i : Forall np chks -> np (nth i chks no_chk).
Proof.
  intros F. revert i. induction F as [|c chks Hc F IH]; intros [|i]; cbn [nth]; auto using no_chk_np.
Qed.

Lemma lookup_child f (kvs : list (key * json)) v : lookup f kvs = Some v -> In v (map snd kvs).
Proof.
  induction kvs as [|[[s|z] w] kvs IH]; cbn [lookup map snd]; [discriminate| |].
  - destruct (name_eqb f s); [intros [= ->]; left; auto | intros E; right; auto].
  - intros E. right; auto.
Qed.
(* a panic while scanning = a panic of some field check on some child *)
Lemma scan_chk_panic fields chks : forall kvs seen,
  scan_chk fields chks seen kvs = Panic ->
  exists i v, In v (map snd kvs) /\ nth i chks (@no_chk T) v = Panic.
Proof.
  induction kvs as [|[k v] kvs IH]; intros seen E; cbn [scan_chk] in E; [discriminate|].
  destruct (field_index k fields) as [i|].
  - destruct (existsb (Nat.eqb i) seen); [discriminate|].
    apply bind_panic in E. destruct E as [E|[a [_ E]]].
    + exists i, v. split; auto. left; auto.
    + destruct (IH _ E) as [i' [v' [I P]]]. exists i', v'. split; auto. right; auto.
  - destruct (IH _ E) as [i' [v' [I P]]]. exists i', v'. split; auto. right; auto.
Qed.
Lemma seq_chk_panic : forall (chks : list (json -> outcome unit)) l,
  seq_chk chks l = Panic -> exists i v, In v l /\ nth i chks no_chk v = Panic.
Proof.
  induction chks as [|c chks IH]; intros [|x l] E; cbn [seq_chk] in E; try discriminate.
  apply bind_panic in E. destruct E as [E|[a [_ E]]].
  - exists O, x. split; auto. left; auto.
  - destruct (IH _ E) as [i [v [I P]]]. exists (S i), v. split; auto. right; auto.
Qed.
Lemma fields_of_panic fields chks j :
  fields_of fields chks j = Panic -> exists i v, In v (children j) /\ nth i chks no_chk v = Panic.
Proof.
  unfold fields_of. destruct j; try discriminate; intros E; apply bind_panic in E;
    destruct E as [E|[a [_ E]]]; try discriminate.
  - apply seq_chk_panic; auto.
  - eapply scan_chk_panic; eauto.
Qed.
Lemma fields_of_np fields chks : Forall np chks -> np (fields_of fields chks).
Proof.
  intros F j E. destruct (fields_of_panic _ _ _ E) as [i [v [_ P]]]. exact (nth_np chks i F v P).
Qed.
Lemma fields_of_children fields chks j sl i v :
  fields_of fields chks j = Ok sl -> slot sl i = Some v -> In v (children j).
Proof.
  unfold fields_of, slot. destruct j; try discriminate; intros E S; apply bind_ok in E; destruct E as [u [_ E]];
    injection E as <-; cbn [children].
  - revert i S. induction l as [|x l IH]; intros [|i] S; cbn [map nth] in S; try discriminate.
    + injection S as ->. left; auto.
    + right. eauto.
  - revert i S. induction fields as [|f fields IH]; intros [|i] S; cbn [map nth] in S; try discriminate.
    + eapply lookup_child; eauto.
    + eauto.
Qed.
Lemma req_np {A} (d : json -> outcome A) o : np d -> req d o <> Panic.
Proof. intros Hd. destruct o; cbn [req]; [apply Hd | discriminate]. Qed.
Lemma dec_opt_np {A} (d : json -> outcome A) : np d -> np (dec_opt d).
Proof. intros Hd j. unfold dec_opt. destruct j; try discriminate; apply omap_np; apply Hd. Qed.
Lemma optf_np {A} (d : json -> outcome A) o : np d -> optf d o <> Panic.
Proof. intros Hd. destruct o; cbn [optf]; [apply dec_opt_np; auto | discriminate]. Qed.
Lemma dec_seq_np {A} (d : json -> outcome A) : np d -> np (dec_seq d).
Proof. intros Hd j. unfold dec_seq. destruct j; try discriminate. apply omapM_no_panic'. intros; apply Hd. Qed.
Lemma dec_tagged_np {A} (variants : list (name * (json -> outcome A))) :
  Forall (fun kv => np (snd kv)) variants -> np (dec_tagged variants).
Proof.
  intros F j. unfold dec_tagged. destruct j as [| | | | | |l|[|[[k|z] v] rest]]; try discriminate.
  destruct (find _ variants) as [[k' d]|] eqn:E; [|discriminate].
  apply find_some in E. destruct E as [I _]. rewrite Forall_forall in F. specialize (F _ I). cbn [snd] in F.
  apply bind_np; [apply F|]. intros. destruct rest; discriminate.
Qed.

(* ------------------------------------------------------------------ the pure decoders never abort *)
Lemma dec_f64_np : np (@dec_f64 T _).
Proof. intros j. destruct j; discriminate. Qed.
Lemma dec_uint_np m : np (@dec_uint T m).
Proof. intros j. unfold dec_uint. destruct j; try discriminate. destruct (_ && _); discriminate. Qed.
Lemma dec_str_np : np (@dec_str T).
Proof. intros j. destruct j; discriminate. Qed.
Lemma dec_date_np : np (@dec_date T).
Proof. intros j. destruct j; discriminate. Qed.
Lemma nd_scan_np {A} rank (d : json -> outcome A) : np d -> forall kvs v dim data, nd_scan rank d kvs v dim data <> Panic.
Proof.
  intros Hd. induction kvs as [|[[k|z] x] kvs IH]; intros v dim data; cbn [nd_scan]; try discriminate.
  - destruct (negb v); [discriminate|]. destruct data, dim; discriminate.
  - destruct (name_eqb k k_v).
    + apply bind_np; [apply dec_uint_np|]. intros ver _. destruct (ver =? 1); [apply IH | discriminate].
    + destruct (name_eqb k k_data).
      * apply bind_np; [apply dec_seq_np; auto|]. intros; apply IH.
      * destruct (name_eqb k k_dim); [|discriminate].
        apply bind_np; [apply dec_seq_np; apply dec_uint_np|]. intros di _.
        destruct (Nat.eqb (List.length di) rank); [apply IH | discriminate].
Qed.
Lemma nd_raw_np {A} rank (d : json -> outcome A) : np d -> np (nd_raw rank d).
Proof.
  intros Hd j. unfold nd_raw. destruct j as [| | | | | |l|kvs]; try discriminate.
  - destruct l as [|jv [|jdim [|jdata [|? ?]]]]; try discriminate;
      try (apply bind_np; [apply dec_uint_np | intros; discriminate]).
    apply bind_np; [apply dec_uint_np|]. intros ver _. destruct (negb (ver =? 1)); [discriminate|].
    apply bind_np; [apply dec_seq_np; apply dec_uint_np|]. intros di _.
    destruct (negb (Nat.eqb (List.length di) rank)); [discriminate|].
    apply bind_np; [apply dec_seq_np; auto|]. intros. discriminate.
  - apply nd_scan_np; auto.
Qed.
Lemma dec_arr1_np {A} (d : json -> outcome A) : np d -> np (dec_arr1 d).
Proof.
  intros Hd j. unfold dec_arr1. apply bind_np; [apply nd_raw_np; auto|]. intros [di da] _. cbn [fst snd].
  destruct di as [|n [|? ?]]; try discriminate. destruct (_ =? _); discriminate.
Qed.
Lemma dec_arr2_np : np (@dec_arr2 T _).
Proof.
  intros j. unfold dec_arr2. apply bind_np; [apply nd_raw_np; apply dec_f64_np|]. intros [di da] _. cbn [fst snd].
  destruct di as [|n [|m [|? ?]]]; try discriminate. destruct (_ =? _); discriminate.
Qed.
Lemma dec_vars_np : np (@dec_vars T).
Proof. intros j. unfold dec_vars. apply omap_np. apply dec_seq_np. apply dec_str_np. Qed.

Ltac np_struct :=
  apply bind_np; [apply fields_of_np; repeat constructor; try apply chk_np; auto |];
  intros; repeat (apply bind_np; [first [apply req_np | apply optf_np]; auto | intros]); try discriminate;
  try (cbv zeta; match goal with |- (if ?c then _ else _) <> Panic => destruct c; discriminate end).

Lemma dec_dual_np : np (@dec_dual T _).
Proof.
  intros j. unfold dec_dual.
  assert (np (dec_arr1 (@dec_f64 T _))) by (apply dec_arr1_np, dec_f64_np).
  pose proof dec_f64_np. pose proof dec_vars_np. np_struct.
Qed.
Lemma dec_dual2_np : np (@dec_dual2 T _).
Proof.
  intros j. unfold dec_dual2.
  assert (np (dec_arr1 (@dec_f64 T _))) by (apply dec_arr1_np, dec_f64_np).
  pose proof dec_f64_np. pose proof dec_vars_np. pose proof dec_arr2_np. np_struct.
Qed.
Lemma dec_number_np : np (@dec_number T _).
Proof.
  apply dec_tagged_np. repeat constructor; cbn [snd]; intros j; apply omap_np;
    [apply dec_dual_np | apply dec_dual2_np | apply dec_f64_np].
Qed.
Lemma dec_weekday_np : np (@dec_weekday T).
Proof. intros j. unfold dec_weekday. destruct j; try discriminate. destruct (wd_parse s); discriminate. Qed.
Lemma dec_hols_np : np (@dec_hols T).
Proof. intros j. unfold dec_hols. apply omap_np, dec_seq_np, dec_date_np. Qed.
Lemma dec_mask_np : np (@dec_mask T).
Proof. intros j. unfold dec_mask. apply omap_np, dec_seq_np, dec_weekday_np. Qed.
Lemma dec_cal_np : np (@dec_cal T).
Proof. intros j. unfold dec_cal. pose proof dec_hols_np. pose proof dec_mask_np. np_struct. Qed.
Lemma dec_ucal_np : np (@dec_ucal T).
Proof.
  intros j. unfold dec_ucal.
  assert (np (dec_seq (@dec_cal T))) by (apply dec_seq_np, dec_cal_np).
  assert (np (dec_opt (dec_seq (@dec_cal T)))) by (apply dec_opt_np; auto).
  np_struct.
Qed.
Lemma dec_named_model_np : np (@dec_named_model T).
Proof.
  intros j. unfold dec_named_model. pose proof dec_str_np.
  apply bind_np; [apply fields_of_np; repeat constructor; apply chk_np; auto|]. intros. apply req_np; auto.
Qed.
Lemma dec_imap_go_np {V} (d : json -> outcome V) : np d -> forall kvs acc, dec_imap_go d kvs acc <> Panic.
Proof.
  intros Hd. induction kvs as [|[[s|z] v] kvs IH]; intros acc; cbn [dec_imap_go]; try discriminate.
  destruct (_ && _); [|discriminate]. apply bind_np; [apply Hd|]. intros; apply IH.
Qed.
Lemma dec_imap_np {V} (d : json -> outcome V) : np d -> np (dec_imap d).
Proof. intros Hd j. unfold dec_imap. destruct j; try discriminate. apply dec_imap_go_np; auto. Qed.
Lemma dec_nodes_np : np (@dec_nodes T _).
Proof.
  apply dec_tagged_np. repeat constructor; cbn [snd]; intros j; apply omap_np; apply dec_imap_np;
    [apply dec_f64_np | apply dec_dual_np | apply dec_dual2_np].
Qed.
Lemma dec_rule_np : np (@dec_rule T).
Proof.
  apply dec_tagged_np. cbn [map seq]. repeat constructor; cbn [snd]; intros j; apply omap_np;
    unfold dec_empty_struct; destruct j as [| | | | | |[|? ?]|]; discriminate.
Qed.
Lemma dec_unit_enum_np names : np (@dec_unit_enum T names).
Proof.
  intros j. unfold dec_unit_enum. destruct j as [| | | | | |l|[|[[k|z] v] rest]]; try discriminate.
  - destruct (index_of s names); discriminate.
  - destruct (index_of k names); [|discriminate]. destruct v; try discriminate. destruct rest; discriminate.
Qed.
Lemma dec_ccy_np : np (@dec_ccy T).
Proof.
  intros j. unfold dec_ccy. pose proof dec_str_np.
  apply bind_np; [apply fields_of_np; repeat constructor; apply chk_np; auto|]. intros. apply req_np; auto.
Qed.
Lemma dec_pair_np : np (@dec_pair T).
Proof.
  intros j. unfold dec_pair. destruct j as [| | | | | |[|a r]|]; try discriminate.
  apply bind_np; [apply dec_ccy_np|]. intros. destruct r as [|b r2]; [discriminate|].
  apply bind_np; [apply dec_ccy_np|]. intros. destruct r2; discriminate.
Qed.
Lemma dec_fxrate_np : np (@dec_fxrate T _).
Proof.
  intros j. unfold dec_fxrate. pose proof dec_pair_np. pose proof dec_number_np.
  assert (np (dec_opt (@dec_date T))) by (apply dec_opt_np, dec_date_np). pose proof dec_date_np.
  np_struct.
Qed.
Lemma dec_fxdata_np : np (@dec_fxdata T _).
Proof.
  intros j. unfold dec_fxdata.
  assert (np (dec_seq (@dec_fxrate T _))) by (apply dec_seq_np, dec_fxrate_np).
  assert (np (@dec_ccys T)) by (intros x; unfold dec_ccys; apply omap_np, dec_seq_np, dec_ccy_np).
  np_struct.
Qed.
Lemma dec_pp_np {X} (d : json -> outcome X) : np d -> np (dec_pp d).
Proof.
  intros Hd j. unfold dec_pp.
  assert (np (@dec_usize T)) by apply dec_uint_np.
  assert (np (dec_seq (@dec_f64 T _))) by (apply dec_seq_np, dec_f64_np).
  assert (np (dec_arr1 d)) by (apply dec_arr1_np; auto).
  assert (np (dec_opt (dec_arr1 d))) by (apply dec_opt_np; auto).
  np_struct.
Qed.
Lemma dec_spline_np {X} (d : json -> outcome X) : np d -> np (dec_spline d).
Proof.
  intros Hd j. unfold dec_spline. pose proof (dec_pp_np d Hd).
  apply bind_np; [apply fields_of_np; repeat constructor; apply chk_np; auto|]. intros. apply req_np; auto.
Qed.

(* ------------------------------------------------------------------ with total reconstructions the
   whole loader is total: this is what a `serde(try_from)` variant of the two data models gives *)
Section Total.
  Variable rn : name -> outcome namedcal.
  Variable rf : jfxdata T -> outcome (jfx T).
  Hypothesis Hrn : forall s, rn s <> Panic.
  Hypothesis Hrf : forall d, rf d <> Panic.

  Lemma dec_named_np : np (dec_named (T:=T) rn).
  Proof. intros j. unfold dec_named. apply bind_np; [apply dec_named_model_np | intros; apply Hrn]. Qed.
  Lemma dec_caltype_np : np (dec_caltype (T:=T) rn).
  Proof.
    apply dec_tagged_np. repeat constructor; cbn [snd]; intros j; apply omap_np;
      [apply dec_cal_np | apply dec_ucal_np | apply dec_named_np].
  Qed.
  Lemma dec_curvedf_np : np (dec_curvedf rn).
  Proof.
    intros j. unfold dec_curvedf.
    pose proof dec_nodes_np. pose proof dec_rule_np. pose proof dec_str_np.
    pose proof (dec_unit_enum_np conv_names). pose proof (dec_unit_enum_np mod_names).
    assert (np (dec_opt (@dec_f64 T _))) by (apply dec_opt_np, dec_f64_np). pose proof dec_f64_np.
    pose proof dec_caltype_np. np_struct.
  Qed.
  Lemma dec_curve_np : np (dec_curve rn).
  Proof.
    intros j. unfold dec_curve. pose proof dec_curvedf_np.
    apply bind_np; [apply fields_of_np; repeat constructor; apply chk_np; auto|]. intros. apply req_np; auto.
  Qed.
  Lemma dec_fx_np : np (dec_fx rf).
  Proof. intros j. unfold dec_fx. apply bind_np; [apply dec_fxdata_np | intros; apply Hrf]. Qed.
  Theorem dec_obj_total : np (dec_obj rn rf).
  Proof.
    apply dec_tagged_np. unfold obj_variants. repeat constructor; cbn [snd]; intros j; apply omap_np.
    - apply dec_dual_np. - apply dec_dual2_np. - apply dec_cal_np. - apply dec_ucal_np.
    - apply dec_named_np. - apply dec_fx_np. - apply dec_curve_np.
    - apply dec_spline_np, dec_f64_np. - apply dec_spline_np, dec_dual_np. - apply dec_spline_np, dec_dual2_np.
  Qed.
End Total.

(* ------------------------------------------------------------------ the two reconstructions return *)
Lemma rebuild_named_np : forall s, rebuild_named s <> Panic.
Proof. exact named_no_panic. Qed.

(* FXRates: the i16 edge counter of the triangulation overflows from 182 currencies on (an abort
   under overflow checks; see C09).  A document is `small` when, if it is an FXRates document, the
   market it describes has at most 181 currencies. *)
Definition fxdata_small (d : jfxdata T) : Prop :=
  match fd_ccys d with
  | [] => True
  | base :: _ => (List.length (ccy_index (map fxrate_of_j (fd_rates d)) (Some base)) <= 181)%nat
  end.
Definition doc_small (j : json) : Prop :=
  forall v rest d, j = JObj ((KStr k_FXRates, v) :: rest) -> dec_fxdata v = Ok d -> fxdata_small d.

Lemma rebuild_fx_np d : fxdata_small d -> rebuild_fx d <> Panic.
Proof.
  unfold fxdata_small, rebuild_fx. destruct (fd_ccys d) as [|base cs]; [discriminate|].
  intros Hs. unfold fx_build. apply bind_np.
  - apply try_new_no_panic_gen; auto.
  - intros; discriminate.
Qed.

Lemma find_key {A} (variants : list (name * A)) k k' d :
  find (fun kv => name_eqb k (fst kv)) variants = Some (k', d) -> k = k' /\ In (k', d) variants.
Proof.
  intros E. apply find_some in E. destruct E as [I E]. cbn [fst] in E. apply name_eqb_eq in E. auto.
Qed.

Notation load := (dec_obj rebuild_named rebuild_fx).

Theorem load_no_panic j : doc_small j -> load j <> Panic.
Proof.
  intros Hs. unfold dec_obj, dec_tagged. destruct j as [| | | | | |l|[|[[k|z] v] rest]]; try discriminate.
  destruct (find _ _) as [[k' d]|] eqn:F; [|discriminate].
  apply find_key in F. destruct F as [<- I].
  intros E. apply bind_panic in E. destruct E as [E|[a [_ E]]]; [|destruct rest; discriminate].
  unfold obj_variants in I. cbn [In] in I.
  repeat (destruct I as [I|I]; [injection I as Ek <-; apply omap_panic in E|]); try contradiction.
  - exact (dec_dual_np v E).
  - exact (dec_dual2_np v E).
  - exact (dec_cal_np v E).
  - exact (dec_ucal_np v E).
  - exact (dec_named_np rebuild_named rebuild_named_np v E).
  - unfold dec_fx in E. apply bind_panic in E. destruct E as [E|[dm [E1 E2]]].
    + exact (dec_fxdata_np v E).
    + revert E2. apply rebuild_fx_np. apply (Hs v rest dm); [rewrite <- Ek; reflexivity | exact E1].
  - exact (dec_curve_np rebuild_named rebuild_named_np v E).
  - exact (dec_spline_np _ dec_f64_np v E).
  - exact (dec_spline_np _ dec_dual_np v E).
  - exact (dec_spline_np _ dec_dual2_np v E).
Qed.

(* ------------------------------------------------------------------ what every loaded value satisfies *)
Lemma req_ok {A} (d : json -> outcome A) o a : req d o = Ok a -> exists v, o = Some v /\ d v = Ok a.
Proof. destruct o; cbn [req]; intros; try discriminate; eauto. Qed.
Lemma optf_ok {A} (d : json -> outcome A) o a : optf d o = Ok a ->
  a = None \/ exists v x, o = Some v /\ d v = Ok x /\ a = Some x.
Proof.
  destruct o as [v|]; cbn [optf]; [|intros [= <-]; auto].
  unfold dec_opt. destruct v; try (intros [= <-]; auto; fail);
    intros E; apply omap_ok in E; destruct E as [yy [E ->]]; right; eauto.
Qed.
Lemma dec_tagged_ok {A} (variants : list (name * (json -> outcome A))) j x :
  dec_tagged variants j = Ok x -> exists k d v, In (k, d) variants /\ d v = Ok x.
Proof.
  unfold dec_tagged. destruct j as [| | | | | |l|[|[[k|z] v] rest]]; try discriminate.
  destruct (find _ variants) as [[k' d]|] eqn:F; [|discriminate].
  apply find_key in F. destruct F as [<- I]. intros E. apply bind_ok in E. destruct E as [a [E1 E2]].
  destruct rest; [|discriminate]. injection E2 as <-. eauto.
Qed.

Lemma dec_vars_nodup j l : dec_vars (T:=T) j = Ok l -> NoDup l.
Proof. unfold dec_vars. intros E. apply omap_ok in E. destruct E as [a [_ ->]]. apply dedup_nodup. Qed.
Lemma dec_dual_post j d : dec_dual j = Ok d -> wf_dualb d = true.
Proof.
  unfold dec_dual. intros E. apply bind_ok in E. destruct E as [sl [_ E]].
  apply bind_ok in E. destruct E as [r [_ E]]. apply bind_ok in E. destruct E as [v [Ev E]].
  apply bind_ok in E. destruct E as [dd [_ E]].
  destruct (Nat.eqb_spec (List.length v) (List.length dd)) as [L|L]; [|discriminate].
  injection E as <-. unfold wf_dualb. cbn [vs du].
  apply req_ok in Ev. destruct Ev as [x [_ Ev]].
  rewrite (proj2 (nodupb_spec _) (dec_vars_nodup _ _ Ev)), L, Nat.eqb_refl. reflexivity.
Qed.
Lemma dec_arr2_post j a : dec_arr2 j = Ok a -> a_rows a * a_cols a = Z.of_nat (List.length (a_data a)).
Proof.
  unfold dec_arr2. intros E. apply bind_ok in E. destruct E as [[di da] [_ E]]. cbn [fst snd] in E.
  destruct di as [|n [|m [|? ?]]]; try discriminate.
  destruct (Z.eqb_spec (n * m) (Z.of_nat (List.length da))); [|discriminate]. injection E as <-. auto.
Qed.
Lemma dec_dual2_post j d : dec_dual2 j = Ok d -> wf_jdual2b d = true.
Proof.
  unfold dec_dual2. intros E. apply bind_ok in E. destruct E as [sl [_ E]].
  apply bind_ok in E. destruct E as [r [_ E]]. apply bind_ok in E. destruct E as [v [Ev E]].
  apply bind_ok in E. destruct E as [du [_ E]]. apply bind_ok in E. destruct E as [dd [Ed E]].
  cbv zeta in E.
  destruct (Nat.eqb_spec (List.length v) (List.length du)) as [L|L]; [|discriminate].
  destruct (Z.eqb_spec (a_rows dd) (Z.of_nat (List.length v))) as [Rw|Rw]; [|discriminate].
  destruct (Z.eqb_spec (a_cols dd) (Z.of_nat (List.length v))) as [Cl|Cl]; [|discriminate].
  cbn [andb] in E. injection E as <-. unfold wf_jdual2b. cbn [j2_vars j2_du j2_dd].
  apply req_ok in Ev. destruct Ev as [x [_ Ev]]. apply req_ok in Ed. destruct Ed as [y [_ Ed]].
  apply dec_arr2_post in Ed.
  rewrite (proj2 (nodupb_spec _) (dec_vars_nodup _ _ Ev)), Rw, Cl, !Z.eqb_refl, <- L, Nat.eqb_refl. cbn [andb].
  apply Z.eqb_eq. rewrite <- Ed, Rw, Cl. reflexivity.
Qed.

(* ------------------------------------------------------------------ IndexMap and sort_keys *)
Lemma im_put_keys {V} k (v : V) m x : In x (map fst (im_put k v m)) <-> x = k \/ In x (map fst m).
Proof.
  induction m as [|[k' v'] m IH]; cbn [im_put map fst In].
  - intuition.
  - destruct (Z.eqb_spec k k') as [->|Hne]; cbn [map fst In]; [intuition|]. rewrite IH. intuition.
Qed.
Lemma im_put_nodup {V} k (v : V) m : NoDup (map fst m) -> NoDup (map fst (im_put k v m)).
Proof.
  induction m as [|[k' v'] m IH]; intros ND; cbn [im_put map fst].
  - constructor; [intros []|constructor].
  - cbn [map fst] in ND. inversion ND as [|? ? Hn ND']; subst.
    destruct (Z.eqb_spec k k') as [->|Hne]; cbn [map fst]; [constructor; auto|].
    constructor; auto. intros C. apply im_put_keys in C. destruct C as [C|C]; [congruence | contradiction].
Qed.
Lemma im_put_vals {V} (P : V -> Prop) k v m : P v -> (forall kv, In kv m -> P (snd kv)) ->
  forall kv, In kv (im_put k v m) -> P (snd kv).
Proof.
  intros Pv. induction m as [|[k' v'] m IH]; intros Hm kv; cbn [im_put].
  - intros [<-|[]]. exact Pv.
  - destruct (k =? k').
    + intros [<-|Hin]; [exact Pv | apply Hm; right; auto].
    + intros [<-|Hin]; [apply (Hm (k', v')); left; auto | apply IH; auto; intros; apply Hm; right; auto].
Qed.
Lemma dec_imap_go_post {V} (d : json -> outcome V) (P : V -> Prop) : (forall j x, d j = Ok x -> P x) ->
  forall kvs acc m, NoDup (map fst acc) -> (forall kv, In kv acc -> P (snd kv)) -> dec_imap_go d kvs acc = Ok m ->
  NoDup (map fst m) /\ forall kv, In kv m -> P (snd kv).
Proof.
  intros HP. induction kvs as [|[[s|z] v] kvs IH]; intros acc m ND Ha E; cbn [dec_imap_go] in E; try discriminate.
  - injection E as <-. auto.
  - destruct ((i64_min <=? z) && (z <=? i64_max)); [|discriminate].
    apply bind_ok in E. destruct E as [x [Ex E]]. eapply IH; [| |exact E].
    + apply im_put_nodup; auto.
    + apply im_put_vals; eauto.
Qed.
Lemma dec_imap_post {V} (d : json -> outcome V) (P : V -> Prop) j m : (forall j x, d j = Ok x -> P x) ->
  dec_imap d j = Ok m -> NoDup (map fst m) /\ forall kv, In kv m -> P (snd kv).
Proof.
  intros HP. unfold dec_imap. destruct j; try discriminate. intros E.
  eapply (dec_imap_go_post d P HP _ [] m); [constructor | intros ? [] | exact E].
Qed.
Lemma ins_key_in {V} (kv : Z * V) m x : In x (ins_key kv m) <-> x = kv \/ In x m.
Proof.
  induction m as [|y m IH]; cbn [ins_key In]; [intuition|].
  destruct (fst kv <? fst y); cbn [In]; [intuition|]. rewrite IH. intuition.
Qed.
Lemma sort_keys_in {V} (m : list (Z * V)) x : In x (sort_keys m) <-> In x m.
Proof.
  unfold sort_keys. induction m as [|y m IH]; cbn [fold_right In]; [tauto|]. rewrite ins_key_in, IH. intuition.
Qed.
Lemma strictly_incr_cons a l : strictly_incr (a :: l) = true <-> (forall y, In y l -> a < y) /\ strictly_incr l = true.
Proof.
  split.
  - intros S. split; [apply strictly_incr_lb; auto | eapply strictly_incr_tail; eauto].
  - intros [Lb S]. destruct l as [|b l]; [reflexivity|].
    change (((a <? b) && strictly_incr (b :: l)) = true). rewrite S.
    rewrite (proj2 (Z.ltb_lt a b)) by (apply Lb; left; auto). reflexivity.
Qed.
Lemma ins_key_sorted {V} (kv : Z * V) m : strictly_incr (map fst m) = true -> ~ In (fst kv) (map fst m) ->
  strictly_incr (map fst (ins_key kv m)) = true.
Proof.
  induction m as [|x m IH]; intros S Hn; cbn [ins_key map]; [reflexivity|].
  destruct (Z.ltb_spec (fst kv) (fst x)) as [Hlt|Hge].
  - cbn [map] in *. apply strictly_incr_cons. split; [|exact S].
    intros y [<-|Hy]; auto. pose proof (strictly_incr_lb _ _ S y Hy). lia.
  - cbn [map] in *. apply strictly_incr_cons in S. destruct S as [Lb S]. apply strictly_incr_cons. split.
    + intros y Hy. apply in_map_iff in Hy. destruct Hy as [z [<- Hz]]. apply ins_key_in in Hz. destruct Hz as [->|Hz].
      * assert (fst kv <> fst x) by (intros C; apply Hn; left; auto). lia.
      * apply Lb. apply in_map; auto.
    + apply IH; auto. intros C; apply Hn; right; auto.
Qed.
Lemma sort_keys_sorted' {V} (m : list (Z * V)) : NoDup (map fst m) -> strictly_incr (map fst (sort_keys m)) = true.
Proof.
  unfold sort_keys. induction m as [|x m IH]; intros ND; cbn [fold_right map]; [reflexivity|].
  cbn [map] in ND. inversion ND as [|? ? Hn ND']; subst. apply ins_key_sorted; auto.
  intros C. apply Hn. apply in_map_iff in C. destruct C as [z [E Hz]]. apply (sort_keys_in m z) in Hz.
  rewrite <- E. apply in_map; auto.
Qed.
Lemma dec_nodes_post j n : dec_nodes j = Ok n -> strictly_incr (nodes_keys n) = true /\ nodes_wfb n = true.
Proof.
  unfold dec_nodes. intros E. apply dec_tagged_ok in E. destruct E as [k [d [v [I E]]]].
  cbn [In] in I. destruct I as [I|[I|[I|[]]]]; injection I as _ <-; apply omap_ok in E; destruct E as [m [E ->]];
    cbn [nodes_keys nodes_wfb].
  - destruct (dec_imap_post dec_f64 (fun _ => True) _ _ (fun _ _ _ => I) E) as [ND _].
    split; [apply sort_keys_sorted'; auto | reflexivity].
  - destruct (dec_imap_post dec_dual (fun d => wf_dualb d = true) _ _ dec_dual_post E) as [ND Pm].
    split; [apply sort_keys_sorted'; auto|]. apply forallb_forall. intros kv Hkv. apply (proj1 (sort_keys_in _ _)) in Hkv.
    specialize (Pm kv Hkv). unfold wf_dualb in Pm. apply andb_true_iff in Pm. tauto.
  - destruct (dec_imap_post dec_dual2 (fun d => wf_jdual2b d = true) _ _ dec_dual2_post E) as [ND Pm].
    split; [apply sort_keys_sorted'; auto|]. apply forallb_forall. intros kv Hkv. apply (proj1 (sort_keys_in _ _)) in Hkv.
    specialize (Pm kv Hkv). unfold wf_jdual2b in Pm. repeat (apply andb_true_iff in Pm; destruct Pm as [Pm ?]).
    repeat (apply andb_true_iff; split); auto.
Qed.

Lemma znodupb_spec l : znodupb l = true <-> NoDup l.
Proof.
  induction l as [|x l IH]; cbn [znodupb]; [split; auto; constructor|].
  rewrite andb_true_iff, negb_true_iff, IH, zmem_false. split.
  - intros [A B]. constructor; auto.
  - intros N. inversion N; auto.
Qed.
Lemma dec_cal_post j c : dec_cal (T:=T) j = Ok c -> cal_shapeb c = true.
Proof.
  unfold dec_cal. intros E. apply bind_ok in E. destruct E as [sl [_ E]].
  apply bind_ok in E. destruct E as [h [Eh E]]. apply bind_ok in E. destruct E as [m [Em E]].
  injection E as <-. unfold cal_shapeb. cbn [c_hols c_mask].
  apply req_ok in Eh. destruct Eh as [x [_ Eh]]. apply req_ok in Em. destruct Em as [y [_ Em]].
  unfold dec_hols in Eh. apply omap_ok in Eh. destruct Eh as [hs [_ ->]].
  unfold dec_mask in Em. apply omap_ok in Em. destruct Em as [ms [Em ->]].
  rewrite (proj2 (znodupb_spec _) (zdedup_nodup hs)), (proj2 (znodupb_spec _) (zdedup_nodup ms)). cbn [andb].
  unfold mask_okb. apply forallb_forall. intros w Hw. apply zdedup_in in Hw.
  unfold dec_seq in Em. destruct y; try discriminate.
  destruct (omapM_ok_in _ _ _ Em w Hw) as [jw [_ Ew]]. apply dec_weekday_range in Ew. lia.
Qed.
Lemma dec_cals_post j l : dec_seq (dec_cal (T:=T)) j = Ok l -> forallb cal_shapeb l = true.
Proof.
  unfold dec_seq. destruct j; try discriminate. intros E. apply forallb_forall. intros c Hc.
  destruct (omapM_ok_in _ _ _ E c Hc) as [jc [_ Ec]]. eapply dec_cal_post; eauto.
Qed.
Lemma dec_ucal_post j u : dec_ucal (T:=T) j = Ok u -> ucal_shapeb u = true.
Proof.
  unfold dec_ucal. intros E. apply bind_ok in E. destruct E as [sl [_ E]].
  apply bind_ok in E. destruct E as [c [Ec E]]. apply bind_ok in E. destruct E as [s [Es E]].
  injection E as <-. unfold ucal_shapeb. cbn [u_cals u_settle].
  apply req_ok in Ec. destruct Ec as [x [_ Ec]]. rewrite (dec_cals_post _ _ Ec). cbn [andb].
  apply optf_ok in Es. destruct Es as [->|[v [l [_ [El ->]]]]]; auto. eapply dec_cals_post; eauto.
Qed.

Lemma str_eqb_refl s : str_eqb s s = true.
Proof. induction s; cbn [str_eqb]; auto. rewrite Z.eqb_refl. auto. Qed.
Lemma cals_eqb_syn_refl l : cals_eqb_syn l l = true.
Proof.
  induction l as [|c l IH]; cbn [cals_eqb_syn]; auto. unfold cal_eqb_syn. rewrite !str_eqb_refl. auto.
Qed.
Lemma namedcal_eqb_refl n : namedcal_eqb n n = true.
Proof.
  unfold namedcal_eqb. rewrite str_eqb_refl, cals_eqb_syn_refl. cbn [andb].
  destruct (u_settle (n_ucal n)); auto using cals_eqb_syn_refl.
Qed.
Lemma dec_named_post j n : dec_named (T:=T) rebuild_named j = Ok n -> named_shapeb n = true.
Proof.
  unfold dec_named. intros E. apply bind_ok in E. destruct E as [s [_ E]].
  unfold rebuild_named in E. rename E into F. apply named_try_new_ok_named in F. unfold ok_named in F.
  unfold named_shapeb. rewrite F. apply namedcal_eqb_refl.
Qed.
Lemma dec_caltype_post j c : dec_caltype (T:=T) rebuild_named j = Ok c -> caltype_shapeb c = true.
Proof.
  unfold dec_caltype. intros E. apply dec_tagged_ok in E. destruct E as [k [d [v [I E]]]].
  cbn [In] in I. destruct I as [I|[I|[I|[]]]]; injection I as _ <-; apply omap_ok in E; destruct E as [a [E ->]];
    cbn [caltype_shapeb]; eauto using dec_cal_post, dec_ucal_post, dec_named_post.
Qed.
Lemma dec_unit_enum_bound names j i : dec_unit_enum (T:=T) names j = Ok i -> (i < List.length names)%nat.
Proof.
  unfold dec_unit_enum. destruct j as [| | | | | |l|[|[[k|z] v] rest]]; try discriminate.
  - destruct (index_of s names) eqn:E; [|discriminate]. intros [= <-]. eapply index_of_bound; eauto.
  - destruct (index_of k names) eqn:E; [|discriminate]. destruct v; try discriminate.
    destruct rest; [|discriminate]. intros [= <-]. eapply index_of_bound; eauto.
Qed.
Lemma dec_rule_bound j r : dec_rule (T:=T) j = Ok r -> (r < 6)%nat.
Proof.
  unfold dec_rule. intros E. apply dec_tagged_ok in E. destruct E as [k [d [v [I E]]]].
  apply in_map_iff in I. destruct I as [i [I Hi]]. injection I as _ <-.
  apply omap_ok in E. destruct E as [a [_ ->]]. apply in_seq in Hi. lia.
Qed.
Lemma dec_curvedf_post j c : dec_curvedf rebuild_named j = Ok c ->
  (strictly_incr (nodes_keys (cv_nodes c)) = true /\ nodes_wfb (cv_nodes c) = true) /\
  caltype_shapeb (cv_cal c) = true /\ (cv_rule c < 6)%nat /\ (cv_conv c < 11)%nat /\ (cv_mod c < 5)%nat.
Proof.
  unfold dec_curvedf. intros E. apply bind_ok in E. destruct E as [sl [_ E]].
  apply bind_ok in E. destruct E as [n [En E]]. apply bind_ok in E. destruct E as [r [Er E]].
  apply bind_ok in E. destruct E as [i [_ E]]. apply bind_ok in E. destruct E as [cv [Ec E]].
  apply bind_ok in E. destruct E as [m [Em E]]. apply bind_ok in E. destruct E as [b [_ E]].
  apply bind_ok in E. destruct E as [cal [Ecal E]]. injection E as <-. cbn [cv_cal cv_rule cv_conv cv_mod cv_nodes].
  apply req_ok in En. destruct En as [x0 [_ En]]. split; [eapply dec_nodes_post; eauto|].
  apply req_ok in Er. destruct Er as [x1 [_ Er]]. apply req_ok in Ec. destruct Ec as [x2 [_ Ec]].
  apply req_ok in Em. destruct Em as [x3 [_ Em]]. apply req_ok in Ecal. destruct Ecal as [x4 [_ Ecal]].
  split; [eapply dec_caltype_post; eauto|]. split; [eapply dec_rule_bound; eauto|].
  split; [apply (dec_unit_enum_bound conv_names _ _ Ec) | apply (dec_unit_enum_bound mod_names _ _ Em)].
Qed.
Lemma dec_curve_post j c : dec_curve rebuild_named j = Ok c ->
  (strictly_incr (nodes_keys (cv_nodes c)) = true /\ nodes_wfb (cv_nodes c) = true) /\
  caltype_shapeb (cv_cal c) = true /\ (cv_rule c < 6)%nat /\ (cv_conv c < 11)%nat /\ (cv_mod c < 5)%nat.
Proof.
  unfold dec_curve. intros E. apply bind_ok in E. destruct E as [sl [_ E]].
  apply req_ok in E. destruct E as [v [_ E]]. eapply dec_curvedf_post; eauto.
Qed.

Lemma dec_arr1_in {X} (d : json -> outcome X) j l : dec_arr1 d j = Ok l ->
  forall x, In x l -> exists jx, d jx = Ok x.
Proof.
  unfold dec_arr1. intros E. apply bind_ok in E. destruct E as [[di da] [R E]]. cbn [fst snd] in E.
  destruct di as [|n [|? ?]]; try discriminate. destruct (_ =? _); [|discriminate]. injection E as <-.
  assert (G : forall x, In x da -> exists jx, d jx = Ok x).
  { unfold nd_raw in R. destruct j as [| | | | | |lj|kvs]; try discriminate.
    - destruct lj as [|jv [|jdim [|jdata [|? ?]]]]; try discriminate;
        try (apply bind_ok in R; destruct R as [? [_ R]]; discriminate).
      apply bind_ok in R. destruct R as [ver [_ R]]. destruct (negb (ver =? 1)); [discriminate|].
      apply bind_ok in R. destruct R as [di' [_ R]].
      destruct (negb (Nat.eqb (List.length di') 1)); [discriminate|].
      apply bind_ok in R. destruct R as [da' [Ed R]].
      injection R as _ <-. unfold dec_seq in Ed. destruct jdata; try discriminate.
      intros x Hx. destruct (omapM_ok_in _ _ _ Ed x Hx) as [jx [_ Ex]]. eauto.
    - assert (S : forall kvs v dim data, (forall l0, data = Some l0 -> forall x, In x l0 -> exists jx, d jx = Ok x) ->
                 forall di0 da0, nd_scan 1 d kvs v dim data = Ok (di0, da0) -> forall x, In x da0 -> exists jx, d jx = Ok x).
      { clear. induction kvs as [|[[k|z] xv] kvs IH]; intros v dim data Hdata di0 da0 E; cbn [nd_scan] in E; try discriminate.
        - destruct (negb v); [discriminate|]. destruct data as [dl|]; [|discriminate]. destruct dim; [|discriminate].
          injection E as _ <-. eapply Hdata; eauto.
        - destruct (name_eqb k k_v).
          + apply bind_ok in E. destruct E as [ver [_ E]]. destruct (ver =? 1); [|discriminate]. eapply IH; eauto.
          + destruct (name_eqb k k_data).
            * apply bind_ok in E. destruct E as [dl [Ed E]]. eapply IH; [|eauto].
              intros l0 [= <-] x Hx. unfold dec_seq in Ed. destruct xv; try discriminate.
              destruct (omapM_ok_in _ _ _ Ed x Hx) as [jx [_ Ex]]. eauto.
            * destruct (name_eqb k k_dim); [|discriminate].
              apply bind_ok in E. destruct E as [dl [_ E]].
              destruct (Nat.eqb (List.length dl) 1); [|discriminate]. eapply IH; eauto. }
      eapply S; [|exact R]. intros l0 C. discriminate. }
  exact G.
Qed.
Lemma dec_spline_post {X} (d : json -> outcome X) (P : X -> Prop) j s :
  (forall jx x, d jx = Ok x -> P x) -> dec_spline d j = Ok s ->
  spline_validb s = true /\ match sp_c s with Some c => Forall P c | None => True end.
Proof.
  intros HP. unfold dec_spline. intros E. apply bind_ok in E. destruct E as [sl0 [_ E]].
  apply req_ok in E. destruct E as [v0 [_ E]]. unfold dec_pp in E.
  apply bind_ok in E. destruct E as [sl [_ E]]. apply bind_ok in E. destruct E as [k [_ E]].
  apply bind_ok in E. destruct E as [t [_ E]]. apply bind_ok in E. destruct E as [c [Ec E]].
  apply bind_ok in E. destruct E as [n [_ E]]. cbv zeta in E.
  destruct ((1 <? Z.of_nat (List.length t)) && nondecr t && (k <=? Z.of_nat (List.length t)) &&
            (n =? Z.of_nat (List.length t) - k)) eqn:Vd; [|discriminate].
  injection E as <-. split; [exact Vd|]. cbn [sp_c].
  apply optf_ok in Ec. destruct Ec as [->|[v [l [_ [El ->]]]]]; auto.
  apply Forall_forall. intros x Hx. destruct (dec_arr1_in _ _ _ El x Hx) as [jx Ex]. eauto.
Qed.

Lemma forallb_and {A} (f g : A -> bool) l : forallb f l = true -> forallb g l = true ->
  forallb (fun x => f x && g x) l = true.
Proof.
  intros F G. apply forallb_forall. intros x Hx. rewrite forallb_forall in F, G. rewrite F, G; auto.
Qed.
Lemma dedup_nodupb l : nodupb (dedup l) = true.
Proof. apply nodupb_spec, dedup_nodup. Qed.

(* the market the reconstruction builds has the constructor's shape *)
Lemma rebuild_fx_post d f : rebuild_fx d = Ok f -> fx_shapeb f = true.
Proof.
  unfold rebuild_fx. destruct (fd_ccys d) as [|base cs]; [discriminate|].
  unfold fx_build. intros E.
  destruct (fx_try_new (map fxrate_of_j (fd_rates d)) (Some base)) as [F| |] eqn:TN; cbn [obind] in E; try discriminate.
  injection E as <-.
  destruct (try_new_shape _ _ _ TN) as [C [R [m [A [_ [L Fm]]]]]].
  destruct (try_new_ok_inv_gen _ _ _ TN) as [_ [Len _]].
  unfold fx_shapeb. cbn [jf_ccys jf_rates jf_arr]. rewrite A. cbn [arr_rows arr_cols arr_kind].
  rewrite C. unfold ccy_index. rewrite dedup_nodupb. cbn [andb].
  fold (ccy_index (map fxrate_of_j (fd_rates d)) (Some base)).
  rewrite Len, map_length. replace (List.length (fd_rates d) + 1)%nat with (S (List.length (fd_rates d))) by lia.
  rewrite Nat.eqb_refl. cbn [andb]. rewrite C in L, Fm. rewrite L, Len, map_length.
  replace (List.length (fd_rates d) + 1)%nat with (S (List.length (fd_rates d))) by lia.
  rewrite Nat.eqb_refl. cbn [andb].
  destruct m as [|r m']; [cbn in L; lia|]. inversion Fm; subst. rewrite H2, Len, map_length.
  replace (List.length (fd_rates d) + 1)%nat with (S (List.length (fd_rates d))) by lia.
  rewrite Nat.eqb_refl. reflexivity.
Qed.

Lemma spline_shape_of {X} (wfx : X -> bool) (s : jspline T X) :
  spline_validb s = true -> match sp_c s with Some c => Forall (fun x => wfx x = true) c | None => True end ->
  spline_shapeb wfx s = true.
Proof.
  unfold spline_validb, spline_shapeb. intros Vd Pc.
  repeat (apply andb_true_iff in Vd; destruct Vd as [Vd ?]).
  repeat (apply andb_true_iff; split); auto.
  destruct (sp_c s); auto. apply forallb_forall. rewrite Forall_forall in Pc. auto.
Qed.

Theorem load_shape j v : load j = Ok v -> shapeb v = true.
Proof.
  unfold dec_obj. intros E. apply dec_tagged_ok in E. destruct E as [k [d [x [I E]]]].
  unfold obj_variants in I. cbn [In] in I.
  repeat (destruct I as [I|I]; [injection I as _ <-; apply omap_ok in E; destruct E as [a [E ->]]|]); try contradiction;
    cbn [shapeb] in *.
  - eapply dec_dual_post; eauto.
  - eapply dec_dual2_post; eauto.
  - eapply dec_cal_post; eauto.
  - eapply dec_ucal_post; eauto.
  - eapply dec_named_post; eauto.
  - unfold dec_fx in E. apply bind_ok in E. destruct E as [dm [_ E]]. eapply rebuild_fx_post; eauto.
  - destruct (dec_curve_post _ _ E) as [[S W] [C [R [Cv M]]]]. unfold curve_shapeb. rewrite S, W, C. cbn [andb].
    apply Nat.ltb_lt in R, Cv, M. rewrite R, Cv, M. reflexivity.
  - destruct (dec_spline_post dec_f64 (fun _ => True) _ _ (fun _ _ _ => Logic.I) E) as [Vd P].
    apply spline_shape_of; auto. destruct (sp_c a); auto. apply Forall_forall. auto.
  - destruct (dec_spline_post dec_dual (fun d => wf_dualb d = true) _ _ dec_dual_post E) as [Vd P].
    apply spline_shape_of; auto.
  - destruct (dec_spline_post dec_dual2 (fun d => wf_jdual2b d = true) _ _ dec_dual2_post E) as [Vd P].
    apply spline_shape_of; auto.
Qed.

End Load.

(* ================================================================== the C20 statements *)
(* ------------------------------------------------------------------ constructors *)
(* the i16 edge counter of FXRates::try_new overflows (an abort under overflow checks) from 182
   currencies on; below that every listed constructor returns *)
Definition entry_small {T} `{Num T} (i : entry_in T) : Prop :=
  match i with EFX qs b => (List.length (ccy_index qs b) <= 181)%nat | _ => True end.
Definition entry_shape {T} `{Num T} (v : entry_out T) : Prop :=
  match v with
  | RDual d => wf_dual d
  | RDual2 d => wf_dual2 d
  | RCcy c => ccy_shape c
  | RPair p => pair_shape p
  | RRate q => pair_shape (pair q)
  | RFX f => NoDup (currencies f) /\ List.length (currencies f) = S (List.length (fx_rates f)) /\
             exists m, fx_array f = AD m /\ sq (List.length (currencies f)) m
  | RNamed n => named_try_new (n_name n) = Ok n
  end.

Lemma run_entry_spec {T} `{Num T} (i : entry_in T) : entry_small i ->
  run_entry i <> Panic /\ forall v, run_entry i = Ok v -> entry_shape v.
Proof.
  destruct i as [r vars d|r vars d d2|s|l r|l r x s|qs b|s]; intros Hs; cbn [run_entry].
  - destruct (dual_try_new_spec r vars d) as [P S]. split.
    + intros C. apply omap_panic in C. contradiction.
    + intros v E. apply omap_ok in E. destruct E as [a [E ->]]. apply S; auto.
  - destruct (dual2_try_new_spec r vars d d2) as [P S]. split.
    + intros C. apply omap_panic in C. contradiction.
    + intros v E. apply omap_ok in E. destruct E as [a [E ->]]. apply S; auto.
  - destruct (ccy_try_new_spec s) as [P S]. split.
    + intros C. apply omap_panic in C. contradiction.
    + intros v E. apply omap_ok in E. destruct E as [a [E ->]]. apply S; auto.
  - destruct (fxpair_try_new_spec l r) as [P S]. split.
    + intros C. apply omap_panic in C. contradiction.
    + intros v E. apply omap_ok in E. destruct E as [a [E ->]]. apply S; auto.
  - destruct (fxrate_try_new_spec l r x s) as [P S]. split.
    + intros C. apply omap_panic in C. contradiction.
    + intros v E. apply omap_ok in E. destruct E as [a [E ->]]. apply S; auto.
  - split.
    + intros C. apply omap_panic in C. exact (try_new_no_panic_gen qs b Hs C).
    + intros v E. apply omap_ok in E. destruct E as [f [E ->]]. cbn [entry_shape].
      destruct (try_new_shape _ _ _ E) as [C [R [m [A [S _]]]]].
      destruct (try_new_ok_inv_gen _ _ _ E) as [_ [L _]].
      rewrite C, R. split; [apply dedup_nodup|]. split; [rewrite L; apply Nat.add_1_r|].
      exists m. rewrite <- C. auto.
  - split.
    + intros C. apply omap_panic in C. exact (named_no_panic s C).
    + intros v E. apply omap_ok in E. destruct E as [n [E ->]]. cbn [entry_shape].
      exact (named_try_new_ok_named s n E).
Qed.

Lemma c20_constructors : forall (T : Type) (H : Num T) (i : entry_in T), entry_small i ->
  run_entry i <> Panic /\ forall v, run_entry i = Ok v -> entry_shape v.
Proof. intros. apply run_entry_spec; auto. Qed.

(* Cal::new (not a Result): it aborts exactly for a week-mask value outside 0..6 *)
Lemma c20_cal_new : forall hols mask,
  (Forall (fun v => 0 <= v <= 6) mask /\ cal_new hols mask = Ok (mkCal mask hols)) \/
  (~ Forall (fun v => 0 <= v <= 6) mask /\ cal_new hols mask = Panic).
Proof. exact cal_new_spec. Qed.
(* get_roll_by_day: any roll day >= 1 (32, 33, .. cap at the month end), aborts for day <= 0 *)
Lemma c20_roll_day : forall y m r, 1 <= m <= 12 ->
  (1 <= r -> exists x, get_roll_by_day y m r = Ok x) /\ (r <= 0 -> get_roll_by_day y m r = Panic).
Proof.
  intros y m r Hm. split.
  - intros Hr. eexists. apply get_roll_by_day_spec; auto.
  - apply get_roll_by_day_zero.
Qed.

(* ------------------------------------------------------------------ dates *)
(* for ANY business-day / settlement predicates in which every window of FUEL+1 days (both
   directions) holds an eligible day, with that FUEL as search bound: nothing aborts, and the only
   error is add_bus_days from a non-business day *)
Lemma c20_dates_total_dense : forall bus settle FUEL, dense bus settle FUEL ->
  forall d n m s k r,
    (exists x, add_days bus settle FUEL d n m s = Ok x) /\
    add_bus_days bus settle FUEL d n s <> Panic /\
    (exists x, lag bus settle FUEL d n s = Ok x) /\
    (exists x, roll bus settle FUEL d m s = Ok x) /\
    (roll_day_ok r -> i32_min < k -> in_i32 (year_of d + fst (month_carry (month_of d) k)) = true ->
     exists x, add_months bus settle FUEL d k m r s = Ok x).
Proof.
  intros bus settle FUEL D d n m s k r.
  split; [apply add_days_total; auto|].
  split.
  { destruct (add_bus_days_total _ _ _ D d n s) as [[_ ->]|[_ [x ->]]]; discriminate. }
  split; [apply lag_total; auto|].
  split; [apply roll_total; auto|].
  intros. apply add_months_total; auto.
Qed.

(* every Cal whose week mask leaves a working weekday is dense for the bound the executable model
   uses, 7 * (holidays + 1) *)
Lemma c20_cal_dense : forall c, has_working_weekday c -> dense (cal_is_bus c) (cal_is_settle c) (cal_fuel c).
Proof. exact cal_dense. Qed.

(* the statement of the property: every day count of the 8-bit parameter, roll days 1..31, week
   masks within 0..6 leaving a working weekday, target year 1970..2200 *)
Definition roll_in_range (r : rollday) : Prop := match r with RInt x => 1 <= x <= 31 | _ => True end.
Lemma c20_dates_total : forall hols mask c, cal_new hols mask = Ok c -> has_working_weekday c ->
  forall d n m s k r, -128 <= n <= 127 -> roll_in_range r -> i32_min < k ->
    1970 <= year_of d + fst (month_carry (month_of d) k) <= 2200 ->
    cal_add_days c d n m s <> Panic /\ cal_add_bus_days c d n s <> Panic /\ cal_lag c d n s <> Panic /\
    cal_roll c d m s <> Panic /\ cal_add_months c d k m r s <> Panic.
Proof.
  intros hols mask c _ Hw d n m s k r _ Hr Hk Hy.
  destruct (cal_dates_total c Hw d n m s k r) as [[x1 E1] [E2 [[x3 E3] [[x4 E4] E5]]]].
  rewrite E1, E3, E4. repeat split; try discriminate; auto.
  destruct E5 as [x5 E5]; auto.
  - destruct r; cbn in *; auto; lia.
  - unfold in_i32, i32_min, i32_max. lia.
  - rewrite E5. discriminate.
Qed.

(* ------------------------------------------------------------------ loading *)
(* the statement of the property for from_json: no abort, and every loaded value has its full shape.
   `doc_small`: an FXRates document describes at most 181 currencies (C09's bound; the property
   quantifies over documents obtained from valid ones, far below it). *)
Lemma c20_load : forall (T : Type) (H : Num T) (j : json T), doc_small j ->
  from_json_model j <> Panic /\ forall v, from_json_model j = Ok v -> shapeb v = true.
Proof.
  intros T H j Hs. split.
  - apply load_no_panic; auto.
  - intros v E. apply (load_shape j v E).
Qed.
(* documents that are not FXRates documents are small *)
Lemma c20_small_other : forall (T : Type) (H : Num T) (j : json T),
  (forall v rest, j <> JObj ((KStr k_FXRates, v) :: rest)) -> doc_small j.
Proof. intros T H j Hn v rest d E. exfalso. exact (Hn v rest E). Qed.
(* the data-model decoding itself never aborts: the loader aborts only if a reconstruction does *)
Lemma c20_load_total_with_try_from : forall (T : Type) (H : Num T) rn rf,
  (forall s, rn s <> Panic) -> (forall d, rf d <> Panic) -> forall j : json T, dec_obj rn rf j <> Panic.
Proof. intros T H rn rf Hn Hf j. apply (dec_obj_total rn rf Hn Hf j). Qed.
Lemma c20_named_rebuild_total : forall s, rebuild_named s <> Panic.
Proof. exact named_no_panic. Qed.

(* the documents on which the pinned tree aborted (F4) or loaded an ill-shaped value (F5) are now
   rejected with an error *)
Definition doc_named_bad {T} `{Num T} : json T :=
  JObj [(KStr k_NamedCal, JObj [(KStr k_name, JStr (s2n "bad"%string))])].
Definition doc_fx_empty {T} `{Num T} : json T :=
  JObj [(KStr k_FXRates, JObj [(KStr k_fx_rates, JArr []); (KStr k_currencies, JArr [])])].
Definition doc_dual_short {T} `{Num T} : json T :=
  JObj [(KStr k_Dual, JObj [(KStr k_real, JNum n1); (KStr k_vars, JArr [JStr (s2n "x"%string); JStr (s2n "y"%string)]);
        (KStr k_dual, JObj [(KStr k_v, JInt 1); (KStr k_dim, JArr [JInt 1]); (KStr k_data, JArr [JNum n1])])])].

Lemma c20_load_rejects : forall (T : Type) (H : Num T),
  from_json_model (doc_named_bad (T:=T)) = Err /\ from_json_model (doc_fx_empty (T:=T)) = Err /\
  from_json_model (doc_dual_short (T:=T)) = Err.
Proof. intros T H. repeat split; vm_compute; reflexivity. Qed.

(* non-vacuity: a valid document is outside the gap and loads; a dense calendar exists *)
Lemma c20_example :
  (forall (T : Type) (H : Num T),
     from_json_model (T:=T) (JObj [(KStr k_NamedCal, JObj [(KStr k_name, JStr (s2n "tgt"%string))])]) <> Panic) /\
  has_working_weekday (mkCal [5; 6] [19814]) /\
  cal_add_days (mkCal [5; 6] [19814]) 19812 (-128) F false = Ok 19684.
Proof.
  split; [intros T H; vm_compute; discriminate|].
  split; [exists 0; split; [lia | intros [C|[C|[]]]; discriminate]|]. vm_compute. reflexivity.
Qed.

