(* C20, loading: the loader of Model/Json.v (from_json on trees)
     - never aborts in the data-model decoding itself, whatever the tree;
     - aborts only inside the two load-time reconstructions, and then the tree holds a NamedCal
       document whose name NamedCal::try_new rejects, or is an FXRates document whose data
       FXRates::try_new rejects / has no currency (DESIGN §6 F4);
     - every loaded value has its full shape as soon as the relations a derived Deserialize does
       not check (F5) hold.
   Axiom-free. *)
From Coq Require Import ZArith Lia List Bool Arith String.
From RL Require Import Base.Num Base.Str Base.Outcome Model.Dates Model.Calendar Model.Named
  Model.Dual Model.Number Model.FX Model.Json Model.Entry Proofs.DatesP Proofs.CalendarP Proofs.NamedP Proofs.EntryP Proofs.JsonP
  Proofs.FXMat Proofs.FXP.
Import ListNotations.
Open Scope Z_scope.

Lemma bind_np {A B} (o : outcome A) (f : A -> outcome B) :
  o <> Panic -> (forall a, o = Ok a -> f a <> Panic) -> obind o f <> Panic.
Proof. destruct o; cbn [obind]; intros; auto; discriminate. Qed.
Lemma omap_np {A B} (g : A -> B) (o : outcome A) : o <> Panic -> omap g o <> Panic.
Proof. destruct o; cbn [omap]; intros; auto; discriminate. Qed.
Lemma bind_ok {A B} (o : outcome A) (f : A -> outcome B) b :
  obind o f = Ok b -> exists a, o = Ok a /\ f a = Ok b.
Proof. destruct o; cbn [obind]; intros; try discriminate. eauto. Qed.
Lemma bind_panic {A B} (o : outcome A) (f : A -> outcome B) :
  obind o f = Panic -> o = Panic \/ exists a, o = Ok a /\ f a = Panic.
Proof. destruct o; cbn [obind]; intros; try discriminate; eauto. Qed.
Lemma omap_ok {A B} (g : A -> B) (o : outcome A) b : omap g o = Ok b -> exists a, o = Ok a /\ b = g a.
Proof. destruct o; cbn [omap]; intros E; try discriminate. injection E as <-. eauto. Qed.
Lemma omap_panic {A B} (g : A -> B) (o : outcome A) : omap g o = Panic -> o = Panic.
Proof. destruct o; cbn [omap]; intros; auto; discriminate. Qed.

Section Load.
Context {T : Type} `{Num T}.
Notation json := (json T).

Definition np {A} (d : json -> outcome A) : Prop := forall j, d j <> Panic.

(* ------------------------------------------------------------------ children and sites *)
Definition children (j : json) : list json :=
  match j with JArr l => l | JObj kvs => map snd kvs | _ => [] end.
Definition is_key (k : name) (x : key) : bool := match x with KStr s => name_eqb s k | KInt _ => false end.
Fixpoint named_sites (j : json) : list json :=
  match j with
  | JArr l => flat_map named_sites l
  | JObj kvs => flat_map (fun kv => match kv with (k, v) =>
                    (if is_key k_NamedCal k then [v] else []) ++ named_sites v end) kvs
  | _ => []
  end.
Lemma sites_child j v : In v (children j) -> incl (named_sites v) (named_sites j).
Proof.
  destruct j; cbn [children]; try (intros []).
  - intros Hv x Hx. cbn [named_sites]. apply in_flat_map. eauto.
  - intros Hv x Hx. cbn [named_sites]. apply in_map_iff in Hv. destruct Hv as [[k w] [E Hkv]]. cbn [snd] in E. subst w.
    apply in_flat_map. exists (k, v). split; auto. apply in_or_app. right; auto.
Qed.

(* ------------------------------------------------------------------ struct combinators *)
Lemma chk_np {A} (d : json -> outcome A) : np d -> np (chk d).
Proof. intros Hd j. unfold chk. apply omap_np. apply Hd. Qed.
Lemma no_chk_np : np no_chk.
Proof. intros j. discriminate. Qed.
Lemma nth_np (chks : list (json -> outcome unit)) i : Forall np chks -> np (nth i chks no_chk).
Proof.
  intros F. revert i. induction F as [|c chks Hc F IH]; intros [|i]; cbn [nth]; auto using no_chk_np.
Qed.

Lemma lookup_child f (kvs : list (key * json)) v : lookup f kvs = Some v -> In v (map snd kvs).
Proof.
  induction kvs as [|[[s|z] w] kvs IH]; cbn [lookup map snd]; [discriminate| |].
  - destruct (name_eqb f s); [intros [= ->]; left; auto | intros E; right; auto].
  - intros E. right; auto.
Qed.
(* a panic while scanning = a panic of some field check on some child *)
Lemma scan_chk_panic fields chks : forall kvs seen,
  scan_chk fields chks seen kvs = Panic ->
  exists i v, In v (map snd kvs) /\ nth i chks (@no_chk T) v = Panic.
Proof.
  induction kvs as [|[k v] kvs IH]; intros seen E; cbn [scan_chk] in E; [discriminate|].
  destruct (field_index k fields) as [i|].
  - destruct (existsb (Nat.eqb i) seen); [discriminate|].
    apply bind_panic in E. destruct E as [E|[a [_ E]]].
    + exists i, v. split; auto. left; auto.
    + destruct (IH _ E) as [i' [v' [I P]]]. exists i', v'. split; auto. right; auto.
  - destruct (IH _ E) as [i' [v' [I P]]]. exists i', v'. split; auto. right; auto.
Qed.
Lemma seq_chk_panic : forall (chks : list (json -> outcome unit)) l,
  seq_chk chks l = Panic -> exists i v, In v l /\ nth i chks no_chk v = Panic.
Proof.
  induction chks as [|c chks IH]; intros [|x l] E; cbn [seq_chk] in E; try discriminate.
  apply bind_panic in E. destruct E as [E|[a [_ E]]].
  - exists O, x. split; auto. left; auto.
  - destruct (IH _ E) as [i [v [I P]]]. exists (S i), v. split; auto. right; auto.
Qed.
Lemma fields_of_panic fields chks j :
  fields_of fields chks j = Panic -> exists i v, In v (children j) /\ nth i chks no_chk v = Panic.
Proof.
  unfold fields_of. destruct j; try discriminate; intros E; apply bind_panic in E;
    destruct E as [E|[a [_ E]]]; try discriminate.
  - apply seq_chk_panic; auto.
  - eapply scan_chk_panic; eauto.
Qed.
Lemma fields_of_np fields chks : Forall np chks -> np (fields_of fields chks).
Proof.
  intros F j E. destruct (fields_of_panic _ _ _ E) as [i [v [_ P]]]. exact (nth_np chks i F v P).
Qed.
Lemma fields_of_children fields chks j sl i v :
  fields_of fields chks j = Ok sl -> slot sl i = Some v -> In v (children j).
Proof.
  unfold fields_of, slot. destruct j; try discriminate; intros E S; apply bind_ok in E; destruct E as [u [_ E]];
    injection E as <-; cbn [children].
  - revert i S. induction l as [|x l IH]; intros [|i] S; cbn [map nth] in S; try discriminate.
    + injection S as ->. left; auto.
    + right. eauto.
  - revert i S. induction fields as [|f fields IH]; intros [|i] S; cbn [map nth] in S; try discriminate.
    + eapply lookup_child; eauto.
    + eauto.
Qed.
Lemma req_np {A} (d : json -> outcome A) o : np d -> req d o <> Panic.
Proof. intros Hd. destruct o; cbn [req]; [apply Hd | discriminate]. Qed.
Lemma dec_opt_np {A} (d : json -> outcome A) : np d -> np (dec_opt d).
Proof. intros Hd j. unfold dec_opt. destruct j; try discriminate; apply omap_np; apply Hd. Qed.
Lemma optf_np {A} (d : json -> outcome A) o : np d -> optf d o <> Panic.
Proof. intros Hd. destruct o; cbn [optf]; [apply dec_opt_np; auto | discriminate]. Qed.
Lemma dec_seq_np {A} (d : json -> outcome A) : np d -> np (dec_seq d).
Proof. intros Hd j. unfold dec_seq. destruct j; try discriminate. apply omapM_no_panic'. intros; apply Hd. Qed.
Lemma dec_tagged_np {A} (variants : list (name * (json -> outcome A))) :
  Forall (fun kv => np (snd kv)) variants -> np (dec_tagged variants).
Proof.
  intros F j. unfold dec_tagged. destruct j as [| | | | | |l|[|[[k|z] v] rest]]; try discriminate.
  destruct (find _ variants) as [[k' d]|] eqn:E; [|discriminate].
  apply find_some in E. destruct E as [I _]. rewrite Forall_forall in F. specialize (F _ I). cbn [snd] in F.
  apply bind_np; [apply F|]. intros. destruct rest; discriminate.
Qed.

(* ------------------------------------------------------------------ the pure decoders never abort *)
Lemma dec_f64_np : np (@dec_f64 T _).
Proof. intros j. destruct j; discriminate. Qed.
Lemma dec_uint_np m : np (@dec_uint T m).
Proof. intros j. unfold dec_uint. destruct j; try discriminate. destruct (_ && _); discriminate. Qed.
Lemma dec_str_np : np (@dec_str T).
Proof. intros j. destruct j; discriminate. Qed.
Lemma dec_date_np : np (@dec_date T).
Proof. intros j. destruct j; discriminate. Qed.
Lemma nd_scan_np {A} (d : json -> outcome A) : np d -> forall kvs v dim data, nd_scan d kvs v dim data <> Panic.
Proof.
  intros Hd. induction kvs as [|[[k|z] x] kvs IH]; intros v dim data; cbn [nd_scan]; try discriminate.
  - destruct (negb v); [discriminate|]. destruct data, dim; discriminate.
  - destruct (name_eqb k k_v).
    + apply bind_np; [apply dec_uint_np|]. intros ver _. destruct (ver =? 1); [apply IH | discriminate].
    + destruct (name_eqb k k_data).
      * apply bind_np; [apply dec_seq_np; auto|]. intros; apply IH.
      * destruct (name_eqb k k_dim); [|discriminate].
        apply bind_np; [apply dec_seq_np; apply dec_uint_np|]. intros; apply IH.
Qed.
Lemma nd_raw_np {A} (d : json -> outcome A) : np d -> np (nd_raw d).
Proof.
  intros Hd j. unfold nd_raw. destruct j as [| | | | | |l|kvs]; try discriminate.
  - destruct l as [|jv [|jdim [|jdata [|? ?]]]]; try discriminate;
      try (apply bind_np; [apply dec_uint_np | intros; discriminate]).
    apply bind_np; [apply dec_uint_np|]. intros ver _. destruct (negb (ver =? 1)); [discriminate|].
    apply bind_np; [apply dec_seq_np; apply dec_uint_np|]. intros.
    apply bind_np; [apply dec_seq_np; auto|]. intros. discriminate.
  - apply nd_scan_np; auto.
Qed.
Lemma dec_arr1_np {A} (d : json -> outcome A) : np d -> np (dec_arr1 d).
Proof.
  intros Hd j. unfold dec_arr1. apply bind_np; [apply nd_raw_np; auto|]. intros [di da] _. cbn [fst snd].
  destruct di as [|n [|? ?]]; try discriminate. destruct (_ =? _); discriminate.
Qed.
Lemma dec_arr2_np : np (@dec_arr2 T _).
Proof.
  intros j. unfold dec_arr2. apply bind_np; [apply nd_raw_np; apply dec_f64_np|]. intros [di da] _. cbn [fst snd].
  destruct di as [|n [|m [|? ?]]]; try discriminate. destruct (_ =? _); discriminate.
Qed.
Lemma dec_vars_np : np (@dec_vars T).
Proof. intros j. unfold dec_vars. apply omap_np. apply dec_seq_np. apply dec_str_np. Qed.

Ltac np_struct :=
  apply bind_np; [apply fields_of_np; repeat constructor; try apply chk_np; auto |];
  intros; repeat (apply bind_np; [first [apply req_np | apply optf_np]; auto | intros]); try discriminate.

Lemma dec_dual_np : np (@dec_dual T _).
Proof.
  intros j. unfold dec_dual.
  assert (np (dec_arr1 (@dec_f64 T _))) by (apply dec_arr1_np, dec_f64_np).
  pose proof dec_f64_np. pose proof dec_vars_np. np_struct.
Qed.
Lemma dec_dual2_np : np (@dec_dual2 T _).
Proof.
  intros j. unfold dec_dual2.
  assert (np (dec_arr1 (@dec_f64 T _))) by (apply dec_arr1_np, dec_f64_np).
  pose proof dec_f64_np. pose proof dec_vars_np. pose proof dec_arr2_np. np_struct.
Qed.
Lemma dec_number_np : np (@dec_number T _).
Proof.
  apply dec_tagged_np. repeat constructor; cbn [snd]; intros j; apply omap_np;
    [apply dec_dual_np | apply dec_dual2_np | apply dec_f64_np].
Qed.
Lemma dec_weekday_np : np (@dec_weekday T).
Proof. intros j. unfold dec_weekday. destruct j; try discriminate. destruct (wd_parse s); discriminate. Qed.
Lemma dec_hols_np : np (@dec_hols T).
Proof. intros j. unfold dec_hols. apply omap_np, dec_seq_np, dec_date_np. Qed.
Lemma dec_mask_np : np (@dec_mask T).
Proof. intros j. unfold dec_mask. apply omap_np, dec_seq_np, dec_weekday_np. Qed.
Lemma dec_cal_np : np (@dec_cal T).
Proof. intros j. unfold dec_cal. pose proof dec_hols_np. pose proof dec_mask_np. np_struct. Qed.
Lemma dec_ucal_np : np (@dec_ucal T).
Proof.
  intros j. unfold dec_ucal.
  assert (np (dec_seq (@dec_cal T))) by (apply dec_seq_np, dec_cal_np).
  assert (np (dec_opt (dec_seq (@dec_cal T)))) by (apply dec_opt_np; auto).
  np_struct.
Qed.
Lemma dec_named_model_np : np (@dec_named_model T).
Proof.
  intros j. unfold dec_named_model. pose proof dec_str_np.
  apply bind_np; [apply fields_of_np; repeat constructor; apply chk_np; auto|]. intros. apply req_np; auto.
Qed.
Lemma dec_imap_go_np {V} (d : json -> outcome V) : np d -> forall kvs acc, dec_imap_go d kvs acc <> Panic.
Proof.
  intros Hd. induction kvs as [|[[s|z] v] kvs IH]; intros acc; cbn [dec_imap_go]; try discriminate.
  destruct (_ && _); [|discriminate]. apply bind_np; [apply Hd|]. intros; apply IH.
Qed.
Lemma dec_imap_np {V} (d : json -> outcome V) : np d -> np (dec_imap d).
Proof. intros Hd j. unfold dec_imap. destruct j; try discriminate. apply dec_imap_go_np; auto. Qed.
Lemma dec_nodes_np : np (@dec_nodes T _).
Proof.
  apply dec_tagged_np. repeat constructor; cbn [snd]; intros j; apply omap_np; apply dec_imap_np;
    [apply dec_f64_np | apply dec_dual_np | apply dec_dual2_np].
Qed.
Lemma dec_rule_np : np (@dec_rule T).
Proof.
  apply dec_tagged_np. cbn [map seq]. repeat constructor; cbn [snd]; intros j; apply omap_np;
    unfold dec_empty_struct; destruct j as [| | | | | |[|? ?]|]; discriminate.
Qed.
Lemma dec_unit_enum_np names : np (@dec_unit_enum T names).
Proof.
  intros j. unfold dec_unit_enum. destruct j as [| | | | | |l|[|[[k|z] v] rest]]; try discriminate.
  - destruct (index_of s names); discriminate.
  - destruct (index_of k names); [|discriminate]. destruct v; try discriminate. destruct rest; discriminate.
Qed.
Lemma dec_ccy_np : np (@dec_ccy T).
Proof.
  intros j. unfold dec_ccy. pose proof dec_str_np.
  apply bind_np; [apply fields_of_np; repeat constructor; apply chk_np; auto|]. intros. apply req_np; auto.
Qed.
Lemma dec_pair_np : np (@dec_pair T).
Proof.
  intros j. unfold dec_pair. destruct j as [| | | | | |[|a r]|]; try discriminate.
  apply bind_np; [apply dec_ccy_np|]. intros. destruct r as [|b r2]; [discriminate|].
  apply bind_np; [apply dec_ccy_np|]. intros. destruct r2; discriminate.
Qed.
Lemma dec_fxrate_np : np (@dec_fxrate T _).
Proof.
  intros j. unfold dec_fxrate. pose proof dec_pair_np. pose proof dec_number_np.
  assert (np (dec_opt (@dec_date T))) by (apply dec_opt_np, dec_date_np). pose proof dec_date_np.
  np_struct.
Qed.
Lemma dec_fxdata_np : np (@dec_fxdata T _).
Proof.
  intros j. unfold dec_fxdata.
  assert (np (dec_seq (@dec_fxrate T _))) by (apply dec_seq_np, dec_fxrate_np).
  assert (np (@dec_ccys T)) by (intros x; unfold dec_ccys; apply omap_np, dec_seq_np, dec_ccy_np).
  np_struct.
Qed.
Lemma dec_pp_np {X} (d : json -> outcome X) : np d -> np (dec_pp d).
Proof.
  intros Hd j. unfold dec_pp.
  assert (np (@dec_usize T)) by apply dec_uint_np.
  assert (np (dec_seq (@dec_f64 T _))) by (apply dec_seq_np, dec_f64_np).
  assert (np (dec_arr1 d)) by (apply dec_arr1_np; auto).
  assert (np (dec_opt (dec_arr1 d))) by (apply dec_opt_np; auto).
  np_struct.
Qed.
Lemma dec_spline_np {X} (d : json -> outcome X) : np d -> np (dec_spline d).
Proof.
  intros Hd j. unfold dec_spline. pose proof (dec_pp_np d Hd).
  apply bind_np; [apply fields_of_np; repeat constructor; apply chk_np; auto|]. intros. apply req_np; auto.
Qed.

(* ------------------------------------------------------------------ with total reconstructions the
   whole loader is total: this is what a `serde(try_from)` variant of the two data models gives *)
Section Total.
  Variable rn : name -> outcome namedcal.
  Variable rf : jfxdata T -> outcome (jfx T).
  Hypothesis Hrn : forall s, rn s <> Panic.
  Hypothesis Hrf : forall d, rf d <> Panic.

  Lemma dec_named_np : np (dec_named (T:=T) rn).
  Proof. intros j. unfold dec_named. apply bind_np; [apply dec_named_model_np | intros; apply Hrn]. Qed.
  Lemma dec_caltype_np : np (dec_caltype (T:=T) rn).
  Proof.
    apply dec_tagged_np. repeat constructor; cbn [snd]; intros j; apply omap_np;
      [apply dec_cal_np | apply dec_ucal_np | apply dec_named_np].
  Qed.
  Lemma dec_curvedf_np : np (dec_curvedf rn).
  Proof.
    intros j. unfold dec_curvedf.
    pose proof dec_nodes_np. pose proof dec_rule_np. pose proof dec_str_np.
    pose proof (dec_unit_enum_np conv_names). pose proof (dec_unit_enum_np mod_names).
    assert (np (dec_opt (@dec_f64 T _))) by (apply dec_opt_np, dec_f64_np). pose proof dec_f64_np.
    pose proof dec_caltype_np. np_struct.
  Qed.
  Lemma dec_curve_np : np (dec_curve rn).
  Proof.
    intros j. unfold dec_curve. pose proof dec_curvedf_np.
    apply bind_np; [apply fields_of_np; repeat constructor; apply chk_np; auto|]. intros. apply req_np; auto.
  Qed.
  Lemma dec_fx_np : np (dec_fx rf).
  Proof. intros j. unfold dec_fx. apply bind_np; [apply dec_fxdata_np | intros; apply Hrf]. Qed.
  Theorem dec_obj_total : np (dec_obj rn rf).
  Proof.
    apply dec_tagged_np. unfold obj_variants. repeat constructor; cbn [snd]; intros j; apply omap_np.
    - apply dec_dual_np. - apply dec_dual2_np. - apply dec_cal_np. - apply dec_ucal_np.
    - apply dec_named_np. - apply dec_fx_np. - apply dec_curve_np.
    - apply dec_spline_np, dec_f64_np. - apply dec_spline_np, dec_dual_np. - apply dec_spline_np, dec_dual2_np.
  Qed.
End Total.

(* ------------------------------------------------------------------ where the pinned loader aborts *)
Definition named_rejected (v : json) : Prop :=
  exists s, dec_named_model v = Ok s /\ named_try_new s = Err.
Definition named_gap (j : json) : Prop := exists v, In v (named_sites j) /\ named_rejected v.
(* FXRates: the reconstruction rejects the data, or a quote holds an ill-shaped Dual / Dual2 (F5 inside
   F4: the reconstruction then runs dual arithmetic on arrays of different lengths, which ndarray
   refuses by aborting; that arithmetic is outside the modelled domain) *)
Definition fx_gap (j : json) : Prop :=
  exists v rest d, j = JObj ((KStr k_FXRates, v) :: rest) /\ dec_fxdata v = Ok d /\
                   (rebuild_fx_expect d = Panic \/
                    existsb (fun r => negb (wf_numberb (fr_rate r))) (fd_rates d) = true).

Lemma dec_named_panic v : dec_named rebuild_named_expect v = Panic -> named_rejected v.
Proof.
  unfold dec_named. intros E. apply bind_panic in E. destruct E as [E|[s [E1 E2]]].
  - exfalso. exact (dec_named_model_np v E).
  - exists s. split; auto. unfold rebuild_named_expect, expect in E2.
    pose proof (named_no_panic s). destruct (named_try_new s); try discriminate; auto. contradiction.
Qed.
Lemma find_key {A} (variants : list (name * A)) k k' d :
  find (fun kv => name_eqb k (fst kv)) variants = Some (k', d) -> k = k' /\ In (k', d) variants.
Proof.
  intros E. apply find_some in E. destruct E as [I E]. cbn [fst] in E. apply name_eqb_eq in E. auto.
Qed.
Lemma dec_caltype_panic c : dec_caltype rebuild_named_expect c = Panic -> named_gap c.
Proof.
  unfold dec_caltype, dec_tagged. destruct c as [| | | | | |l|[|[[k|z] v] rest]]; try discriminate.
  destruct (find _ _) as [[k' d]|] eqn:F; [|discriminate].
  apply find_key in F. destruct F as [<- I].
  intros E. apply bind_panic in E. destruct E as [E|[a [_ E]]]; [|destruct rest; discriminate].
  cbn [In] in I. destruct I as [I|[I|[I|[]]]]; injection I as Ek <-; apply omap_panic in E.
  - exfalso. exact (dec_cal_np v E).
  - exfalso. exact (dec_ucal_np v E).
  - exists v. split; [|apply dec_named_panic; auto].
    cbn [named_sites flat_map]. rewrite <- Ek. cbn [is_key]. rewrite name_eqb_refl. left; auto.
Qed.
Lemma gap_child j v : In v (children j) -> named_gap v -> named_gap j.
Proof. intros Hv [x [Hx R]]. exists x. split; auto. eapply sites_child; eauto. Qed.

Lemma dec_curvedf_panic j : dec_curvedf rebuild_named_expect j = Panic -> named_gap j.
Proof.
  unfold dec_curvedf. intros E. apply bind_panic in E. destruct E as [E|[sl [S E]]].
  - apply fields_of_panic in E. destruct E as [i [v [Hv P]]].
    destruct i as [|[|[|[|[|[|[|i]]]]]]]; cbn [nth] in P; try apply omap_panic in P.
    + exfalso; exact (dec_nodes_np v P).
    + exfalso; exact (dec_rule_np v P).
    + exfalso; exact (dec_str_np v P).
    + exfalso; exact (dec_unit_enum_np _ v P).
    + exfalso; exact (dec_unit_enum_np _ v P).
    + exfalso; exact (dec_opt_np _ dec_f64_np v P).
    + eapply gap_child; eauto. apply dec_caltype_panic; auto.
    + destruct i; discriminate.
  - repeat (apply bind_panic in E; destruct E as [E|[? [_ E]]]);
      try (exfalso; first [exact (req_np _ _ dec_nodes_np E) | exact (req_np _ _ dec_rule_np E)
                          | exact (req_np _ _ dec_str_np E) | exact (req_np _ _ (dec_unit_enum_np _) E)
                          | exact (optf_np _ _ dec_f64_np E)]; fail); try discriminate.
    destruct (slot sl 6) as [v|] eqn:S6; cbn [req] in E; [|discriminate].
    eapply gap_child; [eapply fields_of_children; eauto|]. apply dec_caltype_panic; auto.
Qed.
Lemma dec_curve_panic j : dec_curve rebuild_named_expect j = Panic -> named_gap j.
Proof.
  unfold dec_curve. intros E. apply bind_panic in E. destruct E as [E|[sl [S E]]].
  - apply fields_of_panic in E. destruct E as [i [v [Hv P]]].
    destruct i as [|i]; [|destruct i; discriminate]. cbn [nth] in P. apply omap_panic in P.
    eapply gap_child; eauto. apply dec_curvedf_panic; auto.
  - destruct (slot sl 0) as [v|] eqn:S0; cbn [req] in E; [|discriminate].
    eapply gap_child; [eapply fields_of_children; eauto|]. apply dec_curvedf_panic; auto.
Qed.

Notation load := (dec_obj rebuild_named_expect rebuild_fx_expect).

Theorem load_panic_gap j : load j = Panic -> named_gap j \/ fx_gap j.
Proof.
  unfold dec_obj, dec_tagged. destruct j as [| | | | | |l|[|[[k|z] v] rest]]; try discriminate.
  destruct (find _ _) as [[k' d]|] eqn:F; [|discriminate].
  apply find_key in F. destruct F as [<- I].
  intros E. apply bind_panic in E. destruct E as [E|[a [_ E]]]; [|destruct rest; discriminate].
  unfold obj_variants in I. cbn [In] in I.
  repeat (destruct I as [I|I]; [injection I as Ek <-; apply omap_panic in E|]); try contradiction.
  - exfalso; exact (dec_dual_np v E).
  - exfalso; exact (dec_dual2_np v E).
  - exfalso; exact (dec_cal_np v E).
  - exfalso; exact (dec_ucal_np v E).
  - left. exists v. split; [|apply dec_named_panic; auto].
    cbn [named_sites flat_map]. rewrite <- Ek. cbn [is_key]. rewrite name_eqb_refl. left; auto.
  - right. unfold dec_fx in E. apply bind_panic in E. destruct E as [E|[dm [E1 E2]]].
    + exfalso; exact (dec_fxdata_np v E).
    + exists v, rest, dm. rewrite <- Ek. auto.
  - left. eapply gap_child; [|apply dec_curve_panic; eauto]. cbn [children map snd]. left; auto.
  - exfalso; exact (dec_spline_np _ dec_f64_np v E).
  - exfalso; exact (dec_spline_np _ dec_dual_np v E).
  - exfalso; exact (dec_spline_np _ dec_dual2_np v E).
Qed.

(* ------------------------------------------------------------------ what every loaded value satisfies *)
Lemma req_ok {A} (d : json -> outcome A) o a : req d o = Ok a -> exists v, o = Some v /\ d v = Ok a.
Proof. destruct o; cbn [req]; intros; try discriminate; eauto. Qed.
Lemma optf_ok {A} (d : json -> outcome A) o a : optf d o = Ok a ->
  a = None \/ exists v x, o = Some v /\ d v = Ok x /\ a = Some x.
Proof.
  destruct o as [v|]; cbn [optf]; [|intros [= <-]; auto].
  unfold dec_opt. destruct v; try (intros [= <-]; auto; fail);
    intros E; apply omap_ok in E; destruct E as [yy [E ->]]; right; eauto.
Qed.
Lemma dec_tagged_ok {A} (variants : list (name * (json -> outcome A))) j x :
  dec_tagged variants j = Ok x -> exists k d v, In (k, d) variants /\ d v = Ok x.
Proof.
  unfold dec_tagged. destruct j as [| | | | | |l|[|[[k|z] v] rest]]; try discriminate.
  destruct (find _ variants) as [[k' d]|] eqn:F; [|discriminate].
  apply find_key in F. destruct F as [<- I]. intros E. apply bind_ok in E. destruct E as [a [E1 E2]].
  destruct rest; [|discriminate]. injection E2 as <-. eauto.
Qed.

Lemma dec_vars_nodup j l : dec_vars (T:=T) j = Ok l -> NoDup l.
Proof. unfold dec_vars. intros E. apply omap_ok in E. destruct E as [a [_ ->]]. apply dedup_nodup. Qed.
Lemma dec_dual_post j d : dec_dual j = Ok d -> NoDup (vs d).
Proof.
  unfold dec_dual. intros E. apply bind_ok in E. destruct E as [sl [_ E]].
  apply bind_ok in E. destruct E as [r [_ E]]. apply bind_ok in E. destruct E as [v [Ev E]].
  apply bind_ok in E. destruct E as [dd [_ E]]. injection E as <-. cbn [vs].
  apply req_ok in Ev. destruct Ev as [x [_ Ev]]. eapply dec_vars_nodup; eauto.
Qed.
Lemma dec_arr2_post j a : dec_arr2 j = Ok a -> a_rows a * a_cols a = Z.of_nat (List.length (a_data a)).
Proof.
  unfold dec_arr2. intros E. apply bind_ok in E. destruct E as [[di da] [_ E]]. cbn [fst snd] in E.
  destruct di as [|n [|m [|? ?]]]; try discriminate.
  destruct (Z.eqb_spec (n * m) (Z.of_nat (List.length da))); [|discriminate]. injection E as <-. auto.
Qed.
Lemma dec_dual2_post j d : dec_dual2 j = Ok d ->
  NoDup (j2_vars d) /\ a_rows (j2_dd d) * a_cols (j2_dd d) = Z.of_nat (List.length (a_data (j2_dd d))).
Proof.
  unfold dec_dual2. intros E. apply bind_ok in E. destruct E as [sl [_ E]].
  apply bind_ok in E. destruct E as [r [_ E]]. apply bind_ok in E. destruct E as [v [Ev E]].
  apply bind_ok in E. destruct E as [du [_ E]]. apply bind_ok in E. destruct E as [dd [Ed E]].
  injection E as <-. cbn [j2_vars j2_dd].
  apply req_ok in Ev. destruct Ev as [x [_ Ev]]. apply req_ok in Ed. destruct Ed as [y [_ Ed]].
  split; [eapply dec_vars_nodup; eauto | eapply dec_arr2_post; eauto].
Qed.

Lemma znodupb_spec l : znodupb l = true <-> NoDup l.
Proof.
  induction l as [|x l IH]; cbn [znodupb]; [split; auto; constructor|].
  rewrite andb_true_iff, negb_true_iff, IH, zmem_false. split.
  - intros [A B]. constructor; auto.
  - intros N. inversion N; auto.
Qed.
Lemma dec_cal_post j c : dec_cal (T:=T) j = Ok c -> cal_shapeb c = true.
Proof.
  unfold dec_cal. intros E. apply bind_ok in E. destruct E as [sl [_ E]].
  apply bind_ok in E. destruct E as [h [Eh E]]. apply bind_ok in E. destruct E as [m [Em E]].
  injection E as <-. unfold cal_shapeb. cbn [c_hols c_mask].
  apply req_ok in Eh. destruct Eh as [x [_ Eh]]. apply req_ok in Em. destruct Em as [y [_ Em]].
  unfold dec_hols in Eh. apply omap_ok in Eh. destruct Eh as [hs [_ ->]].
  unfold dec_mask in Em. apply omap_ok in Em. destruct Em as [ms [Em ->]].
  rewrite (proj2 (znodupb_spec _) (zdedup_nodup hs)), (proj2 (znodupb_spec _) (zdedup_nodup ms)). cbn [andb].
  unfold mask_okb. apply forallb_forall. intros w Hw. apply zdedup_in in Hw.
  unfold dec_seq in Em. destruct y; try discriminate.
  destruct (omapM_ok_in _ _ _ Em w Hw) as [jw [_ Ew]]. apply dec_weekday_range in Ew. lia.
Qed.
Lemma dec_cals_post j l : dec_seq (dec_cal (T:=T)) j = Ok l -> forallb cal_shapeb l = true.
Proof.
  unfold dec_seq. destruct j; try discriminate. intros E. apply forallb_forall. intros c Hc.
  destruct (omapM_ok_in _ _ _ E c Hc) as [jc [_ Ec]]. eapply dec_cal_post; eauto.
Qed.
Lemma dec_ucal_post j u : dec_ucal (T:=T) j = Ok u -> ucal_shapeb u = true.
Proof.
  unfold dec_ucal. intros E. apply bind_ok in E. destruct E as [sl [_ E]].
  apply bind_ok in E. destruct E as [c [Ec E]]. apply bind_ok in E. destruct E as [s [Es E]].
  injection E as <-. unfold ucal_shapeb. cbn [u_cals u_settle].
  apply req_ok in Ec. destruct Ec as [x [_ Ec]]. rewrite (dec_cals_post _ _ Ec). cbn [andb].
  apply optf_ok in Es. destruct Es as [->|[v [l [_ [El ->]]]]]; auto. eapply dec_cals_post; eauto.
Qed.

Lemma str_eqb_refl s : str_eqb s s = true.
Proof. induction s; cbn [str_eqb]; auto. rewrite Z.eqb_refl. auto. Qed.
Lemma cals_eqb_syn_refl l : cals_eqb_syn l l = true.
Proof.
  induction l as [|c l IH]; cbn [cals_eqb_syn]; auto. unfold cal_eqb_syn. rewrite !str_eqb_refl. auto.
Qed.
Lemma namedcal_eqb_refl n : namedcal_eqb n n = true.
Proof.
  unfold namedcal_eqb. rewrite str_eqb_refl, cals_eqb_syn_refl. cbn [andb].
  destruct (u_settle (n_ucal n)); auto using cals_eqb_syn_refl.
Qed.
Lemma dec_named_post j n : dec_named (T:=T) rebuild_named_expect j = Ok n -> named_shapeb n = true.
Proof.
  unfold dec_named. intros E. apply bind_ok in E. destruct E as [s [_ E]].
  unfold rebuild_named_expect, expect in E. destruct (named_try_new s) eqn:F; try discriminate.
  injection E as <-. apply named_try_new_ok_named in F. unfold ok_named in F.
  unfold named_shapeb. rewrite F. apply namedcal_eqb_refl.
Qed.
Lemma dec_caltype_post j c : dec_caltype (T:=T) rebuild_named_expect j = Ok c -> caltype_shapeb c = true.
Proof.
  unfold dec_caltype. intros E. apply dec_tagged_ok in E. destruct E as [k [d [v [I E]]]].
  cbn [In] in I. destruct I as [I|[I|[I|[]]]]; injection I as _ <-; apply omap_ok in E; destruct E as [a [E ->]];
    cbn [caltype_shapeb]; eauto using dec_cal_post, dec_ucal_post, dec_named_post.
Qed.
Lemma dec_unit_enum_bound names j i : dec_unit_enum (T:=T) names j = Ok i -> (i < List.length names)%nat.
Proof.
  unfold dec_unit_enum. destruct j as [| | | | | |l|[|[[k|z] v] rest]]; try discriminate.
  - destruct (index_of s names) eqn:E; [|discriminate]. intros [= <-]. eapply index_of_bound; eauto.
  - destruct (index_of k names) eqn:E; [|discriminate]. destruct v; try discriminate.
    destruct rest; [|discriminate]. intros [= <-]. eapply index_of_bound; eauto.
Qed.
Lemma dec_rule_bound j r : dec_rule (T:=T) j = Ok r -> (r < 6)%nat.
Proof.
  unfold dec_rule. intros E. apply dec_tagged_ok in E. destruct E as [k [d [v [I E]]]].
  apply in_map_iff in I. destruct I as [i [I Hi]]. injection I as _ <-.
  apply omap_ok in E. destruct E as [a [_ ->]]. apply in_seq in Hi. lia.
Qed.
Lemma dec_curvedf_post j c : dec_curvedf rebuild_named_expect j = Ok c ->
  caltype_shapeb (cv_cal c) = true /\ (cv_rule c < 6)%nat /\ (cv_conv c < 11)%nat /\ (cv_mod c < 5)%nat.
Proof.
  unfold dec_curvedf. intros E. apply bind_ok in E. destruct E as [sl [_ E]].
  apply bind_ok in E. destruct E as [n [_ E]]. apply bind_ok in E. destruct E as [r [Er E]].
  apply bind_ok in E. destruct E as [i [_ E]]. apply bind_ok in E. destruct E as [cv [Ec E]].
  apply bind_ok in E. destruct E as [m [Em E]]. apply bind_ok in E. destruct E as [b [_ E]].
  apply bind_ok in E. destruct E as [cal [Ecal E]]. injection E as <-. cbn [cv_cal cv_rule cv_conv cv_mod].
  apply req_ok in Er. destruct Er as [x1 [_ Er]]. apply req_ok in Ec. destruct Ec as [x2 [_ Ec]].
  apply req_ok in Em. destruct Em as [x3 [_ Em]]. apply req_ok in Ecal. destruct Ecal as [x4 [_ Ecal]].
  split; [eapply dec_caltype_post; eauto|]. split; [eapply dec_rule_bound; eauto|].
  split; [apply (dec_unit_enum_bound conv_names _ _ Ec) | apply (dec_unit_enum_bound mod_names _ _ Em)].
Qed.
Lemma dec_curve_post j c : dec_curve rebuild_named_expect j = Ok c ->
  caltype_shapeb (cv_cal c) = true /\ (cv_rule c < 6)%nat /\ (cv_conv c < 11)%nat /\ (cv_mod c < 5)%nat.
Proof.
  unfold dec_curve. intros E. apply bind_ok in E. destruct E as [sl [_ E]].
  apply req_ok in E. destruct E as [v [_ E]]. eapply dec_curvedf_post; eauto.
Qed.

Lemma dec_arr1_in {X} (d : json -> outcome X) j l : dec_arr1 d j = Ok l ->
  forall x, In x l -> exists jx, d jx = Ok x.
Proof.
  unfold dec_arr1. intros E. apply bind_ok in E. destruct E as [[di da] [R E]]. cbn [fst snd] in E.
  destruct di as [|n [|? ?]]; try discriminate. destruct (_ =? _); [|discriminate]. injection E as <-.
  assert (G : forall x, In x da -> exists jx, d jx = Ok x).
  { unfold nd_raw in R. destruct j as [| | | | | |lj|kvs]; try discriminate.
    - destruct lj as [|jv [|jdim [|jdata [|? ?]]]]; try discriminate;
        try (apply bind_ok in R; destruct R as [? [_ R]]; discriminate).
      apply bind_ok in R. destruct R as [ver [_ R]]. destruct (negb (ver =? 1)); [discriminate|].
      apply bind_ok in R. destruct R as [di' [_ R]]. apply bind_ok in R. destruct R as [da' [Ed R]].
      injection R as _ <-. unfold dec_seq in Ed. destruct jdata; try discriminate.
      intros x Hx. destruct (omapM_ok_in _ _ _ Ed x Hx) as [jx [_ Ex]]. eauto.
    - assert (S : forall kvs v dim data, (forall l0, data = Some l0 -> forall x, In x l0 -> exists jx, d jx = Ok x) ->
                 forall di0 da0, nd_scan d kvs v dim data = Ok (di0, da0) -> forall x, In x da0 -> exists jx, d jx = Ok x).
      { clear. induction kvs as [|[[k|z] xv] kvs IH]; intros v dim data Hdata di0 da0 E; cbn [nd_scan] in E; try discriminate.
        - destruct (negb v); [discriminate|]. destruct data as [dl|]; [|discriminate]. destruct dim; [|discriminate].
          injection E as _ <-. eapply Hdata; eauto.
        - destruct (name_eqb k k_v).
          + apply bind_ok in E. destruct E as [ver [_ E]]. destruct (ver =? 1); [|discriminate]. eapply IH; eauto.
          + destruct (name_eqb k k_data).
            * apply bind_ok in E. destruct E as [dl [Ed E]]. eapply IH; [|eauto].
              intros l0 [= <-] x Hx. unfold dec_seq in Ed. destruct xv; try discriminate.
              destruct (omapM_ok_in _ _ _ Ed x Hx) as [jx [_ Ex]]. eauto.
            * destruct (name_eqb k k_dim); [|discriminate].
              apply bind_ok in E. destruct E as [dl [_ E]]. eapply IH; eauto. }
      eapply S; [|exact R]. intros l0 C. discriminate. }
  exact G.
Qed.
Lemma dec_spline_post {X} (d : json -> outcome X) (P : X -> Prop) j s :
  (forall jx x, d jx = Ok x -> P x) -> dec_spline d j = Ok s ->
  match sp_c s with Some c => Forall P c | None => True end.
Proof.
  intros HP. unfold dec_spline. intros E. apply bind_ok in E. destruct E as [sl0 [_ E]].
  apply req_ok in E. destruct E as [v0 [_ E]]. unfold dec_pp in E.
  apply bind_ok in E. destruct E as [sl [_ E]]. apply bind_ok in E. destruct E as [k [_ E]].
  apply bind_ok in E. destruct E as [t [_ E]]. apply bind_ok in E. destruct E as [c [Ec E]].
  apply bind_ok in E. destruct E as [n [_ E]]. injection E as <-. cbn [sp_c].
  apply optf_ok in Ec. destruct Ec as [->|[v [l [_ [El ->]]]]]; auto.
  apply Forall_forall. intros x Hx. destruct (dec_arr1_in _ _ _ El x Hx) as [jx Ex]. eauto.
Qed.

Lemma forallb_and {A} (f g : A -> bool) l : forallb f l = true -> forallb g l = true ->
  forallb (fun x => f x && g x) l = true.
Proof.
  intros F G. apply forallb_forall. intros x Hx. rewrite forallb_forall in F, G. rewrite F, G; auto.
Qed.
Lemma dedup_nodupb l : nodupb (dedup l) = true.
Proof. apply nodupb_spec, dedup_nodup. Qed.

(* the market the reconstruction builds has the constructor's shape *)
Lemma rebuild_fx_post d f : rebuild_fx_expect d = Ok f -> fx_shapeb f = true.
Proof.
  unfold rebuild_fx_expect. destruct (fd_ccys d) as [|base cs]; [discriminate|].
  unfold expect, fx_build. intros E.
  destruct (fx_try_new (map fxrate_of_j (fd_rates d)) (Some base)) as [F| |] eqn:TN; cbn [obind] in E; try discriminate.
  injection E as <-.
  destruct (try_new_shape _ _ _ TN) as [C [R [m [A [_ [L Fm]]]]]].
  destruct (try_new_ok_inv_gen _ _ _ TN) as [_ [Len _]].
  unfold fx_shapeb. cbn [jf_ccys jf_rates jf_arr]. rewrite A. cbn [arr_rows arr_cols arr_kind].
  rewrite C. unfold ccy_index. rewrite dedup_nodupb. cbn [andb].
  fold (ccy_index (map fxrate_of_j (fd_rates d)) (Some base)).
  rewrite Len, map_length. replace (List.length (fd_rates d) + 1)%nat with (S (List.length (fd_rates d))) by lia.
  rewrite Nat.eqb_refl. cbn [andb]. rewrite C in L, Fm. rewrite L, Len, map_length.
  replace (List.length (fd_rates d) + 1)%nat with (S (List.length (fd_rates d))) by lia.
  rewrite Nat.eqb_refl. cbn [andb].
  destruct m as [|r m']; [cbn in L; lia|]. inversion Fm; subst. rewrite H2, Len, map_length.
  replace (List.length (fd_rates d) + 1)%nat with (S (List.length (fd_rates d))) by lia.
  rewrite Nat.eqb_refl. reflexivity.
Qed.

Theorem load_shape j v : load j = Ok v -> unvalidated_ok v = true -> shapeb v = true.
Proof.
  unfold dec_obj. intros E U. apply dec_tagged_ok in E. destruct E as [k [d [x [I E]]]].
  unfold obj_variants in I. cbn [In] in I.
  repeat (destruct I as [I|I]; [injection I as _ <-; apply omap_ok in E; destruct E as [a [E ->]]|]); try contradiction;
    cbn [shapeb unvalidated_ok] in *.
  - unfold wf_dualb. rewrite (proj2 (nodupb_spec _) (dec_dual_post _ _ E)). exact U.
  - destruct (dec_dual2_post _ _ E) as [N A]. unfold wf_jdual2b, jdual2_lenb in *.
    rewrite (proj2 (nodupb_spec _) N). cbn [andb].
    apply andb_true_iff in U. destruct U as [U U3]. apply andb_true_iff in U. destruct U as [U1 U2].
    rewrite U1, U2, U3. cbn [andb]. apply Z.eqb_eq in U2, U3. apply Z.eqb_eq. rewrite <- A, U2, U3. reflexivity.
  - eapply dec_cal_post; eauto.
  - eapply dec_ucal_post; eauto.
  - eapply dec_named_post; eauto.
  - unfold dec_fx in E. apply bind_ok in E. destruct E as [dm [_ E]]. eapply rebuild_fx_post; eauto.
  - destruct (dec_curve_post _ _ E) as [C [R [Cv M]]]. unfold curve_shapeb. rewrite U, C. cbn [andb].
    apply Nat.ltb_lt in R, Cv, M. rewrite R, Cv, M. reflexivity.
  - unfold spline_shapeb, spline_lenb in *. exact U.
  - pose proof (dec_spline_post dec_dual (fun d => NoDup (vs d)) _ _ dec_dual_post E) as P.
    unfold spline_shapeb, spline_lenb in *. destruct (sp_c a) as [c|]; auto.
    apply andb_true_iff in U. destruct U as [U0 U]. apply andb_true_iff in U. destruct U as [U1 U2].
    rewrite U0, U1. cbn [andb]. unfold wf_dualb. apply forallb_and; auto.
    apply forallb_forall. intros y Hy. rewrite Forall_forall in P. apply nodupb_spec. auto.
  - pose proof (dec_spline_post dec_dual2 (fun d => NoDup (j2_vars d) /\
        a_rows (j2_dd d) * a_cols (j2_dd d) = Z.of_nat (List.length (a_data (j2_dd d)))) _ _ dec_dual2_post E) as P.
    unfold spline_shapeb, spline_lenb in *. destruct (sp_c a) as [c|]; auto.
    apply andb_true_iff in U. destruct U as [U0 U]. apply andb_true_iff in U. destruct U as [U1 U2].
    rewrite U0, U1. cbn [andb]. apply forallb_forall. intros y Hy.
    rewrite Forall_forall in P. destruct (P y Hy) as [N A]. rewrite forallb_forall in U2. specialize (U2 y Hy).
    unfold wf_jdual2b, jdual2_lenb in *. rewrite (proj2 (nodupb_spec _) N). cbn [andb].
    apply andb_true_iff in U2. destruct U2 as [V V3]. apply andb_true_iff in V. destruct V as [V1 V2].
    rewrite V1, V2, V3. cbn [andb]. apply Z.eqb_eq in V2, V3. apply Z.eqb_eq. rewrite <- A, V2, V3. reflexivity.
Qed.

End Load.

(* ================================================================== the C20 statements *)
(* ------------------------------------------------------------------ constructors *)
(* the i16 edge counter of FXRates::try_new overflows (an abort under overflow checks) from 182
   currencies on; below that every listed constructor returns *)
Definition entry_small {T} `{Num T} (i : entry_in T) : Prop :=
  match i with EFX qs b => (List.length (ccy_index qs b) <= 181)%nat | _ => True end.
Definition entry_shape {T} `{Num T} (v : entry_out T) : Prop :=
  match v with
  | RDual d => wf_dual d
  | RDual2 d => wf_dual2 d
  | RCcy c => ccy_shape c
  | RPair p => pair_shape p
  | RRate q => pair_shape (pair q)
  | RFX f => NoDup (currencies f) /\ List.length (currencies f) = S (List.length (fx_rates f)) /\
             exists m, fx_array f = AD m /\ sq (List.length (currencies f)) m
  | RNamed n => named_try_new (n_name n) = Ok n
  end.

Lemma run_entry_spec {T} `{Num T} (i : entry_in T) : entry_small i ->
  run_entry i <> Panic /\ forall v, run_entry i = Ok v -> entry_shape v.
Proof.
  destruct i as [r vars d|r vars d d2|s|l r|l r x s|qs b|s]; intros Hs; cbn [run_entry].
  - destruct (dual_try_new_spec r vars d) as [P S]. split.
    + intros C. apply omap_panic in C. contradiction.
    + intros v E. apply omap_ok in E. destruct E as [a [E ->]]. apply S; auto.
  - destruct (dual2_try_new_spec r vars d d2) as [P S]. split.
    + intros C. apply omap_panic in C. contradiction.
    + intros v E. apply omap_ok in E. destruct E as [a [E ->]]. apply S; auto.
  - destruct (ccy_try_new_spec s) as [P S]. split.
    + intros C. apply omap_panic in C. contradiction.
    + intros v E. apply omap_ok in E. destruct E as [a [E ->]]. apply S; auto.
  - destruct (fxpair_try_new_spec l r) as [P S]. split.
    + intros C. apply omap_panic in C. contradiction.
    + intros v E. apply omap_ok in E. destruct E as [a [E ->]]. apply S; auto.
  - destruct (fxrate_try_new_spec l r x s) as [P S]. split.
    + intros C. apply omap_panic in C. contradiction.
    + intros v E. apply omap_ok in E. destruct E as [a [E ->]]. apply S; auto.
  - split.
    + intros C. apply omap_panic in C. exact (try_new_no_panic_gen qs b Hs C).
    + intros v E. apply omap_ok in E. destruct E as [f [E ->]]. cbn [entry_shape].
      destruct (try_new_shape _ _ _ E) as [C [R [m [A [S _]]]]].
      destruct (try_new_ok_inv_gen _ _ _ E) as [_ [L _]].
      rewrite C, R. split; [apply dedup_nodup|]. split; [rewrite L; apply Nat.add_1_r|].
      exists m. rewrite <- C. auto.
  - split.
    + intros C. apply omap_panic in C. exact (named_no_panic s C).
    + intros v E. apply omap_ok in E. destruct E as [n [E ->]]. cbn [entry_shape].
      exact (named_try_new_ok_named s n E).
Qed.

Lemma c20_constructors : forall (T : Type) (H : Num T) (i : entry_in T), entry_small i ->
  run_entry i <> Panic /\ forall v, run_entry i = Ok v -> entry_shape v.
Proof. intros. apply run_entry_spec; auto. Qed.

(* Cal::new (not a Result): it aborts exactly for a week-mask value outside 0..6 *)
Lemma c20_cal_new : forall hols mask,
  (Forall (fun v => 0 <= v <= 6) mask /\ cal_new hols mask = Ok (mkCal mask hols)) \/
  (~ Forall (fun v => 0 <= v <= 6) mask /\ cal_new hols mask = Panic).
Proof. exact cal_new_spec. Qed.
(* get_roll_by_day: any roll day >= 1 (32, 33, .. cap at the month end), aborts for day <= 0 *)
Lemma c20_roll_day : forall y m r, 1 <= m <= 12 ->
  (1 <= r -> exists x, get_roll_by_day y m r = Ok x) /\ (r <= 0 -> get_roll_by_day y m r = Panic).
Proof.
  intros y m r Hm. split.
  - intros Hr. eexists. apply get_roll_by_day_spec; auto.
  - apply get_roll_by_day_zero.
Qed.

(* ------------------------------------------------------------------ dates *)
(* for ANY business-day / settlement predicates in which every window of FUEL+1 days (both
   directions) holds an eligible day, with that FUEL as search bound: nothing aborts, and the only
   error is add_bus_days from a non-business day *)
Lemma c20_dates_total_dense : forall bus settle FUEL, dense bus settle FUEL ->
  forall d n m s k r,
    (exists x, add_days bus settle FUEL d n m s = Ok x) /\
    add_bus_days bus settle FUEL d n s <> Panic /\
    (exists x, lag bus settle FUEL d n s = Ok x) /\
    (exists x, roll bus settle FUEL d m s = Ok x) /\
    (roll_day_ok r -> i32_min < k -> in_i32 (year_of d + fst (month_carry (month_of d) k)) = true ->
     exists x, add_months bus settle FUEL d k m r s = Ok x).
Proof.
  intros bus settle FUEL D d n m s k r.
  split; [apply add_days_total; auto|].
  split.
  { destruct (add_bus_days_total _ _ _ D d n s) as [[_ ->]|[_ [x ->]]]; discriminate. }
  split; [apply lag_total; auto|].
  split; [apply roll_total; auto|].
  intros. apply add_months_total; auto.
Qed.

(* every Cal whose week mask leaves a working weekday is dense for the bound the executable model
   uses, 7 * (holidays + 1) *)
Lemma c20_cal_dense : forall c, has_working_weekday c -> dense (cal_is_bus c) (cal_is_settle c) (cal_fuel c).
Proof. exact cal_dense. Qed.

(* the statement of the property: every day count of the 8-bit parameter, roll days 1..31, week
   masks within 0..6 leaving a working weekday, target year 1970..2200 *)
Definition roll_in_range (r : rollday) : Prop := match r with RInt x => 1 <= x <= 31 | _ => True end.
Lemma c20_dates_total : forall hols mask c, cal_new hols mask = Ok c -> has_working_weekday c ->
  forall d n m s k r, -128 <= n <= 127 -> roll_in_range r -> i32_min < k ->
    1970 <= year_of d + fst (month_carry (month_of d) k) <= 2200 ->
    cal_add_days c d n m s <> Panic /\ cal_add_bus_days c d n s <> Panic /\ cal_lag c d n s <> Panic /\
    cal_roll c d m s <> Panic /\ cal_add_months c d k m r s <> Panic.
Proof.
  intros hols mask c _ Hw d n m s k r _ Hr Hk Hy.
  destruct (cal_dates_total c Hw d n m s k r) as [[x1 E1] [E2 [[x3 E3] [[x4 E4] E5]]]].
  rewrite E1, E3, E4. repeat split; try discriminate; auto.
  destruct E5 as [x5 E5]; auto.
  - destruct r; cbn in *; auto; lia.
  - unfold in_i32, i32_min, i32_max. lia.
  - rewrite E5. discriminate.
Qed.

(* ------------------------------------------------------------------ loading *)
Definition KnownGap {T} `{Num T} (j : json T) : Prop :=
  named_gap j                                  (* F4: a NamedCal document whose name try_new rejects *)
  \/ fx_gap j                                  (* F4: FXRates data that try_new rejects / no currency *)
  \/ exists v, from_json_model j = Ok v /\ unvalidated_ok v = false.    (* F5: unchecked relations *)

Lemma c20_load : forall (T : Type) (H : Num T) (j : json T), ~ KnownGap j ->
  from_json_model j <> Panic /\ forall v, from_json_model j = Ok v -> shapeb v = true.
Proof.
  intros T H j NG. split.
  - intros P. apply load_panic_gap in P. apply NG. unfold KnownGap. tauto.
  - intros v E. apply (load_shape j v E).
    destruct (unvalidated_ok v) eqn:U; auto. exfalso. apply NG. right. right. eauto.
Qed.
(* the data-model decoding itself never aborts: with reconstructions that return their error
   (serde(try_from)) the loader is total *)
Lemma c20_load_total_with_try_from : forall (T : Type) (H : Num T) rn rf,
  (forall s, rn s <> Panic) -> (forall d, rf d <> Panic) -> forall j : json T, dec_obj rn rf j <> Panic.
Proof. intros T H rn rf Hn Hf j. apply (dec_obj_total rn rf Hn Hf j). Qed.
Lemma c20_named_rebuild_total : forall s, rebuild_named_try s <> Panic.
Proof. exact named_no_panic. Qed.

(* On the pinned tree the full statement (without ~ KnownGap) is false: *)
Definition doc_named_bad {T} `{Num T} : json T :=
  JObj [(KStr k_NamedCal, JObj [(KStr k_name, JStr (s2n "bad"%string))])].
Definition doc_fx_empty {T} `{Num T} : json T :=
  JObj [(KStr k_FXRates, JObj [(KStr k_fx_rates, JArr []); (KStr k_currencies, JArr [])])].
Definition doc_dual_short {T} `{Num T} : json T :=
  JObj [(KStr k_Dual, JObj [(KStr k_real, JNum n1); (KStr k_vars, JArr [JStr (s2n "x"%string); JStr (s2n "y"%string)]);
        (KStr k_dual, JObj [(KStr k_v, JInt 1); (KStr k_dim, JArr [JInt 1]); (KStr k_data, JArr [JNum n1])])])].

Lemma c20_load_refuted_named : forall (T : Type) (H : Num T),
  KnownGap (doc_named_bad (T:=T)) /\ from_json_model (doc_named_bad (T:=T)) = Panic.
Proof.
  intros T H. split; [|vm_compute; reflexivity].
  left. exists (JObj [(KStr k_name, JStr (s2n "bad"%string))]). split; [left; reflexivity|].
  exists (s2n "bad"%string). split; vm_compute; reflexivity.
Qed.
Lemma c20_load_refuted_fx : forall (T : Type) (H : Num T),
  KnownGap (doc_fx_empty (T:=T)) /\ from_json_model (doc_fx_empty (T:=T)) = Panic.
Proof.
  intros T H. split; [|vm_compute; reflexivity].
  right. left. exists (JObj [(KStr k_fx_rates, JArr []); (KStr k_currencies, JArr [])]), [], (mkJFxData [] []).
  split; [reflexivity|]. split; [vm_compute; reflexivity | left; vm_compute; reflexivity].
Qed.
Lemma c20_load_refuted_shape : forall (T : Type) (H : Num T),
  KnownGap (doc_dual_short (T:=T)) /\
  exists v, from_json_model (doc_dual_short (T:=T)) = Ok v /\ shapeb v = false.
Proof.
  intros T H.
  assert (E : from_json_model (doc_dual_short (T:=T)) = Ok (ODual (mkDual n1 [s2n "x"; s2n "y"] [n1]))).
  { vm_compute. reflexivity. }
  split.
  - right. right. eexists. split; [exact E | vm_compute; reflexivity].
  - eexists. split; [exact E | vm_compute; reflexivity].
Qed.

(* non-vacuity: a valid document is outside the gap and loads; a dense calendar exists *)
Lemma c20_example :
  (forall (T : Type) (H : Num T),
     from_json_model (T:=T) (JObj [(KStr k_NamedCal, JObj [(KStr k_name, JStr (s2n "tgt"%string))])]) <> Panic) /\
  has_working_weekday (mkCal [5; 6] [19814]) /\
  cal_add_days (mkCal [5; 6] [19814]) 19812 (-128) F false = Ok 19684.
Proof.
  split; [intros T H; vm_compute; discriminate|].
  split; [exists 0; split; [lia | intros [C|[C|[]]]; discriminate]|]. vm_compute. reflexivity.
Qed.

