(* The C20 csolve witness, on IEEE doubles (primitive floats; kept apart from the property files so
   that they do not depend on the primitive-float library). *)
From Coq Require Import ZArith List Floats.
From RL Require Import Base.Num Base.Outcome Base.NumFloat Model.Spline Model.Linalg Model.Json Model.Entry.
Import ListNotations.

(* on IEEE doubles a repeated data site makes the collocation matrix singular, elimination divides
   0 by 0 and the next pivot search compares NaNs: partial_cmp(..).unwrap() aborts *)
Definition csolve_witness : outcome (pp float float) :=
  do s <- pp_new (T:=float) (X:=float) 1 [0; 1; 2; 3; 4]%float None;
  csolve (T:=float) (X:=float) nmul s [0.5; 0.5; 2.5; 3.5]%float [1; 2; 3; 4]%float 0 0 false.
Lemma csolve_witness_aborts : csolve_witness = Panic.
Proof. vm_compute. reflexivity. Qed.
