(* Lemmas for C11 (curve look-ups) and C12 (curve sensitivities, order switches) about
   Model/Curve.v.  Real-number statements are at T := R (Base/NumR.v). *)
From Coq Require Import Reals ZArith List Bool Lra Lia Sorting.Permutation Sorting.Sorted Psatz.
From Coquelicot Require Import Coquelicot.
From RL Require Import Base.Num Base.Str Base.NumR Base.Outcome Model.Dual Model.Number Model.Curve.
Import ListNotations.
Local Open Scope nat_scope.

(* ====================================================================================== *)
(* Part A: index_left = right-closed interval search, clamped (any decidable total order) *)
Section IndexLeftP.
  Context {A : Type} (le : A -> A -> Prop) (leb eqb : A -> A -> bool).
  Hypothesis leb_le : forall a b, leb a b = true <-> le a b.
  Hypothesis eqb_eq : forall a b, eqb a b = true <-> a = b.
  Hypothesis le_refl : forall a, le a a.
  Hypothesis le_trans : forall a b c, le a b -> le b c -> le a c.
  Hypothesis le_antisym : forall a b, le a b -> le b a -> a = b.
  Hypothesis le_total : forall a b, le a b \/ le b a.

  Definition ltA (a b : A) : Prop := ~ le b a.
  Lemma ltA_le a b : ltA a b -> le a b.
  Proof. unfold ltA. intros N. destruct (le_total a b); tauto. Qed.
  Lemma ltA_trans_le a b c : ltA a b -> le b c -> ltA a c.
  Proof. unfold ltA. intros N L C. apply N. eapply le_trans; eauto. Qed.
  Lemma le_trans_ltA a b c : le a b -> ltA b c -> ltA a c.
  Proof. unfold ltA. intros L N C. apply N. eapply le_trans; eauto. Qed.
  Lemma leb_false a b : leb a b = false <-> ltA b a.
  Proof. unfold ltA. rewrite <- leb_le. destruct (leb a b); split; congruence. Qed.

  (* number of elements strictly below v *)
  Definition cnt_lt (v : A) (l : list A) : nat := length (filter (fun a => negb (leb v a)) l).
  Lemma cnt_lt_app v l1 l2 : cnt_lt v (l1 ++ l2) = cnt_lt v l1 + cnt_lt v l2.
  Proof. unfold cnt_lt. rewrite filter_app, app_length. reflexivity. Qed.
  Lemma cnt_lt_all v l : (forall a, In a l -> ltA a v) -> cnt_lt v l = length l.
  Proof.
    induction l as [|a l IH]; intros Hl; cbn; auto. unfold cnt_lt in *. cbn.
    assert (E : leb v a = false) by (apply leb_false; apply Hl; left; auto).
    rewrite E. cbn. f_equal. apply IH. intros; apply Hl; right; auto.
  Qed.
  Lemma cnt_lt_none v l : (forall a, In a l -> le v a) -> cnt_lt v l = 0.
  Proof.
    induction l as [|a l IH]; intros Hl; cbn; auto. unfold cnt_lt in *. cbn.
    assert (E : leb v a = true) by (apply leb_le; apply Hl; left; auto).
    rewrite E. cbn. apply IH. intros; apply Hl; right; auto.
  Qed.
  Lemma cnt_lt_le_length v l : cnt_lt v l <= length l.
  Proof. unfold cnt_lt. induction l as [|a l IH]; cbn; auto. destruct (negb (leb v a)); cbn; lia. Qed.

  Definition ssorted (l : list A) : Prop := StronglySorted ltA l.
  Lemma ssorted_app_inv l1 l2 : ssorted (l1 ++ l2) ->
    ssorted l1 /\ ssorted l2 /\ (forall a b, In a l1 -> In b l2 -> ltA a b).
  Proof.
    induction l1 as [|x l1 IH]; cbn; intros S.
    - repeat split; auto. constructor. intros a b [].
    - inversion S as [|? ? S' F]; subst. destruct (IH S') as (S1 & S2 & C).
      rewrite Forall_forall in F. repeat split; auto.
      + constructor; auto. apply Forall_forall. intros y Hy. apply F. apply in_or_app; auto.
      + intros a b [E|I] Hb; [subst; apply F; apply in_or_app; auto | apply C; auto].
  Qed.
  Lemma ssorted_app l1 l2 : ssorted l1 -> ssorted l2 -> (forall a b, In a l1 -> In b l2 -> ltA a b) ->
    ssorted (l1 ++ l2).
  Proof.
    induction l1 as [|x l1 IH]; cbn; intros S1 S2 C; auto.
    inversion S1 as [|? ? S' F]; subst. constructor.
    - apply IH; auto.
    - rewrite Forall_forall in *. intros y Hy. apply in_app_or in Hy. destruct Hy; auto.
  Qed.

  Lemma split_at (l : list A) k p : nth_error l k = Some p ->
    l = firstn k l ++ p :: skipn (S k) l /\ firstn (S k) l = firstn k l ++ [p] /\ skipn k l = p :: skipn (S k) l
    /\ length (firstn k l) = k.
  Proof.
    revert k; induction l as [|a l IH]; intros [|k] E; cbn in *; try discriminate.
    - inversion E; subst. auto.
    - destruct (IH k E) as (E1 & E2 & E3 & E4). repeat split; try congruence.
  Qed.

  (* the position selected: clamp 0 (n-2) (cnt-1) in natural-number arithmetic *)
  Definition pos_of (n c : nat) : nat := Nat.min (n - 2) (c - 1).

  Lemma index_left_go_spec : forall fuel l v lc, ssorted l -> 2 <= length l -> length l <= fuel ->
    index_left_go leb eqb fuel l v lc = Ok (lc + pos_of (length l) (cnt_lt v l)).
  Proof.
    induction fuel as [|f IH]; intros l v lc Sl L2 Lf; [lia|].
    cbn [index_left_go].
    destruct (length l) as [|[|[|m]]] eqn:EL; try lia.
    - unfold pos_of. cbn. f_equal. lia.
    - set (n := S (S (S m))) in *.
      set (split := (n - 1) / 2).
      assert (Hs : 1 <= split /\ split + 2 <= n).
      { unfold split. split.
        - apply Nat.div_le_lower_bound; lia.
        - assert (2 * ((n - 1) / 2) <= n - 1) by (apply Nat.mul_div_le; lia). lia. }
      destruct (nth_error l split) as [p|] eqn:EP.
      2:{ apply nth_error_None in EP. lia. }
      destruct (split_at l split p EP) as (E1 & E2 & E3 & E4).
      remember (firstn split l) as l1 eqn:Hl1. remember (skipn (S split) l) as l2 eqn:Hl2. clear Hl1 Hl2.
      assert (SS := Sl). rewrite E1 in SS. apply ssorted_app_inv in SS.
      destruct SS as (S1 & S2 & C12).
      assert (Sp2 : forall b, In b l2 -> ltA p b).
      { inversion S2 as [|? ? ? F]; subst. rewrite Forall_forall in F. exact F. }
      assert (S1p : forall a, In a l1 -> ltA a p) by (intros a Ha; apply C12; [auto|left; auto]).
      assert (Ll : n = split + S (length l2)).
      { rewrite <- EL. rewrite E1 at 1. rewrite app_length. cbn. rewrite E4. reflexivity. }
      assert (Cnt : cnt_lt v l = cnt_lt v l1 + (cnt_lt v [p] + cnt_lt v l2)).
      { rewrite E1 at 1. rewrite cnt_lt_app. change (p :: l2) with ([p] ++ l2). rewrite cnt_lt_app. reflexivity. }
      destruct (Nat.eqb n 3 && eqb v p) eqn:E3p.
      + apply andb_true_iff in E3p. destruct E3p as [En Ev]. apply Nat.eqb_eq in En. apply eqb_eq in Ev. subst p.
        f_equal. unfold pos_of.
        assert (cnt_lt v l2 = 0) by (apply cnt_lt_none; intros; apply ltA_le; auto).
        assert (cnt_lt v [v] = 0) by (apply cnt_lt_none; intros a [E|[]]; subst; apply le_refl).
        assert (cnt_lt v l1 = length l1) by (apply cnt_lt_all; auto).
        lia.
      + destruct (leb v p) eqn:Evp.
        * apply leb_le in Evp.
          rewrite IH.
          -- f_equal. f_equal. rewrite E2.
             assert (cnt_lt v l2 = 0).
             { apply cnt_lt_none. intros b Hb. apply ltA_le. eapply le_trans_ltA; eauto. }
             assert (cnt_lt v [p] = 0) by (apply cnt_lt_none; intros a [E|[]]; subst; auto).
             rewrite cnt_lt_app, app_length. cbn [length]. rewrite E4.
             assert (cnt_lt v l1 <= length l1) by apply cnt_lt_le_length.
             unfold pos_of. lia.
          -- rewrite E2. apply ssorted_app; auto.
             ++ constructor; constructor.
             ++ intros a b Ha [Hb|[]]; subst; auto.
          -- rewrite E2, app_length. cbn. lia.
          -- rewrite E2, app_length. cbn. lia.
        * apply leb_false in Evp.
          rewrite IH.
          -- f_equal. rewrite E3.
             assert (cnt_lt v l1 = length l1).
             { apply cnt_lt_all. intros a Ha. eapply le_trans_ltA; [apply ltA_le; apply S1p; auto|auto]. }
             assert (cnt_lt v [p] = 1).
             { unfold cnt_lt. cbn. apply leb_false in Evp. rewrite Evp. reflexivity. }
             change (p :: l2) with ([p] ++ l2). rewrite cnt_lt_app. cbn [length app].
             assert (cnt_lt v l2 <= length l2) by apply cnt_lt_le_length.
             unfold pos_of. lia.
          -- rewrite E3. exact S2.
          -- rewrite E3. cbn. lia.
          -- rewrite E3. cbn. lia.
  Qed.

  Lemma index_left_cnt l v : ssorted l -> 2 <= length l ->
    index_left leb eqb l v = Ok (pos_of (length l) (cnt_lt v l)).
  Proof.
    intros S L. unfold index_left, index_left_lc. rewrite index_left_go_spec; auto.
  Qed.
  Lemma index_left_lc_cnt l v lc : ssorted l -> 2 <= length l ->
    index_left_lc leb eqb l v (Some lc) = Ok (lc + pos_of (length l) (cnt_lt v l)).
  Proof. intros S L. unfold index_left_lc. rewrite index_left_go_spec; auto. Qed.

  (* cnt_lt is "the first index whose element is >= v (n if none)" *)
  Lemma cnt_lt_first l v (d : A) j : ssorted l -> j <= length l ->
    (forall i, i < j -> ltA (nth i l d) v) -> (j < length l -> le v (nth j l d)) -> cnt_lt v l = j.
  Proof.
    intros S Lj Hlt Hge.
    rewrite <- (firstn_skipn j l) in S |- *. apply ssorted_app_inv in S. destruct S as (S1 & S2 & C).
    rewrite cnt_lt_app.
    assert (L1 : length (firstn j l) = j) by (rewrite firstn_length; lia).
    rewrite (cnt_lt_all v (firstn j l)).
    - rewrite (cnt_lt_none v (skipn j l)); [lia|].
      intros a Ha. destruct (skipn j l) as [|b r] eqn:ES; [destruct Ha|].
      assert (Lt : j < length l).
      { destruct (Nat.lt_ge_cases j (length l)); auto. rewrite skipn_all2 in ES; [discriminate|lia]. }
      assert (Eb : nth j l d = b).
      { rewrite <- (firstn_skipn j l) at 1. rewrite app_nth2; rewrite L1; [|lia]. rewrite Nat.sub_diag, ES. reflexivity. }
      specialize (Hge Lt). rewrite Eb in Hge.
      destruct Ha as [E|Ha]; [subst; auto|].
      inversion S2 as [|? ? ? F]; subst. rewrite Forall_forall in F. eapply le_trans; [exact Hge|apply ltA_le; auto].
    - intros a Ha. apply (In_nth _ _ d) in Ha. destruct Ha as (i & Hi & E). rewrite L1 in Hi.
      rewrite <- E. rewrite <- (firstn_skipn j l) in Hlt. specialize (Hlt i Hi). rewrite app_nth1 in Hlt; [auto|lia].
  Qed.

  Theorem index_left_spec l v (d : A) j : ssorted l -> 2 <= length l -> j <= length l ->
    (forall i, i < j -> ltA (nth i l d) v) -> (j < length l -> le v (nth j l d)) ->
    index_left leb eqb l v = Ok (Nat.min (length l - 2) (j - 1)).
  Proof.
    intros S L Lj H1 H2. rewrite index_left_cnt; auto. rewrite (cnt_lt_first l v d j); auto.
  Qed.
  (* such a j always exists *)
  Lemma cnt_lt_is_first l v (d : A) : ssorted l ->
    let j := cnt_lt v l in
    j <= length l /\ (forall i, i < j -> ltA (nth i l d) v) /\ (j < length l -> le v (nth j l d)).
  Proof.
    intros S. induction l as [|a l IH]; cbn.
    - split; [|split]; [unfold cnt_lt; cbn; lia|intros i Hi; exfalso; unfold cnt_lt in Hi; cbn in Hi; lia|unfold cnt_lt; cbn; lia].
    - inversion S as [|? ? S' F]; subst. specialize (IH S'). cbn in IH. destruct IH as (I1 & I2 & I3).
      unfold cnt_lt in *. cbn. destruct (leb v a) eqn:E; cbn.
      + apply leb_le in E.
        assert (Z0 : length (filter (fun a0 => negb (leb v a0)) l) = 0).
        { apply (cnt_lt_none v l). rewrite Forall_forall in F. intros b Hb. eapply le_trans; [exact E|apply ltA_le; auto]. }
        rewrite Z0. split; [|split]; [lia|intros i Hi; exfalso; lia|intros _; exact E].
      + apply leb_false in E. split; [|split]; [lia| |].
        * intros [|i] Hi; auto. apply I2. lia.
        * intros Hj. apply I3. lia.
  Qed.
End IndexLeftP.

(* ====================================================================================== *)
(* Part B: IndexMap::from_iter, sort_keys on integer keys *)
Lemma ltA_Z a b : ltA Z.le a b <-> (a < b)%Z.
Proof. unfold ltA. lia. Qed.
Lemma ssorted_Z l : ssorted Z.le l <-> StronglySorted Z.lt l.
Proof.
  unfold ssorted. split; intros S; induction S; constructor; auto;
    rewrite Forall_forall in *; intros y Hy; apply ltA_Z; auto.
Qed.
Definition zle_leb : forall a b, Z.leb a b = true <-> (a <= b)%Z := Z.leb_le.
Definition zeq_eqb : forall a b, Z.eqb a b = true <-> a = b := Z.eqb_eq.
Lemma zle_antisym : forall a b : Z, (a <= b)%Z -> (b <= a)%Z -> a = b. Proof. intros; lia. Qed.
Lemma zle_total : forall a b : Z, (a <= b)%Z \/ (b <= a)%Z. Proof. intros; lia. Qed.

Section SortP.
  Context {V : Type}.
  Notation kv := (Z * V)%type.
  Definition keys (m : list kv) : list Z := map fst m.
  Definition ksorted (m : list kv) : Prop := StronglySorted Z.lt (keys m).

  Lemma im_insert_fresh k v (m : list kv) : ~ In k (keys m) -> im_insert Z.eqb k v m = m ++ [(k, v)].
  Proof.
    induction m as [|[k' v'] m IH]; cbn; intros N; auto.
    destruct (Z.eqb_spec k k'); [subst; tauto|]. f_equal. apply IH. tauto.
  Qed.
  Lemma im_from_iter_acc (l acc : list kv) : NoDup (keys (acc ++ l)) ->
    fold_left (fun m p => im_insert Z.eqb (fst p) (snd p) m) l acc = acc ++ l.
  Proof.
    revert acc; induction l as [|[k v] l IH]; intros acc ND; cbn.
    - rewrite app_nil_r. reflexivity.
    - rewrite im_insert_fresh.
      + rewrite IH; rewrite <- app_assoc; cbn; auto.
      + unfold keys in ND. rewrite map_app in ND. cbn in ND. apply NoDup_remove_2 in ND.
        intros I. apply ND. apply in_or_app. left. exact I.
  Qed.
  Lemma im_from_iter_nodup (l : list kv) : NoDup (keys l) -> im_from_iter Z.eqb l = l.
  Proof. intros ND. unfold im_from_iter. rewrite im_from_iter_acc; auto. Qed.

  Lemma ins_sorted_perm (p : kv) m : Permutation (ins_sorted Z.leb p m) (p :: m).
  Proof.
    induction m as [|h r IH]; cbn; auto. destruct (Z.leb (fst p) (fst h)); auto.
    eapply perm_trans; [apply perm_skip; exact IH|apply perm_swap].
  Qed.
  Lemma sort_keys_perm (m : list kv) : Permutation (sort_keys Z.leb m) m.
  Proof.
    induction m as [|h r IH]; cbn; auto. eapply perm_trans; [apply ins_sorted_perm|auto].
  Qed.
  Lemma ins_sorted_sorted (p : kv) m : ksorted m -> ~ In (fst p) (keys m) -> ksorted (ins_sorted Z.leb p m).
  Proof.
    unfold ksorted. induction m as [|h r IH]; cbn; intros S N.
    - constructor; constructor.
    - inversion S as [|? ? S' F]; subst. destruct (Z.leb_spec (fst p) (fst h)).
      + cbn. constructor; auto. constructor; [lia|].
        rewrite Forall_forall in *. intros y Hy. specialize (F y Hy). lia.
      + cbn. constructor; [apply IH; tauto|].
        assert (P := ins_sorted_perm p r). apply (Permutation_map fst) in P.
        rewrite Forall_forall in *. intros y Hy. eapply Permutation_in in Hy; [|exact P].
        cbn in Hy. destruct Hy as [E|Hy]; [lia|auto].
  Qed.
  Lemma sort_keys_sorted (m : list kv) : NoDup (keys m) -> ksorted (sort_keys Z.leb m).
  Proof.
    induction m as [|h r IH]; cbn; intros ND; [constructor|].
    inversion ND; subst. apply ins_sorted_sorted; auto.
    intros I. assert (P := sort_keys_perm r). apply (Permutation_map fst) in P.
    eapply Permutation_in in I; [|exact P]. contradiction.
  Qed.
  Lemma ksorted_perm_eq (m m' : list kv) : ksorted m -> ksorted m' -> Permutation m m' -> m = m'.
  Proof.
    unfold ksorted. revert m'; induction m as [|a t IH]; intros m' S S' P.
    - apply Permutation_nil in P. auto.
    - destruct m' as [|b t']; [apply Permutation_sym, Permutation_nil in P; discriminate|].
      cbn in S, S'. inversion S as [|? ? S1 F1]; inversion S' as [|? ? S2 F2]; subst.
      rewrite Forall_forall in F1, F2.
      assert (E : a = b).
      { assert (Ia : In a (b :: t')) by (eapply Permutation_in; [exact P|left; auto]).
        assert (Ib : In b (a :: t)) by (eapply Permutation_in; [apply Permutation_sym; exact P|left; auto]).
        destruct Ia as [E|Ia]; auto. destruct Ib as [E|Ib]; auto.
        assert ((fst b < fst a)%Z) by (apply F2; apply in_map; auto).
        assert ((fst a < fst b)%Z) by (apply F1; apply in_map; auto). lia. }
      subst b. f_equal. apply IH; auto. eapply Permutation_cons_inv; eauto.
  Qed.
  Lemma sort_keys_perm_eq (m m' : list kv) : NoDup (keys m) -> Permutation m m' ->
    sort_keys Z.leb m = sort_keys Z.leb m'.
  Proof.
    intros ND P.
    assert (ND' : NoDup (keys m')).
    { eapply Permutation_NoDup; [apply Permutation_map; exact P|exact ND]. }
    apply ksorted_perm_eq; try apply sort_keys_sorted; auto.
    eapply perm_trans; [apply sort_keys_perm|]. eapply perm_trans; [exact P|].
    apply Permutation_sym, sort_keys_perm.
  Qed.
  Lemma ksorted_nodup (m : list kv) : ksorted m -> NoDup (keys m).
  Proof.
    unfold ksorted. induction 1 as [|a l S IH F]; constructor; auto.
    rewrite Forall_forall in F. intros I. specialize (F a I). lia.
  Qed.
  Lemma sort_keys_id (m : list kv) : ksorted m -> sort_keys Z.leb m = m.
  Proof.
    intros S. apply ksorted_perm_eq; auto.
    - apply sort_keys_sorted. apply ksorted_nodup; auto.
    - apply sort_keys_perm.
  Qed.
  Lemma sort_keys_length (m : list kv) : length (sort_keys Z.leb m) = length m.
  Proof. apply Permutation_length, sort_keys_perm. Qed.

  (* look-ups in a key-sorted list *)
  Lemma ksorted_nth_lt (m : list kv) i j p q : ksorted m -> nth_error m i = Some p -> nth_error m j = Some q ->
    i < j -> (fst p < fst q)%Z.
  Proof.
    unfold ksorted. revert i j; induction m as [|a t IH]; intros i j S Ei Ej L; [destruct i; discriminate|].
    cbn in S. inversion S as [|? ? S' F]; subst. rewrite Forall_forall in F.
    destruct j as [|j]; [lia|]. cbn in Ej. destruct i as [|i]; cbn in Ei.
    - inversion Ei; subst. apply F. apply in_map. eapply nth_error_In; eauto.
    - eapply IH; eauto. lia.
  Qed.
End SortP.

(* index_left on the keys of a key-sorted IndexMap: the cnt_lt of Part A, instantiated at Z *)
Definition zcnt (x : Z) (ks : list Z) : nat := cnt_lt Z.leb x ks.
Lemma index_left_Z ks x : StronglySorted Z.lt ks -> 2 <= length ks ->
  index_left Z.leb Z.eqb ks x = Ok (pos_of (length ks) (zcnt x ks)).
Proof.
  intros S L. apply (index_left_cnt Z.le);
    first [exact zle_leb | exact zeq_eqb | exact Z.le_refl | exact Z.le_trans | exact zle_total | exact zle_antisym
          | apply ssorted_Z; exact S | exact L].
Qed.
Lemma zcnt_first ks x j : StronglySorted Z.lt ks -> j <= length ks ->
  (forall i, i < j -> (nth i ks 0 < x)%Z) -> (j < length ks -> (x <= nth j ks 0)%Z) -> zcnt x ks = j.
Proof.
  intros S L H1 H2. apply (cnt_lt_first Z.le) with (d := 0%Z);
    first [exact zle_leb | exact zeq_eqb | exact Z.le_refl | exact Z.le_trans | exact zle_total | exact zle_antisym
          | apply ssorted_Z; exact S | exact L | exact H2 | idtac].
  intros i Hi. apply ltA_Z. auto.
Qed.

(* ====================================================================================== *)
(* Part C: which two nodes a look-up uses *)
Section FormP.
  Context {T : Type} `{Num T} {U : Type} (o : iops T U).
  (* the expression evaluated from the first node p0 and the bracketing nodes p1, p2 *)
  Definition form (r : rule) (p0 p1 p2 : Z * U) (x : Z) : U :=
    match r with
    | Linear => linear_interp o (nofZ (fst p1)) (snd p1) (nofZ (fst p2)) (snd p2) (nofZ x)
    | LogLinear => log_linear_interp o (nofZ (fst p1)) (snd p1) (nofZ (fst p2)) (snd p2) (nofZ x)
    | LinearZeroRate =>
        linear_zero_interp o (nofZ (fst p0)) (nofZ (fst p1)) (snd p1) (nofZ (fst p2)) (snd p2) (nofZ x)
    | FlatForward => if (x >=? fst p2)%Z then snd p2 else snd p1
    | FlatBackward => if (x <=? fst p1)%Z then snd p1 else snd p2
    | Null => snd p1
    end.
  Definition interval_of (m : list (Z * U)) (x : Z) : nat := pos_of (length m) (zcnt x (keys m)).

  Lemma interval_of_lt m x : 2 <= length m -> S (interval_of m x) < length m.
  Proof. unfold interval_of, pos_of. lia. Qed.

  Lemma interp_at_form r (m : list (Z * U)) x : ksorted m -> 2 <= length m -> r <> Null ->
    exists p0 p1 p2, nth_error m 0 = Some p0 /\ nth_error m (interval_of m x) = Some p1 /\
      nth_error m (S (interval_of m x)) = Some p2 /\ interp_at o r m x = Ok (form r p0 p1 p2 x).
  Proof.
    intros Hs L NN. assert (Hi := interval_of_lt m x L).
    destruct (nth_error m 0) as [p0|] eqn:E0; [|apply nth_error_None in E0; lia].
    destruct (nth_error m (interval_of m x)) as [p1|] eqn:E1; [|apply nth_error_None in E1; lia].
    destruct (nth_error m (S (interval_of m x))) as [p2|] eqn:E2; [|apply nth_error_None in E2; lia].
    exists p0, p1, p2. repeat split; auto.
    assert (IL : index_left Z.leb Z.eqb (map fst m) x = Ok (interval_of m x)).
    { unfold interval_of. rewrite <- (map_length fst m). apply index_left_Z; [exact Hs|unfold keys; rewrite map_length; exact L]. }
    unfold interp_at. rewrite IL. cbn [obind]. unfold get_index. rewrite Nat.add_1_r, E0, E1, E2.
    destruct r; cbn [obind form]; try reflexivity. congruence.
  Qed.

  Lemma keys_nth (m : list (Z * U)) i p : nth_error m i = Some p -> nth i (keys m) 0%Z = fst p.
  Proof.
    intros E. unfold keys. change 0%Z with (fst (0%Z, snd p)). rewrite map_nth.
    erewrite nth_error_nth; eauto.
  Qed.
  Lemma nth_error_some_lt (m : list (Z * U)) i : i < length m -> exists p, nth_error m i = Some p.
  Proof. intros L. destruct (nth_error m i) eqn:E; eauto. apply nth_error_None in E. lia. Qed.

  (* x in (k_j, k_{j+1}] *)
  Lemma zcnt_between (m : list (Z * U)) j p q x : ksorted m ->
    nth_error m j = Some p -> nth_error m (S j) = Some q -> (fst p < x <= fst q)%Z ->
    zcnt x (keys m) = S j.
  Proof.
    intros Hs Ep Eq Hx.
    assert (Lq : S j < length m) by (apply nth_error_Some; congruence).
    apply zcnt_first; auto.
    - unfold keys. rewrite map_length. lia.
    - intros i Hi. destruct (nth_error_some_lt m i) as [pi Ei]; [lia|].
      rewrite (keys_nth m i pi Ei).
      destruct (Nat.eq_dec i j); [subst; assert (pi = p) by congruence; subst; lia|].
      assert ((fst pi < fst p)%Z) by (eapply ksorted_nth_lt; eauto; lia). lia.
    - intros _. rewrite (keys_nth m (S j) q Eq). lia.
  Qed.
  (* x <= k_0 *)
  Lemma zcnt_before (m : list (Z * U)) p x : ksorted m -> nth_error m 0 = Some p -> (x <= fst p)%Z ->
    zcnt x (keys m) = 0.
  Proof.
    intros Hs Ep Hx.
    apply zcnt_first; [exact Hs|lia|intros i Hi; lia|intros _; rewrite (keys_nth m 0 p Ep); exact Hx].
  Qed.
  (* x > k_{n-1} *)
  Lemma zcnt_after (m : list (Z * U)) p x : ksorted m -> nth_error m (length m - 1) = Some p -> (fst p < x)%Z ->
    zcnt x (keys m) = length m.
  Proof.
    intros Hs Ep Hx.
    assert (Lp : length m - 1 < length m) by (apply nth_error_Some; congruence).
    rewrite <- (map_length fst m). apply zcnt_first; auto.
    - intros i Hi. unfold keys in Hi. rewrite map_length in Hi.
      destruct (nth_error_some_lt m i Hi) as [pi Ei]. rewrite (keys_nth m i pi Ei).
      destruct (Nat.eq_dec i (length m - 1)); [subst; assert (pi = p) by congruence; subst; lia|].
      assert ((fst pi < fst p)%Z) by (eapply ksorted_nth_lt; eauto; lia). lia.
    - unfold keys. lia.
  Qed.

  (* the interval used, in the four situations *)
  Lemma interval_between m j p q x : ksorted m -> nth_error m j = Some p -> nth_error m (S j) = Some q ->
    (fst p < x <= fst q)%Z -> interval_of m x = j.
  Proof.
    intros Hs Ep Eq Hx. unfold interval_of. rewrite (zcnt_between m j p q x); auto.
    assert (S j < length m) by (apply nth_error_Some; congruence). unfold pos_of. lia.
  Qed.
  Lemma interval_before m p x : ksorted m -> nth_error m 0 = Some p -> (x <= fst p)%Z -> interval_of m x = 0.
  Proof. intros Hs Ep Hx. unfold interval_of. rewrite (zcnt_before m p x); auto. unfold pos_of. lia. Qed.
  Lemma interval_after m p x : ksorted m -> 2 <= length m -> nth_error m (length m - 1) = Some p -> (fst p < x)%Z ->
    interval_of m x = length m - 2.
  Proof. intros Hs L Ep Hx. unfold interval_of. rewrite (zcnt_after m p x); auto. unfold pos_of. lia. Qed.
  (* a look-up expressed with the nodes it uses *)
  Lemma lookup_between r m j p0 p q x : ksorted m -> 2 <= length m -> r <> Null ->
    nth_error m 0 = Some p0 -> nth_error m j = Some p -> nth_error m (S j) = Some q ->
    (fst p < x <= fst q)%Z -> interp_at o r m x = Ok (form r p0 p q x).
  Proof.
    intros Hs L NN E0 Ep Eq Hx. destruct (interp_at_form r m x Hs L NN) as (a0 & a1 & a2 & A0 & A1 & A2 & AV).
    rewrite (interval_between m j p q x Hs Ep Eq Hx) in A1, A2. rewrite AV. congruence.
  Qed.
  Lemma lookup_before r m p0 q x : ksorted m -> 2 <= length m -> r <> Null ->
    nth_error m 0 = Some p0 -> nth_error m 1 = Some q -> (x <= fst p0)%Z ->
    interp_at o r m x = Ok (form r p0 p0 q x).
  Proof.
    intros Hs L NN E0 Eq Hx. destruct (interp_at_form r m x Hs L NN) as (a0 & a1 & a2 & A0 & A1 & A2 & AV).
    rewrite (interval_before m p0 x Hs E0 Hx) in A1, A2. rewrite AV. congruence.
  Qed.
  Lemma lookup_after r m p0 p q x : ksorted m -> 2 <= length m -> r <> Null ->
    nth_error m 0 = Some p0 -> nth_error m (length m - 2) = Some p -> nth_error m (length m - 1) = Some q ->
    (fst q < x)%Z -> interp_at o r m x = Ok (form r p0 p q x).
  Proof.
    intros Hs L NN E0 Ep Eq Hx. destruct (interp_at_form r m x Hs L NN) as (a0 & a1 & a2 & A0 & A1 & A2 & AV).
    rewrite (interval_after m q x Hs L Eq Hx) in A1, A2.
    replace (S (length m - 2)) with (length m - 1) in A2 by lia. rewrite AV. congruence.
  Qed.
End FormP.

(* ====================================================================================== *)
(* Part D: the closed forms over the reals (C11) *)
Local Open Scope R_scope.
Notation iopsR := (@iops_f R NumR).
Notation curveR := (curve R).

(* the mathematical closed form of each rule on the interval [(x1,y1), (x2,y2)], first node at x0 *)
Definition closed_form (r : rule) (x0 x1 : Z) (y1 : R) (x2 : Z) (y2 : R) (x : Z) : R :=
  let w := (IZR x - IZR x1) / (IZR x2 - IZR x1) in
  match r with
  | Linear => y1 + (y2 - y1) * w
  | LogLinear => exp (ln y1 + (ln y2 - ln y1) * w)
  | LinearZeroRate =>
      let t := IZR x - IZR x0 in let t1 := IZR x1 - IZR x0 in let t2 := IZR x2 - IZR x0 in
      let r2 := - ln y2 / t2 in
      let rt := if (x1 =? x0)%Z then r2
                else let r1 := - ln y1 / t1 in r1 + (r2 - r1) * ((t - t1) / (t2 - t1)) in
      exp (- t * rt)
  | FlatForward => if (x >=? x2)%Z then y2 else y1
  | FlatBackward => if (x <=? x1)%Z then y1 else y2
  | Null => 0
  end.

Lemma form_closed r x0 y0 x1 y1 x2 y2 x : r <> Null ->
  form iopsR r (x0, y0) (x1, y1) (x2, y2) x = closed_form r x0 x1 y1 x2 y2 x.
Proof.
  intros NN. destruct r; try congruence; cbn -[Z.geb Z.leb Z.eqb]; try reflexivity.
  unfold linear_zero_interp, closed_form. cbn -[Z.eqb]. unfold Reqb, nm1. cbn.
  destruct (Req_EM_T (IZR x1 - IZR x0) 0) as [E|E]; destruct (Z.eqb_spec x1 x0) as [E'|E'].
  - f_equal. unfold Rdiv. ring.
  - exfalso. apply E'. apply eq_IZR. lra.
  - exfalso. apply E. subst. lra.
  - f_equal. unfold Rdiv. ring.
Qed.

(* curves whose nodes are float-valued, date-sorted, at least two *)
Definition sortedF (c : curveR) (m : list (Z * R)) : Prop :=
  c_nodes c = NsF m /\ StronglySorted Z.lt (map fst m) /\ (2 <= length m)%nat.

Lemma value_between c m j x0 y0 x1 y1 x2 y2 x : sortedF c m -> c_rule c <> Null ->
  nth_error m 0 = Some (x0, y0) -> nth_error m j = Some (x1, y1) -> nth_error m (S j) = Some (x2, y2) ->
  (x1 < x <= x2)%Z ->
  interpolated_value c x = Ok (NF (closed_form (c_rule c) x0 x1 y1 x2 y2 x)).
Proof.
  intros (En & Hs & L) NN E0 E1 E2 Hx. unfold interpolated_value. rewrite En.
  rewrite (lookup_between iopsR (c_rule c) m j (x0, y0) (x1, y1) (x2, y2) x); auto.
  cbn [omap]. rewrite form_closed; auto.
Qed.
Lemma value_before c m x0 y0 x1 y1 x : sortedF c m -> c_rule c <> Null ->
  nth_error m 0 = Some (x0, y0) -> nth_error m 1%nat = Some (x1, y1) -> (x <= x0)%Z ->
  interpolated_value c x = Ok (NF (closed_form (c_rule c) x0 x0 y0 x1 y1 x)).
Proof.
  intros (En & Hs & L) NN E0 E1 Hx. unfold interpolated_value. rewrite En.
  rewrite (lookup_before iopsR (c_rule c) m (x0, y0) (x1, y1) x); auto.
  cbn [omap]. rewrite form_closed; auto.
Qed.
Lemma value_after c m x0 y0 x1 y1 x2 y2 x : sortedF c m -> c_rule c <> Null ->
  nth_error m 0 = Some (x0, y0) -> nth_error m (length m - 2) = Some (x1, y1) ->
  nth_error m (length m - 1) = Some (x2, y2) -> (x2 < x)%Z ->
  interpolated_value c x = Ok (NF (closed_form (c_rule c) x0 x1 y1 x2 y2 x)).
Proof.
  intros (En & Hs & L) NN E0 E1 E2 Hx. unfold interpolated_value. rewrite En.
  rewrite (lookup_after iopsR (c_rule c) m (x0, y0) (x1, y1) (x2, y2) x); auto.
  cbn [omap]. rewrite form_closed; auto.
Qed.

(* --- the closed forms at the ends of the interval and their bounds *)
Lemma w_bounds x1 x2 x : (x1 <= x <= x2)%Z -> (x1 < x2)%Z ->
  0 <= (IZR x - IZR x1) / (IZR x2 - IZR x1) <= 1.
Proof.
  intros Hx L. assert (0 < IZR x2 - IZR x1) by (apply IZR_lt in L; lra).
  assert (IZR x1 <= IZR x <= IZR x2) by (split; apply IZR_le; lia).
  split.
  - apply Rmult_le_pos; [lra|]. apply Rlt_le, Rinv_0_lt_compat; auto.
  - apply (Rmult_le_reg_r (IZR x2 - IZR x1)); auto. unfold Rdiv. rewrite Rmult_assoc, Rinv_l; lra.
Qed.
Lemma lin_bounds y1 y2 w : 0 <= w <= 1 -> Rmin y1 y2 <= y1 + (y2 - y1) * w <= Rmax y1 y2.
Proof.
  intros Hw. unfold Rmin, Rmax. destruct (Rle_dec y1 y2); split; nra.
Qed.
Lemma closed_linear_bounds x0 x1 y1 x2 y2 x : (x1 <= x <= x2)%Z -> (x1 < x2)%Z ->
  Rmin y1 y2 <= closed_form Linear x0 x1 y1 x2 y2 x <= Rmax y1 y2.
Proof. intros Hx L. cbn. apply lin_bounds. apply w_bounds; auto. Qed.
Lemma closed_loglinear_bounds x0 x1 y1 x2 y2 x : (x1 <= x <= x2)%Z -> (x1 < x2)%Z -> 0 < y1 -> 0 < y2 ->
  Rmin y1 y2 <= closed_form LogLinear x0 x1 y1 x2 y2 x <= Rmax y1 y2.
Proof.
  intros Hx L P1 P2. cbn.
  assert (B := lin_bounds (ln y1) (ln y2) _ (w_bounds x1 x2 x Hx L)).
  assert (M1 : Rmin y1 y2 = exp (Rmin (ln y1) (ln y2))).
  { unfold Rmin. destruct (Rle_dec y1 y2) as [A|A]; destruct (Rle_dec (ln y1) (ln y2)) as [A'|A'];
      try (rewrite exp_ln; auto; fail).
    - exfalso. apply A'. destruct A; [left; apply ln_increasing; auto|subst; right; auto].
    - exfalso. apply A. destruct A' as [A'|A']; [left; apply ln_lt_inv; auto|right; apply ln_inv; auto]. }
  assert (M2 : Rmax y1 y2 = exp (Rmax (ln y1) (ln y2))).
  { unfold Rmax. destruct (Rle_dec y1 y2) as [A|A]; destruct (Rle_dec (ln y1) (ln y2)) as [A'|A'];
      try (rewrite exp_ln; auto; fail).
    - exfalso. apply A'. destruct A; [left; apply ln_increasing; auto|subst; right; auto].
    - exfalso. apply A. destruct A' as [A'|A']; [left; apply ln_lt_inv; auto|right; apply ln_inv; auto]. }
  rewrite M1, M2. destruct B as [B1 B2]. split.
  - destruct B1 as [B1|B1]; [left; apply exp_increasing; auto|right; rewrite B1; auto].
  - destruct B2 as [B2|B2]; [left; apply exp_increasing; auto|right; rewrite B2; auto].
Qed.

Lemma closed_at_left r x0 x1 y1 x2 y2 : (x1 < x2)%Z -> r = Linear \/ r = FlatForward \/ r = FlatBackward ->
  closed_form r x0 x1 y1 x2 y2 x1 = y1.
Proof.
  intros L [E|[E|E]]; subst; cbn -[Z.geb Z.leb].
  - unfold Rdiv. ring.
  - destruct (Z.geb_spec x1 x2); [lia|reflexivity].
  - rewrite Z.leb_refl. reflexivity.
Qed.
Lemma closed_at_right r x0 x1 y1 x2 y2 : (x1 < x2)%Z -> r = Linear \/ r = FlatForward \/ r = FlatBackward ->
  closed_form r x0 x1 y1 x2 y2 x2 = y2.
Proof.
  intros L [E|[E|E]]; subst; cbn -[Z.geb Z.leb].
  - apply IZR_lt in L. field. lra.
  - destruct (Z.geb_spec x2 x2); [reflexivity|lia].
  - destruct (Z.leb_spec x2 x1); [lia|reflexivity].
Qed.
Lemma closed_loglin_left x0 x1 y1 x2 y2 : 0 < y1 -> closed_form LogLinear x0 x1 y1 x2 y2 x1 = y1.
Proof.
  intros P. cbn. replace (ln y1 + (ln y2 - ln y1) * ((IZR x1 - IZR x1) / (IZR x2 - IZR x1))) with (ln y1)
    by (unfold Rdiv; ring). apply exp_ln; auto.
Qed.
Lemma closed_loglin_right x0 x1 y1 x2 y2 : (x1 < x2)%Z -> 0 < y2 -> closed_form LogLinear x0 x1 y1 x2 y2 x2 = y2.
Proof.
  intros L P. cbn. apply IZR_lt in L.
  replace (ln y1 + (ln y2 - ln y1) * ((IZR x2 - IZR x1) / (IZR x2 - IZR x1))) with (ln y2) by (field; lra).
  apply exp_ln; auto.
Qed.
Lemma closed_zero_first x0 y1 x2 y2 : closed_form LinearZeroRate x0 x0 y1 x2 y2 x0 = 1.
Proof.
  cbn -[Z.eqb]. rewrite Z.eqb_refl.
  replace (- (IZR x0 - IZR x0) * (- ln y2 / (IZR x2 - IZR x0))) with 0 by (unfold Rdiv; ring). apply exp_0.
Qed.
Lemma closed_zero_right x0 x1 y1 x2 y2 : (x0 <= x1)%Z -> (x1 < x2)%Z -> 0 < y2 ->
  closed_form LinearZeroRate x0 x1 y1 x2 y2 x2 = y2.
Proof.
  intros L0 L P. cbn -[Z.eqb]. apply IZR_lt in L. apply IZR_le in L0.
  destruct (Z.eqb_spec x1 x0) as [E|E].
  - replace (- (IZR x2 - IZR x0) * (- ln y2 / (IZR x2 - IZR x0))) with (ln y2) by (field; subst; lra).
    apply exp_ln; auto.
  - assert (IZR x1 <> IZR x0) by (intros C; apply eq_IZR in C; auto).
    match goal with |- exp ?a = _ => replace a with (ln y2) by (field; lra) end.
    apply exp_ln; auto.
Qed.

(* --- C11_index *)
Definition clampZ (lo hi v : Z) : Z := Z.max lo (Z.min hi v).
Lemma pos_of_clamp n j : (2 <= n)%nat ->
  pos_of n j = Z.to_nat (clampZ 0 (Z.of_nat n - 2) (Z.of_nat j - 1)).
Proof. intros L. unfold pos_of, clampZ. lia. Qed.

Lemma index_left_first_Z ks x : StronglySorted Z.lt ks -> (2 <= length ks)%nat ->
  (exists j, (j <= length ks)%nat /\ (forall i, (i < j)%nat -> (nth i ks 0 < x)%Z) /\
             ((j < length ks)%nat -> (x <= nth j ks 0)%Z)) /\
  (forall j, (j <= length ks)%nat -> (forall i, (i < j)%nat -> (nth i ks 0 < x)%Z) ->
             ((j < length ks)%nat -> (x <= nth j ks 0)%Z) ->
     index_left Z.leb Z.eqb ks x = Ok (Z.to_nat (clampZ 0 (Z.of_nat (length ks) - 2) (Z.of_nat j - 1)))).
Proof.
  intros Hs L. split.
  - exists (zcnt x ks).
    assert (F : (cnt_lt Z.leb x ks <= length ks)%nat /\
                (forall i, (i < cnt_lt Z.leb x ks)%nat -> ltA Z.le (nth i ks 0%Z) x) /\
                ((cnt_lt Z.leb x ks < length ks)%nat -> (x <= nth (cnt_lt Z.leb x ks) ks 0)%Z)).
    { apply (cnt_lt_is_first Z.le);
        first [exact zle_leb | exact zeq_eqb | exact Z.le_refl | exact Z.le_trans | exact zle_total | exact zle_antisym
              | apply ssorted_Z; exact Hs]. }
    destruct F as (A & B & C).
    split; [exact A|]. split; [|exact C]. intros i Hi. apply ltA_Z. apply B. exact Hi.
  - intros j Lj H1 H2. rewrite index_left_Z; auto. rewrite (zcnt_first ks x j); auto.
    rewrite pos_of_clamp; auto.
Qed.

(* the same search on a list of reals (the f64 entry point of the hook) *)
Lemma rle_leb : forall a b, Rleb a b = true <-> a <= b.
Proof. intros a b. unfold Rleb. destruct (Rle_dec a b); split; auto; discriminate. Qed.
Lemma req_eqb : forall a b, Reqb a b = true <-> a = b.
Proof. intros a b. unfold Reqb. destruct (Req_EM_T a b); split; auto; discriminate. Qed.
Lemma rle_total : forall a b, a <= b \/ b <= a. Proof. intros; lra. Qed.
Lemma ltA_R a b : ltA Rle a b <-> a < b.
Proof. unfold ltA. lra. Qed.
Lemma ssorted_R l : ssorted Rle l <-> StronglySorted Rlt l.
Proof.
  unfold ssorted. split; intros S; induction S; constructor; auto;
    rewrite Forall_forall in *; intros y Hy; apply ltA_R; auto.
Qed.
Lemma index_left_first_R l x : StronglySorted Rlt l -> (2 <= length l)%nat ->
  forall j, (j <= length l)%nat -> (forall i, (i < j)%nat -> nth i l 0 < x) ->
            ((j < length l)%nat -> x <= nth j l 0) ->
     index_left Rleb Reqb l x = Ok (Z.to_nat (clampZ 0 (Z.of_nat (length l) - 2) (Z.of_nat j - 1))).
Proof.
  intros Hs L j Lj H1 H2.
  rewrite (index_left_cnt Rle Rleb Reqb);
    first [exact rle_leb | exact req_eqb | exact Rle_refl | exact Rle_trans | exact rle_total | exact Rle_antisym
          | apply ssorted_R; exact Hs | exact L | idtac].
  rewrite (cnt_lt_first Rle Rleb) with (d := 0) (j := j);
    first [exact rle_leb | exact req_eqb | exact Rle_refl | exact Rle_trans | exact rle_total | exact Rle_antisym
          | apply ssorted_R; exact Hs | exact Lj | exact H2 | idtac].
  - rewrite pos_of_clamp; auto.
  - intros i Hi. apply ltA_R. auto.
Qed.

Lemma node_index_sorted {T} `{Num T} (c : curve T) x : StronglySorted Z.lt (nodes_keys (c_nodes c)) ->
  (2 <= length (nodes_keys (c_nodes c)))%nat ->
  node_index c x = index_left Z.leb Z.eqb (nodes_keys (c_nodes c)) x.
Proof. reflexivity. Qed.

(* --- C11_at_node *)
Lemma sortedF_first c m : sortedF c m -> exists x0 y0 x1 y1, nth_error m 0 = Some (x0, y0) /\
  nth_error m 1%nat = Some (x1, y1) /\ (x0 < x1)%Z.
Proof.
  intros (En & Hs & L). destruct m as [|[x0 y0] [|[x1 y1] t]]; cbn in L; try lia.
  exists x0, y0, x1, y1. repeat split; auto. cbn in Hs. inversion Hs as [|? ? ? F]; subst.
  inversion F; subst. auto.
Qed.

Lemma value_at_node c m j k y : sortedF c m -> nth_error m j = Some (k, y) ->
  (c_rule c = Linear \/ c_rule c = FlatForward \/ c_rule c = FlatBackward -> interpolated_value c k = Ok (NF y)) /\
  (c_rule c = LogLinear -> 0 < y -> interpolated_value c k = Ok (NF y)) /\
  (c_rule c = LinearZeroRate ->
     (j = 0%nat -> interpolated_value c k = Ok (NF 1)) /\
     ((1 <= j)%nat -> 0 < y -> interpolated_value c k = Ok (NF y))).
Proof.
  intros SF Ej. destruct (sortedF_first c m SF) as (x0 & y0 & x1' & y1' & E0 & E1 & L01).
  assert (SF' := SF). destruct SF' as (En & Hs & L).
  destruct j as [|j'].
  - assert (EE : (k, y) = (x0, y0)) by congruence. inversion EE; subst k y.
    assert (V : c_rule c <> Null -> interpolated_value c x0 = Ok (NF (closed_form (c_rule c) x0 x0 y0 x1' y1' x0))).
    { intros NN. apply (value_before c m x0 y0 x1' y1' x0); auto. lia. }
    split; [|split].
    + intros R. rewrite V; [|destruct R as [R|[R|R]]; rewrite R; discriminate].
      rewrite closed_at_left; auto.
    + intros R P. rewrite V; [|rewrite R; discriminate]. rewrite R, closed_loglin_left; auto.
    + intros R. split; [|intros; lia]. intros _. rewrite V; [|rewrite R; discriminate].
      rewrite R, closed_zero_first. reflexivity.
  - destruct (nth_error m j') as [[x1 y1]|] eqn:Ep.
    2:{ apply nth_error_None in Ep. assert (S j' < length m)%nat by (apply nth_error_Some; congruence). lia. }
    assert (L1k : (x1 < k)%Z).
    { apply (ksorted_nth_lt m j' (S j') (x1, y1) (k, y)); auto. }
    assert (L01' : (x0 <= x1)%Z).
    { destruct j' as [|j'']; [assert ((x1, y1) = (x0, y0)) by congruence; inversion H; lia|].
      assert ((x0 < x1)%Z); [|lia]. apply (ksorted_nth_lt m 0 (S j'') (x0, y0) (x1, y1)); auto. lia. }
    assert (V : c_rule c <> Null -> interpolated_value c k = Ok (NF (closed_form (c_rule c) x0 x1 y1 k y k))).
    { intros NN. apply (value_between c m j' x0 y0 x1 y1 k y k); auto. lia. }
    split; [|split].
    + intros R. rewrite V; [|destruct R as [R|[R|R]]; rewrite R; discriminate].
      rewrite closed_at_right; auto.
    + intros R P. rewrite V; [|rewrite R; discriminate]. rewrite R, closed_loglin_right; auto.
    + intros R. split; [intros; lia|]. intros _ P. rewrite V; [|rewrite R; discriminate].
      rewrite R, closed_zero_right; auto.
Qed.

(* --- C11_order_free: construction from any permutation of nodes with distinct timestamps *)
Lemma retime_perm {V} (m m' : list (Z * V)) : Permutation m m' ->
  NoDup (map (fun kv => ts_of_ns (fst kv)) m) ->
  sort_keys Z.leb (retime m) = sort_keys Z.leb (retime m').
Proof.
  intros P ND. unfold retime.
  set (f := fun kv : Z * V => (ts_of_ns (fst kv), snd kv)).
  assert (K : forall l, keys (map f l) = map (fun kv => ts_of_ns (fst kv)) l).
  { intros l. unfold keys. rewrite map_map. reflexivity. }
  assert (ND' : NoDup (map (fun kv => ts_of_ns (fst kv)) m')).
  { eapply Permutation_NoDup; [apply Permutation_map; exact P|exact ND]. }
  rewrite !im_from_iter_nodup; try (rewrite K; auto).
  apply sort_keys_perm_eq; [rewrite K; auto|apply Permutation_map; auto].
Qed.
Lemma retime_sorted {V} (m : list (Z * V)) : NoDup (map (fun kv => ts_of_ns (fst kv)) m) ->
  let s := sort_keys Z.leb (retime m) in
  ksorted s /\ Permutation s (map (fun kv => (ts_of_ns (fst kv), snd kv)) m).
Proof.
  intros ND. cbn. unfold retime.
  assert (K : keys (map (fun kv : Z * V => (ts_of_ns (fst kv), snd kv)) m) = map (fun kv => ts_of_ns (fst kv)) m).
  { unfold keys. rewrite map_map. reflexivity. }
  rewrite im_from_iter_nodup; [|rewrite K; auto]. split.
  - apply sort_keys_sorted. rewrite K; auto.
  - apply sort_keys_perm.
Qed.

(* --- the master statement: the interval used is the one node_index returns *)
Lemma sortedF_keys c m : sortedF c m -> nodes_keys (c_nodes c) = map fst m.
Proof. intros (En & _). rewrite En. reflexivity. Qed.

Lemma value_uses_node_index c m x : sortedF c m -> c_rule c <> Null ->
  exists i x0 y0 x1 y1 x2 y2, node_index c x = Ok i /\
    nth_error m 0 = Some (x0, y0) /\ nth_error m i = Some (x1, y1) /\ nth_error m (S i) = Some (x2, y2) /\
    interpolated_value c x = Ok (NF (closed_form (c_rule c) x0 x1 y1 x2 y2 x)).
Proof.
  intros SF NN. assert (SF' := SF). destruct SF' as (En & Hs & L).
  destruct (interp_at_form iopsR (c_rule c) m x Hs L NN) as ([x0 y0] & [x1 y1] & [x2 y2] & A0 & A1 & A2 & AV).
  exists (interval_of m x), x0, y0, x1, y1, x2, y2. repeat split; auto.
  - unfold node_index. rewrite (sortedF_keys c m SF). unfold interval_of.
    rewrite <- (map_length fst m). apply index_left_Z; auto. unfold keys. rewrite map_length; auto.
  - unfold interpolated_value. rewrite En, AV. cbn [omap]. rewrite form_closed; auto.
Qed.

(* --- C11_between with the formulas written out *)
Lemma value_between_explicit c m j x0 y0 x1 y1 x2 y2 x : sortedF c m ->
  nth_error m 0 = Some (x0, y0) -> nth_error m j = Some (x1, y1) -> nth_error m (S j) = Some (x2, y2) ->
  (x1 < x < x2)%Z ->
  let w := (IZR x - IZR x1) / (IZR x2 - IZR x1) in
  let t := IZR x - IZR x0 in let t1 := IZR x1 - IZR x0 in let t2 := IZR x2 - IZR x0 in
  (c_rule c = Linear ->
     interpolated_value c x = Ok (NF (y1 + (y2 - y1) * w)) /\
     Rmin y1 y2 <= y1 + (y2 - y1) * w <= Rmax y1 y2) /\
  (c_rule c = LogLinear ->
     interpolated_value c x = Ok (NF (exp (ln y1 + (ln y2 - ln y1) * w))) /\
     (0 < y1 -> 0 < y2 -> Rmin y1 y2 <= exp (ln y1 + (ln y2 - ln y1) * w) <= Rmax y1 y2)) /\
  (c_rule c = LinearZeroRate ->
     interpolated_value c x =
       Ok (NF (exp (- t * match j with
                          | O => - ln y2 / t2
                          | S _ => - ln y1 / t1 + (- ln y2 / t2 - - ln y1 / t1) * ((t - t1) / (t2 - t1))
                          end)))) /\
  (c_rule c = FlatForward -> interpolated_value c x = Ok (NF y1)) /\
  (c_rule c = FlatBackward -> interpolated_value c x = Ok (NF y2)).
Proof.
  intros SF E0 E1 E2 Hx. cbn zeta. assert (SF' := SF). destruct SF' as (En & Hs & L).
  assert (V : c_rule c <> Null -> interpolated_value c x = Ok (NF (closed_form (c_rule c) x0 x1 y1 x2 y2 x))).
  { intros NN. apply (value_between c m j x0 y0 x1 y1 x2 y2 x); auto. lia. }
  assert (L12 : (x1 < x2)%Z) by lia.
  assert (Hx' : (x1 <= x <= x2)%Z) by lia.
  split; [|split; [|split; [|split]]]; intros R; (rewrite V; [|rewrite R; discriminate]); rewrite R.
  - split; [reflexivity|]. apply (closed_linear_bounds x0 x1 y1 x2 y2 x Hx' L12).
  - split; [reflexivity|]. intros P1 P2. apply (closed_loglinear_bounds x0 x1 y1 x2 y2 x Hx' L12 P1 P2).
  - cbn -[Z.eqb]. destruct j as [|j'].
    + assert (EE : (x1, y1) = (x0, y0)) by congruence. inversion EE; subst. rewrite Z.eqb_refl. reflexivity.
    + assert ((x0 < x1)%Z) by (apply (ksorted_nth_lt m 0 (S j') (x0, y0) (x1, y1)); auto; lia).
      destruct (Z.eqb_spec x1 x0); [lia|reflexivity].
  - cbn -[Z.geb]. destruct (Z.geb_spec x x2); [lia|reflexivity].
  - cbn -[Z.leb]. destruct (Z.leb_spec x x1); [lia|reflexivity].
Qed.

(* flat rules on the half-open intervals *)
Lemma value_flat c m j x1 y1 x2 y2 x : sortedF c m ->
  nth_error m j = Some (x1, y1) -> nth_error m (S j) = Some (x2, y2) ->
  (c_rule c = FlatForward -> (x1 <= x < x2)%Z -> interpolated_value c x = Ok (NF y1)) /\
  (c_rule c = FlatBackward -> (x1 < x <= x2)%Z -> interpolated_value c x = Ok (NF y2)).
Proof.
  intros SF E1 E2. destruct (sortedF_first c m SF) as (x0 & y0 & x1' & y1' & E0 & _ & _).
  split; intros R Hx.
  - destruct (Z.eq_dec x x1) as [E|E].
    + subst x. destruct (value_at_node c m j x1 y1 SF E1) as (A & _). apply A. auto.
    + destruct (value_between_explicit c m j x0 y0 x1 y1 x2 y2 x SF E0 E1 E2) as (_ & _ & _ & A & _); [lia|auto].
  - destruct (Z.eq_dec x x2) as [E|E].
    + subst x. destruct (value_at_node c m (S j) x2 y2 SF E2) as (A & _). apply A. auto.
    + destruct (value_between_explicit c m j x0 y0 x1 y1 x2 y2 x SF E0 E1 E2) as (_ & _ & _ & _ & A); [lia|auto].
Qed.

(* --- C11_outside: the first / last interval's function of x is used beyond the ends *)
Lemma value_outside c m x0 y0 x1 y1 xa ya xb yb : sortedF c m -> c_rule c <> Null ->
  nth_error m 0 = Some (x0, y0) -> nth_error m 1%nat = Some (x1, y1) ->
  nth_error m (length m - 2) = Some (xa, ya) -> nth_error m (length m - 1) = Some (xb, yb) ->
  (forall x, (x <= x1)%Z -> interpolated_value c x = Ok (NF (closed_form (c_rule c) x0 x0 y0 x1 y1 x))) /\
  (forall x, (xa < x)%Z -> interpolated_value c x = Ok (NF (closed_form (c_rule c) x0 xa ya xb yb x))) /\
  (forall x, (x < x0)%Z -> (c_rule c = FlatForward \/ c_rule c = FlatBackward) -> interpolated_value c x = Ok (NF y0)) /\
  (forall x, (xb < x)%Z -> (c_rule c = FlatForward \/ c_rule c = FlatBackward) -> interpolated_value c x = Ok (NF yb)).
Proof.
  intros SF NN E0 E1 Ea Eb. assert (SF' := SF). destruct SF' as (En & Hs & L).
  assert (Lab : (xa < xb)%Z) by (apply (ksorted_nth_lt m (length m - 2) (length m - 1) (xa, ya) (xb, yb)); auto; lia).
  assert (L01 : (x0 < x1)%Z) by (apply (ksorted_nth_lt m 0 1 (x0, y0) (x1, y1)); auto).
  assert (A1 : forall x, (x <= x1)%Z -> interpolated_value c x = Ok (NF (closed_form (c_rule c) x0 x0 y0 x1 y1 x))).
  { intros x Hx. destruct (Z_le_gt_dec x x0).
    - apply (value_before c m x0 y0 x1 y1 x); auto.
    - apply (value_between c m 0 x0 y0 x0 y0 x1 y1 x); auto. lia. }
  assert (A2 : forall x, (xa < x)%Z -> interpolated_value c x = Ok (NF (closed_form (c_rule c) x0 xa ya xb yb x))).
  { intros x Hx. destruct (Z_le_gt_dec x xb).
    - apply (value_between c m (length m - 2) x0 y0 xa ya xb yb x); auto.
      replace (S (length m - 2)) with (length m - 1)%nat by lia. auto.
    - apply (value_after c m x0 y0 xa ya xb yb x); auto. lia. }
  split; [exact A1|]. split; [exact A2|]. split.
  - intros x Hx R. rewrite A1 by lia. destruct R as [R|R]; rewrite R; cbn -[Z.geb Z.leb].
    + destruct (Z.geb_spec x x1); [lia|reflexivity].
    + destruct (Z.leb_spec x x0); [reflexivity|lia].
  - intros x Hx R. rewrite A2 by lia. destruct R as [R|R]; rewrite R; cbn -[Z.geb Z.leb].
    + destruct (Z.geb_spec x xb); [reflexivity|lia].
    + destruct (Z.leb_spec x xa); [lia|reflexivity].
Qed.

(* --- construction: sorted nodes, independent of the supply order *)
Section OrderFree.
  Context {T : Type} `{Num T}.
  Definition tskeys {V} (m : list (Z * V)) : list Z := map (fun kv => ts_of_ns (fst kv)) m.
  Inductive nodes_perm : nodes T -> nodes T -> Prop :=
  | NPF m m' : Permutation m m' -> nodes_perm (NsF m) (NsF m')
  | NPD m m' : Permutation m m' -> nodes_perm (NsD m) (NsD m')
  | NPD2 m m' : Permutation m m' -> nodes_perm (NsD2 m) (NsD2 m').
  Definition nodes_tskeys (n : nodes T) : list Z :=
    match n with NsF m => tskeys m | NsD m => tskeys m | NsD2 m => tskeys m end.

  Lemma try_new_order_free (n n' : nodes T) r id b : nodes_perm n n' -> NoDup (nodes_tskeys n) ->
    curve_try_new n r id b = curve_try_new n' r id b.
  Proof.
    intros P ND. unfold curve_try_new. f_equal.
    destruct P as [m m' P|m m' P|m m' P]; cbn in *; f_equal; apply retime_perm; auto.
  Qed.

  Lemma ts_nodup_ns {V} (m : list (Z * V)) : NoDup (tskeys m) -> NoDup (keys m).
  Proof.
    unfold tskeys, keys. intros ND. rewrite <- (map_map fst ts_of_ns) in ND.
    eapply NoDup_map_inv; eauto.
  Qed.
  Lemma nodes_into_order_free (m m' : list (Z * number T)) ad id : Permutation m m' -> NoDup (tskeys m) ->
    nodes_into_order m ad id = nodes_into_order m' ad id.
  Proof.
    intros P ND. unfold nodes_into_order.
    rewrite (sort_keys_perm_eq m m'); auto using ts_nodup_ns.
    rewrite (Permutation_length P). reflexivity.
  Qed.
  Lemma new_py_order_free (m m' : list (Z * number T)) r ad id b : Permutation m m' -> NoDup (tskeys m) ->
    curve_new_py m r ad id b = curve_new_py m' r ad id b.
  Proof. intros P ND. unfold curve_new_py. rewrite (nodes_into_order_free m m'); auto. Qed.
End OrderFree.

Lemma try_new_sortedF (m : list (Z * R)) r id b : NoDup (tskeys m) -> (2 <= length m)%nat ->
  exists s, sortedF (curve_try_new (NsF m) r id b) s /\
            Permutation s (map (fun kv => (ts_of_ns (fst kv), snd kv)) m).
Proof.
  intros ND L. exists (sort_keys Z.leb (retime m)).
  destruct (retime_sorted m ND) as [A B]. split; auto. split; [reflexivity|]. split; [exact A|].
  rewrite (Permutation_length B), map_length. exact L.
Qed.
