(* Lemmas for C11 (curve look-ups) and C12 (curve sensitivities, order switches) about
   Model/Curve.v.  Real-number statements are at T := R (Base/NumR.v). *)
From Coq Require Import Reals ZArith List Bool Lra Lia Sorting.Permutation Sorting.Sorted Psatz.
From Coquelicot Require Import Coquelicot.
From RL Require Import Base.Num Base.Str Base.NumR Base.Outcome Model.Dual Model.Number Model.Curve Proofs.NumRP Proofs.DualP.
Import ListNotations.
Local Open Scope nat_scope.

(* ====================================================================================== *)
(* Part A: index_left = right-closed interval search, clamped (any decidable total order) *)
Section IndexLeftP.
  Context {A : Type} (le : A -> A -> Prop) (leb eqb : A -> A -> bool).
  Hypothesis leb_le : forall a b, leb a b = true <-> le a b.
  Hypothesis eqb_eq : forall a b, eqb a b = true <-> a = b.
  Hypothesis le_refl : forall a, le a a.
  Hypothesis le_trans : forall a b c, le a b -> le b c -> le a c.
  Hypothesis le_antisym : forall a b, le a b -> le b a -> a = b.
  Hypothesis le_total : forall a b, le a b \/ le b a.

  Definition ltA (a b : A) : Prop := ~ le b a.
  Lemma ltA_le a b : ltA a b -> le a b.
  Proof. unfold ltA. intros N. destruct (le_total a b); tauto. Qed.
  Lemma ltA_trans_le a b c : ltA a b -> le b c -> ltA a c.
  Proof. unfold ltA. intros N L C. apply N. eapply le_trans; eauto. Qed.
  Lemma le_trans_ltA a b c : le a b -> ltA b c -> ltA a c.
  Proof. unfold ltA. intros L N C. apply N. eapply le_trans; eauto. Qed.
  Lemma leb_false a b : leb a b = false <-> ltA b a.
  Proof. unfold ltA. rewrite <- leb_le. destruct (leb a b); split; congruence. Qed.

  (* number of elements strictly below v *)
  Definition cnt_lt (v : A) (l : list A) : nat := length (filter (fun a => negb (leb v a)) l).
  Lemma cnt_lt_app v l1 l2 : cnt_lt v (l1 ++ l2) = cnt_lt v l1 + cnt_lt v l2.
  Proof. unfold cnt_lt. rewrite filter_app, app_length. reflexivity. Qed.
  Lemma cnt_lt_all v l : (forall a, In a l -> ltA a v) -> cnt_lt v l = length l.
  Proof.
    induction l as [|a l IH]; intros Hl; cbn; auto. unfold cnt_lt in *. cbn.
    assert (E : leb v a = false) by (apply leb_false; apply Hl; left; auto).
    rewrite E. cbn. f_equal. apply IH. intros; apply Hl; right; auto.
  Qed.
  Lemma cnt_lt_none v l : (forall a, In a l -> le v a) -> cnt_lt v l = 0.
  Proof.
    induction l as [|a l IH]; intros Hl; cbn; auto. unfold cnt_lt in *. cbn.
    assert (E : leb v a = true) by (apply leb_le; apply Hl; left; auto).
    rewrite E. cbn. apply IH. intros; apply Hl; right; auto.
  Qed.
  Lemma cnt_lt_le_length v l : cnt_lt v l <= length l.
  Proof. unfold cnt_lt. induction l as [|a l IH]; cbn; auto. destruct (negb (leb v a)); cbn; lia. Qed.

  Definition ssorted (l : list A) : Prop := StronglySorted ltA l.
  Lemma ssorted_app_inv l1 l2 : ssorted (l1 ++ l2) ->
    ssorted l1 /\ ssorted l2 /\ (forall a b, In a l1 -> In b l2 -> ltA a b).
  Proof.
    induction l1 as [|x l1 IH]; cbn; intros S.
    - repeat split; auto. constructor. intros a b [].
    - inversion S as [|? ? S' F]; subst. destruct (IH S') as (S1 & S2 & C).
      rewrite Forall_forall in F. repeat split; auto.
      + constructor; auto. apply Forall_forall. intros y Hy. apply F. apply in_or_app; auto.
      + intros a b [E|I] Hb; [subst; apply F; apply in_or_app; auto | apply C; auto].
  Qed.
  Lemma ssorted_app l1 l2 : ssorted l1 -> ssorted l2 -> (forall a b, In a l1 -> In b l2 -> ltA a b) ->
    ssorted (l1 ++ l2).
  Proof.
    induction l1 as [|x l1 IH]; cbn; intros S1 S2 C; auto.
    inversion S1 as [|? ? S' F]; subst. constructor.
    - apply IH; auto.
    - rewrite Forall_forall in *. intros y Hy. apply in_app_or in Hy. destruct Hy; auto.
  Qed.

  Lemma split_at (l : list A) k p : nth_error l k = Some p ->
    l = firstn k l ++ p :: skipn (S k) l /\ firstn (S k) l = firstn k l ++ [p] /\ skipn k l = p :: skipn (S k) l
    /\ length (firstn k l) = k.
  Proof.
    revert k; induction l as [|a l IH]; intros [|k] E; cbn in *; try discriminate.
    - inversion E; subst. auto.
    - destruct (IH k E) as (E1 & E2 & E3 & E4). repeat split; try congruence.
  Qed.

  (* the position selected: clamp 0 (n-2) (cnt-1) in natural-number arithmetic *)
  Definition pos_of (n c : nat) : nat := Nat.min (n - 2) (c - 1).

  Lemma index_left_go_spec : forall fuel l v lc, ssorted l -> 2 <= length l -> length l <= fuel ->
    index_left_go leb eqb fuel l v lc = Ok (lc + pos_of (length l) (cnt_lt v l)).
  Proof.
    induction fuel as [|f IH]; intros l v lc Sl L2 Lf; [lia|].
    cbn [index_left_go].
    destruct (length l) as [|[|[|m]]] eqn:EL; try lia.
    - unfold pos_of. cbn. f_equal. lia.
    - set (n := S (S (S m))) in *.
      set (split := (n - 1) / 2).
      assert (Hs : 1 <= split /\ split + 2 <= n).
      { unfold split. split.
        - apply Nat.div_le_lower_bound; lia.
        - assert (2 * ((n - 1) / 2) <= n - 1) by (apply Nat.mul_div_le; lia). lia. }
      destruct (nth_error l split) as [p|] eqn:EP.
      2:{ apply nth_error_None in EP. lia. }
      destruct (split_at l split p EP) as (E1 & E2 & E3 & E4).
      remember (firstn split l) as l1 eqn:Hl1. remember (skipn (S split) l) as l2 eqn:Hl2. clear Hl1 Hl2.
      assert (SS := Sl). rewrite E1 in SS. apply ssorted_app_inv in SS.
      destruct SS as (S1 & S2 & C12).
      assert (Sp2 : forall b, In b l2 -> ltA p b).
      { inversion S2 as [|? ? ? F]; subst. rewrite Forall_forall in F. exact F. }
      assert (S1p : forall a, In a l1 -> ltA a p) by (intros a Ha; apply C12; [auto|left; auto]).
      assert (Ll : n = split + S (length l2)).
      { rewrite <- EL. rewrite E1 at 1. rewrite app_length. cbn. rewrite E4. reflexivity. }
      assert (Cnt : cnt_lt v l = cnt_lt v l1 + (cnt_lt v [p] + cnt_lt v l2)).
      { rewrite E1 at 1. rewrite cnt_lt_app. change (p :: l2) with ([p] ++ l2). rewrite cnt_lt_app. reflexivity. }
      destruct (Nat.eqb n 3 && eqb v p) eqn:E3p.
      + apply andb_true_iff in E3p. destruct E3p as [En Ev]. apply Nat.eqb_eq in En. apply eqb_eq in Ev. subst p.
        f_equal. unfold pos_of.
        assert (cnt_lt v l2 = 0) by (apply cnt_lt_none; intros; apply ltA_le; auto).
        assert (cnt_lt v [v] = 0) by (apply cnt_lt_none; intros a [E|[]]; subst; apply le_refl).
        assert (cnt_lt v l1 = length l1) by (apply cnt_lt_all; auto).
        lia.
      + destruct (leb v p) eqn:Evp.
        * apply leb_le in Evp.
          rewrite IH.
          -- f_equal. f_equal. rewrite E2.
             assert (cnt_lt v l2 = 0).
             { apply cnt_lt_none. intros b Hb. apply ltA_le. eapply le_trans_ltA; eauto. }
             assert (cnt_lt v [p] = 0) by (apply cnt_lt_none; intros a [E|[]]; subst; auto).
             rewrite cnt_lt_app, app_length. cbn [length]. rewrite E4.
             assert (cnt_lt v l1 <= length l1) by apply cnt_lt_le_length.
             unfold pos_of. lia.
          -- rewrite E2. apply ssorted_app; auto.
             ++ constructor; constructor.
             ++ intros a b Ha [Hb|[]]; subst; auto.
          -- rewrite E2, app_length. cbn. lia.
          -- rewrite E2, app_length. cbn. lia.
        * apply leb_false in Evp.
          rewrite IH.
          -- f_equal. rewrite E3.
             assert (cnt_lt v l1 = length l1).
             { apply cnt_lt_all. intros a Ha. eapply le_trans_ltA; [apply ltA_le; apply S1p; auto|auto]. }
             assert (cnt_lt v [p] = 1).
             { unfold cnt_lt. cbn. apply leb_false in Evp. rewrite Evp. reflexivity. }
             change (p :: l2) with ([p] ++ l2). rewrite cnt_lt_app. cbn [length app].
             assert (cnt_lt v l2 <= length l2) by apply cnt_lt_le_length.
             unfold pos_of. lia.
          -- rewrite E3. exact S2.
          -- rewrite E3. cbn. lia.
          -- rewrite E3. cbn. lia.
  Qed.

  Lemma index_left_cnt l v : ssorted l -> 2 <= length l ->
    index_left leb eqb l v = Ok (pos_of (length l) (cnt_lt v l)).
  Proof.
    intros S L. unfold index_left, index_left_lc. rewrite index_left_go_spec; auto.
  Qed.
  Lemma index_left_lc_cnt l v lc : ssorted l -> 2 <= length l ->
    index_left_lc leb eqb l v (Some lc) = Ok (lc + pos_of (length l) (cnt_lt v l)).
  Proof. intros S L. unfold index_left_lc. rewrite index_left_go_spec; auto. Qed.

  (* cnt_lt is "the first index whose element is >= v (n if none)" *)
  Lemma cnt_lt_first l v (d : A) j : ssorted l -> j <= length l ->
    (forall i, i < j -> ltA (nth i l d) v) -> (j < length l -> le v (nth j l d)) -> cnt_lt v l = j.
  Proof.
    intros S Lj Hlt Hge.
    rewrite <- (firstn_skipn j l) in S |- *. apply ssorted_app_inv in S. destruct S as (S1 & S2 & C).
    rewrite cnt_lt_app.
    assert (L1 : length (firstn j l) = j) by (rewrite firstn_length; lia).
    rewrite (cnt_lt_all v (firstn j l)).
    - rewrite (cnt_lt_none v (skipn j l)); [lia|].
      intros a Ha. destruct (skipn j l) as [|b r] eqn:ES; [destruct Ha|].
      assert (Lt : j < length l).
      { destruct (Nat.lt_ge_cases j (length l)); auto. rewrite skipn_all2 in ES; [discriminate|lia]. }
      assert (Eb : nth j l d = b).
      { rewrite <- (firstn_skipn j l) at 1. rewrite app_nth2; rewrite L1; [|lia]. rewrite Nat.sub_diag, ES. reflexivity. }
      specialize (Hge Lt). rewrite Eb in Hge.
      destruct Ha as [E|Ha]; [subst; auto|].
      inversion S2 as [|? ? ? F]; subst. rewrite Forall_forall in F. eapply le_trans; [exact Hge|apply ltA_le; auto].
    - intros a Ha. apply (In_nth _ _ d) in Ha. destruct Ha as (i & Hi & E). rewrite L1 in Hi.
      rewrite <- E. rewrite <- (firstn_skipn j l) in Hlt. specialize (Hlt i Hi). rewrite app_nth1 in Hlt; [auto|lia].
  Qed.

  Theorem index_left_spec l v (d : A) j : ssorted l -> 2 <= length l -> j <= length l ->
    (forall i, i < j -> ltA (nth i l d) v) -> (j < length l -> le v (nth j l d)) ->
    index_left leb eqb l v = Ok (Nat.min (length l - 2) (j - 1)).
  Proof.
    intros S L Lj H1 H2. rewrite index_left_cnt; auto. rewrite (cnt_lt_first l v d j); auto.
  Qed.
  (* such a j always exists *)
  Lemma cnt_lt_is_first l v (d : A) : ssorted l ->
    let j := cnt_lt v l in
    j <= length l /\ (forall i, i < j -> ltA (nth i l d) v) /\ (j < length l -> le v (nth j l d)).
  Proof.
    intros S. induction l as [|a l IH]; cbn.
    - split; [|split]; [unfold cnt_lt; cbn; lia|intros i Hi; exfalso; unfold cnt_lt in Hi; cbn in Hi; lia|unfold cnt_lt; cbn; lia].
    - inversion S as [|? ? S' F]; subst. specialize (IH S'). cbn in IH. destruct IH as (I1 & I2 & I3).
      unfold cnt_lt in *. cbn. destruct (leb v a) eqn:E; cbn.
      + apply leb_le in E.
        assert (Z0 : length (filter (fun a0 => negb (leb v a0)) l) = 0).
        { apply (cnt_lt_none v l). rewrite Forall_forall in F. intros b Hb. eapply le_trans; [exact E|apply ltA_le; auto]. }
        rewrite Z0. split; [|split]; [lia|intros i Hi; exfalso; lia|intros _; exact E].
      + apply leb_false in E. split; [|split]; [lia| |].
        * intros [|i] Hi; auto. apply I2. lia.
        * intros Hj. apply I3. lia.
  Qed.
End IndexLeftP.

(* ====================================================================================== *)
(* Part B: IndexMap::from_iter, sort_keys on integer keys *)
Lemma ltA_Z a b : ltA Z.le a b <-> (a < b)%Z.
Proof. unfold ltA. lia. Qed.
Lemma ssorted_Z l : ssorted Z.le l <-> StronglySorted Z.lt l.
Proof.
  unfold ssorted. split; intros S; induction S; constructor; auto;
    rewrite Forall_forall in *; intros y Hy; apply ltA_Z; auto.
Qed.
Definition zle_leb : forall a b, Z.leb a b = true <-> (a <= b)%Z := Z.leb_le.
Definition zeq_eqb : forall a b, Z.eqb a b = true <-> a = b := Z.eqb_eq.
Lemma zle_antisym : forall a b : Z, (a <= b)%Z -> (b <= a)%Z -> a = b. Proof. intros; lia. Qed.
Lemma zle_total : forall a b : Z, (a <= b)%Z \/ (b <= a)%Z. Proof. intros; lia. Qed.

Section SortP.
  Context {V : Type}.
  Notation kv := (Z * V)%type.
  Definition keys (m : list kv) : list Z := map fst m.
  Definition ksorted (m : list kv) : Prop := StronglySorted Z.lt (keys m).

  Lemma im_insert_fresh k v (m : list kv) : ~ In k (keys m) -> im_insert Z.eqb k v m = m ++ [(k, v)].
  Proof.
    induction m as [|[k' v'] m IH]; cbn; intros N; auto.
    destruct (Z.eqb_spec k k'); [subst; tauto|]. f_equal. apply IH. tauto.
  Qed.
  Lemma im_from_iter_acc (l acc : list kv) : NoDup (keys (acc ++ l)) ->
    fold_left (fun m p => im_insert Z.eqb (fst p) (snd p) m) l acc = acc ++ l.
  Proof.
    revert acc; induction l as [|[k v] l IH]; intros acc ND; cbn.
    - rewrite app_nil_r. reflexivity.
    - rewrite im_insert_fresh.
      + rewrite IH; rewrite <- app_assoc; cbn; auto.
      + unfold keys in ND. rewrite map_app in ND. cbn in ND. apply NoDup_remove_2 in ND.
        intros I. apply ND. apply in_or_app. left. exact I.
  Qed.
  Lemma im_from_iter_nodup (l : list kv) : NoDup (keys l) -> im_from_iter Z.eqb l = l.
  Proof. intros ND. unfold im_from_iter. rewrite im_from_iter_acc; auto. Qed.

  Lemma ins_sorted_perm (p : kv) m : Permutation (ins_sorted Z.leb p m) (p :: m).
  Proof.
    induction m as [|h r IH]; cbn; auto. destruct (Z.leb (fst p) (fst h)); auto.
    eapply perm_trans; [apply perm_skip; exact IH|apply perm_swap].
  Qed.
  Lemma sort_keys_perm (m : list kv) : Permutation (sort_keys Z.leb m) m.
  Proof.
    induction m as [|h r IH]; cbn; auto. eapply perm_trans; [apply ins_sorted_perm|auto].
  Qed.
  Lemma ins_sorted_sorted (p : kv) m : ksorted m -> ~ In (fst p) (keys m) -> ksorted (ins_sorted Z.leb p m).
  Proof.
    unfold ksorted. induction m as [|h r IH]; cbn; intros S N.
    - constructor; constructor.
    - inversion S as [|? ? S' F]; subst. destruct (Z.leb_spec (fst p) (fst h)).
      + cbn. constructor; auto. constructor; [lia|].
        rewrite Forall_forall in *. intros y Hy. specialize (F y Hy). lia.
      + cbn. constructor; [apply IH; tauto|].
        assert (P := ins_sorted_perm p r). apply (Permutation_map fst) in P.
        rewrite Forall_forall in *. intros y Hy. eapply Permutation_in in Hy; [|exact P].
        cbn in Hy. destruct Hy as [E|Hy]; [lia|auto].
  Qed.
  Lemma sort_keys_sorted (m : list kv) : NoDup (keys m) -> ksorted (sort_keys Z.leb m).
  Proof.
    induction m as [|h r IH]; cbn; intros ND; [constructor|].
    inversion ND; subst. apply ins_sorted_sorted; auto.
    intros I. assert (P := sort_keys_perm r). apply (Permutation_map fst) in P.
    eapply Permutation_in in I; [|exact P]. contradiction.
  Qed.
  Lemma ksorted_perm_eq (m m' : list kv) : ksorted m -> ksorted m' -> Permutation m m' -> m = m'.
  Proof.
    unfold ksorted. revert m'; induction m as [|a t IH]; intros m' S S' P.
    - apply Permutation_nil in P. auto.
    - destruct m' as [|b t']; [apply Permutation_sym, Permutation_nil in P; discriminate|].
      cbn in S, S'. inversion S as [|? ? S1 F1]; inversion S' as [|? ? S2 F2]; subst.
      rewrite Forall_forall in F1, F2.
      assert (E : a = b).
      { assert (Ia : In a (b :: t')) by (eapply Permutation_in; [exact P|left; auto]).
        assert (Ib : In b (a :: t)) by (eapply Permutation_in; [apply Permutation_sym; exact P|left; auto]).
        destruct Ia as [E|Ia]; auto. destruct Ib as [E|Ib]; auto.
        assert ((fst b < fst a)%Z) by (apply F2; apply in_map; auto).
        assert ((fst a < fst b)%Z) by (apply F1; apply in_map; auto). lia. }
      subst b. f_equal. apply IH; auto. eapply Permutation_cons_inv; eauto.
  Qed.
  Lemma sort_keys_perm_eq (m m' : list kv) : NoDup (keys m) -> Permutation m m' ->
    sort_keys Z.leb m = sort_keys Z.leb m'.
  Proof.
    intros ND P.
    assert (ND' : NoDup (keys m')).
    { eapply Permutation_NoDup; [apply Permutation_map; exact P|exact ND]. }
    apply ksorted_perm_eq; try apply sort_keys_sorted; auto.
    eapply perm_trans; [apply sort_keys_perm|]. eapply perm_trans; [exact P|].
    apply Permutation_sym, sort_keys_perm.
  Qed.
  Lemma ksorted_nodup (m : list kv) : ksorted m -> NoDup (keys m).
  Proof.
    unfold ksorted. induction 1 as [|a l S IH F]; constructor; auto.
    rewrite Forall_forall in F. intros I. specialize (F a I). lia.
  Qed.
  Lemma sort_keys_id (m : list kv) : ksorted m -> sort_keys Z.leb m = m.
  Proof.
    intros S. apply ksorted_perm_eq; auto.
    - apply sort_keys_sorted. apply ksorted_nodup; auto.
    - apply sort_keys_perm.
  Qed.
  Lemma sort_keys_length (m : list kv) : length (sort_keys Z.leb m) = length m.
  Proof. apply Permutation_length, sort_keys_perm. Qed.

  (* look-ups in a key-sorted list *)
  Lemma ksorted_nth_lt (m : list kv) i j p q : ksorted m -> nth_error m i = Some p -> nth_error m j = Some q ->
    i < j -> (fst p < fst q)%Z.
  Proof.
    unfold ksorted. revert i j; induction m as [|a t IH]; intros i j S Ei Ej L; [destruct i; discriminate|].
    cbn in S. inversion S as [|? ? S' F]; subst. rewrite Forall_forall in F.
    destruct j as [|j]; [lia|]. cbn in Ej. destruct i as [|i]; cbn in Ei.
    - inversion Ei; subst. apply F. apply in_map. eapply nth_error_In; eauto.
    - eapply IH; eauto. lia.
  Qed.
End SortP.

(* index_left on the keys of a key-sorted IndexMap: the cnt_lt of Part A, instantiated at Z *)
Definition zcnt (x : Z) (ks : list Z) : nat := cnt_lt Z.leb x ks.
Lemma index_left_Z ks x : StronglySorted Z.lt ks -> 2 <= length ks ->
  index_left Z.leb Z.eqb ks x = Ok (pos_of (length ks) (zcnt x ks)).
Proof.
  intros S L. apply (index_left_cnt Z.le);
    first [exact zle_leb | exact zeq_eqb | exact Z.le_refl | exact Z.le_trans | exact zle_total | exact zle_antisym
          | apply ssorted_Z; exact S | exact L].
Qed.
Lemma zcnt_first ks x j : StronglySorted Z.lt ks -> j <= length ks ->
  (forall i, i < j -> (nth i ks 0 < x)%Z) -> (j < length ks -> (x <= nth j ks 0)%Z) -> zcnt x ks = j.
Proof.
  intros S L H1 H2. apply (cnt_lt_first Z.le) with (d := 0%Z);
    first [exact zle_leb | exact zeq_eqb | exact Z.le_refl | exact Z.le_trans | exact zle_total | exact zle_antisym
          | apply ssorted_Z; exact S | exact L | exact H2 | idtac].
  intros i Hi. apply ltA_Z. auto.
Qed.

(* ====================================================================================== *)
(* Part C: which two nodes a look-up uses *)
Section FormP.
  Context {T : Type} `{Num T} {U : Type} (o : iops T U).
  (* the expression evaluated from the first node p0 and the bracketing nodes p1, p2 *)
  Definition form (r : rule) (p0 p1 p2 : Z * U) (x : Z) : U :=
    match r with
    | Linear => linear_interp o (nofZ (fst p1)) (snd p1) (nofZ (fst p2)) (snd p2) (nofZ x)
    | LogLinear => log_linear_interp o (nofZ (fst p1)) (snd p1) (nofZ (fst p2)) (snd p2) (nofZ x)
    | LinearZeroRate =>
        linear_zero_interp o (nofZ (fst p0)) (nofZ (fst p1)) (snd p1) (nofZ (fst p2)) (snd p2) (nofZ x)
    | FlatForward => if (x >=? fst p2)%Z then snd p2 else snd p1
    | FlatBackward => if (x <=? fst p1)%Z then snd p1 else snd p2
    | Null => snd p1
    end.
  Definition interval_of (m : list (Z * U)) (x : Z) : nat := pos_of (length m) (zcnt x (keys m)).

  Lemma interval_of_lt m x : 2 <= length m -> S (interval_of m x) < length m.
  Proof. unfold interval_of, pos_of. lia. Qed.

  Lemma interp_at_form r (m : list (Z * U)) x : ksorted m -> 2 <= length m -> r <> Null ->
    exists p0 p1 p2, nth_error m 0 = Some p0 /\ nth_error m (interval_of m x) = Some p1 /\
      nth_error m (S (interval_of m x)) = Some p2 /\ interp_at o r m x = Ok (form r p0 p1 p2 x).
  Proof.
    intros Hs L NN. assert (Hi := interval_of_lt m x L).
    destruct (nth_error m 0) as [p0|] eqn:E0; [|apply nth_error_None in E0; lia].
    destruct (nth_error m (interval_of m x)) as [p1|] eqn:E1; [|apply nth_error_None in E1; lia].
    destruct (nth_error m (S (interval_of m x))) as [p2|] eqn:E2; [|apply nth_error_None in E2; lia].
    exists p0, p1, p2. repeat split; auto.
    assert (IL : index_left Z.leb Z.eqb (map fst m) x = Ok (interval_of m x)).
    { unfold interval_of. rewrite <- (map_length fst m). apply index_left_Z; [exact Hs|unfold keys; rewrite map_length; exact L]. }
    unfold interp_at. rewrite IL. cbn [obind]. unfold get_index. rewrite Nat.add_1_r, E0, E1, E2.
    destruct r; cbn [obind form]; try reflexivity. congruence.
  Qed.

  Lemma keys_nth (m : list (Z * U)) i p : nth_error m i = Some p -> nth i (keys m) 0%Z = fst p.
  Proof.
    intros E. unfold keys. change 0%Z with (fst (0%Z, snd p)). rewrite map_nth.
    erewrite nth_error_nth; eauto.
  Qed.
  Lemma nth_error_some_lt (m : list (Z * U)) i : i < length m -> exists p, nth_error m i = Some p.
  Proof. intros L. destruct (nth_error m i) eqn:E; eauto. apply nth_error_None in E. lia. Qed.

  (* x in (k_j, k_{j+1}] *)
  Lemma zcnt_between (m : list (Z * U)) j p q x : ksorted m ->
    nth_error m j = Some p -> nth_error m (S j) = Some q -> (fst p < x <= fst q)%Z ->
    zcnt x (keys m) = S j.
  Proof.
    intros Hs Ep Eq Hx.
    assert (Lq : S j < length m) by (apply nth_error_Some; congruence).
    apply zcnt_first; auto.
    - unfold keys. rewrite map_length. lia.
    - intros i Hi. destruct (nth_error_some_lt m i) as [pi Ei]; [lia|].
      rewrite (keys_nth m i pi Ei).
      destruct (Nat.eq_dec i j); [subst; assert (pi = p) by congruence; subst; lia|].
      assert ((fst pi < fst p)%Z) by (eapply ksorted_nth_lt; eauto; lia). lia.
    - intros _. rewrite (keys_nth m (S j) q Eq). lia.
  Qed.
  (* x <= k_0 *)
  Lemma zcnt_before (m : list (Z * U)) p x : ksorted m -> nth_error m 0 = Some p -> (x <= fst p)%Z ->
    zcnt x (keys m) = 0.
  Proof.
    intros Hs Ep Hx.
    apply zcnt_first; [exact Hs|lia|intros i Hi; lia|intros _; rewrite (keys_nth m 0 p Ep); exact Hx].
  Qed.
  (* x > k_{n-1} *)
  Lemma zcnt_after (m : list (Z * U)) p x : ksorted m -> nth_error m (length m - 1) = Some p -> (fst p < x)%Z ->
    zcnt x (keys m) = length m.
  Proof.
    intros Hs Ep Hx.
    assert (Lp : length m - 1 < length m) by (apply nth_error_Some; congruence).
    rewrite <- (map_length fst m). apply zcnt_first; auto.
    - intros i Hi. unfold keys in Hi. rewrite map_length in Hi.
      destruct (nth_error_some_lt m i Hi) as [pi Ei]. rewrite (keys_nth m i pi Ei).
      destruct (Nat.eq_dec i (length m - 1)); [subst; assert (pi = p) by congruence; subst; lia|].
      assert ((fst pi < fst p)%Z) by (eapply ksorted_nth_lt; eauto; lia). lia.
    - unfold keys. lia.
  Qed.

  (* the interval used, in the four situations *)
  Lemma interval_between m j p q x : ksorted m -> nth_error m j = Some p -> nth_error m (S j) = Some q ->
    (fst p < x <= fst q)%Z -> interval_of m x = j.
  Proof.
    intros Hs Ep Eq Hx. unfold interval_of. rewrite (zcnt_between m j p q x); auto.
    assert (S j < length m) by (apply nth_error_Some; congruence). unfold pos_of. lia.
  Qed.
  Lemma interval_before m p x : ksorted m -> nth_error m 0 = Some p -> (x <= fst p)%Z -> interval_of m x = 0.
  Proof. intros Hs Ep Hx. unfold interval_of. rewrite (zcnt_before m p x); auto. unfold pos_of. lia. Qed.
  Lemma interval_after m p x : ksorted m -> 2 <= length m -> nth_error m (length m - 1) = Some p -> (fst p < x)%Z ->
    interval_of m x = length m - 2.
  Proof. intros Hs L Ep Hx. unfold interval_of. rewrite (zcnt_after m p x); auto. unfold pos_of. lia. Qed.
  (* a look-up expressed with the nodes it uses *)
  Lemma lookup_between r m j p0 p q x : ksorted m -> 2 <= length m -> r <> Null ->
    nth_error m 0 = Some p0 -> nth_error m j = Some p -> nth_error m (S j) = Some q ->
    (fst p < x <= fst q)%Z -> interp_at o r m x = Ok (form r p0 p q x).
  Proof.
    intros Hs L NN E0 Ep Eq Hx. destruct (interp_at_form r m x Hs L NN) as (a0 & a1 & a2 & A0 & A1 & A2 & AV).
    rewrite (interval_between m j p q x Hs Ep Eq Hx) in A1, A2. rewrite AV. congruence.
  Qed.
  Lemma lookup_before r m p0 q x : ksorted m -> 2 <= length m -> r <> Null ->
    nth_error m 0 = Some p0 -> nth_error m 1 = Some q -> (x <= fst p0)%Z ->
    interp_at o r m x = Ok (form r p0 p0 q x).
  Proof.
    intros Hs L NN E0 Eq Hx. destruct (interp_at_form r m x Hs L NN) as (a0 & a1 & a2 & A0 & A1 & A2 & AV).
    rewrite (interval_before m p0 x Hs E0 Hx) in A1, A2. rewrite AV. congruence.
  Qed.
  Lemma lookup_after r m p0 p q x : ksorted m -> 2 <= length m -> r <> Null ->
    nth_error m 0 = Some p0 -> nth_error m (length m - 2) = Some p -> nth_error m (length m - 1) = Some q ->
    (fst q < x)%Z -> interp_at o r m x = Ok (form r p0 p q x).
  Proof.
    intros Hs L NN E0 Ep Eq Hx. destruct (interp_at_form r m x Hs L NN) as (a0 & a1 & a2 & A0 & A1 & A2 & AV).
    rewrite (interval_after m q x Hs L Eq Hx) in A1, A2.
    replace (S (length m - 2)) with (length m - 1) in A2 by lia. rewrite AV. congruence.
  Qed.
End FormP.

(* ====================================================================================== *)
(* Part D: the closed forms over the reals (C11) *)
Local Open Scope R_scope.
Notation iopsR := (@iops_f R NumR).
Notation curveR := (curve R).

(* the mathematical closed form of each rule on the interval [(x1,y1), (x2,y2)], first node at x0 *)
Definition closed_form (r : rule) (x0 x1 : Z) (y1 : R) (x2 : Z) (y2 : R) (x : Z) : R :=
  let w := (IZR x - IZR x1) / (IZR x2 - IZR x1) in
  match r with
  | Linear => y1 + (y2 - y1) * w
  | LogLinear => exp (ln y1 + (ln y2 - ln y1) * w)
  | LinearZeroRate =>
      let t := IZR x - IZR x0 in let t1 := IZR x1 - IZR x0 in let t2 := IZR x2 - IZR x0 in
      let r2 := - ln y2 / t2 in
      let rt := if (x1 =? x0)%Z then r2
                else let r1 := - ln y1 / t1 in r1 + (r2 - r1) * ((t - t1) / (t2 - t1)) in
      exp (- t * rt)
  | FlatForward => if (x >=? x2)%Z then y2 else y1
  | FlatBackward => if (x <=? x1)%Z then y1 else y2
  | Null => 0
  end.

Lemma form_closed r x0 y0 x1 y1 x2 y2 x : r <> Null ->
  form iopsR r (x0, y0) (x1, y1) (x2, y2) x = closed_form r x0 x1 y1 x2 y2 x.
Proof.
  intros NN. destruct r; try congruence; cbn -[Z.geb Z.leb Z.eqb]; try reflexivity.
  unfold linear_zero_interp, closed_form. cbn -[Z.eqb]. unfold Reqb, nm1. cbn.
  destruct (Req_EM_T (IZR x1 - IZR x0) 0) as [E|E]; destruct (Z.eqb_spec x1 x0) as [E'|E'].
  - f_equal. unfold Rdiv. ring.
  - exfalso. apply E'. apply eq_IZR. lra.
  - exfalso. apply E. subst. lra.
  - f_equal. unfold Rdiv. ring.
Qed.

(* curves whose nodes are float-valued, date-sorted, at least two *)
Definition sortedF (c : curveR) (m : list (Z * R)) : Prop :=
  c_nodes c = NsF m /\ StronglySorted Z.lt (map fst m) /\ (2 <= length m)%nat.

Lemma value_between c m j x0 y0 x1 y1 x2 y2 x : sortedF c m -> c_rule c <> Null ->
  nth_error m 0 = Some (x0, y0) -> nth_error m j = Some (x1, y1) -> nth_error m (S j) = Some (x2, y2) ->
  (x1 < x <= x2)%Z ->
  interpolated_value c x = Ok (NF (closed_form (c_rule c) x0 x1 y1 x2 y2 x)).
Proof.
  intros (En & Hs & L) NN E0 E1 E2 Hx. unfold interpolated_value. rewrite En.
  rewrite (lookup_between iopsR (c_rule c) m j (x0, y0) (x1, y1) (x2, y2) x); auto.
  cbn [omap]. rewrite form_closed; auto.
Qed.
Lemma value_before c m x0 y0 x1 y1 x : sortedF c m -> c_rule c <> Null ->
  nth_error m 0 = Some (x0, y0) -> nth_error m 1%nat = Some (x1, y1) -> (x <= x0)%Z ->
  interpolated_value c x = Ok (NF (closed_form (c_rule c) x0 x0 y0 x1 y1 x)).
Proof.
  intros (En & Hs & L) NN E0 E1 Hx. unfold interpolated_value. rewrite En.
  rewrite (lookup_before iopsR (c_rule c) m (x0, y0) (x1, y1) x); auto.
  cbn [omap]. rewrite form_closed; auto.
Qed.
Lemma value_after c m x0 y0 x1 y1 x2 y2 x : sortedF c m -> c_rule c <> Null ->
  nth_error m 0 = Some (x0, y0) -> nth_error m (length m - 2) = Some (x1, y1) ->
  nth_error m (length m - 1) = Some (x2, y2) -> (x2 < x)%Z ->
  interpolated_value c x = Ok (NF (closed_form (c_rule c) x0 x1 y1 x2 y2 x)).
Proof.
  intros (En & Hs & L) NN E0 E1 E2 Hx. unfold interpolated_value. rewrite En.
  rewrite (lookup_after iopsR (c_rule c) m (x0, y0) (x1, y1) (x2, y2) x); auto.
  cbn [omap]. rewrite form_closed; auto.
Qed.

(* --- the closed forms at the ends of the interval and their bounds *)
Lemma w_bounds x1 x2 x : (x1 <= x <= x2)%Z -> (x1 < x2)%Z ->
  0 <= (IZR x - IZR x1) / (IZR x2 - IZR x1) <= 1.
Proof.
  intros Hx L. assert (0 < IZR x2 - IZR x1) by (apply IZR_lt in L; lra).
  assert (IZR x1 <= IZR x <= IZR x2) by (split; apply IZR_le; lia).
  split.
  - apply Rmult_le_pos; [lra|]. apply Rlt_le, Rinv_0_lt_compat; auto.
  - apply (Rmult_le_reg_r (IZR x2 - IZR x1)); auto. unfold Rdiv. rewrite Rmult_assoc, Rinv_l; lra.
Qed.
Lemma lin_bounds y1 y2 w : 0 <= w <= 1 -> Rmin y1 y2 <= y1 + (y2 - y1) * w <= Rmax y1 y2.
Proof.
  intros Hw. unfold Rmin, Rmax. destruct (Rle_dec y1 y2); split; nra.
Qed.
Lemma closed_linear_bounds x0 x1 y1 x2 y2 x : (x1 <= x <= x2)%Z -> (x1 < x2)%Z ->
  Rmin y1 y2 <= closed_form Linear x0 x1 y1 x2 y2 x <= Rmax y1 y2.
Proof. intros Hx L. cbn. apply lin_bounds. apply w_bounds; auto. Qed.
Lemma closed_loglinear_bounds x0 x1 y1 x2 y2 x : (x1 <= x <= x2)%Z -> (x1 < x2)%Z -> 0 < y1 -> 0 < y2 ->
  Rmin y1 y2 <= closed_form LogLinear x0 x1 y1 x2 y2 x <= Rmax y1 y2.
Proof.
  intros Hx L P1 P2. cbn.
  assert (B := lin_bounds (ln y1) (ln y2) _ (w_bounds x1 x2 x Hx L)).
  assert (M1 : Rmin y1 y2 = exp (Rmin (ln y1) (ln y2))).
  { unfold Rmin. destruct (Rle_dec y1 y2) as [A|A]; destruct (Rle_dec (ln y1) (ln y2)) as [A'|A'];
      try (rewrite exp_ln; auto; fail).
    - exfalso. apply A'. destruct A; [left; apply ln_increasing; auto|subst; right; auto].
    - exfalso. apply A. destruct A' as [A'|A']; [left; apply ln_lt_inv; auto|right; apply ln_inv; auto]. }
  assert (M2 : Rmax y1 y2 = exp (Rmax (ln y1) (ln y2))).
  { unfold Rmax. destruct (Rle_dec y1 y2) as [A|A]; destruct (Rle_dec (ln y1) (ln y2)) as [A'|A'];
      try (rewrite exp_ln; auto; fail).
    - exfalso. apply A'. destruct A; [left; apply ln_increasing; auto|subst; right; auto].
    - exfalso. apply A. destruct A' as [A'|A']; [left; apply ln_lt_inv; auto|right; apply ln_inv; auto]. }
  rewrite M1, M2. destruct B as [B1 B2]. split.
  - destruct B1 as [B1|B1]; [left; apply exp_increasing; auto|right; rewrite B1; auto].
  - destruct B2 as [B2|B2]; [left; apply exp_increasing; auto|right; rewrite B2; auto].
Qed.

Lemma closed_at_left r x0 x1 y1 x2 y2 : (x1 < x2)%Z -> r = Linear \/ r = FlatForward \/ r = FlatBackward ->
  closed_form r x0 x1 y1 x2 y2 x1 = y1.
Proof.
  intros L [E|[E|E]]; subst; cbn -[Z.geb Z.leb].
  - unfold Rdiv. ring.
  - destruct (Z.geb_spec x1 x2); [lia|reflexivity].
  - rewrite Z.leb_refl. reflexivity.
Qed.
Lemma closed_at_right r x0 x1 y1 x2 y2 : (x1 < x2)%Z -> r = Linear \/ r = FlatForward \/ r = FlatBackward ->
  closed_form r x0 x1 y1 x2 y2 x2 = y2.
Proof.
  intros L [E|[E|E]]; subst; cbn -[Z.geb Z.leb].
  - apply IZR_lt in L. field. lra.
  - destruct (Z.geb_spec x2 x2); [reflexivity|lia].
  - destruct (Z.leb_spec x2 x1); [lia|reflexivity].
Qed.
Lemma closed_loglin_left x0 x1 y1 x2 y2 : 0 < y1 -> closed_form LogLinear x0 x1 y1 x2 y2 x1 = y1.
Proof.
  intros P. cbn. replace (ln y1 + (ln y2 - ln y1) * ((IZR x1 - IZR x1) / (IZR x2 - IZR x1))) with (ln y1)
    by (unfold Rdiv; ring). apply exp_ln; auto.
Qed.
Lemma closed_loglin_right x0 x1 y1 x2 y2 : (x1 < x2)%Z -> 0 < y2 -> closed_form LogLinear x0 x1 y1 x2 y2 x2 = y2.
Proof.
  intros L P. cbn. apply IZR_lt in L.
  replace (ln y1 + (ln y2 - ln y1) * ((IZR x2 - IZR x1) / (IZR x2 - IZR x1))) with (ln y2) by (field; lra).
  apply exp_ln; auto.
Qed.
Lemma closed_zero_first x0 y1 x2 y2 : closed_form LinearZeroRate x0 x0 y1 x2 y2 x0 = 1.
Proof.
  cbn -[Z.eqb]. rewrite Z.eqb_refl.
  replace (- (IZR x0 - IZR x0) * (- ln y2 / (IZR x2 - IZR x0))) with 0 by (unfold Rdiv; ring). apply exp_0.
Qed.
Lemma closed_zero_right x0 x1 y1 x2 y2 : (x0 <= x1)%Z -> (x1 < x2)%Z -> 0 < y2 ->
  closed_form LinearZeroRate x0 x1 y1 x2 y2 x2 = y2.
Proof.
  intros L0 L P. cbn -[Z.eqb]. apply IZR_lt in L. apply IZR_le in L0.
  destruct (Z.eqb_spec x1 x0) as [E|E].
  - replace (- (IZR x2 - IZR x0) * (- ln y2 / (IZR x2 - IZR x0))) with (ln y2) by (field; subst; lra).
    apply exp_ln; auto.
  - assert (IZR x1 <> IZR x0) by (intros C; apply eq_IZR in C; auto).
    match goal with |- exp ?a = _ => replace a with (ln y2) by (field; lra) end.
    apply exp_ln; auto.
Qed.

(* --- C11_index *)
Definition clampZ (lo hi v : Z) : Z := Z.max lo (Z.min hi v).
Lemma pos_of_clamp n j : (2 <= n)%nat ->
  pos_of n j = Z.to_nat (clampZ 0 (Z.of_nat n - 2) (Z.of_nat j - 1)).
Proof. intros L. unfold pos_of, clampZ. lia. Qed.

Lemma index_left_first_Z ks x : StronglySorted Z.lt ks -> (2 <= length ks)%nat ->
  (exists j, (j <= length ks)%nat /\ (forall i, (i < j)%nat -> (nth i ks 0 < x)%Z) /\
             ((j < length ks)%nat -> (x <= nth j ks 0)%Z)) /\
  (forall j, (j <= length ks)%nat -> (forall i, (i < j)%nat -> (nth i ks 0 < x)%Z) ->
             ((j < length ks)%nat -> (x <= nth j ks 0)%Z) ->
     index_left Z.leb Z.eqb ks x = Ok (Z.to_nat (clampZ 0 (Z.of_nat (length ks) - 2) (Z.of_nat j - 1)))).
Proof.
  intros Hs L. split.
  - exists (zcnt x ks).
    assert (F : (cnt_lt Z.leb x ks <= length ks)%nat /\
                (forall i, (i < cnt_lt Z.leb x ks)%nat -> ltA Z.le (nth i ks 0%Z) x) /\
                ((cnt_lt Z.leb x ks < length ks)%nat -> (x <= nth (cnt_lt Z.leb x ks) ks 0)%Z)).
    { apply (cnt_lt_is_first Z.le);
        first [exact zle_leb | exact zeq_eqb | exact Z.le_refl | exact Z.le_trans | exact zle_total | exact zle_antisym
              | apply ssorted_Z; exact Hs]. }
    destruct F as (A & B & C).
    split; [exact A|]. split; [|exact C]. intros i Hi. apply ltA_Z. apply B. exact Hi.
  - intros j Lj H1 H2. rewrite index_left_Z; auto. rewrite (zcnt_first ks x j); auto.
    rewrite pos_of_clamp; auto.
Qed.

(* the same search on a list of reals (the f64 entry point of the hook) *)
Lemma rle_leb : forall a b, Rleb a b = true <-> a <= b.
Proof. intros a b. unfold Rleb. destruct (Rle_dec a b); split; auto; discriminate. Qed.
Lemma req_eqb : forall a b, Reqb a b = true <-> a = b.
Proof. intros a b. unfold Reqb. destruct (Req_EM_T a b); split; auto; discriminate. Qed.
Lemma rle_total : forall a b, a <= b \/ b <= a. Proof. intros; lra. Qed.
Lemma ltA_R a b : ltA Rle a b <-> a < b.
Proof. unfold ltA. lra. Qed.
Lemma ssorted_R l : ssorted Rle l <-> StronglySorted Rlt l.
Proof.
  unfold ssorted. split; intros S; induction S; constructor; auto;
    rewrite Forall_forall in *; intros y Hy; apply ltA_R; auto.
Qed.
Lemma index_left_first_R l x : StronglySorted Rlt l -> (2 <= length l)%nat ->
  forall j, (j <= length l)%nat -> (forall i, (i < j)%nat -> nth i l 0 < x) ->
            ((j < length l)%nat -> x <= nth j l 0) ->
     index_left Rleb Reqb l x = Ok (Z.to_nat (clampZ 0 (Z.of_nat (length l) - 2) (Z.of_nat j - 1))).
Proof.
  intros Hs L j Lj H1 H2.
  rewrite (index_left_cnt Rle Rleb Reqb);
    first [exact rle_leb | exact req_eqb | exact Rle_refl | exact Rle_trans | exact rle_total | exact Rle_antisym
          | apply ssorted_R; exact Hs | exact L | idtac].
  rewrite (cnt_lt_first Rle Rleb) with (d := 0) (j := j);
    first [exact rle_leb | exact req_eqb | exact Rle_refl | exact Rle_trans | exact rle_total | exact Rle_antisym
          | apply ssorted_R; exact Hs | exact Lj | exact H2 | idtac].
  - rewrite pos_of_clamp; auto.
  - intros i Hi. apply ltA_R. auto.
Qed.

Lemma node_index_sorted {T} `{Num T} (c : curve T) x : StronglySorted Z.lt (nodes_keys (c_nodes c)) ->
  (2 <= length (nodes_keys (c_nodes c)))%nat ->
  node_index c x = index_left Z.leb Z.eqb (nodes_keys (c_nodes c)) x.
Proof. reflexivity. Qed.

(* --- C11_at_node *)
Lemma sortedF_first c m : sortedF c m -> exists x0 y0 x1 y1, nth_error m 0 = Some (x0, y0) /\
  nth_error m 1%nat = Some (x1, y1) /\ (x0 < x1)%Z.
Proof.
  intros (En & Hs & L). destruct m as [|[x0 y0] [|[x1 y1] t]]; cbn in L; try lia.
  exists x0, y0, x1, y1. repeat split; auto. cbn in Hs. inversion Hs as [|? ? ? F]; subst.
  inversion F; subst. auto.
Qed.

Lemma value_at_node c m j k y : sortedF c m -> nth_error m j = Some (k, y) ->
  (c_rule c = Linear \/ c_rule c = FlatForward \/ c_rule c = FlatBackward -> interpolated_value c k = Ok (NF y)) /\
  (c_rule c = LogLinear -> 0 < y -> interpolated_value c k = Ok (NF y)) /\
  (c_rule c = LinearZeroRate ->
     (j = 0%nat -> interpolated_value c k = Ok (NF 1)) /\
     ((1 <= j)%nat -> 0 < y -> interpolated_value c k = Ok (NF y))).
Proof.
  intros SF Ej. destruct (sortedF_first c m SF) as (x0 & y0 & x1' & y1' & E0 & E1 & L01).
  assert (SF' := SF). destruct SF' as (En & Hs & L).
  destruct j as [|j'].
  - assert (EE : (k, y) = (x0, y0)) by congruence. inversion EE; subst k y.
    assert (V : c_rule c <> Null -> interpolated_value c x0 = Ok (NF (closed_form (c_rule c) x0 x0 y0 x1' y1' x0))).
    { intros NN. apply (value_before c m x0 y0 x1' y1' x0); auto. lia. }
    split; [|split].
    + intros R. rewrite V; [|destruct R as [R|[R|R]]; rewrite R; discriminate].
      rewrite closed_at_left; auto.
    + intros R P. rewrite V; [|rewrite R; discriminate]. rewrite R, closed_loglin_left; auto.
    + intros R. split; [|intros; lia]. intros _. rewrite V; [|rewrite R; discriminate].
      rewrite R, closed_zero_first. reflexivity.
  - destruct (nth_error m j') as [[x1 y1]|] eqn:Ep.
    2:{ apply nth_error_None in Ep. assert (S j' < length m)%nat by (apply nth_error_Some; congruence). lia. }
    assert (L1k : (x1 < k)%Z).
    { apply (ksorted_nth_lt m j' (S j') (x1, y1) (k, y)); auto. }
    assert (L01' : (x0 <= x1)%Z).
    { destruct j' as [|j'']; [assert ((x1, y1) = (x0, y0)) by congruence; inversion H; lia|].
      assert ((x0 < x1)%Z); [|lia]. apply (ksorted_nth_lt m 0 (S j'') (x0, y0) (x1, y1)); auto. lia. }
    assert (V : c_rule c <> Null -> interpolated_value c k = Ok (NF (closed_form (c_rule c) x0 x1 y1 k y k))).
    { intros NN. apply (value_between c m j' x0 y0 x1 y1 k y k); auto. lia. }
    split; [|split].
    + intros R. rewrite V; [|destruct R as [R|[R|R]]; rewrite R; discriminate].
      rewrite closed_at_right; auto.
    + intros R P. rewrite V; [|rewrite R; discriminate]. rewrite R, closed_loglin_right; auto.
    + intros R. split; [intros; lia|]. intros _ P. rewrite V; [|rewrite R; discriminate].
      rewrite R, closed_zero_right; auto.
Qed.

(* --- C11_order_free: construction from any permutation of nodes with distinct timestamps *)
Lemma retime_perm {V} (m m' : list (Z * V)) : Permutation m m' ->
  NoDup (map (fun kv => ts_of_ns (fst kv)) m) ->
  sort_keys Z.leb (retime m) = sort_keys Z.leb (retime m').
Proof.
  intros P ND. unfold retime.
  set (f := fun kv : Z * V => (ts_of_ns (fst kv), snd kv)).
  assert (K : forall l, keys (map f l) = map (fun kv => ts_of_ns (fst kv)) l).
  { intros l. unfold keys. rewrite map_map. reflexivity. }
  assert (ND' : NoDup (map (fun kv => ts_of_ns (fst kv)) m')).
  { eapply Permutation_NoDup; [apply Permutation_map; exact P|exact ND]. }
  rewrite !im_from_iter_nodup; try (rewrite K; auto).
  apply sort_keys_perm_eq; [rewrite K; auto|apply Permutation_map; auto].
Qed.
Lemma retime_sorted {V} (m : list (Z * V)) : NoDup (map (fun kv => ts_of_ns (fst kv)) m) ->
  let s := sort_keys Z.leb (retime m) in
  ksorted s /\ Permutation s (map (fun kv => (ts_of_ns (fst kv), snd kv)) m).
Proof.
  intros ND. cbn. unfold retime.
  assert (K : keys (map (fun kv : Z * V => (ts_of_ns (fst kv), snd kv)) m) = map (fun kv => ts_of_ns (fst kv)) m).
  { unfold keys. rewrite map_map. reflexivity. }
  rewrite im_from_iter_nodup; [|rewrite K; auto]. split.
  - apply sort_keys_sorted. rewrite K; auto.
  - apply sort_keys_perm.
Qed.

(* --- the master statement: the interval used is the one node_index returns *)
Lemma sortedF_keys c m : sortedF c m -> nodes_keys (c_nodes c) = map fst m.
Proof. intros (En & _). rewrite En. reflexivity. Qed.

Lemma value_uses_node_index c m x : sortedF c m -> c_rule c <> Null ->
  exists i x0 y0 x1 y1 x2 y2, node_index c x = Ok i /\
    nth_error m 0 = Some (x0, y0) /\ nth_error m i = Some (x1, y1) /\ nth_error m (S i) = Some (x2, y2) /\
    interpolated_value c x = Ok (NF (closed_form (c_rule c) x0 x1 y1 x2 y2 x)).
Proof.
  intros SF NN. assert (SF' := SF). destruct SF' as (En & Hs & L).
  destruct (interp_at_form iopsR (c_rule c) m x Hs L NN) as ([x0 y0] & [x1 y1] & [x2 y2] & A0 & A1 & A2 & AV).
  exists (interval_of m x), x0, y0, x1, y1, x2, y2. repeat split; auto.
  - unfold node_index. rewrite (sortedF_keys c m SF). unfold interval_of.
    rewrite <- (map_length fst m). apply index_left_Z; auto. unfold keys. rewrite map_length; auto.
  - unfold interpolated_value. rewrite En, AV. cbn [omap]. rewrite form_closed; auto.
Qed.

(* --- C11_between with the formulas written out *)
Lemma value_between_explicit c m j x0 y0 x1 y1 x2 y2 x : sortedF c m ->
  nth_error m 0 = Some (x0, y0) -> nth_error m j = Some (x1, y1) -> nth_error m (S j) = Some (x2, y2) ->
  (x1 < x < x2)%Z ->
  let w := (IZR x - IZR x1) / (IZR x2 - IZR x1) in
  let t := IZR x - IZR x0 in let t1 := IZR x1 - IZR x0 in let t2 := IZR x2 - IZR x0 in
  (c_rule c = Linear ->
     interpolated_value c x = Ok (NF (y1 + (y2 - y1) * w)) /\
     Rmin y1 y2 <= y1 + (y2 - y1) * w <= Rmax y1 y2) /\
  (c_rule c = LogLinear ->
     interpolated_value c x = Ok (NF (exp (ln y1 + (ln y2 - ln y1) * w))) /\
     (0 < y1 -> 0 < y2 -> Rmin y1 y2 <= exp (ln y1 + (ln y2 - ln y1) * w) <= Rmax y1 y2)) /\
  (c_rule c = LinearZeroRate ->
     interpolated_value c x =
       Ok (NF (exp (- t * match j with
                          | O => - ln y2 / t2
                          | S _ => - ln y1 / t1 + (- ln y2 / t2 - - ln y1 / t1) * ((t - t1) / (t2 - t1))
                          end)))) /\
  (c_rule c = FlatForward -> interpolated_value c x = Ok (NF y1)) /\
  (c_rule c = FlatBackward -> interpolated_value c x = Ok (NF y2)).
Proof.
  intros SF E0 E1 E2 Hx. cbn zeta. assert (SF' := SF). destruct SF' as (En & Hs & L).
  assert (V : c_rule c <> Null -> interpolated_value c x = Ok (NF (closed_form (c_rule c) x0 x1 y1 x2 y2 x))).
  { intros NN. apply (value_between c m j x0 y0 x1 y1 x2 y2 x); auto. lia. }
  assert (L12 : (x1 < x2)%Z) by lia.
  assert (Hx' : (x1 <= x <= x2)%Z) by lia.
  split; [|split; [|split; [|split]]]; intros R; (rewrite V; [|rewrite R; discriminate]); rewrite R.
  - split; [reflexivity|]. apply (closed_linear_bounds x0 x1 y1 x2 y2 x Hx' L12).
  - split; [reflexivity|]. intros P1 P2. apply (closed_loglinear_bounds x0 x1 y1 x2 y2 x Hx' L12 P1 P2).
  - cbn -[Z.eqb]. destruct j as [|j'].
    + assert (EE : (x1, y1) = (x0, y0)) by congruence. inversion EE; subst. rewrite Z.eqb_refl. reflexivity.
    + assert ((x0 < x1)%Z) by (apply (ksorted_nth_lt m 0 (S j') (x0, y0) (x1, y1)); auto; lia).
      destruct (Z.eqb_spec x1 x0); [lia|reflexivity].
  - cbn -[Z.geb]. destruct (Z.geb_spec x x2); [lia|reflexivity].
  - cbn -[Z.leb]. destruct (Z.leb_spec x x1); [lia|reflexivity].
Qed.

(* flat rules on the half-open intervals *)
Lemma value_flat c m j x1 y1 x2 y2 x : sortedF c m ->
  nth_error m j = Some (x1, y1) -> nth_error m (S j) = Some (x2, y2) ->
  (c_rule c = FlatForward -> (x1 <= x < x2)%Z -> interpolated_value c x = Ok (NF y1)) /\
  (c_rule c = FlatBackward -> (x1 < x <= x2)%Z -> interpolated_value c x = Ok (NF y2)).
Proof.
  intros SF E1 E2. destruct (sortedF_first c m SF) as (x0 & y0 & x1' & y1' & E0 & _ & _).
  split; intros R Hx.
  - destruct (Z.eq_dec x x1) as [E|E].
    + subst x. destruct (value_at_node c m j x1 y1 SF E1) as (A & _). apply A. auto.
    + destruct (value_between_explicit c m j x0 y0 x1 y1 x2 y2 x SF E0 E1 E2) as (_ & _ & _ & A & _); [lia|auto].
  - destruct (Z.eq_dec x x2) as [E|E].
    + subst x. destruct (value_at_node c m (S j) x2 y2 SF E2) as (A & _). apply A. auto.
    + destruct (value_between_explicit c m j x0 y0 x1 y1 x2 y2 x SF E0 E1 E2) as (_ & _ & _ & _ & A); [lia|auto].
Qed.

(* --- C11_outside: the first / last interval's function of x is used beyond the ends *)
Lemma value_outside c m x0 y0 x1 y1 xa ya xb yb : sortedF c m -> c_rule c <> Null ->
  nth_error m 0 = Some (x0, y0) -> nth_error m 1%nat = Some (x1, y1) ->
  nth_error m (length m - 2) = Some (xa, ya) -> nth_error m (length m - 1) = Some (xb, yb) ->
  (forall x, (x <= x1)%Z -> interpolated_value c x = Ok (NF (closed_form (c_rule c) x0 x0 y0 x1 y1 x))) /\
  (forall x, (xa < x)%Z -> interpolated_value c x = Ok (NF (closed_form (c_rule c) x0 xa ya xb yb x))) /\
  (forall x, (x < x0)%Z -> (c_rule c = FlatForward \/ c_rule c = FlatBackward) -> interpolated_value c x = Ok (NF y0)) /\
  (forall x, (xb < x)%Z -> (c_rule c = FlatForward \/ c_rule c = FlatBackward) -> interpolated_value c x = Ok (NF yb)).
Proof.
  intros SF NN E0 E1 Ea Eb. assert (SF' := SF). destruct SF' as (En & Hs & L).
  assert (Lab : (xa < xb)%Z) by (apply (ksorted_nth_lt m (length m - 2) (length m - 1) (xa, ya) (xb, yb)); auto; lia).
  assert (L01 : (x0 < x1)%Z) by (apply (ksorted_nth_lt m 0 1 (x0, y0) (x1, y1)); auto).
  assert (A1 : forall x, (x <= x1)%Z -> interpolated_value c x = Ok (NF (closed_form (c_rule c) x0 x0 y0 x1 y1 x))).
  { intros x Hx. destruct (Z_le_gt_dec x x0).
    - apply (value_before c m x0 y0 x1 y1 x); auto.
    - apply (value_between c m 0 x0 y0 x0 y0 x1 y1 x); auto. lia. }
  assert (A2 : forall x, (xa < x)%Z -> interpolated_value c x = Ok (NF (closed_form (c_rule c) x0 xa ya xb yb x))).
  { intros x Hx. destruct (Z_le_gt_dec x xb).
    - apply (value_between c m (length m - 2) x0 y0 xa ya xb yb x); auto.
      replace (S (length m - 2)) with (length m - 1)%nat by lia. auto.
    - apply (value_after c m x0 y0 xa ya xb yb x); auto. lia. }
  split; [exact A1|]. split; [exact A2|]. split.
  - intros x Hx R. rewrite A1 by lia. destruct R as [R|R]; rewrite R; cbn -[Z.geb Z.leb].
    + destruct (Z.geb_spec x x1); [lia|reflexivity].
    + destruct (Z.leb_spec x x0); [reflexivity|lia].
  - intros x Hx R. rewrite A2 by lia. destruct R as [R|R]; rewrite R; cbn -[Z.geb Z.leb].
    + destruct (Z.geb_spec x xb); [reflexivity|lia].
    + destruct (Z.leb_spec x xa); [lia|reflexivity].
Qed.

(* --- construction: sorted nodes, independent of the supply order *)
Section OrderFree.
  Context {T : Type} `{Num T}.
  Definition tskeys {V} (m : list (Z * V)) : list Z := map (fun kv => ts_of_ns (fst kv)) m.
  Inductive nodes_perm : nodes T -> nodes T -> Prop :=
  | NPF m m' : Permutation m m' -> nodes_perm (NsF m) (NsF m')
  | NPD m m' : Permutation m m' -> nodes_perm (NsD m) (NsD m')
  | NPD2 m m' : Permutation m m' -> nodes_perm (NsD2 m) (NsD2 m').
  Definition nodes_tskeys (n : nodes T) : list Z :=
    match n with NsF m => tskeys m | NsD m => tskeys m | NsD2 m => tskeys m end.

  Lemma try_new_order_free (n n' : nodes T) r id b : nodes_perm n n' -> NoDup (nodes_tskeys n) ->
    curve_try_new n r id b = curve_try_new n' r id b.
  Proof.
    intros P ND. unfold curve_try_new. f_equal.
    destruct P as [m m' P|m m' P|m m' P]; cbn in *; f_equal; apply retime_perm; auto.
  Qed.

  Lemma ts_nodup_ns {V} (m : list (Z * V)) : NoDup (tskeys m) -> NoDup (keys m).
  Proof.
    unfold tskeys, keys. intros ND. rewrite <- (map_map fst ts_of_ns) in ND.
    eapply NoDup_map_inv; eauto.
  Qed.
  Lemma nodes_into_order_free (m m' : list (Z * number T)) ad id : Permutation m m' -> NoDup (tskeys m) ->
    nodes_into_order m ad id = nodes_into_order m' ad id.
  Proof.
    intros P ND. unfold nodes_into_order.
    rewrite (sort_keys_perm_eq m m'); auto using ts_nodup_ns.
    rewrite (Permutation_length P). reflexivity.
  Qed.
  Lemma new_py_order_free (m m' : list (Z * number T)) r ad id b : Permutation m m' -> NoDup (tskeys m) ->
    curve_new_py m r ad id b = curve_new_py m' r ad id b.
  Proof. intros P ND. unfold curve_new_py. rewrite (nodes_into_order_free m m'); auto. Qed.
End OrderFree.

Lemma try_new_sortedF (m : list (Z * R)) r id b : NoDup (tskeys m) -> (2 <= length m)%nat ->
  exists s, sortedF (curve_try_new (NsF m) r id b) s /\
            Permutation s (map (fun kv => (ts_of_ns (fst kv), snd kv)) m).
Proof.
  intros ND L. exists (sort_keys Z.leb (retime m)).
  destruct (retime_sorted m ND) as [A B]. split; auto. split; [reflexivity|]. split; [exact A|].
  rewrite (Permutation_length B), map_length. exact L.
Qed.

(* ====================================================================================== *)
(* Part E: derivative-order switches (C12): tags, values, names, index value *)
Local Open Scope nat_scope.

(* ====================================================================================== *)
(* Part E: derivative-order switches (C12): tags, values, names *)
Lemma mapi_from_ext {A B} (f g : nat -> A -> B) l : forall k,
  (forall i x, nth_error l i = Some x -> f (k + i) x = g (k + i) x) -> mapi_from k f l = mapi_from k g l.
Proof.
  induction l as [|a l IH]; intros k E; cbn; auto. f_equal.
  - specialize (E 0 a eq_refl). rewrite Nat.add_0_r in E. exact E.
  - apply IH. intros i x Hx. specialize (E (S i) x Hx). rewrite <- plus_n_Sm in E. exact E.
Qed.
Lemma mapi_from_map {A B C} (h : B -> C) (f : nat -> A -> B) l : forall k,
  map h (mapi_from k f l) = mapi_from k (fun i x => h (f i x)) l.
Proof. induction l as [|a l IH]; intros k; cbn; auto. f_equal. apply IH. Qed.
Lemma mapi_from_const {A B} (f : A -> B) l : forall k, mapi_from k (fun _ x => f x) l = map f l.
Proof. induction l as [|a l IH]; intros k; cbn; auto. f_equal. apply IH. Qed.
Lemma mapi_from_nth_error {A B} (f : nat -> A -> B) l : forall k i,
  nth_error (mapi_from k f l) i = option_map (f (k + i)) (nth_error l i).
Proof.
  induction l as [|a l IH]; intros k [|i]; cbn; auto.
  - rewrite Nat.add_0_r. reflexivity.
  - rewrite IH. rewrite <- plus_n_Sm. reflexivity.
Qed.
Lemma mapi_from_length {A B} (f : nat -> A -> B) l : forall k, length (mapi_from k f l) = length l.
Proof. induction l as [|a l IH]; intros k; cbn; auto. Qed.

Lemma tags_nth id n i : i < n -> nth i (get_variable_tags id n) [] = var_tag id i.
Proof.
  intros L. unfold get_variable_tags.
  rewrite (nth_indep _ [] (var_tag id 0)) by (rewrite map_length, seq_length; lia).
  rewrite map_nth. rewrite seq_nth by lia. reflexivity.
Qed.

Section Switch.
  Context {T : Type} `{Num T}.

  Lemma dedup_single (t : name) : dedup [t] = [t].
  Proof. reflexivity. Qed.
  Lemma dual_new_single (y : T) t : dual_new y [t] = mkDual y [t] [n1].
  Proof. reflexivity. Qed.
  Lemma dual2_new_single (y : T) t : dual2_new y [t] = mkDual2 y [t] [n1] [[n0]].
  Proof. reflexivity. Qed.

  (* --- C12_tags *)
  Lemma set_order_tags (c : curve T) m : c_nodes c = NsF m ->
    c_nodes (set_ad_order c OOne) =
      NsD (mapi (fun i kv => (fst kv, mkDual (snd kv) [var_tag (c_id c) i] [n1])) m) /\
    c_nodes (set_ad_order c OTwo) =
      NsD2 (mapi (fun i kv => (fst kv, mkDual2 (snd kv) [var_tag (c_id c) i] [n1] [[n0]])) m).
  Proof.
    intros En. unfold set_ad_order. rewrite En. cbn [c_nodes nodes_keys]. rewrite map_length.
    split; f_equal; unfold mapi; apply mapi_from_ext; intros i [k y] Hx; cbn [fst snd Nat.add];
      rewrite tags_nth by (apply nth_error_Some; congruence); reflexivity.
  Qed.

  (* --- C12_values: real parts of nodes and of look-ups *)
  Definition real_nodes (n : nodes T) : list (Z * T) :=
    match n with
    | NsF m => m
    | NsD m => map (fun kv => (fst kv, re (snd kv))) m
    | NsD2 m => map (fun kv => (fst kv, re2 (snd kv))) m
    end.
  Lemma map_pair_id {A B} (m : list (A * B)) : map (fun kv => (fst kv, snd kv)) m = m.
  Proof. induction m as [|[a b] m IH]; cbn; congruence. Qed.
  Lemma set_order_fields (c : curve T) o :
    c_rule (set_ad_order c o) = c_rule c /\ c_id (set_ad_order c o) = c_id c /\ c_base (set_ad_order c o) = c_base c.
  Proof. unfold set_ad_order. destruct o, (c_nodes c); cbn; auto. Qed.
  Lemma set_order_real_nodes (c : curve T) o : real_nodes (c_nodes (set_ad_order c o)) = real_nodes (c_nodes c).
  Proof.
    unfold set_ad_order. destruct o, (c_nodes c) as [m|m|m] eqn:En; cbn [c_nodes real_nodes]; try rewrite En;
      cbn [real_nodes]; auto; unfold mapi;
      try (rewrite mapi_from_map;
           rewrite (mapi_from_ext _ (fun _ kv => (fst kv, snd kv))) by (intros; reflexivity);
           rewrite mapi_from_const; apply map_pair_id);
      try (rewrite map_map; cbn [fst snd]; try apply map_pair_id; apply map_ext; intros; reflexivity).
  Qed.
  Lemma fold_set_order_real_nodes ops : forall (c : curve T),
    real_nodes (c_nodes (fold_left set_ad_order ops c)) = real_nodes (c_nodes c) /\
    c_rule (fold_left set_ad_order ops c) = c_rule c /\ c_id (fold_left set_ad_order ops c) = c_id c /\
    c_base (fold_left set_ad_order ops c) = c_base c.
  Proof.
    induction ops as [|o ops IH]; intros c; cbn; auto.
    destruct (IH (set_ad_order c o)) as (A & B & C & D). destruct (set_order_fields c o) as (B' & C' & D').
    rewrite A, B, C, D, set_order_real_nodes. auto.
  Qed.

  Record hom {U} (o : iops T U) (phi : U -> T) : Prop := mkHom {
    h_add : forall a b, phi (io_add o a b) = nadd (phi a) (phi b);
    h_sub : forall a b, phi (io_sub o a b) = nsub (phi a) (phi b);
    h_mulf : forall a r, phi (io_mulf o a r) = nmul (phi a) r;
    h_log : forall a, phi (io_log o a) = nln (phi a);
    h_exp : forall a, phi (io_exp o a) = nexp (phi a) }.

  Lemma re_align p (a b : dual T) : re (fst (align p a b)) = re a /\ re (snd (align p a b)) = re b.
  Proof. unfold align, to_union_vars, to_new_vars. destruct (vars_cmp p (vs a) (vs b)); cbn; auto. Qed.
  Lemma re2_align p (a b : dual2 T) : re2 (fst (align2 p a b)) = re2 a /\ re2 (snd (align2 p a b)) = re2 b.
  Proof. unfold align2, to_union_vars2, to_new_vars2. destruct (vars_cmp p (vs2 a) (vs2 b)); cbn; auto. Qed.
  Lemma hom_d : hom iops_d re.
  Proof.
    constructor; cbn; intros; auto.
    - unfold dadd. destruct (re_align false a b) as [A B]. destruct (align false a b). cbn in *. congruence.
    - unfold dsub. destruct (re_align false a b) as [A B]. destruct (align false a b). cbn in *. congruence.
  Qed.
  Lemma hom_d2 : hom iops_d2 re2.
  Proof.
    constructor; cbn; intros; auto.
    - unfold d2add. destruct (re2_align false a b) as [A B]. destruct (align2 false a b). cbn in *. congruence.
    - unfold d2sub. destruct (re2_align false a b) as [A B]. destruct (align2 false a b). cbn in *. congruence.
  Qed.

  Section Hom.
    Context {U : Type} (o : iops T U) (phi : U -> T) (Hh : hom o phi).
    Lemma hom_linear x1 y1 x2 y2 x :
      phi (linear_interp o x1 y1 x2 y2 x) = linear_interp iops_f x1 (phi y1) x2 (phi y2) x.
    Proof. unfold linear_interp. rewrite (h_add o phi Hh), (h_mulf o phi Hh), (h_sub o phi Hh). reflexivity. Qed.
    Lemma hom_loglinear x1 y1 x2 y2 x :
      phi (log_linear_interp o x1 y1 x2 y2 x) = log_linear_interp iops_f x1 (phi y1) x2 (phi y2) x.
    Proof. unfold log_linear_interp. rewrite (h_exp o phi Hh), hom_linear, !(h_log o phi Hh). reflexivity. Qed.
    Ltac hom_rw o phi Hh := repeat first [rewrite (h_add o phi Hh) | rewrite (h_sub o phi Hh) | rewrite (h_mulf o phi Hh)
                                          | rewrite (h_log o phi Hh) | rewrite (h_exp o phi Hh)].
    Lemma hom_zero x0 x1 y1 x2 y2 x :
      phi (linear_zero_interp o x0 x1 y1 x2 y2 x) = linear_zero_interp iops_f x0 x1 (phi y1) x2 (phi y2) x.
    Proof.
      unfold linear_zero_interp. cbn [io_exp io_mulf io_add io_sub io_log iops_f].
      destruct (neqb (nsub x1 x0) n0); hom_rw o phi Hh; reflexivity.
    Qed.
    Lemma interp_at_hom r m x :
      omap phi (interp_at o r m x) = interp_at iops_f r (map (fun kv => (fst kv, phi (snd kv))) m) x.
    Proof.
      unfold interp_at.
      assert (K : map fst (map (fun kv : Z * U => (fst kv, phi (snd kv))) m) = map fst m).
      { rewrite map_map. apply map_ext. reflexivity. }
      rewrite K.
      assert (G : forall i, get_index (map (fun kv : Z * U => (fst kv, phi (snd kv))) m) i =
                            omap (fun kv => (fst kv, phi (snd kv))) (get_index m i)).
      { intros i. unfold get_index. rewrite nth_error_map. destruct (nth_error m i); reflexivity. }
      destruct r; try reflexivity; destruct (index_left Z.leb Z.eqb (map fst m) x) as [i| |]; cbn [obind omap]; auto;
        rewrite !G; repeat (match goal with |- context [get_index m ?j] => destruct (get_index m j) as [[? ?]| |] end;
                            cbn [obind omap fst snd]; auto).
      - rewrite hom_loglinear. reflexivity.
      - rewrite hom_linear. reflexivity.
      - rewrite hom_zero. reflexivity.
      - destruct (x >=? z0)%Z; reflexivity.
      - destruct (x <=? z)%Z; reflexivity.
    Qed.
  End Hom.

  Lemma value_real_part (c : curve T) x :
    omap num_real (interpolated_value c x) = interp_at iops_f (c_rule c) (real_nodes (c_nodes c)) x.
  Proof.
    unfold interpolated_value. destruct (c_nodes c) as [m|m|m]; cbn [real_nodes].
    - destruct (interp_at iops_f (c_rule c) m x); reflexivity.
    - rewrite <- (interp_at_hom iops_d re hom_d). destruct (interp_at iops_d (c_rule c) m x); reflexivity.
    - rewrite <- (interp_at_hom iops_d2 re2 hom_d2). destruct (interp_at iops_d2 (c_rule c) m x); reflexivity.
  Qed.
  Lemma switches_keep_values ops (c : curve T) :
    real_nodes (c_nodes (fold_left set_ad_order ops c)) = real_nodes (c_nodes c) /\
    forall x, omap num_real (interpolated_value (fold_left set_ad_order ops c) x) =
              omap num_real (interpolated_value c x).
  Proof.
    destruct (fold_set_order_real_nodes ops c) as (A & B & _). split; auto.
    intros x. rewrite !value_real_part, A, B. reflexivity.
  Qed.

  (* --- C12_names_kept *)
  Definition node_vars (n : nodes T) : list (list name) :=
    match n with
    | NsF m => map (fun _ => []) m
    | NsD m => map (fun kv => vs (snd kv)) m
    | NsD2 m => map (fun kv => vs2 (snd kv)) m
    end.
  Definition node_duals (n : nodes T) : list (list T) :=
    match n with
    | NsF m => map (fun _ => []) m
    | NsD m => map (fun kv => du (snd kv)) m
    | NsD2 m => map (fun kv => du2 (snd kv)) m
    end.
  Lemma set_order_12_keeps (c : curve T) o : curve_ad c <> OZero -> o <> OZero ->
    curve_ad (set_ad_order c o) = o /\
    node_vars (c_nodes (set_ad_order c o)) = node_vars (c_nodes c) /\
    node_duals (c_nodes (set_ad_order c o)) = node_duals (c_nodes c).
  Proof.
    unfold curve_ad, set_ad_order. intros NZ NO.
    destruct o, (c_nodes c) as [m|m|m] eqn:En; try congruence; cbn [c_nodes]; rewrite ?En;
      cbn [node_vars node_duals]; rewrite ?map_map; auto.
  Qed.
  Lemma switches_12_keep ops : forall (c : curve T), curve_ad c <> OZero -> List.Forall (fun o => o <> OZero) ops ->
    node_vars (c_nodes (fold_left set_ad_order ops c)) = node_vars (c_nodes c) /\
    node_duals (c_nodes (fold_left set_ad_order ops c)) = node_duals (c_nodes c).
  Proof.
    induction ops as [|o ops IH]; intros c NZ F; cbn; auto.
    inversion F; subst. destruct (set_order_12_keeps c o NZ) as (A & B & C); auto.
    destruct (IH (set_ad_order c o)) as (D & E); auto; [rewrite A; auto|]. rewrite D, E. auto.
  Qed.
End Switch.

(* --- C12_tags through the Python-facing constructor (numbering after the sort) *)
Section TagsPy.
  Context {T : Type} `{Num T}.
  Definition all_floats (raw : list (Z * number T)) : Prop := forall kv, In kv raw -> exists f, snd kv = NF f.

  Lemma into_order_tags (raw : list (Z * number T)) id : all_floats raw ->
    nodes_into_order raw OOne id =
      NsD (mapi (fun i kv => (fst kv, mkDual (num_real (snd kv)) [var_tag id i] [n1])) (sort_keys Z.leb raw)) /\
    nodes_into_order raw OTwo id =
      NsD2 (mapi (fun i kv => (fst kv, mkDual2 (num_real (snd kv)) [var_tag id i] [n1] [[n0]])) (sort_keys Z.leb raw)).
  Proof.
    intros AF. unfold nodes_into_order.
    split; f_equal; unfold mapi; apply mapi_from_ext; intros i [k v] Hx; cbn [fst snd Nat.add];
      (rewrite tags_nth by (rewrite <- (sort_keys_length raw); apply nth_error_Some; congruence));
      (assert (I : In (k, v) raw) by (eapply Permutation_in; [apply sort_keys_perm|eapply nth_error_In; eauto]));
      destruct (AF _ I) as [f E]; cbn in E; subst v; reflexivity.
  Qed.

  Lemma sorted_ts (l : list Z) : StronglySorted Z.lt l -> NoDup (map ts_of_ns l) ->
    StronglySorted Z.lt (map ts_of_ns l).
  Proof.
    induction 1 as [|a l S IH F]; cbn; intros ND; constructor.
    - apply IH. inversion ND; auto.
    - inversion ND as [|? ? NI _]; subst. rewrite Forall_forall in *. intros y Hy.
      apply in_map_iff in Hy. destruct Hy as (b & E & Hb). subst y.
      assert ((a < b)%Z) by auto.
      assert ((ts_of_ns a <= ts_of_ns b)%Z) by (unfold ts_of_ns; apply Z.div_le_mono; lia).
      assert (ts_of_ns a <> ts_of_ns b) by (intros C; apply NI; rewrite C; apply in_map; auto).
      lia.
  Qed.

  Lemma retime_of_sorted {V} (m : list (Z * V)) : ksorted m -> NoDup (tskeys m) ->
    sort_keys Z.leb (retime m) = map (fun kv => (ts_of_ns (fst kv), snd kv)) m /\
    ksorted (map (fun kv => (ts_of_ns (fst kv), snd kv)) m).
  Proof.
    intros Hs ND. unfold retime.
    assert (K : keys (map (fun kv : Z * V => (ts_of_ns (fst kv), snd kv)) m) = map ts_of_ns (keys m)).
    { unfold keys. rewrite !map_map. reflexivity. }
    assert (ND' : NoDup (map ts_of_ns (keys m))) by (unfold keys; rewrite map_map; exact ND).
    assert (KS : ksorted (map (fun kv : Z * V => (ts_of_ns (fst kv), snd kv)) m)).
    { unfold ksorted. rewrite K. apply sorted_ts; auto. }
    rewrite im_from_iter_nodup by (rewrite K; auto). split; auto. apply sort_keys_id; auto.
  Qed.

  Lemma new_py_tags (raw : list (Z * number T)) r id b : all_floats raw -> NoDup (tskeys raw) ->
    c_nodes (curve_new_py raw r OOne id b) =
      NsD (mapi (fun i kv => (ts_of_ns (fst kv), mkDual (num_real (snd kv)) [var_tag id i] [n1])) (sort_keys Z.leb raw)) /\
    c_nodes (curve_new_py raw r OTwo id b) =
      NsD2 (mapi (fun i kv => (ts_of_ns (fst kv), mkDual2 (num_real (snd kv)) [var_tag id i] [n1] [[n0]])) (sort_keys Z.leb raw)) /\
    StronglySorted Z.lt (map (fun kv => ts_of_ns (fst kv)) (sort_keys Z.leb raw)).
  Proof.
    intros AF ND. destruct (into_order_tags raw id AF) as [E1 E2].
    assert (S0 : ksorted (sort_keys Z.leb raw)) by (apply sort_keys_sorted; apply ts_nodup_ns; auto).
    assert (ND0 : NoDup (tskeys (sort_keys Z.leb raw))).
    { eapply Permutation_NoDup; [|exact ND]. unfold tskeys. apply Permutation_map, Permutation_sym, sort_keys_perm. }
    unfold curve_new_py, curve_try_new. cbn [c_nodes]. rewrite E1, E2. cbn [nodes_ts_from nodes_sort_keys].
    assert (G : forall {V} (F : nat -> Z * number T -> Z * V), (forall i kv, fst (F i kv) = fst kv) ->
              sort_keys Z.leb (retime (mapi F (sort_keys Z.leb raw))) =
              mapi (fun i kv => (ts_of_ns (fst kv), snd (F i kv))) (sort_keys Z.leb raw)).
    { intros V F HF.
      assert (KF : keys (mapi F (sort_keys Z.leb raw)) = keys (sort_keys Z.leb raw)).
      { unfold keys, mapi. rewrite mapi_from_map. rewrite (mapi_from_ext _ (fun _ kv => fst kv)) by (intros; apply HF).
        apply mapi_from_const. }
      destruct (retime_of_sorted (mapi F (sort_keys Z.leb raw))) as [A _].
      - unfold ksorted. rewrite KF. exact S0.
      - unfold tskeys in *. rewrite <- (map_map fst ts_of_ns). fold (keys (mapi F (sort_keys Z.leb raw))). rewrite KF.
        unfold keys. rewrite map_map. exact ND0.
      - rewrite A. unfold mapi. rewrite mapi_from_map. apply mapi_from_ext. intros i kv _. rewrite HF. reflexivity. }
    split; [|split].
    - f_equal. rewrite G by reflexivity. reflexivity.
    - f_equal. rewrite G by reflexivity. reflexivity.
    - destruct (retime_of_sorted (sort_keys Z.leb raw) S0 ND0) as [_ B]. unfold ksorted, keys in B.
      rewrite map_map in B. exact B.
  Qed.
End TagsPy.

(* --- C12_index *)
Local Open Scope R_scope.
Definition num_kind {T} (x : number T) : adorder := match x with NF _ => OZero | ND _ => OOne | ND2 _ => OTwo end.

Lemma index_value_spec (c : curveR) x :
  (c_base c = None -> index_value c x = Err) /\
  (forall ib k0, c_base c = Some ib -> first_key (c_nodes c) = Ok k0 ->
     ((x < k0)%Z -> index_value c x = Ok (NF 0)) /\
     ((k0 <= x)%Z -> forall v, interpolated_value c x = Ok v ->
        exists w, index_value c x = Ok w /\ num_kind w = num_kind v /\
                  (num_real v <> 0 -> num_real w = ib / num_real v))).
Proof.
  unfold index_value. split; [intros E; rewrite E; reflexivity|].
  intros ib k0 E K. rewrite E, K. cbn [obind]. split.
  - intros L. destruct (Z.ltb_spec x k0); [reflexivity|lia].
  - intros L v V. destruct (Z.ltb_spec x k0); [lia|]. rewrite V. cbn [obind].
    destruct v as [f|d|d]; cbn.
    + eexists; split; [reflexivity|]. split; auto.
    + eexists; split; [reflexivity|]. split; auto. intros NZ. unfold nm1. cbn.
      replace (- (1)) with (-1) by lra. rewrite Rpowf_m1 by auto. field; auto.
    + eexists; split; [reflexivity|]. split; auto. intros NZ. unfold nm1. cbn.
      replace (- (1)) with (-1) by lra. rewrite Rpowf_m1 by auto. field; auto.
Qed.

(* ====================================================================================== *)
(* Part F: two-variable calculus used for the Hessian statement *)
Local Open Scope R_scope.

(* R-specialised derivative wrappers *)
Lemma dR_comp (f g : R -> R) x df dg : is_derive f (g x) df -> is_derive g x dg -> is_derive (fun t:R => f (g t)) x (dg * df).
Proof. intros. apply (is_derive_comp (K:=R_AbsRing) (V:=R_NormedModule) f g x df dg); auto. Qed.
Lemma dR_const (c x : R) : is_derive (fun _ : R => c) x 0.
Proof. apply (is_derive_const (K:=R_AbsRing) (V:=R_NormedModule) c x). Qed.
Lemma dR_shift (f : R -> R) (c l : R) : is_derive f c l -> is_derive (fun s => f (c + s)) 0 l.
Proof.
  intros Hf. replace l with (1 * l) by ring.
  apply (dR_comp f (fun s => c + s) 0 l 1).
  - replace (c + 0) with c by ring. exact Hf.
  - auto_derive; auto.
Qed.

Inductive sel := SL | SR | SN.
Definition sL (s : sel) : R := match s with SL => 1 | _ => 0 end.
Definition sR (s : sel) : R := match s with SR => 1 | _ => 0 end.

Section Hess2.
  Variables (G G1 G2 : R -> R -> R) (u0 v0 G11 G12 G21 G22 : R).
  Hypothesis Pu : 0 < u0.
  Hypothesis Pv : 0 < v0.
  Hypothesis HA : forall u v, 0 < u -> 0 < v -> is_derive (fun t => G t v) u (G1 u v).
  Hypothesis HB : forall u v, 0 < u -> 0 < v -> is_derive (fun t => G u t) v (G2 u v).
  Hypothesis H11 : is_derive (fun t => G1 t v0) u0 G11.
  Hypothesis H12 : is_derive (fun t => G1 u0 t) v0 G12.
  Hypothesis H21 : is_derive (fun t => G2 t v0) u0 G21.
  Hypothesis H22 : is_derive (fun t => G2 u0 t) v0 G22.

  Definition hsel (sa sb : sel) : R :=
    match sa, sb with
    | SL, SL => G11 | SL, SR => G12 | SR, SL => G21 | SR, SR => G22 | _, _ => 0
    end.
  Definition gsel (sa : sel) : R := match sa with SL => G1 u0 v0 | SR => G2 u0 v0 | SN => 0 end.

  Lemma pos_near c : 0 < c -> locally 0 (fun s => 0 < c + s).
  Proof.
    intros P. exists (mkposreal c P). intros s Hs. unfold ball in Hs. cbn in Hs. unfold AbsRing_ball, abs, minus, plus, opp in Hs.
    cbn in Hs. apply Rabs_def2 in Hs. lra.
  Qed.

  Lemma grad_sel sa : is_derive (fun s => G (u0 + sL sa * s) (v0 + sR sa * s)) 0 (gsel sa).
  Proof.
    destruct sa; cbn.
    - apply (is_derive_ext (fun s => G (u0 + s) (v0))).
      + intros t. f_equal; ring.
      + apply (dR_shift (fun t => G t v0)). apply HA; auto.
    - apply (is_derive_ext (fun s => G u0 (v0 + s))).
      + intros t. f_equal; ring.
      + apply (dR_shift (fun t => G u0 t)). apply HB; auto.
    - apply (is_derive_ext (fun s => G u0 v0)).
      + intros t. f_equal; ring.
      + apply dR_const.
  Qed.

  Lemma hess_sel sa sb : exists g1 : R -> R,
    locally 0 (fun q => is_derive (fun p => G (u0 + sL sa * p + sL sb * q) (v0 + sR sa * p + sR sb * q)) 0 (g1 q)) /\
    is_derive g1 0 (hsel sa sb).
  Proof.
    destruct sa.
    - (* a moves u *)
      exists (fun q => G1 (u0 + sL sb * q) (v0 + sR sb * q)). split.
      + assert (Lu : locally 0 (fun q => 0 < u0 + sL sb * q)).
        { destruct sb; cbn; [apply (filter_imp (fun q => 0 < u0 + q)); [intros; lra|apply pos_near; auto]| |];
            apply filter_forall; intros; lra. }
        assert (Lv : locally 0 (fun q => 0 < v0 + sR sb * q)).
        { destruct sb; cbn; [| apply (filter_imp (fun q => 0 < v0 + q)); [intros; lra|apply pos_near; auto]|];
            apply filter_forall; intros; lra. }
        generalize (filter_and _ _ Lu Lv). apply filter_imp. intros q [Qu Qv]. cbn [sL sR].
        apply (is_derive_ext (fun p => G ((u0 + sL sb * q) + p) (v0 + sR sb * q))).
        * intros t. f_equal; ring.
        * apply (dR_shift (fun t => G t (v0 + sR sb * q))). apply HA; auto.
      + destruct sb; cbn.
        * apply (is_derive_ext (fun q => G1 (u0 + q) v0)); [intros; f_equal; ring|]. apply (dR_shift (fun t => G1 t v0)); auto.
        * apply (is_derive_ext (fun q => G1 u0 (v0 + q))); [intros; f_equal; ring|]. apply (dR_shift (fun t => G1 u0 t)); auto.
        * apply (is_derive_ext (fun q => G1 u0 v0)); [intros; f_equal; ring|]. apply dR_const.
    - exists (fun q => G2 (u0 + sL sb * q) (v0 + sR sb * q)). split.
      + assert (Lu : locally 0 (fun q => 0 < u0 + sL sb * q)).
        { destruct sb; cbn; [apply (filter_imp (fun q => 0 < u0 + q)); [intros; lra|apply pos_near; auto]| |];
            apply filter_forall; intros; lra. }
        assert (Lv : locally 0 (fun q => 0 < v0 + sR sb * q)).
        { destruct sb; cbn; [| apply (filter_imp (fun q => 0 < v0 + q)); [intros; lra|apply pos_near; auto]|];
            apply filter_forall; intros; lra. }
        generalize (filter_and _ _ Lu Lv). apply filter_imp. intros q [Qu Qv]. cbn [sL sR].
        apply (is_derive_ext (fun p => G (u0 + sL sb * q) ((v0 + sR sb * q) + p))).
        * intros t. f_equal; ring.
        * apply (dR_shift (fun t => G (u0 + sL sb * q) t)). apply HB; auto.
      + destruct sb; cbn.
        * apply (is_derive_ext (fun q => G2 (u0 + q) v0)); [intros; f_equal; ring|]. apply (dR_shift (fun t => G2 t v0)); auto.
        * apply (is_derive_ext (fun q => G2 u0 (v0 + q))); [intros; f_equal; ring|]. apply (dR_shift (fun t => G2 u0 t)); auto.
        * apply (is_derive_ext (fun q => G2 u0 v0)); [intros; f_equal; ring|]. apply dR_const.
    - exists (fun _ => 0). split.
      + apply filter_forall. intros q. cbn.
        apply (is_derive_ext (fun p => G (u0 + sL sb * q) (v0 + sR sb * q))); [intros; f_equal; ring|]. apply dR_const.
      + destruct sb; cbn; apply dR_const.
  Qed.
End Hess2.

Definition famA (cu cv u v : R) : R := cu * u + cv * v.
Definition famB (al be u v : R) : R := exp (al * ln u + be * ln v).

Lemma famA_d1 cu cv u v : is_derive (fun t => famA cu cv t v) u cu.
Proof. unfold famA. auto_derive; auto. ring. Qed.
Lemma famA_d2 cu cv u v : is_derive (fun t => famA cu cv u t) v cv.
Proof. unfold famA. auto_derive; auto. ring. Qed.

Lemma famB_d1 al be u v : 0 < u -> 0 < v -> is_derive (fun t => famB al be t v) u (famB al be u v * al / u).
Proof. intros Pu Pv. unfold famB. auto_derive; [auto|]. field. lra. Qed.
Lemma famB_d2 al be u v : 0 < u -> 0 < v -> is_derive (fun t => famB al be u t) v (famB al be u v * be / v).
Proof. intros Pu Pv. unfold famB. auto_derive; [auto|]. field. lra. Qed.
Lemma famB_d11 al be u v : 0 < u -> 0 < v ->
  is_derive (fun t => famB al be t v * al / t) u (famB al be u v * (al * al - al) / (u * u)).
Proof. intros Pu Pv. unfold famB. auto_derive; [repeat split; auto; lra|]. field. lra. Qed.
Lemma famB_d12 al be u v : 0 < u -> 0 < v ->
  is_derive (fun t => famB al be u t * al / u) v (famB al be u v * (al * be) / (u * v)).
Proof. intros Pu Pv. unfold famB. auto_derive; [repeat split; auto; lra|]. field. lra. Qed.
Lemma famB_d21 al be u v : 0 < u -> 0 < v ->
  is_derive (fun t => famB al be t v * be / v) u (famB al be u v * (al * be) / (u * v)).
Proof. intros Pu Pv. unfold famB. auto_derive; [repeat split; auto; lra|]. field. lra. Qed.
Lemma famB_d22 al be u v : 0 < u -> 0 < v ->
  is_derive (fun t => famB al be u t * be / t) v (famB al be u v * (be * be - be) / (v * v)).
Proof. intros Pu Pv. unfold famB. auto_derive; [repeat split; auto; lra|]. field. lra. Qed.

(* ====================================================================================== *)
(* Part G: the dual / dual2 value of each closed form on two freshly tagged nodes *)
Local Open Scope R_scope.

Section Ops2.
  Variables a b : name.
  Hypothesis Hab : name_eqb a b = false.
  Hypothesis Hba : name_eqb b a = false.

  Ltac nm := repeat (progress (cbn; unfold mem, lookup_or_zero, lookup2_or_zero, to_union_vars, to_new_vars, to_union_vars2, to_new_vars2, union_vars; cbn;
                               rewrite ?Hab, ?Hba, ?name_eqb_refl)).

  Lemma dsub_ba r2 d2 r1 d1 :
    dsub false (mkDual r2 [b] [d2]) (mkDual r1 [a] [d1]) = mkDual (r2 - r1) [b; a] [d2 - 0; 0 - d1].
  Proof. unfold dsub, align, vars_cmp. nm. reflexivity. Qed.
  Lemma dadd_a_ba r1 d1 r p q :
    dadd false (mkDual r1 [a] [d1]) (mkDual r [b; a] [p; q]) = mkDual (r1 + r) [b; a] [0 + p; d1 + q].
  Proof. unfold dadd, align, vars_cmp. nm. reflexivity. Qed.

  Lemma d2sub_ba r2 d2 h2 r1 d1 h1 :
    d2sub false (mkDual2 r2 [b] [d2] [[h2]]) (mkDual2 r1 [a] [d1] [[h1]]) =
    mkDual2 (r2 - r1) [b; a] [d2 - 0; 0 - d1] [[h2 - 0; 0 - 0]; [0 - 0; 0 - h1]].
  Proof. unfold d2sub, align2, vars_cmp. nm. reflexivity. Qed.
  Lemma d2add_a_ba r1 d1 h1 r p q h11 h12 h21 h22 :
    d2add false (mkDual2 r1 [a] [d1] [[h1]]) (mkDual2 r [b; a] [p; q] [[h11; h12]; [h21; h22]]) =
    mkDual2 (r1 + r) [b; a] [0 + p; d1 + q] [[0 + h11; 0 + h12]; [0 + h21; h1 + h22]].
  Proof. unfold d2add, align2, vars_cmp. nm. reflexivity. Qed.

  Local Opaque dsub dadd d2sub d2add.
  Notation Dn y t := (mkDual y [t] [1]).
  Notation D2n y t := (mkDual2 y [t] [1] [[0]]).

  (* linear_interp on two single-variable duals *)
  Lemma lin_d X1 r1 d1 X2 r2 d2 X :
    linear_interp iops_d X1 (mkDual r1 [a] [d1]) X2 (mkDual r2 [b] [d2]) X =
    mkDual (r1 + (r2 - r1) * ((X - X1) / (X2 - X1))) [b; a]
      [0 + (X - X1) / (X2 - X1) * (d2 - 0); d1 + (X - X1) / (X2 - X1) * (0 - d1)].
  Proof. unfold linear_interp. cbn [io_add io_sub io_mulf iops_d]. rewrite dsub_ba. unfold dmul_f. cbn. rewrite dadd_a_ba. reflexivity. Qed.
  Lemma lin_d2 X1 r1 d1 h1 X2 r2 d2 h2 X :
    linear_interp iops_d2 X1 (mkDual2 r1 [a] [d1] [[h1]]) X2 (mkDual2 r2 [b] [d2] [[h2]]) X =
    let w := (X - X1) / (X2 - X1) in
    mkDual2 (r1 + (r2 - r1) * w) [b; a]
      [0 + w * (d2 - 0); d1 + w * (0 - d1)]
      [[0 + w * (h2 - 0); 0 + w * (0 - 0)]; [0 + w * (0 - 0); h1 + w * (0 - h1)]].
  Proof. unfold linear_interp. cbn [io_add io_sub io_mulf iops_d2]. rewrite d2sub_ba. unfold d2mul_f. cbn. rewrite d2add_a_ba. reflexivity. Qed.

  (* what the tests below evaluate *)
  Definition lk1 (d : dual2 R) (t : name) : R := lookup_or_zero (vs2 d) (du2 d) t.
  Definition lk2 (d : dual2 R) (t u : name) : R := lookup2_or_zero (vs2 d) (dd2 d) t u.


  Definition coefs (r : rule) (x0 x1 x2 x : Z) : R * R :=
    let w := (IZR x - IZR x1) / (IZR x2 - IZR x1) in
    match r with
    | Linear | LogLinear => (1 - w, w)
    | LinearZeroRate =>
        let t := IZR x - IZR x0 in let t1 := IZR x1 - IZR x0 in let t2 := IZR x2 - IZR x0 in
        let W := (t - t1) / (t2 - t1) in
        if (x1 =? x0)%Z then (0, t / t2) else (t * (1 - W) / t1, t * W / t2)
    | FlatForward => if (x >=? x2)%Z then (0, 1) else (1, 0)
    | FlatBackward => if (x <=? x1)%Z then (1, 0) else (0, 1)
    | Null => (0, 0)
    end.
  Definition is_exp (r : rule) : bool := match r with LogLinear | LinearZeroRate => true | _ => false end.

  Definition by_names {A} (t : name) (vb va v0 : A) : A := if name_eqb t b then vb else if name_eqb t a then va else v0.

  Ltac lk_cases t :=
    unfold by_names; destruct (name_eqb t b) eqn:?; destruct (name_eqb t a) eqn:?; cbn.
  Ltac lk_solve :=
    unfold lk1, lk2, lookup_or_zero, lookup2_or_zero, by_names; cbn [vs2 du2 dd2 vs du index_of];
    repeat match goal with |- context [name_eqb ?t b] => destruct (name_eqb t b) eqn:? end;
    repeat match goal with |- context [name_eqb ?t a] => destruct (name_eqb t a) eqn:? end;
    try (exfalso; match goal with H1 : name_eqb ?t b = true, H2 : name_eqb ?t a = true |- _ =>
           apply name_eqb_eq in H1; apply name_eqb_eq in H2; pose proof Hab as C; rewrite <- H1, <- H2, name_eqb_refl in C;
           discriminate end);
    cbn; try lra; try (field; lra).

  Lemma mulf_log_single2 y t c :
    d2mul_f (d2log (D2n y t)) c =
    mkDual2 (ln y * c) [t] [c * (1 / y * 1)] [[c * (1 / y * 0 - 1 * 1 * (1 / 2) * (1 / y * (1 / y)))]].
  Proof. reflexivity. Qed.
  Lemma mulf_pair2 r p q h11 h12 h21 h22 c :
    d2mul_f (mkDual2 r [b; a] [p; q] [[h11; h12]; [h21; h22]]) c =
    mkDual2 (r * c) [b; a] [c * p; c * q] [[c * h11; c * h12]; [c * h21; c * h22]].
  Proof. reflexivity. Qed.
  Lemma mulf_log_single1 y t c :
    dmul_f (dlog (Dn y t)) c = mkDual (ln y * c) [t] [c * (1 / y * 1)].
  Proof. reflexivity. Qed.
  Lemma mulf_pair1 r p q c :
    dmul_f (mkDual r [b; a] [p; q]) c = mkDual (r * c) [b; a] [c * p; c * q].
  Proof. reflexivity. Qed.

  Lemma form_d2_spec r x0 P0 x1 y1 x2 y2 x : r <> Null -> (x0 <= x1)%Z -> (x1 < x2)%Z -> 0 < y1 -> 0 < y2 ->
    let d := form iops_d2 r (x0, P0) (x1, D2n y1 a) (x2, D2n y2 b) x in
    let c1 := fst (coefs r x0 x1 x2 x) in let c2 := snd (coefs r x0 x1 x2 x) in
    let Gv := re2 d in
    let g1 := if is_exp r then Gv * c1 / y1 else c1 in
    let g2 := if is_exp r then Gv * c2 / y2 else c2 in
    let h11 := if is_exp r then Gv * (c1 * c1 - c1) / (y1 * y1) else 0 in
    let h12 := if is_exp r then Gv * (c1 * c2) / (y1 * y2) else 0 in
    let h22 := if is_exp r then Gv * (c2 * c2 - c2) / (y2 * y2) else 0 in
    (forall t, lk1 d t = by_names t g2 g1 0) /\
    (forall t u, 2 * lk2 d t u = by_names t (by_names u h22 h12 0) (by_names u h12 h11 0) 0).
  Proof.
    intros NN L01 L12 P1 P2.
    assert (Hx12 : IZR x2 - IZR x1 <> 0) by (apply IZR_lt in L12; lra).
    destruct r; try congruence; cbn zeta; cbn [is_exp].
    - (* LogLinear *)
      cbn [form fst snd coefs]. unfold log_linear_interp. cbn [io_log io_exp iops_d2].
      unfold d2log. cbn -[linear_interp]. rewrite lin_d2. cbn zeta. unfold d2exp. cbn.
      split; [intros t|intros t u]; lk_solve.
    - (* Linear *)
      cbn [form fst snd coefs]. rewrite lin_d2. cbn.
      split; [intros t|intros t u]; lk_solve.
    - (* LinearZeroRate *)
      cbn [form fst snd coefs]. unfold linear_zero_interp. cbn [io_log io_exp io_mulf io_add io_sub iops_d2].
      unfold nm1. change (@neqb R NumR) with Reqb. change (@nsub R NumR) with Rminus. change (@n0 R NumR) with 0.
      change (@n1 R NumR) with 1. change (@nneg R NumR) with Ropp. change (@ndiv R NumR) with Rdiv. change (@nofZ R NumR) with IZR.
      assert (EQ : Reqb (IZR x1 - IZR x0) 0 = (x1 =? x0)%Z).
      { unfold Reqb. destruct (Req_EM_T (IZR x1 - IZR x0) 0) as [E|E]; destruct (Z.eqb_spec x1 x0) as [E'|E']; auto.
        - exfalso. apply E'. apply eq_IZR. lra.
        - exfalso. apply E. subst. lra. }
      rewrite EQ. clear EQ. destruct (Z.eqb_spec x1 x0) as [E'|E'].
      + assert (Ht2 : IZR x2 - IZR x0 <> 0) by (subst; apply IZR_lt in L12; lra).
        unfold d2log, d2mul_f, d2exp. cbn.
        split; [intros t|intros t u]; lk_solve.
      + assert (Ht1 : IZR x1 - IZR x0 <> 0) by (intros C; apply E'; apply eq_IZR; lra).
        assert (Ht2 : IZR x2 - IZR x0 <> 0) by (apply IZR_le in L01; apply IZR_lt in L12; lra).
        assert (Ht21 : IZR x2 - IZR x0 - (IZR x1 - IZR x0) <> 0) by lra.
        rewrite !mulf_log_single2. rewrite d2sub_ba, mulf_pair2, d2add_a_ba, mulf_pair2.
        unfold d2exp. cbn.
        split; [intros t|intros t u]; lk_solve.
    - (* FlatForward *)
      cbn [form fst snd coefs]. destruct (x >=? x2)%Z; cbn; split; [intros t|intros t u|intros t|intros t u]; lk_solve.
    - (* FlatBackward *)
      cbn [form fst snd coefs]. destruct (x <=? x1)%Z; cbn; split; [intros t|intros t u|intros t|intros t u]; lk_solve.
  Qed.

  Definition lk0 (d : dual R) (t : name) : R := lookup_or_zero (vs d) (du d) t.
  Lemma form_d1_spec r x0 P0 x1 y1 x2 y2 x : r <> Null -> (x0 <= x1)%Z -> (x1 < x2)%Z -> 0 < y1 -> 0 < y2 ->
    let d := form iops_d r (x0, P0) (x1, Dn y1 a) (x2, Dn y2 b) x in
    let c1 := fst (coefs r x0 x1 x2 x) in let c2 := snd (coefs r x0 x1 x2 x) in
    let Gv := re d in
    let g1 := if is_exp r then Gv * c1 / y1 else c1 in
    let g2 := if is_exp r then Gv * c2 / y2 else c2 in
    forall t, lk0 d t = by_names t g2 g1 0.
  Proof.
    intros NN L01 L12 P1 P2.
    assert (Hx12 : IZR x2 - IZR x1 <> 0) by (apply IZR_lt in L12; lra).
    destruct r; try congruence; cbn zeta; cbn [is_exp].
    - cbn [form fst snd coefs]. unfold log_linear_interp. cbn [io_log io_exp iops_d].
      unfold dlog. cbn -[linear_interp]. rewrite lin_d. unfold dexp. cbn.
      intros t; unfold lk0; lk_solve.
    - cbn [form fst snd coefs]. rewrite lin_d. cbn. intros t; unfold lk0; lk_solve.
    - cbn [form fst snd coefs]. unfold linear_zero_interp. cbn [io_log io_exp io_mulf io_add io_sub iops_d].
      unfold nm1. change (@neqb R NumR) with Reqb. change (@nsub R NumR) with Rminus. change (@n0 R NumR) with 0.
      change (@n1 R NumR) with 1. change (@nneg R NumR) with Ropp. change (@ndiv R NumR) with Rdiv. change (@nofZ R NumR) with IZR.
      assert (EQ : Reqb (IZR x1 - IZR x0) 0 = (x1 =? x0)%Z).
      { unfold Reqb. destruct (Req_EM_T (IZR x1 - IZR x0) 0) as [E|E]; destruct (Z.eqb_spec x1 x0) as [E'|E']; auto.
        - exfalso. apply E'. apply eq_IZR. lra.
        - exfalso. apply E. subst. lra. }
      rewrite EQ. clear EQ. destruct (Z.eqb_spec x1 x0) as [E'|E'].
      + assert (Ht2 : IZR x2 - IZR x0 <> 0) by (subst; apply IZR_lt in L12; lra).
        unfold dlog, dmul_f, dexp. cbn. intros t; unfold lk0; lk_solve.
      + assert (Ht1 : IZR x1 - IZR x0 <> 0) by (intros C; apply E'; apply eq_IZR; lra).
        assert (Ht2 : IZR x2 - IZR x0 <> 0) by (apply IZR_le in L01; apply IZR_lt in L12; lra).
        assert (Ht21 : IZR x2 - IZR x0 - (IZR x1 - IZR x0) <> 0) by lra.
        rewrite !mulf_log_single1. rewrite dsub_ba, mulf_pair1, dadd_a_ba, mulf_pair1.
        unfold dexp. cbn. intros t; unfold lk0; lk_solve.
    - cbn [form fst snd coefs]. destruct (x >=? x2)%Z; cbn; intros t; unfold lk0; lk_solve.
    - cbn [form fst snd coefs]. destruct (x <=? x1)%Z; cbn; intros t; unfold lk0; lk_solve.
  Qed.
End Ops2.

(* ====================================================================================== *)
(* Part H: tags are distinct; gradient read-back; closed forms as two families; perturbed look-ups *)
Local Open Scope nat_scope.

(* ---- variable tags are pairwise distinct (usize::to_string is injective) *)
Lemma dec_digits_len fuel : forall n acc, length acc <= length (dec_digits fuel n acc).
Proof.
  induction fuel as [|k IH]; intros n acc; cbn; auto.
  destruct (n / 10 =? 0)%Z; cbn; [lia|]. specialize (IH (n / 10)%Z ((48 + n mod 10)%Z :: acc)). cbn in IH. lia.
Qed.
Lemma dec_digits_len_S k n acc : S (length acc) <= length (dec_digits (S k) n acc).
Proof.
  cbn. destruct (n / 10 =? 0)%Z; cbn; [lia|].
  assert (A := dec_digits_len k (n / 10)%Z ((48 + n mod 10)%Z :: acc)). cbn in A. lia.
Qed.
Lemma dec_digits_inj fuel : forall n m acc acc',
  (0 <= n < 10 ^ Z.of_nat fuel)%Z -> (0 <= m < 10 ^ Z.of_nat fuel)%Z -> length acc = length acc' ->
  dec_digits fuel n acc = dec_digits fuel m acc' -> n = m /\ acc = acc'.
Proof.
  induction fuel as [|k IH]; intros n m acc acc' Hn Hm L E.
  - cbn in *. split; [lia|auto].
  - rewrite Nat2Z.inj_succ, Z.pow_succ_r in Hn, Hm by lia.
    assert (Qn : (0 <= n / 10 < 10 ^ Z.of_nat k)%Z) by (split; [apply Z.div_pos; lia|apply Z.div_lt_upper_bound; lia]).
    assert (Qm : (0 <= m / 10 < 10 ^ Z.of_nat k)%Z) by (split; [apply Z.div_pos; lia|apply Z.div_lt_upper_bound; lia]).
    assert (Dn := Z.div_mod n 10 ltac:(lia)). assert (Dm := Z.div_mod m 10 ltac:(lia)).
    assert (Mn := Z.mod_pos_bound n 10 ltac:(lia)). assert (Mm := Z.mod_pos_bound m 10 ltac:(lia)).
    cbn [dec_digits] in E.
    destruct (Z.eqb_spec (n / 10) 0) as [En|En]; destruct (Z.eqb_spec (m / 10) 0) as [Em|Em].
    + pose proof (f_equal (@hd Z 0%Z) E) as E1; cbn [hd] in E1. pose proof (f_equal (@tl Z) E) as E2; cbn [tl] in E2. split; [lia|auto].
    + exfalso. destruct k as [|k'].
      * cbn in Qm. lia.
      * assert (A := dec_digits_len_S k' (m / 10)%Z ((48 + m mod 10)%Z :: acc')).
        rewrite <- E in A. cbn in A. lia.
    + exfalso. destruct k as [|k'].
      * cbn in Qn. lia.
      * assert (A := dec_digits_len_S k' (n / 10)%Z ((48 + n mod 10)%Z :: acc)).
        rewrite E in A. cbn in A. lia.
    + assert (LL : length ((48 + n mod 10)%Z :: acc) = length ((48 + m mod 10)%Z :: acc')) by (cbn [length]; lia).
      destruct (IH _ _ _ _ Qn Qm LL E) as [A B]. pose proof (f_equal (@hd Z 0%Z) B) as B1; cbn [hd] in B1. pose proof (f_equal (@tl Z) B) as B2; cbn [tl] in B2. split; [lia|auto].
Qed.
Definition usize_max : Z := 18446744073709551616%Z.
Lemma var_tag_inj id i j : (Z.of_nat i < usize_max)%Z -> (Z.of_nat j < usize_max)%Z ->
  var_tag id i = var_tag id j -> i = j.
Proof.
  unfold var_tag, dec_of_Z, usize_max. intros Hi Hj E. apply app_inv_head in E.
  assert (P : (18446744073709551616 < 10 ^ Z.of_nat 40)%Z) by (vm_compute; reflexivity).
  destruct (dec_digits_inj 40 (Z.of_nat i) (Z.of_nat j) [] []) as [A _]; auto; lia.
Qed.
Lemma var_tag_neqb id i j : (Z.of_nat i < usize_max)%Z -> (Z.of_nat j < usize_max)%Z -> i <> j ->
  name_eqb (var_tag id i) (var_tag id j) = false.
Proof. intros Hi Hj N. apply name_eqb_neq. intros E. apply N. eapply var_tag_inj; eauto. Qed.
Lemma NoDup_map_inj_in {A B} (f : A -> B) l : NoDup l ->
  (forall x y, In x l -> In y l -> f x = f y -> x = y) -> NoDup (map f l).
Proof.
  induction 1 as [|a l NI ND IH]; intros Inj; cbn; constructor.
  - intros I. apply in_map_iff in I. destruct I as (y & E & Hy).
    assert (y = a) by (apply Inj; [right; auto|left; auto|auto]). subst. contradiction.
  - apply IH. intros x y Hx Hy. apply Inj; right; auto.
Qed.
Lemma tags_NoDup id n : (Z.of_nat n <= usize_max)%Z -> NoDup (get_variable_tags id n).
Proof.
  intros L. unfold get_variable_tags. apply NoDup_map_inj_in.
  - apply seq_NoDup.
  - intros i j Hi Hj E. apply in_seq in Hi. apply in_seq in Hj. eapply var_tag_inj; eauto; lia.
Qed.

(* ---- gradient1 / gradient2 read back the coefficient of each requested name *)
Local Open Scope R_scope.

Lemma nth_map_in {A B} (f : A -> B) l j dA dB : (j < length l)%nat -> nth j (map f l) dB = f (nth j l dA).
Proof. intros L. rewrite (nth_indep _ dB (f dA)) by (rewrite map_length; auto). apply map_nth. Qed.

Lemma vars_cmp_false_cases xs ys :
  (vars_cmp false xs ys = ValEq /\ xs = ys) \/
  (vars_cmp false xs ys <> ValEq /\ vars_cmp false xs ys <> ArcEq).
Proof.
  unfold vars_cmp. cbn.
  destruct (Nat.eqb (length xs) (length ys) && names_zip_all xs ys) eqn:E.
  - left. split; auto. apply andb_true_iff in E. destruct E as [E1 E2]. apply Nat.eqb_eq in E1.
    apply names_zip_all_eq; auto.
  - right. repeat match goal with |- context [if ?c then _ else _] => destruct c end; split; discriminate.
Qed.

Lemma gradient1_gen_nth vars (d : list R) ws j : NoDup ws -> (j < length ws)%nat ->
  nth j (gradient1_gen vars d ws) 0 = lookup_or_zero vars d (nth j ws []).
Proof.
  intros ND L. unfold gradient1_gen. rewrite (dedup_id ws ND).
  destruct (vars_cmp_false_cases vars ws) as [[E V]|[N1 N2]].
  - rewrite E. subst vars. unfold lookup_or_zero. unfold name in *. rewrite (index_of_nth ws ND j L). reflexivity.
  - destruct (vars_cmp false vars ws); try congruence; apply (nth_map_in _ ws j [] 0 L).
Qed.

Lemma nth_mmap0 (f : R -> R) (m : list (list R)) j k : f 0 = 0 ->
  nth k (nth j (map (map f) m) []) 0 = f (nth k (nth j m []) 0).
Proof.
  intros F0. destruct (Nat.lt_ge_cases j (length m)) as [L|L].
  - rewrite (nth_map_in (map f) m j [] [] L).
    destruct (Nat.lt_ge_cases k (length (nth j m []))) as [L'|L'].
    + apply (nth_map_in f _ k 0 0 L').
    + rewrite !nth_overflow; auto. rewrite map_length. auto.
  - rewrite (nth_overflow (map (map f) m)) by (rewrite map_length; auto). rewrite (nth_overflow m) by auto.
    destruct k; cbn; auto.
Qed.

Lemma gradient2_nth (d : dual2 R) ws j k : NoDup ws -> (j < length ws)%nat -> (k < length ws)%nat ->
  nth k (nth j (gradient2 d ws) []) 0 = 2 * lookup2_or_zero (vs2 d) (dd2 d) (nth j ws []) (nth k ws []).
Proof.
  intros ND Lj Lk. unfold gradient2. rewrite (dedup_id ws ND).
  assert (F0 : (fun e : R => nmul n2 e) 0 = 0) by (cbn; unfold n2; cbn; ring).
  assert (T : forall e : R, nmul n2 e = 2 * e) by (intros; reflexivity).
  destruct (vars_cmp_false_cases (vs2 d) ws) as [[E V]|[N1 N2]].
  - rewrite E. unfold mmap. rewrite nth_mmap0 by exact F0. rewrite T. f_equal.
    unfold lookup2_or_zero. rewrite V. unfold name in *. rewrite (index_of_nth ws ND j Lj), (index_of_nth ws ND k Lk). reflexivity.
  - assert (G : nth k (nth j (mmap (fun e : R => nmul n2 e)
                    (map (fun u => map (fun v => lookup2_or_zero (vs2 d) (dd2 d) u v) ws) ws)) []) 0 =
                2 * lookup2_or_zero (vs2 d) (dd2 d) (nth j ws []) (nth k ws [])).
    { unfold mmap. rewrite nth_mmap0 by exact F0. rewrite T. f_equal.
      rewrite (nth_map_in _ ws j [] [] Lj). apply (nth_map_in _ ws k [] 0 Lk). }
    destruct (vars_cmp false (vs2 d) ws); try congruence; exact G.
Qed.

(* ---- the closed forms as members of two families *)
Lemma closed_fam r x0 x1 x2 x u v : r <> Null ->
  closed_form r x0 x1 u x2 v x =
  if is_exp r then famB (fst (coefs r x0 x1 x2 x)) (snd (coefs r x0 x1 x2 x)) u v
  else famA (fst (coefs r x0 x1 x2 x)) (snd (coefs r x0 x1 x2 x)) u v.
Proof.
  intros NN. destruct r; try congruence; cbn -[Z.eqb Z.geb Z.leb]; unfold famA, famB.
  - f_equal. ring.
  - ring.
  - destruct (x1 =? x0)%Z; cbn [fst snd]; f_equal; unfold Rdiv; ring.
  - destruct (x >=? x2)%Z; cbn [fst snd]; ring.
  - destruct (x <=? x1)%Z; cbn [fst snd]; ring.
Qed.

Section ClosedCalc.
  Variables (r : rule) (x0 x1 x2 x : Z).
  Hypothesis NN : r <> Null.
  Let c1 := fst (coefs r x0 x1 x2 x).
  Let c2 := snd (coefs r x0 x1 x2 x).
  Definition Gf (u v : R) : R := closed_form r x0 x1 u x2 v x.
  Definition G1f (u v : R) : R := if is_exp r then Gf u v * c1 / u else c1.
  Definition G2f (u v : R) : R := if is_exp r then Gf u v * c2 / v else c2.
  Definition G11f (u v : R) : R := if is_exp r then Gf u v * (c1 * c1 - c1) / (u * u) else 0.
  Definition G12f (u v : R) : R := if is_exp r then Gf u v * (c1 * c2) / (u * v) else 0.
  Definition G22f (u v : R) : R := if is_exp r then Gf u v * (c2 * c2 - c2) / (v * v) else 0.

  Lemma Gf_fam u v : Gf u v = if is_exp r then famB c1 c2 u v else famA c1 c2 u v.
  Proof. unfold Gf, c1, c2. apply closed_fam; auto. Qed.

  Lemma closed_HA u v : 0 < u -> 0 < v -> is_derive (fun t => Gf t v) u (G1f u v).
  Proof.
    intros Pu Pv. unfold G1f. rewrite Gf_fam. destruct (is_exp r) eqn:E.
    - apply (is_derive_ext (fun t => famB c1 c2 t v)); [intros t; rewrite Gf_fam, E; reflexivity|]. apply famB_d1; auto.
    - apply (is_derive_ext (fun t => famA c1 c2 t v)); [intros t; rewrite Gf_fam, E; reflexivity|]. apply famA_d1.
  Qed.
  Lemma closed_HB u v : 0 < u -> 0 < v -> is_derive (fun t => Gf u t) v (G2f u v).
  Proof.
    intros Pu Pv. unfold G2f. rewrite Gf_fam. destruct (is_exp r) eqn:E.
    - apply (is_derive_ext (fun t => famB c1 c2 u t)); [intros t; rewrite Gf_fam, E; reflexivity|]. apply famB_d2; auto.
    - apply (is_derive_ext (fun t => famA c1 c2 u t)); [intros t; rewrite Gf_fam, E; reflexivity|]. apply famA_d2.
  Qed.
  Lemma closed_H11 u v : 0 < u -> 0 < v -> is_derive (fun t => G1f t v) u (G11f u v).
  Proof.
    intros Pu Pv. unfold G1f, G11f. rewrite Gf_fam. destruct (is_exp r) eqn:E.
    - apply (is_derive_ext (fun t => famB c1 c2 t v * c1 / t)); [intros t; rewrite Gf_fam, E; reflexivity|]. apply famB_d11; auto.
    - apply dR_const.
  Qed.
  Lemma closed_H12 u v : 0 < u -> 0 < v -> is_derive (fun t => G1f u t) v (G12f u v).
  Proof.
    intros Pu Pv. unfold G1f, G12f. rewrite Gf_fam. destruct (is_exp r) eqn:E.
    - apply (is_derive_ext (fun t => famB c1 c2 u t * c1 / u)); [intros t; rewrite Gf_fam, E; reflexivity|]. apply famB_d12; auto.
    - apply dR_const.
  Qed.
  Lemma closed_H21 u v : 0 < u -> 0 < v -> is_derive (fun t => G2f t v) u (G12f u v).
  Proof.
    intros Pu Pv. unfold G2f, G12f. rewrite Gf_fam. destruct (is_exp r) eqn:E.
    - apply (is_derive_ext (fun t => famB c1 c2 t v * c2 / v)); [intros t; rewrite Gf_fam, E; reflexivity|]. apply famB_d21; auto.
    - apply dR_const.
  Qed.
  Lemma closed_H22 u v : 0 < u -> 0 < v -> is_derive (fun t => G2f u t) v (G22f u v).
  Proof.
    intros Pu Pv. unfold G2f, G22f. rewrite Gf_fam. destruct (is_exp r) eqn:E.
    - apply (is_derive_ext (fun t => famB c1 c2 u t * c2 / t)); [intros t; rewrite Gf_fam, E; reflexivity|]. apply famB_d22; auto.
    - apply dR_const.
  Qed.
End ClosedCalc.

(* ---- the look-up as a real function of the node values *)
Definition lookupR (r : rule) (m : list (Z * R)) (x : Z) : R :=
  match interp_at iopsR r m x with Ok v => v | _ => 0 end.
(* add a to the value of node j *)
Definition add_val (m : list (Z * R)) (j : nat) (a : R) : list (Z * R) :=
  mapi (fun i kv => if Nat.eqb i j then (fst kv, snd kv + a) else kv) m.

Lemma add_val_keys m j a : keys (add_val m j a) = keys m.
Proof.
  unfold keys, add_val, mapi. rewrite mapi_from_map.
  rewrite (mapi_from_ext _ (fun _ kv => fst kv)); [apply mapi_from_const|].
  intros i kv _. destruct (Nat.eqb (0 + i) j); reflexivity.
Qed.
Lemma add_val_length m j a : length (add_val m j a) = length m.
Proof. unfold add_val, mapi. apply mapi_from_length. Qed.
Lemma add_val_nth m j a i kx ky : nth_error m i = Some (kx, ky) ->
  nth_error (add_val m j a) i = Some (kx, if Nat.eqb i j then ky + a else ky).
Proof.
  intros E. unfold add_val, mapi. rewrite mapi_from_nth_error, E. cbn. destruct (Nat.eqb i j); reflexivity.
Qed.

Lemma lookupR_closed r m x x0 y0 x1 y1 x2 y2 : ksorted m -> (2 <= length m)%nat -> r <> Null ->
  nth_error m 0 = Some (x0, y0) -> nth_error m (interval_of m x) = Some (x1, y1) ->
  nth_error m (S (interval_of m x)) = Some (x2, y2) ->
  lookupR r m x = closed_form r x0 x1 y1 x2 y2 x.
Proof.
  intros Hs L NN E0 E1 E2. unfold lookupR.
  destruct (interp_at_form iopsR r m x Hs L NN) as (p0 & p1 & p2 & A0 & A1 & A2 & AV).
  rewrite AV. assert (p0 = (x0, y0)) by congruence. assert (p1 = (x1, y1)) by congruence.
  assert (p2 = (x2, y2)) by congruence. subst. apply form_closed; auto.
Qed.

Definition sel_of (i j : nat) : sel := if Nat.eqb j i then SL else if Nat.eqb j (S i) then SR else SN.

(* the look-up on a curve with nodes j and k perturbed by p and q *)
Lemma lookupR_perturbed r m x j k p q x0 y0 x1 y1 x2 y2 : ksorted m -> (2 <= length m)%nat -> r <> Null ->
  nth_error m 0 = Some (x0, y0) -> nth_error m (interval_of m x) = Some (x1, y1) ->
  nth_error m (S (interval_of m x)) = Some (x2, y2) ->
  lookupR r (add_val (add_val m j p) k q) x =
  Gf r x0 x1 x2 x (y1 + sL (sel_of (interval_of m x) j) * p + sL (sel_of (interval_of m x) k) * q)
                  (y2 + sR (sel_of (interval_of m x) j) * p + sR (sel_of (interval_of m x) k) * q).
Proof.
  intros Hs L NN E0 E1 E2.
  set (m' := add_val (add_val m j p) k q).
  assert (K : keys m' = keys m) by (unfold m'; rewrite !add_val_keys; reflexivity).
  assert (Ln : length m' = length m) by (unfold m'; rewrite !add_val_length; reflexivity).
  assert (I : interval_of m' x = interval_of m x) by (unfold interval_of; rewrite K, Ln; reflexivity).
  assert (Hs' : ksorted m') by (unfold ksorted; rewrite K; exact Hs).
  set (i := interval_of m x) in *.
  assert (N : forall t kx ky, nth_error m t = Some (kx, ky) ->
            nth_error m' t = Some (kx, if Nat.eqb t k then (if Nat.eqb t j then ky + p else ky) + q
                                       else if Nat.eqb t j then ky + p else ky)).
  { intros t kx ky E. unfold m'. erewrite add_val_nth; [|eapply add_val_nth; exact E]. reflexivity. }
  erewrite (lookupR_closed r m' x); [| exact Hs' | lia | exact NN | apply N; exact E0 | rewrite I; apply N; exact E1
                                     | rewrite I; apply N; exact E2].
  unfold Gf. unfold sel_of.
  assert (Si : Nat.eqb (S i) i = false) by (apply Nat.eqb_neq; lia).
  assert (iS : Nat.eqb i (S i) = false) by (apply Nat.eqb_neq; lia).
  rewrite !(Nat.eqb_sym i), !(Nat.eqb_sym (S i)).
  f_equal.
  - destruct (Nat.eqb_spec k i); destruct (Nat.eqb_spec j i); subst; rewrite ?Si, ?iS; cbn;
      repeat match goal with |- context [Nat.eqb ?a ?b] => destruct (Nat.eqb a b) end; cbn; ring.
  - destruct (Nat.eqb_spec k (S i)); destruct (Nat.eqb_spec j (S i)); subst; rewrite ?Si, ?iS; cbn;
      repeat match goal with |- context [Nat.eqb ?a ?b] => destruct (Nat.eqb a b) end; cbn; ring.
Qed.

(* ====================================================================================== *)
(* Part I: C12_grad *)
Local Open Scope R_scope.

Lemma form_hom {U} (o : iops R U) (phi : U -> R) (Hh : hom o phi) r p0 p1 p2 x :
  phi (form o r p0 p1 p2 x) =
  form iopsR r (fst p0, phi (snd p0)) (fst p1, phi (snd p1)) (fst p2, phi (snd p2)) x.
Proof.
  destruct r; cbn [form fst snd].
  - apply (hom_loglinear o phi Hh).
  - apply (hom_linear o phi Hh).
  - apply (hom_zero o phi Hh).
  - destruct (x >=? fst p2)%Z; reflexivity.
  - destruct (x <=? fst p1)%Z; reflexivity.
  - reflexivity.
Qed.

Lemma tag_eqb id i j : (Z.of_nat i < usize_max)%Z -> (Z.of_nat j < usize_max)%Z ->
  name_eqb (var_tag id i) (var_tag id j) = Nat.eqb i j.
Proof.
  intros Hi Hj. destruct (Nat.eqb_spec i j).
  - subst. apply name_eqb_refl.
  - apply var_tag_neqb; auto.
Qed.

Lemma by_names_sel {A} id i j (vb va v0 : A) : (Z.of_nat (S i) < usize_max)%Z -> (Z.of_nat j < usize_max)%Z ->
  by_names (var_tag id i) (var_tag id (S i)) (var_tag id j) vb va v0 =
  match sel_of i j with SL => va | SR => vb | SN => v0 end.
Proof.
  intros Hi Hj. unfold by_names, sel_of. rewrite !tag_eqb by lia.
  destruct (Nat.eqb_spec j (S i)); destruct (Nat.eqb_spec j i); try reflexivity. lia.
Qed.

Lemma lookupR_perturbed1 r m x j p x0 y0 x1 y1 x2 y2 : ksorted m -> (2 <= length m)%nat -> r <> Null ->
  nth_error m 0 = Some (x0, y0) -> nth_error m (interval_of m x) = Some (x1, y1) ->
  nth_error m (S (interval_of m x)) = Some (x2, y2) ->
  lookupR r (add_val m j p) x =
  Gf r x0 x1 x2 x (y1 + sL (sel_of (interval_of m x) j) * p) (y2 + sR (sel_of (interval_of m x) j) * p).
Proof.
  intros Hs L NN E0 E1 E2.
  set (m' := add_val m j p).
  assert (K : keys m' = keys m) by (unfold m'; rewrite !add_val_keys; reflexivity).
  assert (Ln : length m' = length m) by (unfold m'; rewrite !add_val_length; reflexivity).
  assert (I : interval_of m' x = interval_of m x) by (unfold interval_of; rewrite K, Ln; reflexivity).
  assert (Hs' : ksorted m') by (unfold ksorted; rewrite K; exact Hs).
  set (i := interval_of m x) in *.
  assert (N : forall t kx ky, nth_error m t = Some (kx, ky) ->
            nth_error m' t = Some (kx, if Nat.eqb t j then ky + p else ky)).
  { intros t kx ky E. unfold m'. apply add_val_nth; exact E. }
  erewrite (lookupR_closed r m' x); [| exact Hs' | lia | exact NN | apply N; exact E0 | rewrite I; apply N; exact E1
                                     | rewrite I; apply N; exact E2].
  unfold Gf, sel_of.
  assert (Si : Nat.eqb (S i) i = false) by (apply Nat.eqb_neq; lia).
  rewrite !(Nat.eqb_sym i), !(Nat.eqb_sym (S i)).
  f_equal.
  - destruct (Nat.eqb_spec j i); subst; cbn; [ring|]. destruct (Nat.eqb j (S i)); cbn; ring.
  - destruct (Nat.eqb_spec j (S i)); subst; rewrite ?Si; cbn; [ring|]. destruct (Nat.eqb j i); cbn; ring.
Qed.

Definition positive_nodes (m : list (Z * R)) : Prop := forall kv, In kv m -> 0 < snd kv.

Lemma sorted_bracket (c : curveR) m x : sortedF c m ->
  exists x0 y0 x1 y1 x2 y2, nth_error m 0 = Some (x0, y0) /\ nth_error m (interval_of m x) = Some (x1, y1) /\
    nth_error m (S (interval_of m x)) = Some (x2, y2) /\ (x0 <= x1)%Z /\ (x1 < x2)%Z.
Proof.
  intros (En & Hs & L). assert (Hi := interval_of_lt m x L).
  destruct (nth_error_some_lt m 0) as [[x0 y0] E0]; [lia|].
  destruct (nth_error_some_lt m (interval_of m x)) as [[x1 y1] E1]; [lia|].
  destruct (nth_error_some_lt m (S (interval_of m x))) as [[x2 y2] E2]; [lia|].
  exists x0, y0, x1, y1, x2, y2. repeat split; auto.
  - destruct (interval_of m x) as [|i'] eqn:EI.
    + assert ((x1, y1) = (x0, y0)) by congruence. inversion H; lia.
    + assert ((x0 < x1)%Z); [|lia]. apply (ksorted_nth_lt m 0 (S i') (x0, y0) (x1, y1)); auto. lia.
  - apply (ksorted_nth_lt m (interval_of m x) (S (interval_of m x)) (x1, y1) (x2, y2)); auto.
Qed.

Section Tagged.
  Variables (c : curveR) (m : list (Z * R)) (x : Z).
  Hypothesis SF : sortedF c m.
  Hypothesis NN : c_rule c <> Null.
  Hypothesis Lu : (Z.of_nat (length m) <= usize_max)%Z.
  Hypothesis Pos : positive_nodes m.
  Let tags := get_variable_tags (c_id c) (length m).
  Let r := c_rule c.
  Let i := interval_of m x.

  Lemma tags_facts : NoDup tags /\ length tags = length m /\
    forall j, (j < length m)%nat -> nth j tags [] = var_tag (c_id c) j.
  Proof.
    split; [apply tags_NoDup; exact Lu|]. split.
    - unfold tags, get_variable_tags. rewrite map_length, seq_length. reflexivity.
    - intros j Hj. apply tags_nth; auto.
  Qed.

  Theorem grad2_exact :
    exists d, interpolated_value (set_ad_order c OTwo) x = Ok (ND2 d) /\ re2 d = lookupR r m x /\
      (forall j, (j < length m)%nat ->
         is_derive (fun p => lookupR r (add_val m j p) x) 0 (nth j (gradient1_2 d tags) 0)) /\
      (forall j k, (j < length m)%nat -> (k < length m)%nat ->
         exists g1 : R -> R,
           locally 0 (fun q => is_derive (fun p => lookupR r (add_val (add_val m j p) k q) x) 0 (g1 q)) /\
           is_derive g1 0 (nth k (nth j (gradient2 d tags) []) 0)) /\
      (forall j, (j < length m)%nat -> j <> i -> j <> S i ->
         nth j (gradient1_2 d tags) 0 = 0 /\
         forall k, (k < length m)%nat ->
           nth k (nth j (gradient2 d tags) []) 0 = 0 /\ nth j (nth k (gradient2 d tags) []) 0 = 0).
  Proof.
    destruct (sorted_bracket c m x SF) as (x0 & y0 & x1 & y1 & x2 & y2 & E0 & E1 & E2 & L01 & L12).
    assert (SF' := SF). destruct SF' as (En & Hs & L).
    fold i in E1, E2.
    assert (Hi : (S i < length m)%nat) by (apply interval_of_lt; auto).
    assert (P1 : 0 < y1) by (apply (Pos (x1, y1)); eapply nth_error_In; eauto).
    assert (P2 : 0 < y2) by (apply (Pos (x2, y2)); eapply nth_error_In; eauto).
    set (id := c_id c) in *. set (a := var_tag id i). set (b := var_tag id (S i)).
    assert (Bi : (Z.of_nat (S i) < usize_max)%Z) by lia.
    assert (Hab : name_eqb a b = false) by (apply var_tag_neqb; lia).
    assert (Hba : name_eqb b a = false) by (apply var_tag_neqb; lia).
    destruct (set_order_tags c m En) as [_ E2n]. fold id in E2n.
    set (m2 := mapi (fun i kv => (fst kv, mkDual2 (snd kv) [var_tag id i] [n1] [[n0]])) m) in *.
    assert (K2 : keys m2 = keys m).
    { unfold keys, m2, mapi. rewrite mapi_from_map.
      rewrite (mapi_from_ext _ (fun _ kv => fst kv)) by (intros; reflexivity). apply mapi_from_const. }
    assert (Ln2 : length m2 = length m) by (apply mapi_from_length).
    assert (I2 : interval_of m2 x = i) by (unfold i, interval_of; rewrite K2, Ln2; reflexivity).
    assert (Hs2 : ksorted m2) by (unfold ksorted; rewrite K2; exact Hs).
    assert (N2 : forall t kx ky, nth_error m t = Some (kx, ky) ->
               nth_error m2 t = Some (kx, mkDual2 ky [var_tag id t] [1] [[0]])).
    { intros t kx ky E. unfold m2, mapi. rewrite mapi_from_nth_error, E. reflexivity. }
    destruct (interp_at_form iops_d2 r m2 x Hs2 ltac:(lia) NN) as (p0 & p1 & p2 & A0 & A1 & A2 & AV).
    rewrite I2 in A1, A2.
    rewrite (N2 _ _ _ E0) in A0. rewrite (N2 _ _ _ E1) in A1. rewrite (N2 _ _ _ E2) in A2.
    injection A0 as <-. injection A1 as <-. injection A2 as <-.
    fold a b in AV.
    set (d := form iops_d2 r (x0, mkDual2 y0 [var_tag id 0] [1] [[0]]) (x1, mkDual2 y1 [a] [1] [[0]])
                (x2, mkDual2 y2 [b] [1] [[0]]) x) in *.
    exists d.
    assert (Gv : re2 d = Gf r x0 x1 x2 x y1 y2).
    { unfold d. rewrite (form_hom iops_d2 re2 hom_d2). cbn [fst snd re2]. rewrite form_closed; auto. }
    destruct (form_d2_spec a b Hab Hba r x0 (mkDual2 y0 [var_tag id 0] [1] [[0]]) x1 y1 x2 y2 x NN L01 L12 P1 P2)
      as [S1 S2]. fold d in S1, S2. rewrite Gv in S1, S2.
    destruct tags_facts as (TN & TL & TT). fold id in TT.
    assert (GR1 : forall j, (j < length m)%nat ->
              nth j (gradient1_2 d tags) 0 = gsel (G1f r x0 x1 x2 x) (G2f r x0 x1 x2 x) y1 y2 (sel_of i j)).
    { intros j Hj. unfold gradient1_2. rewrite gradient1_gen_nth by (auto; lia). rewrite TT by auto.
      change (lookup_or_zero (vs2 d) (du2 d) (var_tag id j)) with (lk1 d (var_tag id j)). rewrite S1.
      unfold a, b. rewrite by_names_sel by lia. unfold gsel, G1f, G2f. destruct (sel_of i j); reflexivity. }
    assert (GR2 : forall j k, (j < length m)%nat -> (k < length m)%nat ->
              nth k (nth j (gradient2 d tags) []) 0 =
              hsel (G11f r x0 x1 x2 x y1 y2) (G12f r x0 x1 x2 x y1 y2) (G12f r x0 x1 x2 x y1 y2)
                   (G22f r x0 x1 x2 x y1 y2) (sel_of i j) (sel_of i k)).
    { intros j k Hj Hk. rewrite gradient2_nth by (auto; lia). rewrite !TT by auto.
      change (lookup2_or_zero (vs2 d) (dd2 d) (var_tag id j) (var_tag id k)) with (lk2 d (var_tag id j) (var_tag id k)).
      rewrite S2. unfold a, b. rewrite !by_names_sel by lia. unfold hsel, G11f, G12f, G22f.
      destruct (sel_of i j); destruct (sel_of i k); reflexivity. }
    split; [|split; [|split; [|split]]].
    - unfold interpolated_value. destruct (set_order_fields c OTwo) as (RR & _). rewrite RR, E2n. fold r.
      rewrite AV. reflexivity.
    - rewrite Gv. symmetry. apply (lookupR_closed r m x x0 y0 x1 y1 x2 y2); auto.
    - intros j Hj. rewrite GR1 by auto.
      apply (is_derive_ext (fun p => Gf r x0 x1 x2 x (y1 + sL (sel_of i j) * p) (y2 + sR (sel_of i j) * p))).
      + intros p. symmetry. apply (lookupR_perturbed1 r m x j p x0 y0 x1 y1 x2 y2); auto.
      + apply grad_sel; auto; intros; [apply closed_HA|apply closed_HB]; auto.
    - intros j k Hj Hk. rewrite GR2 by auto.
      destruct (hess_sel (Gf r x0 x1 x2 x) (G1f r x0 x1 x2 x) (G2f r x0 x1 x2 x) y1 y2
                  (G11f r x0 x1 x2 x y1 y2) (G12f r x0 x1 x2 x y1 y2) (G12f r x0 x1 x2 x y1 y2) (G22f r x0 x1 x2 x y1 y2)
                  P1 P2 (closed_HA r x0 x1 x2 x NN) (closed_HB r x0 x1 x2 x NN)
                  (closed_H11 r x0 x1 x2 x NN y1 y2 P1 P2) (closed_H12 r x0 x1 x2 x NN y1 y2 P1 P2)
                  (closed_H21 r x0 x1 x2 x NN y1 y2 P1 P2) (closed_H22 r x0 x1 x2 x NN y1 y2 P1 P2)
                  (sel_of i j) (sel_of i k)) as (g1 & A & B).
      exists g1. split; [|exact B]. revert A. apply filter_imp. intros q Hq.
      apply (is_derive_ext (fun p => Gf r x0 x1 x2 x (y1 + sL (sel_of i j) * p + sL (sel_of i k) * q)
                                          (y2 + sR (sel_of i j) * p + sR (sel_of i k) * q))); [|exact Hq].
      intros p. symmetry. apply (lookupR_perturbed r m x j k p q x0 y0 x1 y1 x2 y2); auto.
    - intros j Hj N1 N2'. assert (SN' : sel_of i j = SN).
      { unfold sel_of. destruct (Nat.eqb_spec j i); [lia|]. destruct (Nat.eqb_spec j (S i)); [lia|]. reflexivity. }
      split; [rewrite GR1 by auto; rewrite SN'; reflexivity|].
      intros k Hk. rewrite !GR2 by auto. rewrite SN'. unfold hsel. destruct (sel_of i k); auto.
  Qed.

  Theorem grad1_exact :
    exists d, interpolated_value (set_ad_order c OOne) x = Ok (ND d) /\ re d = lookupR r m x /\
      (forall j, (j < length m)%nat ->
         is_derive (fun p => lookupR r (add_val m j p) x) 0 (nth j (gradient1 d tags) 0)) /\
      (forall j, (j < length m)%nat -> j <> i -> j <> S i -> nth j (gradient1 d tags) 0 = 0).
  Proof.
    destruct (sorted_bracket c m x SF) as (x0 & y0 & x1 & y1 & x2 & y2 & E0 & E1 & E2 & L01 & L12).
    assert (SF' := SF). destruct SF' as (En & Hs & L).
    fold i in E1, E2.
    assert (Hi : (S i < length m)%nat) by (apply interval_of_lt; auto).
    assert (P1 : 0 < y1) by (apply (Pos (x1, y1)); eapply nth_error_In; eauto).
    assert (P2 : 0 < y2) by (apply (Pos (x2, y2)); eapply nth_error_In; eauto).
    set (id := c_id c) in *. set (a := var_tag id i). set (b := var_tag id (S i)).
    assert (Bi : (Z.of_nat (S i) < usize_max)%Z) by lia.
    assert (Hab : name_eqb a b = false) by (apply var_tag_neqb; lia).
    assert (Hba : name_eqb b a = false) by (apply var_tag_neqb; lia).
    destruct (set_order_tags c m En) as [E1n _]. fold id in E1n.
    set (m1 := mapi (fun i kv => (fst kv, mkDual (snd kv) [var_tag id i] [n1])) m) in *.
    assert (K1 : keys m1 = keys m).
    { unfold keys, m1, mapi. rewrite mapi_from_map.
      rewrite (mapi_from_ext _ (fun _ kv => fst kv)) by (intros; reflexivity). apply mapi_from_const. }
    assert (Ln1 : length m1 = length m) by (apply mapi_from_length).
    assert (I1 : interval_of m1 x = i) by (unfold i, interval_of; rewrite K1, Ln1; reflexivity).
    assert (Hs1 : ksorted m1) by (unfold ksorted; rewrite K1; exact Hs).
    assert (N1 : forall t kx ky, nth_error m t = Some (kx, ky) ->
               nth_error m1 t = Some (kx, mkDual ky [var_tag id t] [1])).
    { intros t kx ky E. unfold m1, mapi. rewrite mapi_from_nth_error, E. reflexivity. }
    destruct (interp_at_form iops_d r m1 x Hs1 ltac:(lia) NN) as (p0 & p1 & p2 & A0 & A1 & A2 & AV).
    rewrite I1 in A1, A2.
    rewrite (N1 _ _ _ E0) in A0. rewrite (N1 _ _ _ E1) in A1. rewrite (N1 _ _ _ E2) in A2.
    injection A0 as <-. injection A1 as <-. injection A2 as <-.
    fold a b in AV.
    set (d := form iops_d r (x0, mkDual y0 [var_tag id 0] [1]) (x1, mkDual y1 [a] [1]) (x2, mkDual y2 [b] [1]) x) in *.
    exists d.
    assert (Gv : re d = Gf r x0 x1 x2 x y1 y2).
    { unfold d. rewrite (form_hom iops_d re hom_d). cbn [fst snd re]. rewrite form_closed; auto. }
    assert (S1 := form_d1_spec a b Hab Hba r x0 (mkDual y0 [var_tag id 0] [1]) x1 y1 x2 y2 x NN L01 L12 P1 P2).
    cbn zeta in S1. fold d in S1. rewrite Gv in S1.
    destruct tags_facts as (TN & TL & TT). fold id in TT.
    assert (GR1 : forall j, (j < length m)%nat ->
              nth j (gradient1 d tags) 0 = gsel (G1f r x0 x1 x2 x) (G2f r x0 x1 x2 x) y1 y2 (sel_of i j)).
    { intros j Hj. unfold gradient1. rewrite gradient1_gen_nth by (auto; lia). rewrite TT by auto.
      change (lookup_or_zero (vs d) (du d) (var_tag id j)) with (lk0 d (var_tag id j)). rewrite S1.
      unfold a, b. rewrite by_names_sel by lia. unfold gsel, G1f, G2f. destruct (sel_of i j); reflexivity. }
    split; [|split; [|split]].
    - unfold interpolated_value. destruct (set_order_fields c OOne) as (RR & _). rewrite RR, E1n. fold r.
      rewrite AV. reflexivity.
    - rewrite Gv. symmetry. apply (lookupR_closed r m x x0 y0 x1 y1 x2 y2); auto.
    - intros j Hj. rewrite GR1 by auto.
      apply (is_derive_ext (fun p => Gf r x0 x1 x2 x (y1 + sL (sel_of i j) * p) (y2 + sR (sel_of i j) * p))).
      + intros p. symmetry. apply (lookupR_perturbed1 r m x j p x0 y0 x1 y1 x2 y2); auto.
      + apply grad_sel; auto; intros; [apply closed_HA|apply closed_HB]; auto.
    - intros j Hj N1' N2'. rewrite GR1 by auto.
      assert (SN' : sel_of i j = SN).
      { unfold sel_of. destruct (Nat.eqb_spec j i); [lia|]. destruct (Nat.eqb_spec j (S i)); [lia|]. reflexivity. }
      rewrite SN'. reflexivity.
  Qed.
End Tagged.

(* ====================================================================================== *)
(* Part J: histories of switches on a float-valued curve *)
Local Open Scope nat_scope.

(* ---- histories: a float-valued curve after any sequence of switches is the curve switched once *)
Section History.
  Context {T : Type} `{Num T}.
  Definition canon_nodes (id : name) (m : list (Z * T)) (o : adorder) : nodes T :=
    match o with
    | OZero => NsF m
    | OOne => NsD (mapi (fun i kv => (fst kv, mkDual (snd kv) [var_tag id i] [n1])) m)
    | OTwo => NsD2 (mapi (fun i kv => (fst kv, mkDual2 (snd kv) [var_tag id i] [n1] [[n0]])) m)
    end.
  Lemma curve_eta (c : curve T) : c = mkCurve (c_nodes c) (c_rule c) (c_id c) (c_base c).
  Proof. destruct c; reflexivity. Qed.
  Lemma set_order_canon (c : curve T) m o1 o2 : c_nodes c = canon_nodes (c_id c) m o1 ->
    set_ad_order c o2 = mkCurve (canon_nodes (c_id c) m o2) (c_rule c) (c_id c) (c_base c).
  Proof.
    intros En.
    destruct o1; cbn [canon_nodes] in En.
    - destruct (set_order_tags c m En) as [A B].
      destruct o2; cbn [canon_nodes].
      + unfold set_ad_order. rewrite En. rewrite <- En. apply curve_eta.
      + rewrite (curve_eta (set_ad_order c OOne)). destruct (set_order_fields c OOne) as (F1 & F2 & F3).
        rewrite A, F1, F2, F3. reflexivity.
      + rewrite (curve_eta (set_ad_order c OTwo)). destruct (set_order_fields c OTwo) as (F1 & F2 & F3).
        rewrite B, F1, F2, F3. reflexivity.
    - unfold set_ad_order. rewrite En. destruct o2; cbn [canon_nodes].
      + f_equal. f_equal. unfold mapi. rewrite mapi_from_map.
        rewrite (mapi_from_ext _ (fun _ kv => (fst kv, snd kv))) by (intros; reflexivity).
        rewrite mapi_from_const. apply map_pair_id.
      + rewrite <- En. apply curve_eta.
      + f_equal. f_equal. unfold mapi. rewrite mapi_from_map. apply mapi_from_ext. intros; reflexivity.
    - unfold set_ad_order. rewrite En. destruct o2; cbn [canon_nodes].
      + f_equal. f_equal. unfold mapi. rewrite mapi_from_map.
        rewrite (mapi_from_ext _ (fun _ kv => (fst kv, snd kv))) by (intros; reflexivity).
        rewrite mapi_from_const. apply map_pair_id.
      + f_equal. f_equal. unfold mapi. rewrite mapi_from_map. apply mapi_from_ext. intros; reflexivity.
      + rewrite <- En. apply curve_eta.
  Qed.
  Lemma last_cons {A} (l : list A) : forall a d, last (a :: l) d = last l a.
  Proof.
    induction l as [|b l IH]; intros a d; [reflexivity|].
    change (last (a :: b :: l) d) with (last (b :: l) d). rewrite (IH b d), (IH b a). reflexivity.
  Qed.
  Lemma fold_canon ops : forall (c : curve T) m o, c_nodes c = canon_nodes (c_id c) m o ->
    fold_left set_ad_order ops c = mkCurve (canon_nodes (c_id c) m (last ops o)) (c_rule c) (c_id c) (c_base c).
  Proof.
    induction ops as [|o2 ops IH]; intros c m o En.
    - cbn. rewrite <- En. apply curve_eta.
    - cbn [fold_left]. rewrite (set_order_canon c m o o2 En).
      rewrite (IH _ m o2) by reflexivity. cbn [c_id c_rule c_base]. rewrite last_cons. reflexivity.
  Qed.
  Theorem history_collapses ops (c : curve T) m : c_nodes c = NsF m ->
    fold_left set_ad_order ops c = set_ad_order c (last ops OZero).
  Proof.
    intros En. rewrite (fold_canon ops c m OZero En). symmetry. apply (set_order_canon c m OZero). exact En.
  Qed.
End History.
