(* vm_compute check of one generated table against Model/Rules.v (its own file so that `make -j` runs them in parallel) *)
From Coq Require Import ZArith List Bool String.
From RL Require Import Base.Outcome Model.Rules Model.RuleChecks Gen.Fixings Proofs.RulesP.
Open Scope string_scope.

Lemma all_bus_ok : all_bus_spec.
Proof. apply all_bus_check_spec. vm_cast_no_check (eq_refl true). Qed.
Lemma doc_names_ok : forall n, In n Gen.DocNames.doc_names -> exists c, by_name n = Ok c.
Proof. apply doc_names_check_spec. vm_cast_no_check (eq_refl true). Qed.
