(* The remainder at EQUAL MAGNITUDES: a % b with |a| = |b| has quotient exactly +1 or -1, hence value 0 and derivatives
   a' - b' (resp. a' + b') - in particular x % x is the zero number. *)
From Coq Require Import Reals List Lra Lia ZArith.
From RL Require Import Base.Num Base.NumR Base.Outcome Model.Dual Proofs.DualP Proofs.Dual2P Proofs.LayoutP.
Open Scope R_scope.

Lemma Rtrunc_1 : Rtrunc 1 = 1.
Proof.
  unfold Rtrunc. destruct (Rle_dec 0 1) as [_|N]; [|lra].
  change 1 with (INR 1) at 1. rewrite Int_part_INR. reflexivity.
Qed.
Lemma Rtrunc_m1 : Rtrunc (-1) = -1.
Proof.
  unfold Rtrunc. destruct (Rle_dec 0 (-1)) as [N|_]; [lra|].
  replace (- -1) with (INR 1) by (cbn; lra). rewrite Int_part_INR. cbn. lra.
Qed.

(* the remainder at EQUAL MAGNITUDES (the quotient is exactly +-1): value zero, derivatives = difference / sum *)
Lemma drem_equal p (a b : dual R) : wf a -> wf b -> (p = true -> vs a = vs b) -> re b <> 0 ->
  (re a = re b -> re (drem p a b) = 0 /\ forall v, coef (drem p a b) v = coef a v - coef b v) /\
  (re a = - re b -> re (drem p a b) = 0 /\ forall v, coef (drem p a b) v = coef a v + coef b v).
Proof.
  intros WA WB HP NZ. destruct (drem_spec p a b WA WB HP) as (_ & R & C & _).
  split; intros E.
  - assert (Q : Rtrunc (re a / re b) = 1) by (rewrite E; unfold Rdiv; rewrite Rinv_r by exact NZ; apply Rtrunc_1).
    rewrite Q in *. split; [rewrite R; lra|]. intros v. rewrite C. lra.
  - assert (Q : Rtrunc (re a / re b) = -1).
    { rewrite E. replace (- re b / re b) with (-1) by (field; exact NZ). apply Rtrunc_m1. }
    rewrite Q in *. split; [rewrite R; lra|]. intros v. rewrite C. lra.
Qed.
Lemma d2rem_equal p (a b : dual2 R) : wf2 a -> wf2 b -> (p = true -> vs2 a = vs2 b) -> re2 b <> 0 ->
  (re2 a = re2 b -> re2 (d2rem p a b) = 0 /\ (forall v, coef1 (d2rem p a b) v = coef1 a v - coef1 b v) /\
                    forall u v, coef2 (d2rem p a b) u v = coef2 a u v - coef2 b u v) /\
  (re2 a = - re2 b -> re2 (d2rem p a b) = 0 /\ (forall v, coef1 (d2rem p a b) v = coef1 a v + coef1 b v) /\
                    forall u v, coef2 (d2rem p a b) u v = coef2 a u v + coef2 b u v).
Proof.
  intros WA WB HP NZ. destruct (d2rem_spec p a b WA WB HP) as (_ & R & C & Hh & _).
  split; intros E.
  - assert (Q : Rtrunc (re2 a / re2 b) = 1) by (rewrite E; unfold Rdiv; rewrite Rinv_r by exact NZ; apply Rtrunc_1).
    rewrite Q in *. split; [rewrite R; lra|]. split; [intros v; rewrite C; lra|intros u v; rewrite Hh; lra].
  - assert (Q : Rtrunc (re2 a / re2 b) = -1).
    { rewrite E. replace (- re2 b / re2 b) with (-1) by (field; exact NZ). apply Rtrunc_m1. }
    rewrite Q in *. split; [rewrite R; lra|]. split; [intros v; rewrite C; lra|intros u v; rewrite Hh; lra].
Qed.
