(* C02: second-order AD.  Abstract first-derivative and half-Hessian formulas (as coded), the
   refinement of the concrete Dual / Dual2 evaluations to them, symmetry, and the theorem that
   differentiating the AD gradient gives twice the stored half-Hessian. *)
From Coq Require Import Reals ZArith List Bool Lra Lia.
From Coquelicot Require Import Coquelicot.
From RL Require Import Base.Num Base.Str Base.NumR Base.Outcome Model.Dual Model.Expr
  Proofs.NumRP Proofs.DualP Proofs.Dual2P Proofs.AD1.
Import ListNotations.
Open Scope R_scope.

Ltac eqR := lazymatch goal with |- @eq _ ?a ?b => change (@eq R a b) end.
Ltac rcbn := unfold nhalf, n2, nm1; cbn [nadd nsub nmul ndiv nneg nabs npow nexp nln nsqrt ncdf nicdf nofZ n0 n1 npi NumR].

(* per-operator scalar coefficients: first derivative c1 and HALF second derivative c2 of the outer
   function, as computed by the code *)
Definition pow_c1 (x p : R) : R := p * Rpowf x (p - 1).
Definition pow_c2 (x p : R) : R := / 2 * p * (p - 1) * Rpowf x (p - 2).
Definition ncdf_c2 (x : R) : R := / 2 * (Rphi x * - x).
Definition nicdf_c1 (y : R) : R := / Rphi (Rnicdf y).
Definition nicdf_c2 (y : R) : R := / 2 * (Rpowf (/ Rphi (Rnicdf y)) 2 * Rnicdf y).

Fixpoint G (e : exprR) (rho : envR) (u : name) : R :=
  match e with
  | Var x => if name_eqb u x then 1 else 0
  | Cst _ => 0
  | Add a b => G a rho u + G b rho u
  | AddF a _ | FAdd _ a | SubF a _ => G a rho u
  | Sub a b => G a rho u - G b rho u
  | FSub _ a => - G a rho u
  | Mul a b => G a rho u * evalR b rho + G b rho u * evalR a rho
  | MulF a r | FMul r a => r * G a rho u
  | Div a b => G a rho u * (1 / evalR b rho) + (-1 / (evalR b rho * evalR b rho) * G b rho u) * evalR a rho
  | DivF a r => (1 / r) * G a rho u
  | FDiv r a => r * (G a rho u * pow_c1 (evalR a rho) (-1))
  | Neg a | NegRef a => - G a rho u
  | Pow a p | PowRef a p => G a rho u * pow_c1 (evalR a rho) p
  | Exp a => exp (evalR a rho) * G a rho u
  | Log a => (1 / evalR a rho) * G a rho u
  | Ncdf a => Rphi (evalR a rho) * G a rho u
  | Nicdf a => nicdf_c1 (evalR a rho) * G a rho u
  | Abs a => if Rlt_dec 0 (evalR a rho) then G a rho u else -1 * G a rho u
  end.

(* chain rule on the half-Hessian: c1 * H + c2 * Gu * Gv *)
Definition chainH (c1 c2 h gu gv : R) : R := c1 * h + c2 * (gu * gv).
Definition mulH (fa fb gau gav gbu gbv ha hb : R) : R :=
  ha * fb + hb * fa + / 2 * (gau * gbv + gav * gbu).

Fixpoint Hh (e : exprR) (rho : envR) (u v : name) : R :=
  match e with
  | Var _ | Cst _ => 0
  | Add a b => Hh a rho u v + Hh b rho u v
  | AddF a _ | FAdd _ a | SubF a _ => Hh a rho u v
  | Sub a b => Hh a rho u v - Hh b rho u v
  | FSub _ a => - Hh a rho u v
  | Mul a b => mulH (evalR a rho) (evalR b rho) (G a rho u) (G a rho v) (G b rho u) (G b rho v)
                    (Hh a rho u v) (Hh b rho u v)
  | MulF a r | FMul r a => r * Hh a rho u v
  | Div a b =>
      let fb := evalR b rho in
      mulH (evalR a rho) (Rpowf fb (-1)) (G a rho u) (G a rho v)
           (G b rho u * pow_c1 fb (-1)) (G b rho v * pow_c1 fb (-1))
           (Hh a rho u v) (chainH (pow_c1 fb (-1)) (pow_c2 fb (-1)) (Hh b rho u v) (G b rho u) (G b rho v))
  | DivF a r => (1 / r) * Hh a rho u v
  | FDiv r a =>
      let fa := evalR a rho in
      r * chainH (pow_c1 fa (-1)) (pow_c2 fa (-1)) (Hh a rho u v) (G a rho u) (G a rho v)
  | Neg a | NegRef a => - Hh a rho u v
  | Pow a p | PowRef a p =>
      let fa := evalR a rho in chainH (pow_c1 fa p) (pow_c2 fa p) (Hh a rho u v) (G a rho u) (G a rho v)
  | Exp a => let fa := evalR a rho in chainH (exp fa) (/ 2 * exp fa) (Hh a rho u v) (G a rho u) (G a rho v)
  | Log a => let fa := evalR a rho in
             chainH (1 / fa) (- / 2 * (1 / fa * (1 / fa))) (Hh a rho u v) (G a rho u) (G a rho v)
  | Ncdf a => let fa := evalR a rho in chainH (Rphi fa) (ncdf_c2 fa) (Hh a rho u v) (G a rho u) (G a rho v)
  | Nicdf a => let fa := evalR a rho in
               chainH (nicdf_c1 fa) (nicdf_c2 fa) (Hh a rho u v) (G a rho u) (G a rho v)
  | Abs a => if Rlt_dec 0 (evalR a rho) then Hh a rho u v else -1 * Hh a rho u v
  end.

Lemma Hh_sym e rho u v : Hh e rho u v = Hh e rho v u.
Proof.
  induction e; cbn [Hh]; unfold chainH, mulH; rewrite ?IHe, ?IHe1, ?IHe2; ring.
Qed.

Lemma Rpowf_m1_all x : Rpowf x (-1) = / x.
Proof.
  destruct (Req_EM_T x 0) as [E|N]; [|apply Rpowf_m1; exact N].
  subst. unfold Rpowf. destruct (Rlt_dec 0 0); [lra|]. destruct (Rlt_dec 0 0); [lra|].
  destruct (Req_EM_T (-1) 0); [lra|]. symmetry. apply Rinv_0.
Qed.
Lemma Rpowf_m2_all x : Rpowf x (-1 - 1) = / (x * x).
Proof.
  destruct (Req_EM_T x 0) as [E|N]; [|apply Rpowf_m2; exact N].
  subst. unfold Rpowf. destruct (Rlt_dec 0 0); [lra|]. destruct (Rlt_dec 0 0); [lra|].
  destruct (Req_EM_T (-1 - 1) 0); [lra|]. rewrite Rmult_0_l. symmetry. apply Rinv_0.
Qed.

(* ------------------------------------------------------------------ refinement: first order *)
Lemma eval1_G sh (e : exprR) (rho : envR) :
  wf (evalDual sh e rho) /\ re (evalDual sh e rho) = evalR e rho /\
  forall u, coef (evalDual sh e rho) u = G e rho u.
Proof.
  induction e; cbn [evalDual evalT G nadd nsub nmul ndiv nneg npow nexp nln ncdf nicdf nabs NumR].
  - split; [apply wf_dual_new|]. split; [reflexivity|]. intros u. apply coef_var.
  - split; [apply wf_dual_new|]. split; [reflexivity|]. intros u. apply coef_const.
  - destruct IHe1 as (W1 & R1 & C1), IHe2 as (W2 & R2 & C2).
    destruct (dadd_spec _ _ _ W1 W2 (psh_ok sh _ _)) as (W & R & C & _).
    split; [exact W|]. split; [rewrite R, R1, R2; reflexivity|]. intros u. rewrite C, C1, C2. reflexivity.
  - destruct IHe as (W1 & R1 & C1). split; [exact W1|]. split; [cbn; rewrite R1; reflexivity|]. intros u. apply C1.
  - destruct IHe as (W1 & R1 & C1). split; [exact W1|]. split; [cbn; rewrite R1; ring|]. intros u. apply C1.
  - destruct IHe1 as (W1 & R1 & C1), IHe2 as (W2 & R2 & C2).
    destruct (dsub_spec _ _ _ W1 W2 (psh_ok sh _ _)) as (W & R & C & _).
    split; [exact W|]. split; [rewrite R, R1, R2; reflexivity|]. intros u. rewrite C, C1, C2. reflexivity.
  - destruct IHe as (W1 & R1 & C1). split; [exact W1|]. split; [cbn; rewrite R1; reflexivity|]. intros u. apply C1.
  - destruct IHe as (W1 & R1 & C1). split; [apply wf_map; exact W1|]. split; [cbn; rewrite R1; reflexivity|].
    intros u. unfold fsub_d. rewrite coef_map by (cbn; ring). rewrite C1. reflexivity.
  - destruct IHe1 as (W1 & R1 & C1), IHe2 as (W2 & R2 & C2).
    destruct (dmul_spec _ _ _ W1 W2 (psh_ok sh _ _)) as (W & R & C & _).
    split; [exact W|]. split; [rewrite R, R1, R2; reflexivity|]. intros u. rewrite C, C1, C2, R1, R2. reflexivity.
  - destruct IHe as (W1 & R1 & C1). split; [apply wf_map; exact W1|]. split; [cbn; rewrite R1; reflexivity|].
    intros u. unfold dmul_f, vscale_l. rewrite coef_map by (cbn; ring). rewrite C1. reflexivity.
  - destruct IHe as (W1 & R1 & C1). split; [apply wf_map; exact W1|]. split; [cbn; rewrite R1; ring|].
    intros u. unfold dmul_f, vscale_l. rewrite coef_map by (cbn; ring). rewrite C1. reflexivity.
  - destruct IHe1 as (W1 & R1 & C1), IHe2 as (W2 & R2 & C2).
    destruct (ddiv_spec _ _ _ W1 W2 (psh_ok sh _ _)) as (W & R & C & _).
    split; [exact W|]. split; [rewrite R, R1, R2; unfold Rdiv; ring|]. intros u. rewrite C, C1, C2, R1, R2. reflexivity.
  - destruct IHe as (W1 & R1 & C1). split; [apply wf_map; exact W1|]. split; [cbn; rewrite R1; reflexivity|].
    intros u. unfold ddiv_f, vscale_l. rewrite coef_map by (cbn; ring). rewrite C1. reflexivity.
  - destruct IHe as (W1 & R1 & C1). split; [apply wf_map; apply wf_map; exact W1|].
    split; [cbn [fdiv_d dmul_f dpow re]; rewrite R1; change (npow (evalR e rho) nm1) with (Rpowf (evalR e rho) (-1));
            rewrite Rpowf_m1_all; cbn [nmul NumR]; unfold Rdiv; ring|].
    intros u. unfold fdiv_d, dmul_f, vscale_l. rewrite coef_map by (cbn; ring). rewrite dpow_unguard.
    rewrite coef_map by (cbn; ring). rewrite C1, R1. unfold pow_c1. rcbn. replace (- (1)) with (-1) by lra. ring.
  - destruct IHe as (W1 & R1 & C1). split; [apply wf_map; exact W1|]. split; [cbn; rewrite R1; reflexivity|].
    intros u. unfold dneg. rewrite coef_map by (cbn; ring). rewrite C1. reflexivity.
  - destruct IHe as (W1 & R1 & C1). split; [apply wf_map; exact W1|]. split; [cbn; rewrite R1; reflexivity|].
    intros u. unfold dneg_ref, vscale_r. rewrite coef_map by (cbn; ring). rewrite C1. rcbn; ring.
  - destruct IHe as (W1 & R1 & C1). split; [apply wf_map; exact W1|]. split; [cbn; rewrite R1; reflexivity|].
    intros u. rewrite dpow_unguard. rewrite coef_map by (cbn; ring). rewrite C1, R1. unfold pow_c1. rcbn. ring.
  - destruct IHe as (W1 & R1 & C1). split; [apply wf_map; exact W1|]. split; [cbn; rewrite R1; reflexivity|].
    intros u. rewrite dpow_ref_unguard. rewrite coef_map by (cbn; ring). rewrite C1, R1. unfold pow_c1. rcbn. ring.
  - destruct IHe as (W1 & R1 & C1). split; [apply wf_map; exact W1|]. split; [cbn; rewrite R1; reflexivity|].
    intros u. unfold dexp, vscale_l. rewrite coef_map by (cbn; ring). rewrite C1, R1. reflexivity.
  - destruct IHe as (W1 & R1 & C1). split; [apply wf_map; exact W1|]. split; [cbn; rewrite R1; reflexivity|].
    intros u. unfold dlog, vscale_l. rewrite coef_map by (cbn; ring). rewrite C1, R1. reflexivity.
  - destruct IHe as (W1 & R1 & C1). split; [apply wf_map; exact W1|]. split; [cbn; rewrite R1; reflexivity|].
    intros u. unfold dncdf, vscale_l. rewrite coef_map by (cbn; ring). rewrite cdf_scalar_phi, C1, R1. reflexivity.
  - destruct IHe as (W1 & R1 & C1). split; [apply wf_map; exact W1|]. split; [cbn; rewrite R1; reflexivity|].
    intros u. unfold dnicdf, vscale_l. rewrite coef_map by (cbn; ring). rewrite icdf_scalar_phi, C1, R1. reflexivity.
  - destruct IHe as (W1 & R1 & C1). unfold dabs. cbn [nltb n0 NumR]. unfold Rltb. rewrite R1.
    destruct (Rlt_dec 0 (evalR e rho)) as [P|P].
    + split; [exact W1|]. split; [cbn; rewrite Rabs_pos_eq by lra; reflexivity|]. intros u. rewrite <- C1. reflexivity.
    + split; [apply wf_map; exact W1|].
      split; [cbn; destruct (Req_EM_T (evalR e rho) 0) as [Z|Z]; [rewrite Z, Rabs_R0; ring|rewrite Rabs_left by lra; reflexivity]|].
      intros u. unfold vscale_l. rewrite coef_map by (cbn; ring). rewrite C1. rcbn; ring.
Qed.

(* ------------------------------------------------------------------ refinement: second order *)
Definition refines2 (d : dual2R) (e : exprR) (rho : envR) : Prop :=
  wf2 d /\ re2 d = evalR e rho /\ (forall u, coef1 d u = G e rho u) /\
  (forall u v, coef2 d u v = Hh e rho u v).

Lemma refines2_same (d d' : dual2R) e e' rho r' :
  refines2 d e rho -> vs2 d' = vs2 d -> du2 d' = du2 d -> dd2 d' = dd2 d -> re2 d' = r' ->
  r' = evalR e' rho -> (forall u, G e' rho u = G e rho u) -> (forall u v, Hh e' rho u v = Hh e rho u v) ->
  refines2 d' e' rho.
Proof.
  intros (W & R & C1 & C2) Ev Ed Edd Er Er' HG HH. unfold refines2, wf2, coef1, coef2.
  rewrite Ev, Ed, Edd. split; [exact W|]. split; [congruence|]. split.
  - intros u. rewrite HG. apply C1.
  - intros u v. rewrite HH. apply C2.
Qed.

Lemma eval2_H sh (e : exprR) (rho : envR) : refines2 (evalDual2 sh e rho) e rho.
Proof.
  induction e; cbn [evalDual2].
  - (* Var *) split; [|split; [reflexivity|split]].
    + split; [apply dedup_NoDup|]. split; [apply repeat_length|apply square_mzeros].
    + intros u. unfold coef1. cbn. unfold lk, lookup_or_zero. cbn. destruct (name_eqb u v); reflexivity.
    + intros u w. unfold coef2. cbn [vs2 dd2 dual2_new]. apply lk2_mzeros.
  - (* Cst *) split; [|split; [reflexivity|split]].
    + split; [constructor|]. split; [reflexivity|apply square_mzeros].
    + intros u. reflexivity.
    + intros u w. reflexivity.
  - (* Add *) destruct IHe1 as (W1 & R1 & C1 & H1), IHe2 as (W2 & R2 & C2 & H2).
    destruct (d2add_spec _ _ _ W1 W2 (psh_ok sh _ _)) as (W & R & C & H & _).
    split; [exact W|]. split; [rewrite R, R1, R2; reflexivity|]. split.
    + intros u. rewrite C, C1, C2. reflexivity.
    + intros u w. rewrite H, H1, H2. reflexivity.
  - (* AddF *) apply (refines2_same _ _ e _ _ (evalR e rho + r) IHe); try reflexivity.
    cbn. destruct IHe as (_ & R & _). rewrite R. reflexivity.
  - (* FAdd *) apply (refines2_same _ _ e _ _ (evalR e rho + r) IHe); try reflexivity.
    + cbn. destruct IHe as (_ & R & _). rewrite R. reflexivity.
    + cbn. ring.
  - (* Sub *) destruct IHe1 as (W1 & R1 & C1 & H1), IHe2 as (W2 & R2 & C2 & H2).
    destruct (d2sub_spec _ _ _ W1 W2 (psh_ok sh _ _)) as (W & R & C & H & _).
    split; [exact W|]. split; [rewrite R, R1, R2; reflexivity|]. split.
    + intros u. rewrite C, C1, C2. reflexivity.
    + intros u w. rewrite H, H1, H2. reflexivity.
  - (* SubF *) apply (refines2_same _ _ e _ _ (evalR e rho - r) IHe); try reflexivity.
    cbn. destruct IHe as (_ & R & _). rewrite R. reflexivity.
  - (* FSub *) destruct IHe as (W1 & R1 & C1 & H1). unfold fsub_d2.
    destruct (d2scale_spec (evalDual2 sh e rho) (nsub r (re2 (evalDual2 sh e rho))) (-1) nneg nneg W1) as (W & R & C & H);
      try (intros; cbn; ring).
    split; [exact W|]. split; [rewrite R, R1; reflexivity|]. split.
    + intros u. rewrite C, C1. cbn [G]. ring.
    + intros u w. rewrite H, H1. cbn [Hh]. ring.
  - (* Mul *) destruct IHe1 as (W1 & R1 & C1 & H1), IHe2 as (W2 & R2 & C2 & H2).
    destruct (d2mul_spec _ _ _ W1 W2 (psh_ok sh _ _)) as (W & R & C & H & _).
    split; [exact W|]. split; [rewrite R, R1, R2; reflexivity|]. split.
    + intros u. rewrite C, C1, C2, R1, R2. reflexivity.
    + intros u w. rewrite H, H1, H2, !C1, !C2, R1, R2. cbn [Hh]. unfold mulH. ring.
  - (* MulF *) destruct IHe as (W1 & R1 & C1 & H1). unfold d2mul_f, vscale_l.
    destruct (d2scale_spec (evalDual2 sh e rho) (nmul (re2 (evalDual2 sh e rho)) r) r (fun x => nmul r x) (fun x => nmul r x) W1) as (W & R & C & H);
      try (intros; cbn; ring).
    split; [exact W|]. split; [rewrite R, R1; reflexivity|]. split.
    + intros u. rewrite C, C1. reflexivity.
    + intros u w. rewrite H, H1. reflexivity.
  - (* FMul *) destruct IHe as (W1 & R1 & C1 & H1). unfold d2mul_f, vscale_l.
    destruct (d2scale_spec (evalDual2 sh e rho) (nmul (re2 (evalDual2 sh e rho)) r) r (fun x => nmul r x) (fun x => nmul r x) W1) as (W & R & C & H);
      try (intros; cbn; ring).
    split; [exact W|]. split; [rewrite R, R1; cbn; ring|]. split.
    + intros u. rewrite C, C1. reflexivity.
    + intros u w. rewrite H, H1. reflexivity.
  - (* Div *) destruct IHe1 as (W1 & R1 & C1 & H1), IHe2 as (W2 & R2 & C2 & H2).
    unfold d2div.
    destruct (d2pow_spec (evalDual2 sh e2 rho) nm1 W2) as (Wp & Rp & Cp & Hp).
    destruct (d2mul_spec (psh sh (vs2 (evalDual2 sh e1 rho)) (vs2 (evalDual2 sh e2 rho))) _ _ W1 Wp (psh_ok sh _ _))
      as (W & R & C & H & _).
    split; [exact W|]. split; [rewrite R, R1, Rp, R2; cbn [evalT ndiv NumR]; change nm1 with (-1); rewrite Rpowf_m1_all; reflexivity|].
    split.
    + intros u. rewrite C, C1, Cp, C2, R1, Rp, R2. cbn [G]. change nm1 with (-1).
      rewrite Rpowf_m1_all. replace (-1 - 1) with (-1 - 1) by reflexivity. rewrite Rpowf_m2_all.
      unfold Rdiv. ring.
    + intros u w. rewrite H, H1, Hp, H2, !C1, !Cp, !C2, R1, Rp, R2. cbn [Hh]. unfold mulH, chainH, pow_c1, pow_c2.
      change nm1 with (-1). ring.
  - (* DivF *) destruct IHe as (W1 & R1 & C1 & H1). unfold d2div_f, vscale_l.
    destruct (d2scale_spec (evalDual2 sh e rho) (ndiv (re2 (evalDual2 sh e rho)) r) (1 / r)
               (fun x => nmul (ndiv n1 r) x) (fun x => nmul (ndiv n1 r) x) W1) as (W & R & C & H);
      try (intros; cbn; ring).
    split; [exact W|]. split; [rewrite R, R1; reflexivity|]. split.
    + intros u. rewrite C, C1. reflexivity.
    + intros u w. rewrite H, H1. reflexivity.
  - (* FDiv *) destruct IHe as (W1 & R1 & C1 & H1). unfold fdiv_d2, d2mul_f, vscale_l.
    destruct (d2pow_spec (evalDual2 sh e rho) nm1 W1) as (Wp & Rp & Cp & Hp).
    destruct (d2scale_spec (d2pow (evalDual2 sh e rho) nm1) (nmul (re2 (d2pow (evalDual2 sh e rho) nm1)) r) r
               (fun x => nmul r x) (fun x => nmul r x) Wp) as (W & R & C & H);
      try (intros; cbn; ring).
    split; [exact W|]. split; [rewrite R, Rp, R1; cbn [evalT ndiv nmul NumR]; change nm1 with (-1); rewrite Rpowf_m1_all; unfold Rdiv; ring|].
    split.
    + intros u. rewrite C, Cp, C1, R1. cbn [G]. unfold pow_c1. change nm1 with (-1). ring.
    + intros u w. rewrite H, Hp, H1, !C1, R1. cbn [Hh]. unfold chainH, pow_c1, pow_c2. change nm1 with (-1). ring.
  - (* Neg *) destruct IHe as (W1 & R1 & C1 & H1). unfold d2neg.
    destruct (d2scale_spec (evalDual2 sh e rho) (nneg (re2 (evalDual2 sh e rho))) (-1) nneg nneg W1) as (W & R & C & H);
      try (intros; cbn; ring).
    split; [exact W|]. split; [rewrite R, R1; reflexivity|]. split.
    + intros u. rewrite C, C1. cbn [G]. ring.
    + intros u w. rewrite H, H1. cbn [Hh]. ring.
  - (* NegRef *) destruct IHe as (W1 & R1 & C1 & H1). unfold d2neg_ref, vscale_r.
    destruct (d2scale_spec (evalDual2 sh e rho) (nneg (re2 (evalDual2 sh e rho))) (-1)
               (fun x => nmul x nm1) (fun x => nmul x nm1) W1) as (W & R & C & H);
      try (intros; cbn; ring).
    split; [exact W|]. split; [rewrite R, R1; reflexivity|]. split.
    + intros u. rewrite C, C1. cbn [G]. ring.
    + intros u w. rewrite H, H1. cbn [Hh]. ring.
  - (* Pow *) destruct IHe as (W1 & R1 & C1 & H1).
    destruct (d2pow_spec (evalDual2 sh e rho) p W1) as (Wp & Rp & Cp & Hp).
    split; [exact Wp|]. split; [rewrite Rp, R1; reflexivity|]. split.
    + intros u. rewrite Cp, C1, R1. reflexivity.
    + intros u w. rewrite Hp, H1, !C1, R1. cbn [Hh]. unfold chainH, pow_c1, pow_c2. ring.
  - (* PowRef *) destruct IHe as (W1 & R1 & C1 & H1). unfold d2pow_ref.
    destruct (d2pow_spec (evalDual2 sh e rho) p W1) as (Wp & Rp & Cp & Hp).
    split; [exact Wp|]. split; [rewrite Rp, R1; reflexivity|]. split.
    + intros u. rewrite Cp, C1, R1. reflexivity.
    + intros u w. rewrite Hp, H1, !C1, R1. cbn [Hh]. unfold chainH, pow_c1, pow_c2. ring.
  - (* Exp *) destruct IHe as (W1 & R1 & C1 & H1).
    destruct (d2exp_spec (evalDual2 sh e rho) W1) as (Wp & Rp & Cp & Hp).
    split; [exact Wp|]. split; [rewrite Rp, R1; reflexivity|]. split.
    + intros u. rewrite Cp, C1, R1. reflexivity.
    + intros u w. rewrite Hp, H1, !C1, R1. cbn [Hh]. unfold chainH. ring.
  - (* Log *) destruct IHe as (W1 & R1 & C1 & H1).
    destruct (d2log_spec (evalDual2 sh e rho) W1) as (Wp & Rp & Cp & Hp).
    split; [exact Wp|]. split; [rewrite Rp, R1; reflexivity|]. split.
    + intros u. rewrite Cp, C1, R1. reflexivity.
    + intros u w. rewrite Hp, H1, !C1, R1. cbn [Hh]. unfold chainH. ring.
  - (* Ncdf *) destruct IHe as (W1 & R1 & C1 & H1). unfold d2ncdf.
    destruct (d2cdf_like_spec (evalDual2 sh e rho) (ncdf (re2 (evalDual2 sh e rho)))
                (cdf_scalar (re2 (evalDual2 sh e rho)))
                (nmul (cdf_scalar (re2 (evalDual2 sh e rho))) (nneg (re2 (evalDual2 sh e rho)))) W1) as (Wp & Rp & Cp & Hp).
    split; [exact Wp|]. split; [rewrite Rp, R1; reflexivity|]. split.
    + intros u. rewrite Cp, C1, cdf_scalar_phi, R1. reflexivity.
    + intros u w. rewrite Hp, H1, !C1, !cdf_scalar_phi, R1. cbn [Hh]. unfold chainH, ncdf_c2. cbn [nmul nneg NumR]. ring.
  - (* Nicdf *) destruct IHe as (W1 & R1 & C1 & H1). unfold d2nicdf.
    destruct (d2cdf_like_spec (evalDual2 sh e rho) (nicdf (re2 (evalDual2 sh e rho)))
                (icdf_scalar (nicdf (re2 (evalDual2 sh e rho))))
                (nmul (npow (icdf_scalar (nicdf (re2 (evalDual2 sh e rho)))) n2) (nicdf (re2 (evalDual2 sh e rho)))) W1)
      as (Wp & Rp & Cp & Hp).
    split; [exact Wp|]. split; [rewrite Rp, R1; reflexivity|]. split.
    + intros u. rewrite Cp, C1, icdf_scalar_phi, R1. reflexivity.
    + intros u w. rewrite Hp, H1, !C1, !icdf_scalar_phi, R1. cbn [Hh]. unfold chainH, nicdf_c1, nicdf_c2.
      unfold n2. cbn [nmul npow nofZ nicdf NumR]. ring.
  - (* Abs *) destruct IHe as (W1 & R1 & C1 & H1). unfold d2abs, refines2.
    cbn [nltb n0 NumR G Hh evalT nabs]. unfold Rltb.
    destruct (Rlt_dec 0 (re2 (evalDual2 sh e rho))) as [P|P];
      destruct (Rlt_dec 0 (evalR e rho)) as [Q|Q]; try (exfalso; rewrite R1 in P; lra).
    + split; [exact W1|]. split; [rewrite Rabs_pos_eq by lra; exact R1|]. split; auto.
    + destruct (d2scale_spec (evalDual2 sh e rho) (nneg (re2 (evalDual2 sh e rho))) (-1)
                 (fun x => nmul nm1 x) (fun x => nmul nm1 x) W1) as (W & R & C & H);
        try (intros; cbn; ring).
      unfold vscale_l. split; [exact W|].
      split; [rewrite R, R1; cbn [nneg NumR]; destruct (Req_EM_T (evalR e rho) 0) as [Z|Z]; [rewrite Z, Rabs_R0; ring|rewrite Rabs_left by lra; reflexivity]|].
      split.
      * intros u. rewrite C, C1. reflexivity.
      * intros u w. rewrite H, H1. reflexivity.
Qed.

(* ------------------------------------------------------------------ the Hessian theorem *)
Lemma G_ext (e : exprR) : forall (r1 r2 : envR) u, (forall w, r1 w = r2 w) -> G e r1 u = G e r2 u.
Proof.
  induction e; cbn [G]; intros r1 r2 u E; auto;
    repeat match goal with |- context [evalR ?a r1] => rewrite (evalR_ext a r1 r2 E) end;
    try (rewrite (IHe1 r1 r2 u E), (IHe2 r1 r2 u E); reflexivity);
    try (rewrite (IHe r1 r2 u E); reflexivity).
Qed.

Lemma L1 (sh : bool) (e : exprR) (rho : envR) v : Dom e rho ->
  is_derive (fun y => evalR e (upd rho v y)) (rho v) (G e rho v).
Proof.
  intros D. destruct (ad1_exact sh e rho D) as (_ & _ & Dv).
  destruct (eval1_G sh e rho) as (_ & _ & C). rewrite <- C. apply Dv.
Qed.

Lemma is_intR_pred p : is_intR p = true -> is_intR (p - 1) = true.
Proof.
  intros I. apply is_intR_true in I. rewrite I. rewrite <- minus_IZR. apply is_intR_IZR.
Qed.
Lemma pow_dom_int x k : x <> 0 -> pow_dom x (IZR k).
Proof.
  intros N. destruct (Rtotal_order 0 x) as [H|[H|H]]; [left; auto|congruence|].
  right. left. split; auto. apply is_intR_IZR.
Qed.
Lemma alg_pow_c1 p X : p * ((p - 1) * X) = 2 * (/ 2 * p * (p - 1) * X).
Proof. field. Qed.
(* needs the domain condition at exponent p - 1 (for base 0: p = 1, 2, 3, ...), or p = 0 (constant) *)
Definition pow_dom2 (x p : R) : Prop := pow_dom x (p - 1) \/ p = 0.
Lemma is_derive_pow_c1 x p : pow_dom2 x p -> is_derive (fun y => pow_c1 y p) x (2 * pow_c2 x p).
Proof.
  intros [D|Z]; unfold pow_c1, pow_c2.
  - evar_last.
    + apply dR_scal. apply is_derive_Rpowf. exact D.
    + replace (p - 1 - 1) with (p - 2) by ring. apply alg_pow_c1.
  - subst p. apply dR_ext_loc with (f := fun _ => 0).
    + apply filter_forall. intros y. ring.
    + evar_last; [apply dR_const|ring].
Qed.
Lemma is_derive_Rphi x : is_derive Rphi x (2 * ncdf_c2 x).
Proof.
  unfold ncdf_c2. unfold Rphi at 1.
  evar_last.
  - apply dR_scal. apply (dR_comp exp (fun z => - (z * z) / 2)); [apply is_derive_exp|].
    evar_last.
    + apply (dR_mult (fun z => - (z * z)) (fun _ => / 2)); [|apply dR_const].
      apply dR_opp. apply dR_mult; apply dR_id.
    + cbv beta. instantiate (1 := - x). field.
  - cbv beta. unfold Rphi. field.
    apply Rgt_not_eq. apply sqrt_lt_R0. pose proof PI_RGT_0. lra.
Qed.
Lemma is_derive_nicdf_c1 x : is_derive nicdf_c1 (Rncdf x) (2 * nicdf_c2 (Rncdf x)).
Proof.
  unfold nicdf_c1, nicdf_c2. rewrite Rpowf_2. rewrite Rnicdf_ncdf.
  pose proof (Rphi_pos x) as P.
  evar_last.
  - apply dR_inv.
    + apply (dR_comp Rphi Rnicdf); [rewrite Rnicdf_ncdf; apply is_derive_Rphi|apply is_derive_Rnicdf].
    + cbv beta. rewrite Rnicdf_ncdf. lra.
  - cbv beta. rewrite ?Rnicdf_ncdf. unfold ncdf_c2. field. lra.
Qed.

(* the twice-differentiable domain: as Dom, with the power rule also differentiable once more *)
Fixpoint Dom2 (e : exprR) (rho : envR) : Prop :=
  match e with
  | Var _ | Cst _ => True
  | Add a b | Sub a b | Mul a b => Dom2 a rho /\ Dom2 b rho
  | AddF a _ | FAdd _ a | SubF a _ | FSub _ a | MulF a _ | FMul _ a | Neg a | NegRef a | Exp a | Ncdf a => Dom2 a rho
  | Div a b => Dom2 a rho /\ Dom2 b rho /\ evalR b rho <> 0
  | DivF a r => Dom2 a rho /\ r <> 0
  | FDiv _ a => Dom2 a rho /\ evalR a rho <> 0
  | Pow a p | PowRef a p => Dom2 a rho /\ pow_dom (evalR a rho) p /\ pow_dom2 (evalR a rho) p
  | Log a => Dom2 a rho /\ 0 < evalR a rho
  | Abs a => Dom2 a rho /\ evalR a rho <> 0
  | Nicdf a => Dom2 a rho /\ exists x, Rncdf x = evalR a rho
  end.
Lemma Dom2_Dom (e : exprR) rho : Dom2 e rho -> Dom e rho.
Proof. induction e; cbn [Dom Dom2]; tauto. Qed.

Lemma L2_chain (f1 : R -> R) (c2 : R) (Fy Gy : R -> R) x gv h :
  is_derive Fy x gv -> is_derive Gy x (2 * h) -> is_derive f1 (Fy x) (2 * c2) ->
  is_derive (fun y => Gy y * f1 (Fy y)) x (2 * chainH (f1 (Fy x)) c2 h (Gy x) gv).
Proof.
  intros DF DG D1. evar_last.
  - apply dR_mult; [exact DG|]. apply (dR_comp f1 Fy); [exact D1|exact DF].
  - unfold chainH. ring.
Qed.

Lemma L2_chain_l (f1 : R -> R) (c2 : R) (Fy Gy : R -> R) x gv h :
  is_derive Fy x gv -> is_derive Gy x (2 * h) -> is_derive f1 (Fy x) (2 * c2) ->
  is_derive (fun y => f1 (Fy y) * Gy y) x (2 * chainH (f1 (Fy x)) c2 h (Gy x) gv).
Proof.
  intros DF DG D1. evar_last.
  - apply dR_mult; [|exact DG]. apply (dR_comp f1 Fy); [exact D1|exact DF].
  - unfold chainH. ring.
Qed.

Theorem L2 (sh : bool) (e : exprR) (rho : envR) u v : Dom2 e rho ->
  is_derive (fun y => G e (upd rho v y) u) (rho v) (2 * Hh e rho u v).
Proof.
  assert (HsF : forall e : exprR, evalR e (upd rho v (rho v)) = evalR e rho) by (intros; apply evalR_ext, upd_same).
  assert (HsG : forall (e : exprR) u, G e (upd rho v (rho v)) u = G e rho u) by (intros; apply G_ext, upd_same).
  induction e; cbn [G Hh Dom2]; intros HD.
  - (* Var *) evar_last; [apply dR_const|ring].
  - (* Cst *) evar_last; [apply dR_const|ring].
  - (* Add *) destruct HD. evar_last; [apply dR_plus; eauto|ring].
  - (* AddF *) auto.
  - (* FAdd *) auto.
  - (* Sub *) destruct HD. evar_last; [apply dR_minus; eauto|ring].
  - (* SubF *) auto.
  - (* FSub *) evar_last; [apply dR_opp; eauto|ring].
  - (* Mul *) destruct HD as [H1 H2]. evar_last.
    + apply dR_plus; apply dR_mult;
        [apply IHe1; exact H1|apply (L1 sh); apply Dom2_Dom; exact H2|apply IHe2; exact H2|apply (L1 sh); apply Dom2_Dom; exact H1].
    + cbv beta. rewrite ?HsF, ?HsG. unfold mulH. field.
  - (* MulF *) evar_last; [apply dR_scal; eauto|ring].
  - (* FMul *) evar_last; [apply dR_scal; eauto|ring].
  - (* Div *) destruct HD as (H1 & H2 & H3). evar_last.
    + apply dR_plus.
      * apply dR_mult; [apply IHe1; exact H1|].
        apply (dR_mult (fun _ => 1) (fun y => / evalR e2 (upd rho v y))); [apply dR_const|].
        apply dR_inv; [apply (L1 sh); apply Dom2_Dom; exact H2|rewrite HsF; exact H3].
      * apply dR_mult; [|apply (L1 sh); apply Dom2_Dom; exact H1].
        apply dR_mult; [|apply IHe2; exact H2].
        apply (dR_mult (fun _ => -1) (fun y => / (evalR e2 (upd rho v y) * evalR e2 (upd rho v y)))); [apply dR_const|].
        apply dR_inv; [apply dR_mult; apply (L1 sh); apply Dom2_Dom; exact H2|rewrite HsF; apply Rmult_integral_contrapositive; auto].
    + cbv beta. rewrite ?HsF, ?HsG. unfold mulH, chainH, pow_c1, pow_c2.
      rewrite Rpowf_m1 by exact H3. rewrite (Rpowf_m2 _ H3). rewrite (Rpowf_m3 _ H3). field. exact H3.
  - (* DivF *) destruct HD as (H1 & H3). evar_last; [apply dR_scal; eauto|unfold Rdiv; ring].
  - (* FDiv *) destruct HD as (H1 & H3). evar_last.
    + apply dR_scal. apply (L2_chain (fun x => pow_c1 x (-1)) (pow_c2 (evalR e rho) (-1))
                             (fun y => evalR e (upd rho v y)) (fun y => G e (upd rho v y) u)).
      * apply (L1 sh); apply Dom2_Dom; exact H1.
      * apply IHe; exact H1.
      * rewrite HsF. apply is_derive_pow_c1. left. replace (-1 - 1) with (IZR (-2)) by (cbn; lra). apply pow_dom_int. exact H3.
    + cbv beta. rewrite ?HsF, ?HsG. ring.
  - (* Neg *) evar_last; [apply dR_opp; eauto|ring].
  - (* NegRef *) evar_last; [apply dR_opp; eauto|ring].
  - (* Pow *) destruct HD as (H1 & H3 & H4). evar_last.
    + apply (L2_chain (fun x => pow_c1 x p) (pow_c2 (evalR e rho) p)
               (fun y => evalR e (upd rho v y)) (fun y => G e (upd rho v y) u)).
      * apply (L1 sh); apply Dom2_Dom; exact H1.
      * apply IHe; exact H1.
      * rewrite HsF. apply is_derive_pow_c1. exact H4.
    + cbv beta. rewrite ?HsF, ?HsG. ring.
  - (* PowRef *) destruct HD as (H1 & H3 & H4). evar_last.
    + apply (L2_chain (fun x => pow_c1 x p) (pow_c2 (evalR e rho) p)
               (fun y => evalR e (upd rho v y)) (fun y => G e (upd rho v y) u)).
      * apply (L1 sh); apply Dom2_Dom; exact H1.
      * apply IHe; exact H1.
      * rewrite HsF. apply is_derive_pow_c1. exact H4.
    + cbv beta. rewrite ?HsF, ?HsG. ring.
  - (* Exp *) evar_last.
    + apply (L2_chain_l exp (/ 2 * exp (evalR e rho))
               (fun y => evalR e (upd rho v y)) (fun y => G e (upd rho v y) u)).
      * apply (L1 sh); apply Dom2_Dom; exact HD.
      * apply IHe; exact HD.
      * rewrite HsF. evar_last; [apply is_derive_exp|field].
    + cbv beta. rewrite ?HsF, ?HsG. unfold chainH. ring.
  - (* Log *) destruct HD as (H1 & H3). evar_last.
    + apply (L2_chain_l (fun x => 1 / x) (- / 2 * (1 / evalR e rho * (1 / evalR e rho)))
               (fun y => evalR e (upd rho v y)) (fun y => G e (upd rho v y) u)).
      * apply (L1 sh); apply Dom2_Dom; exact H1.
      * apply IHe; exact H1.
      * rewrite HsF. evar_last.
        -- apply (dR_mult (fun _ => 1) (fun x => / x)); [apply dR_const|]. apply dR_inv; [apply dR_id|lra].
        -- cbv beta. field. lra.
    + cbv beta. rewrite ?HsF, ?HsG. unfold chainH. ring.
  - (* Ncdf *) evar_last.
    + apply (L2_chain_l Rphi (ncdf_c2 (evalR e rho))
               (fun y => evalR e (upd rho v y)) (fun y => G e (upd rho v y) u)).
      * apply (L1 sh); apply Dom2_Dom; exact HD.
      * apply IHe; exact HD.
      * rewrite HsF. apply is_derive_Rphi.
    + cbv beta. rewrite ?HsF, ?HsG. unfold chainH. ring.
  - (* Nicdf *) destruct HD as (H1 & x0 & H3). evar_last.
    + apply (L2_chain_l nicdf_c1 (nicdf_c2 (evalR e rho))
               (fun y => evalR e (upd rho v y)) (fun y => G e (upd rho v y) u)).
      * apply (L1 sh); apply Dom2_Dom; exact H1.
      * apply IHe; exact H1.
      * rewrite HsF, <- H3. apply is_derive_nicdf_c1.
    + cbv beta. rewrite ?HsF, ?HsG. unfold chainH. ring.
  - (* Abs *) destruct HD as [H1 H2].
    pose proof (derive_continuous _ _ _ (L1 sh e rho v (Dom2_Dom _ _ H1))) as Hc.
    destruct (Rlt_dec 0 (evalR e rho)) as [Hp|Hn].
    + apply dR_ext_loc with (f := fun y => G e (upd rho v y) u); [|auto].
      generalize (locally_pos _ _ Hc ltac:(cbv beta; rewrite HsF; auto)). apply filter_imp. intros y Hy.
      destruct (Rlt_dec 0 (evalR e (upd rho v y))); [reflexivity | contradiction].
    + assert (Hneg : evalR e rho < 0) by lra.
      apply dR_ext_loc with (f := fun y => -1 * G e (upd rho v y) u).
      * generalize (locally_neg _ _ Hc ltac:(cbv beta; rewrite HsF; auto)). apply filter_imp. intros y Hy.
        destruct (Rlt_dec 0 (evalR e (upd rho v y))); [lra | reflexivity].
      * evar_last; [apply dR_scal; eauto|ring].
Qed.

(* ------------------------------------------------------------------ consequences *)
Lemma first_order_agrees sh (e : exprR) (rho : envR) :
  dual_of_dual2 (evalDual2 sh e rho) ≈ evalDual sh e rho.
Proof.
  destruct (eval1_G sh e rho) as (_ & R1 & C1). destruct (eval2_H sh e rho) as (_ & R2 & C2 & _).
  split; [cbn; congruence|]. intros v. rewrite C1. rewrite <- C2. reflexivity.
Qed.
Lemma hessian_symmetric sh (e : exprR) (rho : envR) u v :
  coef2 (evalDual2 sh e rho) u v = coef2 (evalDual2 sh e rho) v u.
Proof. destruct (eval2_H sh e rho) as (_ & _ & _ & H). rewrite !H. apply Hh_sym. Qed.
Lemma hessian_pointwise sh (e : exprR) (rho : envR) u v : Dom2 e rho ->
  is_derive (fun y => coef (evalDual sh e (upd rho v y)) u) (rho v) (2 * coef2 (evalDual2 sh e rho) u v).
Proof.
  intros D. destruct (eval2_H sh e rho) as (_ & _ & _ & H). rewrite H.
  apply (is_derive_ext (fun y => G e (upd rho v y) u)).
  - intros y. destruct (eval1_G sh e (upd rho v y)) as (_ & _ & C). symmetry. apply C.
  - apply (L2 sh). exact D.
Qed.
Lemma dual2_first_order_exact sh (e : exprR) (rho : envR) : Dom e rho ->
  wf2 (evalDual2 sh e rho) /\ re2 (evalDual2 sh e rho) = evalR e rho /\
  forall v, is_derive (fun x => evalR e (upd rho v x)) (rho v) (coef1 (evalDual2 sh e rho) v).
Proof.
  intros D. destruct (eval2_H sh e rho) as (W & R & C & _). split; [exact W|]. split; [exact R|].
  intros v. rewrite C. apply (L1 sh). exact D.
Qed.

(* ------------------------------------------------------------------ the domain is open along every coordinate *)
Lemma locally_neq0 (f : R -> R) x : continuous f x -> f x <> 0 -> locally x (fun y => f y <> 0).
Proof.
  intros C N. destruct (Rtotal_order (f x) 0) as [L|[L|L]]; [|contradiction|].
  - generalize (locally_neg f x C L). apply filter_imp. intros y Hy. lra.
  - generalize (locally_pos f x C L). apply filter_imp. intros y Hy. lra.
Qed.
Lemma locally_between (f : R -> R) x a b : continuous f x -> a < f x < b -> locally x (fun y => a < f y < b).
Proof.
  intros C [A B].
  assert (La : locally x (fun y => a < f y)).
  { apply (C (fun z => a < z)). apply (open_gt a). exact A. }
  assert (Lb : locally x (fun y => f y < b)).
  { apply (C (fun z => z < b)). apply (open_lt b). exact B. }
  generalize (filter_and _ _ La Lb). apply filter_imp. intros y [P Q]. split; assumption.
Qed.
Lemma locally_range (f : R -> R) x : continuous f x -> (exists x0, Rncdf x0 = f x) ->
  locally x (fun y => exists x0, Rncdf x0 = f y).
Proof.
  intros C [x0 E].
  assert (B : Rncdf (x0 - 1) < f x < Rncdf (x0 + 1)) by (rewrite <- E; split; apply Rncdf_incr; lra).
  generalize (locally_between f x _ _ C B). apply filter_imp. intros y [P Q].
  destruct (Ranalysis5.f_interv_is_interv Rncdf (x0 - 1) (x0 + 1) (f y) ltac:(lra) ltac:(lra)
              (fun z _ => Rncdf_continuity z)) as (z & _ & Ez).
  exists z. exact Ez.
Qed.
Lemma pow_dom_nat y n : pow_dom y (INR n).
Proof.
  destruct (Rtotal_order 0 y) as [H|[H|H]].
  - left. exact H.
  - right. right. split; [auto|]. exists n. auto.
  - right. left. split; [exact H|]. rewrite INR_IZR. apply is_intR_IZR.
Qed.
Lemma locally_pow_dom (f : R -> R) x p : continuous f x -> pow_dom (f x) p -> locally x (fun y => pow_dom (f y) p).
Proof.
  intros C [P|[[P I]|[P [n Hp]]]].
  - generalize (locally_pos f x C P). apply filter_imp. intros y Hy. left. exact Hy.
  - generalize (locally_neg f x C P). apply filter_imp. intros y Hy. right. left. split; assumption.
  - apply filter_forall. intros y. subst p. apply pow_dom_nat.
Qed.

Lemma evalR_continuous (sh : bool) (e : exprR) (rho : envR) v : Dom e rho ->
  continuous (fun y => evalR e (upd rho v y)) (rho v).
Proof. intros D. apply (derive_continuous _ _ _ (L1 sh e rho v D)). Qed.

Lemma Dom_locally (sh : bool) (e : exprR) (rho : envR) v : Dom e rho -> locally (rho v) (fun y => Dom e (upd rho v y)).
Proof.
  assert (HsF : forall e : exprR, evalR e (upd rho v (rho v)) = evalR e rho) by (intros; apply evalR_ext, upd_same).
  induction e; cbn [Dom]; intros HD; try (apply filter_forall; intros; exact I); auto.
  - destruct HD as [H1 H2]. generalize (filter_and _ _ (IHe1 H1) (IHe2 H2)). apply filter_imp. tauto.
  - destruct HD as [H1 H2]. generalize (filter_and _ _ (IHe1 H1) (IHe2 H2)). apply filter_imp. tauto.
  - destruct HD as [H1 H2]. generalize (filter_and _ _ (IHe1 H1) (IHe2 H2)). apply filter_imp. tauto.
  - destruct HD as (H1 & H2 & H3).
    pose proof (locally_neq0 _ _ (evalR_continuous sh e2 rho v H2) ltac:(cbv beta; rewrite HsF; exact H3)) as L3.
    generalize (filter_and _ _ (filter_and _ _ (IHe1 H1) (IHe2 H2)) L3). apply filter_imp. tauto.
  - destruct HD as (H1 & H3). generalize (IHe H1). apply filter_imp. tauto.
  - destruct HD as (H1 & H3).
    pose proof (locally_neq0 _ _ (evalR_continuous sh e rho v H1) ltac:(cbv beta; rewrite HsF; exact H3)) as L3.
    generalize (filter_and _ _ (IHe H1) L3). apply filter_imp. tauto.
  - destruct HD as (H1 & H3).
    pose proof (locally_pow_dom _ _ p (evalR_continuous sh e rho v H1) ltac:(cbv beta; rewrite HsF; exact H3)) as L3.
    generalize (filter_and _ _ (IHe H1) L3). apply filter_imp. tauto.
  - destruct HD as (H1 & H3).
    pose proof (locally_pow_dom _ _ p (evalR_continuous sh e rho v H1) ltac:(cbv beta; rewrite HsF; exact H3)) as L3.
    generalize (filter_and _ _ (IHe H1) L3). apply filter_imp. tauto.
  - destruct HD as (H1 & H3).
    pose proof (locally_pos _ _ (evalR_continuous sh e rho v H1) ltac:(cbv beta; rewrite HsF; exact H3)) as L3.
    generalize (filter_and _ _ (IHe H1) L3). apply filter_imp. tauto.
  - destruct HD as (H1 & H3).
    pose proof (locally_range _ _ (evalR_continuous sh e rho v H1) ltac:(cbv beta; rewrite HsF; exact H3)) as L3.
    generalize (filter_and _ _ (IHe H1) L3). apply filter_imp. tauto.
  - destruct HD as (H1 & H3).
    pose proof (locally_neq0 _ _ (evalR_continuous sh e rho v H1) ltac:(cbv beta; rewrite HsF; exact H3)) as L3.
    generalize (filter_and _ _ (IHe H1) L3). apply filter_imp. tauto.
Qed.

Lemma Dom2_locally (sh : bool) (e : exprR) (rho : envR) v : Dom2 e rho -> locally (rho v) (fun y => Dom2 e (upd rho v y)).
Proof.
  assert (HsF : forall e : exprR, evalR e (upd rho v (rho v)) = evalR e rho) by (intros; apply evalR_ext, upd_same).
  assert (EC : forall e : exprR, Dom2 e rho -> continuous (fun y => evalR e (upd rho v y)) (rho v))
    by (intros e0 D0; apply (evalR_continuous sh); apply Dom2_Dom; exact D0).
  induction e; cbn [Dom2]; intros HD; try (apply filter_forall; intros; exact I); auto.
  - destruct HD as [H1 H2]. generalize (filter_and _ _ (IHe1 H1) (IHe2 H2)). apply filter_imp. tauto.
  - destruct HD as [H1 H2]. generalize (filter_and _ _ (IHe1 H1) (IHe2 H2)). apply filter_imp. tauto.
  - destruct HD as [H1 H2]. generalize (filter_and _ _ (IHe1 H1) (IHe2 H2)). apply filter_imp. tauto.
  - destruct HD as (H1 & H2 & H3).
    pose proof (locally_neq0 _ _ (EC e2 H2) ltac:(cbv beta; rewrite HsF; exact H3)) as L3.
    generalize (filter_and _ _ (filter_and _ _ (IHe1 H1) (IHe2 H2)) L3). apply filter_imp. tauto.
  - destruct HD as (H1 & H3). generalize (IHe H1). apply filter_imp. tauto.
  - destruct HD as (H1 & H3).
    pose proof (locally_neq0 _ _ (EC e H1) ltac:(cbv beta; rewrite HsF; exact H3)) as L3.
    generalize (filter_and _ _ (IHe H1) L3). apply filter_imp. tauto.
  - destruct HD as (H1 & H3 & H4).
    pose proof (locally_pow_dom _ _ p (EC e H1) ltac:(cbv beta; rewrite HsF; exact H3)) as L3.
    assert (L4 : locally (rho v) (fun y => pow_dom2 (evalR e (upd rho v y)) p)).
    { destruct H4 as [H4|H4]; [|apply filter_forall; intros y; right; exact H4].
      generalize (locally_pow_dom _ _ (p - 1) (EC e H1) ltac:(cbv beta; rewrite HsF; exact H4)).
      apply filter_imp. intros y Hy. left. exact Hy. }
    generalize (filter_and _ _ (IHe H1) (filter_and _ _ L3 L4)). apply filter_imp. tauto.
  - destruct HD as (H1 & H3 & H4).
    pose proof (locally_pow_dom _ _ p (EC e H1) ltac:(cbv beta; rewrite HsF; exact H3)) as L3.
    assert (L4 : locally (rho v) (fun y => pow_dom2 (evalR e (upd rho v y)) p)).
    { destruct H4 as [H4|H4]; [|apply filter_forall; intros y; right; exact H4].
      generalize (locally_pow_dom _ _ (p - 1) (EC e H1) ltac:(cbv beta; rewrite HsF; exact H4)).
      apply filter_imp. intros y Hy. left. exact Hy. }
    generalize (filter_and _ _ (IHe H1) (filter_and _ _ L3 L4)). apply filter_imp. tauto.
  - destruct HD as (H1 & H3).
    pose proof (locally_pos _ _ (EC e H1) ltac:(cbv beta; rewrite HsF; exact H3)) as L3.
    generalize (filter_and _ _ (IHe H1) L3). apply filter_imp. tauto.
  - destruct HD as (H1 & H3).
    pose proof (locally_range _ _ (EC e H1) ltac:(cbv beta; rewrite HsF; exact H3)) as L3.
    generalize (filter_and _ _ (IHe H1) L3). apply filter_imp. tauto.
  - destruct HD as (H1 & H3).
    pose proof (locally_neq0 _ _ (EC e H1) ltac:(cbv beta; rewrite HsF; exact H3)) as L3.
    generalize (filter_and _ _ (IHe H1) L3). apply filter_imp. tauto.
Qed.

(* the Hessian read back IS the matrix of second partial derivatives (Coquelicot's total Derive) *)
Theorem hessian_exact (sh : bool) (e : exprR) (rho : envR) u v : Dom2 e rho ->
  is_derive (fun y => Derive (fun x => evalR e (upd (upd rho v y) u x)) (upd rho v y u)) (rho v)
            (2 * coef2 (evalDual2 sh e rho) u v).
Proof.
  intros D.
  apply dR_ext_loc with (f := fun y => coef (evalDual sh e (upd rho v y)) u).
  - generalize (Dom2_locally sh e rho v D). apply filter_imp. intros y Dy.
    destruct (ad1_exact sh e (upd rho v y) (Dom2_Dom _ _ Dy)) as (_ & _ & Dv).
    symmetry. apply is_derive_unique. apply Dv.
  - apply hessian_pointwise. exact D.
Qed.
