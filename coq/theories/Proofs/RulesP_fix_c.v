(* vm_compute check of one generated table against Model/Rules.v (its own file so that `make -j` runs them in parallel) *)
From Coq Require Import ZArith List Bool String.
From RL Require Import Base.Outcome Model.Rules Model.RuleChecks Gen.Fixings Proofs.RulesP.
Open Scope string_scope.

Lemma fix_jpy_ok : fix_spec "tyo" fixings_jpy.
Proof. apply (fix_check_spec "jpy"). vm_cast_no_check (eq_refl true). Qed.
Lemma fix_usd_ok : fix_spec "nyc" fixings_usd.
Proof. apply (fix_check_spec "usd"). vm_cast_no_check (eq_refl true). Qed.
Lemma fix_inr_ok : fix_spec "mum" fixings_inr.
Proof. apply (fix_check_spec "inr"). vm_cast_no_check (eq_refl true). Qed.
Lemma fix_eur_ok : fix_spec "tgt" fixings_eur.
Proof. apply (fix_check_spec "eur"). vm_cast_no_check (eq_refl true). Qed.
Lemma fix_nok_ok : fix_spec "osl" fixings_nok.
Proof. apply (fix_check_spec "nok"). vm_cast_no_check (eq_refl true). Qed.
Lemma fix_sek_ok : fix_spec "stk" fixings_sek.
Proof. apply (fix_check_spec "sek"). vm_cast_no_check (eq_refl true). Qed.
