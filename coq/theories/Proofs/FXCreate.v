(* From quotes to the filled array: the seed matrices (create_initial_edges / create_initial_fx_array),
   the generic shape of create_fx_array, its outcome (Ok iff the quote graph is connected, Err
   otherwise, never Panic while n*n fits an i16) and the entry-wise invariant principle for the
   result.  Generic in the element type and its operations. *)
From Coq Require Import ZArith List Bool Lia Arith Permutation.
From RL Require Import Base.Num Base.Str Base.Outcome Model.Dual Model.Number Model.FX
  Proofs.DualP Proofs.FXMat Proofs.FXFill Proofs.FXTree.
Import ListNotations.
Local Open Scope nat_scope.

Definition idx (cs : list name) (c : name) : nat :=
  match index_of c cs with Some i => i | None => 0 end.
Definition idxs (cs : list name) (pairs : list fxpair) : list (nat * nat) :=
  map (fun p => (idx cs (p0 p), idx cs (p1 p))) pairs.

Lemma idx_lt cs c : In c cs -> idx cs c < length cs.
Proof.
  intros I. unfold idx. destruct (index_of_in _ _ I) as (i & E). rewrite E.
  apply (index_of_some _ _ _ E).
Qed.
Lemma nth_idx cs c : In c cs -> nth (idx cs c) cs [] = c.
Proof.
  intros I. unfold idx. destruct (index_of_in _ _ I) as (i & E). rewrite E.
  apply (index_of_some _ _ _ E).
Qed.
Lemma idx_nth cs i : NoDup cs -> i < length cs -> idx cs (nth i cs []) = i.
Proof. intros ND Hi. unfold idx. rewrite index_of_nth; auto. Qed.
Lemma index_of_idx cs c : In c cs -> index_of c cs = Some (idx cs c).
Proof. intros I. unfold idx. destruct (index_of_in _ _ I) as (i & E). rewrite E. reflexivity. Qed.

Definition members_in (cs : list name) (pairs : list fxpair) : Prop :=
  forall p, In p pairs -> In (p0 p) cs /\ In (p1 p) cs.

Lemma idxs_bounds cs pairs : members_in cs pairs ->
  forall c, In c (idxs cs pairs) -> fst c < length cs /\ snd c < length cs.
Proof.
  intros M c I. unfold idxs in I. apply in_map_iff in I. destruct I as (p & <- & Ip).
  destruct (M p Ip). cbn. split; apply idx_lt; auto.
Qed.

Lemma eye_einv n : einv n (eye 1%Z 0%Z n).
Proof.
  constructor.
  - apply eye_sq.
  - intros i j Hi Hj. rewrite mget_eye by auto. destruct (Nat.eqb i j); auto.
  - intros i j Hi Hj. rewrite !mget_eye by auto. rewrite (Nat.eqb_sym i j). reflexivity.
  - intros i Hi. rewrite mget_eye by auto. rewrite Nat.eqb_refl. reflexivity.
Qed.

Lemma Forall2_len {X Y} (R : X -> Y -> Prop) a b : Forall2 R a b -> length a = length b.
Proof. induction 1; cbn; auto. Qed.

Section Create.
  Context {A : Type} (ops : fxops A).

  Lemma init_edges_go_ok cs pairs : members_in cs pairs ->
    forall e, init_edges_go cs pairs e = Ok (add_edges (idxs cs pairs) e).
  Proof.
    induction pairs as [|p ps IH]; intros M e; [reflexivity|].
    destruct (M p (or_introl eq_refl)) as [I0 I1].
    cbn [init_edges_go]. rewrite (index_of_idx _ _ I0), (index_of_idx _ _ I1).
    rewrite IH by (intros x Ix; apply M; right; auto). reflexivity.
  Qed.

  Definition seed_edges (cs : list name) (pairs : list fxpair) : list (list Z) :=
    add_edges (idxs cs pairs) (eye 1%Z 0%Z (length cs)).
  Lemma init_edges_ok cs pairs : members_in cs pairs -> init_edges cs pairs = Ok (seed_edges cs pairs).
  Proof. intros M. unfold init_edges. apply init_edges_go_ok. exact M. Qed.
  Lemma seed_edges_einv cs pairs : members_in cs pairs -> einv (length cs) (seed_edges cs pairs).
  Proof. intros M. apply add_edges_einv; [apply eye_einv|apply idxs_bounds; exact M]. Qed.

  (* the generic shape of the three arms of create_fx_array *)
  Definition create_gen (cs : list name) (pairs : list fxpair) (rates : list A) : outcome (list (list A)) :=
    do edges <- init_edges cs pairs;
    do arr <- init_arr ops cs pairs rates;
    do r <- fill ops (fill_fuel (length cs)) arr edges [];
    Ok (fst r).

  Section Inv.
    Context (n : nat) (I : nat -> nat -> A -> Prop).
    Hypothesis Hmul : forall a w b x y, a < n -> w < n -> b < n ->
      I a w x -> I w b y -> I a b (fmul ops x y).
    Hypothesis Hinv : forall a b x, a < n -> b < n -> I a b x -> I b a (finv ops x).
    Hypothesis Hone : forall i, i < n -> I i i (fone ops).

    Lemma eye_populated : populated_ok ops n I (eye (fone ops) (fzero ops) n) (eye 1%Z 0%Z n).
    Proof.
      split; [apply eye_sq|]. intros i j Hi Hj Ad. unfold adj in Ad.
      rewrite mget_eye in Ad by auto. rewrite mget_eye by auto.
      destruct (Nat.eqb i j) eqn:E; [|discriminate Ad].
      apply Nat.eqb_eq in E. subst. apply Hone. exact Hi.
    Qed.

    Lemma init_arr_go_ok cs : length cs = n -> forall pairs rates arr e,
      members_in cs pairs -> sq n e -> populated_ok ops n I arr e ->
      Forall2 (fun p x => I (idx cs (p0 p)) (idx cs (p1 p)) x) pairs rates ->
      exists arr', init_arr_go ops cs pairs rates arr = Ok arr' /\
                   populated_ok ops n I arr' (add_edges (idxs cs pairs) e).
    Proof.
      intros L. induction pairs as [|p ps IH]; intros rates arr e M S P F; inversion F; subst.
      - exists arr. split; [reflexivity|exact P].
      - destruct (M p (or_introl eq_refl)) as [I0 I1].
        cbn [init_arr_go]. rewrite (index_of_idx _ _ I0), (index_of_idx _ _ I1).
        set (row := idx cs (p0 p)). set (col := idx cs (p1 p)).
        assert (Hr : row < length cs) by (apply idx_lt; auto).
        assert (Hc : col < length cs) by (apply idx_lt; auto).
        destruct P as [SA P].
        set (a1 := mset arr row col y).
        assert (SA1 : sq (length cs) a1) by (apply mset_sq; exact SA).
        assert (M1 : mget (fzero ops) a1 row col = y) by (apply (mget_mset_same (length cs)); auto).
        rewrite M1.
        destruct (add_edge_spec (length cs) e (row, col) S Hr Hc) as [S1 G1].
        cbn [idxs map add_edges fold_left]. fold (idxs cs ps). fold row col.
        apply IH; [intros x Ix; apply M; right; auto|exact S1| |assumption].
        split; [apply mset_sq; exact SA1|].
        intros i j Hi Hj Aij. rewrite (mget_mset (length cs)) by auto.
        destruct (Nat.eqb i col && Nat.eqb j row)%bool eqn:E1.
        { apply andb_true_iff in E1. destruct E1 as [E1 E2]. apply Nat.eqb_eq in E1, E2. subst i j.
          apply Hinv; auto. }
        unfold a1. rewrite (mget_mset (length cs)) by auto.
        destruct (Nat.eqb i row && Nat.eqb j col)%bool eqn:E2.
        { apply andb_true_iff in E2. destruct E2 as [E2 E3]. apply Nat.eqb_eq in E2, E3. subst i j. assumption. }
        apply P; auto. unfold adj in Aij. rewrite G1 in Aij. unfold touchb in Aij. cbn [fst snd] in Aij.
        rewrite E1, E2 in Aij. exact Aij.
    Qed.

    Lemma init_arr_ok cs pairs rates : length cs = n -> members_in cs pairs ->
      Forall2 (fun p x => I (idx cs (p0 p)) (idx cs (p1 p)) x) pairs rates ->
      exists arr, init_arr ops cs pairs rates = Ok arr /\ populated_ok ops n I arr (seed_edges cs pairs).
    Proof.
      intros L M F. unfold init_arr. rewrite (Forall2_len _ _ _ F), Nat.eqb_refl. cbn [negb].
      rewrite L. unfold seed_edges. rewrite L.
      apply init_arr_go_ok; auto; [apply eye_sq|apply eye_populated].
    Qed.
  End Inv.

  (* outcome and result of the generic creation *)
  Theorem create_gen_spec cs pairs rates (I : nat -> nat -> A -> Prop) :
    let n := length cs in
    (Z.of_nat (n * n) <= 32767)%Z ->
    (forall a w b x y, a < n -> w < n -> b < n -> I a w x -> I w b y -> I a b (fmul ops x y)) ->
    (forall a b x, a < n -> b < n -> I a b x -> I b a (finv ops x)) ->
    (forall i, i < n -> I i i (fone ops)) ->
    members_in cs pairs ->
    Forall2 (fun p x => I (idx cs (p0 p)) (idx cs (p1 p)) x) pairs rates ->
    match create_gen cs pairs rates with
    | Ok arr => connected n (seed_edges cs pairs) /\ sq n arr /\
                forall i j, i < n -> j < n -> I i j (mget (fzero ops) arr i j)
    | Err => ~ connected n (seed_edges cs pairs)
    | Panic => False
    end.
  Proof.
    intros n Hn Hmul Hinv Hone M F. unfold create_gen.
    rewrite (init_edges_ok cs pairs M). cbn [obind].
    destruct (init_arr_ok n I Hmul Hinv Hone cs pairs rates eq_refl M F) as (arr0 & E0 & P0).
    rewrite E0. cbn [obind].
    pose proof (seed_edges_einv cs pairs M) as EI. fold n in EI.
    pose proof (fill_spec ops n Hn (fill_fuel n) arr0 (seed_edges cs pairs) [] EI (NoDup_nil _)
                  (fun p (H : In p []) => match H with end) (measure_initial n _ EI)) as FS.
    fold n. destruct (fill ops (fill_fuel n) arr0 (seed_edges cs pairs) []) as [[arr' e']| |] eqn:FE.
    - cbn [obind fst]. destruct FS as (EI' & CO & BACK).
      pose proof (fill_invariant ops n I Hmul Hinv _ _ _ _ _ _ EI P0 FE) as [SA P'].
      split; [|split; [exact SA|]].
      + intros i j Hi Hj. apply BACK. apply complete_connected; auto.
      + intros i j Hi Hj. apply P'; auto.
    - exact FS.
    - exact FS.
  Qed.

  (* shape of the result, whatever the size (no i16 bound needed) *)
  Lemma Forall2_True {X Y} (a : list X) (b : list Y) : length a = length b -> Forall2 (fun _ _ => True) a b.
  Proof. revert b; induction a as [|x a IH]; intros [|y b] L; cbn in L; try discriminate; constructor; auto. Qed.
  Lemma create_gen_sq cs pairs rates arr : members_in cs pairs ->
    create_gen cs pairs rates = Ok arr -> sq (length cs) arr.
  Proof.
    intros M E. unfold create_gen in E. rewrite (init_edges_ok cs pairs M) in E. cbn [obind] in E.
    destruct (Nat.eq_dec (length pairs) (length rates)) as [L|L].
    2:{ unfold init_arr in E. apply Nat.eqb_neq in L. rewrite L in E. discriminate. }
    destruct (init_arr_ok (length cs) (fun _ _ _ => True) ltac:(intros; constructor) ltac:(intros; constructor)
                ltac:(intros; constructor) cs pairs rates eq_refl M (Forall2_True _ _ L)) as (arr0 & E0 & P0).
    rewrite E0 in E. cbn [obind] in E.
    destruct (fill ops (fill_fuel (length cs)) arr0 (seed_edges cs pairs) []) as [[arr' e']| |] eqn:FE;
      cbn [obind fst] in E; try discriminate. inversion E; subst arr'.
    pose proof (fill_invariant ops (length cs) (fun _ _ _ => True) ltac:(intros; constructor) ltac:(intros; constructor)
                  _ _ _ _ _ _ (seed_edges_einv cs pairs M) P0 FE) as [SA _]. exact SA.
  Qed.
End Create.

(* ------------------------------------------------------------------ index space <-> currency space *)
Section Graph.
  Context {T : Type} `{Num T}.

  Lemma adj_seed cs (qs : list (fxrate T)) i j :
    members_in cs (map pair qs) -> i < length cs -> j < length cs ->
    (adj (seed_edges cs (map pair qs)) i j <->
     i = j \/ exists q, In q qs /\ ((idx cs (q0 q) = i /\ idx cs (q1 q) = j) \/ (idx cs (q0 q) = j /\ idx cs (q1 q) = i))).
  Proof.
    intros M Hi Hj. unfold adj, seed_edges.
    destruct (add_edges_spec (length cs) (idxs cs (map pair qs)) _ (eye_sq 1%Z 0%Z (length cs))
                (idxs_bounds cs _ M)) as [_ G].
    rewrite G. destruct (touched _ i j) eqn:Tc.
    - split; [intros _|reflexivity]. right. apply touched_true in Tc.
      destruct Tc as (c & Ic & D). unfold idxs in Ic. apply in_map_iff in Ic.
      destruct Ic as (p & <- & Ip). apply in_map_iff in Ip. destruct Ip as (q & <- & Iq).
      cbn [fst snd] in D. exists q. split; auto. unfold q0, q1. intuition auto.
    - rewrite mget_eye by auto. split.
      + destruct (Nat.eqb i j) eqn:E; [|discriminate]. apply Nat.eqb_eq in E. auto.
      + intros [->|(q & Iq & D)]; [rewrite Nat.eqb_refl; reflexivity|]. exfalso.
        assert (Tt : touched (idxs cs (map pair qs)) i j = true).
        { destruct D as [[<- <-]|[<- <-]].
          - apply touched_intro. unfold idxs. apply in_map_iff. exists (pair q). split; auto.
            apply in_map. exact Iq.
          - rewrite touched_sym. apply touched_intro. unfold idxs. apply in_map_iff. exists (pair q).
            split; auto. apply in_map. exact Iq. }
        congruence.
  Qed.

  Lemma members_of_quotes cs (qs : list (fxrate T)) :
    (forall q, In q qs -> In (q0 q) cs /\ In (q1 q) cs) -> members_in cs (map pair qs).
  Proof. intros M p Ip. apply in_map_iff in Ip. destruct Ip as (q & <- & Iq). apply M. exact Iq. Qed.

  Lemma qconn_conn cs (qs : list (fxrate T)) : NoDup cs ->
    (forall q, In q qs -> In (q0 q) cs /\ In (q1 q) cs) ->
    forall a b, In a cs -> qconn qs a b -> In b cs /\ conn (length cs) (seed_edges cs (map pair qs)) (idx cs a) (idx cs b).
  Proof.
    intros ND M a b Ia C. induction C as [a | a b c C IH U].
    - split; auto. constructor. apply idx_lt; auto.
    - destruct (IH Ia) as [Ib Cab]. destruct U as (q & Iq & D). destruct (M q Iq) as [M0 M1].
      assert (Ic : In c cs) by (destruct D as [[_ <-]|[<- _]]; auto).
      split; auto. econstructor; [exact Cab|apply idx_lt; auto|].
      apply adj_seed; [apply members_of_quotes; auto|apply idx_lt; auto|apply idx_lt; auto|].
      right. exists q. split; auto. destruct D as [[<- <-]|[<- <-]]; auto.
  Qed.

  Lemma conn_qconn cs (qs : list (fxrate T)) :
    (forall q, In q qs -> In (q0 q) cs /\ In (q1 q) cs) ->
    forall i j, conn (length cs) (seed_edges cs (map pair qs)) i j -> qconn qs (nth i cs []) (nth j cs []).
  Proof.
    intros M i j C. induction C as [i Hi | i j k C IH Hk Ad].
    - constructor.
    - assert (Hj : j < length cs) by (eapply conn_lt_r; eauto).
      apply adj_seed in Ad; auto using members_of_quotes.
      destruct Ad as [->|(q & Iq & D)]; [exact IH|].
      econstructor; [exact IH|]. exists q. split; auto. destruct (M q Iq) as [M0 M1].
      destruct D as [[<- <-]|[<- <-]]; rewrite !nth_idx by auto; auto.
  Qed.

  Definition qconnected (cs : list name) (qs : list (fxrate T)) : Prop :=
    forall a b, In a cs -> In b cs -> qconn qs a b.

  Lemma connected_iff cs (qs : list (fxrate T)) : NoDup cs ->
    (forall q, In q qs -> In (q0 q) cs /\ In (q1 q) cs) ->
    (connected (length cs) (seed_edges cs (map pair qs)) <-> qconnected cs qs).
  Proof.
    intros ND M. split.
    - intros CO a b Ia Ib. pose proof (CO (idx cs a) (idx cs b) (idx_lt _ _ Ia) (idx_lt _ _ Ib)) as C.
      apply (conn_qconn cs qs M) in C. rewrite !nth_idx in C by auto. exact C.
    - intros QC i j Hi Hj.
      assert (Ia : In (nth i cs []) cs) by (apply nth_In; auto).
      assert (Ib : In (nth j cs []) cs) by (apply nth_In; auto).
      destruct (qconn_conn cs qs ND M _ _ Ia (QC _ _ Ia Ib)) as [_ C].
      rewrite !idx_nth in C by auto. exact C.
  Qed.
End Graph.
