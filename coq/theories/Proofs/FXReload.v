(* The market restored from its saved document.  The loader (impl TryFrom<FXRatesDataModel> for FXRates, Model/Json.v
   rebuild_fx) calls try_new again on the saved quotes with the FIRST SAVED CURRENCY as base: the rebuilt market lists the
   same currencies in the same order and returns the same rate for every pair — whatever base the original was built with. *)
From Coq Require Import Reals ZArith List Bool Permutation Lra Lia.
From RL Require Import Base.Num Base.Str Base.NumR Base.Outcome Model.Dual Model.Number Model.FX
  Proofs.FXMat Proofs.FXFill Proofs.FXTree Proofs.FXCreate Proofs.FXP Proofs.FXAcc Proofs.FXH.
Import ListNotations.
Local Open Scope R_scope.

Lemma tree_cs_nonempty cs (qs : list (fxrate R)) : tree_quotes cs qs -> cs <> [].
Proof.
  induction 1 as [c|cs qs q _ _ _ _|cs qs q _ _ _ _|cs cs' qs qs' _ IH P _]; try discriminate.
  intros ->. apply Permutation_sym, Permutation_nil in P. exact (IH P).
Qed.

Lemma reload_same_market cs (qs : list (fxrate R)) base fx :
  tree_quotes cs qs -> qs <> [] -> base_ok cs base -> settlement_consistent qs = true ->
  (length cs <= 181)%nat -> quotes_nonzero qs ->
  fx_try_new qs base = Ok fx ->
  exists fx', fx_try_new (fx_rates fx) (Some (hd [] (currencies fx))) = Ok fx' /\
    currencies fx' = currencies fx /\ fx_rates fx' = fx_rates fx /\
    forall a b, In a cs -> In b cs -> rate_val fx a b = rate_val fx' a b.
Proof.
  intros TQ NE BO SC Hn NZ E.
  destruct (market_complete cs qs base TQ NE BO SC Hn NZ) as (fx0 & E0 & R0 & C0 & P0 & _).
  rewrite E in E0. inversion E0; subst fx0; clear E0.
  assert (BO' : base_ok cs (Some (hd [] (currencies fx)))).
  { cbn. apply (Permutation_in _ P0). destruct (currencies fx) as [|c l] eqn:Ec.
    - apply Permutation_nil in P0. exfalso. exact (tree_cs_nonempty cs qs TQ P0).
    - left; reflexivity. }
  destruct (market_complete cs qs (Some (hd [] (currencies fx))) TQ NE BO' SC Hn NZ) as (fx' & E' & R' & C' & P' & _).
  exists fx'. rewrite R0. split; [exact E'|]. split; [|split].
  - rewrite C', C0. apply ccy_index_rebase. exact NE.
  - rewrite R'. reflexivity.
  - intros a b Ia Ib. eapply (rate_order_base_free cs qs qs base (Some (hd [] (currencies fx)))); eauto.
Qed.
