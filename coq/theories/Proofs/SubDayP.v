(* Sub-day datetimes: the predicates a datetime (d, t) sees are those of the calendar `cal_at c t` on the day d, so every
   C05 theorem (stated over ANY bus / settle predicates) holds for datetimes with a time of day, the time carried through. *)
From Coq Require Import ZArith List Bool Lia.
From RL Require Import Base.Outcome Model.Dates Model.Calendar Model.SubDay.
Import ListNotations.
Open Scope Z_scope.

Lemma cal_is_bus_dt_at c d t : cal_is_bus_dt c d t = cal_is_bus (cal_at c t) d.
Proof.
  unfold cal_is_bus_dt, cal_is_holiday_dt, cal_at, cal_is_bus, cal_is_weekday, cal_is_holiday.
  destruct (t =? 0); cbn [andb cal_strip c_mask c_hols zmem existsb negb]; reflexivity.
Qed.

Lemma cal_is_bus_dt_midnight c d : cal_is_bus_dt c d 0 = cal_is_bus c d.
Proof. rewrite cal_is_bus_dt_at; reflexivity. Qed.

Lemma cal_is_bus_dt_subday c d t : t <> 0 -> cal_is_bus_dt c d t = cal_is_weekday c d.
Proof.
  intros Ht. unfold cal_is_bus_dt, cal_is_holiday_dt.
  destruct (Z.eqb_spec t 0) as [E|_]; [contradiction|]. cbn [andb negb]. apply andb_true_r.
Qed.

Lemma existsb_map {A B} (f : A -> B) (p : B -> bool) l : existsb p (map f l) = existsb (fun x => p (f x)) l.
Proof. induction l as [|x l IH]; cbn [map existsb]; [reflexivity | rewrite IH; reflexivity]. Qed.
Lemma forallb_map {A B} (f : A -> B) (p : B -> bool) l : forallb p (map f l) = forallb (fun x => p (f x)) l.
Proof. induction l as [|x l IH]; cbn [map forallb]; [reflexivity | rewrite IH; reflexivity]. Qed.
Lemma existsb_ext' {A} (p q : A -> bool) l : (forall x, p x = q x) -> existsb p l = existsb q l.
Proof. intros H; induction l as [|x l IH]; cbn [existsb]; [reflexivity | rewrite H, IH; reflexivity]. Qed.

Theorem ucal_is_bus_dt_at u d t : ucal_is_bus_dt u d t = ucal_is_bus (ucal_at u t) d.
Proof.
  unfold ucal_at. destruct (Z.eqb_spec t 0) as [->|Ht].
  - unfold ucal_is_bus_dt, ucal_is_bus, ucal_is_holiday_dt, ucal_is_holiday.
    rewrite (existsb_ext' (fun c => cal_is_holiday_dt c d 0) (fun c => cal_is_holiday c d)); [reflexivity|].
    intros c. unfold cal_is_holiday_dt. reflexivity.
  - unfold ucal_is_bus_dt, ucal_is_bus, ucal_is_holiday_dt, ucal_is_holiday, ucal_is_weekday, ucal_strip.
    cbn [u_cals]. rewrite forallb_map, existsb_map.
    rewrite (existsb_ext' (fun c => cal_is_holiday_dt c d t) (fun c => zmem d (c_hols (cal_strip c)))); [reflexivity|].
    intros c. unfold cal_is_holiday_dt, cal_strip. cbn [c_hols zmem existsb].
    destruct (Z.eqb_spec t 0) as [E|_]; [contradiction | reflexivity].
Qed.

Theorem ucal_is_settle_dt_at u d t : ucal_is_settle_dt u d t = ucal_is_settle (ucal_at u t) d.
Proof.
  unfold ucal_at. destruct (Z.eqb_spec t 0) as [->|Ht].
  - unfold ucal_is_settle_dt, ucal_is_settle. destruct (u_settle u) as [v|]; [|reflexivity].
    rewrite (existsb_ext' (fun c => negb (cal_is_bus_dt c d 0)) (fun c => negb (cal_is_bus c d))); [reflexivity|].
    intros c. rewrite cal_is_bus_dt_midnight. reflexivity.
  - unfold ucal_is_settle_dt, ucal_is_settle, ucal_strip. cbn [u_settle].
    destruct (u_settle u) as [v|]; cbn [option_map]; [|reflexivity].
    rewrite existsb_map.
    rewrite (existsb_ext' (fun c => negb (cal_is_bus_dt c d t)) (fun c => negb (cal_is_bus (cal_strip c) d))); [reflexivity|].
    intros c. rewrite cal_is_bus_dt_at. unfold cal_at. destruct (Z.eqb_spec t 0) as [E|_]; [contradiction | reflexivity].
Qed.

(* non-vacuity: a Wednesday holiday; at 15:00 the same day is a business day for the code as it stands *)
Example subday_witness :
  cal_is_bus_dt (mkCal [5; 6] [20082]) 20082 0 = false /\ cal_is_bus_dt (mkCal [5; 6] [20082]) 20082 54000 = true.
Proof. split; vm_compute; reflexivity. Qed.

Print Assumptions ucal_is_bus_dt_at.
Print Assumptions ucal_is_settle_dt_at.
