(* Converse of completeness: a quote list that try_new ACCEPTS is tree-shaped.  Graph theory: a connected
   graph with n vertices and n-1 edges (loops and parallel edges allowed a priori) has a vertex of
   degree one; removing it keeps the graph connected; hence the edges can be attached leaf by leaf. *)
From Coq Require Import Reals ZArith List Bool Lia Arith Permutation.
From RL Require Import Base.Num Base.Str Base.NumR Base.Outcome Model.Dual Model.Number Model.FX
  Proofs.DualP Proofs.FXMat Proofs.FXFill Proofs.FXTree Proofs.FXCreate Proofs.FXP.
Import ListNotations.
Local Open Scope nat_scope.

Section Acc.
Context {T : Type} `{Num T}.
Notation quote := (fxrate T).

Definition b2n (b : bool) : nat := if b then 1 else 0.
Definition touch (v : name) (q : quote) : nat := b2n (name_eqb (q0 q) v) + b2n (name_eqb (q1 q) v).
Definition deg (qs : list quote) (v : name) : nat := list_sum (map (touch v) qs).

Lemma deg_app l1 l2 v : deg (l1 ++ l2) v = deg l1 v + deg l2 v.
Proof. unfold deg. rewrite map_app, list_sum_app. reflexivity. Qed.
Lemma deg_cons q l v : deg (q :: l) v = touch v q + deg l v.
Proof. reflexivity. Qed.

Lemma list_sum_cons a l : list_sum (a :: l) = a + list_sum l.
Proof. reflexivity. Qed.
Lemma count_zero (cs : list name) c : ~ In c cs -> list_sum (map (fun v => b2n (name_eqb c v)) cs) = 0.
Proof.
  induction cs as [|y cs IH]; intros NI; [reflexivity|]. cbn [map]. rewrite list_sum_cons.
  assert (E : name_eqb c y = false) by (apply name_eqb_neq; intros ->; apply NI; left; reflexivity).
  rewrite E, IH; [reflexivity|]. intros C. apply NI. right; exact C.
Qed.
Lemma count_one (cs : list name) c : NoDup cs -> In c cs ->
  list_sum (map (fun v => b2n (name_eqb c v)) cs) = 1.
Proof.
  induction 1 as [|x cs NI ND IH]; intros I; [contradiction|]. cbn [map]. rewrite list_sum_cons.
  destruct I as [E|I].
  - subst c. rewrite name_eqb_refl, (count_zero cs x NI). reflexivity.
  - assert (E : name_eqb c x = false) by (apply name_eqb_neq; intros ->; contradiction).
    rewrite E, IH by exact I. reflexivity.
Qed.

Lemma count_one' (cs : list name) c : NoDup cs -> In c cs ->
  list_sum (map (fun v => b2n (name_eqb c v)) cs) = 1.
Proof. apply count_one. Qed.

Lemma list_sum_add {X} (f g : X -> nat) l :
  list_sum (map (fun x => f x + g x) l) = list_sum (map f l) + list_sum (map g l).
Proof. induction l as [|x l IH]; [reflexivity|]. cbn [map]. rewrite !list_sum_cons, IH. lia. Qed.

Lemma deg_total (cs : list name) (qs : list quote) : NoDup cs ->
  (forall q, In q qs -> In (q0 q) cs /\ In (q1 q) cs) ->
  list_sum (map (deg qs) cs) = 2 * length qs.
Proof.
  intros ND. induction qs as [|x l IH]; intros M.
  - unfold deg. cbn [map length]. clear. induction cs as [|c cs IHc]; [reflexivity|].
    cbn [map]. rewrite list_sum_cons, IHc. reflexivity.
  - replace (map (deg (x :: l)) cs) with (map (fun v => touch v x + deg l v) cs) by reflexivity.
    rewrite list_sum_add. rewrite IH by (intros y Iy; apply M; right; exact Iy).
    unfold touch. rewrite list_sum_add.
    destruct (M x (or_introl eq_refl)) as [M0 M1].
    rewrite (count_one' cs (q0 x) ND M0), (count_one' cs (q1 x) ND M1). cbn [length]. lia.
Qed.

Lemma small_degree (f : name -> nat) (l : list name) :
  list_sum (map f l) < 2 * length l -> exists v, In v l /\ f v < 2.
Proof.
  induction l as [|x l IH]; [cbn; lia|]. cbn [map length]. rewrite list_sum_cons. intros L.
  destruct (lt_dec (f x) 2) as [S|S]; [exists x; split; [left; reflexivity|exact S]|].
  destruct IH as (v & Iv & Fv); [lia|]. exists v. split; [right; exact Iv|exact Fv].
Qed.

Lemma touch_pos v q : (q0 q = v \/ q1 q = v) -> 1 <= touch v q.
Proof.
  unfold touch. intros [<-|<-]; rewrite name_eqb_refl; cbn [b2n]; lia.
Qed.
Lemma touch_zero v q : touch v q = 0 -> q0 q <> v /\ q1 q <> v.
Proof.
  unfold touch. destruct (name_eqb (q0 q) v) eqn:E0, (name_eqb (q1 q) v) eqn:E1; cbn [b2n]; try lia.
  intros _. split; apply name_eqb_neq; assumption.
Qed.
Lemma deg_zero qs v : deg qs v = 0 -> forall q, In q qs -> q0 q <> v /\ q1 q <> v.
Proof.
  induction qs as [|x qs IH]; intros D q I; [contradiction|]. rewrite deg_cons in D.
  destruct I as [<-|I]; [apply touch_zero; lia|apply IH; [lia|exact I]].
Qed.
Lemma deg_pos qs v q : In q qs -> (q0 q = v \/ q1 q = v) -> 1 <= deg qs v.
Proof.
  induction qs as [|x qs IH]; intros I D; [contradiction|]. rewrite deg_cons.
  destruct I as [<-|I]; [pose proof (touch_pos v x D); lia|]. specialize (IH I D). lia.
Qed.

(* a vertex of degree one: exactly one position of the list touches it, with its other end elsewhere *)
Lemma deg_one_split qs v : deg qs v = 1 ->
  exists l1 q l2, qs = l1 ++ q :: l2 /\ deg (l1 ++ l2) v = 0 /\
    ((q0 q = v /\ q1 q <> v) \/ (q1 q = v /\ q0 q <> v)).
Proof.
  induction qs as [|x qs IH]; intros D; [discriminate|]. rewrite deg_cons in D.
  destruct (touch v x) as [|[|k]] eqn:Tx.
  - destruct (IH D) as (l1 & q & l2 & E & Z & O). exists (x :: l1), q, l2.
    split; [rewrite E; reflexivity|]. split; [|exact O].
    change ((x :: l1) ++ l2) with (x :: (l1 ++ l2)). rewrite deg_cons, Tx, Z. reflexivity.
  - exists [], x, qs. split; [reflexivity|]. split; [cbn [app]; lia|].
    unfold touch in Tx. destruct (name_eqb (q0 x) v) eqn:E0, (name_eqb (q1 x) v) eqn:E1; cbn [b2n] in Tx; try lia.
    + left. split; [apply name_eqb_eq; exact E0|apply name_eqb_neq; exact E1].
    + right. split; [apply name_eqb_eq; exact E1|apply name_eqb_neq; exact E0].
  - lia.
Qed.

Lemma qconn_first_edge (qs : list quote) a b : qconn qs a b -> a <> b -> exists q, In q qs /\ (q0 q = a \/ q1 q = a).
Proof.
  induction 1 as [a | a b c C IH U]; intros N; [contradiction|].
  destruct (name_dec a b) as [<-|NB].
  - destruct U as (q & I & D). exists q. split; auto. tauto.
  - apply IH. exact NB.
Qed.

(* removing a leaf keeps the rest connected *)
Lemma remove_leaf_conn (l1 l2 : list quote) q v u :
  deg (l1 ++ l2) v = 0 -> ((q0 q = v /\ q1 q = u) \/ (q1 q = v /\ q0 q = u)) -> u <> v ->
  forall a b, qconn (l1 ++ q :: l2) a b -> a <> v ->
    (b <> v -> qconn (l1 ++ l2) a b) /\ (b = v -> qconn (l1 ++ l2) a u).
Proof.
  intros Z Q NU a b C Na. induction C as [a | a b c C IH U].
  - split; [intros _; constructor|intros ->; contradiction].
  - specialize (IH Na). destruct IH as [IH1 IH2]. destruct U as (x & Ix & D).
    apply in_app_or in Ix. destruct Ix as [Ix|[<-|Ix]].
    + destruct (deg_zero _ _ Z x (in_or_app _ _ _ (or_introl Ix))) as [X0 X1].
      assert (Nb : b <> v) by (destruct D as [[<- _]|[_ <-]]; assumption).
      assert (Nc : c <> v) by (destruct D as [[_ <-]|[<- _]]; assumption).
      split; [intros _|intros ->; contradiction].
      econstructor; [apply IH1; exact Nb|]. exists x. split; [apply in_or_app; left; exact Ix|exact D].
    + (* the leaf edge itself *)
      destruct Q as [[Qv Qu]|[Qv Qu]], D as [[Db Dc]|[Db Dc]]; subst.
      * (* b = q0 = v, c = q1 = u *) split; [intros _; apply IH2; reflexivity|intros E; contradiction (NU E)].
      * (* c = q0 = v, b = q1 = u *) split; [intros C'; contradiction C'; reflexivity|intros _; apply IH1; exact NU].
      * (* b = q0 = u, c = q1 = v *) split; [intros C'; contradiction C'; reflexivity|intros _; apply IH1; exact NU].
      * (* c = q0 = u, b = q1 = v *) split; [intros _; apply IH2; reflexivity|intros E; contradiction (NU E)].
    + destruct (deg_zero _ _ Z x (in_or_app _ _ _ (or_intror Ix))) as [X0 X1].
      assert (Nb : b <> v) by (destruct D as [[<- _]|[_ <-]]; assumption).
      assert (Nc : c <> v) by (destruct D as [[_ <-]|[<- _]]; assumption).
      split; [intros _|intros ->; contradiction].
      econstructor; [apply IH1; exact Nb|]. exists x. split; [apply in_or_app; right; exact Ix|exact D].
Qed.

Lemma remove_In (cs : list name) v : NoDup cs -> In v cs ->
  exists cs', Permutation cs (v :: cs') /\ NoDup cs' /\ ~ In v cs' /\ length cs = S (length cs').
Proof.
  intros ND I. destruct (in_split _ _ I) as (l1 & l2 & ->).
  exists (l1 ++ l2). split; [apply Permutation_sym, Permutation_middle|].
  apply NoDup_remove in ND. destruct ND as [ND NI]. split; [exact ND|]. split; [exact NI|].
  rewrite !app_length. cbn. lia.
Qed.

Theorem connected_count_tree : forall n (cs : list name) (qs : list quote),
  length qs = n -> NoDup cs -> length cs = S (length qs) ->
  (forall q, In q qs -> In (q0 q) cs /\ In (q1 q) cs) ->
  (forall a b, In a cs -> In b cs -> qconn qs a b) ->
  tree_quotes cs qs.
Proof.
  induction n as [|n IH]; intros cs qs Ln ND L M CO.
  - destruct qs; [|discriminate]. destruct cs as [|c [|]]; cbn in L; try discriminate. constructor.
  - (* a vertex of degree < 2 exists, and every vertex has degree >= 1 *)
    pose proof (deg_total cs qs ND M) as DT.
    destruct (small_degree (deg qs) cs) as (v & Iv & Dv); [lia|].
    assert (D1 : 1 <= deg qs v).
    { (* another vertex exists; the walk to it starts with an edge at v *)
      destruct (remove_In cs v ND Iv) as (cs' & PM & _ & NI & Lc).
      destruct cs' as [|w cs'']; [cbn in Lc; lia|].
      assert (Iw : In w cs) by (eapply Permutation_in; [apply Permutation_sym; exact PM|right; left; reflexivity]).
      assert (Nw : v <> w) by (intros ->; apply NI; left; reflexivity).
      destruct (qconn_first_edge qs v w (CO v w Iv Iw) Nw) as (q & Iq & Dq).
      eapply deg_pos; eauto. }
    assert (DV : deg qs v = 1) by lia.
    destruct (deg_one_split qs v DV) as (l1 & q & l2 & E & Z & O).
    destruct (remove_In cs v ND Iv) as (cs' & PM & ND' & NI & Lc).
    assert (Iq : In q qs) by (rewrite E; apply in_or_app; right; left; reflexivity).
    destruct (M q Iq) as [M0 M1].
    assert (TQ' : tree_quotes cs' (l1 ++ l2)).
    { apply (IH cs' (l1 ++ l2)).
      - rewrite E, app_length in Ln. cbn in Ln. rewrite app_length. lia.
      - exact ND'.
      - rewrite E, app_length in L. cbn in L. rewrite app_length. lia.
      - intros x Ix. assert (Ix' : In x qs).
        { rewrite E. apply in_app_or in Ix. apply in_or_app. destruct Ix; [left|right; right]; assumption. }
        destruct (M x Ix') as [A B]. destruct (deg_zero _ _ Z x Ix) as [X0 X1].
        split.
        + apply (Permutation_in _ PM) in A. destruct A as [A|A]; [congruence|exact A].
        + apply (Permutation_in _ PM) in B. destruct B as [B|B]; [congruence|exact B].
      - intros a b Ia Ib.
        assert (Na : a <> v) by (intros ->; contradiction).
        assert (Nb : b <> v) by (intros ->; contradiction).
        assert (Ia' : In a cs) by (eapply Permutation_in; [apply Permutation_sym; exact PM|right; exact Ia]).
        assert (Ib' : In b cs) by (eapply Permutation_in; [apply Permutation_sym; exact PM|right; exact Ib]).
        pose proof (CO a b Ia' Ib') as C. rewrite E in C.
        destruct O as [[Q0 Q1]|[Q1 Q0]].
        + apply (remove_leaf_conn l1 l2 q v (q1 q) Z (or_introl (conj Q0 eq_refl)) Q1 a b C Na). exact Nb.
        + apply (remove_leaf_conn l1 l2 q v (q0 q) Z (or_intror (conj Q1 eq_refl)) Q0 a b C Na). exact Nb. }
    (* attach the leaf again *)
    apply (tq_perm (v :: cs') cs (q :: (l1 ++ l2)) qs).
    + destruct O as [[Q0 Q1]|[Q1 Q0]].
      * (* q = (v, other): v is the base side: backward attachment *)
        rewrite <- Q0. apply tq_bwd; [exact TQ'| |rewrite Q0; exact NI].
        apply (Permutation_in _ PM) in M1. destruct M1 as [A|A]; [congruence|exact A].
      * rewrite <- Q1. apply tq_fwd; [exact TQ'| |rewrite Q1; exact NI].
        apply (Permutation_in _ PM) in M0. destruct M0 as [A|A]; [congruence|exact A].
    + apply Permutation_sym. exact PM.
    + rewrite E. apply Permutation_middle.
Qed.

End Acc.

(* an accepted quote list is tree-shaped over its currency index *)
Theorem accepted_is_tree (qs : list (fxrate R)) base fx :
  (length (ccy_index qs base) <= 181)%nat -> fx_try_new qs base = Ok fx ->
  tree_quotes (ccy_index qs base) qs.
Proof.
  intros Hn E. destruct (try_new_ok_inv _ _ _ E) as (NE & L & SC).
  apply (connected_count_tree (length qs)); auto.
  - apply ccy_index_NoDup.
  - rewrite L. lia.
  - apply ccy_index_members.
  - exact (try_new_ok_connected qs base fx Hn E).
Qed.

(* cyclic / over- / under-specified / disconnected quote lists: everything that is not a tree is an error *)
Theorem non_tree_rejected (qs : list (fxrate R)) base :
  (length (ccy_index qs base) <= 181)%nat -> ~ tree_quotes (ccy_index qs base) qs -> fx_try_new qs base = Err.
Proof.
  intros Hn NT. destruct (fx_try_new qs base) as [fx| |] eqn:E.
  - exfalso. apply NT. eapply accepted_is_tree; eauto.
  - reflexivity.
  - exfalso. exact (try_new_no_panic qs base Hn E).
Qed.
